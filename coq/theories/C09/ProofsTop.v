(* C09 - the statements exported by Props.v, assembled from the previous files, and non-vacuity examples. *)
From Coq Require Import ZArith List Bool Arith Lia ZifyBool Permutation.
Import ListNotations.
Require Import MV.Lib.Base MV.C09.Gen MV.C09.Model MV.C09.ProofsDijkstra MV.C09.ProofsQueue MV.C09.ProofsMesh
        MV.C09.ProofsSet.
Open Scope Z_scope.

(* the hypotheses under which the abstract Dijkstra theorem speaks about a graph *)
Record graph_ok (nbrs : Z -> list Z) (w : Z -> Z -> Z) (verts : list Z) (start : Z) : Prop := {
  g_nodup : NoDup verts;
  g_closed : forall u v, In u verts -> In v (nbrs u) -> In v verts;
  g_nonneg : forall u v, In u verts -> In v (nbrs u) -> 0 <= w u v;
  g_start : In start verts
}.

Definition strict_gt (gt : Z -> Z -> bool) : Prop := forall a b, gt a b = true <-> b < a.

(* a vertex list from start to t along nbrs, with its weight *)
Definition is_path (nbrs : Z -> list Z) (start t : Z) (p : list Z) : Prop :=
  p <> [] /\ hd 0 p = start /\ last p 0 = t /\ chainP (fun a b => In b (nbrs a)) p.

Lemma dijkstra_fuel Q qempty qpush qpop content qinv nbrs w gt verts start :
  pq_contract Q qempty qpush qpop content qinv -> strict_gt gt -> graph_ok nbrs w verts start ->
  exists st, dijkstra Q qpush qpop nbrs w gt (fuel_of nbrs verts) qempty start = Ok st.
Proof.
  intros PQ G [H1 H2 H3 H4].
  destruct (dijkstra_terminates Q qempty qpush qpop content qinv PQ nbrs w gt G verts H1 H2 H3 start H4) as [s [ord [H _]]].
  eauto.
Qed.

Lemma dijkstra_correct Q qempty qpush qpop content qinv nbrs w gt verts start :
  pq_contract Q qempty qpush qpop content qinv -> strict_gt gt -> graph_ok nbrs w verts start ->
  exists st, dijkstra Q qpush qpop nbrs w gt (fuel_of nbrs verts) qempty start = Ok st /\
    (* dist = delta on the reachable vertices, infinite elsewhere *)
    (forall t p, is_path nbrs start t p -> exists d, zget (dist st) t = Some d /\ d <= path_weight w p) /\
    (* the back-tracked list is an edge path from start to t of weight dist t; fuel |V| suffices *)
    (forall t d, zget (dist st) t = Some d ->
       exists p, back (length verts) (pred st) start t [] = Ok p /\ is_path nbrs start t p /\ path_weight w p = d).
Proof.
  intros PQ G [H1 H2 H3 H4].
  destruct (dijkstra_terminates Q qempty qpush qpop content qinv PQ nbrs w gt G verts H1 H2 H3 start H4) as [s [ord [H F]]].
  exists s. split; [exact H|]. split.
  - intros t p [P1 [P2 [P3 P4]]].
    pose proof (chain_walkc nbrs w start p P1 P2 P4) as W. rewrite P3 in W.
    destruct (final_reachable _ _ _ _ _ _ _ _ _ _ F W) as [d Hd]. exists d. split; [exact Hd|].
    destruct (final_dist_optimal _ _ _ _ _ _ _ _ _ _ F Hd) as [_ Opt]. apply Opt. exact W.
  - intros t d Hd.
    destruct (back_correct Q content qinv nbrs w verts H2 start H4 s ord t d (length verts) F Hd (le_n _))
      as [p [Hb [[G1 [G2 [G3 [G4 G5]]]] _]]].
    exists p. split; [exact Hb|]. split; [repeat split; assumption|]. congruence.
Qed.

Lemma modes_ok m ws :
  sp_arity ws = sp_call_arity /\
  (forall a b, sp_weight m ws a b = mweight m ws a b) /\
  (forall a b, a <> sentinel -> b <> sentinel -> set_weight m ws a b = mweight m ws a b) /\
  (forall a b, mweight m WOne a b = 1).
Proof.
  split; [apply sp_arity_ok|]. split; [apply sp_weight_eq|]. split; [apply set_weight_eq|]. reflexivity.
Qed.

Lemma relax_strict : strict_gt relax_sp /\ strict_gt relax_set.
Proof. split; intros a b; [apply relax_sp_spec | apply relax_set_spec]. Qed.

(* ------------------------------------------------------------------ non-vacuity *)
(* a square 0-1-2-3 with a diagonal 0-2 and a pendant vertex 4 joined to 2; border = {0,1,3} (as if) *)
Definition ex_mesh : mesh :=
  mkmesh 5 [(0, 1); (1, 2); (2, 3); (0, 3); (0, 2); (4, 2)]
         [[1; 3; 2]; [0; 2]; [1; 3; 0; 4]; [2; 0]; [2]] [0; 1; 3].
Definition ex_ws : wspec := WCustom [1; 1; 1; 5; 3; 0].
Definition ex_pts : wspec := WLength [(0,0,0); (3,0,0); (3,4,0); (0,4,0); (3,4,12)].

Example ex_mesh_ok : mesh_ok ex_mesh ex_ws = true /\ mesh_ok ex_mesh WOne = true /\ mesh_ok ex_mesh ex_pts = true.
Proof. vm_compute. auto. Qed.

Example ex_connected : valid_path ex_mesh 0 4 [0; 2; 4] = true /\ is_vertex ex_mesh 0 = true.
Proof. vm_compute. auto. Qed.

(* the theorems' conclusions are met by running the model with the proved list queue *)
Example ex_run_sp : shortest_path lq [] lq_push lq_pop ex_mesh ex_ws 0 [3; 4] = Ok [(3, [0; 1; 2; 3]); (4, [0; 1; 2; 4])].
Proof. vm_compute. reflexivity. Qed.

(* vertex 5 is isolated: its entry is the empty path, the other targets keep theirs *)
Definition ex_mesh2 : mesh :=
  mkmesh 6 [(0, 1); (1, 2); (2, 3); (0, 3); (0, 2); (4, 2)]
         [[1; 3; 2]; [0; 2]; [1; 3; 0; 4]; [2; 0]; [2]; []] [0; 1; 3].
Example ex_run_sp_mixed : mesh_ok ex_mesh2 ex_ws = true /\
  shortest_path lq [] lq_push lq_pop ex_mesh2 ex_ws 0 [3; 5] = Ok [(3, [0; 1; 2; 3]); (5, [])].
Proof. vm_compute. auto. Qed.

Lemma single_target_forms : forall k, single_accepts k = true.
Proof. intros [|]; reflexivity. Qed.

Example ex_run_set : shortest_path_to_vertex_set lq [] lq_push lq_pop ex_mesh ex_pts 0 [4; 3] = Ok (3, [0; 3]).
Proof. vm_compute. reflexivity. Qed.

Example ex_run_set_single : shortest_path_to_vertex_set lq [] lq_push lq_pop ex_mesh WOne 1 [4] = Ok (4, [1; 2; 4]).
Proof. vm_compute. reflexivity. Qed.

Example ex_run_set_inside : shortest_path_to_vertex_set lq [] lq_push lq_pop ex_mesh WOne 3 [4; 3] = Ok (3, [3]).
Proof. vm_compute. reflexivity. Qed.

Example ex_run_border : shortest_path_to_border lq [] lq_push lq_pop ex_mesh ex_ws 4 = Ok [4; 2; 3].
Proof. vm_compute. reflexivity. Qed.

Example ex_graph_ok : graph_ok (sp_nbrs ex_mesh) (sp_weight ex_mesh ex_ws) (zrange 5) 0.
Proof.
  constructor.
  - apply NoDup_zrange.
  - intros u v Hu. apply In_zrange in Hu.
    assert (C : u = 0 \/ u = 1 \/ u = 2 \/ u = 3 \/ u = 4) by lia.
    destruct C as [->|[->|[->|[->| ->]]]]; vm_compute; intuition (subst; auto 10).
  - intros u v _ _. rewrite sp_weight_eq. apply mweight_nonneg. vm_compute. reflexivity.
  - vm_compute. auto.
Qed.

(* ------------------------------------------------------------------ the executed instance (heapq) *)
(* `run_sp`, `run_set`, `run_border` are the functions the correspondence batches evaluate against the implementation *)
Lemma run_sp_correct m ws start targets :
  mesh_ok m ws = true -> is_vertex m start = true ->
  forallb (is_vertex m) targets = true ->
  exists l, run_sp m ws start targets = Ok l
            /\ Forall2 (fun t tp => fst tp = t /\ target_answer m ws start t (snd tp)) (dedup targets) l.
Proof. intros. apply (shortest_path_correct hq [] hq_push hq_pop hq_content hq_inv hq_contract); assumption. Qed.

Lemma run_set_correct m ws start T :
  mesh_ok m ws = true -> is_vertex m start = true -> forallb (is_vertex m) T = true ->
  (exists t0 p0, In t0 T /\ valid_path m start t0 p0 = true) ->
  exists ind p, run_set m ws start T = Ok (ind, p) /\ nearest m ws start T ind p.
Proof. intros. apply (vertex_set_correct hq [] hq_push hq_pop hq_content hq_inv hq_contract); assumption. Qed.

Lemma run_border_correct m ws start :
  mesh_ok m ws = true -> is_vertex m start = true ->
  border m <> [] -> forallb (is_vertex m) (border m) = true ->
  (exists t0 p0, In t0 (border m) /\ valid_path m start t0 p0 = true) ->
  exists p, run_border m ws start = Ok p /\ nearest m ws start (border m) (last p start) p.
Proof. intros. apply (border_correct hq [] hq_push hq_pop hq_content hq_inv hq_contract); assumption. Qed.

Example ex_run_heap : run_sp ex_mesh ex_ws 0 [3; 4] = Ok [(3, [0; 1; 2; 3]); (4, [0; 1; 2; 4])]
                      /\ run_set ex_mesh ex_pts 0 [4; 3] = Ok (3, [0; 3]).
Proof. vm_compute. auto. Qed.

Lemma executed_model_correct : forall m ws start,
  mesh_ok m ws = true -> is_vertex m start = true ->
  (forall targets, forallb (is_vertex m) targets = true ->
     exists l, run_sp m ws start targets = Ok l
               /\ Forall2 (fun t tp => fst tp = t /\ target_answer m ws start t (snd tp)) (dedup targets) l) /\
  (forall T, forallb (is_vertex m) T = true -> (exists t0 p0, In t0 T /\ valid_path m start t0 p0 = true) ->
     exists ind p, run_set m ws start T = Ok (ind, p) /\ nearest m ws start T ind p) /\
  (border m <> [] -> forallb (is_vertex m) (border m) = true ->
   (exists t0 p0, In t0 (border m) /\ valid_path m start t0 p0 = true) ->
     exists p, run_border m ws start = Ok p /\ nearest m ws start (border m) (last p start) p).
Proof.
  intros m ws start H1 H2. split; [|split].
  - intros. apply run_sp_correct; assumption.
  - intros. apply run_set_correct; assumption.
  - intros. apply run_border_correct; assumption.
Qed.

Example ex_border_ok : border ex_mesh <> [] /\ forallb (is_vertex ex_mesh) (border ex_mesh) = true
                       /\ forallb (is_vertex ex_mesh) [4; 3] = true.
Proof. split; [discriminate | vm_compute; auto]. Qed.

Lemma single_target_forms_ok : (forall k, single_accepts k = true) /\
  forall Q qempty qpush qpop m ws start k t,
    shortest_path1 Q qempty qpush qpop m ws start k t = shortest_path Q qempty qpush qpop m ws start [t].
Proof. split; [exact single_target_forms|]. intros. apply single_forms. Qed.

(* both Dijkstra loops sum their distances in a float accumulator (see Model.acc_float) *)
Lemma accumulator_float : sp_init_dist_float = true /\ set_init_dist_float = true /\ acc_float = true.
Proof. repeat split; reflexivity. Qed.

Lemma defaults_hold : default_weights_is_length = true /\ default_export_is_false = true /\ defaults_ok = true.
Proof. repeat split; reflexivity. Qed.
