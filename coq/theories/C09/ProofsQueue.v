(* C09 - the list queue (extract-first-minimum) meets the priority-queue contract: the contract is satisfiable, and
   this is the instance the correspondence cross-checks the executed heap against. *)
From Coq Require Import ZArith List Bool Arith Lia Permutation.
Import ListNotations.
Require Import MV.Lib.Base MV.C09.Gen MV.C09.Model MV.C09.ProofsDijkstra.
Open Scope Z_scope.

Definition lq_content (q : lq) : list (Z * Z) := map (fun kx => (snd kx, fst kx)) q.

Lemma lq_min_none l : lq_min l = None -> l = [].
Proof.
  destruct l as [|a t]; [reflexivity|]. simpl. destruct (lq_min t) as [[m r]|]; [|discriminate].
  destruct (fst m <? fst a); discriminate.
Qed.

Lemma lq_min_spec : forall l m r, lq_min l = Some (m, r) ->
  Permutation l (m :: r) /\ forall a, In a l -> fst m <= fst a.
Proof.
  induction l as [|a t IH]; intros m r H; [discriminate|]. simpl in H.
  destruct (lq_min t) as [[m' r']|] eqn:E.
  - destruct (IH _ _ eq_refl) as [P M].
    destruct (fst m' <? fst a) eqn:L.
    + inversion H; subst. apply Z.ltb_lt in L. split.
      * eapply perm_trans; [apply perm_skip; exact P | apply perm_swap].
      * intros x [<-|Hx]; [lia | apply M; exact Hx].
    + inversion H; subst. apply Z.ltb_ge in L. split; [apply Permutation_refl|].
      intros x [<-|Hx]; [lia|]. specialize (M x Hx).
      assert (fst m' <= fst x) by exact M. lia.
  - inversion H; subst. apply lq_min_none in E. subst. split; [apply Permutation_refl|].
    intros x [<-|[]]. lia.
Qed.

Lemma lq_contract : pq_contract lq [] lq_push lq_pop lq_content (fun _ => True).
Proof.
  constructor.
  - exact I.
  - reflexivity.
  - intros; exact I.
  - intros q x k _. apply Permutation_refl.
  - intros q _ H. unfold lq_pop in H. destruct (lq_min q) as [[[k x] r]|] eqn:E; [discriminate|].
    apply lq_min_none in E. subst. reflexivity.
  - intros q x k q' _ H. unfold lq_pop in H. destruct (lq_min q) as [[[k0 x0] r]|] eqn:E; [|discriminate].
    inversion H; subst. destruct (lq_min_spec _ _ _ E) as [P M]. split; [exact I|]. split.
    + unfold lq_content. apply (Permutation_map (fun kx => (snd kx, fst kx))) in P. exact P.
    + intros y k' Hin. unfold lq_content in Hin. apply in_map_iff in Hin.
      destruct Hin as [[k1 y1] [Heq Hin]]. simpl in Heq. inversion Heq; subst.
      apply (M (k', y) Hin).
Qed.

(* ------------------------------------------------------------------ the executed instance: heapq *)
(* mouette's PriorityQueue = CPython's heapq on a list with PriorityItem.__lt__ (Gen.v: pq_item_lt). With the heap
   order as representation invariant it meets the same contract, so every theorem below also covers the queue the
   implementation actually uses. *)
Require Import MV.C09.ProofsHeap.

Definition hq_content (q : hq) : list (Z * Z) := map (fun kx => (snd kx, fst kx)) q.
Definition hq_inv (q : hq) : Prop := heap_ok pq_item_lt (0, 0) q.

Lemma pq_item_lt_ok : lt_ok pq_item_lt.
Proof. constructor; unfold pq_item_lt; intros; lia. Qed.

(* PriorityItem.__lt__ orders by priority: an item not preceded by y has a key <= y's *)
Lemma pq_item_lt_min (y x : pq_item) : pq_item_lt y x = false -> fst x <= fst y.
Proof. unfold pq_item_lt. lia. Qed.

Lemma hq_contract : pq_contract hq [] hq_push hq_pop hq_content hq_inv.
Proof.
  constructor.
  - apply heap_ok_nil.
  - reflexivity.
  - intros q x k H. apply heappush_ok; [exact pq_item_lt_ok | exact H].
  - intros q x k _. unfold hq_push, hq_content.
    apply (Permutation_map (fun kx : pq_item => (snd kx, fst kx))) with (l' := (k, x) :: q).
    apply heappush_perm.
  - intros q _ H. unfold hq_pop in H.
    destruct (heappop pq_item pq_item_lt (0, 0) q) as [[[k x] r]|] eqn:E; [discriminate|].
    apply heappop_none in E. subst. reflexivity.
  - intros q x k q' Hq H. unfold hq_pop in H.
    destruct (heappop pq_item pq_item_lt (0, 0) q) as [[[k0 x0] r]|] eqn:E; [|discriminate].
    inversion H; subst. split; [|split].
    + eapply heappop_ok; [exact pq_item_lt_ok | exact Hq | exact E].
    + unfold hq_content. apply (Permutation_map (fun kx : pq_item => (snd kx, fst kx))) with (l' := (k, x) :: q').
      eapply heappop_perm. exact E.
    + intros y k' Hin. unfold hq_content in Hin. apply in_map_iff in Hin.
      destruct Hin as [[k1 y1] [Heq Hin]]. simpl in Heq. inversion Heq; subst.
      pose proof (heappop_min pq_item pq_item_lt (0, 0) pq_item_lt_ok q (k, x) q' Hq E (k', y) Hin) as M.
      apply pq_item_lt_min in M. exact M.
Qed.
