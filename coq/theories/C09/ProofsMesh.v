(* C09 - the abstract Dijkstra theorems instantiated on the mesh-level models of shortest_path,
   shortest_path_to_vertex_set and shortest_path_to_border (Model.v), with the pieces generated from paths.py (Gen.v). *)
From Coq Require Import ZArith List Bool Arith Lia ZifyBool Permutation.
Import ListNotations.
Require Import MV.Lib.Base MV.C09.Gen MV.C09.Model MV.C09.ProofsDijkstra.
Open Scope Z_scope.

(* ------------------------------------------------------------------ facts about the generated pieces *)
(* the relaxation test is the strict comparison (a non-strict one loops forever through a zero-weight edge) *)
Lemma relax_sp_spec a b : relax_sp a b = true <-> b < a.
Proof. unfold relax_sp. lia. Qed.
Lemma relax_set_spec a b : relax_set a b = true <-> b < a.
Proof. unfold relax_set. lia. Qed.

(* every weight selector is a lambda of as many parameters as the call `edge_length(v, nv)` passes *)
Lemma sp_arity_ok : forall ws, sp_arity ws = sp_call_arity.
Proof. intros [| | |]; reflexivity. Qed.

(* the selectors compute the weight of the edge {v, nv}: 1 / its length / its custom weight *)
Lemma sp_weight_eq m ws a b : sp_weight m ws a b = mweight m ws a b.
Proof. destruct ws; reflexivity. Qed.
Lemma set_weight_eq m ws a b : a <> sentinel -> b <> sentinel -> set_weight m ws a b = mweight m ws a b.
Proof.
  intros Ha Hb. unfold set_weight.
  destruct (Z.eqb_spec a sentinel); [contradiction|]. destruct (Z.eqb_spec b sentinel); [contradiction|].
  destruct ws; reflexivity.
Qed.
Lemma set_weight_sink m ws a b : a = sentinel \/ b = sentinel -> set_weight m ws a b = 0.
Proof.
  intros H. unfold set_weight.
  destruct (Z.eqb_spec a sentinel); [reflexivity|]. destruct (Z.eqb_spec b sentinel); [reflexivity|]. tauto.
Qed.
Lemma sentinel_neg : sentinel < 0.
Proof. reflexivity. Qed.

(* the single-target shortcut asks shortest_path for the target itself and reads that key *)
Lemma shortcut_plumbing : forall start t,
  shortcut_start start [t] = start /\ dedup (shortcut_targets start [t]) = [t]
  /\ shortcut_key start [t] = t /\ shortcut_index start [t] = t.
Proof. intros. repeat split; reflexivity. Qed.

(* ------------------------------------------------------------------ boolean checkers <-> propositions *)
Lemma subset_spec a b : subset a b = true <-> forall x, In x a -> In x b.
Proof.
  unfold subset. rewrite forallb_forall. split; intros H x Hx.
  - apply mem_In. apply H. exact Hx.
  - apply mem_In. apply H. exact Hx.
Qed.

Lemma is_vertex_spec m v : is_vertex m v = true <-> In v (zrange (nvert m)).
Proof. unfold is_vertex. rewrite In_zrange. lia. Qed.

Definition ends (e : Z * Z) (a b : Z) : Prop := (fst e = a /\ snd e = b) \/ (fst e = b /\ snd e = a).

Lemma same_edge_spec e a b : same_edge e a b = true <-> ends e a b.
Proof. unfold same_edge, ends. lia. Qed.

Lemma medge_spec m a b : medge m a b = true <-> exists e, In e (edges m) /\ ends e a b.
Proof.
  unfold medge. rewrite existsb_exists. split; intros [e [H1 H2]]; exists e; split; auto; apply same_edge_spec; auto.
Qed.

Lemma medge_sym m a b : medge m a b = true -> medge m b a = true.
Proof. rewrite !medge_spec. intros [e [H1 H2]]. exists e. split; [exact H1|]. unfold ends in *. tauto. Qed.

Lemma inc_nbrs_spec es u v : In v (inc_nbrs es u) <-> exists e, In e es /\ ends e u v.
Proof.
  unfold inc_nbrs. rewrite in_flat_map. unfold ends. split; intros [e [He H]]; exists e; (split; [exact He|]).
  - destruct (fst e =? u) eqn:A.
    + destruct H as [<-|[]]. left. lia.
    + destruct (snd e =? u) eqn:B; [|destruct H]. destruct H as [<-|[]]. right. lia.
  - destruct (fst e =? u) eqn:A.
    + left. lia.
    + destruct (snd e =? u) eqn:B; [left; lia | lia].
Qed.

Lemma mesh_ok_parts m ws : mesh_ok m ws = true -> edges_ok m = true /\ adj_ok m = true /\ weights_ok m ws = true.
Proof. unfold mesh_ok. rewrite !andb_true_iff. tauto. Qed.

Lemma edges_ok_spec m e : edges_ok m = true -> In e (edges m) ->
  is_vertex m (fst e) = true /\ is_vertex m (snd e) = true /\ fst e <> snd e.
Proof.
  unfold edges_ok. rewrite forallb_forall. intros H He. specialize (H e He).
  rewrite !andb_true_iff in H. destruct H as [[H1 H2] H3]. repeat split; auto. lia.
Qed.

Lemma adj_spec m u v : adj_ok m = true -> is_vertex m u = true ->
  (In v (sp_nbrs m u) <-> medge m u v = true).
Proof.
  unfold adj_ok. rewrite andb_true_iff, forallb_forall. intros [_ H] Hu.
  apply is_vertex_spec in Hu. specialize (H u Hu). rewrite andb_true_iff, !subset_spec in H.
  destruct H as [H1 H2]. rewrite medge_spec, <- inc_nbrs_spec. split; auto.
Qed.

Lemma medge_vertex m a b : edges_ok m = true -> medge m a b = true -> is_vertex m a = true /\ is_vertex m b = true.
Proof.
  intros E H. apply medge_spec in H. destruct H as [e [He Hen]].
  destruct (edges_ok_spec m e E He) as [H1 [H2 _]]. unfold ends in Hen.
  destruct Hen as [[<- <-]|[<- <-]]; auto.
Qed.

Lemma nth_nonneg (l : list Z) i : forallb (fun x => 0 <=? x) l = true -> 0 <= nth i l 0.
Proof.
  intros H. destruct (Nat.lt_ge_cases i (length l)) as [L|L].
  - rewrite forallb_forall in H. specialize (H _ (nth_In l 0 L)). lia.
  - rewrite nth_overflow by exact L. lia.
Qed.

Lemma mweight_nonneg m ws a b : weights_ok m ws = true -> 0 <= mweight m ws a b.
Proof.
  assert (C : forall wl, Nat.eqb (length wl) (length (edges m)) && forallb (fun x => 0 <=? x) wl = true ->
                         0 <= ecustom m wl a b).
  { intros wl H. unfold ecustom. destruct (edge_id m a b) as [e|]; [|lia].
    rewrite andb_true_iff in H. destruct H as [_ H]. unfold znth.
    destruct (e <? 0); [lia|]. apply nth_nonneg. exact H. }
  destruct ws as [|pts|wl|wl]; simpl; intros H; [| | apply C; exact H | apply C; exact H].
  - lia.
  - unfold elen. apply Z.sqrt_nonneg.
Qed.

Lemma chain_ok_spec ok p : chain_ok ok p = true <-> chainP (fun a b => ok a b = true) p.
Proof.
  induction p as [|a p IH]; [simpl; tauto|]. destruct p as [|b p]; [simpl; tauto|].
  change (chain_ok ok (a :: b :: p)) with (ok a b && chain_ok ok (b :: p)).
  change (chainP (fun a b => ok a b = true) (a :: b :: p)) with (ok a b = true /\ chainP (fun a b => ok a b = true) (b :: p)).
  rewrite andb_true_iff, IH. tauto.
Qed.

Lemma chainP_impl (R R' : Z -> Z -> Prop) p :
  (forall a b, In a p -> In b p -> R a b -> R' a b) -> chainP R p -> chainP R' p.
Proof.
  induction p as [|a p IH]; [auto|]. destruct p as [|b p]; [auto|]. intros H [H1 H2]. split.
  - apply H; [left; reflexivity | right; left; reflexivity | exact H1].
  - apply IH; [|exact H2]. intros x y Hx Hy. apply H; right; assumption.
Qed.

Lemma path_weight_ext w1 w2 p : (forall a b, In a p -> In b p -> w1 a b = w2 a b) -> path_weight w1 p = path_weight w2 p.
Proof.
  induction p as [|a p IH]; [reflexivity|]. destruct p as [|b p]; [reflexivity|]. intros H.
  change (w1 a b + path_weight w1 (b :: p) = w2 a b + path_weight w2 (b :: p)).
  rewrite IH by (intros x y Hx Hy; apply H; right; assumption).
  rewrite H by (simpl; auto). reflexivity.
Qed.

Lemma valid_path_spec m s t p : valid_path m s t p = true <->
  p <> [] /\ hd 0 p = s /\ last p 0 = t /\ (forall x, In x p -> is_vertex m x = true)
  /\ chainP (fun a b => medge m a b = true) p.
Proof.
  destruct p as [|a p].
  - simpl. split; [discriminate | intros [H _]; congruence].
  - unfold valid_path. rewrite !andb_true_iff, forallb_forall, chain_ok_spec.
    rewrite (last_indep (a :: p) a 0) by discriminate. simpl hd.
    split.
    + intros [[[H1 H2] H3] H4]. repeat split; auto; try discriminate; lia.
    + intros [_ [H1 [H2 [H3 H4]]]]. repeat split; auto; lia.
Qed.

(* ------------------------------------------------------------------ result plumbing *)
Lemma rmap_ok {A B} (f : A -> res B) (P : A -> B -> Prop) l :
  (forall x, In x l -> exists y, f x = Ok y /\ P x y) ->
  exists ys, rmap f l = Ok ys /\ Forall2 P l ys.
Proof.
  induction l as [|x l IH]; intros H.
  - exists []. split; [reflexivity | constructor].
  - destruct (H x (or_introl eq_refl)) as [y [Hy Py]].
    destruct (IH (fun z Hz => H z (or_intror Hz))) as [ys [Hys Pys]].
    exists (y :: ys). split; [simpl; rewrite Hy; simpl; rewrite Hys; reflexivity | constructor; assumption].
Qed.

Lemma dedup_In l x : In x (dedup l) <-> In x l.
Proof.
  induction l as [|a l IH]; [simpl; tauto|]. simpl. rewrite filter_In, IH.
  destruct (Z.eq_dec a x) as [->|Ne]; [tauto|]. split.
  - intros [H|[H _]]; auto.
  - intros [H|H]; [auto|]. right. split; [exact H|]. destruct (Z.eqb_spec x a); [congruence|reflexivity].
Qed.

(* ------------------------------------------------------------------ shortest_path *)
Section MeshLevel.
  Variable Q : Type.
  Variable qempty : Q.
  Variable qpush : Q -> Z -> Z -> Q.
  Variable qpop : Q -> option (Z * Z * Q).
  Variable content : Q -> list (Z * Z).
  Variable qinv : Q -> Prop.
  Hypothesis PQ : pq_contract Q qempty qpush qpop content qinv.

  Variable m : mesh.
  Variable ws : wspec.
  Hypothesis OK : mesh_ok m ws = true.

  Let EOK : edges_ok m = true := proj1 (mesh_ok_parts m ws OK).
  Let AOK : adj_ok m = true := proj1 (proj2 (mesh_ok_parts m ws OK)).
  Let WOK : weights_ok m ws = true := proj2 (proj2 (mesh_ok_parts m ws OK)).

  Lemma sp_closed u v : In u (zrange (nvert m)) -> In v (sp_nbrs m u) -> In v (zrange (nvert m)).
  Proof.
    intros Hu Hv. apply is_vertex_spec in Hu. apply (adj_spec m u v AOK Hu) in Hv.
    apply is_vertex_spec. apply (medge_vertex m u v EOK Hv).
  Qed.

  Lemma sp_nonneg u v : In u (zrange (nvert m)) -> In v (sp_nbrs m u) -> 0 <= sp_weight m ws u v.
  Proof. intros _ _. rewrite sp_weight_eq. apply mweight_nonneg. exact WOK. Qed.

  (* a valid mesh path is a chain along vertex_to_vertices, with the same weight under the generated selector *)
  Lemma valid_chain s t p : valid_path m s t p = true ->
    p <> [] /\ hd 0 p = s /\ last p 0 = t /\ chainP (fun a b => In b (sp_nbrs m a)) p
    /\ path_weight (sp_weight m ws) p = path_weight (mweight m ws) p.
  Proof.
    intros H. apply valid_path_spec in H. destruct H as [H1 [H2 [H3 [H4 H5]]]].
    split; [exact H1|]. split; [exact H2|]. split; [exact H3|]. split.
    - eapply chainP_impl; [|exact H5]. intros a b Ha _ Hab. apply (adj_spec m a b AOK (H4 a Ha)). exact Hab.
    - apply path_weight_ext. intros. apply sp_weight_eq.
  Qed.

  Section Start.
    Variable start : Z.
    Hypothesis Hstart : is_vertex m start = true.

    Let Sin : In start (zrange (nvert m)) := proj1 (is_vertex_spec m start) Hstart.

    Definition sp_final (st : state Q) (ord : list Z) : Prop :=
      final Q content qinv (sp_nbrs m) (sp_weight m ws) start st ord.

    (* fuel: the loop bound of the model is not what stops Dijkstra *)
    Lemma sp_run_ok : exists st ord, sp_run Q qempty qpush qpop m ws start = Ok st /\ sp_final st ord.
    Proof.
      unfold sp_run. rewrite Hstart. simpl negb. cbv iota.
      rewrite sp_arity_ok, Nat.eqb_refl. simpl negb. simpl andb. cbv iota.
      apply (dijkstra_terminates Q qempty qpush qpop content qinv PQ (sp_nbrs m) (sp_weight m ws) relax_sp relax_sp_spec
               (zrange (nvert m)) (NoDup_zrange _) sp_closed sp_nonneg start Sin).
    Qed.

    Definition optimal_path (t : Z) (p : list Z) : Prop :=
      valid_path m start t p = true /\
      forall p', valid_path m start t p' = true -> path_weight (mweight m ws) p <= path_weight (mweight m ws) p'.

    (* what shortest_path answers for one requested target: an optimal edge path if the pair is connected,
       the empty list if it is not *)
    Definition target_answer (t : Z) (p : list Z) : Prop :=
      optimal_path t p \/ (p = [] /\ forall p', valid_path m start t p' = false).

    Lemma sp_back st ord t : sp_final st ord ->
      exists p, back (S (Z.to_nat (nvert m))) (pred st) start t [] = Ok p /\ target_answer t p.
    Proof.
      intros F. destruct (zget (dist st) t) as [d|] eqn:Hd.
      - destruct (back_correct Q content qinv (sp_nbrs m) (sp_weight m ws) (zrange (nvert m)) sp_closed start Sin
                    st ord t d (S (Z.to_nat (nvert m))) F Hd) as [p [Hb [[G1 [G2 [G3 [G4 G5]]]] Hs]]].
        { rewrite zrange_length. lia. }
        assert (Vp : forall x, In x p -> is_vertex m x = true).
        { intros x Hx. apply is_vertex_spec. destruct F as [I _].
          destruct (i_fin _ _ _ _ _ _ _ _ _ I x (Hs x Hx)) as [dx Hdx].
          eapply walkc_verts; [exact sp_closed | exact Sin | eapply (i_real _ _ _ _ _ _ _ _ _ I); eauto]. }
        assert (Wp : path_weight (sp_weight m ws) p = path_weight (mweight m ws) p)
          by (apply path_weight_ext; intros; apply sp_weight_eq).
        exists p. split; [exact Hb|]. left. split.
        + apply valid_path_spec. repeat split; auto.
          eapply chainP_impl; [|exact G4]. intros a b Ha _ Hab. apply (adj_spec m a b AOK (Vp a Ha)). exact Hab.
        + intros q Hq. destruct (valid_chain _ _ _ Hq) as [M1 [M2 [M3 [M4 M5]]]].
          pose proof (chain_walkc (sp_nbrs m) (sp_weight m ws) start q M1 M2 M4) as Wq. rewrite M3 in Wq.
          rewrite <- Wp, <- M5.
          destruct (final_dist_optimal _ _ _ _ _ _ _ _ _ _ F G5) as [_ Opt]. apply Opt. exact Wq.
      - exists []. split.
        + apply (final_unreached Q content qinv (sp_nbrs m) (sp_weight m ws) start st ord t _ F Hd). lia.
        + right. split; [reflexivity|]. intros p'. destruct (valid_path m start t p') eqn:V; [|reflexivity].
          destruct (valid_chain _ _ _ V) as [N1 [N2 [N3 [N4 N5]]]].
          pose proof (chain_walkc (sp_nbrs m) (sp_weight m ws) start p' N1 N2 N4) as W. rewrite N3 in W.
          destruct (final_reachable _ _ _ _ _ _ _ _ _ _ F W) as [d Hd']. congruence.
    Qed.

    (* shortest_path: the call succeeds for every collection of vertices; every requested target connected to the
       start gets an optimal edge path, every other one the empty list *)
    Theorem shortest_path_correct targets :
      forallb (is_vertex m) targets = true ->
      exists l, shortest_path Q qempty qpush qpop m ws start targets = Ok l
                /\ Forall2 (fun t tp => fst tp = t /\ target_answer t (snd tp)) (dedup targets) l.
    Proof.
      intros HT. unfold shortest_path.
      destruct sp_run_ok as [st [ord [Hrun F]]]. rewrite Hrun. cbn [rbind].
      apply rmap_ok. intros t Ht. apply (proj1 (dedup_In _ _)) in Ht.
      rewrite forallb_forall in HT. rewrite (HT t Ht).
      destruct (sp_back st ord t F) as [p [Hb Ho]].
      exists (t, p). rewrite Hb. simpl. auto.
    Qed.

    (* a single target may be given as a Python int or as a numpy integer *)
    Lemma single_forms k t : shortest_path1 Q qempty qpush qpop m ws start k t
                             = shortest_path Q qempty qpush qpop m ws start [t].
    Proof. unfold shortest_path1. destruct k; reflexivity. Qed.
  End Start.
End MeshLevel.
