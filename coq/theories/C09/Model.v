(* C09 - executable model of mouette/processing/paths.py
   (shortest_path, shortest_path_to_vertex_set, shortest_path_to_border) over a priority-queue interface.
   Executable definitions only: no proofs here, so the model still runs when a proof breaks.
   Everything that is an expression / comparison / call plumbing in paths.py comes from Gen.v (regenerated from
   the source on every run); the loops are written here by hand and tied by the correspondence. *)
From Coq Require Import ZArith List Bool Arith FMapPositive.
Import ListNotations.
Require Import MV.Lib.Base MV.C09.Gen.
Open Scope Z_scope.

(* ------------------------------------------------------------------ python dicts keyed by vertex ids *)
(* Vertex ids are Python ints (the sink of the vertex-set query is -1): finite maps over Z through an injection
   into positive. An absent key models both `float("inf")` (distance) / `None` (path) / `False` (visited). *)
Definition enc (z : Z) : positive :=
  match z with Z0 => 1%positive | Zpos p => xO p | Zneg p => xI p end.

Definition zmap (A : Type) := PositiveMap.t A.
Definition zempty {A} : zmap A := PositiveMap.empty A.
Definition zget {A} (m : zmap A) (k : Z) : option A := PositiveMap.find (enc k) m.
Definition zset {A} (m : zmap A) (k : Z) (a : A) : zmap A := PositiveMap.add (enc k) a m.

(* Python exceptions are explicit results *)
Inductive res (A : Type) :=
| Ok (a : A)
| TypeError        (* a lambda called with the wrong number of arguments *)
| KeyError         (* dict lookup of an absent key (a vertex id that does not exist, or path[None]) *)
| NoTarget         (* Exception("No target provided") *)
| NoBorder         (* Exception("Mesh has no border") *)
| Unexpected       (* a state the code cannot reach (popped vertex with infinite distance); proved unreachable *)
| OutOfFuel.       (* the model's loop bound was hit; proved unreachable *)
Arguments Ok {A} a. Arguments TypeError {A}. Arguments KeyError {A}. Arguments NoTarget {A}.
Arguments NoBorder {A}. Arguments Unexpected {A}. Arguments OutOfFuel {A}.

Definition rbind {A B} (r : res A) (f : A -> res B) : res B :=
  match r with
  | Ok a => f a | TypeError => TypeError | KeyError => KeyError | NoTarget => NoTarget
  | NoBorder => NoBorder | Unexpected => Unexpected | OutOfFuel => OutOfFuel
  end.

Fixpoint rmap {A B} (f : A -> res B) (l : list A) : res (list B) :=
  match l with
  | [] => Ok []
  | x :: t => rbind (f x) (fun y => rbind (rmap f t) (fun ys => Ok (y :: ys)))
  end.

(* ------------------------------------------------------------------ Dijkstra: the loop of paths.py:72-84 / 178-190 *)
Section Core.
  Variable Q : Type.                               (* PriorityQueue *)
  Variable qpush : Q -> Z -> Z -> Q.               (* queue.push(x, key) *)
  Variable qpop : Q -> option (Z * Z * Q).         (* None: queue.empty(); Some (x, key, rest): queue.get() *)
  Variable nbrs : Z -> list Z.                     (* vertex_to_vertices(v) / connectivity[v] *)
  Variable w : Z -> Z -> Z.                        (* edge_length(v, nv) / connectivity[v][nv] *)
  Variable gt : Z -> Z -> bool.                    (* the relaxation test `distance[nv] > d` (Gen.v) *)

  Record state := mkst { dist : zmap Z; pred : zmap Z; vis : zmap unit; que : Q }.

  Definition visited (s : state) (v : Z) : bool :=
    match zget (vis s) v with Some _ => true | None => false end.

  (* distance[nv] > d  where distance[nv] may be float("inf") (no entry) and d is finite *)
  Definition improves (old : option Z) (d : Z) : bool :=
    match old with None => true | Some o => gt o d end.

  (* one iteration of `for nv in neighbours(v)`:
        d = distance[v] + edge_length(v,nv)
        if distance[nv] > d: distance[nv] = d; path[nv] = v
        if not visited[nv]: queue.push(nv, distance[nv])                                   *)
  Definition relax1 (v : Z) (s : state) (nv : Z) : res state :=
    match zget (dist s) v with
    | None => Unexpected
    | Some dv =>
        let d := dv + w v nv in
        let s1 := if improves (zget (dist s) nv) d
                  then mkst (zset (dist s) nv d) (zset (pred s) nv v) (vis s) (que s)
                  else s in
        if visited s1 nv then Ok s1
        else match zget (dist s1) nv with
             | None => Unexpected
             | Some dn => Ok (mkst (dist s1) (pred s1) (vis s1) (qpush (que s1) nv dn))
             end
    end.

  Fixpoint relax_all (v : Z) (s : state) (l : list Z) : res state :=
    match l with
    | [] => Ok s
    | nv :: t => match relax1 v s nv with Ok s' => relax_all v s' t | e => e end
    end.

  (* while not queue.empty(): v = queue.get().x; if visited[v]: continue; visited[v] = True; for ... *)
  Fixpoint loop (fuel : nat) (s : state) : res state :=
    match fuel with
    | O => OutOfFuel
    | S f =>
        match qpop (que s) with
        | None => Ok s
        | Some (v, _, q') =>
            let s1 := mkst (dist s) (pred s) (vis s) q' in
            if visited s1 v then loop f s1
            else match relax_all v (mkst (dist s1) (pred s1) (zset (vis s1) v tt) (que s1)) (nbrs v) with
                 | Ok s2 => loop f s2
                 | e => e
                 end
        end
    end.

  (* distance[start] = 0.; queue.push(start, 0.) *)
  Definition init (q0 : Q) (start : Z) : state :=
    mkst (zset zempty start 0) zempty zempty (qpush q0 start 0).

  Definition dijkstra (fuel : nat) (q0 : Q) (start : Z) : res state := loop fuel (init q0 start).
End Core.
Arguments dist {Q}. Arguments pred {Q}. Arguments vis {Q}. Arguments que {Q}. Arguments mkst {Q}.

(* back-tracking of shortest_path:
     v = t; while v != start and v is not None: l.append(v); v = path[v]
     if v is None: l = []  (t is not connected to start)   else: l.append(start); reverse
   (`acc` is the reversed list; a target that is not a vertex id raises KeyError at path[t]: see shortest_path) *)
Fixpoint back (fuel : nat) (pr : zmap Z) (start v : Z) (acc : list Z) : res (list Z) :=
  match fuel with
  | O => OutOfFuel
  | S f =>
      if Z.eqb v start then Ok (start :: acc)
      else match zget pr v with
           | None => Ok []
           | Some u => back f pr start u (v :: acc)
           end
  end.

(* back-tracking of the vertex-set query:  v = TARGET; while v != start: v = parent[v]; path.append(v); reverse *)
Fixpoint back_set (fuel : nat) (pr : zmap Z) (start v : Z) (acc : list Z) : res (list Z) :=
  match fuel with
  | O => OutOfFuel
  | S f =>
      if Z.eqb v start then Ok acc
      else match zget pr v with
           | None => KeyError
           | Some u => back_set f pr start u (u :: acc)
           end
  end.

(* ------------------------------------------------------------------ priority queues *)
(* (a) a list with extract-first-minimum: the instance the contract is PROVED for (Proofs.v) *)
Definition lq := list (Z * Z).          (* (key, payload) *)
Definition lq_push (q : lq) (x k : Z) : lq := (k, x) :: q.
Fixpoint lq_min (l : lq) : option ((Z * Z) * lq) :=
  match l with
  | [] => None
  | a :: t =>
      match lq_min t with
      | None => Some (a, [])
      | Some (m, r) => if Z.ltb (fst m) (fst a) then Some (m, a :: r) else Some (a, t)
      end
  end.
Definition lq_pop (q : lq) : option (Z * Z * lq) :=
  match lq_min q with None => None | Some ((k, x), r) => Some (x, k, r) end.

(* (b) CPython's heapq on a list, as mouette/utils/priority_queue.py uses it (copied from the C20 model),
       with the comparator PriorityItem.__lt__ taken from Gen.v: the instance that is EXECUTED. *)
Fixpoint upd {A} (l : list A) (i : nat) (v : A) : list A :=
  match l, i with
  | [], _ => []
  | _ :: t, O => v :: t
  | h :: t, S j => h :: upd t j v
  end.

Section Heap.
  Variable item : Type.
  Variable lt : item -> item -> bool.
  Variable dummy : item.
  Definition hget (h : list item) (i : nat) : item := nth i h dummy.
  Fixpoint siftdown_loop (fuel : nat) (h : list item) (newitem : item) (pos : nat) : list item :=
    match fuel with
    | O => upd h pos newitem
    | S f =>
        if Nat.ltb 0 pos then
          let parentpos := Nat.div2 (pos - 1) in
          let parent := hget h parentpos in
          if lt newitem parent then siftdown_loop f (upd h pos parent) newitem parentpos
          else upd h pos newitem
        else upd h pos newitem
    end.
  Definition siftdown (h : list item) (pos : nat) : list item := siftdown_loop (S pos) h (hget h pos) pos.
  Definition heappush (h : list item) (x : item) : list item := siftdown (h ++ [x]) (length h).
  Fixpoint siftup_loop (fuel : nat) (h : list item) (pos : nat) : list item * nat :=
    match fuel with
    | O => (h, pos)
    | S f =>
        let endpos := length h in
        let childpos := (2 * pos + 1)%nat in
        if Nat.ltb childpos endpos then
          let rightpos := (childpos + 1)%nat in
          let c := if Nat.ltb rightpos endpos && negb (lt (hget h childpos) (hget h rightpos))
                   then rightpos else childpos in
          siftup_loop f (upd h pos (hget h c)) c
        else (h, pos)
    end.
  Definition siftup (h : list item) : list item :=
    let newitem := hget h 0 in
    let '(h1, pos) := siftup_loop (length h) h 0 in
    siftdown (upd h1 pos newitem) pos.
  Definition heappop (h : list item) : option (item * list item) :=
    match rev h with
    | [] => None
    | lastelt :: rt =>
        let h' := rev rt in
        match h' with
        | [] => Some (lastelt, [])
        | first :: _ => Some (first, siftup (upd h' 0 lastelt))
        end
    end.
End Heap.

Definition hq := list pq_item.
Definition hq_push (q : hq) (x k : Z) : hq := heappush pq_item pq_item_lt (0, 0) q (k, x).
Definition hq_pop (q : hq) : option (Z * Z * hq) :=
  match heappop pq_item pq_item_lt (0, 0) q with None => None | Some ((k, x), r) => Some (x, k, r) end.

(* ------------------------------------------------------------------ the mesh as the three functions see it *)
(* nv vertices 0..nv-1 (mesh.id_vertices); mesh.edges; vertex_to_vertices(v) for every v (as the mesh answers
   it; its agreement with mesh.edges is the hypothesis `adj_ok`, checked on every case);
   mesh.boundary_vertices. *)
Record mesh := mkmesh { nvert : Z; edges : list (Z * Z); adj : list (list Z); border : list Z }.

Inductive wspec :=
| WOne                                   (* weights = "one" *)
| WLength (pts : list (Z * Z * Z))       (* weights = "length": vertex coordinates (lattice; exact lengths) *)
| WCustom (wl : list Z)                  (* weights = dict / Attribute: weight of edge e at position e *)
| WFloat (wl : list Z).                  (* weights = "length" on general coordinates: the binary64 length of edge e
                                            (an exact dyadic) as an integer multiple of 2^-80; answers are then compared
                                            with a relative tolerance (`wsame`), the float sums being rounded *)

Definition is_vertex (m : mesh) (v : Z) : bool := (0 <=? v) && (v <? nvert m).

Inductive tkind := TPy | TNp.            (* how a single target is given: int / numpy integer (np.int64) *)
Definition single_accepts (k : tkind) : bool :=
  match k with TPy => single_accepts_pyint | TNp => single_accepts_npint end.

(* mesh.connectivity.edge_id(a, b): position of the edge {a,b} in mesh.edges (dict built in edge order, so the
   last occurrence wins), None if absent *)
Definition same_edge (e : Z * Z) (a b : Z) : bool :=
  (Z.eqb (fst e) a && Z.eqb (snd e) b) || (Z.eqb (fst e) b && Z.eqb (snd e) a).
Fixpoint edge_id_from (i : Z) (es : list (Z * Z)) (a b : Z) : option Z :=
  match es with
  | [] => None
  | e :: t => match edge_id_from (i + 1) t a b with
              | Some j => Some j
              | None => if same_edge e a b then Some i else None
              end
  end.
Definition edge_id (m : mesh) (a b : Z) : option Z := edge_id_from 0 (edges m) a b.

(* geom.distance(P[a], P[b]) on lattice points: the integer square root of the squared distance; the harness
   only produces "length" cases in which it is exact (`exact_lengths`), else it uses custom-weight cases *)
Definition d2 (p q : Z * Z * Z) : Z :=
  let '(x1, y1, z1) := p in let '(x2, y2, z2) := q in
  (x1 - x2) * (x1 - x2) + (y1 - y2) * (y1 - y2) + (z1 - z2) * (z1 - z2).
Definition elen (pts : list (Z * Z * Z)) (a b : Z) : Z := Z.sqrt (d2 (znth pts a (0, 0, 0)) (znth pts b (0, 0, 0))).
Definition ecustom (m : mesh) (wl : list Z) (a b : Z) : Z :=
  match edge_id m a b with Some e => znth wl e 0 | None => 0 end.

(* ---- shortest_path *)
Definition sp_arity (ws : wspec) : nat :=
  match ws with
  | WOne => sp_one_arity | WLength _ => sp_length_arity | WCustom _ => sp_custom_arity | WFloat _ => sp_length_arity
  end.
Definition sp_weight (m : mesh) (ws : wspec) (v nv : Z) : Z :=
  match ws with
  | WOne => sp_one v nv
  | WLength pts => sp_length (elen pts) v nv
  | WCustom wl => sp_custom (ecustom m wl) v nv
  | WFloat wl => sp_length (ecustom m wl) v nv
  end.
Definition sp_nbrs (m : mesh) (v : Z) : list Z := znth (adj m) v [].

(* pops <= pushes <= 1 + sum of degrees; one more turn sees the empty queue *)
Definition deg_sum (nbrs : Z -> list Z) (vs : list Z) : nat :=
  fold_right (fun v a => (length (nbrs v) + a)%nat) O vs.
Definition fuel_of (nbrs : Z -> list Z) (vs : list Z) : nat := S (S (deg_sum nbrs vs)).

Fixpoint dedup (l : list Z) : list Z :=
  match l with
  | [] => []
  | x :: t => x :: filter (fun y => negb (Z.eqb y x)) (dedup t)
  end.

Section WithQueue.
  Variable Q : Type.
  Variable qempty : Q.
  Variable qpush : Q -> Z -> Z -> Q.
  Variable qpop : Q -> option (Z * Z * Q).

  (* the state Dijkstra ends in, for shortest_path *)
  Definition sp_run (m : mesh) (ws : wspec) (start : Z) : res (state Q) :=
    if negb (is_vertex m start) then KeyError                      (* visited[start] *)
    else if negb (Nat.eqb (sp_arity ws) sp_call_arity) && negb (match sp_nbrs m start with [] => true | _ => false end)
    then TypeError                                                 (* edge_length(v, nv) at the first relaxation *)
    else dijkstra Q qpush qpop (sp_nbrs m) (sp_weight m ws) relax_sp
           (fuel_of (sp_nbrs m) (zrange (nvert m))) qempty start.

  (* shortest_path(mesh, start, targets, weights): dict target -> path, as an association list *)
  Definition shortest_path (m : mesh) (ws : wspec) (start : Z) (targets : list Z) : res (list (Z * list Z)) :=
    rbind (sp_run m ws start) (fun st =>
      rmap (fun t => if is_vertex m t                                  (* path[t] on a non-vertex: KeyError *)
                     then rbind (back (S (Z.to_nat (nvert m))) (pred st) start t []) (fun p => Ok (t, p))
                     else KeyError) (dedup targets)).

  (* a target given singly, as a Python int or as a numpy integer: `isinstance(targets, ...)` decides whether it is
     wrapped into a set; otherwise `set(targets)` raises TypeError (not iterable) *)
  Definition shortest_path1 (m : mesh) (ws : wspec) (start : Z) (k : tkind) (t : Z) : res (list (Z * list Z)) :=
    if single_accepts k then shortest_path m ws start [t] else TypeError.

  (* ---- shortest_path_to_vertex_set: the graph `connectivity` (dict of dicts built from mesh.edges, plus the
     sink joined to every target) described by its contents: keys of connectivity[v] and the value stored *)
  Definition inc_nbrs (es : list (Z * Z)) (u : Z) : list Z :=
    flat_map (fun e => if Z.eqb (fst e) u then [snd e] else if Z.eqb (snd e) u then [fst e] else []) es.
  Definition mem (x : Z) (l : list Z) : bool := existsb (Z.eqb x) l.
  Definition set_nbrs (m : mesh) (targets : list Z) (v : Z) : list Z :=
    if Z.eqb v sentinel then dedup targets
    else dedup (inc_nbrs (edges m) v ++ (if mem v targets then [sentinel] else [])).
  Definition set_base_weight (m : mesh) (ws : wspec) (a b : Z) : Z :=
    match ws with
    | WOne => set_one
    | WLength pts => elen pts a b
    | WCustom wl => ecustom m wl a b
    | WFloat wl => ecustom m wl a b
    end.
  Definition set_weight (m : mesh) (ws : wspec) (a b : Z) : Z :=
    if Z.eqb a sentinel || Z.eqb b sentinel then sink_weight else set_base_weight m ws a b.

  Definition set_run (m : mesh) (ws : wspec) (start : Z) (targets : list Z) : res (state Q) :=
    (* the sink -1 is a key of every dict of this function: a start equal to it is not rejected *)
    if negb (is_vertex m start || Z.eqb start sentinel) then KeyError
    else if negb (forallb (is_vertex m) targets) then KeyError     (* connectivity[s][TARGET] = 0 *)
    else dijkstra Q qpush qpop (set_nbrs m targets) (set_weight m ws) relax_set
           (fuel_of (set_nbrs m targets) (sentinel :: zrange (nvert m))) qempty start.

  Definition shortest_path_to_vertex_set (m : mesh) (ws : wspec) (start : Z) (targets : list Z)
    : res (Z * list Z) :=
    let n := Z.of_nat (length targets) in
    if no_target_test n then NoTarget
    else if shortcut_test n then
      (* parent = shortest_path(mesh, <start>, <targets>, weights, export)[<key>]; return <index>, parent *)
      rbind (shortest_path m ws (shortcut_start start targets) (shortcut_targets start targets)) (fun d =>
        match find (fun tp => Z.eqb (fst tp) (shortcut_key start targets)) d with
        | Some (_, p) => Ok (shortcut_index start targets, p)
        | None => KeyError
        end)
    else
      rbind (set_run m ws start targets) (fun st =>
        rbind (back_set (S (S (Z.to_nat (nvert m)))) (pred st) start sentinel []) (fun p =>
          Ok (set_ind start p, p))).

  (* ---- shortest_path_to_border: the path component of the vertex-set query on mesh.boundary_vertices *)
  Definition shortest_path_to_border (m : mesh) (ws : wspec) (start : Z) : res (list Z) :=
    if no_border_test (Z.of_nat (length (border m))) then NoBorder
    else rbind (shortest_path_to_vertex_set m ws start (border m)) (fun r =>
           if Nat.eqb border_result_index 1 then Ok (snd r) else Unexpected).
End WithQueue.

(* ------------------------------------------------------------------ build_path: the exported polyline *)
(* The polyline is modelled by the list of mesh vertex ids whose coordinates it copies (in order) and its edge list.
   Guards, index expressions and the offset update come from Gen.v (paths.py: build_path).
     for l in paths.values():
         if len(l)>0: V.append(l[0])
         if len(l)>1: for i in range(1, len(l)): V.append(l[i]); E.append((k+i-1, k+i))
         k += len(l)                                                                                          *)
Definition zlen (l : list Z) : Z := Z.of_nat (length l).
Definition bp_path (k : Z) (l : list Z) : list Z * list (Z * Z) :=
  let n := zlen l in
  let v0 := if bp_first_guard n then [znth l bp_first_index 0] else [] in
  let rest := if bp_loop_guard n then zrange2 bp_range_lo n else [] in
  (v0 ++ map (fun i => znth l i 0) rest, map (bp_edge k) rest).
Fixpoint build_path_from (k : Z) (paths : list (list Z)) : list Z * list (Z * Z) :=
  match paths with
  | [] => ([], [])
  | l :: t => let r1 := bp_path k l in
              let r2 := build_path_from (bp_advance k (zlen l)) t in
              (fst r1 ++ fst r2, snd r1 ++ snd r2)
  end.
Definition build_path (paths : list (list Z)) : list Z * list (Z * Z) := build_path_from bp_k0 paths.

(* ------------------------------------------------------------------ checkers (specification side, executable) *)
(* a list of vertices is an edge path from s to t *)
Definition medge (m : mesh) (a b : Z) : bool := existsb (fun e => same_edge e a b) (edges m).
Fixpoint chain_ok (ok : Z -> Z -> bool) (p : list Z) : bool :=
  match p with
  | a :: ((b :: _) as t) => ok a b && chain_ok ok t
  | _ => true
  end.
Definition valid_path (m : mesh) (s t : Z) (p : list Z) : bool :=
  match p with
  | [] => false
  | a :: _ => Z.eqb a s && Z.eqb (last p a) t && forallb (is_vertex m) p && chain_ok (medge m) p
  end.
Fixpoint path_weight (w : Z -> Z -> Z) (p : list Z) : Z :=
  match p with
  | a :: ((b :: _) as t) => w a b + path_weight w t
  | _ => 0
  end.

(* the weight of an edge as the property means it (symmetric; the three modes) *)
Definition mweight (m : mesh) (ws : wspec) (a b : Z) : Z :=
  match ws with WOne => 1 | WLength pts => elen pts a b | WCustom wl => ecustom m wl a b | WFloat wl => ecustom m wl a b end.

(* equality of path weights as the correspondence means it: exact, except for float lengths on general coordinates
   where the implementation's sums are rounded: |a - b| <= 1e-9 |b| *)
Definition wsame (ws : wspec) (a b : Z) : bool :=
  match ws with
  | WFloat _ => Z.abs (a - b) * 1000000000 <=? Z.abs b
  | _ => Z.eqb a b
  end.

(* hypotheses of the theorems, as boolean checkers evaluated on every case *)
Definition subset (a b : list Z) : bool := forallb (fun x => mem x b) a.
Definition edges_ok (m : mesh) : bool :=
  forallb (fun e => is_vertex m (fst e) && is_vertex m (snd e) && negb (Z.eqb (fst e) (snd e))) (edges m).
Definition adj_ok (m : mesh) : bool :=
  Nat.eqb (length (adj m)) (Z.to_nat (nvert m)) &&
  forallb (fun v => subset (sp_nbrs m v) (inc_nbrs (edges m) v) && subset (inc_nbrs (edges m) v) (sp_nbrs m v))
          (zrange (nvert m)).
Definition weights_ok (m : mesh) (ws : wspec) : bool :=
  match ws with
  | WOne => true
  | WLength pts =>
      Nat.eqb (length pts) (Z.to_nat (nvert m)) &&
      forallb (fun e => let d := d2 (znth pts (fst e) (0,0,0)) (znth pts (snd e) (0,0,0)) in Z.eqb (Z.sqrt d * Z.sqrt d) d)
              (edges m)
  | WCustom wl => Nat.eqb (length wl) (length (edges m)) && forallb (fun x => 0 <=? x) wl
  | WFloat wl => Nat.eqb (length wl) (length (edges m)) && forallb (fun x => 0 <=? x) wl
  end.
Definition mesh_ok (m : mesh) (ws : wspec) : bool := edges_ok m && adj_ok m && weights_ok m ws.

(* ------------------------------------------------------------------ correspondence: one query and what was observed *)
Inductive query :=
| QPath (start : Z) (targets : list Z)          (* shortest_path(mesh, start, targets), targets a collection *)
| QPath1 (start : Z) (k : tkind) (t : Z)        (* shortest_path(mesh, start, t), t a single int / np.int64 *)
| QSet (start : Z) (targets : list Z)           (* shortest_path_to_vertex_set(mesh, start, targets) *)
| QBorder (start : Z).                          (* shortest_path_to_border(mesh, start) *)

Inductive obs :=
| OPaths (l : list (Z * list Z))                (* returned dict, as a list of (target, path) *)
| OSet (ind : Z) (p : list Z)
| OBorder (p : list Z)
| ORefused                                      (* the call raised an exception (class and message are free) *)
| OOther.                                       (* anything else: an ill-formed answer, no answer in time *)

Definition zl_eqb := list_eqb Z.eqb.

(* The model run with the executed heap; the implementation's answer is accepted when it lies in the set of optimal
   answers: a valid edge path with the right ends whose weight equals the weight of the model's path. *)
Definition run_sp := shortest_path hq [] hq_push hq_pop.
Definition run_sp1 := shortest_path1 hq [] hq_push hq_pop.
Definition run_set := shortest_path_to_vertex_set hq [] hq_push hq_pop.
Definition run_border := shortest_path_to_border hq [] hq_push hq_pop.
(* ... and with the list queue the contract is proved for (cross-check: same optimal weights) *)
Definition run_sp_l := shortest_path lq [] lq_push lq_pop.
Definition run_set_l := shortest_path_to_vertex_set lq [] lq_push lq_pop.

(* keys: the answer has an entry for every target the model finds connected, and only requested targets; what is
   stored for a target that is NOT connected to the start (an entry or none, its value) is left free *)
Definition same_keys (model impl : list (Z * list Z)) : bool :=
  subset (map fst impl) (map fst model)
  && forallb (fun tp => match snd tp with [] => true | _ => mem (fst tp) (map fst impl) end) model.

(* inputs the property does not speak about: any behaviour (refusal of any kind, or any answer) is accepted *)
Definition all_vertices (m : mesh) (l : list Z) : bool := forallb (is_vertex m) l.

Definition lookup (l : list (Z * list Z)) (t : Z) : option (list Z) :=
  match find (fun tp => Z.eqb (fst tp) t) l with Some (_, p) => Some p | None => None end.

Definition agree_paths (m : mesh) (ws : wspec) (s : Z) (model impl : list (Z * list Z)) : bool :=
  same_keys model impl &&
  forallb (fun tp =>
    match lookup model (fst tp), snd tp with
    | Some [], _ => true                              (* not connected to the start: the entry is free *)
    | Some (_ :: _), [] => false
    | Some pm, pi => valid_path m s (fst tp) pi && valid_path m s (fst tp) pm
                     && wsame ws (path_weight (mweight m ws) pi) (path_weight (mweight m ws) pm)
    | None, _ => false
    end) impl.

(* nearest-member relation for the set query: ind is a target, p a valid path start -> ind, same weight as the model's *)
Definition agree_set (m : mesh) (ws : wspec) (s : Z) (targets : list Z) (model impl : Z * list Z) : bool :=
  mem (fst impl) targets && mem (fst model) targets
  && valid_path m s (fst impl) (snd impl) && valid_path m s (fst model) (snd model)
  && wsame ws (path_weight (mweight m ws) (snd impl)) (path_weight (mweight m ws) (snd model)).

Definition check_query (m : mesh) (ws : wspec) (q : query) (o : obs) : bool :=
  match q with
  | QPath s ts =>
      negb (is_vertex m s && all_vertices m ts) ||
      match run_sp m ws s ts, o with
      | Ok l, OPaths l' =>
          agree_paths m ws s l l' && match run_sp_l m ws s ts with Ok l2 => agree_paths m ws s l2 l' | _ => false end
      | Ok _, _ => false
      | _, ORefused => true                           (* the model of the code refuses too *)
      | _, _ => false
      end
  | QPath1 s k t =>
      negb (is_vertex m s && is_vertex m t) ||
      match run_sp1 m ws s k t, o with
      | Ok l, OPaths l' => agree_paths m ws s l l'
      | Ok _, _ => false
      | _, ORefused => true
      | _, _ => false
      end
  | QSet s ts =>
      negb (is_vertex m s && all_vertices m ts) || match ts with [] => true | _ => false end ||
      match run_set m ws s ts, o with
      | Ok r, OSet i p =>
          match snd r with [] => true | _ => false end      (* one target, not connected: no connected pair, free *)
          || (agree_set m ws s ts r (i, p)
              && match run_set_l m ws s ts with Ok r2 => agree_set m ws s ts r2 (i, p) | _ => false end)
      | Ok (_, []), _ => true
      | Ok _, _ => false
      | KeyError, _ => true                           (* no member is connected to the start: free *)
      | _, ORefused => true
      | _, _ => false
      end
  | QBorder s =>
      negb (is_vertex m s && all_vertices m (border m)) || match border m with [] => true | _ => false end ||
      match run_border m ws s, o with
      | Ok p, OBorder p' =>
          match p' with
          | [] => false
          | a :: _ => let t := last p' a in
                      agree_set m ws s (border m) (last p s, p) (t, p')
          end
      | Ok _, _ => false
      | KeyError, _ => true
      | _, ORefused => true
      | _, _ => false
      end
  end.

(* The accumulator. `distance[start]` is initialised with a FLOAT literal in both functions, so every `distance[v] + w`
   is a floating-point addition whatever numeric type the caller's weights have (Python int/float/bool, numpy signed or
   unsigned integers of any width, np.float64: binary64, exact while the sums stay below 2^53; np.float32: binary32,
   exact below 2^24). With an int literal, numpy integer weights would be summed in their own fixed width and wrap.
   The model adds exactly (Z): it describes the code only while this flag holds and the sums are within those bounds. *)
Definition acc_float : bool := sp_init_dist_float && set_init_dist_float.

(* A call that leaves `weights` / `export_path_mesh` out means weights = "length" and no exported polyline: the
   correspondence encodes such calls as the "length" mode, which is right only while these generated flags hold. *)
Definition defaults_ok : bool := default_weights_is_length && default_export_is_false.

(* an exported polyline as observed: the paths handed to build_path (the values of the returned dict, in its order),
   the mesh vertex each polyline vertex copies, the polyline's edges; compared with the model of build_path *)
Definition pair_eqb (a b : Z * Z) : bool := Z.eqb (fst a) (fst b) && Z.eqb (snd a) (snd b).
Definition check_polyline (x : list (list Z) * list Z * list (Z * Z)) : bool :=
  let '(paths, vs, es) := x in
  let r := build_path paths in
  zl_eqb (fst r) vs && list_eqb pair_eqb (snd r) es.

(* one case: a mesh, a weight mode, a list of queries with the implementation's answers, the exported polylines *)
Definition check_case (c : mesh * wspec * list (query * obs) * list (list (list Z) * list Z * list (Z * Z))) : bool :=
  let '(m, ws, qs, pls) := c in
  acc_float && defaults_ok && mesh_ok m ws && forallb (fun qo => check_query m ws (fst qo) (snd qo)) qs
  && forallb check_polyline pls.
