(* C09 - lemmas (first batch: the translator-tied plumbing facts) *)
From Coq Require Import ZArith List Bool Arith Lia.
Import ListNotations.
Require Import MV.Lib.Base MV.C09.Gen MV.C09.Model.
Open Scope Z_scope.

(* every weight selector is a lambda of as many parameters as the call `edge_length(v, nv)` passes *)
Lemma sp_arity_ok : forall ws, sp_arity ws = sp_call_arity.
Proof. intros [| |]; reflexivity. Qed.

(* the single-target shortcut asks shortest_path for the target itself and reads that key *)
Lemma shortcut_plumbing : forall start t,
  shortcut_start start [t] = start /\ dedup (shortcut_targets start [t]) = [t]
  /\ shortcut_key start [t] = t /\ shortcut_index start [t] = t.
Proof. intros. repeat split; reflexivity. Qed.
