(* C09 property theorems only: each closed by `exact <lemma>` with Print Assumptions beneath.
   Weights are integers (dyadic float weights scaled by a common power of two); "non-negative" is a hypothesis
   (`graph_ok` / `mesh_ok`). A priority queue is anything meeting `pq_contract` (pop hands out an entry of minimum key
   and removes exactly it, under a representation invariant); `C09_queue_contract_inhabited` and
   `C09_heapq_meets_contract` show it is met by a plain list queue and by the heapq model that is executed. *)
From Coq Require Import ZArith List Bool.
Import ListNotations.
Require Import MV.Lib.Base MV.C09.Gen MV.C09.Model MV.C09.ProofsDijkstra MV.C09.ProofsQueue MV.C09.ProofsMesh
        MV.C09.ProofsSet MV.C09.ProofsTop MV.C09.ProofsExport.
Open Scope Z_scope.

(* (modes) the three weight selectors of paths.py are lambdas of the arity they are called with (no TypeError), and
   compute 1 / the edge length / the custom weight of the edge, in shortest_path and in the sink construction *)
Theorem C09_modes : forall m ws,
  sp_arity ws = sp_call_arity /\
  (forall a b, sp_weight m ws a b = mweight m ws a b) /\
  (forall a b, a <> sentinel -> b <> sentinel -> set_weight m ws a b = mweight m ws a b) /\
  (forall a b, mweight m WOne a b = 1).
Proof. exact modes_ok. Qed.
Print Assumptions C09_modes.

(* both loops start their distances from a float literal: the sums are floating-point additions whatever numeric type
   the caller's weights have (exact below 2^53; below 2^24 for np.float32 weights), never fixed-width integer sums *)
Theorem C09_accumulator_float : sp_init_dist_float = true /\ set_init_dist_float = true /\ acc_float = true.
Proof. exact accumulator_float. Qed.
Print Assumptions C09_accumulator_float.

(* the optional parameters of the three entry points default to weights = "length" and export_path_mesh = False
   (immutable constants; no other optional parameter; only the mesh-type guards decorate the functions) *)
Theorem C09_defaults : default_weights_is_length = true /\ default_export_is_false = true /\ defaults_ok = true.
Proof. exact defaults_hold. Qed.
Print Assumptions C09_defaults.

(* the relaxation test of both loops is the strict comparison *)
Theorem C09_relaxation_strict : strict_gt relax_sp /\ strict_gt relax_set.
Proof. exact relax_strict. Qed.
Print Assumptions C09_relaxation_strict.

(* the single-target shortcut forwards the target itself (not the sentinel) and reads its entry *)
Theorem C09_shortcut_plumbing : forall start t,
  shortcut_start start [t] = start /\ dedup (shortcut_targets start [t]) = [t]
  /\ shortcut_key start [t] = t /\ shortcut_index start [t] = t.
Proof. exact shortcut_plumbing. Qed.
Print Assumptions C09_shortcut_plumbing.

Theorem C09_queue_contract_inhabited : pq_contract lq [] lq_push lq_pop lq_content (fun _ => True).
Proof. exact lq_contract. Qed.
Print Assumptions C09_queue_contract_inhabited.

(* the queue the implementation uses - heapq on a list with PriorityItem.__lt__ as generated from
   priority_queue.py - meets the contract, with the heap order as its representation invariant *)
Theorem C09_heapq_meets_contract : pq_contract hq [] hq_push hq_pop hq_content hq_inv.
Proof. exact hq_contract. Qed.
Print Assumptions C09_heapq_meets_contract.

(* (fuel) the loop bound 2 + sum of degrees of the model is never what stops Dijkstra *)
Theorem C09_fuel : forall Q qempty qpush qpop content qinv nbrs w gt verts start,
  pq_contract Q qempty qpush qpop content qinv -> strict_gt gt -> graph_ok nbrs w verts start ->
  exists st, dijkstra Q qpush qpop nbrs w gt (fuel_of nbrs verts) qempty start = Ok st.
Proof. exact dijkstra_fuel. Qed.
Print Assumptions C09_fuel.

(* (Dijkstra) on termination dist t is finite exactly for the reachable t and is a lower bound of the weight of every
   path start -> t; the back-tracked list (fuel |V|) is an edge path start -> t whose weight is dist t: hence the minimum *)
Theorem C09_dijkstra_correct : forall Q qempty qpush qpop content qinv nbrs w gt verts start,
  pq_contract Q qempty qpush qpop content qinv -> strict_gt gt -> graph_ok nbrs w verts start ->
  exists st, dijkstra Q qpush qpop nbrs w gt (fuel_of nbrs verts) qempty start = Ok st /\
    (forall t p, is_path nbrs start t p -> exists d, zget (dist st) t = Some d /\ d <= path_weight w p) /\
    (forall t d, zget (dist st) t = Some d ->
       exists p, back (length verts) (pred st) start t [] = Ok p /\ is_path nbrs start t p /\ path_weight w p = d).
Proof. exact dijkstra_correct. Qed.
Print Assumptions C09_dijkstra_correct.

(* (shortest_path) for every mesh graph, weight mode with non-negative weights, start vertex and collection of target
   vertices: the call succeeds and maps EACH requested target that is connected to the start to an edge path from the
   start to it (begins at start, ends at the target, consecutive vertices joined by a mesh edge) of minimum total weight,
   and each target that is not connected to the empty list *)
Theorem C09_shortest_path : forall Q qempty qpush qpop content qinv,
  pq_contract Q qempty qpush qpop content qinv ->
  forall m ws, mesh_ok m ws = true ->
  forall start, is_vertex m start = true ->
  forall targets, forallb (is_vertex m) targets = true ->
  exists l, shortest_path Q qempty qpush qpop m ws start targets = Ok l
            /\ Forall2 (fun t tp => fst tp = t /\ target_answer m ws start t (snd tp)) (dedup targets) l.
Proof. exact shortest_path_correct. Qed.
Print Assumptions C09_shortest_path.

(* a target given singly is accepted as a Python int and as a numpy integer (the ids mouette hands out), and the call
   is then the call on the one-element collection *)
Theorem C09_single_target_forms : (forall k, single_accepts k = true) /\
  forall Q qempty qpush qpop m ws start k t,
    shortest_path1 Q qempty qpush qpop m ws start k t = shortest_path Q qempty qpush qpop m ws start [t].
Proof. exact single_target_forms_ok. Qed.
Print Assumptions C09_single_target_forms.

(* (vertex set) for every non-empty collection of vertices at least one of which is connected to the start - one-element
   collections, duplicates and collections containing the start included - the call returns a member of the set and
   an edge path from the start to it whose weight is minimal among all paths to all members *)
Theorem C09_set_target : forall Q qempty qpush qpop content qinv,
  pq_contract Q qempty qpush qpop content qinv ->
  forall m ws, mesh_ok m ws = true ->
  forall start, is_vertex m start = true ->
  forall T, forallb (is_vertex m) T = true ->
  (exists t0 p0, In t0 T /\ valid_path m start t0 p0 = true) ->
  exists ind p, shortest_path_to_vertex_set Q qempty qpush qpop m ws start T = Ok (ind, p)
                /\ nearest m ws start T ind p.
Proof. exact vertex_set_correct. Qed.
Print Assumptions C09_set_target.

(* (border) the same for mesh.boundary_vertices; the returned list ends at the nearest border vertex *)
Theorem C09_border : forall Q qempty qpush qpop content qinv,
  pq_contract Q qempty qpush qpop content qinv ->
  forall m ws, mesh_ok m ws = true ->
  forall start, is_vertex m start = true ->
  border m <> [] -> forallb (is_vertex m) (border m) = true ->
  (exists t0 p0, In t0 (border m) /\ valid_path m start t0 p0 = true) ->
  exists p, shortest_path_to_border Q qempty qpush qpop m ws start = Ok p
            /\ nearest m ws start (border m) (last p start) p.
Proof. exact border_correct. Qed.
Print Assumptions C09_border.

(* the same three statements for the functions the correspondence batches evaluate (the heapq instance) *)
Theorem C09_executed_model : forall m ws start,
  mesh_ok m ws = true -> is_vertex m start = true ->
  (forall targets, forallb (is_vertex m) targets = true ->
     exists l, run_sp m ws start targets = Ok l
               /\ Forall2 (fun t tp => fst tp = t /\ target_answer m ws start t (snd tp)) (dedup targets) l) /\
  (forall T, forallb (is_vertex m) T = true -> (exists t0 p0, In t0 T /\ valid_path m start t0 p0 = true) ->
     exists ind p, run_set m ws start T = Ok (ind, p) /\ nearest m ws start T ind p) /\
  (border m <> [] -> forallb (is_vertex m) (border m) = true ->
   (exists t0 p0, In t0 (border m) /\ valid_path m start t0 p0 = true) ->
     exists p, run_border m ws start = Ok p /\ nearest m ws start (border m) (last p start) p).
Proof. exact executed_model_correct. Qed.
Print Assumptions C09_executed_model.

(* (export_path_mesh) the polyline built from the returned paths (each a valid edge path, or empty for a target that is
   not connected): its vertices copy the path vertices in order, every consecutive pair of every path is one of its
   edges, and every one of its edges is such a pair - hence joins two vertices that a mesh edge joins *)
Theorem C09_export_polyline : forall m s (l : list (Z * list Z)),
  (forall tp, In tp l -> snd tp = [] \/ valid_path m s (fst tp) (snd tp) = true) ->
  let ps := map snd l in
  let r := build_path ps in
  fst r = concat ps /\
  (forall pre p post i, ps = pre ++ p :: post -> 1 <= i < zlen p ->
      In (zlen (concat pre) + i - 1, zlen (concat pre) + i) (snd r)
      /\ znth (fst r) (zlen (concat pre) + i - 1) 0 = znth p (i - 1) 0
      /\ znth (fst r) (zlen (concat pre) + i) 0 = znth p i 0) /\
  (forall e, In e (snd r) -> snd e = fst e + 1 /\ medge m (znth (fst r) (fst e) 0) (znth (fst r) (snd e) 0) = true).
Proof. exact export_polyline_correct. Qed.
Print Assumptions C09_export_polyline.

(* shortest_path(..., export_path_mesh=True) as executed: for every start vertex and collection of target vertices the
   returned dict answers each target (optimal path / empty if not connected) and the polyline built from it has the path
   vertices in order, an edge for every consecutive pair of every path, and only edges joining mesh-adjacent vertices *)
Theorem C09_shortest_path_export : forall m ws start targets,
  mesh_ok m ws = true -> is_vertex m start = true -> forallb (is_vertex m) targets = true ->
  exists l, run_sp m ws start targets = Ok l
    /\ Forall2 (fun t tp => fst tp = t /\ target_answer m ws start t (snd tp)) (dedup targets) l
    /\ let r := build_path (map snd l) in
       fst r = concat (map snd l) /\
       (forall pre p post i, map snd l = pre ++ p :: post -> 1 <= i < zlen p ->
           In (zlen (concat pre) + i - 1, zlen (concat pre) + i) (snd r)) /\
       (forall e, In e (snd r) -> snd e = fst e + 1 /\ medge m (znth (fst r) (fst e) 0) (znth (fst r) (snd e) 0) = true).
Proof. exact shortest_path_export_correct. Qed.
Print Assumptions C09_shortest_path_export.
