(* C09 property theorems only: each closed by `exact <lemma>` with Print Assumptions beneath. *)
From Coq Require Import ZArith List Bool.
Import ListNotations.
Require Import MV.Lib.Base MV.C09.Gen MV.C09.Model MV.C09.Proofs.
Open Scope Z_scope.

Theorem C09_modes_arity : forall ws, sp_arity ws = sp_call_arity.
Proof. exact sp_arity_ok. Qed.
Print Assumptions C09_modes_arity.

Theorem C09_shortcut_plumbing : forall start t,
  shortcut_start start [t] = start /\ dedup (shortcut_targets start [t]) = [t]
  /\ shortcut_key start [t] = t /\ shortcut_index start [t] = t.
Proof. exact shortcut_plumbing. Qed.
Print Assumptions C09_shortcut_plumbing.
