(* C09 - Dijkstra with lazy deletion and re-pushes is correct (DESIGN.md Appendix B2).
   Abstract level: any priority queue meeting the contract, any finite graph given by a neighbour function that is
   closed on a duplicate-free vertex list, non-negative integer weights. *)
From Coq Require Import ZArith List Bool Arith Lia FMapPositive Permutation.
Import ListNotations.
Require Import MV.Lib.Base MV.C09.Gen MV.C09.Model.
Open Scope Z_scope.

(* ------------------------------------------------------------------ finite maps over Z *)
Lemma enc_inj a b : enc a = enc b -> a = b.
Proof. destruct a, b; simpl; intros H; try discriminate; try reflexivity; inversion H; reflexivity. Qed.

Lemma zget_set_same {A} (m : zmap A) k a : zget (zset m k a) k = Some a.
Proof. unfold zget, zset. apply PositiveMap.gss. Qed.

Lemma zget_set_other {A} (m : zmap A) k k' a : k <> k' -> zget (zset m k a) k' = zget m k'.
Proof.
  intros H. unfold zget, zset. apply PositiveMap.gso. intros E. apply H. symmetry. now apply enc_inj.
Qed.

Lemma zget_empty {A} k : zget (@zempty A) k = None.
Proof. unfold zget, zempty. apply PositiveMap.gempty. Qed.

(* ------------------------------------------------------------------ the queue contract *)
(* `content q` is the multiset of pending (payload, key) entries, as a list up to permutation; `qinv` is the
   representation invariant of the queue (True for a plain list, heap order for heapq), kept by push and pop:
   push adds one entry; pop answers None exactly on the empty queue, and otherwise hands out an entry of
   minimum key and removes exactly that entry. *)
Record pq_contract (Q : Type) (qempty : Q) (qpush : Q -> Z -> Z -> Q) (qpop : Q -> option (Z * Z * Q))
       (content : Q -> list (Z * Z)) (qinv : Q -> Prop) : Prop := {
  pq_empty_inv : qinv qempty;
  pq_empty : content qempty = [];
  pq_push_inv : forall q x k, qinv q -> qinv (qpush q x k);
  pq_push : forall q x k, qinv q -> Permutation (content (qpush q x k)) ((x, k) :: content q);
  pq_pop_none : forall q, qinv q -> qpop q = None -> content q = [];
  pq_pop_some : forall q x k q', qinv q -> qpop q = Some (x, k, q') ->
      qinv q' /\ Permutation (content q) ((x, k) :: content q') /\ (forall y k', In (y, k') (content q) -> k <= k')
}.

(* ------------------------------------------------------------------ paths as vertex lists *)
Fixpoint chainP (R : Z -> Z -> Prop) (p : list Z) : Prop :=
  match p with
  | a :: ((b :: _) as t) => R a b /\ chainP R t
  | _ => True
  end.

Lemma chainP_snoc R p t : p <> [] -> chainP R p -> R (last p 0) t -> chainP R (p ++ [t]).
Proof.
  induction p as [|a p IH]; [congruence|]. intros _ Hc Hr.
  destruct p as [|b p].
  - simpl in *. auto.
  - change ((a :: b :: p) ++ [t]) with (a :: (b :: p) ++ [t]).
    simpl in Hc. destruct Hc as [Hab Hc].
    change (R a b /\ chainP R ((b :: p) ++ [t])). split; [exact Hab|].
    apply IH; [discriminate | exact Hc | exact Hr].
Qed.

Lemma chainP_snoc_inv R p t : p <> [] -> chainP R (p ++ [t]) -> chainP R p /\ R (last p 0) t.
Proof.
  induction p as [|a p IH]; [congruence|]. intros _ Hc.
  destruct p as [|b p].
  - simpl in *. tauto.
  - change ((a :: b :: p) ++ [t]) with (a :: (b :: p) ++ [t]) in Hc.
    change (R a b /\ chainP R ((b :: p) ++ [t])) in Hc.
    destruct Hc as [Hab Hc]. destruct (IH ltac:(discriminate) Hc) as [H1 H2].
    split; [split; assumption|]. exact H2.
Qed.

Lemma path_weight_snoc w p t : p <> [] -> path_weight w (p ++ [t]) = path_weight w p + w (last p 0) t.
Proof.
  induction p as [|a p IH]; [congruence|]. intros _.
  destruct p as [|b p].
  - simpl. lia.
  - change ((a :: b :: p) ++ [t]) with (a :: (b :: p) ++ [t]).
    change (path_weight w (a :: (b :: p) ++ [t])) with (w a b + path_weight w ((b :: p) ++ [t])).
    rewrite IH by discriminate.
    change (path_weight w (a :: b :: p)) with (w a b + path_weight w (b :: p)).
    change (last (a :: b :: p) 0) with (last (b :: p) 0). lia.
Qed.

Lemma last_snoc (p : list Z) t d : last (p ++ [t]) d = t.
Proof. induction p as [|a p IH]; [reflexivity|]. simpl. destruct (p ++ [t]) eqn:E; [destruct p; discriminate|]. exact IH. Qed.

Lemma last_indep (p : list Z) d d' : p <> [] -> last p d = last p d'.
Proof. induction p as [|a p IH]; [congruence|]. intros _. destruct p; [reflexivity|]. apply IH. discriminate. Qed.

Lemma nodup_split_unique (l1 l2 m1 m2 : list Z) x :
  NoDup (l1 ++ x :: l2) -> l1 ++ x :: l2 = m1 ++ x :: m2 -> l1 = m1 /\ l2 = m2.
Proof.
  revert m1. induction l1 as [|a l1 IH]; intros m1 Hnd E.
  - destruct m1 as [|b m1]; simpl in *.
    + inversion E. auto.
    + inversion E; subst. inversion Hnd as [|? ? Hni Hnd']; subst. exfalso. apply Hni.
      apply in_or_app. right. left. reflexivity.
  - destruct m1 as [|b m1]; simpl in *.
    + inversion E; subst. inversion Hnd as [|? ? Hni Hnd']; subst. exfalso. apply Hni.
      apply in_or_app. right. left. reflexivity.
    + inversion E as [[Eab E']]; subst. inversion Hnd as [|? ? Hni Hnd']; subst.
      destruct (IH m1 Hnd' E') as [-> ->]. auto.
Qed.

Section Correct.
  Variable Q : Type.
  Variable qempty : Q.
  Variable qpush : Q -> Z -> Z -> Q.
  Variable qpop : Q -> option (Z * Z * Q).
  Variable content : Q -> list (Z * Z).
  Variable qinv : Q -> Prop.
  Hypothesis PQ : pq_contract Q qempty qpush qpop content qinv.

  Variable nbrs : Z -> list Z.
  Variable w : Z -> Z -> Z.
  Variable gt : Z -> Z -> bool.
  Hypothesis gt_spec : forall a b, gt a b = true <-> b < a.
  Variable verts : list Z.
  Hypothesis verts_nodup : NoDup verts.
  Hypothesis nbrs_closed : forall u v, In u verts -> In v (nbrs u) -> In v verts.
  Hypothesis w_nonneg : forall u v, In u verts -> In v (nbrs u) -> 0 <= w u v.
  Variable start : Z.
  Hypothesis start_in : In start verts.

  Local Notation dget s x := (zget (dist s) x).
  Local Notation T := (fun _ _ : Z => True).

  Lemma push_in q a b x k : qinv q -> (In (x, k) (content (qpush q a b)) <-> (x, k) = (a, b) \/ In (x, k) (content q)).
  Proof.
    intros Hq. pose proof (pq_push _ _ _ _ _ _ PQ q a b Hq) as P. split; intros H.
    - apply (Permutation_in _ P) in H. destruct H as [H|H]; [left; congruence | right; exact H].
    - apply (Permutation_in _ (Permutation_sym P)). destruct H as [H|H]; [left; congruence | right; exact H].
  Qed.

  Lemma push_len q a b : qinv q -> length (content (qpush q a b)) = S (length (content q)).
  Proof. intros Hq. rewrite (Permutation_length (pq_push _ _ _ _ _ _ PQ q a b Hq)). reflexivity. Qed.

  (* "there is a walk from start to y of total weight c" *)
  Inductive walkc : Z -> Z -> Prop :=
  | wc_nil : walkc start 0
  | wc_snoc : forall y y' c, walkc y c -> In y' (nbrs y) -> walkc y' (c + w y y').

  Lemma walkc_verts y c : walkc y c -> In y verts.
  Proof. induction 1; [exact start_in | eapply nbrs_closed; eauto]. Qed.

  Lemma walkc_nonneg y c : walkc y c -> 0 <= c.
  Proof.
    induction 1; [lia|]. pose proof (w_nonneg y y' (walkc_verts _ _ H) H0). lia.
  Qed.

  (* a vertex-list path along `nbrs` from the start is a walk *)
  Lemma chain_walkc : forall p, p <> [] -> hd 0 p = start -> chainP (fun a b => In b (nbrs a)) p ->
    walkc (last p 0) (path_weight w p).
  Proof.
    induction p as [|t p IH] using rev_ind; [congruence|]. intros _ Hh Hc.
    destruct p as [|a p].
    - simpl in *. subst. constructor.
    - assert (NE : a :: p <> []) by discriminate.
      rewrite last_snoc, path_weight_snoc by exact NE.
      pose proof (chainP_snoc_inv _ _ _ NE Hc) as Hc'.
      destruct Hc' as [Hc1 Hc2].
      apply wc_snoc; [|exact Hc2]. apply IH; auto.
  Qed.

  Definition before (ord : list Z) (u x : Z) : Prop := exists l1 l2, ord = l1 ++ x :: l2 /\ In u l2.

  Definition edge_ok (s : state Q) (u x : Z) : Prop :=
    forall du, dget s u = Some du -> exists dx, dget s x = Some dx /\ dx <= du + w u x.

  (* The invariant. `ord` (ghost) lists the visited vertices, most recent first; E says which edges out of visited
     vertices have already been relaxed (all of them between two turns of the while loop). *)
  Record inv (E : Z -> Z -> Prop) (s : state Q) (ord : list Z) : Prop := mkinv {
    i_vis : forall x, visited Q s x = true <-> In x ord;
    i_nodup : NoDup ord;
    i_start : dget s start = Some 0;
    i_real : forall x d, dget s x = Some d -> walkc x d;
    i_opt : forall x d, In x ord -> dget s x = Some d -> forall c, walkc x c -> d <= c;
    i_fin : forall x, In x ord -> exists d, dget s x = Some d;
    i_edge : forall u x, In u ord -> In x (nbrs u) -> E u x -> edge_ok s u x;
    i_qhas : forall x d, dget s x = Some d -> ~ In x ord -> In (x, d) (content (que s));
    i_qge : forall x k, In (x, k) (content (que s)) -> exists d, dget s x = Some d /\ d <= k;
    i_pred : forall x d, dget s x = Some d -> x <> start ->
        exists u du, zget (pred s) x = Some u /\ dget s u = Some du /\ d = du + w u x /\ In x (nbrs u)
                     /\ In u ord /\ (In x ord -> before ord u x);
    i_qinv : qinv (que s);
    i_predfin : forall x u, zget (pred s) x = Some u -> exists d, dget s x = Some d
  }.

  Lemma inv_weaken (E E' : Z -> Z -> Prop) s ord :
    (forall u x, In u ord -> In x (nbrs u) -> E' u x -> E u x) -> inv E s ord -> inv E' s ord.
  Proof.
    intros H I. destruct I. constructor; auto.
  Qed.

  (* ---------------------------------------------------------------- one relaxation *)
  Lemma relax1_inv (E : Z -> Z -> Prop) s v ord0 nv dv :
    inv E s (v :: ord0) -> dget s v = Some dv -> In nv (nbrs v) ->
    exists s', relax1 Q qpush w gt v s nv = Ok s' /\
      inv (fun u x => E u x \/ (u = v /\ x = nv)) s' (v :: ord0) /\
      dget s' v = Some dv /\
      (length (content (que s')) <= S (length (content (que s))))%nat.
  Proof.
    intros I Hv Hnv.
    assert (Hq : qinv (que s)) by apply (i_qinv _ _ _ I).
    assert (Vv : In v verts) by (eapply walkc_verts, (i_real _ _ _ I); eauto).
    assert (Hw : 0 <= w v nv) by (apply w_nonneg; auto).
    assert (Wd : walkc nv (dv + w v nv)) by (apply wc_snoc; [eapply (i_real _ _ _ I); eauto | auto]).
    assert (Dnn : 0 <= dv + w v nv) by (eapply walkc_nonneg; eauto).
    unfold relax1. rewrite Hv.
    destruct (in_dec Z.eq_dec nv (v :: ord0)) as [Hin|Hnin].
    - (* nv already visited: its distance is final, nothing changes *)
      destruct (i_fin _ _ _ I nv Hin) as [dn Hdn].
      pose proof (i_opt _ _ _ I nv dn Hin Hdn _ Wd) as Hle.
      rewrite Hdn. simpl improves.
      destruct (gt dn (dv + w v nv)) eqn:G; [apply gt_spec in G; lia|].
      assert (Vis : visited Q s nv = true) by (apply (i_vis _ _ _ I); exact Hin).
      rewrite Vis. exists s. split; [reflexivity|]. split; [|split; [exact Hv | lia]].
      destruct I. constructor; auto.
      intros u x Hu Hx [HE|[-> ->]]; [eauto|].
      intros du Hdu. rewrite Hv in Hdu. inversion Hdu; subst. exists dn. split; [exact Hdn | lia].
    - (* nv not visited *)
      assert (NVis : visited Q s nv = false).
      { destruct (visited Q s nv) eqn:V; [|reflexivity]. apply (i_vis _ _ _ I) in V. contradiction. }
      assert (Nv : nv <> v) by (intros ->; apply Hnin; left; reflexivity).
      destruct (improves gt (dget s nv) (dv + w v nv)) eqn:Himp.
      + (* strict improvement: distance[nv] = d; path[nv] = v; push (nv, d) *)
        set (d := dv + w v nv) in *.
        assert (Nst : nv <> start).
        { intros ->. rewrite (i_start _ _ _ I) in Himp. simpl in Himp. apply gt_spec in Himp. lia. }
        assert (Old : forall dn, dget s nv = Some dn -> d < dn).
        { intros dn Hdn. rewrite Hdn in Himp. simpl in Himp. apply gt_spec in Himp. exact Himp. }
        assert (V1 : visited Q (mkst (zset (dist s) nv d) (zset (pred s) nv v) (vis s) (que s)) nv = false) by exact NVis.
        rewrite V1. cbn [dist]. rewrite zget_set_same. cbn [dist pred vis que].
        eexists. split; [reflexivity|].
        assert (Oth : forall x, x <> nv -> zget (zset (dist s) nv d) x = dget s x)
          by (intros x Hx; apply zget_set_other; congruence).
        assert (OrdNe : forall x, In x (v :: ord0) -> x <> nv) by (intros x Hx ->; contradiction).
        split; [|split].
        * constructor; cbn [dist pred vis que].
          -- intros x. apply (i_vis _ _ _ I x).
          -- apply (i_nodup _ _ _ I).
          -- rewrite Oth by congruence. apply (i_start _ _ _ I).
          -- intros x dx Hx. destruct (Z.eq_dec x nv) as [->|Ne].
             ++ rewrite zget_set_same in Hx. inversion Hx; subst. exact Wd.
             ++ rewrite Oth in Hx by exact Ne. eapply (i_real _ _ _ I); eauto.
          -- intros x dx Hin Hx. rewrite Oth in Hx by (apply OrdNe; exact Hin). eapply (i_opt _ _ _ I); eauto.
          -- intros x Hin. rewrite Oth by (apply OrdNe; exact Hin). apply (i_fin _ _ _ I); exact Hin.
          -- intros u x Hu Hx HE du Hdu. cbn [dist] in *.
             rewrite Oth in Hdu by (apply OrdNe; exact Hu).
             destruct (Z.eq_dec x nv) as [->|Ne].
             ++ rewrite zget_set_same. exists d. split; [reflexivity|].
                destruct HE as [HE|[-> _]].
                ** destruct (i_edge _ _ _ I u nv Hu Hx HE du Hdu) as [dx [Hdx Hle]]. specialize (Old _ Hdx). lia.
                ** rewrite Hv in Hdu. inversion Hdu; subst. unfold d. lia.
             ++ rewrite Oth by exact Ne. destruct HE as [HE|[_ ->]]; [|congruence].
                apply (i_edge _ _ _ I u x Hu Hx HE du Hdu).
          -- intros x dx Hx Hn. apply (push_in _ _ _ _ _ Hq). destruct (Z.eq_dec x nv) as [->|Ne].
             ++ rewrite zget_set_same in Hx. inversion Hx; subst. left. reflexivity.
             ++ rewrite Oth in Hx by exact Ne. right. apply (i_qhas _ _ _ I); assumption.
          -- intros x k Hin. apply (push_in _ _ _ _ _ Hq) in Hin. destruct Hin as [Heq|Hin].
             ++ inversion Heq; subst. rewrite zget_set_same. exists d. split; [reflexivity|lia].
             ++ destruct (i_qge _ _ _ I x k Hin) as [dx [Hdx Hle]].
                destruct (Z.eq_dec x nv) as [->|Ne].
                ** rewrite zget_set_same. exists d. split; [reflexivity|]. specialize (Old _ Hdx). lia.
                ** rewrite Oth by exact Ne. exists dx. auto.
          -- intros x dx Hx Hns. destruct (Z.eq_dec x nv) as [->|Ne].
             ++ rewrite zget_set_same in Hx. inversion Hx; subst.
                exists v, dv. rewrite zget_set_same. rewrite Oth by congruence.
                repeat split; auto. left; reflexivity. intros C; contradiction.
             ++ rewrite Oth in Hx by exact Ne.
                destruct (i_pred _ _ _ I x dx Hx Hns) as [u [du [P1 [P2 [P3 [P4 [P5 P6]]]]]]].
                exists u, du. rewrite zget_set_other by congruence. rewrite Oth by (apply OrdNe; exact P5).
                repeat split; auto.
          -- apply (pq_push_inv _ _ _ _ _ _ PQ). exact Hq.
          -- intros x u0 Hx. destruct (Z.eq_dec x nv) as [->|Ne].
             ++ rewrite zget_set_same. eauto.
             ++ rewrite zget_set_other in Hx by congruence. rewrite Oth by exact Ne.
                eapply (i_predfin _ _ _ I); eauto.
        * rewrite Oth by congruence. exact Hv.
        * cbn [que]. rewrite (push_len _ _ _ Hq). lia.
      + (* no improvement: push (nv, distance[nv]) again *)
        destruct (dget s nv) as [dn|] eqn:Hdn; [|simpl in Himp; discriminate].
        simpl in Himp.
        assert (Hle : dn <= dv + w v nv).
        { destruct (Z_lt_le_dec (dv + w v nv) dn) as [L|L]; [|exact L]. apply gt_spec in L. congruence. }
        cbv iota. rewrite NVis. try rewrite Hdn.
        eexists. split; [reflexivity|]. split; [|split].
        * destruct I. constructor; cbn [dist pred vis que]; auto.
          -- intros u x Hu Hx [HE|[-> ->]]; [eauto|].
             intros du Hdu. cbn [dist] in Hdu. rewrite Hv in Hdu. inversion Hdu; subst. exists dn. split; [exact Hdn | lia].
          -- intros x dx Hx Hn. apply (push_in _ _ _ _ _ Hq). right. auto.
          -- intros x k Hin. apply (push_in _ _ _ _ _ Hq) in Hin. destruct Hin as [Heq|Hin]; [|auto].
             inversion Heq; subst. exists dn. split; [exact Hdn | lia].
          -- apply (pq_push_inv _ _ _ _ _ _ PQ). exact Hq.
        * exact Hv.
        * cbn [que]. rewrite (push_len _ _ _ Hq). lia.
  Qed.

  Lemma relax_all_inv : forall l (E : Z -> Z -> Prop) s v ord0 dv,
    inv E s (v :: ord0) -> dget s v = Some dv -> (forall x, In x l -> In x (nbrs v)) ->
    exists s', relax_all Q qpush w gt v s l = Ok s' /\
      inv (fun u x => E u x \/ (u = v /\ In x l)) s' (v :: ord0) /\
      (length (content (que s')) <= length l + length (content (que s)))%nat.
  Proof.
    induction l as [|a l IH]; intros E s v ord0 dv I Hv Hsub.
    - exists s. split; [reflexivity|]. split; [|simpl; lia].
      eapply inv_weaken; [|exact I]. intros u x _ _ [H|[_ []]]. exact H.
    - destruct (relax1_inv E s v ord0 a dv I Hv (Hsub a (or_introl eq_refl))) as [s1 [R1 [I1 [Hv1 L1]]]].
      destruct (IH _ s1 v ord0 dv I1 Hv1 (fun x Hx => Hsub x (or_intror Hx))) as [s2 [R2 [I2 L2]]].
      exists s2. split; [simpl; rewrite R1; exact R2|]. split.
      + eapply inv_weaken; [|exact I2]. intros u x _ _ [H|[-> [->|H]]]; auto.
      + simpl length. lia.
  Qed.

  (* ---------------------------------------------------------------- popping *)
  Lemma pop_skip s ord v k q' :
    inv T s ord -> qpop (que s) = Some (v, k, q') -> In v ord ->
    inv T (mkst (dist s) (pred s) (vis s) q') ord.
  Proof.
    intros I Hp Hin. destruct (pq_pop_some _ _ _ _ _ _ PQ _ _ _ _ (i_qinv _ _ _ I) Hp) as [Hq' [P _]].
    destruct I. constructor; cbn [dist pred vis que]; auto.
    - intros x d Hx Hn. specialize (i_qhas0 x d Hx Hn). apply (Permutation_in _ P) in i_qhas0.
      destruct i_qhas0 as [Heq|H]; [|exact H]. inversion Heq; subst. contradiction.
    - intros x k' H. apply i_qge0. apply (Permutation_in _ (Permutation_sym P)). right. exact H.
  Qed.

  (* the cut argument: a walk either costs at least the popped key, or ends in a visited vertex whose distance it bounds *)
  Lemma cut s ord k :
    inv T s ord -> (forall y k', In (y, k') (content (que s)) -> k <= k') ->
    forall y c, walkc y c -> k <= c \/ (In y ord /\ exists dy, dget s y = Some dy /\ dy <= c).
  Proof.
    intros I Hmin y c Hw. induction Hw as [|y y' c Hw IH Hy'].
    - destruct (in_dec Z.eq_dec start ord) as [Hin|Hn].
      + right. split; [exact Hin|]. exists 0. split; [apply (i_start _ _ _ I) | lia].
      + left. apply (Hmin start). apply (i_qhas _ _ _ I); [apply (i_start _ _ _ I) | exact Hn].
    - pose proof (w_nonneg y y' (walkc_verts _ _ Hw) Hy') as Hnn.
      destruct IH as [IH|[Hin [dy [Hdy Hle]]]]; [left; lia|].
      destruct (i_edge _ _ _ I y y' Hin Hy' Logic.I dy Hdy) as [dy' [Hdy' Hle']].
      destruct (in_dec Z.eq_dec y' ord) as [Hin'|Hn'].
      + right. split; [exact Hin'|]. exists dy'. split; [exact Hdy'|lia].
      + left. pose proof (Hmin y' dy' (i_qhas _ _ _ I y' dy' Hdy' Hn')). lia.
  Qed.

  Lemma visited_mark s v q' x :
    visited Q (mkst (dist s) (pred s) (zset (vis s) v tt) q') x = true <-> x = v \/ visited Q s x = true.
  Proof.
    unfold visited. cbn [vis]. destruct (Z.eq_dec v x) as [->|Ne].
    - rewrite zget_set_same. tauto.
    - rewrite zget_set_other by exact Ne. split; [auto|]. intros [H|H]; [congruence|exact H].
  Qed.

  Lemma pop_visit s ord v k q' :
    inv T s ord -> qpop (que s) = Some (v, k, q') -> ~ In v ord ->
    exists dv, dget s v = Some dv /\
      inv (fun u _ => u <> v) (mkst (dist s) (pred s) (zset (vis s) v tt) q') (v :: ord).
  Proof.
    intros I Hp Hn. destruct (pq_pop_some _ _ _ _ _ _ PQ _ _ _ _ (i_qinv _ _ _ I) Hp) as [Hq' [P Hmin]].
    assert (Hvk : In (v, k) (content (que s))) by (apply (Permutation_in _ (Permutation_sym P)); left; reflexivity).
    destruct (i_qge _ _ _ I v k Hvk) as [dv [Hdv Hle]].
    pose proof (Hmin v dv (i_qhas _ _ _ I v dv Hdv Hn)) as Hge.
    assert (Hopt : forall c, walkc v c -> dv <= c).
    { intros c Hc. destruct (cut s ord k I Hmin v c Hc) as [H|[H _]]; [lia|contradiction]. }
    exists dv. split; [exact Hdv|].
    constructor; cbn [dist pred vis que].
    - intros x. rewrite visited_mark. rewrite (i_vis _ _ _ I x). simpl. split; intros [H|H]; auto.
    - constructor; [exact Hn | apply (i_nodup _ _ _ I)].
    - apply (i_start _ _ _ I).
    - apply (i_real _ _ _ I).
    - intros x d [<-|Hin] Hx c Hc.
      + rewrite Hdv in Hx. inversion Hx; subst. auto.
      + eapply (i_opt _ _ _ I); eauto.
    - intros x [<-|Hin]; [eauto | apply (i_fin _ _ _ I); exact Hin].
    - intros u x [<-|Hu] Hx Hne; [congruence|]. apply (i_edge _ _ _ I u x Hu Hx Logic.I).
    - intros x d Hx Hnx. assert (Hnx' : ~ In x ord) by (intros C; apply Hnx; right; exact C).
      pose proof (i_qhas _ _ _ I x d Hx Hnx') as H. apply (Permutation_in _ P) in H.
      destruct H as [Heq|H]; [|exact H]. inversion Heq; subst. exfalso. apply Hnx. left. reflexivity.
    - intros x k' H. apply (i_qge _ _ _ I). apply (Permutation_in _ (Permutation_sym P)). right. exact H.
    - intros x d Hx Hns. destruct (i_pred _ _ _ I x d Hx Hns) as [u [du [P1 [P2 [P3 [P4 [P5 P6]]]]]]].
      exists u, du. repeat split; auto. right; exact P5.
      intros [<-|Hin].
      + exists [], ord. split; [reflexivity | exact P5].
      + destruct (P6 Hin) as [l1 [l2 [E1 E2]]]. exists (v :: l1), l2. split; [rewrite E1; reflexivity | exact E2].
    - exact Hq'.
    - apply (i_predfin _ _ _ I).
  Qed.

  (* ---------------------------------------------------------------- fuel *)
  Definition rem (ord : list Z) (L : list Z) : list Z := filter (fun x => negb (mem x ord)) L.

  Lemma mem_In x l : mem x l = true <-> In x l.
  Proof.
    unfold mem. rewrite existsb_exists. split.
    - intros [y [Hy E]]. apply Z.eqb_eq in E. subst. exact Hy.
    - intros H. exists x. split; [exact H | apply Z.eqb_refl].
  Qed.

  Lemma rem_cons ord a L : rem ord (a :: L) = if mem a ord then rem ord L else a :: rem ord L.
  Proof. unfold rem. simpl. destruct (mem a ord); reflexivity. Qed.

  Lemma mem_cons x v ord : mem x (v :: ord) = (x =? v) || mem x ord.
  Proof. reflexivity. Qed.

  Lemma rem_cons_notin v ord L : ~ In v L -> rem (v :: ord) L = rem ord L.
  Proof.
    induction L as [|a L IH]; [reflexivity|]. intros Hn.
    assert (Ne : a <> v) by (intros ->; apply Hn; left; reflexivity).
    rewrite !rem_cons, mem_cons. apply Z.eqb_neq in Ne. rewrite Ne. simpl.
    rewrite IH by (intros C; apply Hn; right; exact C). reflexivity.
  Qed.

  Lemma deg_rem v ord L : NoDup L -> In v L -> ~ In v ord ->
    deg_sum nbrs (rem ord L) = (length (nbrs v) + deg_sum nbrs (rem (v :: ord) L))%nat.
  Proof.
    induction L as [|a L IH]; [intros _ []|]. intros Hnd Hin Hno.
    inversion Hnd as [|? ? Hni Hnd']; subst.
    rewrite !rem_cons, mem_cons.
    destruct Hin as [->|Hin].
    - rewrite Z.eqb_refl. simpl orb. cbv iota.
      destruct (mem v ord) eqn:M; [apply mem_In in M; contradiction|].
      rewrite (rem_cons_notin v ord L Hni). reflexivity.
    - assert (Ne : a <> v) by (intros ->; contradiction).
      apply Z.eqb_neq in Ne. rewrite Ne. simpl orb.
      destruct (mem a ord); simpl deg_sum; rewrite (IH Hnd' Hin Hno); lia.
  Qed.

  Lemma rem_nil L : rem [] L = L.
  Proof. induction L as [|a L IH]; [reflexivity|]. rewrite rem_cons. simpl. rewrite IH. reflexivity. Qed.

  Lemma loop_ok : forall fuel s ord,
    inv T s ord ->
    (length (content (que s)) + deg_sum nbrs (rem ord verts) < fuel)%nat ->
    exists s' ord', loop Q qpush qpop nbrs w gt fuel s = Ok s' /\ inv T s' ord' /\ content (que s') = [].
  Proof.
    induction fuel as [|f IH]; intros s ord I Hm; [lia|].
    simpl. destruct (qpop (que s)) as [[[v k] q']|] eqn:Hp.
    - destruct (pq_pop_some _ _ _ _ _ _ PQ _ _ _ _ (i_qinv _ _ _ I) Hp) as [_ [P _]].
      pose proof (Permutation_length P) as PL. simpl in PL.
      assert (Veq : visited Q (mkst (dist s) (pred s) (vis s) q') v = visited Q s v) by reflexivity.
      rewrite Veq.
      destruct (visited Q s v) eqn:V.
      + apply (i_vis _ _ _ I) in V. apply (IH _ ord (pop_skip _ _ _ _ _ I Hp V)). cbn [que]. lia.
      + assert (Hn : ~ In v ord).
        { intros C. apply (i_vis _ _ _ I) in C. congruence. }
        destruct (pop_visit _ _ _ _ _ I Hp Hn) as [dv [Hdv I1]].
        cbn [dist pred vis que].
        assert (Vv : In v verts) by (eapply walkc_verts, (i_real _ _ _ I); eauto).
        destruct (relax_all_inv (nbrs v) _ _ v ord dv I1 Hdv (fun x H => H)) as [s2 [R2 [I2 L2]]].
        rewrite R2. apply (IH s2 (v :: ord)).
        * eapply inv_weaken; [|exact I2]. intros u x Hu Hx _.
          destruct (Z.eq_dec u v) as [->|Ne]; [right; auto | left; exact Ne].
        * cbn [que] in L2. rewrite (deg_rem v ord verts verts_nodup Vv Hn) in Hm. lia.
    - exists s, ord. split; [reflexivity|]. split; [exact I|]. apply (pq_pop_none _ _ _ _ _ _ PQ); [apply (i_qinv _ _ _ I) | exact Hp].
  Qed.

  Lemma init_inv : inv T (init Q qpush qempty start) [].
  Proof.
    unfold init.
    assert (C : forall x k, In (x, k) (content (qpush qempty start 0)) <-> (x, k) = (start, 0)).
    { intros x k. rewrite (push_in _ _ _ _ _ (pq_empty_inv _ _ _ _ _ _ PQ)). rewrite (pq_empty _ _ _ _ _ _ PQ). simpl. tauto. }
    assert (D : forall x d, zget (zset (@zempty Z) start 0) x = Some d -> x = start /\ d = 0).
    { intros x d H. destruct (Z.eq_dec start x) as [->|Ne].
      - rewrite zget_set_same in H. inversion H. auto.
      - rewrite zget_set_other, zget_empty in H by exact Ne. discriminate. }
    constructor; cbn [dist pred vis que].
    - intros x. unfold visited. cbn [vis]. rewrite zget_empty. simpl. split; [discriminate | tauto].
    - constructor.
    - apply zget_set_same.
    - intros x d H. apply D in H. destruct H as [-> ->]. constructor.
    - intros x d [].
    - intros x [].
    - intros u x [].
    - intros x d H _. apply D in H. destruct H as [-> ->]. apply C. reflexivity.
    - intros x k H. apply C in H. inversion H; subst. exists 0. split; [apply zget_set_same | lia].
    - intros x d H Hn. apply D in H. destruct H as [-> _]. congruence.
    - apply (pq_push_inv _ _ _ _ _ _ PQ). apply (pq_empty_inv _ _ _ _ _ _ PQ).
    - intros x u H. rewrite zget_empty in H. discriminate.
  Qed.

  (* ---------------------------------------------------------------- the state Dijkstra ends in *)
  Definition final (s : state Q) (ord : list Z) : Prop := inv T s ord /\ content (que s) = [].

  Theorem dijkstra_terminates :
    exists s ord, dijkstra Q qpush qpop nbrs w gt (fuel_of nbrs verts) qempty start = Ok s /\ final s ord.
  Proof.
    unfold dijkstra, fuel_of.
    destruct (loop_ok (S (S (deg_sum nbrs verts))) _ [] init_inv) as [s [ord [H1 [H2 H3]]]].
    - unfold init. cbn [que]. rewrite (push_len _ _ _ (pq_empty_inv _ _ _ _ _ _ PQ)), (pq_empty _ _ _ _ _ _ PQ), rem_nil. simpl. lia.
    - exists s, ord. split; [exact H1 | split; assumption].
  Qed.

  Lemma final_all_visited s ord x d : final s ord -> dget s x = Some d -> In x ord.
  Proof.
    intros [I E] H. destruct (in_dec Z.eq_dec x ord) as [Hin|Hn]; [exact Hin|].
    pose proof (i_qhas _ _ _ I x d H Hn) as C. rewrite E in C. destruct C.
  Qed.

  (* dist = delta: realised by a walk and a lower bound of every walk *)
  Theorem final_dist_optimal s ord x d : final s ord -> dget s x = Some d ->
    walkc x d /\ forall c, walkc x c -> d <= c.
  Proof.
    intros F H. pose proof (final_all_visited _ _ _ _ F H) as Hin. destruct F as [I E].
    split; [eapply (i_real _ _ _ I); eauto | eapply (i_opt _ _ _ I); eauto].
  Qed.

  (* every reachable vertex gets a finite distance *)
  Theorem final_reachable s ord x c : final s ord -> walkc x c -> exists d, dget s x = Some d.
  Proof.
    intros F Hw. induction Hw as [|y y' c Hw IH Hy'].
    - exists 0. apply (i_start _ _ _ (proj1 F)).
    - destruct IH as [dy Hdy]. pose proof (final_all_visited _ _ _ _ F Hdy) as Hin.
      destruct (i_edge _ _ _ (proj1 F) y y' Hin Hy' Logic.I dy Hdy) as [dy' [H _]]. eauto.
  Qed.

  (* a vertex without a finite distance has no predecessor: its back-tracking answers the empty path *)
  Lemma final_unreached s ord t fuel : final s ord -> dget s t = None -> (0 < fuel)%nat ->
    back fuel (pred s) start t [] = Ok [].
  Proof.
    intros [I _] Hd Hf. destruct fuel as [|f]; [lia|]. simpl.
    destruct (Z.eqb_spec t start) as [->|Ne]; [rewrite (i_start _ _ _ I) in Hd; discriminate|].
    destruct (zget (pred s) t) as [u|] eqn:P; [|reflexivity].
    destruct (i_predfin _ _ _ I t u P) as [d Hd']. congruence.
  Qed.

  (* ---------------------------------------------------------------- back-tracking *)
  Definition good_path (s : state Q) (t : Z) (p : list Z) : Prop :=
    p <> [] /\ hd 0 p = start /\ last p 0 = t /\ chainP (fun a b => In b (nbrs a)) p
    /\ dget s t = Some (path_weight w p).

  Lemma back_ok s ord : inv T s ord ->
    forall n t l1 l2 acc fuel, ord = l1 ++ t :: l2 -> length l2 = n -> (n < fuel)%nat ->
    exists p, back fuel (pred s) start t acc = Ok (p ++ acc) /\ good_path s t p
              /\ (forall x, In x p -> In x (t :: l2)).
  Proof.
    intros I n. induction n as [n IH] using lt_wf_ind. intros t l1 l2 acc fuel Hord Hlen Hf.
    destruct fuel as [|f]; [lia|]. simpl.
    destruct (Z.eqb_spec t start) as [->|Ne].
    - exists [start]. split; [reflexivity|]. split.
      + repeat split; simpl; auto; try discriminate. apply (i_start _ _ _ I).
      + intros x [<-|[]]. left. reflexivity.
    - assert (Hin : In t ord) by (rewrite Hord; apply in_or_app; right; left; reflexivity).
      destruct (i_fin _ _ _ I t Hin) as [d Hd].
      destruct (i_pred _ _ _ I t d Hd Ne) as [u [du [P1 [P2 [P3 [P4 [P5 P6]]]]]]].
      rewrite P1.
      destruct (P6 Hin) as [m1 [m2 [E1 E2]]].
      assert (ND : NoDup (l1 ++ t :: l2)) by (rewrite <- Hord; apply (i_nodup _ _ _ I)).
      rewrite Hord in E1. destruct (nodup_split_unique _ _ _ _ _ ND E1) as [<- <-].
      destruct (in_split _ _ E2) as [k1 [k2 Ek]].
      assert (Hord2 : ord = (l1 ++ t :: k1) ++ u :: k2).
      { rewrite Hord, Ek. rewrite <- app_assoc. reflexivity. }
      assert (Hlt : (length k2 < n)%nat).
      { rewrite <- Hlen, Ek, app_length. simpl. lia. }
      destruct (IH (length k2) Hlt u _ k2 (t :: acc) f Hord2 eq_refl ltac:(lia)) as [p [Hb [Hg Hs]]].
      exists (p ++ [t]). split; [rewrite Hb, <- app_assoc; reflexivity|].
      destruct Hg as [G1 [G2 [G3 [G4 G5]]]].
      split.
      + split; [destruct p; discriminate|]. split; [destruct p; [congruence | exact G2]|].
        split; [apply last_snoc|]. split.
        * apply chainP_snoc; auto. rewrite G3. exact P4.
        * rewrite path_weight_snoc by exact G1. rewrite G3. rewrite Hd.
          rewrite G5 in P2. inversion P2; subst. reflexivity.
      + intros x Hx. apply in_app_or in Hx. destruct Hx as [Hx|[<-|[]]]; [|left; reflexivity].
        right. rewrite Ek. apply in_or_app. right. apply Hs. exact Hx.
  Qed.

  Lemma ord_length s ord : inv T s ord -> (length ord <= length verts)%nat.
  Proof.
    intros I. apply NoDup_incl_length; [apply (i_nodup _ _ _ I)|].
    intros x Hx. destruct (i_fin _ _ _ I x Hx) as [d Hd]. eapply walkc_verts, (i_real _ _ _ I); eauto.
  Qed.

  (* the back-tracked list of a reachable target: an edge path from the start to it whose weight is dist *)
  Theorem back_correct s ord t d fuel : final s ord -> dget s t = Some d -> (length verts <= fuel)%nat ->
    exists p, back fuel (pred s) start t [] = Ok p /\ good_path s t p /\ (forall x, In x p -> In x ord).
  Proof.
    intros F Hd Hf. pose proof (final_all_visited _ _ _ _ F Hd) as Hin. destruct F as [I E].
    destruct (in_split _ _ Hin) as [l1 [l2 Hord]].
    pose proof (ord_length _ _ I) as OL. rewrite Hord, app_length in OL. simpl in OL.
    destruct (back_ok s ord I (length l2) t l1 l2 [] fuel Hord eq_refl ltac:(lia)) as [p [Hb [Hg Hs]]].
    exists p. rewrite app_nil_r in Hb. split; [exact Hb|]. split; [exact Hg|].
    intros x Hx. rewrite Hord. apply in_or_app. right. apply Hs. exact Hx.
  Qed.

  (* stronger localisation used by the vertex-set query: the path to t only uses vertices visited no later than t *)
  Lemma back_correct_suffix s ord t l1 l2 fuel : final s ord -> ord = l1 ++ t :: l2 -> (length verts <= fuel)%nat ->
    exists p, back fuel (pred s) start t [] = Ok p /\ good_path s t p /\ (forall x, In x p -> In x (t :: l2)).
  Proof.
    intros [I E] Hord Hf.
    pose proof (ord_length _ _ I) as OL. rewrite Hord, app_length in OL. simpl in OL.
    destruct (back_ok s ord I (length l2) t l1 l2 [] fuel Hord eq_refl ltac:(lia)) as [p [Hb [Hg Hs]]].
    exists p. rewrite app_nil_r in Hb. auto.
  Qed.
End Correct.
