(* C15 - executable model of mouette/processing/features.py (FeatureEdgeDetector.run). NO proofs.

   Input tables (record [fmesh]) are what the detector reads from the mesh: the edge list, edge_to_faces of every
   edge, the boundary edge list, the declared hard edges, the face normals it uses (attribute "normals" or
   face_normals), vertex_to_edges, and the angle sums of the corners at each vertex measured in units of pi
   (so that `pi` is the rational 1 in the generated expressions; every expression of _flag_corners is
   homogeneous in pi).  Thresholds, comparison operators, only_border short-cuts and the order of the three
   passes come from Gen.v. *)
From Coq Require Import ZArith List Bool QArith Qabs.
Import ListNotations.
Require Import MV.Lib.Base MV.C15.Prelude MV.C15.Gen.
Local Open Scope Z_scope.

Record fmesh := mkF {
  f_nV      : Z;
  f_edges   : list (Z * Z);                  (* mesh.edges *)
  f_e2f     : list (option Z * option Z);    (* connectivity.edge_to_faces(A,B) for (A,B) = mesh.edges[e] *)
  f_bedges  : list Z;                        (* mesh.boundary_edges *)
  f_hard    : option (list Z);               (* keys of the "hard_edges" edge attribute, None = no such attribute *)
  f_normals : list (Q * Q * Q);              (* self.fnormals[f] *)
  f_v2e     : list (list (option Z));        (* connectivity.vertex_to_edges(v) *)
  f_half    : list Q                         (* sum of the corner angles at v, divided by pi *)
}.

Record fopts := mkO { o_only_border : bool; o_flag_corners : bool; o_corner_order : Z }.

Definition e2f_at (m : fmesh) (e : Z) : option Z * option Z := znth (f_e2f m) e (None, None).
Definition fedge_at (m : fmesh) (e : Z) : Z * Z := znth (f_edges m) e (-1, -1).
Definition normal_at (m : fmesh) (t : Z) : Q * Q * Q := znth (f_normals m) t (0, 0, 0)%Q.
Definition isnone {A} (o : option A) : bool := match o with None => true | Some _ => false end.

Definition dot3 (a b : Q * Q * Q) : Q :=
  let '(a1, a2, a3) := a in let '(b1, b2, b3) := b in (a1 * b1 + a2 * b2 + a3 * b3)%Q.

(* mesh.is_edge_on_border(A,B) with (A,B) = mesh.edges[e], for an existing edge: one of the two half-edges has no face *)
Definition e_on_border (m : fmesh) (e : Z) : bool :=
  match e2f_at m e with (Some _, Some _) => false | _ => true end.

(* geometry.dot(N1,N2) of the two faces of edge e (plus a shift used only by the tolerance band of the
   correspondence; the model proper is shift = 0) *)
Definition edge_dot (shift : Q) (m : fmesh) (e : Z) : option Q :=
  match e2f_at m e with
  | (Some t1, Some t2) => Some (dot3 (normal_at m t1) (normal_at m t2) + shift)%Q
  | _ => None
  end.

(* --- the three passes; `feat` = keys of the sparse bool attribute "feature" in insertion order *)
Definition hard_step (shift : Q) (m : fmesh) (feat : list Z) (e : Z) : list Z :=
  let '(t1, t2) := e2f_at m e in
  if hard_missing (isnone t1) (isnone t2) then feat else
  match edge_dot shift m e with
  | Some d => if hard_test d (e_on_border m e) then key_add e feat else feat
  | None => feat
  end.

Definition pass_hard (shift : Q) (m : fmesh) (o : fopts) (feat : list Z) : list Z :=
  if hard_skip (o_only_border o) then feat else
  match f_hard m with
  | None => feat
  | Some l => fold_left (hard_step shift m) l feat
  end.

Definition sharp_step (shift : Q) (m : fmesh) (feat : list Z) (e : Z) : list Z :=
  let '(t1, t2) := e2f_at m e in
  if sharp_missing (isnone t1) (isnone t2) then feat else
  match edge_dot shift m e with
  | Some d => if sharp_test d then key_add e feat else feat
  | None => feat
  end.

Definition pass_sharp (shift : Q) (m : fmesh) (o : fopts) (feat : list Z) : list Z :=
  if sharp_skip (o_only_border o) then feat else
  fold_left (sharp_step shift m) (zrange (Z.of_nat (length (f_edges m)))) feat.

Definition pass_border (m : fmesh) (o : fopts) (feat : list Z) : list Z :=
  if border_skip (o_only_border o) then feat else
  fold_left (fun acc e => key_add e acc) (f_bedges m) feat.

Definition run_pass (shift : Q) (m : fmesh) (o : fopts) (feat : list Z) (p : pass) : list Z :=
  match p with
  | PassHard => pass_hard shift m o feat
  | PassSharp => pass_sharp shift m o feat
  | PassBorder => pass_border m o feat
  end.

Definition feature_keys (shift : Q) (m : fmesh) (o : fopts) : list Z :=
  fold_left (run_pass shift m o) pass_order [].

(* --- derived containers *)
Definition feature_edges (m : fmesh) (o : fopts) : list Z := feature_keys 0 m o.

Definition verts_of (m : fmesh) (feat : list Z) : list Z :=
  fold_left (fun acc e => let '(a, b) := fedge_at m e in key_add b (key_add a acc)) feat [].

Definition feature_vertices (m : fmesh) (o : fopts) : list Z := verts_of m (feature_edges m o).

Definition is_feat (feat : list Z) (oe : option Z) : bool :=
  match oe with Some e => memz e feat | None => false end.

(* [i for i, ev in enumerate(vertex_to_edges(v)) if feature[ev]] *)
Fixpoint local_of (feat : list Z) (l : list (option Z)) (i : Z) : list Z :=
  match l with
  | [] => []
  | oe :: t => if is_feat feat oe then i :: local_of feat t (i + 1) else local_of feat t (i + 1)
  end.

Definition local_feat_edges_of (m : fmesh) (feat : list Z) (v : Z) : list Z :=
  local_of feat (znth (f_v2e m) v []) 0.

Definition local_feat_edges (m : fmesh) (o : fopts) : list (Z * list Z) :=
  let feat := feature_edges m o in
  map (fun v => (v, local_feat_edges_of m feat v)) (verts_of m feat).

Definition dict_incr (k : Z) (l : list (Z * Z)) : list (Z * Z) :=
  dict_set k (match dict_get k l with Some x => x + 1 | None => 0 + 1 end) l.

Definition degrees_of (m : fmesh) (feat : list Z) : list (Z * Z) :=
  fold_left (fun acc e => let '(a, b) := fedge_at m e in dict_incr b (dict_incr a acc)) feat [].

Definition feature_degrees (m : fmesh) (o : fopts) : list (Z * Z) := degrees_of m (feature_edges m o).

Definition corner_of (h : Q) (order : Z) : Z :=
  if corner_small h order then corner_small_value h else corner_value h order.

Definition half_at (m : fmesh) (v : Z) : Q := znth (f_half m) v 0%Q.

(* None when flag_corners is off (self.corners stays None) *)
Definition corners (m : fmesh) (o : fopts) : option (list (Z * Z)) :=
  if o_flag_corners o then
    Some (map (fun v => (v, corner_of (half_at m v) (o_corner_order o))) (feature_vertices m o))
  else None.

(* ------------------------------------------------------------------ well-formedness of the tables *)
Definition wf_edge_f (m : fmesh) (e : Z) : bool :=
  let '(a, b) := fedge_at m e in
  (0 <=? a) && (a <? b) && (b <? f_nV m)
  && Bool.eqb (memz e (f_bedges m)) (e_on_border m e).

Fixpoint count_occ_o (e : Z) (l : list (option Z)) : Z :=
  match l with
  | [] => 0
  | Some x :: t => (if x =? e then 1 else 0) + count_occ_o e t
  | None :: t => count_occ_o e t
  end.

(* vertex_to_edges(v) lists exactly the edges incident to v, each once *)
Definition wf_v2e (m : fmesh) (v : Z) : bool :=
  forallb (fun e => let '(a, b) := fedge_at m e in
                    count_occ_o e (znth (f_v2e m) v []) =? (if (a =? v) || (b =? v) then 1 else 0))
          (zrange (Z.of_nat (length (f_edges m)))).

Definition wf_f (m : fmesh) : bool :=
  let nE := Z.of_nat (length (f_edges m)) in
  (Z.of_nat (length (f_e2f m)) =? nE)
  && (Z.of_nat (length (f_v2e m)) =? f_nV m)
  && forallb (wf_edge_f m) (zrange nE)
  && forallb (fun e => (0 <=? e) && (e <? nE)) (f_bedges m)
  && forallb (fun e => (0 <=? e) && (e <? nE)) (match f_hard m with Some l => l | None => [] end)
  && forallb (wf_v2e m) (zrange (f_nV m))
  && forallb (fun l => forallb (fun oe => match oe with Some e => (0 <=? e) && (e <? nE) | None => false end) l) (f_v2e m).
