(* C15 - support only, NOT in the cone of Props.v (coq-interval pulls Flocq/Coquelicot/Bignums and the Uint63
   specification axioms): the second threshold in degrees. *)
From Coq Require Import Reals Lra.
From Interval Require Import Tactic.
Require Import MV.C15.ProofsAngle.
Local Open Scope R_scope.

Theorem acos45_degrees : 36.86 < acos (4 / 5) * 180 / PI < 36.88.
Proof.
  rewrite acos45_atan. split; interval with (i_prec 40).
Qed.
