(* C15 - extract_border_cycle_all: the cycles returned partition the border vertices into the border loops
   (connected components of the border graph), each exactly once. *)
From Coq Require Import ZArith List Bool Lia Relations Permutation.
Import ListNotations.
Require Import MV.Lib.Base MV.C15.Model MV.C15.ProofsBase MV.C15.GenFacts MV.C15.ProofsCycle.
Local Open Scope Z_scope.

Section All.
Variable s : surf.
Hypothesis W : wf s.
Notation B := (s_bverts s).

(* a set of already visited vertices is a union of whole loops *)
Definition closed_set (vis : list Z) : Prop :=
  forall x, In x vis -> In x B /\ In (bpred s x) vis /\ In (bsucc s x) vis.

Lemma chain_back l : chain s l -> incl l B -> forall vis, closed_set vis ->
  forall x, In x l -> In x vis -> In (hd 0 l) vis.
Proof.
  intros H. induction H as [a | a b l E H IH]; intros Hi vis Hc x Hx Hv.
  - destruct Hx as [<-|[]]. exact Hv.
  - destruct Hx as [<-|Hx]; [exact Hv|]. simpl.
    assert (Hb : In b vis) by (apply (IH (fun z Hz => Hi z (or_intror Hz)) vis Hc x Hx Hv)).
    destruct (Hc b Hb) as [_ [_ S]]. subst b. rewrite (wf_sp s W) in S; [exact S | apply Hi; now left].
Qed.

Lemma cycle_fresh start vb eb vis : is_cycle s start vb eb -> closed_set vis -> ~ In start vis ->
  forall x, In x vb -> ~ In x vis.
Proof.
  intros [H1 [H2 [H3 [H4 [H5 H6]]]]] Hc Hn x Hx Hv. apply Hn. rewrite <- H1.
  now apply (chain_back vb H2 H5 vis Hc x).
Qed.

Lemma closed_app start vb eb vis : is_cycle s start vb eb -> closed_set vis -> closed_set (vb ++ vis).
Proof.
  intros C Hc x Hx. apply in_app_iff in Hx as [Hx|Hx].
  - split; [destruct C as [_ [_ [_ [_ [H5 _]]]]]; now apply H5|].
    split; apply in_app_iff; left;
      [now apply (cycle_closed_pred s start vb eb) | now apply (cycle_closed_succ s W start vb eb)].
  - destruct (Hc x Hx) as [A [P S]]. split; [exact A|]. split; apply in_app_iff; now right.
Qed.

Definition good_cycle (todo vis : list Z) (c : list Z) : Prop :=
  exists start eb, extract_border_cycle s (Some start) = Outcome (CycOk c eb) /\ is_cycle s start c eb
                   /\ In start todo /\ ~ In start vis.

Lemma all_loop_spec : forall todo vis, incl todo B -> closed_set vis ->
  exists cycles, all_loop s todo vis = Some cycles
    /\ Forall (good_cycle todo vis) cycles
    /\ NoDup (concat cycles)
    /\ (forall x, In x (concat cycles) -> In x B /\ ~ In x vis)
    /\ (forall x, In x todo -> In x vis \/ In x (concat cycles))
    /\ closed_set (concat cycles ++ vis).
Proof.
  induction todo as [|v t IH]; intros vis Hi Hc.
  - exists []. simpl. split; [reflexivity|]. split; [constructor|]. split; [constructor|].
    split; [intros x []|]. split; [intros x []|exact Hc].
  - assert (Hv : In v B) by (apply Hi; now left).
    assert (Ht : incl t B) by (intros z Hz; apply Hi; now right).
    cbn [all_loop]. rewrite gen_all_enter. destruct (memz v vis) eqn:M; simpl negb; cbv iota.
    + apply memz_In in M. destruct (IH vis Ht Hc) as [cycles [E [F [N [D [Cov Cl]]]]]].
      exists cycles. split; [exact E|]. split; [|split; [exact N|split; [exact D|split; [|exact Cl]]]].
      * eapply Forall_impl; [|exact F]. intros c [st [eb [X [Y [Z1 Z2]]]]]. exists st, eb.
        split; [exact X|]. split; [exact Y|]. split; [now right | exact Z2].
      * intros x [<-|Hx]; [now left | now apply Cov].
    + apply memz_false in M.
      destruct (cycle_ok s W v Hv) as [vb [eb [E C]]]. rewrite E.
      rewrite gen_all_pick. simpl Z.eqb. cbv iota.
      destruct (IH (vb ++ vis) Ht (closed_app v vb eb vis C Hc)) as [cycles [E2 [F [N [D [Cov Cl]]]]]].
      rewrite E2. exists (vb :: cycles).
      pose proof C as [H1 [H2 [H3 [H4 [H5 H6]]]]].
      split; [reflexivity|]. split; [|split; [|split; [|split]]].
      * constructor.
        -- exists v, eb. split; [exact E|]. split; [exact C|]. split; [now left | exact M].
        -- eapply Forall_impl; [|exact F]. intros c [st [eb' [X [Y [Z1 Z2]]]]]. exists st, eb'.
           split; [exact X|]. split; [exact Y|]. split; [now right | intros I; apply Z2; apply in_app_iff; now right].
      * simpl concat. apply NoDup_app_intro; auto.
        intros x Hx Hx2. destruct (D x Hx2) as [_ D2]. apply D2. apply in_app_iff. now left.
      * intros x Hx. simpl concat in Hx. apply in_app_iff in Hx as [Hx|Hx].
        -- split; [now apply H5 | now apply (cycle_fresh v vb eb vis C Hc M)].
        -- destruct (D x Hx) as [D1 D2]. split; [exact D1|]. intros I. apply D2. apply in_app_iff. now right.
      * intros x [<-|Hx].
        -- right. simpl concat. apply in_app_iff. left. rewrite <- H1.
           pose proof (chain_nonnil s _ H2). destruct vb; [congruence | now left].
        -- simpl concat. destruct (Cov x Hx) as [Q|Q]; [apply in_app_iff in Q as [Q|Q]|].
           ++ right. apply in_app_iff. now left.
           ++ now left.
           ++ right. apply in_app_iff. now right.
      * simpl concat. intros x Hx.
        assert (Hx' : In x (concat cycles ++ vb ++ vis)).
        { rewrite !in_app_iff in *. tauto. }
        destruct (Cl x Hx') as [A [P S]]. split; [exact A|]. rewrite !in_app_iff in *. tauto.
Qed.

(* a class of border vertices: non-empty, and exactly one connected component of the border graph *)
Definition is_loop (c : list Z) : Prop :=
  c <> [] /\ forall u, In u c -> forall v, In v c <-> bconn s u v.

Lemma bconn_sym u v : bconn s u v -> bconn s v u.
Proof. apply rst_sym. Qed.

Lemma cycle_loop start vb eb : is_cycle s start vb eb -> is_loop vb.
Proof.
  intros C. split; [destruct C as [_ [H2 _]]; now apply (chain_nonnil s)|].
  intros u Hu v. rewrite (cycle_is_loop s W start vb eb C v).
  apply (cycle_is_loop s W start vb eb C) in Hu. split; intros H.
  - eapply rst_trans; [apply bconn_sym; exact Hu | exact H].
  - eapply rst_trans; [exact Hu | exact H].
Qed.

(* a decomposition of the border vertices into border loops *)
Definition loop_partition (L : list (list Z)) : Prop :=
  NoDup (concat L) /\ (forall v, In v (concat L) <-> In v B) /\ Forall is_loop L.

Theorem all_cycles_spec :
  exists cycles, extract_border_cycle_all s = Some cycles
    /\ loop_partition cycles
    /\ Permutation (concat cycles) B
    /\ Forall (fun c => exists start eb, extract_border_cycle s (Some start) = Outcome (CycOk c eb)
                                        /\ is_cycle s start c eb) cycles.
Proof.
  destruct (all_loop_spec B [] (fun x H => H)) as [cycles [E [F [N [D [Cov Cl]]]]]].
  { intros x []. }
  exists cycles. split; [exact E|].
  assert (Hin : forall v, In v (concat cycles) <-> In v B).
  { intros v. split; [intros H; now apply D|]. intros H. destruct (Cov v H) as [[]|Q]. exact Q. }
  assert (G : Forall (fun c => exists start eb, extract_border_cycle s (Some start) = Outcome (CycOk c eb)
                                        /\ is_cycle s start c eb) cycles).
  { eapply Forall_impl; [|exact F]. intros c [st [eb [X [Y _]]]]. now exists st, eb. }
  split; [|split; [|exact G]].
  - split; [exact N|]. split; [exact Hin|].
    eapply Forall_impl; [|exact G]. intros c [st [eb [_ Y]]]. now apply (cycle_loop st c eb).
  - apply NoDup_Permutation; [exact N | apply (wf_nodup s W) | exact Hin].
Qed.

(* ------------------------------------------------------------------ the number of loops is well defined *)
(* any list of pairwise non-connected border vertices is at most as long as a list of loops covering it *)
Lemma filter_length_split {A} (f : A -> bool) l :
  (length l = length (filter f l) + length (filter (fun x => negb (f x)) l))%nat.
Proof. induction l as [|a l IH]; simpl; [reflexivity|]. destruct (f a); simpl; lia. Qed.

Lemma FOP_filter {A} (R : A -> A -> Prop) f l : ForallOrdPairs R l -> ForallOrdPairs R (filter f l).
Proof.
  intros H. induction H as [|a l Ha H IH]; simpl; [constructor|].
  destruct (f a); [|exact IH]. constructor; [|exact IH].
  apply Forall_forall. intros x Hx. apply filter_In in Hx as [Hx _]. rewrite Forall_forall in Ha. now apply Ha.
Qed.

Lemma reps_bound : forall (L : list (list Z)) (R : list Z),
  Forall (fun c => forall u v, In u c -> In v c -> bconn s u v) L ->
  incl R (concat L) -> ForallOrdPairs (fun u v => ~ bconn s u v) R ->
  (length R <= length L)%nat.
Proof.
  induction L as [|c L IH]; intros R HL Hi HR.
  - destruct R as [|r R]; [simpl; lia | destruct (Hi r (or_introl eq_refl))].
  - inversion HL as [|? ? Hc HL']; subst.
    set (f := fun x => memz x c).
    rewrite (filter_length_split f R).
    assert (A1 : (length (filter f R) <= 1)%nat).
    { pose proof (FOP_filter _ f R HR) as Q.
      destruct (filter f R) as [|a [|b t]] eqn:EF; simpl; try lia.
      exfalso. inversion Q as [|? ? Qa _]; subst. inversion Qa as [|? ? Qab _]; subst. apply Qab.
      assert (Ia : In a (filter f R)) by (rewrite EF; now left).
      assert (Ib : In b (filter f R)) by (rewrite EF; right; now left).
      apply filter_In in Ia as [_ Ia]. apply filter_In in Ib as [_ Ib].
      apply Hc; now apply memz_In. }
    assert (A2 : (length (filter (fun x => negb (f x)) R) <= length L)%nat).
    { apply IH; [exact HL' | | now apply FOP_filter].
      intros x Hx. apply filter_In in Hx as [Hx Nx]. specialize (Hi x Hx). simpl in Hi.
      apply in_app_iff in Hi as [Hi|Hi]; [|exact Hi].
      apply memz_In in Hi. unfold f in Nx. rewrite Hi in Nx. discriminate. }
    simpl length. lia.
Qed.

Lemma heads_apart : forall L, NoDup (concat L) -> Forall is_loop L ->
  ForallOrdPairs (fun u v => ~ bconn s u v) (map (hd 0) L) /\ incl (map (hd 0) L) (concat L).
Proof.
  induction L as [|c L IH]; intros N F; [split; [constructor | intros x []]|].
  inversion F as [|? ? [Hc1 Hc2] F']; subst. simpl concat in N.
  destruct (NoDup_app_inv _ _ N) as [N1 [N2 N3]]. destruct (IH N2 F') as [I1 I2].
  assert (Hh : In (hd 0 c) c) by (destruct c; [congruence | now left]).
  split.
  - simpl. constructor; [|exact I1]. apply Forall_forall. intros x Hx Hb.
    apply (N3 x); [now apply (Hc2 (hd 0 c) Hh x) | now apply I2].
  - intros x [<-|Hx]; simpl concat; apply in_app_iff; [now left | right; now apply I2].
Qed.

Theorem loop_partition_length L1 L2 : loop_partition L1 -> loop_partition L2 -> length L1 = length L2.
Proof.
  assert (H : forall L1 L2, loop_partition L1 -> loop_partition L2 -> (length L1 <= length L2)%nat).
  { clear L1 L2. intros L1 L2 [N1 [C1 F1]] [N2 [C2 F2]].
    destruct (heads_apart L1 N1 F1) as [A1 A2].
    rewrite <- (map_length (hd 0) L1). apply reps_bound; [| |exact A1].
    - eapply Forall_impl; [|exact F2]. intros c [_ Hc] u v Hu Hv. now apply (Hc u Hu v).
    - intros x Hx. apply C2. apply C1. now apply A2. }
  intros P1 P2. apply Nat.le_antisymm; now apply H.
Qed.

End All.
