(* C15 - the index map and the component attribute of the boundary polyline, read as functions. *)
From Coq Require Import ZArith List Bool Lia.
Import ListNotations.
Require Import MV.Lib.Base MV.C15.Model MV.C15.ProofsBase MV.C15.ProofsCycle MV.C15.ProofsBoundary.
Local Open Scope Z_scope.

Lemma enum_get_inv v iv l i : NoDup l -> dict_get v (enum_from iv l) = Some i ->
  nth (Z.to_nat (i - iv)) l 0 = v.
Proof.
  intros N H. destruct (enum_get_bounds _ _ _ _ H) as [Hin Hb].
  destruct (In_nth l v 0 Hin) as [k [Hk Ek]].
  pose proof (enum_get_nth iv l k N Hk) as Q. rewrite Ek, H in Q.
  assert (Ei : i = iv + Z.of_nat k) by congruence. rewrite Ei.
  replace (Z.to_nat (iv + Z.of_nat k - iv)) with k by lia. exact Ek.
Qed.

(* the returned dict is a bijection  border vertices -> 0..n-1,  v |-> position of v in the polyline *)
Lemma enum_bijection l : NoDup l ->
  let m := enum_from 0 l in
  (forall v, In v l <-> exists i, dict_get v m = Some i)
  /\ (forall v i, dict_get v m = Some i -> 0 <= i < Z.of_nat (length l) /\ nth (Z.to_nat i) l 0 = v)
  /\ (forall u v i, dict_get u m = Some i -> dict_get v m = Some i -> u = v)
  /\ (forall i, 0 <= i < Z.of_nat (length l) -> exists v, In v l /\ dict_get v m = Some i).
Proof.
  intros N m. repeat split.
  - intros H. pose proof (enum_get_in v 0 l H). fold m in H0. destruct (dict_get v m) as [i|]; [now exists i | congruence].
  - intros [i H]. now apply enum_get_bounds in H.
  - apply enum_get_bounds in H. lia.
  - apply enum_get_bounds in H. lia.
  - pose proof (enum_get_inv v 0 l i N H) as Q. now rewrite Z.sub_0_r in Q.
  - intros u v i Hu Hv. pose proof (enum_get_inv u 0 l i N Hu). pose proof (enum_get_inv v 0 l i N Hv). congruence.
  - intros i Hi. exists (nth (Z.to_nat i) l 0). split; [apply nth_In; lia|].
    unfold m. rewrite enum_get_nth; [f_equal; lia | exact N | lia].
Qed.

Lemma comp_keys iv ic c k : dict_get k (map (fun vi : Z * Z => (snd vi, ic)) (enum_from iv c)) <> None ->
  iv <= k < iv + Z.of_nat (length c).
Proof.
  revert iv. induction c as [|a c IH]; intros iv; simpl; [congruence|].
  destruct (iv =? k) eqn:E; [apply Z.eqb_eq in E; lia|]. intros H. specialize (IH _ H). lia.
Qed.

Lemma comp_get_first iv ic c j : (j < length c)%nat ->
  dict_get (iv + Z.of_nat j) (map (fun vi : Z * Z => (snd vi, ic)) (enum_from iv c)) = Some ic.
Proof.
  revert iv j. induction c as [|a c IH]; intros iv j Hj; simpl in Hj; [lia|]. simpl.
  destruct j as [|j]; [rewrite Z.add_0_r, Z.eqb_refl; reflexivity|].
  destruct (iv =? iv + Z.of_nat (S j)) eqn:E; [apply Z.eqb_eq in E; lia|].
  replace (iv + Z.of_nat (S j)) with ((iv + 1) + Z.of_nat j) by lia. apply IH. lia.
Qed.

(* the component attribute at the polyline index of v is the rank of v's cycle *)
Lemma comp_from_spec : forall L iv ic k c v,
  NoDup (concat L) -> nth_error L k = Some c -> In v c ->
  dict_get (pos (enum_from iv (concat L)) v) (comp_from iv ic L) = Some (ic + Z.of_nat k).
Proof.
  induction L as [|c0 L IH]; intros iv ic k c v N Hk Hv; [destruct k; discriminate|].
  simpl concat in *. destruct (NoDup_app_inv _ _ N) as [N1 [N2 N3]].
  simpl comp_from. rewrite enum_from_app. unfold pos. rewrite !dict_get_app.
  destruct k as [|k]; simpl in Hk.
  - inversion Hk; subst c0. destruct (In_nth c v 0 Hv) as [j [Hj Ej]].
    pose proof (enum_get_nth iv c j N1 Hj) as Q. rewrite Ej in Q. rewrite Q.
    rewrite comp_get_first by exact Hj. f_equal. lia.
  - assert (Hin : In v (concat L)).
    { apply in_concat. exists c. split; [now apply nth_error_In with k | exact Hv]. }
    destruct (dict_get v (enum_from iv c0)) as [i|] eqn:G.
    + exfalso. apply enum_get_bounds in G as [G _]. now apply (N3 v).
    + specialize (IH (iv + Z.of_nat (length c0)) (ic + 1) k c v N2 Hk Hv). unfold pos in IH.
      destruct (dict_get v (enum_from (iv + Z.of_nat (length c0)) (concat L))) as [i|] eqn:G2.
      * apply enum_get_bounds in G2 as [_ G2].
        destruct (dict_get i (map (fun vi : Z * Z => (snd vi, ic)) (enum_from iv c0))) eqn:G3.
        -- assert (iv <= i < iv + Z.of_nat (length c0)) by (apply (comp_keys iv ic c0 i); rewrite G3; discriminate). lia.
        -- rewrite IH. f_equal. lia.
      * exfalso. now apply (enum_get_in v (iv + Z.of_nat (length c0)) (concat L) Hin).
Qed.
