(* C15 property theorems only. *)
From Coq Require Import ZArith List Bool.
Require Import MV.Lib.Base MV.C15.Model MV.C15.Proofs.

Theorem C15_key_add_partial : forall k l x, In x (key_add k l) <-> x = k \/ In x l.
Proof. exact key_add_In. Qed.
Print Assumptions C15_key_add_partial.
