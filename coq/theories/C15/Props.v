(* C15 property theorems only: each closed by `exact <lemma>` with Print Assumptions beneath.
   Models: Border.v / Feat.v over the generated Gen.v.  wf_b / wf_f are the boolean well-formedness predicates of the
   input connectivity tables (sorted neighbourhoods), evaluated by Coq on the tables of every generated mesh. *)
From Coq Require Import ZArith List Bool Relations Permutation QArith Qabs Reals Qreals.
Import ListNotations.
Require Import MV.Lib.Base MV.C15.Model MV.C15.Proofs MV.C15.ProofsAngle MV.C15.ProofsGeo MV.C15.ProofsGeoLink.

(* from any border start the walk is a closed walk along border edges visiting each border vertex of the loop of
   the start exactly once, every border edge of that loop exactly once, with the edge ids reported *)
Theorem C15_cycle : forall s start, wf_b s = true -> In start (s_bverts s) ->
  exists vb eb, extract_border_cycle s (Some start) = Outcome (CycOk vb eb) /\ border_cycle_of s start vb eb.
Proof. exact cycle_thm. Qed.
Print Assumptions C15_cycle.

(* no border -> []; a start that is not a border vertex -> the documented exception; default start = first border vertex *)
Theorem C15_cycle_other_outcomes : forall s, wf_b s = true ->
  (s_bverts s = [] -> forall o, extract_border_cycle s o = Outcome CycEmpty)
  /\ (s_bverts s <> [] -> forall start, ~ In start (s_bverts s) ->
        extract_border_cycle s (Some start) = Outcome CycNotOnBorder)
  /\ (s_bverts s <> [] -> extract_border_cycle s None = extract_border_cycle s (Some (hd 0%Z (s_bverts s)))).
Proof. exact cycle_other_thm. Qed.
Print Assumptions C15_cycle_other_outcomes.

(* the cycles returned are a partition of the border vertices into the border loops, each exactly once, each a
   closed border walk; their number is the number of loops of ANY decomposition into border-connected classes *)
Theorem C15_all_cycles : forall s, wf_b s = true ->
  exists cycles, extract_border_cycle_all s = Some cycles
    /\ loop_partition s cycles
    /\ Permutation (concat cycles) (s_bverts s)
    /\ Forall (fun c => exists start eb, extract_border_cycle s (Some start) = Outcome (CycOk c eb)
                                        /\ border_cycle_of s start c eb) cycles
    /\ (forall L, loop_partition s L -> length L = length cycles).
Proof. exact all_cycles_thm. Qed.
Print Assumptions C15_all_cycles.

(* the boundary polyline: vertices, the returned index map (direction as implemented: surface id -> polyline id;
   a bijection consistent with coordinates), exactly the border edges renamed through it, component labels *)
Theorem C15_boundary : forall s, wf_b s = true ->
  exists cycles p,
    extract_border_cycle_all s = Some cycles /\ extract_boundary_of_surface s = Some p
    /\ pl_src p = concat cycles
    /\ (forall v, In v (s_bverts s) <-> exists i, dict_get v (pl_map p) = Some i)
    /\ (forall v i, dict_get v (pl_map p) = Some i ->
          (0 <= i < Z.of_nat (length (s_bverts s)))%Z /\ nth (Z.to_nat i) (pl_src p) 0%Z = v)
    /\ (forall u v i, dict_get u (pl_map p) = Some i -> dict_get v (pl_map p) = Some i -> u = v)
    /\ (forall i, (0 <= i < Z.of_nat (length (s_bverts s)))%Z ->
          exists v, In v (s_bverts s) /\ dict_get v (pl_map p) = Some i)
    /\ Permutation (pl_edges p)
         (map (fun e => keyify2 (pos (pl_map p) (fst (edge_pair s e))) (pos (pl_map p) (snd (edge_pair s e))))
              (s_bedges s))
    /\ (forall k c v, nth_error cycles k = Some c -> In v c ->
          dict_get (pos (pl_map p) v) (pl_comp p) = Some (Z.of_nat k)).
Proof. exact boundary_thm. Qed.
Print Assumptions C15_boundary.

(* for the record (config.sort_neighborhoods = False is outside the quantifier): on unsorted tables the walk
   takes an interior chord and revisits vertices *)
Theorem C15_cycle_unsorted_refuted :
  exists s start vb eb,
    In start (s_bverts s) /\ extract_border_cycle s (Some start) = Outcome (CycOk vb eb)
    /\ ~ NoDup vb /\ In (Some 0%Z) eb /\ ~ In 0%Z (s_bedges s) /\ wf_b s = false.
Proof. exact cycle_unsorted_refuted. Qed.
Print Assumptions C15_cycle_unsorted_refuted.

(* flagged set = border  U  {interior, n1.n2 < 1/2}  U  {declared hard, interior, n1.n2 < 4/5}  (border only when so
   configured); no hypothesis on the tables *)
Theorem C15_features : forall m o x,
  In x (feature_edges m o) <->
    In x (f_bedges m)
    \/ (o_only_border o = false
        /\ (((0 <= x < Z.of_nat (length (f_edges m)))%Z /\ sharp_edge m x) \/ hard_edge m x)).
Proof. exact feature_edges_spec. Qed.
Print Assumptions C15_features.

Theorem C15_features_only_border : forall m o x, o_only_border o = true ->
  (In x (feature_edges m o) <-> In x (f_bedges m)).
Proof. exact feature_edges_only_border. Qed.
Print Assumptions C15_features_only_border.

(* the same classification read on the MESH GEOMETRY (FeatGeo.v): the normal direction of a face is computed from its
   vertices as face_normals does (cross(pB-pA, pC-pA), orthogonal to the triangle's edges), the unit normals are compared
   without square roots, and for non-degenerate faces the comparison is exactly "the angle between the unit normals of
   the two adjacent faces exceeds 60 degrees" (resp. acos(4/5) for declared hard edges). The implementation's flagged
   set is compared with geo_feature_edges by the correspondence on every mesh whose normals are the computed ones. *)
Theorem C15_features_geometric : forall g ob e,
  In e (geo_feature_edges 0 g ob) <->
  (0 <= e < g_nE g)%Z /\
  (In e (g_bedges g)
   \/ (ob = false /\ (geo_lt g e (sharp_bound + 0) = Some true
                      \/ ((exists l, g_hard g = Some l /\ In e l) /\ geo_lt g e (hard_bound + 0) = Some true)))).
Proof. exact geo_feature_edges_spec. Qed.
Print Assumptions C15_features_geometric.

(* the two readings coincide: when the normals table the detector reads holds the EXACT unit normals of the faces
   (exact_tables: entry = normal direction computed from the vertices divided by its - rational - length) and the
   tables are well formed (wfF, proved for every manifold surface in PropsC01.v), the set flagged by the detector
   model IS the geometric classification: border edges, interior edges whose adjacent unit normals are more than 60
   degrees apart, declared hard edges more than acos(4/5) apart (C15_unit_normals_angle reads the test as the angle) *)
Theorem C15_features_are_geometric_exact_normals : forall g m o, exact_tables g m -> wfF m ->
  forall e, In e (feature_edges m o) <-> In e (geo_feature_edges 0 g (o_only_border o)).
Proof. exact features_are_geometric. Qed.
Print Assumptions C15_features_are_geometric_exact_normals.

Theorem C15_unit_normals_angle : forall c1 c2 : Q3, (0 < dot3 c1 c1)%Q -> (0 < dot3 c2 c2)%Q ->
  (-1 <= cos_between c1 c2 <= 1)%R
  /\ (unit_dot_lt c1 c2 sharp_bound = true <-> (PI / 3 < acos (cos_between c1 c2))%R)
  /\ (unit_dot_lt c1 c2 hard_bound = true <-> (acos (4 / 5) < acos (cos_between c1 c2))%R).
Proof. exact geometry_thm. Qed.
Print Assumptions C15_unit_normals_angle.

Theorem C15_face_normal_direction : forall pA pB pC : Q3,
  (dot3 (tri_cross pA pB pC) (sub3 pB pA) == 0)%Q /\ (dot3 (tri_cross pA pB pC) (sub3 pC pA) == 0)%Q.
Proof. exact normal_thm. Qed.
Print Assumptions C15_face_normal_direction.

Theorem C15_detector_tests_are_bounds : forall d,
  (sharp_test d = true <-> (d < sharp_bound)%Q) /\ (hard_test d false = true <-> (d < hard_bound)%Q).
Proof. exact tests_are_bounds. Qed.
Print Assumptions C15_detector_tests_are_bounds.

(* on well-formed tables: flagged edges are edges of the mesh, each once; border edges are exactly the edges with a
   missing face, so the two dot-product sources only ever add interior edges *)
Theorem C15_features_wf : forall m o, wf_f m = true ->
  NoDup (feature_edges m o)
  /\ (forall e, In e (feature_edges m o) -> (0 <= e < Z.of_nat (length (f_edges m)))%Z)
  /\ (forall e, (0 <= e < Z.of_nat (length (f_edges m)))%Z -> (In e (f_bedges m) <-> dot_of m e = None)).
Proof. exact features_wf_thm. Qed.
Print Assumptions C15_features_wf.

(* derived containers are functions of that edge set *)
Theorem C15_feature_vertices : forall m o v,
  (In v (feature_vertices m o) <->
     exists e, In e (feature_edges m o) /\ (v = fst (fedge_at m e) \/ v = snd (fedge_at m e)))
  /\ NoDup (feature_vertices m o).
Proof. exact feature_vertices_thm. Qed.
Print Assumptions C15_feature_vertices.

Theorem C15_feature_degrees : forall m o v,
  getd v (feature_degrees m o) = total m v (feature_edges m o)
  /\ (dict_get v (feature_degrees m o) <> None <-> In v (feature_vertices m o)).
Proof. exact feature_degrees_thm. Qed.
Print Assumptions C15_feature_degrees.

Theorem C15_local_feat_edges : forall m o,
  map fst (local_feat_edges m o) = feature_vertices m o
  /\ (forall v j, In j (local_feat_edges_of m (feature_edges m o) v)
        <-> exists k e, j = Z.of_nat k /\ nth_error (znth (f_v2e m) v []) k = Some (Some e)
                        /\ In e (feature_edges m o)).
Proof. exact local_feat_edges_thm. Qed.
Print Assumptions C15_local_feat_edges.

(* the two per-vertex containers agree: feature degree = number of local feature-edge indices *)
Theorem C15_degree_is_local_count : forall m o v, wf_f m = true -> (0 <= v < f_nV m)%Z ->
  getd v (feature_degrees m o) = Z.of_nat (length (local_feat_edges_of m (feature_edges m o) v)).
Proof. exact degree_is_local_count_thm. Qed.
Print Assumptions C15_degree_is_local_count.

(* corners: defined exactly on the feature vertices when flag_corners is on, None otherwise; the value is the sign
   for a small angle sum and otherwise the integer nearest to angle * corner_order / (2 pi)  (h = angle / pi) *)
Theorem C15_corners : forall m o,
  (o_flag_corners o = false -> corners m o = None)
  /\ (o_flag_corners o = true ->
      exists l, corners m o = Some l /\ map fst l = feature_vertices m o
                /\ forall v c, In (v, c) l -> c = corner_of (half_at m v) (o_corner_order o)).
Proof. exact corners_spec. Qed.
Print Assumptions C15_corners.

Theorem C15_corner_value : forall h k,
  ((Qabs h < 2 / inject_Z k)%Q -> corner_of h k = if Qle_bool 0 h then 1%Z else (-1)%Z)
  /\ (~ (Qabs h < 2 / inject_Z k)%Q -> (Qabs (inject_Z (corner_of h k) - h * inject_Z k / 2) <= 1 # 2)%Q).
Proof. exact corner_of_spec. Qed.
Print Assumptions C15_corner_value.

(* the generated threshold tests are  n1.n2 < 1/2  and  n1.n2 < 4/5  over the reals; for unit normals
   (n1.n2 in [-1,1], angle = acos(n1.n2)) they say: more than 60 degrees, resp. more than acos(4/5) = atan(3/4) apart *)
Theorem C15_thresholds_as_angles :
  (forall d, sharp_test d = true <-> (Q2R d < 1 / 2)%R)
  /\ (forall d, hard_test d false = true <-> (Q2R d < 4 / 5)%R)
  /\ (forall x, (-1 <= x <= 1)%R -> ((x < 1 / 2)%R <-> (PI / 3 < acos x)%R))
  /\ (forall x, (-1 <= x <= 1)%R -> ((x < 4 / 5)%R <-> (acos (4 / 5) < acos x)%R))
  /\ acos (4 / 5) = atan (3 / 4)
  /\ (PI / 6 < acos (4 / 5) < PI / 4)%R.
Proof. exact thresholds_thm. Qed.
Print Assumptions C15_thresholds_as_angles.
