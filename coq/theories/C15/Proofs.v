From Coq Require Import ZArith List Bool Lia.
Import ListNotations.
Require Import MV.Lib.Base MV.C15.Model.
Local Open Scope Z_scope.

Lemma key_add_In k l x : In x (key_add k l) <-> x = k \/ In x l.
Proof.
  unfold key_add, memz. destruct (existsb (Z.eqb k) l) eqn:E.
  - split; [tauto|]. intros [->|H]; [|exact H].
    apply existsb_exists in E as [y [Hy Hk]]. apply Z.eqb_eq in Hk. now subst.
  - rewrite in_app_iff. simpl. intuition.
Qed.
