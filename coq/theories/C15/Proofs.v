(* C15 - the property statements, assembled from the lemma files, each with a non-vacuity example. *)
From Coq Require Import ZArith List Bool Lia Relations Permutation QArith.
Import ListNotations.
Require Import MV.Lib.Base MV.C15.Model.
Require Export MV.C15.ProofsBase MV.C15.ProofsCycle MV.C15.ProofsAll MV.C15.ProofsBoundary MV.C15.ProofsMap
               MV.C15.ProofsFeat.
Local Open Scope Z_scope.

(* ------------------------------------------------------------------ C15_cycle *)
(* a closed walk along border EDGES from [start], visiting each border vertex of the loop of [start] exactly once *)
Definition border_cycle_of (s : surf) (start : Z) (vb : list Z) (eb : list (option Z)) : Prop :=
  hd 0 vb = start /\ NoDup vb /\ incl vb (s_bverts s)
  /\ (forall v, In v vb <-> bconn s start v)
  /\ length eb = length vb
  /\ (forall i, (i < length vb)%nat ->
        exists e, nth i eb None = Some e /\ In e (s_bedges s)
                  /\ badj s (nth i vb 0) (nth (S i) (vb ++ [start]) 0)
                  /\ edge_id s (nth i vb 0, nth (S i) (vb ++ [start]) 0) = Some e)
  /\ NoDup eb
  /\ (forall e a b, In e (s_bedges s) -> edge_at s e = Some (a, b) -> In a vb \/ In b vb -> In (Some e) eb).

Lemma is_cycle_border_cycle s (W : wf s) start vb eb : is_cycle s start vb eb -> border_cycle_of s start vb eb.
Proof.
  intros C. pose proof C as [H1 [H2 [H3 [H4 [H5 H6]]]]].
  destruct (cycle_edges s W start vb eb C) as [E1 [E2 E3]].
  split; [exact H1|]. split; [exact H4|]. split; [exact H5|].
  split; [apply (cycle_is_loop s W start vb eb C)|].
  split; [exact E1|]. split; [exact E2|]. split; [exact E3|].
  apply (cycle_edges_complete s W start vb eb C).
Qed.

Lemma cycle_thm : forall s start, wf_b s = true -> In start (s_bverts s) ->
  exists vb eb, extract_border_cycle s (Some start) = Outcome (CycOk vb eb) /\ border_cycle_of s start vb eb.
Proof.
  intros s start Wb Hs. pose proof (wf_b_wf s Wb) as W.
  destruct (cycle_ok s W start Hs) as [vb [eb [E C]]]. exists vb, eb. split; [exact E|].
  now apply is_cycle_border_cycle.
Qed.

Lemma cycle_other_thm : forall s, wf_b s = true ->
  (s_bverts s = [] -> forall o, extract_border_cycle s o = Outcome CycEmpty)
  /\ (s_bverts s <> [] -> forall start, ~ In start (s_bverts s) ->
        extract_border_cycle s (Some start) = Outcome CycNotOnBorder)
  /\ (s_bverts s <> [] -> extract_border_cycle s None = extract_border_cycle s (Some (hd 0 (s_bverts s)))).
Proof.
  intros s Wb. pose proof (wf_b_wf s Wb) as W. split; [|split].
  - intros E o. now apply cycle_no_border.
  - intros N start H. now apply cycle_not_on_border.
  - intros N. now apply cycle_default.
Qed.

(* ------------------------------------------------------------------ C15_all_cycles *)
Lemma all_cycles_thm : forall s, wf_b s = true ->
  exists cycles, extract_border_cycle_all s = Some cycles
    /\ loop_partition s cycles
    /\ Permutation (concat cycles) (s_bverts s)
    /\ Forall (fun c => exists start eb, extract_border_cycle s (Some start) = Outcome (CycOk c eb)
                                        /\ border_cycle_of s start c eb) cycles
    /\ (forall L, loop_partition s L -> length L = length cycles).
Proof.
  intros s Wb. pose proof (wf_b_wf s Wb) as W.
  destruct (all_cycles_spec s W) as [cycles [E [P [Pm G]]]]. exists cycles.
  split; [exact E|]. split; [exact P|]. split; [exact Pm|]. split.
  - eapply Forall_impl; [|exact G]. intros c [st [eb [X Y]]]. exists st, eb. split; [exact X|].
    now apply is_cycle_border_cycle.
  - intros L HL. now apply (loop_partition_length s).
Qed.

(* ------------------------------------------------------------------ C15_boundary *)
Lemma boundary_thm : forall s, wf_b s = true ->
  exists cycles p,
    extract_border_cycle_all s = Some cycles /\ extract_boundary_of_surface s = Some p
    (* vertices: polyline vertex i carries the coordinates of surface vertex (concat cycles)[i] *)
    /\ pl_src p = concat cycles
    (* the returned dict: surface id -> polyline id, a bijection border vertices <-> 0..n-1, consistent with pl_src *)
    /\ (forall v, In v (s_bverts s) <-> exists i, dict_get v (pl_map p) = Some i)
    /\ (forall v i, dict_get v (pl_map p) = Some i ->
          0 <= i < Z.of_nat (length (s_bverts s)) /\ nth (Z.to_nat i) (pl_src p) 0 = v)
    /\ (forall u v i, dict_get u (pl_map p) = Some i -> dict_get v (pl_map p) = Some i -> u = v)
    /\ (forall i, 0 <= i < Z.of_nat (length (s_bverts s)) -> exists v, In v (s_bverts s) /\ dict_get v (pl_map p) = Some i)
    (* edges: exactly the border edges, endpoints renamed through the map, stored as sorted pairs *)
    /\ Permutation (pl_edges p)
         (map (fun e => keyify2 (pos (pl_map p) (fst (edge_pair s e))) (pos (pl_map p) (snd (edge_pair s e))))
              (s_bedges s))
    (* the "component" attribute at the polyline index of v is the rank of the cycle of v *)
    /\ (forall k c v, nth_error cycles k = Some c -> In v c ->
          dict_get (pos (pl_map p) v) (pl_comp p) = Some (Z.of_nat k)).
Proof.
  intros s Wb. pose proof (wf_b_wf s Wb) as W.
  destruct (boundary_spec s W) as [cycles [p [E1 [E2 [E3 [E4 [E5 [E6 E7]]]]]]]].
  destruct (all_cycles_spec s W) as [cycles' [E1' [[N [Cov F]] [Pm G]]]].
  rewrite E1 in E1'. inversion E1'; subst cycles'. clear E1'.
  destruct (enum_bijection (concat cycles) N) as [B1 [B2 [B3 B4]]].
  assert (Len : length (concat cycles) = length (s_bverts s)) by now apply Permutation_length.
  exists cycles, p. split; [exact E1|]. split; [exact E2|]. split; [exact E3|].
  rewrite E4, E3. split; [|split; [|split; [|split; [|split]]]].
  - intros v. rewrite <- Cov. apply B1.
  - intros v i H. rewrite <- Len. now apply B2.
  - exact B3.
  - intros i Hi. rewrite <- Len in Hi. destruct (B4 i Hi) as [v [Hv Hg]]. exists v. split; [now apply Cov | exact Hg].
  - rewrite <- E4. exact E7.
  - intros k c v Hk Hv. rewrite E5. pose proof (comp_from_spec cycles 0 0 k c v N Hk Hv) as Q. exact Q.
Qed.

(* ------------------------------------------------------------------ C15_features and derived containers *)
Lemma features_wfF_thm : forall m o, wfF m ->
  NoDup (feature_edges m o)
  /\ (forall e, In e (feature_edges m o) -> 0 <= e < Z.of_nat (length (f_edges m)))
  /\ (forall e, 0 <= e < Z.of_nat (length (f_edges m)) -> (In e (f_bedges m) <-> dot_of m e = None)).
Proof.
  exact (fun m o W => conj (feature_edges_NoDup m o) (conj (feature_edges_range m o W) (fun e => wf_f_border m e W))).
Qed.

Lemma features_wf_thm : forall m o, wf_f m = true ->
  NoDup (feature_edges m o)
  /\ (forall e, In e (feature_edges m o) -> 0 <= e < Z.of_nat (length (f_edges m)))
  /\ (forall e, 0 <= e < Z.of_nat (length (f_edges m)) -> (In e (f_bedges m) <-> dot_of m e = None)).
Proof.
  exact (fun m o W => features_wfF_thm m o (wf_f_wfF m W)).
Qed.

Lemma feature_vertices_thm : forall m o v,
  (In v (feature_vertices m o) <->
     exists e, In e (feature_edges m o) /\ (v = fst (fedge_at m e) \/ v = snd (fedge_at m e)))
  /\ NoDup (feature_vertices m o).
Proof. exact (fun m o v => conj (feature_vertices_spec m o v) (verts_of_NoDup m _)). Qed.

Lemma feature_degrees_thm : forall m o v,
  getd v (feature_degrees m o) = total m v (feature_edges m o)
  /\ (dict_get v (feature_degrees m o) <> None <-> In v (feature_vertices m o)).
Proof. exact (fun m o v => conj (feature_degrees_spec m o v) (feature_degrees_keys m o v)). Qed.

Lemma local_feat_edges_thm : forall m o,
  map fst (local_feat_edges m o) = feature_vertices m o
  /\ (forall v j, In j (local_feat_edges_of m (feature_edges m o) v)
        <-> exists k e, j = Z.of_nat k /\ nth_error (znth (f_v2e m) v []) k = Some (Some e)
                        /\ In e (feature_edges m o)).
Proof. exact (fun m o => conj (local_feat_edges_keys m o) (local_feat_edges_spec m o)). Qed.

Lemma degree_is_local_count_thm : forall m o v, wf_f m = true -> 0 <= v < f_nV m ->
  getd v (feature_degrees m o) = Z.of_nat (length (local_feat_edges_of m (feature_edges m o) v)).
Proof. exact (fun m o v W Hv => degree_is_local_count m o v (wf_f_wfF m W) Hv (feature_edges_range m o (wf_f_wfF m W))). Qed.

Lemma degree_is_local_count_wfF_thm : forall m o v, wfF m -> 0 <= v < f_nV m ->
  getd v (feature_degrees m o) = Z.of_nat (length (local_feat_edges_of m (feature_edges m o) v)).
Proof. exact (fun m o v W Hv => degree_is_local_count m o v W Hv (feature_edges_range m o W)). Qed.

(* ------------------------------------------------------------------ non-vacuity: a concrete well-formed surface *)
(* two triangles [1,7,5], [4,2,3] (two border loops) plus a square with a chord, tables as mouette builds them *)
Definition ex_surf : surf :=
  mkSurf 8 [[]; [5; 7]; [4; 3]; [2; 4]; [3; 2]; [7; 1]; []; [1; 5]]
         [false; true; true; true; true; true; false; true] [1; 2; 3; 4; 5; 7]
         [(2, 4); (3, 4); (1, 7); (1, 5); (5, 7); (2, 3)] [0; 1; 2; 3; 4; 5].

Example ex_surf_wf : wf_b ex_surf = true.
Proof. vm_compute. reflexivity. Qed.

Example ex_surf_cycles : extract_border_cycle_all ex_surf = Some [[1; 5; 7]; [2; 4; 3]].
Proof. vm_compute. reflexivity. Qed.

(* faces [0,1,3],[3,1,5]: the interior edge 1-3 is a CHORD (joins two border vertices); vertices 0 and 5 have a
   single face; one loop of 4 vertices. The walk from 0 never takes the chord. *)
Definition ex_chord : surf :=
  mkSurf 6 [[3; 1]; [0; 3; 5]; []; [5; 1; 0]; []; [1; 3]]
         [true; true; false; true; false; true] [0; 1; 3; 5]
         [(0, 1); (1, 3); (0, 3); (1, 5); (3, 5)] [0; 2; 3; 4].

Example ex_chord_wf : wf_b ex_chord = true.
Proof. vm_compute. reflexivity. Qed.

Example ex_chord_cycle :
  extract_border_cycle ex_chord (Some 0) = Outcome (CycOk [0; 3; 5; 1] [Some 2; Some 4; Some 3; Some 0]).
Proof. vm_compute. reflexivity. Qed.

(* ------------------------------------------------------------------ C15_cycle_unsorted_refuted (for the record) *)
(* tables mouette builds with config.sort_neighborhoods = False for the faces [[7,8,5],[6,8,7,1,2,3,4,0]]:
   the walk follows the interior chord 7-8 (edge 0) and revisits vertices. Outside the property's quantifier. *)
Definition ex_unsorted : surf :=
  mkSurf 9 [[4; 6]; [2; 7]; [1; 3]; [2; 4]; [0; 3]; [8; 7]; [8; 0]; [8; 1; 5]; [5; 6; 7]]
         [true; true; true; true; true; true; true; true; true] [0; 1; 2; 3; 4; 5; 6; 7; 8]
         [(7, 8); (5, 8); (5, 7); (6, 8); (1, 7); (1, 2); (2, 3); (3, 4); (0, 4); (0, 6)] [1; 2; 3; 4; 5; 6; 7; 8; 9].

Lemma cycle_unsorted_refuted :
  exists s start vb eb,
    In start (s_bverts s) /\ extract_border_cycle s (Some start) = Outcome (CycOk vb eb)
    /\ ~ NoDup vb /\ In (Some 0) eb /\ ~ In 0 (s_bedges s) /\ wf_b s = false.
Proof.
  exists ex_unsorted, 0, [0; 4; 3; 2; 1; 7; 8; 5; 7; 8], (map Some [8; 7; 6; 5; 4; 0; 1; 2; 0; 1]).
  split; [now left|]. split; [vm_compute; reflexivity|]. split; [|split; [|split]].
  - intros N. pose proof (proj1 (NoDup_count_occ Z.eq_dec _) N 7) as Q. vm_compute in Q. lia.
  - simpl. tauto.
  - simpl. intuition lia.
  - vm_compute. reflexivity.
Qed.

(* ------------------------------------------------------------------ features: non-vacuity *)
(* a hinge: faces [0,1,2],[1,0,3] with normals (0,0,1) and (0,3/5,4/5)-like (n1.n2 = 3/4), edge 0 = (0,1) declared hard *)
Definition ex_fmesh : fmesh :=
  mkF 4 [(0, 1); (1, 2); (0, 2); (0, 3); (1, 3)]
      [(Some 0, Some 1); (Some 0, None); (None, Some 0); (Some 1, None); (None, Some 1)]
      [1; 2; 3; 4] (Some [0]) [(0, 0, 1)%Q; (0, 1 # 2, 3 # 4)%Q]
      [[Some 2; Some 0; Some 3]; [Some 4; Some 0; Some 1]; [Some 1; Some 2]; [Some 3; Some 4]] [1; 1; 1 # 2; 1 # 2]%Q.

Example ex_fmesh_wf : wf_f ex_fmesh = true.
Proof. vm_compute. reflexivity. Qed.

(* n1.n2 = 3/4 lies between the thresholds: flagged because the edge is declared hard, not by the 60-degree rule *)
Example ex_fmesh_features :
  feature_edges ex_fmesh (mkO false true 4) = [0; 1; 2; 3; 4]
  /\ feature_edges (mkF 4 (f_edges ex_fmesh) (f_e2f ex_fmesh) (f_bedges ex_fmesh) None (f_normals ex_fmesh)
                        (f_v2e ex_fmesh) (f_half ex_fmesh)) (mkO false true 4) = [1; 2; 3; 4]
  /\ feature_edges ex_fmesh (mkO true true 4) = [1; 2; 3; 4].
Proof. vm_compute. repeat split. Qed.

Example ex_fmesh_sharp : sharp_edge ex_fmesh 0 -> False.
Proof. intros [d [E H]]. vm_compute in E. inversion E; subst. vm_compute in H. discriminate. Qed.

Example ex_fmesh_hard : hard_edge ex_fmesh 0.
Proof.
  eexists [0], _. split; [reflexivity|]. split; [now left|]. split; [vm_compute; reflexivity|].
  vm_compute. reflexivity.
Qed.
