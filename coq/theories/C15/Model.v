(* C15 - the executable model: border.py (Border.v) and features.py (Feat.v) over the generated part (Gen.v). *)
Require Export MV.C15.Prelude MV.C15.Gen MV.C15.Border MV.C15.Feat MV.C15.FeatGeo.
