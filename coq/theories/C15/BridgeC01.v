(* C15 / C01 bridge, part 2 - the tables of C01's model of the surface connectivity (sorting on) satisfy C15's
   well-formedness predicate [wf] for EVERY oriented manifold polygon surface (C01's wf_mesh).

   [tables_of m s] : the record s consumed by the C15 model holds the PURE ANSWERS of C01's model of
   SurfaceMesh / _Connectivity on the mesh m (vertex_to_vertices, is_vertex_on_border, boundary_vertices,
   boundary_edges, edges) - the very functions C01_query_order_independent shows every query to return.

   Hypotheses on the edge container (what mesh_data.py's completion produces; C01 checks them per case with
   edges_ok_b, proves edges_exact for build_mesh): each side of a face once, smallest vertex first. *)
From Coq Require Import ZArith List Bool Lia Sorting.Permutation.
Import ListNotations.
Require Import MV.C01.Defs MV.C01.Gen MV.C01.Model MV.C01.Spec MV.C01.Pure MV.C01.ProofsCorners MV.C01.ProofsTables
        MV.C01.ProofsEdges MV.C01.ProofsRing MV.C01.ProofsVerts MV.C01.ProofsMain.
Require MV.C15.Prelude MV.C15.Border MV.C15.ProofsBase MV.C15.ProofsCycle.
Require Import MV.C15.BridgeFaces.
Open Scope Z_scope.

(* ------------------------------------------------------------------ last_index *)
Lemma last_index_some {A} (p : A -> bool) l : forall k r,
  last_index p l k = Some r -> exists x, zth l (r - k) = Some x /\ p x = true /\ k <= r.
Proof.
  induction l as [|a t IH]; intros k r H; cbn in H; [discriminate|].
  destruct (last_index p t (k + 1)) as [r'|] eqn:E.
  - inversion H; subst r'. destruct (IH _ _ E) as (x & Hx & Px & Hk). exists x. split; [|split; [exact Px | lia]].
    rewrite zth_cons_S by lia. replace (r - k - 1) with (r - (k + 1)) by lia. exact Hx.
  - destruct (p a) eqn:Pa; [|discriminate]. inversion H; subst r. exists a. rewrite Z.sub_diag.
    split; [apply zth_cons_0 | split; [exact Pa | lia]].
Qed.

Lemma last_index_exists {A} (p : A -> bool) l x : In x l -> p x = true -> forall k, last_index p l k <> None.
Proof.
  induction l as [|a t IH]; intros Hin Px k; [destruct Hin|]. cbn.
  destruct (last_index p t (k + 1)) eqn:E; [discriminate|].
  destruct Hin as [->|Hin]; [rewrite Px; discriminate|]. exfalso. now apply (IH Hin Px (k + 1)).
Qed.

Lemma last_index_unique {A} (p : A -> bool) l e x :
  NoDup l -> zth l e = Some x -> p x = true -> (forall y, In y l -> p y = true -> y = x) ->
  last_index p l 0 = Some e.
Proof.
  intros N Hz Px U. destruct (last_index p l 0) as [r|] eqn:E.
  - destruct (last_index_some p l 0 r E) as (y & Hy & Py & _). rewrite Z.sub_0_r in Hy.
    assert (y = x) by (apply U; [eapply zth_In; eauto | exact Py]). subst y.
    apply zth_Some in Hy as [Hr Hy]. apply zth_Some in Hz as [He Hz]. f_equal.
    pose proof (proj1 (NoDup_nth_error l) N (Z.to_nat r) (Z.to_nat e)) as Q.
    assert (Z.to_nat r = Z.to_nat e); [|lia]. apply Q; [|congruence].
    apply nth_error_Some. congruence.
  - exfalso. eapply (last_index_exists p l x); eauto. eapply zth_In; eauto.
Qed.

(* the C15 model's edge_id is C01's specification of connectivity.edge_id *)
Lemma edge_find_last_index k l : forall i acc,
  Border.edge_find k l i acc =
  match last_index (fun e => pair_eqb' (keyify2 (fst e) (snd e)) k) l i with Some r => Some r | None => acc end.
Proof.
  induction l as [|a t IH]; intros i acc; cbn; [reflexivity|].
  rewrite IH. destruct (last_index _ t (i + 1)); [reflexivity|].
  change (Prelude.pair_eqb (Prelude.keyify2 (fst a) (snd a)) k) with (pair_eqb' (keyify2 (fst a) (snd a)) k).
  destruct (pair_eqb' (keyify2 (fst a) (snd a)) k); reflexivity.
Qed.

Lemma pair_eqb'_eq a b : pair_eqb' a b = true <-> a = b.
Proof.
  destruct a, b. unfold pair_eqb'. cbn. rewrite andb_true_iff, !Z.eqb_eq. split; [intros [-> ->]; reflexivity|].
  intros E; inversion E; auto.
Qed.

Lemma pairZ_dec (x y : Z * Z) : {x = y} + {x <> y}.
Proof. decide equality; apply Z.eq_dec. Qed.

Lemma keyify2_cases a b u v : keyify2 a b = keyify2 u v -> (a = u /\ b = v) \/ (a = v /\ b = u).
Proof. unfold keyify2. destruct (a <=? b), (u <=? v); intros E; inversion E; auto. Qed.

Lemma keyify2_comm u v : keyify2 u v = keyify2 v u.
Proof. unfold keyify2. destruct (u <=? v) eqn:E1, (v <=? u) eqn:E2; try reflexivity; f_equal; lia. Qed.

Section Bridge.
  Variable nv : Z.
  Variable faces : list (list Z).
  Variable m : mesh.
  Variable s : Border.surf.
  Hypothesis Hnv : 0 <= nv.
  Hypothesis Hm : wf_mesh nv faces.
  Hypothesis Hmo : mesh_of nv faces m.
  Hypothesis Hex : edges_exact faces (m_edges m).
  Hypothesis Hnd : NoDup (m_edges m).
  Hypothesis Hk : forall e, In e (m_edges m) -> fst e < snd e.

  Definition tables_of : Prop :=
    Border.s_nV s = m_nv m /\ Border.s_edges s = m_edges m
    /\ p_boundary_vertices m true = Ok (Border.s_bverts s)
    /\ p_boundary_edges m true = Ok (Border.s_bedges s)
    /\ (forall v, p_is_vertex_on_border m true v = Ok (Border.isb_at s v))
    /\ (forall v, 0 <= v < m_nv m -> p_vertex_to_vertices m true v = Ok (Border.vtv_at s v)).

  Hypothesis Ht : tables_of.

  Let Hwf : wf_faces nv faces := proj1 Hm.
  Notation edges := (m_edges m).
  Notation bh := (bhe faces).

  Lemma sp_he_dec u v : {sp_he faces u v = None} + {sp_he faces u v <> None}.
  Proof. destruct (sp_he faces u v); [right; discriminate | now left]. Qed.

  (* ---------------------------------------------------------------- edges *)
  Lemma edge_in_iff u v : In (keyify2 u v) edges <-> (he faces u v \/ he faces v u).
  Proof.
    unfold he. rewrite <- (Hex u v). split.
    - intros H. unfold keyify2 in H. destruct (u <=? v); tauto.
    - intros [H|H]; pose proof (Hk _ H) as L; cbn in L; unfold keyify2.
      + destruct (u <=? v) eqn:E; [exact H | lia].
      + destruct (u <=? v) eqn:E; [|exact H]. assert (u = v) by lia. subst. lia.
  Qed.

  Lemma edge_id_found u v : In (keyify2 u v) edges ->
    exists e, sp_edge_id edges u v = Some e /\ zth edges e = Some (keyify2 u v).
  Proof.
    intros H. unfold sp_edge_id.
    destruct (In_nth_error _ _ H) as [n Hn].
    assert (Hz : zth edges (Z.of_nat n) = Some (keyify2 u v)) by (apply zth_Some; split; [lia | now rewrite Nat2Z.id]).
    exists (Z.of_nat n). split; [|exact Hz].
    apply (last_index_unique _ edges _ (keyify2 u v) Hnd Hz).
    - apply pair_eqb'_eq. pose proof (Hk _ H) as L. unfold keyify2 in *. destruct (u <=? v) eqn:E; cbn in *.
      + now rewrite E.
      + destruct (v <=? u) eqn:E2; [reflexivity | lia].
    - intros [a b] Hy Py. apply pair_eqb'_eq in Py. cbn in Py. pose proof (Hk _ Hy) as L. cbn in L.
      rewrite <- Py. unfold keyify2. destruct (a <=? b) eqn:E; [reflexivity | lia].
  Qed.

  Lemma edge_id_none u v : ~ In (keyify2 u v) edges -> sp_edge_id edges u v = None.
  Proof.
    intros N. unfold sp_edge_id. destruct (last_index _ edges 0) as [r|] eqn:E; [|reflexivity]. exfalso.
    destruct (last_index_some _ _ _ _ E) as ([a b] & Hx & Px & _). apply pair_eqb'_eq in Px. cbn in Px.
    apply N. rewrite <- Px. apply zth_In in Hx. pose proof (Hk _ Hx) as L. cbn in L.
    unfold keyify2. destruct (a <=? b) eqn:Q; [exact Hx | lia].
  Qed.

  Lemma on_border_iff u v : sp_edge_on_border faces edges u v = true <-> (bh u v \/ bh v u).
  Proof.
    unfold sp_edge_on_border, bhe, he. split.
    - destruct (sp_edge_id edges u v) eqn:E; [|discriminate].
      assert (I : In (keyify2 u v) edges).
      { destruct (in_dec pairZ_dec (keyify2 u v) edges) as [I|N]; [exact I|].
        rewrite (edge_id_none u v N) in E. discriminate. }
      apply edge_in_iff in I. unfold he in I.
      destruct (sp_he faces u v) eqn:E1, (sp_he faces v u) eqn:E2; intros H; try discriminate.
      + left. split; [discriminate | reflexivity].
      + right. split; [discriminate | reflexivity].
      + exfalso. destruct I as [I|I]; congruence.
    - intros HB. assert (I : In (keyify2 u v) edges).
      { apply edge_in_iff. unfold he. destruct HB as [[H _]|[H _]]; tauto. }
      destruct (edge_id_found u v I) as (e & -> & _).
      destruct HB as [[H N]|[H N]]; rewrite N; destruct (sp_he faces _ _); congruence || reflexivity.
  Qed.

  Lemma vertex_on_border_iff x :
    sp_vertex_on_border faces edges x = true <-> ((exists w, bh w x) \/ (exists t, bh x t)).
  Proof.
    unfold sp_vertex_on_border. rewrite existsb_exists. split.
    - intros ([a b] & Hin & H). cbn in H. apply andb_true_iff in H as [H1 H2]. apply on_border_iff in H2.
      apply orb_true_iff in H1 as [H1|H1]; apply Z.eqb_eq in H1; subst x; destruct H2 as [H2|H2]; eauto.
    - intros HB.
      assert (G : forall u v, bh u v -> exists e, In e edges /\ ((fst e =? u) || (snd e =? u)) = true
                                         /\ ((fst e =? v) || (snd e =? v)) = true
                                         /\ sp_edge_on_border faces edges (fst e) (snd e) = true).
      { intros u v H. assert (I : In (keyify2 u v) edges) by (apply edge_in_iff; left; apply H).
        exists (keyify2 u v). split; [exact I|]. unfold keyify2. destruct (u <=? v); cbn [fst snd].
        - rewrite !Z.eqb_refl, orb_true_r. cbn. repeat split. apply on_border_iff. now left.
        - rewrite !Z.eqb_refl, orb_true_r. cbn. repeat split. apply on_border_iff. now right. }
      destruct HB as [[w H]|[t H]].
      + destruct (G w x H) as (e & I & _ & E2 & E3). exists e. split; [exact I|]. now rewrite E2, E3.
      + destruct (G x t H) as (e & I & E1 & _ & E3). exists e. split; [exact I|]. now rewrite E1, E3.
  Qed.

  (* ---------------------------------------------------------------- what the tables are *)
  Lemma tables_facts :
    exists be ie,
      Border.s_bedges s = be
      /\ Permutation (be ++ ie) (zrange (zlen edges))
      /\ (forall e u v, zth edges e = Some (u, v) -> (In e be <-> sp_edge_on_border faces edges u v = true))
      /\ NoDup (Border.s_bverts s)
      /\ (forall x, In x (Border.s_bverts s) <-> sp_vertex_on_border faces edges x = true)
      /\ (forall x, Border.isb_at s x = sp_vertex_on_border faces edges x).
  Proof.
    destruct Ht as (_ & _ & Tbv & Tbe & Tisb & _).
    destruct (compute_total nv faces m true Hm Hmo) as [T ET].
    destruct (border_partition nv faces m true T Hwf Hmo ET)
      as (be & ie & bv & iv & E1 & E2 & E3 & E4 & P & B1 & B2 & N & B3 & B4 & B5).
    rewrite Tbe in E1. inversion E1; subst be. rewrite Tbv in E3. inversion E3; subst bv.
    exists (Border.s_bedges s), ie. split; [reflexivity|]. split; [exact P|]. split.
    - intros e u v Hz. apply (B1 e u v Hz).
    - split; [exact N|]. split; [exact B3|]. intros x. specialize (Tisb x). rewrite B5 in Tisb. now inversion Tisb.
  Qed.

  Lemma border_vertex_ring v : In v (Border.s_bverts s) ->
    0 <= v < nv /\
    exists p t rest,
      Border.vtv_at s v = p :: rest /\ last (Border.vtv_at s v) 0 = t
      /\ bh p v /\ bh v t /\ (forall w, bh w v -> w = p) /\ (forall u, bh v u -> u = t).
  Proof.
    intros Hv. destruct tables_facts as (be & ie & _ & _ & _ & _ & Hb & _).
    apply Hb, vertex_on_border_iff in Hv.
    assert (R : 0 <= v < nv).
    { destruct Hv as [[w [H _]]|[t [H _]]]; apply (he_range nv faces Hm) in H; lia. }
    split; [exact R|].
    destruct (vertex_ring_sorted nv faces m Hm Hmo Hex v R) as (l & _ & Hring & Evv).
    destruct Ht as (_ & _ & _ & _ & _ & Tv). destruct Hmo as (Env & _).
    rewrite Tv in Evv by lia. inversion Evv as [Evv']. rewrite Evv'.
    exact (border_ring nv faces Hm v l Hring Hv).
  Qed.

  Lemma bh_border u v : bh u v -> In u (Border.s_bverts s) /\ In v (Border.s_bverts s).
  Proof.
    intros H. destruct tables_facts as (be & ie & _ & _ & _ & _ & Hb & _).
    split; apply Hb, vertex_on_border_iff; [right | left]; eauto.
  Qed.

  Lemma bpred_spec v : In v (Border.s_bverts s) ->
    bh (Border.bpred s v) v /\ (forall w, bh w v -> w = Border.bpred s v).
  Proof.
    intros Hv. destruct (border_vertex_ring v Hv) as (_ & p & t & rest & E & _ & H1 & _ & U & _).
    unfold Border.bpred. rewrite E. cbn. auto.
  Qed.

  Lemma bsucc_spec v : In v (Border.s_bverts s) ->
    bh v (Border.bsucc s v) /\ (forall u, bh v u -> u = Border.bsucc s v).
  Proof.
    intros Hv. destruct (border_vertex_ring v Hv) as (_ & p & t & rest & E & L & _ & H2 & _ & U).
    assert (Border.bsucc s v = t).
    { unfold Border.bsucc. rewrite <- L. apply last_default_irrel. rewrite E. discriminate. }
    rewrite H. auto.
  Qed.

  Lemma edge_id_bridge u v : Border.edge_id s (u, v) = sp_edge_id edges u v.
  Proof.
    destruct Ht as (_ & Ee & _). unfold Border.edge_id. cbn [fst snd]. rewrite Ee, edge_find_last_index.
    unfold sp_edge_id.
    change (Prelude.keyify2 u v) with (keyify2 u v).
    destruct (last_index _ edges 0); reflexivity.
  Qed.

  Lemma edge_at_bridge e : Border.edge_at s e = zth edges e.
  Proof. destruct Ht as (_ & Ee & _). unfold Border.edge_at, zth. now rewrite Ee. Qed.

  (* ---------------------------------------------------------------- the theorem *)
  Theorem c01_tables_wf : ProofsBase.wf s.
  Proof.
    destruct tables_facts as (be & ie & Ebe & P & B1 & N & Hb & Hisb).
    assert (Env : Border.s_nV s = nv) by (destruct Ht as (E & _); destruct Hmo as (E2 & _); congruence).
    constructor.
    - rewrite Env. exact Hnv.
    - exact N.
    - intros v. rewrite Hisb. apply Hb.
    - intros v Hv. rewrite Env. apply (border_vertex_ring v Hv).
    - intros v Hv. destruct (border_vertex_ring v Hv) as (_ & p & t & rest & E & _). rewrite E. discriminate.
    - intros v Hv. destruct (bpred_spec v Hv) as [H _]. apply (bh_border _ _ H).
    - intros v Hv. destruct (bsucc_spec v Hv) as [H _]. apply (bh_border _ _ H).
    - intros v Hv. destruct (bpred_spec v Hv) as [H _].
      destruct (bsucc_spec _ (proj1 (bh_border _ _ H))) as [_ U]. symmetry. now apply U.
    - intros v Hv. destruct (bsucc_spec v Hv) as [H _].
      destruct (bpred_spec _ (proj2 (bh_border _ _ H))) as [_ U]. symmetry. now apply U.
    - intros v Hv E. destruct (bpred_spec v Hv) as [[_ H1] _]. destruct (bsucc_spec v Hv) as [[H2 _] _].
      rewrite E in H1. unfold he in H2. congruence.
    - intros v Hv. destruct (bpred_spec v Hv) as [H _].
      assert (I : In (keyify2 v (Border.bpred s v)) edges) by (apply edge_in_iff; right; apply H).
      destruct (edge_id_found _ _ I) as (e & E1 & E2). exists e. rewrite edge_id_bridge. split; [exact E1|].
      rewrite Ebe. destruct (keyify2 v (Border.bpred s v)) as [a b] eqn:K. apply (B1 e a b E2).
      apply on_border_iff. unfold keyify2 in K.
      destruct (v <=? Border.bpred s v); inversion K; subst a b; [now right | now left].
    - rewrite Ebe. pose proof (Permutation_NoDup (Permutation_sym P) (NoDup_zrange _)) as Q.
      now apply ProofsCycle.NoDup_app_inv in Q.
    - intros e He. rewrite Ebe in He.
      assert (Re : 0 <= e < zlen edges).
      { apply In_zrange. eapply Permutation_in; [exact P|]. apply in_or_app. now left. }
      destruct (zth_in_range edges e Re) as [[a b] Hz].
      pose proof (Hk _ (zth_In _ _ _ Hz)) as L. cbn in L.
      pose proof (proj1 (B1 e a b Hz) He) as OB. apply on_border_iff in OB.
      exists a, b. rewrite edge_at_bridge, edge_id_bridge. split; [exact Hz|]. split; [exact L|]. split.
      + assert (I : In (keyify2 a b) edges).
        { unfold keyify2. destruct (a <=? b) eqn:Q; [|lia]. eapply zth_In; eauto. }
        destruct (edge_id_found a b I) as (e' & E1 & E2). rewrite E1. f_equal.
        assert (K : keyify2 a b = (a, b)) by (unfold keyify2; destruct (a <=? b) eqn:Q; [reflexivity | lia]).
        rewrite K in E2. apply zth_Some in E2 as [R2 E2]. apply zth_Some in Hz as [R1 Hz'].
        assert (Z.to_nat e' = Z.to_nat e); [|lia].
        apply (proj1 (NoDup_nth_error edges) Hnd); [apply nth_error_Some; congruence | congruence].
      + assert (BB : In a (Border.s_bverts s) /\ In b (Border.s_bverts s)).
        { destruct OB as [H|H]; destruct (bh_border _ _ H); tauto. }
        split; [apply BB|]. split; [apply BB|].
        destruct OB as [H|H].
        * right. symmetry. now apply (bpred_spec b (proj2 BB)).
        * left. symmetry. now apply (bpred_spec a (proj1 BB)).
  Qed.

End Bridge.
