(* C15 property theorems that rest on C01's development (kept in their own file so that a change in C01's cone
   cannot hide the verdict of the theorems of Props.v): each closed by `exact <lemma>`, Print Assumptions beneath. *)
From Coq Require Import ZArith List Bool Relations Permutation QArith.
Import ListNotations.
Require Import MV.Lib.Base MV.C15.Model MV.C15.Proofs.
Require MV.C01.Defs MV.C01.Spec MV.C01.Model MV.C15.BridgeFaces MV.C15.BridgeC01 MV.C15.BridgeThm MV.C15.BridgeFeatThm.

(* The tie to C01: for EVERY oriented manifold polygon surface (C01's wf_mesh nv faces: oriented faces + one fan of
   corners per vertex), the record read off the pure answers of C01's model of SurfaceMesh on the mesh mouette builds
   from the face list (vertex_to_vertices with sorting on, is_vertex_on_border, boundary_vertices, boundary_edges,
   edges) satisfies wf; its border vertices are the vertices with a half-edge that has no opposite. So the theorems
   above need no per-case check of wf_b. *)
Theorem C15_tables_wf_every_manifold_surface : forall nv faces, (0 <= nv)%Z -> MV.C01.Spec.wf_mesh nv faces ->
  let s := BridgeThm.surf_of_mesh (MV.C01.Model.build_mesh nv faces) in
  BridgeC01.tables_of (MV.C01.Model.build_mesh nv faces) s /\ wf s
  /\ (forall x, In x (s_bverts s) <->
        ((exists w, BridgeFaces.bhe faces w x) \/ (exists t, BridgeFaces.bhe faces x t))).
Proof. exact BridgeThm.every_surface_wf. Qed.
Print Assumptions C15_tables_wf_every_manifold_surface.

Theorem C15_cycle_every_manifold_surface : forall nv faces, (0 <= nv)%Z -> MV.C01.Spec.wf_mesh nv faces ->
  forall start, In start (s_bverts (BridgeThm.surf_of_mesh (MV.C01.Model.build_mesh nv faces))) ->
  exists vb eb,
    extract_border_cycle (BridgeThm.surf_of_mesh (MV.C01.Model.build_mesh nv faces)) (Some start) = Outcome (CycOk vb eb)
    /\ border_cycle_of (BridgeThm.surf_of_mesh (MV.C01.Model.build_mesh nv faces)) start vb eb.
Proof. exact BridgeThm.built_cycle. Qed.
Print Assumptions C15_cycle_every_manifold_surface.

Theorem C15_all_cycles_every_manifold_surface : forall nv faces, (0 <= nv)%Z -> MV.C01.Spec.wf_mesh nv faces ->
  exists cycles,
    extract_border_cycle_all (BridgeThm.surf_of_mesh (MV.C01.Model.build_mesh nv faces)) = Some cycles
    /\ loop_partition (BridgeThm.surf_of_mesh (MV.C01.Model.build_mesh nv faces)) cycles
    /\ Permutation (concat cycles) (s_bverts (BridgeThm.surf_of_mesh (MV.C01.Model.build_mesh nv faces))).
Proof. exact BridgeThm.built_all_cycles. Qed.
Print Assumptions C15_all_cycles_every_manifold_surface.


(* the same for the tables the feature detector reads (edge_to_faces of every edge, boundary_edges, vertex_to_edges as
   answered by C01's model; any declared hard edge ids, any normals / angle tables): flagged edges are edges of the mesh,
   each once; border edges are exactly the edges with a missing face; feature degree = number of local feature-edge
   indices - for every oriented manifold surface, with no per-case check of wf_f *)
Theorem C15_features_wf_every_manifold_surface : forall nv faces hard normals half, MV.C01.Spec.wf_mesh nv faces ->
  (forall l e, hard = Some l -> In e l ->
     (0 <= e < MV.C01.Defs.zlen (MV.C01.Model.m_edges (MV.C01.Model.build_mesh nv faces)))%Z) ->
  forall o,
    let fm := BridgeFeatThm.fmesh_of_mesh (MV.C01.Model.build_mesh nv faces) hard normals half in
    NoDup (feature_edges fm o)
    /\ (forall e, In e (feature_edges fm o) -> (0 <= e < Z.of_nat (length (f_edges fm)))%Z)
    /\ (forall e, (0 <= e < Z.of_nat (length (f_edges fm)))%Z -> (In e (f_bedges fm) <-> dot_of fm e = None))
    /\ (forall v, (0 <= v < f_nV fm)%Z ->
          getd v (feature_degrees fm o) = Z.of_nat (length (local_feat_edges_of fm (feature_edges fm o) v))).
Proof. exact BridgeFeatThm.built_features. Qed.
Print Assumptions C15_features_wf_every_manifold_surface.
