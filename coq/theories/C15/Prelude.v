(* C15 - small helpers shared by the generated part (Gen.v) and the hand-written models. No proofs. *)
From Coq Require Import ZArith List Bool QArith Qabs Qround.
Import ListNotations.
Require Import MV.Lib.Base.
Local Open Scope Z_scope.

(* utils.keyify on a pair: the sorted pair *)
Definition keyify2 (a b : Z) : Z * Z := if a <=? b then (a, b) else (b, a).

Definition pair_eqb (x y : Z * Z) : bool := (fst x =? fst y) && (snd x =? snd y).

Definition memz (x : Z) (l : list Z) : bool := existsb (Z.eqb x) l.

(* strict comparison on Q as a boolean *)
Definition Qltb (a b : Q) : bool := negb (Qle_bool b a).

(* Python's round() on an exact rational: nearest integer, ties to even *)
Definition round_half_even (q : Q) : Z :=
  let f := Qfloor q in
  let r := (q - inject_Z f)%Q in
  if Qltb r (1#2) then f
  else if Qltb (1#2) r then f + 1
  else if Z.even f then f else f + 1.

(* the three sources of feature edges, in the order FeatureEdgeDetector.run applies them *)
Inductive pass := PassHard | PassSharp | PassBorder.

(* Python dict / set insertion on association lists and key lists (insertion order kept, as CPython does) *)
Fixpoint dict_set (k v : Z) (l : list (Z * Z)) : list (Z * Z) :=
  match l with
  | [] => [(k, v)]
  | (k', v') :: t => if k' =? k then (k, v) :: t else (k', v') :: dict_set k v t
  end.

Fixpoint dict_get (k : Z) (l : list (Z * Z)) : option Z :=
  match l with
  | [] => None
  | (k', v') :: t => if k' =? k then Some v' else dict_get k t
  end.

Definition key_add (k : Z) (l : list Z) : list Z := if memz k l then l else l ++ [k].
