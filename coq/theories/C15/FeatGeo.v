(* C15 - the feature classification read on the MESH GEOMETRY (no proofs): face normals are computed from the vertex
   coordinates as attr_faces.face_normals does - the direction cross(pB - pA, pC - pA) of the first three vertices of
   the face (THE normal direction of a triangle) - and the comparison  n1.n2 < t  of the UNIT normals is decided
   exactly, without square roots:   c1.c2 / (|c1| |c2|) < t   <->   c1.c2 < 0  \/  (c1.c2)^2 < t^2 |c1|^2 |c2|^2   (t >= 0).
   The thresholds are the generated sharp_bound / hard_bound (Gen.v). *)
From Coq Require Import ZArith List Bool QArith.
Import ListNotations.
Require Import MV.Lib.Base MV.C15.Prelude MV.C15.Gen MV.C15.Feat.
Local Open Scope Z_scope.

Definition Q3 := (Q * Q * Q)%type.

Definition sub3 (a b : Q3) : Q3 :=
  let '(a1, a2, a3) := a in let '(b1, b2, b3) := b in (a1 - b1, a2 - b2, a3 - b3)%Q.

(* geometry.cross *)
Definition cross3 (a b : Q3) : Q3 :=
  let '(a1, a2, a3) := a in let '(b1, b2, b3) := b in
  (a2 * b3 - a3 * b2, a3 * b1 - a1 * b3, a1 * b2 - a2 * b1)%Q.

(* the vector face_normals normalises: cross(pB - pA, pC - pA) *)
Definition tri_cross (pA pB pC : Q3) : Q3 := cross3 (sub3 pB pA) (sub3 pC pA).

Definition face_cross (coords : list Q3) (F : list Z) : Q3 :=
  match F with
  | a :: b :: c :: _ => tri_cross (znth coords a (0, 0, 0)%Q) (znth coords b (0, 0, 0)%Q) (znth coords c (0, 0, 0)%Q)
  | _ => (0, 0, 0)%Q
  end.

(* (c1 / |c1|) . (c2 / |c2|) < t, for t >= 0 and non-zero c1, c2 *)
Definition unit_dot_lt (c1 c2 : Q3) (t : Q) : bool :=
  let d := dot3 c1 c2 in
  Qltb d 0 || Qltb (d * d) (t * t * (dot3 c1 c1 * dot3 c2 c2)).

Record gmesh := mkG {
  g_coords : list Q3;                      (* mesh.vertices *)
  g_faces  : list (list Z);                (* mesh.faces *)
  g_nE     : Z;                            (* len(mesh.edges) *)
  g_e2f    : list (option Z * option Z);   (* edge_to_faces of every edge *)
  g_bedges : list Z;                       (* mesh.boundary_edges *)
  g_hard   : option (list Z)               (* declared hard edges *)
}.

Definition g_face_cross (g : gmesh) (f : Z) : Q3 := face_cross (g_coords g) (znth (g_faces g) f []).

(* are the unit normals of the two faces of edge e less than t "aligned"?  None for a border edge *)
Definition geo_lt (g : gmesh) (e : Z) (t : Q) : option bool :=
  match znth (g_e2f g) e (None, None) with
  | (Some f1, Some f2) => Some (unit_dot_lt (g_face_cross g f1) (g_face_cross g f2) t)
  | _ => None
  end.

(* the property sentence: border edges, interior edges whose face normals are more than acos(sharp_bound) apart,
   declared hard edges (interior) more than acos(hard_bound) apart; only the border when so configured.
   [shift] moves both thresholds (tolerance band of the correspondence; the statement proper is shift = 0). *)
Definition geo_feature (shift : Q) (g : gmesh) (only_border : bool) (e : Z) : bool :=
  memz e (g_bedges g)
  || (negb only_border
      && ((match geo_lt g e (sharp_bound + shift) with Some b => b | None => false end)
          || (match g_hard g with Some l => memz e l | None => false end)
             && (match geo_lt g e (hard_bound + shift) with Some b => b | None => false end))).

Definition geo_feature_edges (shift : Q) (g : gmesh) (only_border : bool) : list Z :=
  filter (geo_feature shift g only_border) (zrange (g_nE g)).
