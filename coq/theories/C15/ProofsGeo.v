(* C15 - the geometric reading of the feature classification: for the face normals computed from the vertex
   coordinates, the square-root-free test of FeatGeo.v is the comparison of the cosine of the angle between the UNIT
   normals with the threshold, i.e. "the adjacent face normals are more than 60 degrees (resp. acos(4/5)) apart". *)
From Coq Require Import Reals Lra QArith Qreals List ZArith Bool.
Import ListNotations.
Require Import MV.Lib.Base MV.C15.Model MV.C15.FeatGeo MV.C15.GenFacts MV.C15.ProofsBase MV.C15.ProofsAngle.
Local Open Scope R_scope.

Definition dotR (a b : Q3) : R :=
  let '(a1, a2, a3) := a in let '(b1, b2, b3) := b in Q2R a1 * Q2R b1 + Q2R a2 * Q2R b2 + Q2R a3 * Q2R b3.
Definition normR (a : Q3) : R := sqrt (dotR a a).
(* cosine of the angle between a and b = dot product of a/|a| and b/|b| *)
Definition cos_between (a b : Q3) : R := dotR a b / (normR a * normR b).

Lemma Q2R_dot3 a b : Q2R (dot3 a b) = dotR a b.
Proof. destruct a as [[a1 a2] a3], b as [[b1 b2] b3]. unfold dot3, dotR. now rewrite !Q2R_plus, !Q2R_mult. Qed.

(* the computed vector is orthogonal to the two edge vectors of the triangle: it IS the normal direction *)
Lemma tri_cross_normal pA pB pC :
  (dot3 (tri_cross pA pB pC) (sub3 pB pA) == 0)%Q /\ (dot3 (tri_cross pA pB pC) (sub3 pC pA) == 0)%Q.
Proof.
  destruct pA as [[a1 a2] a3], pB as [[b1 b2] b3], pC as [[c1 c2] c3].
  unfold tri_cross, cross3, sub3, dot3. split; ring.
Qed.

Lemma dotR_pos a : (0 < dot3 a a)%Q -> 0 < dotR a a.
Proof. intros H. rewrite <- Q2R_dot3. replace 0 with (Q2R 0) by (unfold Q2R; simpl; lra). now apply Qlt_Rlt. Qed.

Lemma normR_pos a : (0 < dot3 a a)%Q -> 0 < normR a.
Proof. intros H. apply sqrt_lt_R0. now apply dotR_pos. Qed.

(* Lagrange / Cauchy-Schwarz *)
Lemma cauchy a b : dotR a b * dotR a b <= dotR a a * dotR b b.
Proof.
  destruct a as [[a1 a2] a3], b as [[b1 b2] b3]. unfold dotR.
  set (x1 := Q2R a1). set (x2 := Q2R a2). set (x3 := Q2R a3). set (y1 := Q2R b1). set (y2 := Q2R b2). set (y3 := Q2R b3).
  assert (E : (x1 * x1 + x2 * x2 + x3 * x3) * (y1 * y1 + y2 * y2 + y3 * y3) - (x1 * y1 + x2 * y2 + x3 * y3) * (x1 * y1 + x2 * y2 + x3 * y3)
              = (x2 * y3 - x3 * y2) * (x2 * y3 - x3 * y2) + (x3 * y1 - x1 * y3) * (x3 * y1 - x1 * y3) + (x1 * y2 - x2 * y1) * (x1 * y2 - x2 * y1)) by ring.
  pose proof (Rle_0_sqr (x2 * y3 - x3 * y2)). pose proof (Rle_0_sqr (x3 * y1 - x1 * y3)). pose proof (Rle_0_sqr (x1 * y2 - x2 * y1)).
  unfold Rsqr in *. lra.
Qed.

Lemma norm_prod_sq a b : (0 < dot3 a a)%Q -> (0 < dot3 b b)%Q ->
  (normR a * normR b) * (normR a * normR b) = dotR a a * dotR b b.
Proof.
  intros Ha Hb. unfold normR.
  pose proof (sqrt_sqrt (dotR a a) (Rlt_le _ _ (dotR_pos a Ha))). pose proof (sqrt_sqrt (dotR b b) (Rlt_le _ _ (dotR_pos b Hb))).
  nra.
Qed.

Lemma cos_between_range a b : (0 < dot3 a a)%Q -> (0 < dot3 b b)%Q -> -1 <= cos_between a b <= 1.
Proof.
  intros Ha Hb. unfold cos_between.
  set (S := normR a * normR b). assert (PS : 0 < S) by (apply Rmult_lt_0_compat; now apply normR_pos).
  pose proof (norm_prod_sq a b Ha Hb) as Q. fold S in Q. pose proof (cauchy a b) as C. rewrite <- Q in C.
  set (D := dotR a b) in *.
  assert (B : - S <= D <= S) by nra.
  split.
  - apply Rmult_le_reg_r with S; [exact PS|]. unfold Rdiv. rewrite Rmult_assoc, Rinv_l by lra. lra.
  - apply Rmult_le_reg_r with S; [exact PS|]. unfold Rdiv. rewrite Rmult_assoc, Rinv_l by lra. lra.
Qed.

Lemma Qltb_R x y : Qltb x y = true <-> Q2R x < Q2R y.
Proof. rewrite Qltb_lt. split; [apply Qlt_Rlt | apply Rlt_Qlt]. Qed.

(* the square-root-free test decides the comparison of the cosine of the unit normals with the threshold *)
Theorem unit_dot_lt_cos c1 c2 t : (0 <= t)%Q -> (0 < dot3 c1 c1)%Q -> (0 < dot3 c2 c2)%Q ->
  (unit_dot_lt c1 c2 t = true <-> cos_between c1 c2 < Q2R t).
Proof.
  intros Ht H1 H2. unfold unit_dot_lt, cos_between.
  set (S := normR c1 * normR c2). assert (PS : 0 < S) by (apply Rmult_lt_0_compat; now apply normR_pos).
  pose proof (norm_prod_sq c1 c2 H1 H2) as Q. fold S in Q.
  assert (T0 : 0 <= Q2R t) by (replace 0 with (Q2R 0) by (unfold Q2R; simpl; lra); now apply Qle_Rle).
  rewrite orb_true_iff, !Qltb_R, !Q2R_mult, !Q2R_dot3.
  replace (Q2R 0) with 0 by (unfold Q2R; simpl; lra).
  set (D := dotR c1 c2) in *. set (T := Q2R t) in *. rewrite <- Q.
  assert (E : D / S < T <-> D < T * S).
  { split; intros H.
    - apply Rmult_lt_compat_r with (r := S) in H; [|exact PS]. unfold Rdiv in H. rewrite Rmult_assoc, Rinv_l in H by lra. lra.
    - apply Rmult_lt_reg_r with S; [exact PS|]. unfold Rdiv. rewrite Rmult_assoc, Rinv_l by lra. lra. }
  rewrite E. split.
  - intros [H|H]; [nra|]. destruct (Rlt_le_dec D 0) as [N|P]; [nra|].
    destruct (Rlt_le_dec D (T * S)) as [L|G]; [exact L|]. exfalso.
    assert (T * S * (T * S) <= D * D) by (apply Rmult_le_compat; nra). nra.
  - intros H. destruct (Rlt_le_dec D 0) as [N|P]; [now left|]. right.
    assert (D * D < T * S * (T * S)) by (apply Rmult_le_0_lt_compat; lra). nra.
Qed.

(* "more than 60 degrees apart" / "more than acos(4/5) apart", about the mesh geometry *)
Theorem sharp_geo_angle c1 c2 : (0 < dot3 c1 c1)%Q -> (0 < dot3 c2 c2)%Q ->
  (unit_dot_lt c1 c2 sharp_bound = true <-> PI / 3 < acos (cos_between c1 c2)).
Proof.
  intros H1 H2. rewrite unit_dot_lt_cos by (assumption || (unfold sharp_bound; discriminate)).
  replace (Q2R sharp_bound) with (1 / 2) by (unfold sharp_bound, Q2R; simpl; lra).
  apply dot_lt_half_iff_angle. now apply cos_between_range.
Qed.

Theorem hard_geo_angle c1 c2 : (0 < dot3 c1 c1)%Q -> (0 < dot3 c2 c2)%Q ->
  (unit_dot_lt c1 c2 hard_bound = true <-> acos (4 / 5) < acos (cos_between c1 c2)).
Proof.
  intros H1 H2. rewrite unit_dot_lt_cos by (assumption || (unfold hard_bound; discriminate)).
  replace (Q2R hard_bound) with (4 / 5) by (unfold hard_bound; rewrite Q2R_minus; unfold Q2R; simpl; lra).
  apply dot_lt_45_iff_angle. now apply cos_between_range.
Qed.

(* the generated tests of the detector are comparisons with these very bounds *)
Lemma tests_are_bounds d :
  (sharp_test d = true <-> (d < sharp_bound)%Q) /\ (hard_test d false = true <-> (d < hard_bound)%Q).
Proof.
  split.
  - rewrite gen_sharp_test. unfold sharp_bound. reflexivity.
  - rewrite gen_hard_test. assert (T : (hard_bound == 4 # 5)%Q) by reflexivity. rewrite T. tauto.
Qed.

(* the geometric feature set *)
Lemma geo_feature_edges_spec g ob e :
  In e (geo_feature_edges 0 g ob) <->
  (0 <= e < g_nE g)%Z /\
  (In e (g_bedges g)
   \/ (ob = false /\ (geo_lt g e (sharp_bound + 0) = Some true
                      \/ ((exists l, g_hard g = Some l /\ In e l) /\ geo_lt g e (hard_bound + 0) = Some true)))).
Proof.
  unfold geo_feature_edges. rewrite filter_In, In_zrange. unfold geo_feature.
  rewrite orb_true_iff, andb_true_iff, orb_true_iff, andb_true_iff, negb_true_iff, memz_In.
  split; intros [R H]; (split; [exact R|]).
  - destruct H as [H|[O [H|[H1 H2]]]]; [now left | right; split; [exact O|left] | right; split; [exact O|right]].
    + destruct (geo_lt g e (sharp_bound + 0)) as [[|]|]; congruence.
    + split.
      * destruct (g_hard g) as [l|]; [|discriminate]. exists l. split; [reflexivity | now apply memz_In].
      * destruct (geo_lt g e (hard_bound + 0)) as [[|]|]; congruence.
  - destruct H as [H|[O [H|[[l [E I]] H2]]]]; [now left | right; split; [exact O|left] | right; split; [exact O|right]].
    + now rewrite H.
    + rewrite E, H2. split; [now apply memz_In | reflexivity].
Qed.

Lemma geometry_thm : forall c1 c2 : Q3, (0 < dot3 c1 c1)%Q -> (0 < dot3 c2 c2)%Q ->
  -1 <= cos_between c1 c2 <= 1
  /\ (unit_dot_lt c1 c2 sharp_bound = true <-> PI / 3 < acos (cos_between c1 c2))
  /\ (unit_dot_lt c1 c2 hard_bound = true <-> acos (4 / 5) < acos (cos_between c1 c2)).
Proof.
  intros c1 c2 H1 H2. split; [now apply cos_between_range|]. split; [now apply sharp_geo_angle | now apply hard_geo_angle].
Qed.

Lemma normal_thm : forall pA pB pC : Q3,
  (dot3 (tri_cross pA pB pC) (sub3 pB pA) == 0)%Q /\ (dot3 (tri_cross pA pB pC) (sub3 pC pA) == 0)%Q.
Proof. exact tri_cross_normal. Qed.
