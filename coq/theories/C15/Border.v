(* C15 - executable model of mouette/processing/border.py (surface part). NO proofs.

   The surface connectivity enters as INPUT tables (record [surf]): the answers of the SurfaceMesh the
   border code consumes.  [wf_b] is the stated, checkable well-formedness predicate (what C01 proves of the real
   tables of an oriented manifold surface with config.sort_neighborhoods = True); the correspondence evaluates
   it on the tables extracted from the real mesh of every case.

   Everything that is an expression / comparison / index / argument order in the source comes from Gen.v
   (regenerated from /repo on every run). *)
From Coq Require Import ZArith List Bool.
Import ListNotations.
Require Import MV.Lib.Base MV.C15.Prelude MV.C15.Gen.
Local Open Scope Z_scope.

Record surf := mkSurf {
  s_nV     : Z;               (* len(mesh.vertices) *)
  s_vtv    : list (list Z);   (* mesh.connectivity.vertex_to_vertices(v), v = 0 .. nV-1 *)
  s_isb    : list bool;       (* mesh.is_vertex_on_border(v) *)
  s_bverts : list Z;          (* mesh.boundary_vertices, in the implementation's order *)
  s_edges  : list (Z * Z);    (* mesh.edges *)
  s_bedges : list Z           (* mesh.boundary_edges *)
}.

(* vertex_to_vertices(v). Out-of-range v is a KeyError in Python; it is unreachable on well-formed tables
   (all neighbours are in range) and modelled by the empty list, which can only make the walk FAIL to close. *)
Definition vtv_at (s : surf) (v : Z) : list Z := znth (s_vtv s) v [].

(* is_vertex_on_border(v): a sparse bool attribute, default False (also for out-of-range / negative v) *)
Definition isb_at (s : surf) (v : Z) : bool := znth (s_isb s) v false.

(* connectivity.edge_id(u,v): dict keyify(E) -> index, later entries overwrite earlier ones *)
Fixpoint edge_find (k : Z * Z) (l : list (Z * Z)) (i : Z) (acc : option Z) : option Z :=
  match l with
  | [] => acc
  | x :: t => edge_find k t (i + 1) (if pair_eqb (keyify2 (fst x) (snd x)) k then Some i else acc)
  end.

Definition edge_id (s : surf) (uv : Z * Z) : option Z := edge_find (keyify2 (fst uv) (snd uv)) (s_edges s) 0 None.

Definition edge_at (s : surf) (e : Z) : option (Z * Z) :=
  if e <? 0 then None else nth_error (s_edges s) (Z.to_nat e).

(* ------------------------------------------------------------------ extract_border_cycle *)
Inductive cyc_result :=
| CycEmpty                                   (* `return []` : the mesh has no boundary vertex *)
| CycNotOnBorder                             (* raise Exception("Starting point ... is not on mesh border") *)
| CycIndexError                              (* boundary_vertices[0] / vertex_to_vertices(start)[0] out of range *)
| CycOk (vb : list Z) (eb : list (option Z)). (* (vborder, eborder); edge_id may answer None *)

(* `for v in vertex_to_vertices(point2): if is_vertex_on_border(v) and v != point1: ...; break` *)
Definition next_border (s : surf) (p1 p2 : Z) : option Z :=
  find (fun v => cyc_accept (isb_at s v) v p1 p2) (vtv_at s (cyc_scan p1 p2)).

(* the while loop; returns the vertices and edges appended, and the final (point1, point2).
   [fuel] only makes the recursion structural: [None] = fuel exhausted while the loop condition still holds. *)
Fixpoint walk (s : surf) (start maxv : Z) (fuel : nat) (nvis p1 p2 : Z)
  : option (list Z * list (option Z) * (Z * Z)) :=
  if cyc_continue p2 start nvis maxv then
    match fuel with
    | O => None
    | S f =>
        let v := cyc_emit_v p1 p2 in
        let e := edge_id s (cyc_emit_e p1 p2) in
        let '(q1, q2) := match next_border s p1 p2 with
                         | Some w => cyc_move p1 p2 w
                         | None => (p1, p2)
                         end in
        match walk s start maxv f (cyc_nvisited_step nvis) q1 q2 with
        | Some (vs, es, fin) => Some (v :: vs, e :: es, fin)
        | None => None
        end
    end
  else Some ([], [], (p1, p2)).

Definition nth_z {A} (l : list A) (i : Z) : option A :=
  if i <? 0 then None else nth_error l (Z.to_nat i).

Inductive cyc_outcome := OutOfFuel | Outcome (r : cyc_result).

Definition extract_border_cycle (s : surf) (starting_point : option Z) : cyc_outcome :=
  if cyc_no_border (Z.of_nat (length (s_bverts s))) then Outcome CycEmpty else
  match (match starting_point with
         | Some x => Some x
         | None => nth_z (s_bverts s) cyc_default_index
         end) with
  | None => Outcome CycIndexError
  | Some start =>
      if cyc_reject (isb_at s start) then Outcome CycNotOnBorder else
      match nth_z (vtv_at s start) cyc_first_index with
      | None => Outcome CycIndexError
      | Some p2 =>
          let maxv := cyc_max_visited (s_nV s) in
          match walk s start maxv (S (Z.to_nat (maxv - cyc_nvisited0))) cyc_nvisited0 start p2 with
          | None => OutOfFuel
          | Some (vs, es, (q1, q2)) => Outcome (CycOk (start :: vs) (es ++ [edge_id s (cyc_last_e q1 q2)]))
          end
      end
  end.

(* ------------------------------------------------------------------ extract_border_cycle_all *)
(* None = the call raises (the unpacking `border_v, _ = ...` of anything but a pair, or an exception below) *)
Fixpoint all_loop (s : surf) (todo visited : list Z) : option (list (list Z)) :=
  match todo with
  | [] => Some []
  | v :: t =>
      if all_enter (memz v visited) then
        match extract_border_cycle s (Some v) with
        | Outcome (CycOk vb eb) =>
            if all_pick =? 0 then
              match all_loop s t (vb ++ visited) with Some r => Some (vb :: r) | None => None end
            else None
        | _ => None
        end
      else all_loop s t visited
  end.

Definition extract_border_cycle_all (s : surf) : option (list (list Z)) :=
  all_loop s (s_bverts s) [].

(* ------------------------------------------------------------------ extract_boundary_of_surface *)
Record polyline := mkPoly {
  pl_src   : list Z;          (* polyline vertex i carries the coordinates of surface vertex pl_src[i] *)
  pl_edges : list (Z * Z);    (* bound.edges after re-indexing *)
  pl_map   : list (Z * Z);    (* the returned dict map_v2v, in insertion order *)
  pl_comp  : list (Z * Z)     (* the "component" attribute of bound.vertices: (key, value) *)
}.

Record bstate := mkB {
  b_iv : Z; b_ic : Z;
  b_map : list (Z * Z); b_comp : list (Z * Z);
  b_src : list Z;                 (* reversed *)
  b_raw : list (Z * Z);           (* mesh.edges[e] appended so far, reversed *)
  b_vis : list Z
}.

(* the inner `for v2 in cycle_v` *)
Fixpoint bs_cycle (vb : list Z) (st : bstate) : bstate :=
  match vb with
  | [] => st
  | v2 :: t =>
      let iv := b_iv st in let ic := b_ic st in
      let me := bs_map_entry v2 iv ic in
      let ce := bs_comp_entry v2 iv ic in
      bs_cycle t (mkB (bs_next_iv v2 iv ic) ic
                      (dict_set (fst me) (snd me) (b_map st))
                      (dict_set (fst ce) (snd ce) (b_comp st))
                      (bs_vertex_src v2 iv ic :: b_src st)
                      (b_raw st) (v2 :: b_vis st))
  end.

Fixpoint raw_edges (s : surf) (eb : list (option Z)) : option (list (Z * Z)) :=
  match eb with
  | [] => Some []
  | None :: _ => None                         (* mesh.edges[None] raises *)
  | Some e :: t =>
      match edge_at s e, raw_edges s t with
      | Some ab, Some r => Some (ab :: r)
      | _, _ => None
      end
  end.

Fixpoint bs_loop (s : surf) (todo : list Z) (st : bstate) : option bstate :=
  match todo with
  | [] => Some st
  | v :: t =>
      if bs_enter (memz v (b_vis st)) then
        match extract_border_cycle s (Some v) with
        | Outcome (CycOk vb eb) =>
            match raw_edges s eb with
            | None => None
            | Some raw =>
                let st1 := mkB (b_iv st) (b_ic st) (b_map st) (b_comp st) (b_src st)
                               (rev raw ++ b_raw st) (b_vis st) in
                let st2 := bs_cycle vb st1 in
                bs_loop s t (mkB (b_iv st2) (bs_next_ic (b_ic st2)) (b_map st2) (b_comp st2) (b_src st2)
                                 (b_raw st2) (b_vis st2))
            end
        | _ => None
        end
      else bs_loop s t st
  end.

Fixpoint reindex (m : list (Z * Z)) (raw : list (Z * Z)) : option (list (Z * Z)) :=
  match raw with
  | [] => Some []
  | (a, b) :: t =>
      match dict_get a m, dict_get b m, reindex m t with
      | Some ma, Some mb, Some r => Some (bs_edge_key ma mb :: r)
      | _, _, _ => None                        (* KeyError *)
      end
  end.

Definition extract_boundary_of_surface (s : surf) : option polyline :=
  match bs_loop s (s_bverts s) (mkB bs_ind_vertex0 bs_ind_component0 [] [] [] [] []) with
  | None => None
  | Some st =>
      match reindex (b_map st) (rev (b_raw st)) with
      | None => None
      | Some es => Some (mkPoly (rev (b_src st)) es (b_map st) (b_comp st))
      end
  end.

(* ------------------------------------------------------------------ well-formedness of the input tables *)
(* border predecessor / successor of a border vertex as the SORTED neighbourhood gives them *)
Definition bpred (s : surf) (v : Z) : Z := hd (-1) (vtv_at s v).
Definition bsucc (s : surf) (v : Z) : Z := last (vtv_at s v) (-1).

Fixpoint nodupz (l : list Z) : bool :=
  match l with [] => true | x :: t => negb (memz x t) && nodupz t end.

Definition opt_eqb (a : option Z) (b : Z) : bool := match a with Some x => x =? b | None => false end.

Definition wf_vertex (s : surf) (v : Z) : bool :=
  let p := bpred s v in let n := bsucc s v in
  negb (match vtv_at s v with [] => true | _ => false end)
  && isb_at s p && isb_at s n
  && (bsucc s p =? v) && (bpred s n =? v)
  && negb (p =? n)
  && match edge_id s (v, p) with Some e => memz e (s_bedges s) | None => false end.

Definition wf_bedge (s : surf) (e : Z) : bool :=
  match edge_at s e with
  | None => false
  | Some (a, b) => (a <? b) && opt_eqb (edge_id s (a, b)) e
                   && isb_at s a && isb_at s b
                   && ((bpred s a =? b) || (bpred s b =? a))
  end.

Definition wf_b (s : surf) : bool :=
  (0 <=? s_nV s)
  && (Z.of_nat (length (s_vtv s)) =? s_nV s) && (Z.of_nat (length (s_isb s)) =? s_nV s)
  && nodupz (s_bverts s)
  && forallb (fun v => isb_at s v) (s_bverts s)
  && forallb (fun v => negb (isb_at s v) || memz v (s_bverts s)) (zrange (s_nV s))
  && forallb (wf_vertex s) (s_bverts s)
  && nodupz (s_bedges s)
  && forallb (wf_bedge s) (s_bedges s).
