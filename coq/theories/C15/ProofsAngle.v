(* C15 - the dot-product thresholds of features.py read as dihedral angles.
   For unit normals n1, n2 the angle between them is acos (n1.n2); cos is strictly decreasing on [0,pi], so
     n1.n2 < 1/2        <->  angle > pi/3  (60 degrees)
     n1.n2 < 1 - 0.2    <->  angle > acos (4/5) = atan (3/4),  36.86 < angle in degrees < 36.88. *)
From Coq Require Import Reals Lra QArith Qreals.
Require Import MV.C15.Model MV.C15.GenFacts.
Local Open Scope R_scope.

Lemma acos_lt_iff x y : -1 <= x <= 1 -> -1 <= y <= 1 -> (x < y <-> acos y < acos x).
Proof.
  intros Hx Hy.
  pose proof (acos_bound x) as Bx. pose proof (acos_bound y) as By.
  split; intros H.
  - apply cos_decreasing_0; try lra. now rewrite !cos_acos.
  - rewrite <- (cos_acos x Hx), <- (cos_acos y Hy). apply cos_decreasing_1; lra.
Qed.

Lemma acos_half : acos (1 / 2) = PI / 3.
Proof.
  rewrite <- cos_PI3. apply acos_cos. pose proof PI_RGT_0. lra.
Qed.

(* more than 60 degrees apart *)
Theorem dot_lt_half_iff_angle d : -1 <= d <= 1 -> (d < 1 / 2 <-> PI / 3 < acos d).
Proof.
  intros Hd. rewrite <- acos_half. apply acos_lt_iff; lra.
Qed.

(* more than acos(4/5) ~ 36.87 degrees apart *)
Theorem dot_lt_45_iff_angle d : -1 <= d <= 1 -> (d < 4 / 5 <-> acos (4 / 5) < acos d).
Proof.
  intros Hd. apply acos_lt_iff; lra.
Qed.

Lemma acos45_atan : acos (4 / 5) = atan (3 / 4).
Proof.
  rewrite acos_atan by lra. f_equal.
  replace (1 - (4 / 5)²) with ((3 / 5)²) by (unfold Rsqr; lra).
  rewrite sqrt_Rsqr by lra. lra.
Qed.

(* between 30 and 45 degrees (stdlib only; the sharper 36.86 < degrees < 36.88 is proved with coq-interval in
   ExtraDegrees.v, which is kept out of the cone of Props.v) *)
Theorem acos45_bounds : PI / 6 < acos (4 / 5) < PI / 4.
Proof.
  pose proof PI_RGT_0 as P.
  assert (S3 : 0 < sqrt 3) by (apply sqrt_lt_R0; lra).
  assert (Q3 : sqrt 3 * sqrt 3 = 3) by (apply sqrt_sqrt; lra).
  assert (S2 : 0 < sqrt 2) by (apply sqrt_lt_R0; lra).
  assert (Q2 : sqrt 2 * sqrt 2 = 2) by (apply sqrt_sqrt; lra).
  assert (H3 : 8 / 5 < sqrt 3).
  { destruct (Rlt_le_dec (8 / 5) (sqrt 3)) as [H|H]; [exact H|]. exfalso.
    assert (sqrt 3 * sqrt 3 <= 8 / 5 * (8 / 5)) by (apply Rmult_le_compat; lra). lra. }
  assert (K3 : sqrt 3 <= 2).
  { destruct (Rle_lt_dec (sqrt 3) 2) as [H|H]; [exact H|]. exfalso.
    assert (2 * 2 <= sqrt 3 * sqrt 3) by (apply Rmult_le_compat; lra). lra. }
  assert (H2 : 5 / 4 < sqrt 2).
  { destruct (Rlt_le_dec (5 / 4) (sqrt 2)) as [H|H]; [exact H|]. exfalso.
    assert (sqrt 2 * sqrt 2 <= 5 / 4 * (5 / 4)) by (apply Rmult_le_compat; lra). lra. }
  assert (B3 : 4 / 5 < sqrt 3 / 2) by lra.
  assert (B2 : 1 / sqrt 2 < 4 / 5).
  { replace (4 / 5) with (/ (5 / 4)) by lra. unfold Rdiv at 1. rewrite Rmult_1_l.
    apply Rinv_lt_contravar; [|exact H2]. apply Rmult_lt_0_compat; lra. }
  assert (U3 : sqrt 3 / 2 <= 1) by lra.
  assert (L2 : 0 < 1 / sqrt 2) by (apply Rdiv_lt_0_compat; lra).
  split.
  - replace (PI / 6) with (acos (cos (PI / 6))) by (apply acos_cos; lra).
    rewrite cos_PI6. apply (proj1 (acos_lt_iff (4 / 5) (sqrt 3 / 2) ltac:(lra) ltac:(lra))). exact B3.
  - replace (PI / 4) with (acos (cos (PI / 4))) by (apply acos_cos; lra).
    rewrite cos_PI4. apply (proj1 (acos_lt_iff (1 / sqrt 2) (4 / 5) ltac:(lra) ltac:(lra))). exact B2.
Qed.

(* the generated comparisons are these strict inequalities (Q2R: the rational read as a real) *)
Theorem sharp_test_real d : sharp_test d = true <-> Q2R d < 1 / 2.
Proof.
  rewrite gen_sharp_test. split; intros H.
  - apply Qlt_Rlt in H. replace (Q2R (1 # 2)) with (1 / 2) in H by (unfold Q2R; simpl; lra). exact H.
  - apply Rlt_Qlt. replace (Q2R (1 # 2)) with (1 / 2) by (unfold Q2R; simpl; lra). exact H.
Qed.

Theorem hard_test_real d : hard_test d false = true <-> Q2R d < 4 / 5.
Proof.
  rewrite gen_hard_test.
  assert (E : Q2R (4 # 5) = 4 / 5) by (unfold Q2R; simpl; lra).
  split.
  - intros [H _]. apply Qlt_Rlt in H. now rewrite E in H.
  - intros H. split; [|reflexivity]. apply Rlt_Qlt. now rewrite E.
Qed.

Lemma thresholds_thm :
  (forall d, sharp_test d = true <-> Q2R d < 1 / 2)
  /\ (forall d, hard_test d false = true <-> Q2R d < 4 / 5)
  /\ (forall x, -1 <= x <= 1 -> (x < 1 / 2 <-> PI / 3 < acos x))
  /\ (forall x, -1 <= x <= 1 -> (x < 4 / 5 <-> acos (4 / 5) < acos x))
  /\ acos (4 / 5) = atan (3 / 4)
  /\ PI / 6 < acos (4 / 5) < PI / 4.
Proof.
  exact (conj sharp_test_real (conj hard_test_real (conj dot_lt_half_iff_angle (conj dot_lt_45_iff_angle
          (conj acos45_atan acos45_bounds))))).
Qed.
