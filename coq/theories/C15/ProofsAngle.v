(* C15 - the dot-product thresholds of features.py read as dihedral angles.
   For unit normals n1, n2 the angle between them is acos (n1.n2); cos is strictly decreasing on [0,pi], so
     n1.n2 < 1/2        <->  angle > pi/3  (60 degrees)
     n1.n2 < 1 - 0.2    <->  angle > acos (4/5) = atan (3/4),  36.86 < angle in degrees < 36.88. *)
From Coq Require Import Reals Lra QArith Qreals.
From Interval Require Import Tactic.
Require Import MV.C15.Model MV.C15.GenFacts.
Local Open Scope R_scope.

Lemma acos_lt_iff x y : -1 <= x <= 1 -> -1 <= y <= 1 -> (x < y <-> acos y < acos x).
Proof.
  intros Hx Hy.
  pose proof (acos_bound x) as Bx. pose proof (acos_bound y) as By.
  split; intros H.
  - apply cos_decreasing_0; try lra. now rewrite !cos_acos.
  - rewrite <- (cos_acos x Hx), <- (cos_acos y Hy). apply cos_decreasing_1; lra.
Qed.

Lemma acos_half : acos (1 / 2) = PI / 3.
Proof.
  rewrite <- cos_PI3. apply acos_cos. pose proof PI_RGT_0. lra.
Qed.

(* more than 60 degrees apart *)
Theorem dot_lt_half_iff_angle d : -1 <= d <= 1 -> (d < 1 / 2 <-> PI / 3 < acos d).
Proof.
  intros Hd. rewrite <- acos_half. apply acos_lt_iff; lra.
Qed.

(* more than acos(4/5) ~ 36.87 degrees apart *)
Theorem dot_lt_45_iff_angle d : -1 <= d <= 1 -> (d < 4 / 5 <-> acos (4 / 5) < acos d).
Proof.
  intros Hd. apply acos_lt_iff; lra.
Qed.

Lemma acos45_atan : acos (4 / 5) = atan (3 / 4).
Proof.
  rewrite acos_atan by lra. f_equal.
  replace (1 - (4 / 5)²) with ((3 / 5)²) by (unfold Rsqr; lra).
  rewrite sqrt_Rsqr by lra. lra.
Qed.

Theorem acos45_degrees : 36.86 < acos (4 / 5) * 180 / PI < 36.88.
Proof.
  rewrite acos45_atan. split; interval with (i_prec 40).
Qed.

(* the generated comparisons are these strict inequalities (Q2R: the rational read as a real) *)
Theorem sharp_test_real d : sharp_test d = true <-> Q2R d < 1 / 2.
Proof.
  rewrite gen_sharp_test. split; intros H.
  - apply Qlt_Rlt in H. replace (Q2R (1 # 2)) with (1 / 2) in H by (unfold Q2R; simpl; lra). exact H.
  - apply Rlt_Qlt. replace (Q2R (1 # 2)) with (1 / 2) by (unfold Q2R; simpl; lra). exact H.
Qed.

Theorem hard_test_real d : hard_test d false = true <-> Q2R d < 4 / 5.
Proof.
  rewrite gen_hard_test.
  assert (E : Q2R (4 # 5) = 4 / 5) by (unfold Q2R; simpl; lra).
  split.
  - intros [H _]. apply Qlt_Rlt in H. now rewrite E in H.
  - intros H. split; [|reflexivity]. apply Rlt_Qlt. now rewrite E.
Qed.

Lemma thresholds_thm :
  (forall d, sharp_test d = true <-> Q2R d < 1 / 2)
  /\ (forall d, hard_test d false = true <-> Q2R d < 4 / 5)
  /\ (forall x, -1 <= x <= 1 -> (x < 1 / 2 <-> PI / 3 < acos x))
  /\ (forall x, -1 <= x <= 1 -> (x < 4 / 5 <-> acos (4 / 5) < acos x))
  /\ acos (4 / 5) = atan (3 / 4).
Proof.
  exact (conj sharp_test_real (conj hard_test_real (conj dot_lt_half_iff_angle (conj dot_lt_45_iff_angle acos45_atan)))).
Qed.
