(* C15 - boolean checkers evaluated by the correspondence batches: the model's answers against what the
   implementation returned on the same tables. No proofs. *)
From Coq Require Import ZArith List Bool QArith.
Import ListNotations.
Require Import MV.Lib.Base MV.C15.Model.
Local Open Scope Z_scope.

Definition oz_eqb (a b : option Z) : bool :=
  match a, b with Some x, Some y => x =? y | None, None => true | _, _ => false end.
Definition lz_eqb := list_eqb Z.eqb.
Definition lp_eqb := list_eqb pair_eqb.
Definition triple_eqb (a b : Z * Z * Z) : bool :=
  let '(a1, a2, a3) := a in let '(b1, b2, b3) := b in (a1 =? b1) && (a2 =? b2) && (a3 =? b3).

(* what the driver observed for one extract_border_cycle call *)
Inductive cyc_obs := OEmpty | ONotOnBorder | OIndexError | OOther | OOk (vb : list Z) (eb : list (option Z)).

Definition cyc_agree (r : cyc_outcome) (o : cyc_obs) : bool :=
  match r, o with
  | Outcome CycEmpty, OEmpty => true
  | Outcome CycNotOnBorder, ONotOnBorder => true
  | Outcome CycIndexError, OIndexError => true
  | Outcome (CycOk vb eb), OOk vb' eb' => lz_eqb vb vb' && list_eqb oz_eqb eb eb'
  | _, _ => false
  end.

Record bnd_obs := mkBO {
  bo_verts : list (Z * Z * Z); bo_edges : list (Z * Z); bo_map : list (Z * Z); bo_comp : list (Z * Z)
}.

Record bcase := mkBC {
  bc_s : surf;
  bc_coords : list (Z * Z * Z);
  bc_cycles : list (option Z * cyc_obs);
  bc_all : option (list (list Z));
  bc_bnd : option bnd_obs
}.

Definition bnd_agree (c : bcase) : bool :=
  match extract_boundary_of_surface (bc_s c), bc_bnd c with
  | None, None => true
  | Some p, Some o =>
      list_eqb triple_eqb (map (fun v => znth (bc_coords c) v (0, 0, 0)) (pl_src p)) (bo_verts o)
      && lp_eqb (pl_edges p) (bo_edges o) && lp_eqb (pl_map p) (bo_map o) && lp_eqb (pl_comp p) (bo_comp o)
  | _, _ => false
  end.

Definition all_agree (c : bcase) : bool :=
  match extract_border_cycle_all (bc_s c), bc_all c with
  | None, None => true
  | Some l, Some l' => list_eqb lz_eqb l l'
  | _, _ => false
  end.

(* the tables of the real mesh satisfy the stated well-formedness predicate, and every observation agrees *)
Definition check_border (c : bcase) : bool :=
  wf_b (bc_s c)
  && forallb (fun so => cyc_agree (extract_border_cycle (bc_s c) (fst so)) (snd so)) (bc_cycles c)
  && all_agree c && bnd_agree c.

(* ------------------------------------------------------------------ features *)
Definition subset_z (a b : list Z) : bool := forallb (fun x => memz x b) a.
Definition same_set_z (a b : list Z) : bool := subset_z a b && subset_z b a && (length a =? length b)%nat.
Definition mem_p (x : Z * Z) (l : list (Z * Z)) : bool := existsb (pair_eqb x) l.
Definition same_set_p (a b : list (Z * Z)) : bool :=
  forallb (fun x => mem_p x b) a && forallb (fun x => mem_p x a) b && (length a =? length b)%nat.
Definition zl_eqb (x y : Z * list Z) : bool := (fst x =? fst y) && lz_eqb (snd x) (snd y).
Definition same_set_zl (a b : list (Z * list Z)) : bool :=
  forallb (fun x => existsb (zl_eqb x) b) a && forallb (fun x => existsb (zl_eqb x) a) b && (length a =? length b)%nat.

(* a binary64 value m * 2^e as an exact rational (keeps the case files small) *)
Definition qf (m e : Z) : Q :=
  if (0 <=? e)%Z then inject_Z (m * 2 ^ e) else Qmake m (Z.to_pos (2 ^ (- e))).

(* math.pi as the exact rational value of the binary64 constant *)
Definition pi64 : Q := qf 7074237752028440 (-51).

Record det_obs := mkDO {
  do_opts : fopts;
  do_eps : Q;                         (* tolerance band on dot products: 0 when binary64 is exact on the case *)
  do_heps : Q;                        (* tolerance band on angle sums / pi *)
  do_fe : list Z; do_fv : list Z; do_deg : list (Z * Z); do_local : list (Z * list Z);
  do_corners : option (list (Z * Z))
}.

Record fcase := mkFC {
  fc_m : fmesh;
  fc_geo : option (list (Z * Z * Z) * list (list Z));  (* integer vertex coordinates and faces, when the normals are the
                                                         computed ones: the flagged set is then also compared with the
                                                         geometric classification of FeatGeo.v *)
  fc_normals : list (Z * Z * Z * Z * Z * Z);  (* the normals the runs used: (m,e) per component *)
  fc_angle : list (Z * Z);                    (* the angle sums they used: (m,e) *)
  fc_dets : list det_obs
}.

Definition the_mesh (c : fcase) : fmesh :=
  let m := fc_m c in
  mkF (f_nV m) (f_edges m) (f_e2f m) (f_bedges m) (f_hard m)
      (map (fun n => let '(a, ea, b, eb, c, ec) := n in (qf a ea, qf b eb, qf c ec)) (fc_normals c))
      (f_v2e m)
      (map (fun a => (qf (fst a) (snd a) / pi64)%Q) (fc_angle c)).

Definition corner_ok (m : fmesh) (d : det_obs) (vc : Z * Z) : bool :=
  let '(v, c) := vc in
  let h := half_at m v in let k := o_corner_order (do_opts d) in
  (c =? corner_of h k) || (c =? corner_of (h - do_heps d)%Q k) || (c =? corner_of (h + do_heps d)%Q k).

Definition det_agree (m : fmesh) (d : det_obs) : bool :=
  let o := do_opts d in
  let fe := do_fe d in
  (* flagged set, through the band (eps = 0: equality with the model proper) *)
  subset_z (feature_keys (do_eps d) m o) fe && subset_z fe (feature_keys (- do_eps d)%Q m o)
  && nodupz fe
  && (if Qeq_bool (do_eps d) 0 then same_set_z (feature_edges m o) fe else true)
  (* derived containers, recomputed by the model's functions from the flagged set *)
  && same_set_z (verts_of m fe) (do_fv d)
  && same_set_p (degrees_of m fe) (do_deg d)
  && same_set_zl (map (fun v => (v, local_feat_edges_of m fe v)) (verts_of m fe)) (do_local d)
  && match do_corners d with
     | None => negb (o_flag_corners o)
     | Some l => o_flag_corners o && same_set_z (map fst l) (do_fv d) && forallb (corner_ok m d) l
     end.

Definition the_gmesh (c : fcase) (cf : list (Z * Z * Z) * list (list Z)) : gmesh :=
  let m := fc_m c in
  mkG (map (fun p => let '(x, y, z) := p in (inject_Z x, inject_Z y, inject_Z z)) (fst cf)) (snd cf)
      (Z.of_nat (length (f_edges m))) (f_e2f m) (f_bedges m) (f_hard m).

(* implementation's flagged set against the classification on the mesh geometry, through the band *)
Definition geo_agree (c : fcase) (d : det_obs) : bool :=
  match fc_geo c with
  | None => true
  | Some cf =>
      let g := the_gmesh c cf in
      let ob := o_only_border (do_opts d) in
      subset_z (geo_feature_edges (- do_eps d)%Q g ob) (do_fe d)
      && subset_z (do_fe d) (geo_feature_edges (do_eps d) g ob)
  end.

Definition check_feat (c : fcase) : bool :=
  let m := the_mesh c in wf_f m && forallb (det_agree m) (fc_dets c) && forallb (geo_agree c) (fc_dets c).
