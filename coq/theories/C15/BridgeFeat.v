(* C15 / C01 bridge, part 4 - the tables the feature detector reads (edge_to_faces of every edge, boundary_edges,
   vertex_to_edges) as answered by C01's model satisfy the well-formedness [wfF] of the detector's theorems for EVERY
   oriented manifold polygon surface. *)
From Coq Require Import ZArith List Bool Lia Sorting.Permutation.
Import ListNotations.
Require Import MV.C01.Defs MV.C01.Gen MV.C01.Model MV.C01.Spec MV.C01.Pure MV.C01.ProofsCorners MV.C01.ProofsTables
        MV.C01.ProofsEdges MV.C01.ProofsSort MV.C01.ProofsRing MV.C01.ProofsVerts MV.C01.ProofsMain.
Require MV.C15.Prelude MV.C15.Feat MV.C15.ProofsBase MV.C15.ProofsFeat.
Require Import MV.C15.BridgeFaces MV.C15.BridgeC01.
Open Scope Z_scope.

Lemma zth_znth {A} (l : list A) i x d : zth l i = Some x -> Base.znth l i d = x.
Proof.
  unfold zth, Base.znth. destruct (i <? 0); [discriminate|]. intros H. now apply nth_error_nth.
Qed.

(* counting an edge id in the image of a duplicate-free list *)
Lemma count_image_zero (g : Z -> option Z) e l :
  (forall u, In u l -> g u <> Some e) -> Feat.count_occ_o e (map g l) = 0.
Proof.
  induction l as [|a t IH]; intros H; [reflexivity|]. cbn [map].
  assert (Na : g a <> Some e) by (apply H; now left).
  assert (R : Feat.count_occ_o e (map g t) = 0) by (apply IH; intros u Hu; apply H; now right).
  destruct (g a) as [x|]; cbn; [|exact R].
  destruct (x =? e) eqn:Q; [apply Z.eqb_eq in Q; subst; congruence | lia].
Qed.

Lemma count_image_one (g : Z -> option Z) e u0 l :
  NoDup l -> In u0 l -> (forall u, In u l -> (g u = Some e <-> u = u0)) ->
  Feat.count_occ_o e (map g l) = 1.
Proof.
  induction l as [|a t IH]; intros N Hin Hg; [destruct Hin|].
  inversion N as [|? ? Na Nt]; subst. cbn [map].
  destruct (Z.eq_dec a u0) as [->|Ne].
  - assert (E : g u0 = Some e) by (apply Hg; [now left | reflexivity]). rewrite E. cbn. rewrite Z.eqb_refl.
    assert (Z0 : Feat.count_occ_o e (map g t) = 0).
    { apply count_image_zero. intros u Hu Eu. apply Hg in Eu; [|now right]. subst u. contradiction. }
    lia.
  - destruct Hin as [->|Hin]; [congruence|].
    assert (Na' : g a <> Some e) by (intros Ea; apply Hg in Ea; [congruence | now left]).
    assert (R : Feat.count_occ_o e (map g t) = 1).
    { apply IH; [exact Nt | exact Hin | intros u Hu; apply Hg; now right]. }
    destruct (g a) as [x|] eqn:Ga; cbn.
    + destruct (x =? e) eqn:Q; [apply Z.eqb_eq in Q; subst; congruence | lia].
    + exact R.
Qed.

Lemma keyify_eq1 v u b : v < b -> (keyify2 v u = (v, b) <-> u = b).
Proof.
  intros L. unfold keyify2. destruct (v <=? u) eqn:Q; split; intros H.
  - now inversion H.
  - now subst.
  - inversion H. lia.
  - subst. lia.
Qed.

Lemma keyify_eq2 a v u : a < v -> (keyify2 v u = (a, v) <-> u = a).
Proof.
  intros L. unfold keyify2. destruct (v <=? u) eqn:Q; split; intros H.
  - inversion H. lia.
  - subst. lia.
  - now inversion H.
  - now subst.
Qed.

Section BridgeF.
  Variable nv : Z.
  Variable faces : list (list Z).
  Variable m : mesh.
  Variable fm : Feat.fmesh.
  Hypothesis Hm : wf_mesh nv faces.
  Hypothesis Hmo : mesh_of nv faces m.
  Hypothesis Hex : edges_exact faces (m_edges m).
  Hypothesis Hnd : NoDup (m_edges m).
  Hypothesis Hk : forall e, In e (m_edges m) -> fst e < snd e.

  Notation edges := (m_edges m).

  (* the detector's tables hold C01's pure answers (sorting on); the declared hard edges are edge ids *)
  Definition ftables_of : Prop :=
    Feat.f_nV fm = m_nv m /\ Feat.f_edges fm = edges
    /\ p_boundary_edges m true = Ok (Feat.f_bedges fm)
    /\ (forall e u v, zth edges e = Some (u, v) ->
          exists a b, p_edge_to_faces m true u v = Ok [a; b] /\ Feat.e2f_at fm e = (a, b))
    /\ (forall v, 0 <= v < m_nv m -> p_vertex_to_edges m true v = Ok (Base.znth (Feat.f_v2e fm) v []))
    /\ (forall l e, Feat.f_hard fm = Some l -> In e l -> 0 <= e < zlen edges).

  Hypothesis Ht : ftables_of.
  Let Hwf : wf_faces nv faces := proj1 Hm.

  Lemma nE_eq : Z.of_nat (length (Feat.f_edges fm)) = zlen edges.
  Proof. destruct Ht as (_ & E & _). now rewrite E. Qed.

  Lemma fedge_zth e : 0 <= e < zlen edges -> zth edges e = Some (Feat.fedge_at fm e).
  Proof.
    intros He. destruct (zth_in_range edges e He) as [x Hx]. destruct Ht as (_ & E & _).
    unfold Feat.fedge_at. rewrite E, (zth_znth _ _ _ _ Hx). exact Hx.
  Qed.

  Lemma sp_edge_id_zth v u e : sp_edge_id edges v u = Some e -> zth edges e = Some (keyify2 v u).
  Proof.
    unfold sp_edge_id. intros H. destruct (last_index_some _ _ _ _ H) as ([a b] & Hx & Px & _).
    rewrite Z.sub_0_r in Hx. apply pair_eqb'_eq in Px. cbn in Px. rewrite Hx. f_equal.
    pose proof (Hk _ (zth_In _ _ _ Hx)) as L. cbn in L. rewrite <- Px. unfold keyify2.
    destruct (a <=? b) eqn:Q; [reflexivity | lia].
  Qed.

  Lemma zth_inj e e' x : zth edges e = Some x -> zth edges e' = Some x -> e = e'.
  Proof.
    intros H1 H2. apply zth_Some in H1 as [R1 H1]. apply zth_Some in H2 as [R2 H2].
    assert (Z.to_nat e = Z.to_nat e'); [|lia].
    apply (proj1 (NoDup_nth_error edges) Hnd); [apply nth_error_Some; congruence | congruence].
  Qed.

  (* vertex_to_vertices(v): a duplicate-free list of the neighbours of v *)
  Lemma ring_neighbours v : 0 <= v < nv ->
    exists ring, p_vertex_to_vertices m true v = Ok ring /\ NoDup ring
                 /\ (forall u, In u ring <-> (In (v, u) edges \/ In (u, v) edges)).
  Proof.
    intros Hv. destruct (vertex_ring_sorted nv faces m Hm Hmo Hex v Hv) as (l & _ & Hring & E).
    exists (sp_vertex_ring faces l). split; [exact E|].
    assert (P : Permutation (nbrs edges v) (sp_vertex_ring faces l)).
    { apply (ring_perm nv faces Hwf v l Hring (nbrs edges v) (nbrs_NoDup edges v)).
      intros w. rewrite nbrs_In. apply (Hex v w). }
    split.
    - eapply Permutation_NoDup; [exact P | apply nbrs_NoDup].
    - intros u. rewrite <- nbrs_In. split; intros H; [eapply Permutation_in; [apply Permutation_sym; exact P | exact H]
                                                      | eapply Permutation_in; [exact P | exact H]].
  Qed.

  Theorem c01_tables_wfF : ProofsFeat.wfF fm.
  Proof.
    destruct Ht as (EnV & Ee & Tbe & Te2f & Tv2e & Thard).
    destruct (compute_total nv faces m true Hm Hmo) as [T ET].
    destruct (border_partition nv faces m true T Hwf Hmo ET)
      as (be & ie & bv & iv & E1 & E2 & E3 & E4 & P & B1 & B2 & N & B3 & B4 & B5).
    rewrite Tbe in E1. inversion E1; subst be.
    pose proof (tables_correct nv faces m true T Hwf Hmo ET) as TC.
    destruct TC as (_ & _ & _ & _ & _ & _ & _ & TCe2f & _).
    constructor.
    - (* stored smallest vertex first *)
      intros e He. rewrite nE_eq in He. pose proof (fedge_zth e He) as Hz. apply (Hk _ (zth_In _ _ _ Hz)).
    - (* boundary_edges = edges with a missing face *)
      intros e He. rewrite nE_eq in He. pose proof (fedge_zth e He) as Hz.
      destruct (Feat.fedge_at fm e) as [u v] eqn:Fe.
      rewrite (proj1 (B1 e u v Hz)). destruct (Te2f e u v Hz) as (a & b & Ea & Eb).
      rewrite TCe2f in Ea. inversion Ea; subst a b.
      unfold Feat.e_on_border. rewrite Eb. unfold sp_edge_on_border.
      assert (I : In (keyify2 u v) edges).
      { pose proof (Hk _ (zth_In _ _ _ Hz)) as L. cbn in L. unfold keyify2. destruct (u <=? v) eqn:Q; [|lia].
        eapply zth_In; eauto. }
      destruct (edge_id_found m Hnd Hk u v I) as (e' & -> & _).
      unfold sp_direct_face. destruct (sp_he faces u v), (sp_he faces v u); cbn; split; congruence.
    - intros e He. rewrite nE_eq. apply In_zrange. eapply Permutation_in; [exact P|]. apply in_or_app. now left.
    - intros l e El He. rewrite nE_eq. now apply (Thard l).
    - (* vertex_to_edges(v) lists every edge at v exactly once *)
      intros v e Hv He. rewrite nE_eq in He. rewrite EnV in Hv.
      assert (Rv : 0 <= v < nv) by (destruct Hmo as (Q & _); lia).
      destruct (ring_neighbours v Rv) as (ring & Er & Nr & Ir).
      assert (Ev2e : Base.znth (Feat.f_v2e fm) v [] = map (fun u => sp_edge_id edges v u) ring).
      { specialize (Tv2e v Hv).
        destruct (derived_lists nv faces m true T Hwf Hmo ET) as (_ & _ & DV & _).
        rewrite (DV v ring Er) in Tv2e. now inversion Tv2e. }
      rewrite Ev2e. pose proof (fedge_zth e He) as Hz. unfold ProofsFeat.ends.
      destruct (Feat.fedge_at fm e) as [a b] eqn:Fe. cbn [fst snd].
      pose proof (Hk _ (zth_In _ _ _ Hz)) as L. cbn in L.
      assert (G : forall u, In u ring -> (sp_edge_id edges v u = Some e <-> keyify2 v u = (a, b))).
      { intros u Hu. split.
        - intros H. apply sp_edge_id_zth in H. congruence.
        - intros K. assert (I : In (keyify2 v u) edges) by (rewrite K; eapply zth_In; eauto).
          destruct (edge_id_found m Hnd Hk v u I) as (e' & E' & Z'). rewrite E'. f_equal.
          rewrite K in Z'. now apply (zth_inj e' e (a, b)). }
      assert (Iab : In (a, b) edges) by (eapply zth_In; eauto).
      destruct (Z.eq_dec a v) as [Ea|Na]; [|destruct (Z.eq_dec b v) as [Eb|Nb]].
      + subst a. rewrite Z.eqb_refl. replace (b =? v) with false by lia.
        apply (count_image_one _ e b); [exact Nr | apply Ir; now left|].
        intros u Hu. rewrite (G u Hu). now apply keyify_eq1.
      + subst b. rewrite Z.eqb_refl. replace (a =? v) with false by lia.
        apply (count_image_one _ e a); [exact Nr | apply Ir; now right|].
        intros u Hu. rewrite (G u Hu). now apply keyify_eq2.
      + replace (a =? v) with false by lia. replace (b =? v) with false by lia.
        apply count_image_zero. intros u Hu H. apply (G u Hu) in H. unfold keyify2 in H.
        destruct (v <=? u); inversion H; lia.
  Qed.

End BridgeF.
