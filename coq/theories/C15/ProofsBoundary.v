(* C15 - extract_boundary_of_surface: vertices, index map, component attribute and edges of the polyline. *)
From Coq Require Import ZArith List Bool Lia Relations Permutation.
Import ListNotations.
Require Import MV.Lib.Base MV.C15.Model MV.C15.ProofsBase MV.C15.GenFacts MV.C15.ProofsCycle MV.C15.ProofsAll.
Local Open Scope Z_scope.

(* (v, iv), (v', iv+1), ... : what the vertex loop appends to map_v2v *)
Fixpoint enum_from (iv : Z) (l : list Z) : list (Z * Z) :=
  match l with [] => [] | v :: t => (v, iv) :: enum_from (iv + 1) t end.

(* what it appends to the "component" attribute: polyline index -> loop index *)
Fixpoint comp_from (iv ic : Z) (L : list (list Z)) : list (Z * Z) :=
  match L with
  | [] => []
  | c :: t => map (fun vi => (snd vi, ic)) (enum_from iv c) ++ comp_from (iv + Z.of_nat (length c)) (ic + 1) t
  end.

Lemma enum_from_app iv l m : enum_from iv (l ++ m) = enum_from iv l ++ enum_from (iv + Z.of_nat (length l)) m.
Proof.
  revert iv. induction l as [|a l IH]; intros iv; simpl.
  - now rewrite Z.add_0_r.
  - rewrite IH. do 3 f_equal. lia.
Qed.

Lemma dict_get_app k l m :
  dict_get k (l ++ m) = match dict_get k l with Some x => Some x | None => dict_get k m end.
Proof.
  induction l as [|[a b] l IH]; simpl; [reflexivity|]. destruct (a =? k); [reflexivity | exact IH].
Qed.

Lemma dict_set_fresh k v l : dict_get k l = None -> dict_set k v l = l ++ [(k, v)].
Proof.
  induction l as [|[a b] l IH]; simpl; intros H; [reflexivity|].
  destruct (a =? k); [discriminate|]. now rewrite IH.
Qed.

Lemma enum_get_bounds v iv l i : dict_get v (enum_from iv l) = Some i -> In v l /\ iv <= i < iv + Z.of_nat (length l).
Proof.
  revert iv. induction l as [|a l IH]; intros iv; simpl; [discriminate|].
  destruct (a =? v) eqn:E.
  - intros H. inversion H; subst. apply Z.eqb_eq in E. split; [now left | lia].
  - intros H. destruct (IH _ H) as [A1 A2]. split; [now right | lia].
Qed.

Lemma enum_get_in v iv l : In v l -> dict_get v (enum_from iv l) <> None.
Proof.
  revert iv. induction l as [|a l IH]; intros iv; simpl; [tauto|].
  intros [->|H]; [rewrite Z.eqb_refl; discriminate|].
  destruct (a =? v); [discriminate | now apply IH].
Qed.

Lemma enum_get_nth iv l k : NoDup l -> (k < length l)%nat ->
  dict_get (nth k l 0) (enum_from iv l) = Some (iv + Z.of_nat k).
Proof.
  revert iv k. induction l as [|a l IH]; intros iv k N Hk; simpl in Hk; [lia|].
  inversion N as [|? ? Na Nl]; subst. destruct k as [|k]; simpl.
  - rewrite Z.eqb_refl. f_equal. lia.
  - destruct (a =? nth k l 0) eqn:E.
    + apply Z.eqb_eq in E. exfalso. apply Na. rewrite E. apply nth_In. lia.
    + rewrite IH; [f_equal; lia | exact Nl | lia].
Qed.

Section Boundary.
Variable s : surf.
Hypothesis W : wf s.
Notation B := (s_bverts s).

(* ------------------------------------------------------------------ the inner vertex loop *)
Lemma bs_cycle_spec : forall vb st,
  NoDup vb -> (forall x, In x vb -> dict_get x (b_map st) = None) ->
  (forall k, dict_get k (b_comp st) <> None -> k < b_iv st) ->
  bs_cycle vb st =
    mkB (b_iv st + Z.of_nat (length vb)) (b_ic st)
        (b_map st ++ enum_from (b_iv st) vb)
        (b_comp st ++ map (fun vi => (snd vi, b_ic st)) (enum_from (b_iv st) vb))
        (rev vb ++ b_src st) (b_raw st) (rev vb ++ b_vis st).
Proof.
  induction vb as [|v t IH]; intros st N F K.
  - simpl. rewrite Z.add_0_r, !app_nil_r. now destruct st.
  - inversion N as [|? ? Nv Nt]; subst.
    cbn [bs_cycle]. destruct (gen_bs_entries v (b_iv st) (b_ic st)) as [G1 [G2 [G3 G4]]].
    rewrite G1, G2, G3, G4. simpl fst. simpl snd.
    rewrite (dict_set_fresh v (b_iv st) (b_map st)) by (apply F; now left).
    assert (KF : dict_get (b_iv st) (b_comp st) = None).
    { destruct (dict_get (b_iv st) (b_comp st)) eqn:E; [|reflexivity].
      assert (b_iv st < b_iv st) by (apply K; rewrite E; discriminate). lia. }
    rewrite (dict_set_fresh (b_iv st) (b_ic st) (b_comp st) KF).
    rewrite IH; simpl b_iv; simpl b_ic; simpl b_map; simpl b_comp; simpl b_src; simpl b_raw; simpl b_vis.
    + f_equal.
      * simpl length. lia.
      * now rewrite <- app_assoc.
      * now rewrite <- app_assoc.
      * simpl rev. now rewrite <- app_assoc.
      * simpl rev. now rewrite <- app_assoc.
    + exact Nt.
    + intros x Hx. rewrite dict_get_app. rewrite (F x (or_intror Hx)). simpl.
      destruct (v =? x) eqn:E; [|reflexivity]. apply Z.eqb_eq in E. subst. contradiction.
    + intros k Hk. rewrite dict_get_app in Hk. destruct (dict_get k (b_comp st)) eqn:E.
      * assert (k < b_iv st) by (apply K; rewrite E; discriminate). lia.
      * simpl in Hk. destruct (b_iv st =? k) eqn:E2; [apply Z.eqb_eq in E2; lia | congruence].
Qed.

(* ------------------------------------------------------------------ the edges of one cycle, as vertex pairs *)
Definition cycle_raw (c : list Z) : list (Z * Z) := map (fun v => keyify2 v (bpred s v)) c.

Lemma raw_edges_cycle c : incl c B ->
  raw_edges s (map (fun v => edge_id s (v, bpred s v)) c) = Some (cycle_raw c).
Proof.
  induction c as [|v t IH]; intros Hi; [reflexivity|].
  assert (Hv : In v B) by (apply Hi; now left).
  destruct (pred_badj s W v Hv) as [e [E1 [E2 _]]].
  destruct (edge_id_spec s _ _ _ E1) as [a [b [Ha Hk]]].
  destruct (wf_bedge_ s W e E2) as [a' [b' [F1 [F2 _]]]]. rewrite Ha in F1. inversion F1; subst a' b'.
  simpl map. rewrite E1. simpl raw_edges. rewrite Ha, IH by (intros z Hz; apply Hi; now right).
  unfold cycle_raw. simpl map. rewrite <- Hk, (keyify2_sorted a b F2). reflexivity.
Qed.

(* ------------------------------------------------------------------ the outer loop, side by side with all_loop *)
Lemma bs_loop_spec : forall todo vis st, incl todo B -> closed_set s vis ->
  (forall x, In x (b_vis st) <-> In x vis) ->
  (forall x, dict_get x (b_map st) <> None -> In x vis) ->
  (forall k, dict_get k (b_comp st) <> None -> k < b_iv st) ->
  exists cycles st',
    all_loop s todo vis = Some cycles /\ bs_loop s todo st = Some st'
    /\ b_iv st' = b_iv st + Z.of_nat (length (concat cycles))
    /\ b_map st' = b_map st ++ enum_from (b_iv st) (concat cycles)
    /\ b_comp st' = b_comp st ++ comp_from (b_iv st) (b_ic st) cycles
    /\ b_src st' = rev (concat cycles) ++ b_src st
    /\ b_raw st' = rev (cycle_raw (concat cycles)) ++ b_raw st.
Proof.
  induction todo as [|v t IH]; intros vis st Hi Hc Hv Hm Hk.
  - exists [], st. simpl. rewrite Z.add_0_r, !app_nil_r. repeat split; reflexivity.
  - assert (Hvb : In v B) by (apply Hi; now left).
    assert (Ht : incl t B) by (intros z Hz; apply Hi; now right).
    assert (MV : memz v (b_vis st) = memz v vis).
    { destruct (memz v vis) eqn:E.
      - apply memz_In. apply Hv. now apply memz_In.
      - apply memz_false. intros I. apply Hv in I. apply memz_false in E. contradiction. }
    cbn [all_loop bs_loop]. rewrite (gen_bs_enter (memz v (b_vis st))), (gen_all_enter (memz v vis)). rewrite MV.
    destruct (memz v vis) eqn:M; simpl negb; cbv iota.
    + exact (IH vis st Ht Hc Hv Hm Hk).
    + apply memz_false in M.
      destruct (cycle_ok s W v Hvb) as [vb [eb [E C]]]. rewrite E.
      rewrite gen_all_pick. simpl Z.eqb. cbv iota.
      pose proof C as [H1 [H2 [H3 [H4 [H5 H6]]]]].
      rewrite H6, (raw_edges_cycle vb H5).
      pose proof (cycle_fresh s W v vb eb vis C Hc M) as FR.
      rewrite bs_cycle_spec; simpl b_iv; simpl b_ic; simpl b_map; simpl b_comp; simpl b_src; simpl b_raw; simpl b_vis.
      2: exact H4.
      2: { intros x Hx. destruct (dict_get x (b_map st)) eqn:G; [|reflexivity].
           exfalso. apply (FR x Hx). apply Hm. rewrite G. discriminate. }
      2: exact Hk.
      rewrite gen_bs_next_ic.
      match goal with |- context [bs_loop s t ?X] =>
        destruct (IH (vb ++ vis) X) as [cycles [st' [A1 [A2 [A3 [A4 [A5 [A6 A7]]]]]]]] end.
      * exact Ht.
      * exact (closed_app s W v vb eb vis C Hc).
      * simpl b_vis. intros x. rewrite !in_app_iff, <- in_rev. rewrite (Hv x). reflexivity.
      * simpl b_map. intros x Hx. rewrite dict_get_app in Hx. apply in_app_iff.
        destruct (dict_get x (b_map st)) eqn:G.
        -- right. apply Hm. rewrite G. discriminate.
        -- left. destruct (dict_get x (enum_from (b_iv st) vb)) eqn:G2; [|congruence].
           now apply enum_get_bounds in G2 as [G2 _].
      * simpl b_comp. simpl b_iv. intros k Hk'. rewrite dict_get_app in Hk'.
        destruct (dict_get k (b_comp st)) eqn:G.
        -- assert (k < b_iv st) by (apply Hk; rewrite G; discriminate). lia.
        -- clear - Hk'. revert Hk'. generalize (b_iv st) as iv. generalize (b_ic st) as ic.
           induction vb as [|a l IHl]; intros ic iv; simpl; [congruence|].
           destruct (iv =? k) eqn:Q; [apply Z.eqb_eq in Q; lia|].
           intros Hk'. specialize (IHl ic (iv + 1) Hk'). lia.
      * rewrite A1, A2. exists (vb :: cycles), st'. split; [reflexivity|]. split; [reflexivity|].
        simpl b_iv in *. simpl b_ic in *. simpl b_map in *. simpl b_comp in *. simpl b_src in *. simpl b_raw in *.
        simpl concat. unfold cycle_raw in *. rewrite app_length, enum_from_app, rev_app_distr, map_app, rev_app_distr.
        repeat split.
        -- rewrite A3. lia.
        -- rewrite A4. now rewrite <- app_assoc.
        -- rewrite A5. simpl comp_from. now rewrite <- app_assoc.
        -- rewrite A6. now rewrite <- app_assoc.
        -- rewrite A7. now rewrite <- app_assoc.
Qed.

(* ------------------------------------------------------------------ re-indexing of the edges *)
Definition pos (m : list (Z * Z)) (v : Z) : Z := match dict_get v m with Some i => i | None => -1 end.

Lemma reindex_spec m raw :
  (forall ab, In ab raw -> dict_get (fst ab) m <> None /\ dict_get (snd ab) m <> None) ->
  reindex m raw = Some (map (fun ab => keyify2 (pos m (fst ab)) (pos m (snd ab))) raw).
Proof.
  induction raw as [|[a b] t IH]; intros H; [reflexivity|].
  simpl reindex. destruct (H (a, b) (or_introl eq_refl)) as [Ha Hb]. simpl in Ha, Hb.
  rewrite IH by (intros ab Hab; apply H; now right).
  destruct (dict_get a m) as [i|] eqn:Ga; [|congruence]. destruct (dict_get b m) as [j|] eqn:Gb; [|congruence].
  cbn [map fst snd]. rewrite gen_bs_edge_key. replace (pos m a) with i by (unfold pos; now rewrite Ga).
  replace (pos m b) with j by (unfold pos; now rewrite Gb). reflexivity.
Qed.

(* the edge from each border vertex to its border predecessor enumerates the border edges, each once *)
Lemma pred_edges_NoDup l : NoDup l -> incl l B -> NoDup (map (fun v => edge_id s (v, bpred s v)) l).
Proof.
  intros N Hi. apply map_NoDup_in; [|exact N].
  intros x y Hx Hy E.
  destruct (pred_badj s W x (Hi x Hx)) as [e [E1 [E2 _]]].
  rewrite E1 in E. symmetry in E.
  destruct (edge_id_spec s _ _ _ E1) as [a [b [Ha Hk]]].
  destruct (edge_id_spec s _ _ _ E) as [a' [b' [Ha' Hk']]].
  rewrite Ha in Ha'. inversion Ha'; subst a' b'. rewrite Hk in Hk'.
  apply keyify2_eq in Hk' as [[K1 K2]|[K1 K2]]; [exact K1|].
  exfalso. apply (wf_neq s W x (Hi x Hx)). rewrite K2. rewrite K1. symmetry. apply (wf_sp s W). now apply Hi.
Qed.

Lemma pred_edges_perm l : NoDup l -> (forall v, In v l <-> In v B) ->
  Permutation (map Some (s_bedges s)) (map (fun v => edge_id s (v, bpred s v)) l).
Proof.
  intros N Hl. apply NoDup_Permutation.
  - apply map_NoDup_in; [intros x y _ _ E; now inversion E | apply (wf_be_nodup s W)].
  - apply pred_edges_NoDup; [exact N | intros z Hz; now apply Hl].
  - intros oe. rewrite !in_map_iff. split.
    + intros [e [<- He]].
      destruct (wf_bedge_ s W e He) as [a [b [E1 [E2 [E3 [E4 [E5 E6]]]]]]].
      destruct E6 as [E6|E6].
      * exists a. split; [now rewrite E6 | now apply Hl].
      * exists b. split; [rewrite E6; now rewrite edge_id_sym | now apply Hl].
    + intros [v [<- Hv]]. destruct (pred_badj s W v (proj1 (Hl v) Hv)) as [e [E1 [E2 _]]].
      exists e. split; [now symmetry | exact E2].
Qed.

(* ------------------------------------------------------------------ the result *)
Definition edge_pair (e : Z) : Z * Z := match edge_at s e with Some ab => ab | None => (-1, -1) end.

Theorem boundary_spec :
  exists cycles p,
    extract_border_cycle_all s = Some cycles /\ extract_boundary_of_surface s = Some p
    /\ pl_src p = concat cycles
    /\ pl_map p = enum_from 0 (concat cycles)
    /\ pl_comp p = comp_from 0 0 cycles
    /\ pl_edges p = map (fun ab => keyify2 (pos (pl_map p) (fst ab)) (pos (pl_map p) (snd ab))) (cycle_raw (concat cycles))
    /\ Permutation (pl_edges p)
         (map (fun e => keyify2 (pos (pl_map p) (fst (edge_pair e))) (pos (pl_map p) (snd (edge_pair e)))) (s_bedges s)).
Proof.
  destruct (all_cycles_spec s W) as [cycles [E [[N [Cov F]] [Pm G]]]].
  destruct (bs_loop_spec B [] (mkB bs_ind_vertex0 bs_ind_component0 [] [] [] [] []))
    as [cycles' [st' [A1 [A2 [A3 [A4 [A5 [A6 A7]]]]]]]].
  - intros x H; exact H.
  - intros x [].
  - simpl. tauto.
  - simpl. congruence.
  - simpl. congruence.
  - unfold extract_border_cycle_all in E. rewrite E in A1. inversion A1; subst cycles'. clear A1.
    simpl in A3, A4, A5, A6, A7. rewrite app_nil_r in A6, A7.
    unfold extract_boundary_of_surface.
    destruct gen_bs_init as [J1 J2]. rewrite J1, J2 in *. rewrite A2, A7, rev_involutive.
    rewrite reindex_spec.
    + exists cycles. eexists. split; [exact E|]. split; [reflexivity|]. simpl pl_src. simpl pl_map. simpl pl_comp. simpl pl_edges.
      rewrite A6, rev_involutive, A4, A5. repeat split.
      (* the polyline edges are the border edges, renamed *)
      set (m := enum_from 0 (concat cycles)).
      pose proof (pred_edges_perm (concat cycles) N Cov) as P.
      apply (Permutation_map (fun oe => match oe with
                                        | Some e => keyify2 (pos m (fst (edge_pair e))) (pos m (snd (edge_pair e)))
                                        | None => (-1, -1) end)) in P.
      rewrite !map_map in P. symmetry in P.
      etransitivity; [|exact P].
      unfold cycle_raw. rewrite map_map.
      apply Permutation_refl'. apply map_ext_in. intros v Hv.
      destruct (pred_badj s W v (proj1 (Cov v) Hv)) as [e [E1 [E2 _]]]. rewrite E1.
      destruct (edge_id_spec s _ _ _ E1) as [a [b [Ha Hk]]].
      destruct (wf_bedge_ s W e E2) as [a' [b' [F1 [F2 _]]]]. rewrite Ha in F1. inversion F1; subst a' b'.
      unfold edge_pair. rewrite Ha. rewrite <- Hk, (keyify2_sorted a b F2). reflexivity.
    + intros ab Hab. unfold cycle_raw in Hab. apply in_map_iff in Hab as [v [<- Hv]].
      rewrite A4.
      assert (Hb : In v B) by now apply Cov.
      assert (I1 : dict_get v (enum_from 0 (concat cycles)) <> None) by now apply enum_get_in.
      assert (I2 : dict_get (bpred s v) (enum_from 0 (concat cycles)) <> None).
      { apply enum_get_in. apply Cov. now apply (wf_pred_in s W). }
      unfold keyify2. destruct (v <=? bpred s v); simpl; split; assumption.
Qed.

End Boundary.
