(* C15 / C01 bridge, part 1 - border half-edges around a vertex of an oriented manifold polygon surface, in the
   vocabulary of C01's specification (Spec.v: sp_he, ring_spec, sp_vertex_ring).
   For a vertex A with a border half-edge, its sorted vertex ring (what vertex_to_vertices(A) answers, theorem
   C01_vertex_ring_sorted) starts with THE vertex w whose half-edge w -> A has no opposite and ends with THE vertex t
   whose half-edge A -> t has no opposite. *)
From Coq Require Import ZArith List Bool Lia.
Import ListNotations.
Require Import MV.C01.Defs MV.C01.Gen MV.C01.Model MV.C01.Spec MV.C01.ProofsCorners MV.C01.ProofsTables
        MV.C01.ProofsEdges MV.C01.ProofsRing MV.C01.ProofsVerts.
Open Scope Z_scope.

Lemma last_default_irrel {A} (l : list A) d d' : l <> [] -> last l d = last l d'.
Proof.
  induction l as [|a t IH]; [congruence|]. intros _. destruct t as [|b t]; [reflexivity|].
  change (last (a :: b :: t) d) with (last (b :: t) d). change (last (a :: b :: t) d') with (last (b :: t) d').
  apply IH. discriminate.
Qed.

Lemma last_map {A B} (f : A -> B) (l : list A) d : l <> [] -> last (map f l) (f d) = f (last l d).
Proof.
  induction l as [|a t IH]; [congruence|]. intros _. destruct t as [|b t]; [reflexivity|].
  change (last (map f (a :: b :: t)) (f d)) with (last (map f (b :: t)) (f d)).
  change (last (a :: b :: t) d) with (last (b :: t) d). apply IH. discriminate.
Qed.

Lemma last_in {A} (l : list A) d : l <> [] -> In (last l d) l.
Proof.
  induction l as [|a t IH]; [congruence|]. intros _. destruct t as [|b t]; [now left|].
  right. apply IH. discriminate.
Qed.

Section Faces.
  Variable nv : Z.
  Variable faces : list (list Z).
  Hypothesis Hm : wf_mesh nv faces.
  Let Hwf : wf_faces nv faces := proj1 Hm.
  Let Hfaces : Forall (face_ok nv) faces := proj1 Hwf.
  Let Hor : oriented faces := proj2 Hwf.

  (* v follows u in some face *)
  Definition he (u v : Z) : Prop := sp_he faces u v <> None.
  (* border half-edge u -> v : no face on the other side *)
  Definition bhe (u v : Z) : Prop := he u v /\ sp_he faces v u = None.

  Lemma he_corner u v : he u v -> exists x, In x (all_corners faces) /\ cv x = u /\ ct x = v.
  Proof.
    unfold he. destruct (sp_he faces u v) as [x|] eqn:E; [|congruence]. intros _.
    exists x. now apply (sp_he_some faces).
  Qed.

  Lemma corner_he x : In x (all_corners faces) -> he (cv x) (ct x).
  Proof. intros Hx. unfold he. rewrite (sp_he_self faces Hor x Hx). discriminate. Qed.

  Lemma corner_side_of x : In x (all_corners faces) -> side_of faces (keyify2 (cv x) (ct x)).
  Proof.
    intros Hx. pose proof (corner_pos_range faces x Hx) as Hr.
    apply all_corners_In in Hx as (F & H1 & H2 & H3 & H4 & _).
    assert (HF : In F faces) by (eapply zth_In; eauto).
    assert (Hj : 0 <= (ci x + 1) mod cn x < zlen F) by (rewrite <- H3; apply Z.mod_pos_bound; lia).
    destruct (zth_in_range F _ Hj) as [b Hb].
    exists F, (ci x), (cv x), b. rewrite <- H3. repeat split; auto; try lia.
    rewrite H4. now rewrite (zth_d_Some _ _ _ Hb).
  Qed.

  Lemma he_range u v : he u v -> 0 <= u < nv /\ 0 <= v < nv /\ u <> v.
  Proof.
    intros H. destruct (he_corner u v H) as (x & Hx & <- & <-).
    pose proof (side_valid nv faces _ Hfaces (corner_side_of x Hx)) as (N & R1 & R2).
    unfold keyify2 in *. destruct (cv x <=? ct x); cbn [fst snd] in *; repeat split; lia || congruence.
  Qed.

  (* ------------------------------------------------------------------ around one vertex *)
  Variable A : Z.
  Variable l : list Z.
  Hypothesis Hring : ring_spec faces A l.

  Lemma chain_cw_mid pre a b post : chain_cw faces (pre ++ a :: b :: post) -> sp_cw faces b = Some a.
  Proof. intros H. apply (chain_cw_app faces) in H as [_ H]. cbn in H. tauto. Qed.

  (* the corner of an outgoing border half-edge is the last of the ring *)
  Lemma out_last t : bhe A t -> l <> [] /\ sp_target faces (last l 0) = t /\ sp_ccw faces (last l 0) = None.
  Proof.
    intros [H N]. destruct (he_corner A t H) as (x & Hx & Ev & Et).
    pose proof (corner_in_ring faces A l Hring x Hx Ev) as Hin.
    assert (Eccw : sp_ccw faces (cid x) = None) by (rewrite (L_ccw faces x Hx), Et, Ev, N; reflexivity).
    apply in_split in Hin as (pre & post & El).
    assert (post = []).
    { destruct post as [|b post]; [reflexivity|]. exfalso.
      destruct Hring as (_ & _ & Hc & _). rewrite El in Hc. pose proof (chain_cw_mid _ _ _ _ Hc) as Ecw.
      assert (Hb : In b l) by (rewrite El; apply in_or_app; right; right; now left).
      destruct (ring_corner faces A l Hring b Hb) as (y & Hy & Ey & _).
      rewrite <- Ey in Ecw. pose proof (L_inv nv faces Hwf x y Hx Hy Ecw). congruence. }
    subst post. assert (Nl : l <> []) by (rewrite El; destruct pre; discriminate).
    assert (La : last l 0 = cid x) by (rewrite El; apply last_last).
    split; [exact Nl|]. rewrite La. split; [|exact Eccw].
    unfold sp_target. now rewrite (sp_corner_self faces x Hx).
  Qed.

  Lemma in_first w : bhe w A -> exists a t, l = a :: t /\ sp_cw faces a = None /\ sp_source_prev faces a = w.
  Proof. intros [H N]. exact (incoming_only faces A l Hring w N H). Qed.

  Lemma first_in a t : l = a :: t -> sp_cw faces a = None -> bhe (sp_source_prev faces a) A.
  Proof.
    intros El E. destruct (prefix_he nv faces Hwf A l Hring a t El E) as [H1 H2]. split; assumption.
  Qed.

  Lemma last_out : l <> [] -> sp_ccw faces (last l 0) = None -> bhe A (sp_target faces (last l 0)).
  Proof.
    intros Nl E. pose proof (last_in l 0 Nl) as Hin.
    destruct (ring_corner faces A l Hring _ Hin) as (x & Hx & Ec & Ev & Et & _).
    rewrite Et. split.
    - rewrite <- Ev. now apply corner_he.
    - rewrite <- Ec, (L_ccw faces x Hx), Ev in E. destruct (sp_he faces (ct x) A); [discriminate | reflexivity].
  Qed.

  (* a vertex with a border half-edge on either side has an OPEN fan *)
  Lemma open_of_in w : bhe w A -> ring_open faces l.
  Proof.
    intros H. destruct (in_first w H) as (a & t & El & E & _).
    destruct Hring as (_ & _ & _ & [C|O]); [|exact O]. rewrite El in C. cbn in C. congruence.
  Qed.

  Lemma open_of_out t : bhe A t -> ring_open faces l.
  Proof.
    intros H. destruct (out_last t H) as (Nl & _ & E).
    destruct Hring as (_ & _ & _ & [C|O]); [|exact O]. exfalso.
    assert (Hd : exists a r, l = a :: r) by (destruct l as [|a r]; [congruence | eauto]).
    destruct Hd as (a & r & El).
    assert (C' : sp_cw faces a = Some (last l a)) by (unfold ring_closed in C; rewrite El in C; rewrite El; exact C).
    assert (Ha : In a l) by (rewrite El; now left).
    destruct (ring_corner faces A l Hring a Ha) as (x & Hx & Ex & _).
    pose proof (last_in l a Nl) as Hl.
    destruct (ring_corner faces A l Hring _ Hl) as (y & Hy & Ey & _).
    rewrite <- Ey in C'. rewrite <- Ex in C'. pose proof (L_inv nv faces Hwf y x Hy Hx C') as Q.
    rewrite Ey, (last_default_irrel l a 0 Nl) in Q. congruence.
  Qed.

  (* the sorted vertex ring of a vertex with a border half-edge: predecessor first, successor last, both unique *)
  Lemma border_ring :
    (exists w, bhe w A) \/ (exists t, bhe A t) ->
    exists p s rest,
      sp_vertex_ring faces l = p :: rest /\ last (sp_vertex_ring faces l) 0 = s
      /\ bhe p A /\ bhe A s
      /\ (forall w, bhe w A -> w = p) /\ (forall t, bhe A t -> t = s).
  Proof.
    intros HB.
    assert (O : ring_open faces l) by (destruct HB as [[w H]|[t H]]; [eapply open_of_in | eapply open_of_out]; eauto).
    assert (Hd : exists a r, l = a :: r).
    { destruct HB as [[w H]|[t H]].
      - destruct (in_first w H) as (a & r & E & _). eauto.
      - destruct (out_last t H) as (Nl & _). destruct l as [|a r]; [congruence | eauto]. }
    destruct Hd as (a & r & El).
    assert (Nl : l <> []) by (rewrite El; discriminate).
    assert (O1 : sp_cw faces a = None) by (unfold ring_open in O; rewrite El in O; tauto).
    assert (O2 : sp_ccw faces (last l 0) = None).
    { rewrite (last_default_irrel l 0 a Nl). unfold ring_open in O. rewrite El in O. rewrite El. tauto. }
    exists (sp_source_prev faces a), (sp_target faces (last l 0)), (map (sp_target faces) l).
    assert (VR : sp_vertex_ring faces l = sp_source_prev faces a :: map (sp_target faces) l).
    { unfold sp_vertex_ring. rewrite El at 1. rewrite O1. reflexivity. }
    split; [exact VR|]. split.
    - rewrite VR. assert (Nm : map (sp_target faces) l <> []) by (rewrite El; discriminate).
      destruct (map (sp_target faces) l) as [|m0 mr] eqn:Em; [congruence|].
      change (last (sp_source_prev faces a :: m0 :: mr) 0) with (last (m0 :: mr) 0). rewrite <- Em.
      rewrite (last_default_irrel _ 0 (sp_target faces 0)) by (rewrite Em; discriminate).
      now apply last_map.
    - split; [apply (first_in a r El O1)|]. split; [apply (last_out Nl O2)|]. split.
      + intros w H. destruct (in_first w H) as (a' & r' & El' & _ & E). rewrite El in El'. inversion El'; subst. reflexivity.
      + intros t H. destruct (out_last t H) as (_ & E & _). now symmetry.
  Qed.

End Faces.
