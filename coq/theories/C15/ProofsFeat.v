(* C15 - FeatureEdgeDetector.run: the flagged edge set and the containers derived from it. *)
From Coq Require Import ZArith List Bool Lia QArith Qabs Qround Lqa Sorted.
Import ListNotations.
Require Import MV.Lib.Base MV.C15.Model MV.C15.ProofsBase MV.C15.GenFacts.
Local Open Scope Z_scope.

(* ------------------------------------------------------------------ folds that add keys under a condition *)
Lemma fold_cond_In (P : Z -> bool) (l feat : list Z) x :
  In x (fold_left (fun acc e => if P e then key_add e acc else acc) l feat)
  <-> In x feat \/ (In x l /\ P x = true).
Proof.
  revert feat. induction l as [|a l IH]; intros feat; simpl; [tauto|].
  rewrite IH. destruct (P a) eqn:E.
  - rewrite key_add_In. split.
    + intros [[->|H]|[H1 H2]]; auto.
    + intros [H|[[->|H1] H2]]; auto.
  - split.
    + intros [H|[H1 H2]]; auto.
    + intros [H|[[->|H1] H2]]; auto. congruence.
Qed.

Lemma fold_cond_NoDup (P : Z -> bool) (l feat : list Z) :
  NoDup feat -> NoDup (fold_left (fun acc e => if P e then key_add e acc else acc) l feat).
Proof.
  revert feat. induction l as [|a l IH]; intros feat H; simpl; [exact H|].
  apply IH. destruct (P a); [now apply key_add_NoDup | exact H].
Qed.

(* ------------------------------------------------------------------ the three sources *)
Section Features.
Variable m : fmesh.
Variable o : fopts.

Definition dot_of (e : Z) : option Q :=
  match e2f_at m e with
  | (Some t1, Some t2) => Some (dot3 (normal_at m t1) (normal_at m t2))
  | _ => None
  end.

(* interior edge whose adjacent face normals satisfy n1.n2 < 1/2 *)
Definition sharp_edge (e : Z) : Prop := exists d, dot_of e = Some d /\ (d < 1 # 2)%Q.
(* declared hard edge, interior, with n1.n2 < 4/5 *)
Definition hard_edge (e : Z) : Prop :=
  exists l d, f_hard m = Some l /\ In e l /\ dot_of e = Some d /\ (d < 4 # 5)%Q.

Definition sharp_cond (e : Z) : bool :=
  match dot_of e with Some d => Qltb d (1 # 2) | None => false end.
Definition hard_cond (e : Z) : bool :=
  match dot_of e with Some d => Qltb d (4 # 5) | None => false end.

Lemma sharp_cond_iff e : sharp_cond e = true <-> sharp_edge e.
Proof.
  unfold sharp_cond, sharp_edge. destruct (dot_of e) as [d|]; split.
  - intros H. exists d. split; [reflexivity | now apply Qltb_lt].
  - intros [d' [E H]]. inversion E; subst. now apply Qltb_lt.
  - discriminate.
  - intros [d' [E _]]. discriminate.
Qed.

Lemma sharp_step_eq feat e :
  sharp_step 0 m feat e = if sharp_cond e then key_add e feat else feat.
Proof.
  unfold sharp_step, sharp_cond, dot_of, edge_dot.
  destruct (e2f_at m e) as [[t1|] [t2|]]; rewrite (proj2 (gen_missing _ _)); simpl; try reflexivity.
  set (d := dot3 (normal_at m t1) (normal_at m t2)).
  assert (E : sharp_test (d + 0) = Qltb d (1 # 2)).
  { destruct (Qltb d (1 # 2)) eqn:Q.
    - apply gen_sharp_test. apply Qltb_lt in Q. now rewrite Qplus_0_r.
    - destruct (sharp_test (d + 0)) eqn:Q2; [|reflexivity]. apply gen_sharp_test in Q2. rewrite Qplus_0_r in Q2.
      apply Qltb_lt in Q2. congruence. }
  now rewrite E.
Qed.

Lemma hard_step_eq feat e :
  hard_step 0 m feat e = if hard_cond e then key_add e feat else feat.
Proof.
  unfold hard_step, hard_cond, dot_of, edge_dot, e_on_border.
  destruct (e2f_at m e) as [[t1|] [t2|]]; rewrite (proj1 (gen_missing _ _)); simpl; try reflexivity.
  set (d := dot3 (normal_at m t1) (normal_at m t2)).
  assert (E : hard_test (d + 0) false = Qltb d (4 # 5)).
  { destruct (Qltb d (4 # 5)) eqn:Q.
    - apply gen_hard_test. apply Qltb_lt in Q. split; [now rewrite Qplus_0_r | reflexivity].
    - destruct (hard_test (d + 0) false) eqn:Q2; [|reflexivity]. apply gen_hard_test in Q2 as [Q2 _].
      rewrite Qplus_0_r in Q2. apply Qltb_lt in Q2. congruence. }
  now rewrite E.
Qed.

Lemma fold_ext {A} (f g : A -> Z -> A) l a : (forall x e, f x e = g x e) -> fold_left f l a = fold_left g l a.
Proof. intros H. revert a. induction l as [|e l IH]; intros a; simpl; [reflexivity|]. now rewrite H, IH. Qed.

Notation nE := (Z.of_nat (length (f_edges m))).

Lemma pass_hard_In feat x :
  In x (pass_hard 0 m o feat) <-> In x feat \/ (o_only_border o = false /\ hard_edge x).
Proof.
  unfold pass_hard. rewrite (proj1 (gen_skips _)). destruct (o_only_border o).
  - split; [tauto | intros [H|[H _]]; [exact H | discriminate]].
  - destruct (f_hard m) as [l|] eqn:EH.
    + rewrite (fold_ext _ (fun acc e => if hard_cond e then key_add e acc else acc)) by (intros; apply hard_step_eq).
      rewrite fold_cond_In. unfold hard_edge, hard_cond. split.
      * intros [H|[H1 H2]]; [now left|]. right. split; [reflexivity|].
        destruct (dot_of x) as [d|]; [|discriminate]. exists l, d. repeat split; auto. now apply Qltb_lt.
      * intros [H|[_ [l' [d [E1 [E2 [E3 E4]]]]]]]; [now left|]. right. rewrite EH in E1. inversion E1; subst l'. split; [exact E2|].
        rewrite E3. now apply Qltb_lt.
    + split; [tauto|]. intros [H|[_ [l' [d [E1 _]]]]]; [exact H | congruence].
Qed.

Lemma pass_sharp_In feat x :
  In x (pass_sharp 0 m o feat) <-> In x feat \/ (o_only_border o = false /\ 0 <= x < nE /\ sharp_edge x).
Proof.
  unfold pass_sharp. rewrite (proj1 (proj2 (gen_skips _))). destruct (o_only_border o).
  - split; [tauto | intros [H|[H _]]; [exact H | discriminate]].
  - rewrite (fold_ext _ (fun acc e => if sharp_cond e then key_add e acc else acc)) by (intros; apply sharp_step_eq).
    rewrite fold_cond_In, In_zrange, sharp_cond_iff. tauto.
Qed.

Lemma pass_border_In feat x : In x (pass_border m o feat) <-> In x feat \/ In x (f_bedges m).
Proof.
  unfold pass_border. rewrite (proj2 (proj2 (gen_skips _))).
  pose proof (fold_cond_In (fun _ => true) (f_bedges m) feat x) as Q. cbv beta iota in Q.
  rewrite Q. tauto.
Qed.

(* what each pass contributes *)
Definition contrib (p : pass) (x : Z) : Prop :=
  match p with
  | PassHard => o_only_border o = false /\ hard_edge x
  | PassSharp => o_only_border o = false /\ 0 <= x < nE /\ sharp_edge x
  | PassBorder => In x (f_bedges m)
  end.

Lemma run_pass_In feat p x : In x (run_pass 0 m o feat p) <-> In x feat \/ contrib p x.
Proof. destruct p; simpl; [apply pass_hard_In | apply pass_sharp_In | apply pass_border_In]. Qed.

Lemma fold_pass_In ps : forall feat x,
  In x (fold_left (run_pass 0 m o) ps feat) <-> In x feat \/ exists p, In p ps /\ contrib p x.
Proof.
  induction ps as [|p ps IH]; intros feat x; simpl.
  - split; [tauto | intros [H|[p [[] _]]]; exact H].
  - rewrite IH, run_pass_In. split.
    + intros [[H|H]|[q [H1 H2]]]; [now left | right; exists p; tauto | right; exists q; tauto].
    + intros [H|[q [[<-|H1] H2]]]; [tauto | tauto | right; exists q; tauto].
Qed.

(* C15_features: the flagged set *)
Theorem feature_edges_spec x :
  In x (feature_edges m o) <->
    In x (f_bedges m)
    \/ (o_only_border o = false /\ ((0 <= x < nE /\ sharp_edge x) \/ hard_edge x)).
Proof.
  unfold feature_edges, feature_keys. rewrite fold_pass_In. simpl In. split.
  - intros [[]|[p [_ H]]]. destruct p; simpl in H; tauto.
  - intros [H|[H1 [H2|H2]]]; right.
    + exists PassBorder. split; [apply gen_all_passes | exact H].
    + exists PassSharp. split; [apply gen_all_passes | simpl; tauto].
    + exists PassHard. split; [apply gen_all_passes | simpl; tauto].
Qed.

Theorem feature_edges_only_border x : o_only_border o = true -> (In x (feature_edges m o) <-> In x (f_bedges m)).
Proof. intros H. rewrite feature_edges_spec, H. split; [intros [A|[A _]]; [exact A | discriminate] | tauto]. Qed.

Lemma run_pass_NoDup feat p : NoDup feat -> NoDup (run_pass 0 m o feat p).
Proof.
  intros N. destruct p; simpl.
  - unfold pass_hard. destruct (hard_skip (o_only_border o)); [exact N|]. destruct (f_hard m); [|exact N].
    rewrite (fold_ext _ (fun acc e => if hard_cond e then key_add e acc else acc)) by (intros; apply hard_step_eq).
    now apply fold_cond_NoDup.
  - unfold pass_sharp. destruct (sharp_skip (o_only_border o)); [exact N|].
    rewrite (fold_ext _ (fun acc e => if sharp_cond e then key_add e acc else acc)) by (intros; apply sharp_step_eq).
    now apply fold_cond_NoDup.
  - unfold pass_border. destruct (border_skip (o_only_border o)); [exact N|].
    now apply (fold_cond_NoDup (fun _ => true)).
Qed.

Theorem feature_edges_NoDup : NoDup (feature_edges m o).
Proof.
  unfold feature_edges, feature_keys. generalize pass_order. intros ps.
  assert (G : forall feat, NoDup feat -> NoDup (fold_left (run_pass 0 m o) ps feat)).
  { induction ps as [|p ps IH]; intros feat N; simpl; [exact N|]. apply IH. now apply run_pass_NoDup. }
  apply G. constructor.
Qed.

(* ------------------------------------------------------------------ feature vertices *)
Lemma verts_of_gen feat acc v :
  In v (fold_left (fun acc e => let '(a, b) := fedge_at m e in key_add b (key_add a acc)) feat acc)
  <-> In v acc \/ exists e, In e feat /\ (v = fst (fedge_at m e) \/ v = snd (fedge_at m e)).
Proof.
  revert acc. induction feat as [|e t IH]; intros acc; simpl.
  - split; [tauto | intros [H|[e [[] _]]]; exact H].
  - rewrite IH. destruct (fedge_at m e) as [a b] eqn:E. rewrite !key_add_In. split.
    + intros [[->|[->|H]]|[e' [H1 H2]]].
      * right. exists e. rewrite E. simpl. tauto.
      * right. exists e. rewrite E. simpl. tauto.
      * now left.
      * right. exists e'. tauto.
    + intros [H|[e' [[<-|H1] H2]]].
      * tauto.
      * rewrite E in H2. simpl in H2. tauto.
      * right. exists e'. tauto.
Qed.

Theorem feature_vertices_spec v :
  In v (feature_vertices m o) <->
  exists e, In e (feature_edges m o) /\ (v = fst (fedge_at m e) \/ v = snd (fedge_at m e)).
Proof.
  unfold feature_vertices, verts_of. rewrite verts_of_gen. simpl. tauto.
Qed.

Lemma verts_of_NoDup feat : NoDup (verts_of m feat).
Proof.
  unfold verts_of. assert (G : forall acc, NoDup acc ->
    NoDup (fold_left (fun acc e => let '(a, b) := fedge_at m e in key_add b (key_add a acc)) feat acc)).
  { induction feat as [|e t IH]; intros acc H; simpl; [exact H|]. apply IH.
    destruct (fedge_at m e). now repeat apply key_add_NoDup. }
  apply G. constructor.
Qed.

(* ------------------------------------------------------------------ feature degrees *)
Lemma dict_get_set v k x l : dict_get v (dict_set k x l) = if k =? v then Some x else dict_get v l.
Proof.
  induction l as [|[a b] l IH]; simpl.
  - destruct (k =? v); reflexivity.
  - destruct (a =? k) eqn:E1; simpl.
    + apply Z.eqb_eq in E1. subst a. destruct (k =? v); reflexivity.
    + rewrite IH. destruct (a =? v) eqn:E2; [|reflexivity].
      apply Z.eqb_eq in E2. subst a. now rewrite Z.eqb_sym, E1.
Qed.

Definition getd (v : Z) (l : list (Z * Z)) : Z := match dict_get v l with Some x => x | None => 0 end.

Lemma getd_incr v k l : getd v (dict_incr k l) = getd v l + (if k =? v then 1 else 0).
Proof.
  unfold getd, dict_incr. rewrite dict_get_set. destruct (k =? v) eqn:E; [|lia].
  apply Z.eqb_eq in E. subst k. destruct (dict_get v l); lia.
Qed.

(* number of times v is an end of e (0, 1; 2 only for a degenerate edge) *)
Definition ends (v e : Z) : Z :=
  (if fst (fedge_at m e) =? v then 1 else 0) + (if snd (fedge_at m e) =? v then 1 else 0).

Fixpoint total (v : Z) (feat : list Z) : Z :=
  match feat with [] => 0 | e :: t => ends v e + total v t end.

Lemma degrees_gen feat acc v :
  getd v (fold_left (fun acc e => let '(a, b) := fedge_at m e in dict_incr b (dict_incr a acc)) feat acc)
  = getd v acc + total v feat.
Proof.
  revert acc. induction feat as [|e t IH]; intros acc; simpl; [lia|].
  rewrite IH. unfold ends. destruct (fedge_at m e) as [a b]. simpl. rewrite !getd_incr. lia.
Qed.

(* feature_degrees[v] (a sparse int attribute: default 0) is the number of feature edges ending at v *)
Theorem feature_degrees_spec v : getd v (feature_degrees m o) = total v (feature_edges m o).
Proof. unfold feature_degrees, degrees_of. rewrite degrees_gen. reflexivity. Qed.

Lemma dict_incr_keys v k l : dict_get v (dict_incr k l) <> None <-> (v = k \/ dict_get v l <> None).
Proof.
  unfold dict_incr. rewrite dict_get_set. destruct (k =? v) eqn:E.
  - apply Z.eqb_eq in E. subst. split; [now left | discriminate].
  - apply Z.eqb_neq in E. split; [now right | intros [->|H]; [congruence | exact H]].
Qed.

(* the keys of feature_degrees are exactly the feature vertices *)
Lemma degrees_keys_gen feat acc v :
  dict_get v (fold_left (fun acc e => let '(a, b) := fedge_at m e in dict_incr b (dict_incr a acc)) feat acc) <> None
  <-> dict_get v acc <> None \/ exists e, In e feat /\ (v = fst (fedge_at m e) \/ v = snd (fedge_at m e)).
Proof.
  revert acc. induction feat as [|e t IH]; intros acc; simpl.
  - split; [tauto | intros [H|[e [[] _]]]; exact H].
  - rewrite IH. destruct (fedge_at m e) as [a b] eqn:E. rewrite !dict_incr_keys. split.
    + intros [[->|[->|H]]|[e' [H1 H2]]].
      * right. exists e. rewrite E. simpl. tauto.
      * right. exists e. rewrite E. simpl. tauto.
      * now left.
      * right. exists e'. tauto.
    + intros [H|[e' [[<-|H1] H2]]].
      * tauto.
      * rewrite E in H2. simpl in H2. tauto.
      * right. exists e'. tauto.
Qed.

Theorem feature_degrees_keys v :
  dict_get v (feature_degrees m o) <> None <-> In v (feature_vertices m o).
Proof.
  unfold feature_degrees, degrees_of. rewrite degrees_keys_gen, feature_vertices_spec. simpl. split.
  - intros [H|H]; [congruence | exact H].
  - now right.
Qed.

(* ------------------------------------------------------------------ local feature edges *)
Lemma local_of_spec feat l : forall i j,
  In j (local_of feat l i) <-> exists k e, j = i + Z.of_nat k /\ nth_error l k = Some (Some e) /\ In e feat.
Proof.
  induction l as [|oe t IH]; intros i j; simpl.
  - split; [tauto | intros [k [e [_ [H _]]]]; destruct k; discriminate].
  - assert (R : In j (local_of feat t (i + 1)) <->
                exists k e, j = i + Z.of_nat (S k) /\ nth_error t k = Some (Some e) /\ In e feat).
    { rewrite IH. split; intros [k [e [H1 H2]]]; exists k, e; (split; [lia | exact H2]). }
    destruct (is_feat feat oe) eqn:F.
    + simpl. rewrite R. split.
      * intros [<-|[k [e [H1 H2]]]].
        -- destruct oe as [e|]; [|discriminate]. exists 0%nat, e. simpl in *.
           split; [lia|]. split; [reflexivity | now apply memz_In].
        -- exists (S k), e. simpl. tauto.
      * intros [[|k] [e [H1 [H2 H3]]]].
        -- left. lia.
        -- right. exists k, e. simpl in H2. tauto.
    + rewrite R. split.
      * intros [k [e [H1 H2]]]. exists (S k), e. simpl. tauto.
      * intros [[|k] [e [H1 [H2 H3]]]].
        -- simpl in H2. inversion H2; subst oe. simpl in F. apply memz_In in H3. congruence.
        -- exists k, e. simpl in H2. tauto.
Qed.

(* local_feat_edges[v] = the positions in vertex_to_edges(v) that hold a feature edge, in increasing order *)
Theorem local_feat_edges_spec v j :
  In j (local_feat_edges_of m (feature_edges m o) v)
  <-> exists k e, j = Z.of_nat k /\ nth_error (znth (f_v2e m) v []) k = Some (Some e) /\ In e (feature_edges m o).
Proof. unfold local_feat_edges_of. rewrite local_of_spec. simpl. tauto. Qed.

Lemma local_of_sorted feat l : forall i, (forall j, In j (local_of feat l i) -> i <= j) /\ NoDup (local_of feat l i)
  /\ Sorted.StronglySorted Z.lt (local_of feat l i).
Proof.
  induction l as [|oe t IH]; intros i; simpl.
  - repeat split; try constructor. intros j [].
  - destruct (IH (i + 1)) as [A [B C]]. destruct (is_feat feat oe).
    + repeat split.
      * intros j [<-|H]; [lia | specialize (A j H); lia].
      * constructor; [intros H; specialize (A i H); lia | exact B].
      * constructor; [exact C|]. apply Forall_forall. intros j H. specialize (A j H). lia.
    + repeat split; auto. intros j H. specialize (A j H). lia.
Qed.

Theorem local_feat_edges_keys : map fst (local_feat_edges m o) = feature_vertices m o.
Proof.
  unfold local_feat_edges, feature_vertices. rewrite map_map. simpl. apply map_id.
Qed.

(* ------------------------------------------------------------------ degree = number of local feature edges *)
Lemma count_sum_memz x feat : NoDup feat ->
  fold_right (fun e s => (if x =? e then 1 else 0) + s) 0 feat = if memz x feat then 1 else 0.
Proof.
  induction feat as [|a t IH]; intros N; simpl; [reflexivity|].
  inversion N as [|? ? Na Nt]; subst. rewrite (IH Nt). unfold memz in *. simpl.
  destruct (x =? a) eqn:E; simpl.
  - apply Z.eqb_eq in E. subst a. apply memz_false in Na. unfold memz in Na. now rewrite Na.
  - lia.
Qed.

Lemma count_occ_o_sum feat l : NoDup feat ->
  fold_right (fun e s => count_occ_o e l + s) 0 feat = Z.of_nat (length (filter (is_feat feat) l)).
Proof.
  intros N. induction l as [|oe t IH]; simpl.
  - induction feat; simpl; [reflexivity|]. inversion N; subst. now rewrite IHfeat.
  - destruct oe as [x|].
    + assert (S : fold_right (fun e s => count_occ_o e (Some x :: t) + s) 0 feat
                  = fold_right (fun e s => (if x =? e then 1 else 0) + s) 0 feat
                    + fold_right (fun e s => count_occ_o e t + s) 0 feat).
      { clear. induction feat as [|a f IHf]; [reflexivity|]. cbn [fold_right]. rewrite IHf. cbn [count_occ_o]. lia. }
      simpl count_occ_o in S. rewrite S, IH, (count_sum_memz x feat N). simpl is_feat.
      destruct (memz x feat); simpl length; lia.
    + simpl is_feat. exact IH.
Qed.

Lemma local_of_length feat l i : length (local_of feat l i) = length (filter (is_feat feat) l).
Proof.
  revert i. induction l as [|oe t IH]; intros i; simpl; [reflexivity|].
  destruct (is_feat feat oe); simpl; now rewrite IH.
Qed.

Lemma wf_f_edge e : wf_f m = true -> 0 <= e < nE -> fst (fedge_at m e) < snd (fedge_at m e).
Proof.
  unfold wf_f. rewrite !andb_true_iff. intros [[[[[[_ _] H] _] _] _] _] He.
  rewrite forallb_forall in H. specialize (H e (proj2 (In_zrange _ _) He)). unfold wf_edge_f in H.
  destruct (fedge_at m e) as [a b]. rewrite !andb_true_iff in H. simpl. lia.
Qed.

Lemma wf_f_v2e v e : wf_f m = true -> 0 <= v < f_nV m -> 0 <= e < nE ->
  count_occ_o e (znth (f_v2e m) v []) = ends v e.
Proof.
  intros Wf Hv He. pose proof (wf_f_edge e Wf He) as Lt.
  unfold wf_f in Wf. rewrite !andb_true_iff in Wf. destruct Wf as [[_ H] _].
  rewrite forallb_forall in H. specialize (H v (proj2 (In_zrange _ _) Hv)). unfold wf_v2e in H.
  rewrite forallb_forall in H. specialize (H e (proj2 (In_zrange _ _) He)).
  unfold ends. destruct (fedge_at m e) as [a b]. simpl in *. apply Z.eqb_eq in H. rewrite H.
  destruct (a =? v) eqn:E1, (b =? v) eqn:E2; simpl; lia.
Qed.

(* the facts the theorems below need about the tables, as a Prop: implied by the boolean wf_f (evaluated per case) and
   PROVED for the tables of C01's model on every oriented manifold surface (BridgeFeat.v) *)
Record wfF : Prop := mkWfF {
  wfF_edge   : forall e, 0 <= e < nE -> fst (fedge_at m e) < snd (fedge_at m e);
  wfF_border : forall e, 0 <= e < nE -> (In e (f_bedges m) <-> e_on_border m e = true);
  wfF_brange : forall e, In e (f_bedges m) -> 0 <= e < nE;
  wfF_hrange : forall l e, f_hard m = Some l -> In e l -> 0 <= e < nE;
  wfF_v2e    : forall v e, 0 <= v < f_nV m -> 0 <= e < nE -> count_occ_o e (znth (f_v2e m) v []) = ends v e
}.

Lemma wf_f_wfF : wf_f m = true -> wfF.
Proof.
  intros Wf. constructor.
  - intros e He. now apply wf_f_edge.
  - intros e He. unfold wf_f in Wf. rewrite !andb_true_iff in Wf. destruct Wf as [[[[[[_ _] H] _] _] _] _].
    rewrite forallb_forall in H. specialize (H e (proj2 (In_zrange _ _) He)). unfold wf_edge_f in H.
    destruct (fedge_at m e) as [a b]. rewrite !andb_true_iff in H. destruct H as [_ H].
    apply Bool.eqb_prop in H. now rewrite <- memz_In, H.
  - intros e He. unfold wf_f in Wf. rewrite !andb_true_iff in Wf. destruct Wf as [[[[[[_ _] _] Hb] _] _] _].
    rewrite forallb_forall in Hb. specialize (Hb e He). lia.
  - intros l e El He. unfold wf_f in Wf. rewrite !andb_true_iff in Wf. destruct Wf as [[[[[[_ _] _] _] Hh] _] _].
    rewrite forallb_forall in Hh. rewrite El in Hh. specialize (Hh e He). lia.
  - intros v e Hv He. now apply wf_f_v2e.
Qed.

(* consistency of the two per-vertex containers: on well-formed tables the feature degree of a vertex is the
   number of its local feature-edge indices *)
Theorem degree_is_local_count v :
  wfF -> 0 <= v < f_nV m -> (forall e, In e (feature_edges m o) -> 0 <= e < nE) ->
  getd v (feature_degrees m o) = Z.of_nat (length (local_feat_edges_of m (feature_edges m o) v)).
Proof.
  intros Wf Hv Hr. rewrite feature_degrees_spec. unfold local_feat_edges_of. rewrite local_of_length.
  rewrite <- (count_occ_o_sum _ _ feature_edges_NoDup).
  generalize (feature_edges m o) Hr. intros feat. induction feat as [|e t IH]; intros Hr'; simpl; [reflexivity|].
  rewrite IH by (intros x Hx; apply Hr'; now right).
  rewrite (wfF_v2e Wf); [reflexivity | exact Hv | apply Hr'; now left].
Qed.

(* on well-formed tables every flagged edge is an edge of the mesh *)
Lemma feature_edges_range : wfF -> forall e, In e (feature_edges m o) -> 0 <= e < nE.
Proof.
  intros Wf e He. apply feature_edges_spec in He.
  destruct He as [He|[_ [[He _]|[l [d [E1 [E2 _]]]]]]].
  - now apply (wfF_brange Wf).
  - exact He.
  - now apply (wfF_hrange Wf l).
Qed.

(* border / interior reading of the sources on well-formed tables *)
Lemma wf_f_border e : wfF -> 0 <= e < nE -> (In e (f_bedges m) <-> dot_of e = None).
Proof.
  intros Wf He. rewrite (wfF_border Wf e He). unfold e_on_border, dot_of.
  destruct (e2f_at m e) as [[t1|] [t2|]]; split; congruence.
Qed.

(* ------------------------------------------------------------------ corners *)
Theorem corners_spec :
  (o_flag_corners o = false -> corners m o = None)
  /\ (o_flag_corners o = true ->
      exists l, corners m o = Some l /\ map fst l = feature_vertices m o
                /\ forall v c, In (v, c) l -> c = corner_of (half_at m v) (o_corner_order o)).
Proof.
  unfold corners. split; intros H; rewrite H; [reflexivity|].
  eexists. split; [reflexivity|]. split.
  - rewrite map_map. simpl. apply map_id.
  - intros v c Hc. apply in_map_iff in Hc as [x [E _]]. now inversion E.
Qed.

End Features.

(* ------------------------------------------------------------------ the corner value *)
Lemma round_half_even_close q : (Qabs (inject_Z (round_half_even q) - q) <= 1 # 2)%Q.
Proof.
  unfold round_half_even. pose proof (Qfloor_le q) as L. pose proof (Qlt_floor q) as U.
  rewrite inject_Z_plus in U. change (inject_Z 1) with 1%Q in U. set (f := Qfloor q) in *.
  assert (P1 : (inject_Z (f + 1) == inject_Z f + 1)%Q) by (rewrite inject_Z_plus; reflexivity).
  apply Qabs_Qle_condition.
  destruct (Qltb (q - inject_Z f) (1 # 2)) eqn:A.
  - apply Qltb_lt in A. split; lra.
  - destruct (Qltb (1 # 2) (q - inject_Z f)) eqn:C.
    + apply Qltb_lt in C. rewrite P1. split; lra.
    + assert (A' : ~ (q - inject_Z f < 1 # 2)%Q) by (intros X; apply Qltb_lt in X; congruence).
      assert (C' : ~ (1 # 2 < q - inject_Z f)%Q) by (intros X; apply Qltb_lt in X; congruence).
      apply Qnot_lt_le in A', C'.
      destruct (Z.even f); [|rewrite P1]; split; lra.
Qed.

(* with h = (sum of the corner angles at v) / pi and k = corner_order > 0:
   |angle| < 2 pi / k  ->  +-1 by the sign;  otherwise the nearest integer to angle * k / (2 pi) = h k / 2 *)
Theorem corner_of_spec h k :
  ((Qabs h < 2 / inject_Z k)%Q -> corner_of h k = if Qle_bool 0 h then 1 else -1)
  /\ (~ (Qabs h < 2 / inject_Z k)%Q -> (Qabs (inject_Z (corner_of h k) - h * inject_Z k / 2) <= 1 # 2)%Q).
Proof.
  unfold corner_of, corner_small, corner_small_value, corner_value.
  assert (T : ((2 # 1) * (1 # 1) / inject_Z k == 2 / inject_Z k)%Q) by (apply Qdiv_comp; reflexivity).
  split; intros H.
  - assert (Q : Qltb (Qabs h) ((2 # 1) * (1 # 1) / inject_Z k) = true) by (apply Qltb_lt; now rewrite T).
    rewrite Q. reflexivity.
  - destruct (Qltb (Qabs h) ((2 # 1) * (1 # 1) / inject_Z k)) eqn:Q.
    + apply Qltb_lt in Q. rewrite T in Q. contradiction.
    + assert (E : (h * inject_Z k / ((2 # 1) * (1 # 1)) == h * inject_Z k / 2)%Q) by (apply Qdiv_comp; reflexivity).
      pose proof (round_half_even_close (h * inject_Z k / ((2 # 1) * (1 # 1)))) as R.
      now rewrite E in R at 2.
Qed.
