(* C15 - extract_border_cycle on well-formed tables: the walk always leaves through entry 0 of the sorted
   neighbourhood, so it is the orbit of the border-predecessor function; it closes before the fuel |V| runs out. *)
From Coq Require Import ZArith List Bool Lia Relations.
Import ListNotations.
Require Import MV.Lib.Base MV.C15.Model MV.C15.ProofsBase MV.C15.GenFacts.
Local Open Scope Z_scope.

(* ------------------------------------------------------------------ generic list facts *)
Lemma NoDup_snoc {A} (l : list A) x : NoDup l -> ~ In x l -> NoDup (l ++ [x]).
Proof.
  intros H N. rewrite <- (rev_involutive (l ++ [x])). apply NoDup_rev. rewrite rev_app_distr. simpl.
  constructor; [rewrite <- in_rev; exact N | now apply NoDup_rev].
Qed.

Lemma NoDup_app_intro {A} (l m : list A) :
  NoDup l -> NoDup m -> (forall x, In x l -> In x m -> False) -> NoDup (l ++ m).
Proof.
  intros Hl Hm D. induction Hl as [|a l N Hl IH]; simpl; [exact Hm|].
  constructor.
  - intros I. apply in_app_iff in I as [I|I]; [now apply N | apply (D a); [now left | exact I]].
  - apply IH. intros x Hx. apply D. now right.
Qed.

Lemma NoDup_app_inv {A} (l m : list A) :
  NoDup (l ++ m) -> NoDup l /\ NoDup m /\ (forall x, In x l -> In x m -> False).
Proof.
  induction l as [|a l IH]; simpl; intros H.
  - split; [constructor|]. split; [exact H|]. intros x [].
  - inversion H as [|? ? N H']; subst. destruct (IH H') as [A1 [A2 A3]].
    split; [constructor; [intros I; apply N; apply in_app_iff; now left | exact A1]|].
    split; [exact A2|]. intros x [<-|Hx] Hm; [apply N; apply in_app_iff; now right | now apply (A3 x)].
Qed.

Lemma last_snoc {A} (l : list A) x d : last (l ++ [x]) d = x.
Proof. apply last_last. Qed.

Lemma hd_app {A} (l m : list A) d : l <> [] -> hd d (l ++ m) = hd d l.
Proof. destruct l; [congruence | reflexivity]. Qed.

Lemma last_In {A} (l : list A) d : l <> [] -> In (last l d) l.
Proof.
  induction l as [|x t IH]; [congruence|]. intros _. destruct t as [|y t]; [now left|].
  right. apply IH. discriminate.
Qed.

Lemma NoDup_last_removelast {A} (l : list A) d : NoDup l -> l <> [] -> ~ In (last l d) (removelast l).
Proof.
  intros H N. rewrite (app_removelast_last d N) in H at 1.
  apply NoDup_remove_2 in H. now rewrite app_nil_r in H.
Qed.

Lemma map_NoDup_in {A C} (f : A -> C) l :
  (forall x y, In x l -> In y l -> f x = f y -> x = y) -> NoDup l -> NoDup (map f l).
Proof.
  intros Inj H. induction H as [|a l N H IH]; simpl; constructor.
  - intros I. apply in_map_iff in I as [y [E Hy]]. apply N.
    rewrite (Inj a y); [exact Hy | now left | now right | now symmetry].
  - apply IH. intros x y Hx Hy. apply Inj; now right.
Qed.

Lemma last_cons2 {A} (x y : A) l d : last (x :: y :: l) d = last (y :: l) d.
Proof. reflexivity. Qed.

Section Cycle.
Variable s : surf.
Hypothesis W : wf s.

Notation B := (s_bverts s).

(* consecutive elements are related by the border-predecessor function *)
Inductive chain : list Z -> Prop :=
| chain_one x : chain [x]
| chain_cons x y l : y = bpred s x -> chain (y :: l) -> chain (x :: y :: l).

Lemma chain_nonnil l : chain l -> l <> [].
Proof. intros H; inversion H; discriminate. Qed.

Lemma chain_snoc l x : chain l -> x = bpred s (last l 0) -> chain (l ++ [x]).
Proof.
  intros H. induction H as [a | a b l E H IH]; intros Hx.
  - simpl in *. constructor; [exact Hx | constructor].
  - simpl app. constructor; [exact E|]. apply IH. exact Hx.
Qed.

Lemma chain_mem l : chain l -> forall x, In x l -> x <> hd 0 l ->
  exists y, In y (removelast l) /\ x = bpred s y.
Proof.
  intros H. induction H as [a | a b l E H IH]; intros x Hx Hn.
  - simpl in *. destruct Hx as [Hx|[]]. congruence.
  - simpl hd in Hn. destruct Hx as [Hx|Hx]; [congruence|].
    destruct (Z.eq_dec x b) as [->|Nb].
    + exists a. split; [now left | exact E].
    + destruct (IH x Hx) as [y [Hy Ey]]; [simpl; exact Nb|].
      exists y. split; [|exact Ey]. change (removelast (a :: b :: l)) with (a :: removelast (b :: l)). now right.
Qed.

Lemma chain_app_inv l m : chain (l ++ m) -> l <> [] -> chain l.
Proof.
  revert m. induction l as [|a l IH]; intros m H N; [congruence|].
  destruct l as [|b l]; [constructor|].
  simpl in H. inversion H; subst. constructor; [reflexivity|]. apply (IH m); [assumption | discriminate].
Qed.

(* ------------------------------------------------------------------ one step of the walk *)
Lemma vtv_hd v : In v B -> exists t, vtv_at s v = bpred s v :: t.
Proof.
  intros Hv. pose proof (wf_nonnil s W v Hv) as N. unfold bpred.
  destruct (vtv_at s v) as [|z t]; [congruence|]. now exists t.
Qed.

(* the `for v in vertex_to_vertices(point2)` scan stops at entry 0: the test `v != point1` never matters *)
Lemma next_border_step p2 : In p2 B -> next_border s (bsucc s p2) p2 = Some (bpred s p2).
Proof.
  intros Hp. unfold next_border. rewrite gen_scan. destruct (vtv_hd p2 Hp) as [t E]. rewrite E. simpl find.
  assert (A : cyc_accept (isb_at s (bpred s p2)) (bpred s p2) (bsucc s p2) p2 = true).
  { apply gen_accept. split.
    - apply (wf_isb s W). now apply (wf_pred_in s W).
    - now apply (wf_neq s W). }
  now rewrite A.
Qed.

Lemma walk_unfold start maxv f nvis p1 p2 :
  walk s start maxv f nvis p1 p2 =
  if cyc_continue p2 start nvis maxv then
    match f with
    | O => None
    | S f' =>
        let '(q1, q2) := match next_border s p1 p2 with
                         | Some w => cyc_move p1 p2 w
                         | None => (p1, p2)
                         end in
        match walk s start maxv f' (cyc_nvisited_step nvis) q1 q2 with
        | Some (vs, es, fin) => Some (cyc_emit_v p1 p2 :: vs, edge_id s (cyc_emit_e p1 p2) :: es, fin)
        | None => None
        end
    end
  else Some ([], [], (p1, p2)).
Proof. destruct f; reflexivity. Qed.

Lemma walk_fresh start seen p1 :
  chain seen -> hd 0 seen = start -> last seen 0 = p1 -> NoDup seen -> incl seen B ->
  bpred s p1 <> start ->
  ~ In (bpred s p1) seen /\ Z.of_nat (length seen) + 1 <= s_nV s.
Proof.
  intros Hc Hh Hl Hn Hi E. pose proof (chain_nonnil _ Hc) as NN.
  assert (P1 : In p1 B) by (apply Hi; rewrite <- Hl; now apply last_In).
  assert (P2 : In (bpred s p1) B) by now apply (wf_pred_in s W).
  assert (NI : ~ In (bpred s p1) seen).
  { intros I. destruct (chain_mem _ Hc _ I) as [y [Hy Ey]]; [congruence|].
    assert (y = p1).
    { apply (bpred_inj s W); [|exact P1 | now symmetry].
      apply Hi. revert Hy. clear. induction seen as [|a [|b t] IHt]; simpl; intuition. }
    subst y. rewrite <- Hl in Hy. now apply (NoDup_last_removelast seen 0 Hn NN). }
  split; [exact NI|].
  assert (ND : NoDup (seen ++ [bpred s p1])) by now apply NoDup_snoc.
  assert (IN : incl (seen ++ [bpred s p1]) B) by (intros z Hz; apply in_app_iff in Hz as [Hz|[<-|[]]]; auto).
  pose proof (NoDup_incl_length ND IN) as LEN. rewrite app_length in LEN. simpl in LEN.
  pose proof (bverts_length s W) as BL. lia.
Qed.

Lemma walk_spec start : In start B ->
  forall f seen p1 nvis,
    chain seen -> hd 0 seen = start -> last seen 0 = p1 -> NoDup seen -> incl seen B ->
    nvis = Z.of_nat (length seen) - 1 ->
    Z.of_nat f + Z.of_nat (length seen) >= s_nV s + 2 ->
    exists vs q1,
      walk s start (s_nV s) f nvis p1 (bpred s p1)
        = Some (vs, map (fun v => edge_id s (bsucc s v, v)) vs, (q1, start))
      /\ chain (seen ++ vs) /\ NoDup (seen ++ vs) /\ incl (seen ++ vs) B
      /\ q1 = last (seen ++ vs) 0 /\ bpred s q1 = start.
Proof.
  intros Hs. induction f as [|f IH]; intros seen p1 nvis Hc Hh Hl Hn Hi Hv Hf.
  all: pose proof (chain_nonnil _ Hc) as NN.
  all: assert (P1 : In p1 B) by (apply Hi; rewrite <- Hl; now apply last_In).
  all: assert (P2 : In (bpred s p1) B) by now apply (wf_pred_in s W).
  all: rewrite walk_unfold.
  all: destruct (cyc_continue (bpred s p1) start nvis (s_nV s)) eqn:CC.
  - apply gen_continue in CC as [Ne Lt]. destruct (walk_fresh start seen p1 Hc Hh Hl Hn Hi Ne) as [_ LEN]. lia.
  - assert (E : bpred s p1 = start).
    { destruct (Z.eq_dec (bpred s p1) start) as [E|E]; [exact E|]. exfalso.
      destruct (walk_fresh start seen p1 Hc Hh Hl Hn Hi E) as [_ LEN].
      assert (T : cyc_continue (bpred s p1) start nvis (s_nV s) = true) by (apply gen_continue; split; [exact E | lia]).
      congruence. }
    rewrite E. exists [], p1. rewrite !app_nil_r. simpl. repeat split; auto.
  - apply gen_continue in CC as [Ne Lt]. destruct (walk_fresh start seen p1 Hc Hh Hl Hn Hi Ne) as [NI LEN].
    assert (NB : next_border s p1 (bpred s p1) = Some (bpred s (bpred s p1))).
    { pose proof (next_border_step _ P2) as Q. rewrite (wf_sp s W p1 P1) in Q. exact Q. }
    rewrite NB, gen_move, gen_step, gen_emit_v, gen_emit_e.
    destruct (IH (seen ++ [bpred s p1]) (bpred s p1) (nvis + 1)) as [vs [q1 [Hw [C1 [C2 [C3 [C4 C5]]]]]]].
    + now apply chain_snoc; [|rewrite Hl].
    + now rewrite hd_app.
    + apply last_snoc.
    + now apply NoDup_snoc.
    + intros z Hz. apply in_app_iff in Hz as [Hz|[<-|[]]]; auto.
    + rewrite app_length. simpl. lia.
    + rewrite app_length. simpl. lia.
    + rewrite Hw. exists (bpred s p1 :: vs), q1.
      rewrite <- app_assoc in C1, C2, C3, C4. simpl in C1, C2, C3, C4.
      repeat split; auto.
      simpl. now rewrite (wf_sp s W p1 P1).
  - assert (E : bpred s p1 = start).
    { destruct (Z.eq_dec (bpred s p1) start) as [E|E]; [exact E|]. exfalso.
      destruct (walk_fresh start seen p1 Hc Hh Hl Hn Hi E) as [_ LEN].
      assert (T : cyc_continue (bpred s p1) start nvis (s_nV s) = true) by (apply gen_continue; split; [exact E | lia]).
      congruence. }
    rewrite E. exists [], p1. rewrite !app_nil_r. simpl. repeat split; auto.
Qed.

(* edges emitted along the walk, re-read as: the edge from each vertex to its border predecessor *)
Lemma edges_along x vs : chain (x :: vs) -> incl (x :: vs) B ->
  map (fun v => edge_id s (bsucc s v, v)) vs
    ++ [edge_id s (last (x :: vs) 0, bpred s (last (x :: vs) 0))]
  = map (fun v => edge_id s (v, bpred s v)) (x :: vs).
Proof.
  revert x. induction vs as [|y t IH]; intros x Hc Hi; [reflexivity|].
  inversion Hc as [|a b l E Hc']; subst.
  assert (Hx : In x B) by (apply Hi; now left).
  rewrite last_cons2. cbn [map app]. rewrite (IH (bpred s x)); [|exact Hc' | intros z Hz; apply Hi; now right].
  cbn [map]. now rewrite (wf_sp s W x Hx).
Qed.

(* ------------------------------------------------------------------ the result of extract_border_cycle *)
Definition is_cycle (start : Z) (vb : list Z) (eb : list (option Z)) : Prop :=
  hd 0 vb = start /\ chain vb /\ bpred s (last vb 0) = start /\ NoDup vb /\ incl vb B
  /\ eb = map (fun v => edge_id s (v, bpred s v)) vb.

Lemma cycle_ok start : In start B ->
  exists vb eb, extract_border_cycle s (Some start) = Outcome (CycOk vb eb) /\ is_cycle start vb eb.
Proof.
  intros Hs. unfold extract_border_cycle.
  assert (L : (0 < length B)%nat) by (destruct B; [destruct Hs | simpl; lia]).
  destruct (cyc_no_border (Z.of_nat (length B))) eqn:E0; [apply gen_no_border in E0; lia|].
  rewrite gen_reject, (proj1 (wf_isb s W start) Hs). simpl negb. cbv iota.
  destruct (vtv_hd start Hs) as [t Et]. rewrite gen_first_index. unfold nth_z. simpl Z.ltb. cbv iota.
  rewrite Et. simpl nth_error. rewrite gen_max_visited, gen_nvisited0.
  destruct (walk_spec start Hs (S (Z.to_nat (s_nV s - 0))) [start] start 0) as [vs [q1 [Hw [C1 [C2 [C3 [C4 C5]]]]]]].
  - constructor.
  - reflexivity.
  - reflexivity.
  - constructor; [intros []| constructor].
  - intros z [<-|[]]. exact Hs.
  - reflexivity.
  - pose proof (wf_nV s W). simpl length. lia.
  - change (0 <? 0) with false. cbv iota. rewrite Hw. exists (start :: vs). eexists. split; [reflexivity|].
    simpl app in *. unfold is_cycle. repeat split; auto.
    + now rewrite <- C4.
    + rewrite gen_last_e. rewrite <- (edges_along start vs C1 C3). rewrite <- C4. now rewrite C5.
Qed.

(* the other outcomes *)
Lemma cycle_no_border o : B = [] -> extract_border_cycle s o = Outcome CycEmpty.
Proof.
  intros E. unfold extract_border_cycle. rewrite E.
  assert (T : cyc_no_border (Z.of_nat (length (@nil Z))) = true) by now apply gen_no_border.
  now rewrite T.
Qed.

Lemma cycle_not_on_border start : B <> [] -> ~ In start B ->
  extract_border_cycle s (Some start) = Outcome CycNotOnBorder.
Proof.
  intros N H. unfold extract_border_cycle.
  destruct (cyc_no_border (Z.of_nat (length B))) eqn:E0.
  - apply gen_no_border in E0. destruct B; [congruence | simpl in E0; lia].
  - rewrite gen_reject. destruct (isb_at s start) eqn:I; [|reflexivity].
    exfalso. apply H. now apply (wf_isb s W).
Qed.

Lemma cycle_default : B <> [] ->
  extract_border_cycle s None = extract_border_cycle s (Some (hd 0 B)).
Proof.
  intros N. unfold extract_border_cycle. rewrite gen_default_index. unfold nth_z. simpl Z.ltb. cbv iota.
  destruct B as [|b t]; [congruence|]. reflexivity.
Qed.

(* ------------------------------------------------------------------ a cycle is closed under pred and succ *)
Lemma chain_next l : chain l -> forall x, In x l -> x = last l 0 \/ In (bpred s x) l.
Proof.
  intros H. induction H as [a | a b l E H IH]; intros x Hx.
  - destruct Hx as [<-|[]]. now left.
  - destruct Hx as [<-|Hx].
    + right. right. left. now symmetry.
    + destruct (IH x Hx) as [L|R]; [left; now rewrite last_cons2 | right; now right].
Qed.

Lemma cycle_closed_pred start vb eb : is_cycle start vb eb -> forall x, In x vb -> In (bpred s x) vb.
Proof.
  intros [H1 [H2 [H3 [H4 [H5 H6]]]]] x Hx.
  destruct (chain_next vb H2 x Hx) as [L|R]; [|exact R].
  subst x. rewrite H3, <- H1. pose proof (chain_nonnil _ H2). destruct vb; [congruence | now left].
Qed.

Lemma cycle_closed_succ start vb eb : is_cycle start vb eb -> forall x, In x vb -> In (bsucc s x) vb.
Proof.
  intros C x Hx. pose proof C as [H1 [H2 [H3 [H4 [H5 H6]]]]].
  pose proof (chain_nonnil _ H2) as NN.
  destruct (Z.eq_dec x (hd 0 vb)) as [E|E].
  - rewrite E, H1, <- H3. rewrite (wf_sp s W); [now apply last_In | apply H5; now apply last_In].
  - destruct (chain_mem vb H2 x Hx E) as [y [Hy ->]].
    assert (Iy : In y vb).
    { revert Hy. clear. induction vb as [|a [|b t] IHt]; simpl; intuition. }
    rewrite (wf_sp s W); [exact Iy | now apply H5].
Qed.

(* ------------------------------------------------------------------ the border graph *)
(* u and v are joined by a border EDGE of the mesh *)
Definition badj (u v : Z) : Prop :=
  exists e a b, In e (s_bedges s) /\ edge_at s e = Some (a, b) /\ ((a = u /\ b = v) \/ (a = v /\ b = u)).

Lemma badj_sym u v : badj u v -> badj v u.
Proof. intros [e [a [b [H1 [H2 H3]]]]]. exists e, a, b. tauto. Qed.

Lemma badj_pred_succ u v : badj u v -> In u B /\ In v B /\ (v = bpred s u \/ v = bsucc s u).
Proof.
  intros [e [a [b [H1 [H2 H3]]]]].
  destruct (wf_bedge_ s W e H1) as [a' [b' [E1 [E2 [E3 [E4 [E5 E6]]]]]]].
  rewrite H2 in E1. inversion E1; subst a' b'.
  destruct H3 as [[-> ->]|[-> ->]]; (split; [assumption|split; [assumption|]]).
  - destruct E6 as [E6|E6]; [left; now symmetry | right; rewrite <- E6; symmetry; now apply (wf_sp s W)].
  - destruct E6 as [E6|E6]; [right; rewrite <- E6; symmetry; now apply (wf_sp s W) | left; now symmetry].
Qed.

Lemma pred_badj v : In v B ->
  exists e, edge_id s (v, bpred s v) = Some e /\ In e (s_bedges s) /\ badj v (bpred s v).
Proof.
  intros Hv. destruct (wf_edge s W v Hv) as [e [E1 E2]]. exists e. split; [exact E1|]. split; [exact E2|].
  destruct (edge_id_spec s _ _ _ E1) as [a [b [Ha Hk]]].
  destruct (wf_bedge_ s W e E2) as [a' [b' [F1 [F2 _]]]]. rewrite Ha in F1. inversion F1; subst a' b'.
  exists e, a, b. split; [exact E2|]. split; [exact Ha|].
  apply keyify2_eq in Hk. tauto.
Qed.

(* connected in the border graph *)
Definition bconn : Z -> Z -> Prop := clos_refl_sym_trans Z badj.

Lemma cycle_closed_conn start vb eb : is_cycle start vb eb -> forall x y, bconn x y -> (In x vb <-> In y vb).
Proof.
  intros C x y H. induction H as [x y H | x | x y H IH | x y z H1 IH1 H2 IH2].
  - apply badj_pred_succ in H as [Hx [Hy [->| ->]]]; split; intros I.
    + now apply (cycle_closed_pred start vb eb).
    + rewrite <- (wf_sp s W x Hx). now apply (cycle_closed_succ start vb eb).
    + now apply (cycle_closed_succ start vb eb).
    + rewrite <- (wf_ps s W x Hx). now apply (cycle_closed_pred start vb eb).
  - tauto.
  - tauto.
  - tauto.
Qed.

Lemma chain_conn l : chain l -> incl l B -> forall x, In x l -> bconn (hd 0 l) x.
Proof.
  intros H. induction H as [a | a b l E H IH]; intros Hi x Hx.
  - destruct Hx as [<-|[]]. apply rst_refl.
  - destruct Hx as [<-|Hx]; [apply rst_refl|].
    apply rst_trans with b.
    + apply rst_step. subst b. simpl hd. destruct (pred_badj a) as [e [_ [_ Hb]]]; [apply Hi; now left | exact Hb].
    + apply IH; [intros z Hz; apply Hi; now right | exact Hx].
Qed.

(* the walk visits exactly the vertices of the border loop (connected component of the border graph) of its start *)
Lemma cycle_is_loop start vb eb : is_cycle start vb eb -> forall v, In v vb <-> bconn start v.
Proof.
  intros C v. pose proof C as [H1 [H2 [H3 [H4 [H5 H6]]]]]. split.
  - intros Hv. rewrite <- H1. now apply chain_conn.
  - intros Hc. apply (cycle_closed_conn start vb eb C start v Hc).
    rewrite <- H1. pose proof (chain_nonnil _ H2). destruct vb; [congruence | now left].
Qed.

Lemma chain_nth l start : chain l -> bpred s (last l 0) = start ->
  forall i, (i < length l)%nat -> nth (S i) (l ++ [start]) 0 = bpred s (nth i l 0).
Proof.
  intros H. induction H as [a | a b l E H IH]; intros H3 i Hi.
  - simpl in Hi. assert (i = 0)%nat by lia. subst i. simpl in *. now symmetry.
  - destruct i as [|i]; [simpl; exact E|].
    rewrite last_cons2 in H3. specialize (IH H3 i). simpl in IH, Hi |- *. apply IH. lia.
Qed.

(* every step of the walk is a border edge, reported with its id; no border edge twice *)
Lemma cycle_edges start vb eb : is_cycle start vb eb ->
  length eb = length vb
  /\ (forall i, (i < length vb)%nat ->
        exists e, nth i eb None = Some e /\ In e (s_bedges s)
                  /\ badj (nth i vb 0) (nth (S i) (vb ++ [start]) 0)
                  /\ edge_id s (nth i vb 0, nth (S i) (vb ++ [start]) 0) = Some e)
  /\ NoDup eb.
Proof.
  intros C. pose proof C as [H1 [H2 [H3 [H4 [H5 H6]]]]]. subst eb. split; [apply map_length|]. split.
  - intros i Hi. set (x := nth i vb 0).
    assert (Hx : In x vb) by now apply nth_In.
    destruct (pred_badj x (H5 x Hx)) as [e [E1 [E2 E3]]].
    assert (NX : nth (S i) (vb ++ [start]) 0 = bpred s x) by (apply chain_nth; assumption).
    exists e. rewrite NX. repeat split; auto.
    rewrite nth_indep with (d' := (fun v => edge_id s (v, bpred s v)) 0) by (rewrite map_length; exact Hi).
    rewrite (map_nth (fun v => edge_id s (v, bpred s v)) vb 0 i). exact E1.
  - (* distinct vertices give distinct border edges: no 2-cycles *)
    apply map_NoDup_in; [|exact H4].
    intros x y Hx Hy E.
    destruct (pred_badj x (H5 x Hx)) as [e [E1 [E2 _]]].
    rewrite E1 in E. symmetry in E.
    destruct (edge_id_spec s _ _ _ E1) as [a [b [Ha Hk]]].
    destruct (edge_id_spec s _ _ _ E) as [a' [b' [Ha' Hk']]].
    rewrite Ha in Ha'. inversion Ha'; subst a' b'. rewrite Hk in Hk'.
    apply keyify2_eq in Hk' as [[K1 K2]|[K1 K2]]; [exact K1|].
    exfalso. (* x = pred y and pred x = y : then pred x = succ x *)
    apply (wf_neq s W x (H5 x Hx)). rewrite K2. rewrite K1. symmetry. apply (wf_sp s W). now apply H5.
Qed.

(* every border edge with an endpoint on the walk is one of its edges *)
Lemma cycle_edges_complete start vb eb : is_cycle start vb eb ->
  forall e a b, In e (s_bedges s) -> edge_at s e = Some (a, b) -> In a vb \/ In b vb -> In (Some e) eb.
Proof.
  intros C e a b He Ha Hab. pose proof C as [H1 [H2 [H3 [H4 [H5 H6]]]]].
  destruct (wf_bedge_ s W e He) as [a' [b' [E1 [E2 [E3 [E4 [E5 E6]]]]]]].
  rewrite Ha in E1. inversion E1; subst a' b'.
  assert (Iab : In a vb /\ In b vb).
  { assert (bconn a b) by (apply rst_step; exists e, a, b; tauto).
    pose proof (cycle_closed_conn start vb eb C a b H). tauto. }
  subst eb. apply in_map_iff. destruct E6 as [E6|E6].
  - exists a. split; [|tauto]. now rewrite E6.
  - exists b. split; [|tauto]. rewrite E6. now rewrite edge_id_sym.
Qed.

End Cycle.
