(* C15 - the two readings of the feature classification coincide: when the normals table the detector reads holds the
   exact UNIT normals of the faces (the normal direction computed from the vertices divided by its length), the set
   flagged by the detector model (Feat.v: comparisons of dot products of the table entries) is the geometric
   classification of FeatGeo.v (angle between the adjacent faces' unit normals above 60 degrees / acos(4/5)).
   Exact unit normals in Q exist when the lengths are rational; the binary64 normals of the implementation are only
   close to them, which is why the implementation is compared with the geometric classification through a band. *)
From Coq Require Import ZArith List Bool QArith Lqa Lia.
Import ListNotations.
Require Import MV.Lib.Base MV.C15.Model MV.C15.GenFacts MV.C15.ProofsBase MV.C15.ProofsFeat MV.C15.ProofsGeo.
Local Open Scope Z_scope.

Lemma core_ineq (x t P : Q) : (0 < P)%Q -> (0 <= t)%Q ->
  ((x * P < 0 \/ (x * P) * (x * P) < t * t * (P * P)) <-> x < t)%Q.
Proof.
  intros HP Ht. split.
  - intros [H|H].
    + assert (x < 0)%Q by nra. lra.
    + destruct (Qlt_le_dec x t) as [L|G]; [exact L|]. exfalso.
      assert (0 <= x)%Q by lra. assert (t * P <= x * P)%Q by nra. assert (0 <= t * P)%Q by nra.
      assert ((t * P) * (t * P) <= (x * P) * (x * P))%Q by nra. nra.
  - intros H. destruct (Qlt_le_dec (x * P) 0) as [L|G]; [now left|]. right.
    assert (x * P < t * P)%Q by nra. nra.
Qed.

(* n is c divided by a *)
Definition scaled (n c : Q3) (a : Q) : Prop :=
  let '(n1, n2, n3) := n in let '(c1, c2, c3) := c in (n1 * a == c1 /\ n2 * a == c2 /\ n3 * a == c3)%Q.

(* n is the unit vector of c: c / |c| with |c| = a rational *)
Definition unit_of (n c : Q3) : Prop := exists a, (0 < a)%Q /\ (a * a == dot3 c c)%Q /\ scaled n c a.

Lemma unit_dot_exact c1 c2 n1 n2 t : unit_of n1 c1 -> unit_of n2 c2 -> (0 <= t)%Q ->
  (unit_dot_lt c1 c2 t = true <-> (dot3 n1 n2 < t)%Q).
Proof.
  intros (a & Pa & Ea & S1) (b & Pb & Eb & S2) Ht.
  destruct c1 as [[c11 c12] c13], c2 as [[c21 c22] c23], n1 as [[n11 n12] n13], n2 as [[n21 n22] n23].
  unfold scaled in S1, S2. destruct S1 as (A1 & A2 & A3). destruct S2 as (B1 & B2 & B3).
  unfold unit_dot_lt. rewrite orb_true_iff, !Qltb_lt.
  set (x := dot3 (n11, n12, n13) (n21, n22, n23)).
  assert (Ed : (dot3 (c11, c12, c13) (c21, c22, c23) == x * (a * b))%Q).
  { unfold x, dot3. rewrite <- A1, <- A2, <- A3, <- B1, <- B2, <- B3. ring. }
  assert (EL : (dot3 (c11, c12, c13) (c11, c12, c13) * dot3 (c21, c22, c23) (c21, c22, c23) == (a * b) * (a * b))%Q).
  { rewrite <- Ea, <- Eb. ring. }
  rewrite Ed, EL. apply core_ineq; [nra | exact Ht].
Qed.

Section Link.
  Variable g : gmesh.
  Variable m : fmesh.
  Variable o : fopts.

  (* the detector reads the tables of the mesh g, and its normals table holds the exact unit normals *)
  Record exact_tables : Prop := {
    et_nE    : Z.of_nat (length (f_edges m)) = g_nE g;
    et_e2f   : f_e2f m = g_e2f g;
    et_bed   : f_bedges m = g_bedges g;
    et_hard  : f_hard m = g_hard g;
    et_unit  : forall e f1 f2, e2f_at m e = (Some f1, Some f2) ->
                 unit_of (normal_at m f1) (g_face_cross g f1) /\ unit_of (normal_at m f2) (g_face_cross g f2)
  }.

  Hypothesis ET : exact_tables.
  Hypothesis WF : wfF m.

  Lemma geo_lt_exact e t : (0 <= t)%Q ->
    (geo_lt g e t = Some true <-> exists d, dot_of m e = Some d /\ (d < t)%Q).
  Proof.
    intros Ht. unfold geo_lt, dot_of. rewrite <- (et_e2f ET). fold (e2f_at m e).
    destruct (e2f_at m e) as [[f1|] [f2|]] eqn:E; try (split; [discriminate | intros (d & H & _); discriminate]).
    destruct (et_unit ET e f1 f2 E) as [U1 U2].
    pose proof (unit_dot_exact _ _ _ _ t U1 U2 Ht) as Q. split.
    - intros H. injection H as H'. exists (dot3 (normal_at m f1) (normal_at m f2)). split; [reflexivity | now apply Q].
    - intros (d & Hd & L). inversion Hd; subst d. f_equal. now apply Q.
  Qed.

  (* the detector model on exact unit normals flags exactly the geometric classification *)
  Theorem features_are_geometric e :
    In e (feature_edges m o) <-> In e (geo_feature_edges 0 g (o_only_border o)).
  Proof.
    rewrite (feature_edges_spec m o e), geo_feature_edges_spec.
    assert (TS : (sharp_bound + 0 == 1 # 2)%Q) by reflexivity.
    assert (TH : (hard_bound + 0 == 4 # 5)%Q) by reflexivity.
    assert (PS : (0 <= sharp_bound + 0)%Q) by (rewrite TS; discriminate).
    assert (PH : (0 <= hard_bound + 0)%Q) by (rewrite TH; discriminate).
    rewrite (geo_lt_exact e _ PS), (geo_lt_exact e _ PH).
    rewrite <- (et_nE ET), <- (et_bed ET), <- (et_hard ET).
    unfold sharp_edge, hard_edge. split.
    - intros [B|[O [[R (d & D & L)]|(l & d & Hh & Hi & D & L)]]].
      + split; [now apply (wfF_brange m WF) | now left].
      + split; [exact R|]. right. split; [exact O|]. left. exists d. split; [exact D | now rewrite TS].
      + split; [now apply (wfF_hrange m WF l)|]. right. split; [exact O|]. right.
        split; [now exists l|]. exists d. split; [exact D | now rewrite TH].
    - intros [R [B|[O [(d & D & L)|[(l & Hh & Hi) (d & D & L)]]]]].
      + now left.
      + right. split; [exact O|]. left. split; [exact R|]. exists d. split; [exact D | now rewrite <- TS].
      + right. split; [exact O|]. right. exists l, d. split; [exact Hh|]. split; [exact Hi|]. split; [exact D | now rewrite <- TH].
  Qed.

End Link.

(* non-vacuity: a hinge whose two faces have the normal directions (0,0,5) and (0,3,4), both of length 5: the exact unit
   normals (0,0,1) and (0,3/5,4/5) are rational; cos = 4/5 exactly, so the hard test (strict) does not fire *)
Definition ex_g : gmesh :=
  mkG [(0, 0, 0); (5, 0, 0); (0, 1, 0); (0, - (4 # 5), 3 # 5)]%Q [[0; 1; 2]; [1; 0; 3]]%Z 5
      [(Some 0, Some 1); (Some 0, None); (None, Some 0); (Some 1, None); (None, Some 1)]%Z [1; 2; 3; 4]%Z (Some [0]%Z).
Definition ex_m : fmesh :=
  mkF 4 [(0, 1); (1, 2); (0, 2); (0, 3); (1, 3)]%Z (g_e2f ex_g) (g_bedges ex_g) (g_hard ex_g)
      [(0, 0, 1); (0, 3 # 5, 4 # 5)]%Q [] [].

Example ex_cross : g_face_cross ex_g 0 = g_face_cross ex_g 0 /\ (dot3 (g_face_cross ex_g 0) (g_face_cross ex_g 0) == 25)%Q
                   /\ (dot3 (g_face_cross ex_g 1) (g_face_cross ex_g 1) == 25)%Q.
Proof. split; [reflexivity|]. split; vm_compute; reflexivity. Qed.

Example ex_exact : exact_tables ex_g ex_m.
Proof.
  constructor; try reflexivity.
  intros e f1 f2 H. unfold e2f_at in H.
  assert (U0 : unit_of (normal_at ex_m 0) (g_face_cross ex_g 0)).
  { exists 5%Q. split; [reflexivity|]. split; [vm_compute; reflexivity|]. vm_compute. repeat split. }
  assert (U1 : unit_of (normal_at ex_m 1) (g_face_cross ex_g 1)).
  { exists 5%Q. split; [reflexivity|]. split; [vm_compute; reflexivity|]. vm_compute. repeat split. }
  destruct (Z.eq_dec e 0) as [->|Ne].
  - vm_compute in H. inversion H; subst. split; assumption.
  - exfalso. unfold Base.znth in H. destruct (e <? 0) eqn:Q; [discriminate|].
    assert (C : (Z.to_nat e = 1 \/ Z.to_nat e = 2 \/ Z.to_nat e = 3 \/ Z.to_nat e = 4 \/ Z.to_nat e >= 5)%nat) by lia.
    destruct C as [C|[C|[C|[C|C]]]]; try (rewrite C in H; cbn in H; discriminate).
    rewrite nth_overflow in H by (cbn; lia). discriminate.
Qed.

Example ex_features : feature_edges ex_m (mkO false false 4) = [1; 2; 3; 4]%Z
                      /\ geo_feature_edges 0 ex_g false = [1; 2; 3; 4]%Z.
Proof. split; vm_compute; reflexivity. Qed.
