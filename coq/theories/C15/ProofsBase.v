(* C15 - basic lemmas: boolean helpers, edge_id, and the facts packed in the well-formedness predicate wf_b. *)
From Coq Require Import ZArith List Bool Lia.
Import ListNotations.
Require Import MV.Lib.Base MV.C15.Model.
Local Open Scope Z_scope.

Lemma memz_In x l : memz x l = true <-> In x l.
Proof.
  unfold memz. rewrite existsb_exists. split.
  - intros [y [Hy E]]. apply Z.eqb_eq in E. now subst.
  - intros H. exists x. split; [exact H | apply Z.eqb_refl].
Qed.

Lemma memz_false x l : memz x l = false <-> ~ In x l.
Proof.
  rewrite <- memz_In. destruct (memz x l); split; congruence.
Qed.

Lemma nodupz_NoDup l : nodupz l = true -> NoDup l.
Proof.
  induction l as [|x t IH]; simpl; intros H; constructor.
  - apply andb_true_iff in H as [H _]. apply negb_true_iff in H. now apply memz_false.
  - apply IH. now apply andb_true_iff in H as [_ H].
Qed.

Lemma key_add_In k l x : In x (key_add k l) <-> x = k \/ In x l.
Proof.
  unfold key_add. destruct (memz k l) eqn:E.
  - split; [tauto|]. intros [->|H]; [now apply memz_In | exact H].
  - rewrite in_app_iff. simpl. intuition.
Qed.

Lemma key_add_NoDup k l : NoDup l -> NoDup (key_add k l).
Proof.
  intros H. unfold key_add. destruct (memz k l) eqn:E; [exact H|].
  apply memz_false in E.
  rewrite <- (rev_involutive (l ++ [k])). apply NoDup_rev. rewrite rev_app_distr. simpl.
  constructor; [rewrite <- in_rev; exact E | now apply NoDup_rev].
Qed.

(* ------------------------------------------------------------------ znth / nth_z *)
Lemma znth_In {A} (l : list A) i d : 0 <= i < Z.of_nat (length l) -> In (znth l i d) l.
Proof.
  intros H. unfold znth. destruct (i <? 0) eqn:E; [lia|]. apply nth_In. lia.
Qed.

Lemma znth_default {A} (l : list A) i d : ~ (0 <= i < Z.of_nat (length l)) -> znth l i d = d.
Proof.
  intros H. unfold znth. destruct (i <? 0) eqn:E; [reflexivity|]. apply nth_overflow. lia.
Qed.

(* ------------------------------------------------------------------ keyify2 / pair_eqb *)
Lemma pair_eqb_eq x y : pair_eqb x y = true <-> x = y.
Proof.
  destruct x as [a b], y as [c d]. unfold pair_eqb. simpl. rewrite andb_true_iff, !Z.eqb_eq.
  split; [intros [-> ->]; reflexivity | intros E; inversion E; auto].
Qed.

Lemma keyify2_sym a b : keyify2 a b = keyify2 b a.
Proof. unfold keyify2. destruct (a <=? b) eqn:E1, (b <=? a) eqn:E2; try reflexivity; f_equal; lia. Qed.

Lemma keyify2_sorted a b : a < b -> keyify2 a b = (a, b).
Proof. intros H. unfold keyify2. destruct (a <=? b) eqn:E; [reflexivity | lia]. Qed.

Lemma keyify2_eq a b c d : keyify2 a b = keyify2 c d -> (a = c /\ b = d) \/ (a = d /\ b = c).
Proof.
  unfold keyify2. destruct (a <=? b), (c <=? d); intros E; inversion E; auto.
Qed.

(* ------------------------------------------------------------------ edge_id *)
Lemma edge_find_spec k l : forall i acc e,
  edge_find k l i acc = Some e ->
  (acc = Some e) \/ (i <= e /\ exists x, nth_error l (Z.to_nat (e - i)) = Some x /\ keyify2 (fst x) (snd x) = k).
Proof.
  induction l as [|x t IH]; simpl; intros i acc e H; [now left|].
  apply IH in H. destruct H as [H | [Hle [y [Hy Hk]]]].
  - destruct (pair_eqb (keyify2 (fst x) (snd x)) k) eqn:E.
    + inversion H; subst. right. split; [lia|]. exists x. rewrite Z.sub_diag. simpl.
      split; [reflexivity | now apply pair_eqb_eq].
    + now left.
  - right. split; [lia|]. exists y. split; [|exact Hk].
    replace (Z.to_nat (e - i)) with (S (Z.to_nat (e - (i + 1)))) by lia. exact Hy.
Qed.

Lemma edge_id_spec s u v e :
  edge_id s (u, v) = Some e ->
  exists a b, edge_at s e = Some (a, b) /\ keyify2 a b = keyify2 u v.
Proof.
  unfold edge_id. simpl. intros H. apply edge_find_spec in H. destruct H as [H | [Hle [[a b] [Hx Hk]]]]; [discriminate|].
  exists a, b. split; [|exact Hk]. unfold edge_at. destruct (e <? 0) eqn:E; [lia|].
  now rewrite Z.sub_0_r in Hx.
Qed.

Lemma edge_id_sym s u v : edge_id s (u, v) = edge_id s (v, u).
Proof. unfold edge_id. simpl. now rewrite keyify2_sym. Qed.

(* ------------------------------------------------------------------ the content of wf_b *)
Record wf (s : surf) : Prop := mkWf {
  wf_nV      : 0 <= s_nV s;
  wf_nodup   : NoDup (s_bverts s);
  wf_isb     : forall v, In v (s_bverts s) <-> isb_at s v = true;
  wf_range   : forall v, In v (s_bverts s) -> 0 <= v < s_nV s;
  wf_nonnil  : forall v, In v (s_bverts s) -> vtv_at s v <> [];
  wf_pred_in : forall v, In v (s_bverts s) -> In (bpred s v) (s_bverts s);
  wf_succ_in : forall v, In v (s_bverts s) -> In (bsucc s v) (s_bverts s);
  wf_sp      : forall v, In v (s_bverts s) -> bsucc s (bpred s v) = v;
  wf_ps      : forall v, In v (s_bverts s) -> bpred s (bsucc s v) = v;
  wf_neq     : forall v, In v (s_bverts s) -> bpred s v <> bsucc s v;
  wf_edge    : forall v, In v (s_bverts s) -> exists e, edge_id s (v, bpred s v) = Some e /\ In e (s_bedges s);
  wf_be_nodup: NoDup (s_bedges s);
  wf_bedge_  : forall e, In e (s_bedges s) ->
                 exists a b, edge_at s e = Some (a, b) /\ a < b /\ edge_id s (a, b) = Some e
                             /\ In a (s_bverts s) /\ In b (s_bverts s) /\ (bpred s a = b \/ bpred s b = a)
}.

Lemma isb_at_range s v : Z.of_nat (length (s_isb s)) = s_nV s -> isb_at s v = true -> 0 <= v < s_nV s.
Proof.
  intros L H. destruct (Z_lt_dec v 0) as [n|n]; [|destruct (Z_lt_dec v (s_nV s)) as [m|m]; [lia|]];
    unfold isb_at in H; rewrite znth_default in H by lia; discriminate.
Qed.

Lemma wf_b_wf s : wf_b s = true -> wf s.
Proof.
  unfold wf_b. rewrite !andb_true_iff.
  intros [[[[[[[[H0 H1] H2] H3] H4] H5] H6] H7] H8].
  apply Z.leb_le in H0. apply Z.eqb_eq in H1, H2.
  rewrite forallb_forall in H4, H5, H6, H8.
  assert (ISB : forall v, In v (s_bverts s) <-> isb_at s v = true).
  { intros v. split; [apply H4|]. intros Hv. pose proof (isb_at_range s v H2 Hv) as R.
    specialize (H5 v (proj2 (In_zrange _ _) R)). rewrite Hv in H5. simpl in H5. now apply memz_In. }
  assert (V : forall v, In v (s_bverts s) ->
     vtv_at s v <> [] /\ isb_at s (bpred s v) = true /\ isb_at s (bsucc s v) = true
     /\ bsucc s (bpred s v) = v /\ bpred s (bsucc s v) = v /\ bpred s v <> bsucc s v
     /\ exists e, edge_id s (v, bpred s v) = Some e /\ In e (s_bedges s)).
  { intros v Hv. specialize (H6 v Hv). unfold wf_vertex in H6. rewrite !andb_true_iff in H6.
    destruct H6 as [[[[[[A B] C] D] E] F] G].
    repeat split.
    - intros N. rewrite N in A. discriminate.
    - exact B.
    - exact C.
    - now apply Z.eqb_eq.
    - now apply Z.eqb_eq.
    - apply negb_true_iff in F. now apply Z.eqb_neq.
    - destruct (edge_id s (v, bpred s v)) as [e|]; [|discriminate]. exists e. split; [reflexivity | now apply memz_In]. }
  constructor.
  - exact H0.
  - now apply nodupz_NoDup.
  - exact ISB.
  - intros v Hv. apply (isb_at_range s v H2). now apply ISB.
  - intros v Hv. apply (V v Hv).
  - intros v Hv. apply ISB. apply (V v Hv).
  - intros v Hv. apply ISB. apply (V v Hv).
  - intros v Hv. apply (V v Hv).
  - intros v Hv. apply (V v Hv).
  - intros v Hv. apply (V v Hv).
  - intros v Hv. apply (V v Hv).
  - now apply nodupz_NoDup.
  - intros e He. specialize (H8 e He). unfold wf_bedge in H8.
    destruct (edge_at s e) as [[a b]|] eqn:Ea; [|discriminate].
    rewrite !andb_true_iff in H8. destruct H8 as [[[[A B] C] D] E].
    exists a, b. repeat split.
    + now apply Z.ltb_lt.
    + unfold opt_eqb in B. destruct (edge_id s (a, b)) as [x|]; [|discriminate]. apply Z.eqb_eq in B. now subst.
    + now apply ISB.
    + now apply ISB.
    + apply orb_true_iff in E as [E|E]; apply Z.eqb_eq in E; auto.
Qed.

(* injectivity of the border predecessor on border vertices *)
Lemma bpred_inj s (W : wf s) u v :
  In u (s_bverts s) -> In v (s_bverts s) -> bpred s u = bpred s v -> u = v.
Proof.
  intros Hu Hv E. rewrite <- (wf_sp s W u Hu), <- (wf_sp s W v Hv). now rewrite E.
Qed.

Lemma bverts_length s (W : wf s) : (Z.of_nat (length (s_bverts s)) <= s_nV s).
Proof.
  assert (H : incl (s_bverts s) (zrange (s_nV s))).
  { intros v Hv. apply In_zrange. now apply (wf_range s W). }
  apply NoDup_incl_length in H; [|apply (wf_nodup s W)].
  rewrite zrange_length in H. pose proof (wf_nV s W). lia.
Qed.
