(* C15 - what the proofs need to know about the generated definitions (Gen.v), each fact proved by a script that
   survives harmless rewrites of the source (commuted `and`/`or`, swapped arguments of the symmetric edge_id,
   `a > b` for `b < a`, ...) and fails when the meaning changes. *)
From Coq Require Import ZArith List Bool Lia ZifyBool QArith.
Import ListNotations.
Require Import MV.Lib.Base MV.C15.Model MV.C15.ProofsBase.
Local Open Scope Z_scope.

Lemma gen_no_border nb : cyc_no_border nb = true <-> nb = 0.
Proof. unfold cyc_no_border. lia. Qed.

Lemma gen_default_index : cyc_default_index = 0.
Proof. reflexivity. Qed.

Lemma gen_first_index : cyc_first_index = 0.
Proof. reflexivity. Qed.

Lemma gen_reject onb : cyc_reject onb = negb onb.
Proof. unfold cyc_reject. destruct onb; reflexivity. Qed.

Lemma gen_nvisited0 : cyc_nvisited0 = 0.
Proof. reflexivity. Qed.

Lemma gen_max_visited n : cyc_max_visited n = n.
Proof. unfold cyc_max_visited. lia. Qed.

Lemma gen_continue p2 start n m : cyc_continue p2 start n m = true <-> (p2 <> start /\ n < m).
Proof. unfold cyc_continue. lia. Qed.

Lemma gen_emit_v p1 p2 : cyc_emit_v p1 p2 = p2.
Proof. reflexivity. Qed.

Lemma gen_emit_e s p1 p2 : edge_id s (cyc_emit_e p1 p2) = edge_id s (p1, p2).
Proof. unfold cyc_emit_e. first [reflexivity | apply edge_id_sym]. Qed.

Lemma gen_last_e s p1 p2 : edge_id s (cyc_last_e p1 p2) = edge_id s (p1, p2).
Proof. unfold cyc_last_e. first [reflexivity | apply edge_id_sym]. Qed.

Lemma gen_scan p1 p2 : cyc_scan p1 p2 = p2.
Proof. reflexivity. Qed.

Lemma gen_accept onb v p1 p2 : cyc_accept onb v p1 p2 = true <-> (onb = true /\ v <> p1).
Proof. unfold cyc_accept. destruct onb; lia. Qed.

Lemma gen_move p1 p2 v : cyc_move p1 p2 v = (p2, v).
Proof. reflexivity. Qed.

Lemma gen_step n : cyc_nvisited_step n = n + 1.
Proof. unfold cyc_nvisited_step. lia. Qed.

Lemma gen_all_enter vis : all_enter vis = negb vis.
Proof. unfold all_enter. destruct vis; reflexivity. Qed.

Lemma gen_all_pick : all_pick = 0.
Proof. reflexivity. Qed.

Lemma gen_bs_enter vis : bs_enter vis = negb vis.
Proof. unfold bs_enter. destruct vis; reflexivity. Qed.

Lemma gen_bs_init : bs_ind_vertex0 = 0 /\ bs_ind_component0 = 0.
Proof. split; reflexivity. Qed.

Lemma gen_bs_entries v2 iv ic :
  bs_map_entry v2 iv ic = (v2, iv) /\ bs_comp_entry v2 iv ic = (iv, ic) /\ bs_vertex_src v2 iv ic = v2
  /\ bs_next_iv v2 iv ic = iv + 1.
Proof. unfold bs_map_entry, bs_comp_entry, bs_vertex_src, bs_next_iv. repeat split; f_equal; lia. Qed.

Lemma gen_bs_next_ic ic : bs_next_ic ic = ic + 1.
Proof. unfold bs_next_ic. lia. Qed.

Lemma gen_bs_edge_key a b : bs_edge_key a b = keyify2 a b.
Proof. unfold bs_edge_key. first [reflexivity | apply keyify2_sym]. Qed.

(* ---- features *)
Lemma Qltb_lt a b : Qltb a b = true <-> (a < b)%Q.
Proof.
  unfold Qltb. rewrite negb_true_iff. split; intros H.
  - apply Qnot_le_lt. intros L. apply Qle_bool_iff in L. congruence.
  - destruct (Qle_bool b a) eqn:E; [|reflexivity]. apply Qle_bool_iff in E. exfalso. now apply (Qlt_not_le a b).
Qed.

Lemma gen_skips ob : hard_skip ob = ob /\ sharp_skip ob = ob /\ border_skip ob = false.
Proof. unfold hard_skip, sharp_skip, border_skip. destruct ob; repeat split. Qed.

Lemma gen_missing a b : hard_missing a b = (a || b) /\ sharp_missing a b = (a || b).
Proof. unfold hard_missing, sharp_missing. destruct a, b; split; reflexivity. Qed.

Lemma gen_sharp_test d : sharp_test d = true <-> (d < 1 # 2)%Q.
Proof. unfold sharp_test. apply Qltb_lt. Qed.

Lemma gen_hard_test d onb : hard_test d onb = true <-> ((d < 4 # 5)%Q /\ onb = false).
Proof.
  unfold hard_test. rewrite andb_true_iff, Qltb_lt, negb_true_iff.
  assert (T : ((1 # 1) - (1 # 5) == 4 # 5)%Q) by reflexivity. rewrite T. tauto.
Qed.

(* each of the three passes is applied (their order does not matter for the flagged set) *)
Lemma gen_all_passes : forall p, In p pass_order.
Proof. intros p. destruct p; simpl; tauto. Qed.

(* FeatureEdgeDetector(): the documented defaults of the options *)
Lemma gen_detector_defaults :
  det_default_only_border = false /\ det_default_flag_corners = true /\ det_default_corner_order = 4
  /\ det_default_graph = true.
Proof. repeat split; reflexivity. Qed.
