(* C15 / C01 bridge, part 3 - for EVERY oriented manifold polygon surface (C01's wf_mesh), the mesh mouette builds
   from the face list (C01's build_mesh: edges completed from the faces) yields tables that satisfy C15's wf; hence
   the C15 theorems hold without the per-case evaluation of wf_b. *)
From Coq Require Import ZArith List Bool Lia Sorting.Permutation.
Import ListNotations.
Require Import MV.C01.Defs MV.C01.Gen MV.C01.Model MV.C01.Spec MV.C01.Pure MV.C01.ProofsCorners MV.C01.ProofsTables
        MV.C01.ProofsEdges MV.C01.ProofsRing MV.C01.ProofsVerts MV.C01.ProofsMain.
Require MV.C15.Prelude MV.C15.Border MV.C15.ProofsBase MV.C15.ProofsCycle MV.C15.ProofsAll MV.C15.ProofsBoundary
        MV.C15.Proofs.
Require Import MV.C15.BridgeFaces MV.C15.BridgeC01.
Open Scope Z_scope.

(* ------------------------------------------------------------------ the completed edge container *)
Lemma pair_eqb_refl x : pair_eqb x x = true.
Proof. unfold pair_eqb. now rewrite !Z.eqb_refl. Qed.

Lemma gen_edges_NoDup faces : NoDup (gen_edges faces).
Proof.
  rewrite gen_edges_unfold.
  assert (I : forall F is acc, NoDup acc -> NoDup (fold_left (ge_inner F) is acc)).
  { intros F. induction is as [|i is IH]; intros acc N; cbn [fold_left]; [exact N|]. apply IH.
    unfold ge_inner. destruct (zth F i); [|exact N]. destruct (zth F ((i + 1) mod zlen F)); [|exact N].
    cbv zeta. destruct (existsb (pair_eqb (keyify2 z z0)) acc) eqn:E; [exact N|].
    apply ProofsCycle.NoDup_snoc; [exact N|]. intros Hin.
    assert (existsb (pair_eqb (keyify2 z z0)) acc = true); [|congruence].
    apply existsb_exists. exists (keyify2 z z0). split; [exact Hin | apply pair_eqb_refl]. }
  assert (O : forall fs acc, NoDup acc -> NoDup (fold_left ge_outer fs acc)).
  { induction fs as [|F fs IH]; intros acc N; cbn [fold_left]; [exact N|]. apply IH. unfold ge_outer. now apply I. }
  apply O. constructor.
Qed.

Lemma gen_edges_keyed nv faces : Forall (face_ok nv) faces -> forall e, In e (gen_edges faces) -> fst e < snd e.
Proof.
  intros Hf e He. pose proof (gen_edges_sides faces) as S. rewrite Forall_forall in S.
  pose proof (S e He) as Se. pose proof (side_valid nv faces e Hf Se) as (N & _).
  destruct Se as (F & i & a & b & _ & _ & _ & _ & ->). unfold keyify2 in *.
  destruct (a <=? b) eqn:E; cbn [fst snd] in *; lia.
Qed.

(* ------------------------------------------------------------------ the record the C15 model consumes, read off
   the pure answers of C01's model *)
Definition unwrap {A} (d : A) (r : res A) : A := match r with Ok a => a | Err _ => d end.

Definition surf_of_mesh (m : mesh) : Border.surf :=
  Border.mkSurf (m_nv m)
    (map (fun v => unwrap [] (p_vertex_to_vertices m true v)) (zrange (m_nv m)))
    (map (fun v => unwrap false (p_is_vertex_on_border m true v)) (zrange (m_nv m)))
    (unwrap [] (p_boundary_vertices m true)) (m_edges m) (unwrap [] (p_boundary_edges m true)).

Lemma znth_map_zrange {A} (f : Z -> A) n v d : 0 <= v < n -> Base.znth (map f (zrange n)) v d = f v.
Proof.
  intros H. unfold Base.znth. destruct (v <? 0) eqn:E; [lia|].
  unfold zrange. rewrite map_map.
  rewrite nth_indep with (d' := f (Z.of_nat 0)) by (rewrite map_length, seq_length; lia).
  rewrite (map_nth (fun k => f (Z.of_nat k)) (seq 0 (Z.to_nat n)) 0%nat).
  rewrite seq_nth by lia. f_equal. lia.
Qed.

Lemma znth_map_zrange_out {A} (f : Z -> A) n v d : ~ (0 <= v < n) -> Base.znth (map f (zrange n)) v d = d.
Proof.
  intros H. apply ProofsBase.znth_default. rewrite map_length, Base.zrange_length. lia.
Qed.

Section Built.
  Variable nv : Z.
  Variable faces : list (list Z).
  Hypothesis Hnv : 0 <= nv.
  Hypothesis Hm : wf_mesh nv faces.

  Let m := build_mesh nv faces.
  Let Hwf : wf_faces nv faces := proj1 Hm.
  Let Hmo : mesh_of nv faces m := proj1 (build_mesh_ok nv faces Hwf).
  Let Hex : edges_exact faces (m_edges m) := proj2 (build_mesh_ok nv faces Hwf).

  Lemma built_tables_of : tables_of m (surf_of_mesh m).
  Proof.
    destruct (compute_total nv faces m true Hm Hmo) as [T ET].
    destruct (border_partition nv faces m true T Hwf Hmo ET)
      as (be & ie & bv & iv & E1 & E2 & E3 & E4 & P & B1 & B2 & N & B3 & B4 & B5).
    unfold tables_of, surf_of_mesh. cbn [Border.s_nV Border.s_edges Border.s_bverts Border.s_bedges].
    split; [reflexivity|]. split; [reflexivity|]. rewrite E1, E3. cbn [unwrap].
    split; [reflexivity|]. split; [reflexivity|]. split.
    - intros v. unfold Border.isb_at. cbn [Border.s_isb]. rewrite B5.
      destruct (Z_le_dec 0 v) as [L|L]; [destruct (Z_lt_dec v (m_nv m)) as [U|U]|].
      + rewrite znth_map_zrange by lia. now rewrite B5.
      + rewrite znth_map_zrange_out by lia. f_equal.
        destruct (sp_vertex_on_border faces (m_edges m) v) eqn:Q; [|reflexivity]. exfalso.
        unfold sp_vertex_on_border in Q. apply existsb_exists in Q as (e & He & Q).
        destruct Hmo as (Env & _ & _ & Hv). rewrite Forall_forall in Hv. destruct (Hv e He) as (_ & R1 & R2).
        apply andb_true_iff in Q as [Q _]. apply orb_true_iff in Q as [Q|Q]; apply Z.eqb_eq in Q; lia.
      + rewrite znth_map_zrange_out by lia. f_equal.
        destruct (sp_vertex_on_border faces (m_edges m) v) eqn:Q; [|reflexivity]. exfalso.
        unfold sp_vertex_on_border in Q. apply existsb_exists in Q as (e & He & Q).
        destruct Hmo as (Env & _ & _ & Hv). rewrite Forall_forall in Hv. destruct (Hv e He) as (_ & R1 & R2).
        apply andb_true_iff in Q as [Q _]. apply orb_true_iff in Q as [Q|Q]; apply Z.eqb_eq in Q; lia.
    - intros v Hv. unfold Border.vtv_at. cbn [Border.s_vtv]. rewrite znth_map_zrange by exact Hv.
      assert (R : 0 <= v < nv) by (destruct Hmo as (Env & _); lia).
      destruct (vertex_ring_sorted nv faces m Hm Hmo Hex v R) as (l & _ & _ & E). rewrite E. reflexivity.
  Qed.

  (* wf for every oriented manifold polygon surface *)
  Theorem built_wf : ProofsBase.wf (surf_of_mesh m).
  Proof.
    apply (c01_tables_wf nv faces m (surf_of_mesh m) Hnv Hm Hmo Hex).
    - apply gen_edges_NoDup.
    - apply (gen_edges_keyed nv faces (proj1 Hwf)).
    - exact built_tables_of.
  Qed.

  (* C15_cycle without the per-case hypothesis *)
  Theorem built_cycle : forall start, In start (Border.s_bverts (surf_of_mesh m)) ->
    exists vb eb, Border.extract_border_cycle (surf_of_mesh m) (Some start) = Border.Outcome (Border.CycOk vb eb)
                  /\ Proofs.border_cycle_of (surf_of_mesh m) start vb eb.
  Proof.
    intros start Hs. destruct (ProofsCycle.cycle_ok _ built_wf start Hs) as (vb & eb & E & C).
    exists vb, eb. split; [exact E|]. now apply Proofs.is_cycle_border_cycle; [apply built_wf|].
  Qed.

  Theorem built_all_cycles :
    exists cycles, Border.extract_border_cycle_all (surf_of_mesh m) = Some cycles
      /\ ProofsAll.loop_partition (surf_of_mesh m) cycles
      /\ Permutation (concat cycles) (Border.s_bverts (surf_of_mesh m)).
  Proof.
    destruct (ProofsAll.all_cycles_spec _ built_wf) as (cycles & E & P & Pm & _). exists cycles. auto.
  Qed.

End Built.

(* the border vertices of the tables are the vertices with a border half-edge in the face list: the loops of the C15
   theorems are loops of the surface itself *)
Lemma built_border_vertices nv faces : 0 <= nv -> wf_mesh nv faces ->
  forall x, In x (Border.s_bverts (surf_of_mesh (build_mesh nv faces)))
            <-> ((exists w, bhe faces w x) \/ (exists t, bhe faces x t)).
Proof.
  intros Hnv Hm x. set (m := build_mesh nv faces).
  pose proof (proj1 Hm) as Hwf.
  destruct (build_mesh_ok nv faces Hwf) as [Hmo Hex].
  pose proof (built_tables_of nv faces Hm) as Ht. fold m in Ht.
  destruct (tables_facts nv faces m _ Hm Hmo Ht) as (be & ie & _ & _ & _ & _ & Hb & _).
  rewrite Hb. apply (vertex_on_border_iff faces m Hex).
  - apply gen_edges_NoDup.
  - apply (gen_edges_keyed nv faces (proj1 Hwf)).
Qed.

Lemma every_surface_wf nv faces : 0 <= nv -> wf_mesh nv faces ->
  let s := surf_of_mesh (build_mesh nv faces) in
  tables_of (build_mesh nv faces) s /\ ProofsBase.wf s
  /\ (forall x, In x (Border.s_bverts s) <-> ((exists w, bhe faces w x) \/ (exists t, bhe faces x t))).
Proof.
  intros Hnv Hm s. split; [apply built_tables_of; assumption|]. split; [apply built_wf; assumption|].
  apply built_border_vertices; assumption.
Qed.

(* non-vacuity: two triangles sharing an edge *)
Example built_example :
  Spec.wf_mesh_b 4 [[0; 1; 2]; [2; 1; 3]] = true
  /\ Border.wf_b (surf_of_mesh (build_mesh 4 [[0; 1; 2]; [2; 1; 3]])) = true
  /\ Border.extract_border_cycle_all (surf_of_mesh (build_mesh 4 [[0; 1; 2]; [2; 1; 3]])) = Some [[0; 2; 3; 1]].
Proof. vm_compute. repeat split. Qed.
