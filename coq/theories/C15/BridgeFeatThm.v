(* C15 / C01 bridge, part 5 - the detector's tables read off C01's model on the mesh built from ANY oriented manifold
   face list satisfy wfF; the well-formedness-dependent theorems of the detector then hold with no per-case check. *)
From Coq Require Import ZArith List Bool Lia QArith Sorting.Permutation.
Import ListNotations.
Require Import MV.C01.Defs MV.C01.Gen MV.C01.Model MV.C01.Spec MV.C01.Pure MV.C01.ProofsCorners MV.C01.ProofsTables
        MV.C01.ProofsEdges MV.C01.ProofsRing MV.C01.ProofsVerts MV.C01.ProofsMain.
Require MV.C15.Prelude MV.C15.Feat MV.C15.ProofsBase MV.C15.ProofsFeat MV.C15.Proofs.
Require Import MV.C15.BridgeFaces MV.C15.BridgeC01 MV.C15.BridgeThm MV.C15.BridgeFeat.
Open Scope Z_scope.

Definition pair_of (l : list (option Z)) : option Z * option Z :=
  match l with [a; b] => (a, b) | _ => (None, None) end.

Definition fmesh_of_mesh (m : mesh) (hard : option (list Z)) (normals : list (Q * Q * Q)) (half : list Q) : Feat.fmesh :=
  Feat.mkF (m_nv m) (m_edges m)
    (map (fun uv => pair_of (unwrap [] (p_edge_to_faces m true (fst uv) (snd uv)))) (m_edges m))
    (unwrap [] (p_boundary_edges m true)) hard normals
    (map (fun v => unwrap [] (p_vertex_to_edges m true v)) (zrange (m_nv m))) half.

Lemma znth_map_zth {A B} (g : A -> B) (l : list A) e x d : zth l e = Some x -> Base.znth (map g l) e d = g x.
Proof.
  intros H. apply zth_Some in H as [R H]. unfold Base.znth. destruct (e <? 0) eqn:E; [lia|].
  apply nth_error_nth. now apply map_nth_error.
Qed.

Section BuiltF.
  Variable nv : Z.
  Variable faces : list (list Z).
  Variable hard : option (list Z).
  Variable normals : list (Q * Q * Q).
  Variable half : list Q.
  Hypothesis Hm : wf_mesh nv faces.

  Let m := build_mesh nv faces.
  Let Hwf : wf_faces nv faces := proj1 Hm.
  Let Hmo : mesh_of nv faces m := proj1 (build_mesh_ok nv faces Hwf).
  Let Hex : edges_exact faces (m_edges m) := proj2 (build_mesh_ok nv faces Hwf).
  (* the declared hard edges are edge ids (mesh_data.py marks edges of the edge container) *)
  Hypothesis Hhard : forall l e, hard = Some l -> In e l -> 0 <= e < zlen (m_edges m).

  Let fm := fmesh_of_mesh m hard normals half.

  Lemma built_ftables_of : ftables_of m fm.
  Proof.
    destruct (compute_total nv faces m true Hm Hmo) as [T ET].
    destruct (border_partition nv faces m true T Hwf Hmo ET)
      as (be & ie & bv & iv & E1 & _).
    pose proof (tables_correct nv faces m true T Hwf Hmo ET) as TC.
    destruct TC as (_ & _ & _ & _ & _ & _ & _ & TCe2f & _).
    destruct (derived_lists nv faces m true T Hwf Hmo ET) as (_ & _ & DV & _).
    unfold ftables_of, fm, fmesh_of_mesh. cbn [Feat.f_nV Feat.f_edges Feat.f_bedges Feat.f_hard Feat.f_v2e].
    split; [reflexivity|]. split; [reflexivity|]. rewrite E1. cbn [unwrap]. split; [reflexivity|]. split; [|split].
    - intros e u v Hz. exists (sp_direct_face faces u v), (sp_direct_face faces v u). split; [apply TCe2f|].
      unfold Feat.e2f_at. cbn [Feat.f_e2f]. rewrite (znth_map_zth _ _ _ _ _ Hz). cbn [fst snd]. now rewrite TCe2f.
    - intros v Hv. rewrite znth_map_zrange by exact Hv.
      assert (R : 0 <= v < nv) by (destruct Hmo as (Q & _); lia).
      destruct (vertex_ring_sorted nv faces m Hm Hmo Hex v R) as (l & _ & _ & E).
      rewrite (DV v _ E). reflexivity.
    - exact Hhard.
  Qed.

  Theorem built_wfF : ProofsFeat.wfF fm.
  Proof.
    apply (c01_tables_wfF nv faces m fm Hm Hmo Hex).
    - apply gen_edges_NoDup.
    - apply (gen_edges_keyed nv faces (proj1 Hwf)).
    - exact built_ftables_of.
  Qed.

  (* the well-formedness-dependent detector theorems, for every oriented manifold surface *)
  Theorem built_features : forall o,
    NoDup (Feat.feature_edges fm o)
    /\ (forall e, In e (Feat.feature_edges fm o) -> 0 <= e < Z.of_nat (length (Feat.f_edges fm)))
    /\ (forall e, 0 <= e < Z.of_nat (length (Feat.f_edges fm)) -> (In e (Feat.f_bedges fm) <-> ProofsFeat.dot_of fm e = None))
    /\ (forall v, 0 <= v < Feat.f_nV fm ->
          ProofsFeat.getd v (Feat.feature_degrees fm o)
          = Z.of_nat (length (Feat.local_feat_edges_of fm (Feat.feature_edges fm o) v))).
  Proof.
    intros o. destruct (Proofs.features_wfF_thm fm o built_wfF) as (A & B & C).
    split; [exact A|]. split; [exact B|]. split; [exact C|].
    intros v Hv. now apply Proofs.degree_is_local_count_wfF_thm; [apply built_wfF|].
  Qed.

End BuiltF.
