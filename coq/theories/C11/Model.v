(* C11: executable model of mouette/spatial/kdtree.py (KDTree.__init__, _split_points, query, query_radius)
   and of AABB.distance.  NO proofs here.  Every decision expression comes from Gen.v (regenerated from the
   source on each run); the loops are written by hand and tied by the correspondence batches.

   Conventions
   - node ids / point indices / axes / sizes / k are nat; coordinates and squared distances are Z;
   - `oracle s` is what `_find_pivot` returns at the s-th split (s = 0,1,..., in the order the build loop
     performs the splits): the three strategies and their random draws are inputs;
   - loops run on explicit fuel and return `OutOfFuel` when it is exhausted, list accesses out of range give
     `BadIndex`; the theorems show neither can happen. *)
From Coq Require Import ZArith List Bool.
Import ListNotations.
Require Import MV.C11.Ext MV.C11.Heap MV.C11.Gen.
Open Scope Z_scope.

Inductive res (A : Type) := Ok (a : A) | OutOfFuel | BadIndex.
Arguments Ok {A} a.
Arguments OutOfFuel {A}.
Arguments BadIndex {A}.

(* self.nodes entries.  (Node.parent / Leaf.parent / ids are not modelled: ids are positions, shown in the proofs) *)
Inductive node :=
| Leaf (axis : nat) (pts : list nat) (bb : box)
| Node (axis : nat) (split_value : Z) (left right : nat) (bb : box).

Definition node_bb (n : node) : box := match n with Leaf _ _ b => b | Node _ _ _ _ b => b end.

(* AABB.distance(pt)^2 : norm(vec)^2 with vec_i = box_excess(mini_i, maxi_i, pt_i) *)
Fixpoint boxdist2_l (l h : list ext) (q : list Z) : ext :=
  match l, h, q with
  | a :: l', b :: h', c :: q' => eadd (esq (box_excess a b c)) (boxdist2_l l' h' q')
  | _, _, _ => Fin 0
  end.
Definition boxdist2 (b : box) (q : list Z) : ext := boxdist2_l (lo b) (hi b) q.

(* ------------------------------------------------------------------ _find_pivot: which pivots a strategy can return *)
Fixpoint zins (x : Z) (l : list Z) : list Z :=
  match l with [] => [x] | y :: t => if Z.leb x y then x :: y :: t else y :: zins x t end.
Definition zsort (l : list Z) : list Z := fold_right zins [] l.

(* np.median of a non-empty list: the middle element, or the mean of the two middle ones (coordinates are doubled
   integers in the correspondence, so the mean is integral there) *)
Definition median (l : list Z) : Z :=
  let s := zsort l in
  let n := length s in
  if Nat.even n then (nth (n / 2 - 1) s 0 + nth (n / 2) s 0) / 2 else nth (n / 2) s 0.

Definition zmin (l : list Z) : Z := fold_right Z.min (hd 0 l) l.
Definition zmax (l : list Z) : Z := fold_right Z.max (hd 0 l) l.

Definition pivot_ok (r : prule) (coords : list Z) (pivot : Z) : bool :=
  match r with
  | PMedian => Z.eqb pivot (median coords)
  | PElement => existsb (Z.eqb pivot) coords
  | PMedianOfSample cap =>
    if Nat.leb (length coords) cap then Z.eqb pivot (median coords)      (* the sample is a permutation of everything *)
    else Z.leb (zmin coords) pivot && Z.leb pivot (zmax coords)          (* a median of some of the values *)
  end.

(* self.points while a query runs.  The constructor stores `np.array(points)` (a private copy) or, if it did not copy,
   the caller's own array: then the queries would read whatever the caller has written into it since.
   `at_build` = the points the tree was built from, `now` = what the caller's array holds at query time. *)
Definition self_points (at_build now : list (list Z)) : list (list Z) :=
  if ctor_copies_input then at_build else now.

Section WithPoints.
  Variable P : list (list Z).            (* self.points *)

  Definition pt (i : nat) : list Z := nth i P [].
  Definition coord (i ax : nat) : Z := nth ax (pt i) 0.

  (* ------------------------------------------------------------------ _split_points *)
  (* np.argsort(pts_ax, kind="stable") composed with pt_idx[...] : stable insertion sort of the indices *)
  Fixpoint ins (ax : nat) (i : nat) (l : list nat) : list nat :=
    match l with
    | [] => [i]
    | j :: t => if Z.leb (coord i ax) (coord j ax) then i :: j :: t else j :: ins ax i t
    end.
  Definition isort (ax : nat) (l : list nat) : list nat := fold_right (ins ax) [] l.

  Definition split (pts : list nat) (ax : nat) (pivot : Z) : Z * list nat * list nat :=
    let less := filter (fun i => goes_left (coord i ax) pivot) pts in
    let more := filter (fun i => negb (goes_left (coord i ax) pivot)) pts in
    if degenerate (length less) (length more) then
      let order := isort ax pts in
      let half := rank_half (length pts) in
      (coord (nth (rank_pivot_pos half) order O) ax, firstn half order, skipn half order)
    else (pivot, less, more).

  (* fuel given to the three loops: a tree over n points has at most max(1, 2n-1) nodes (proved) *)
  Definition fuel_bound : nat := 2 * length P + 1.

  (* ------------------------------------------------------------------ __init__ : the breadth-first build loop *)
  Record pend := mkpend { p_id : nat; p_axis : nat; p_pts : list nat; p_bb : box }.

  Section Build.
    Variable dim : nat.
    Variable mls : nat.                  (* max_leaf_size *)
    Variable oracle : nat -> Z.

    Fixpoint bloop (fuel : nat) (done : list node) (queue : list pend) (nid nsplit : nat) : res (list node) :=
      match queue with
      | [] => Ok done
      | lf :: rest =>
        match fuel with
        | O => OutOfFuel
        | S fuel' =>
          if leaf_ok (length (p_pts lf)) mls then
            bloop fuel' (done ++ [Leaf (p_axis lf) (p_pts lf) (p_bb lf)]) rest nid nsplit
          else
            let '(sv, less, more) := split (p_pts lf) (p_axis lf) (oracle nsplit) in
            let ax' := next_axis (p_axis lf) dim in
            let l1 := mkpend nid ax' less (less_box (p_bb lf) (p_axis lf) sv) in
            let l2 := mkpend (S nid) ax' more (more_box (p_bb lf) (p_axis lf) sv) in
            bloop fuel' (done ++ [Node (p_axis lf) sv (p_id l1) (p_id l2) (p_bb lf)]) (rest ++ [l1; l2])
                  (S (S nid)) (S nsplit)
        end
      end.

    Definition root : pend := mkpend O root_axis (seq 0 (length P)) (infinite_box dim).
    Definition build : res (list node) := bloop fuel_bound [] [root] 1%nat O.
  End Build.

  (* ------------------------------------------------------------------ query (k nearest) *)
  (* `found` is a mouette PriorityQueue: a heapq array of items (priority, payload) = (-squared distance, index),
     operated through pq_push / pq_pop / pq_front / pq_empty of Gen.v (the comparator and the plumbing come from
     priority_queue.py, the sift algorithm is Heap.v's copy of heapq).  n_found = length found. *)

  (* found.push(idx, -distance(self.points[idx], pt)) *)
  Definition push_item (q : list Z) (f : list item) (i : nat) : list item :=
    pq_push f (Z.of_nat i) (- dist2 (pt i) q).

  (* while n_found > k: found.pop()   (pop removes a smallest priority = a farthest candidate) *)
  Fixpoint evict (n : nat) (k : nat) (f : list item) : list item :=
    match n with
    | O => f
    | S n' => if knn_evict (length f) k
              then match pq_pop f with Some (_, f') => evict n' k f' | None => f end
              else f
    end.

  Definition push_c (q : list Z) (k : nat) (f : list item) (i : nat) : list item :=
    let f1 := push_item q f i in evict (length f1) k f1.

  (* -found.front.priority if (n_found >= k and not found.empty()) else float("inf") *)
  Definition furthest (k : nat) (f : list item) : ext :=
    if knn_full (length f) k (pq_empty f)
    then match pq_front f with Some it => Fin (- fst it) | None => PosInf end
    else PosInf.

  (* [found.pop().x for _ in range(n_found)] *)
  Fixpoint popall (n : nat) (f : list item) : list item :=
    match n with
    | O => []
    | S n' => match pq_pop f with Some (it, f') => it :: popall n' f' | None => [] end
    end.

  Definition payload (it : item) : nat := Z.to_nat (snd it).

  (* sorted([(dist_left, left), (dist_right, right)]) : ascending, ties by child id *)
  Definition child_order (dl dr : ext) (l r : nat) : list (ext * nat) :=
    if eltb dl dr || (eeqb dl dr && Nat.leb l r) then [(dl, l); (dr, r)] else [(dr, r); (dl, l)].

  (* queue.append(child) for each child (in that order) passing the test; the stack's top is the list head *)
  Definition push_children (fsf : ext) (ord : list (ext * nat)) (stack : list nat) : list nat :=
    fold_left (fun st dc => if knn_visit fsf (fst dc) then snd dc :: st else st) ord stack.

  Fixpoint qloop (nodes : list node) (q : list Z) (k : nat) (fuel : nat) (stack : list nat) (found : list item)
    : res (list item) :=
    match stack with
    | [] => Ok found
    | id :: rest =>
      match fuel with
      | O => OutOfFuel
      | S fuel' =>
        match nth_error nodes id with
        | None => BadIndex
        | Some (Leaf _ lp _) => qloop nodes q k fuel' rest (fold_left (push_c q k) lp found)
        | Some (Node _ _ l r _) =>
          match nth_error nodes l, nth_error nodes r with
          | Some nl, Some nr =>
            let fsf := furthest k found in
            let ord := child_order (boxdist2 (node_bb nl) q) (boxdist2 (node_bb nr) q) l r in
            qloop nodes q k fuel' (push_children fsf ord rest) found
          | _, _ => BadIndex
          end
        end
      end
    end.

  Definition query (nodes : list node) (q : list Z) (k : nat) : res (list nat) :=
    match qloop nodes q k fuel_bound [O] [] with
    | Ok f => let xs := map payload (popall (length f) f) in Ok (if knn_result_reversed then rev xs else xs)
    | OutOfFuel => OutOfFuel
    | BadIndex => BadIndex
    end.

  (* ------------------------------------------------------------------ query_radius (r2 = r^2) *)
  Fixpoint rloop (nodes : list node) (q : list Z) (r2 : Z) (fuel : nat) (queue : list nat) (acc : list nat)
    : res (list nat) :=
    match queue with
    | [] => Ok acc
    | id :: rest =>
      match fuel with
      | O => OutOfFuel
      | S fuel' =>
        match nth_error nodes id with
        | None => BadIndex
        | Some nd =>
          if rad_prune (boxdist2 (node_bb nd) q) (Fin r2) then rloop nodes q r2 fuel' rest acc
          else match nd with
               | Leaf _ lp _ =>
                 rloop nodes q r2 fuel' rest (acc ++ filter (fun i => rad_keep (dist2 (pt i) q) r2) lp)
               | Node _ _ l r _ => rloop nodes q r2 fuel' (rest ++ [l; r]) acc
               end
        end
      end
    end.

  Definition query_radius (nodes : list node) (q : list Z) (r2 : Z) : res (list nat) :=
    rloop nodes q r2 fuel_bound [O] [].

End WithPoints.
