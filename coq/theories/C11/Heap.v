(* C11: the heapq algorithm (Lib/heapq.py: heappush/_siftdown, heappop/_siftup) behind mouette.utils.PriorityQueue.
   COPIED from coq/theories/C20/Model.v (Section Heap) - the candidate heap `found` of KDTree.query is this structure.
   Definitions only. An item is (priority, payload); the comparator is PriorityItem.__lt__ (generated). *)
From Coq Require Import ZArith List Bool Arith.
Import ListNotations.
Require Import MV.C11.Ext.
Close Scope Z_scope.
Open Scope nat_scope.

Section Heap.
  Variable item : Type.
  Variable lt : item -> item -> bool.     (* PriorityItem.__lt__ *)
  Variable dummy : item.

  Definition hget (h : list item) (i : nat) : item := nth i h dummy.

  (* _siftdown(heap, startpos=0, pos) with newitem held out *)
  Fixpoint siftdown_loop (fuel : nat) (h : list item) (newitem : item) (pos : nat) : list item :=
    match fuel with
    | 0 => upd h pos newitem
    | S f =>
        if Nat.ltb 0 pos then
          let parentpos := Nat.div2 (pos - 1) in
          let parent := hget h parentpos in
          if lt newitem parent then siftdown_loop f (upd h pos parent) newitem parentpos
          else upd h pos newitem
        else upd h pos newitem
    end.

  Definition siftdown (h : list item) (pos : nat) : list item :=
    siftdown_loop (S pos) h (hget h pos) pos.

  Definition heappush (h : list item) (x : item) : list item :=
    siftdown (h ++ [x]) (length h).

  (* _siftup(heap, 0): bubble the smaller child up until a leaf, then siftdown the held item *)
  Fixpoint siftup_loop (fuel : nat) (h : list item) (pos : nat) : list item * nat :=
    match fuel with
    | 0 => (h, pos)
    | S f =>
        let endpos := length h in
        let childpos := 2 * pos + 1 in
        if Nat.ltb childpos endpos then
          let rightpos := childpos + 1 in
          let c := if Nat.ltb rightpos endpos && negb (lt (hget h childpos) (hget h rightpos))
                   then rightpos else childpos in
          siftup_loop f (upd h pos (hget h c)) c
        else (h, pos)
    end.

  Definition siftup (h : list item) : list item :=
    let newitem := hget h 0 in
    let '(h1, pos) := siftup_loop (length h) h 0 in
    siftdown (upd h1 pos newitem) pos.

  (* heappop: None models IndexError on the empty heap *)
  Definition heappop (h : list item) : option (item * list item) :=
    match rev h with
    | [] => None
    | lastelt :: rt =>
        let h' := rev rt in
        match h' with
        | [] => Some (lastelt, [])
        | first :: _ => Some (first, siftup (upd h' 0 lastelt))
        end
    end.
End Heap.
