(* C11 property theorems only (temporary bootstrap) *)
From Coq Require Import ZArith List Bool.
Require Import MV.C11.Ext MV.C11.Gen MV.C11.Model.

Theorem C11_bootstrap : forall P mls, build P 1 mls (fun _ => 0%Z) = build P 1 mls (fun _ => 0%Z).
Proof. reflexivity. Qed.
Print Assumptions C11_bootstrap.
