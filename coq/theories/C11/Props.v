(* C11 property theorems only: each closed by `exact <lemma>` with Print Assumptions beneath.
   Vocabulary: `build P dim mls oracle` is KDTree.__init__ on the point list P (all of dimension dim), with
   max_leaf_size = mls and `oracle s` = what _find_pivot returns at the s-th split (any strategy, any random draw);
   `query` / `query_radius` are the two searches on the resulting node array; squared distances throughout;
   P' = whatever the caller's array holds when the query runs (`self_points P P'` = self.points: P iff the constructor copied).
   Non-vacuity examples (concrete inputs meeting the hypotheses, incl. the two repaired witnesses) are in Proofs.v. *)
From Coq Require Import ZArith List Bool Permutation Sorting.Sorted.
Require Import MV.C11.Ext MV.C11.Gen MV.C11.Model MV.C11.ProofsGen MV.C11.ProofsBuild MV.C11.Proofs MV.C11.ProofsMore.
Close Scope Z_scope.
Open Scope nat_scope.

(* building finishes: for every point list and every pivot oracle the loop needs at most 2n+1 iterations *)
Theorem C11_build_terminates :
  forall (P : list (list Z)) (dim mls : nat) (oracle : nat -> Z),
    1 <= dim -> 1 <= mls ->
    exists nodes, build P dim mls oracle = Ok nodes /\ length nodes <= fuel_bound P.
Proof. exact terminates. Qed.
Print Assumptions C11_build_terminates.

(* every input point is stored in exactly one leaf, and lies in that leaf's box *)
Theorem C11_partition :
  forall (P : list (list Z)) (dim mls : nat) (oracle : nat -> Z),
    1 <= dim -> 1 <= mls -> points_wf dim P ->
    forall nodes, build P dim mls oracle = Ok nodes ->
      Permutation (leaves nodes) (seq 0 (length P)) /\
      NoDup (leaves nodes) /\ (forall j, In j (leaves nodes) <-> j < length P) /\
      (forall i ax lp bb, nth_error nodes i = Some (Leaf ax lp bb) -> forall j, In j lp -> inbox bb (pt P j)).
Proof. exact partition. Qed.
Print Assumptions C11_partition.

(* AABB.distance never exceeds the distance to a point of the box (what both prunings rely on) *)
Theorem C11_box_distance_lower_bound :
  forall (b : box) (p q : list Z), inbox b p -> ele (boxdist2 b q) (Fin (dist2 p q)).
Proof. exact box_distance_lower_bound. Qed.
Print Assumptions C11_box_distance_lower_bound.

(* query returns min(k,n) distinct indices, in non-decreasing distance, none farther than any index left out *)
Theorem C11_knn_exact :
  forall (P : list (list Z)) (dim mls : nat) (oracle : nat -> Z),
    1 <= dim -> 1 <= mls -> points_wf dim P ->
    forall nodes (P' : list (list Z)) (q : list Z) (k : nat), build P dim mls oracle = Ok nodes ->
      exists res, query (self_points P P') nodes q k = Ok res /\
        length res = Nat.min k (length P) /\
        NoDup res /\ (forall i, In i res -> i < length P) /\
        StronglySorted (fun a b => (sqdist P q a <= sqdist P q b)%Z) res /\
        (forall i j, In i res -> j < length P -> ~ In j res -> (sqdist P q i <= sqdist P q j)%Z).
Proof. exact knn_exact_alias. Qed.
Print Assumptions C11_knn_exact.

(* query_radius returns exactly the indices within the radius, each once *)
Theorem C11_radius_exact :
  forall (P : list (list Z)) (dim mls : nat) (oracle : nat -> Z),
    1 <= dim -> 1 <= mls -> points_wf dim P ->
    forall nodes (P' : list (list Z)) (q : list Z) (r2 : Z), build P dim mls oracle = Ok nodes ->
      exists res, query_radius (self_points P P') nodes q r2 = Ok res /\ NoDup res /\
        (forall j, In j res <-> (j < length P /\ (sqdist P q j <= r2)%Z)).
Proof. exact radius_exact_alias. Qed.
Print Assumptions C11_radius_exact.

(* the generated split (_split_points with its rank fallback) makes progress whatever the pivot - median, median of a random
   sample, random element, or anything else: both sides are non-empty, together they are the leaf's points, and the split
   value separates them.  This is what makes `fast` and `random` terminate as well as `balanced`. *)
Theorem C11_split_progress :
  forall (P : list (list Z)) (pts : list nat) (ax : nat) (pivot sv : Z) (less more : list nat),
    2 <= length pts -> split P pts ax pivot = (sv, less, more) ->
    Permutation (less ++ more) pts /\ less <> nil /\ more <> nil /\
    (forall i, In i less -> (coord P i ax <= sv)%Z) /\ (forall i, In i more -> (sv <= coord P i ax)%Z).
Proof. exact split_spec. Qed.
Print Assumptions C11_split_progress.

(* max_leaf_size is respected: no leaf of the finished tree holds more points *)
Theorem C11_leaf_size_bound :
  forall (P : list (list Z)) (dim mls : nat) (oracle : nat -> Z) nodes,
    build P dim mls oracle = Ok nodes ->
    forall i ax lp bb, nth_error nodes i = Some (Leaf ax lp bb) -> length lp <= mls.
Proof. exact leaf_size_bound. Qed.
Print Assumptions C11_leaf_size_bound.

(* the node array is laid out parents first: both children of node i exist and come after i (no cycle, no dangling id) *)
Theorem C11_children_after_parent :
  forall (P : list (list Z)) (dim mls : nat) (oracle : nat -> Z),
    1 <= dim -> 1 <= mls -> points_wf dim P ->
    forall nodes, build P dim mls oracle = Ok nodes ->
    forall i ax sv l r bb, nth_error nodes i = Some (Node ax sv l r bb) ->
      i < l /\ l < length nodes /\ i < r /\ r < length nodes.
Proof. exact children_after_parent. Qed.
Print Assumptions C11_children_after_parent.

(* the radius answer, as a multiset of indices, is the index range filtered by the distance test (duplicated points included) *)
Theorem C11_radius_permutation :
  forall (P : list (list Z)) (dim mls : nat) (oracle : nat -> Z),
    1 <= dim -> 1 <= mls -> points_wf dim P ->
    forall nodes (P' : list (list Z)) (q : list Z) (r2 : Z), build P dim mls oracle = Ok nodes ->
      exists res, query_radius (self_points P P') nodes q r2 = Ok res /\
        Permutation res (filter (fun j => Z.leb (sqdist P q j) r2) (seq 0 (length P))).
Proof. exact radius_permutation. Qed.
Print Assumptions C11_radius_permutation.

(* k >= n: every point is returned exactly once, nearest first *)
Theorem C11_knn_all_points_when_k_ge_n :
  forall (P : list (list Z)) (dim mls : nat) (oracle : nat -> Z),
    1 <= dim -> 1 <= mls -> points_wf dim P ->
    forall nodes (P' : list (list Z)) (q : list Z) (k : nat), build P dim mls oracle = Ok nodes -> length P <= k ->
      exists res, query (self_points P P') nodes q k = Ok res /\
        Permutation res (seq 0 (length P)) /\
        StronglySorted (fun a b => (sqdist P q a <= sqdist P q b)%Z) res.
Proof. exact knn_all. Qed.
Print Assumptions C11_knn_all_points_when_k_ge_n.

(* _find_pivot: whichever strategy is used, the pivot it can return (the median, the median of a random sample, a random
   element - the rule per strategy is generated from the source) lies within every interval containing the coordinates
   of the leaf being split *)
Theorem C11_pivot_within_bounds :
  forall (lo hi : Z) (s : strategy) (coords : list Z) (pivot : Z),
    coords <> nil -> Forall (inb lo hi) coords -> pivot_ok (pivot_rule s) coords pivot = true -> inb lo hi pivot.
Proof. exact pivot_within_bounds. Qed.
Print Assumptions C11_pivot_within_bounds.
