(* C11: the breadth-first build loop - termination, partition, boxes, and the tree the node array represents. *)
From Coq Require Import ZArith List Bool Lia Arith PeanoNat Permutation Sorting.Sorted.
Import ListNotations.
Require Import MV.C11.Ext MV.C11.Gen MV.C11.Model MV.C11.ProofsGen.
Close Scope Z_scope.
Open Scope nat_scope.

(* ---------------------------------------------------------------- the inductive tree a node array represents *)
Inductive tree :=
| TL (pts : list nat) (bb : box)
| TN (bb : box) (lid rid : nat) (l r : tree).

Definition tbox (t : tree) : box := match t with TL _ b => b | TN b _ _ _ _ => b end.
Fixpoint tpts (t : tree) : list nat := match t with TL p _ => p | TN _ _ _ l r => tpts l ++ tpts r end.
Fixpoint tsize (t : tree) : nat := match t with TL _ _ => 1 | TN _ _ _ l r => 1 + tsize l + tsize r end.
(* both children of an internal node hold points *)
Fixpoint tne (t : tree) : Prop :=
  match t with TL _ _ => True | TN _ _ _ l r => tpts l <> [] /\ tpts r <> [] /\ tne l /\ tne r end.

Inductive repr (nodes : list node) : nat -> tree -> Prop :=
| repr_leaf i ax pts bb : nth_error nodes i = Some (Leaf ax pts bb) -> repr nodes i (TL pts bb)
| repr_node i ax sv l r bb tl tr :
    nth_error nodes i = Some (Node ax sv l r bb) -> repr nodes l tl -> repr nodes r tr ->
    repr nodes i (TN bb l r tl tr).

Lemma repr_some nodes i t : repr nodes i t -> exists nd, nth_error nodes i = Some nd /\ node_bb nd = tbox t.
Proof. intros H; inversion H; subst; eexists; split; eauto. Qed.

Lemma tsize_pos t : 1 <= tsize t.
Proof. destruct t; simpl; lia. Qed.

Lemma tsize_bound t : tne t -> tsize t <= Nat.max 1 (2 * length (tpts t) - 1).
Proof.
  induction t as [p b|b li ri l IHl r IHr]; cbn [tsize tpts tne]; intros H; [lia|].
  destruct H as (Hl & Hr & Hnl & Hnr). specialize (IHl Hnl). specialize (IHr Hnr).
  rewrite app_length.
  assert (1 <= length (tpts l)) by (destruct (tpts l); simpl; [congruence|lia]).
  assert (1 <= length (tpts r)) by (destruct (tpts r); simpl; [congruence|lia]).
  lia.
Qed.

(* ---------------------------------------------------------------- generic list facts *)
Lemma filter_partition_perm {A} (f : A -> bool) l :
  Permutation (filter f l ++ filter (fun x => negb (f x)) l) l.
Proof.
  induction l as [|x l IH]; simpl; [constructor|].
  destruct (f x); simpl.
  - constructor. exact IH.
  - apply Permutation_sym. apply Permutation_cons_app. apply Permutation_sym. exact IH.
Qed.

Lemma SS_nth {A} (R : A -> A -> Prop) (Rrefl : forall x, R x x) l d :
  StronglySorted R l -> forall i j, i <= j -> j < length l -> R (nth i l d) (nth j l d).
Proof.
  induction 1 as [|x l Hs IH Hf]; intros i j Hij Hj; simpl in *; [lia|].
  destruct i as [|i], j as [|j]; try lia.
  - apply Rrefl.
  - rewrite Forall_forall in Hf. apply Hf. apply nth_In. lia.
  - apply IH; lia.
Qed.

Section WithPoints.
  Variable P : list (list Z).
  Local Notation coord := (coord P).
  Local Notation pt := (pt P).

  Fixpoint twf (t : tree) : Prop :=
    Forall (fun j => inbox (tbox t) (pt j)) (tpts t) /\
    match t with TL _ _ => True | TN _ _ _ l r => twf l /\ twf r end.

  Lemma twf_box t : twf t -> Forall (fun j => inbox (tbox t) (pt j)) (tpts t).
  Proof. destruct t; simpl; tauto. Qed.

  (* ---------------------------------------------------------------- the stable insertion sort *)
  Definition cle (ax : nat) (i j : nat) : Prop := (coord i ax <= coord j ax)%Z.

  Lemma ins_perm ax i l : Permutation (ins P ax i l) (i :: l).
  Proof.
    induction l as [|j t IH]; simpl; [reflexivity|].
    destruct (Z.leb _ _); [reflexivity|].
    eapply Permutation_trans; [apply perm_skip; exact IH|]. apply perm_swap.
  Qed.

  Lemma isort_perm ax l : Permutation (isort P ax l) l.
  Proof.
    induction l as [|i t IH]; simpl; [constructor|].
    eapply Permutation_trans; [apply ins_perm|]. constructor. exact IH.
  Qed.

  Lemma ins_sorted ax i l : StronglySorted (cle ax) l -> StronglySorted (cle ax) (ins P ax i l).
  Proof.
    induction 1 as [|j t Hs IH Hf]; simpl.
    - constructor; constructor.
    - destruct (Z.leb_spec (coord i ax) (coord j ax)) as [Hle|Hgt].
      + constructor; [constructor; assumption|]. constructor; [exact Hle|].
        eapply Forall_impl; [|exact Hf]. unfold cle. intros; lia.
      + constructor; [exact IH|].
        eapply Permutation_Forall; [apply Permutation_sym; apply ins_perm|].
        constructor; [unfold cle; lia|exact Hf].
  Qed.

  Lemma isort_sorted ax l : StronglySorted (cle ax) (isort P ax l).
  Proof. induction l; simpl; [constructor|]. apply ins_sorted. assumption. Qed.

  (* ---------------------------------------------------------------- _split_points *)
  Lemma split_spec pts ax pivot sv less more :
    2 <= length pts -> split P pts ax pivot = (sv, less, more) ->
    Permutation (less ++ more) pts /\ less <> [] /\ more <> [] /\
    (forall i, In i less -> (coord i ax <= sv)%Z) /\ (forall i, In i more -> (sv <= coord i ax)%Z).
  Proof.
    intros Hlen. unfold split.
    destruct (degenerate _ _) eqn:Hdeg; intros E; inversion E; subst; clear E.
    - (* rank split *)
      set (order := isort P ax pts).
      set (h := rank_half (length pts)).
      assert (Hperm : Permutation order pts) by apply isort_perm.
      assert (Hlo : length order = length pts) by (apply Permutation_length; exact Hperm).
      destruct (rank_half_spec (length pts) Hlen) as [Hh1 Hh2]. fold h in Hh1, Hh2.
      destruct (rank_pivot_pos_spec h Hh1) as [Hp1 Hp2].
      assert (Hsplit : firstn h order ++ skipn h order = order) by apply firstn_skipn.
      assert (Hl1 : length (firstn h order) = h) by (rewrite firstn_length; lia).
      assert (Hl2 : length (skipn h order) = length pts - h) by (rewrite skipn_length; lia).
      assert (Hsorted : StronglySorted (cle ax) order) by apply isort_sorted.
      assert (Hrefl : forall x, cle ax x x) by (intros; unfold cle; lia).
      split; [rewrite Hsplit; exact Hperm|].
      split; [intros E; rewrite E in Hl1; simpl in Hl1; lia|].
      split; [intros E; rewrite E in Hl2; simpl in Hl2; lia|].
      split.
      + intros i Hi. destruct (In_nth _ _ O Hi) as (idx & Hidx & Hnth). rewrite Hl1 in Hidx.
        assert (Hn : nth idx order O = i).
        { rewrite <- Hsplit. rewrite app_nth1; [exact Hnth|lia]. }
        rewrite <- Hn. apply (SS_nth (cle ax) Hrefl order O Hsorted); lia.
      + intros i Hi. destruct (In_nth _ _ O Hi) as (idx & Hidx & Hnth). rewrite Hl2 in Hidx.
        assert (Hn : nth (h + idx) order O = i).
        { rewrite <- Hsplit. rewrite app_nth2; [|lia]. rewrite Hl1. replace (h + idx - h) with idx by lia. exact Hnth. }
        rewrite <- Hn. apply (SS_nth (cle ax) Hrefl order O Hsorted); lia.
    - (* the pivot separates the points *)
      apply degenerate_false in Hdeg. destruct Hdeg as [Ha Hb].
      split; [apply filter_partition_perm|].
      split; [intros E; rewrite E in Ha; simpl in Ha; congruence|].
      split; [intros E; rewrite E in Hb; simpl in Hb; congruence|].
      split; intros i Hi; apply filter_In in Hi; destruct Hi as [_ Hi].
      + apply goes_left_true. exact Hi.
      + apply goes_left_false. apply negb_true_iff. exact Hi.
  Qed.

  (* ---------------------------------------------------------------- termination of the build loop *)
  Definition w (p : pend) : nat := Nat.max 1 (2 * length (p_pts p) - 1).
  Definition phi (q : list pend) : nat := list_sum (map w q).

  Lemma phi_app a b : phi (a ++ b) = phi a + phi b.
  Proof. unfold phi. rewrite map_app, list_sum_app. reflexivity. Qed.

  Section Build.
    Variable dim mls : nat.
    Variable oracle : nat -> Z.
    Hypothesis Hmls : 1 <= mls.

    Lemma phi_cons p q : phi (p :: q) = w p + phi q.
    Proof. reflexivity. Qed.

    Lemma w_pos p : 1 <= w p.
    Proof. unfold w. lia. Qed.

    Lemma bloop_terminates fuel : forall done queue nid ns,
      phi queue <= fuel -> exists nodes, bloop P dim mls oracle fuel done queue nid ns = Ok nodes.
    Proof.
      induction fuel as [|fuel IH]; intros done queue nid ns Hphi.
      - destruct queue as [|lf rest]; [simpl; eauto|].
        rewrite phi_cons in Hphi. pose proof (w_pos lf). lia.
      - destruct queue as [|lf rest]; [simpl; eauto|].
        rewrite phi_cons in Hphi. cbn [bloop].
        destruct (leaf_ok _ _) eqn:Hleaf.
        + apply IH. pose proof (w_pos lf). lia.
        + destruct (split P (p_pts lf) (p_axis lf) (oracle ns)) as [[sv less] more] eqn:Hs.
          assert (Hlen := leaf_ok_false _ _ Hleaf Hmls).
          destruct (split_spec _ _ _ _ _ _ Hlen Hs) as (Hperm & Hl & Hm & _ & _).
          apply IH. rewrite phi_app, !phi_cons.
          apply Permutation_length in Hperm. rewrite app_length in Hperm.
          assert (1 <= length less) by (destruct less; simpl; [congruence|lia]).
          assert (1 <= length more) by (destruct more; simpl; [congruence|lia]).
          unfold w in *. cbn [p_pts]. change (phi []) with 0. lia.
    Qed.

    Lemma build_terminates : exists nodes, build P dim mls oracle = Ok nodes.
    Proof.
      unfold build. apply bloop_terminates. rewrite phi_cons. change (phi []) with 0.
      unfold fuel_bound, root, w. cbn [p_pts]. rewrite seq_length. lia.
    Qed.

    (* ---------------------------------------------------------------- the leaves partition the indices *)
    Definition leaf_pts (nd : node) : list nat := match nd with Leaf _ lp _ => lp | _ => [] end.
    Definition leaves (nodes : list node) : list nat := flat_map leaf_pts nodes.

    Lemma bloop_partition fuel : forall done queue nid ns nodes S,
      Permutation (leaves done ++ flat_map p_pts queue) S ->
      bloop P dim mls oracle fuel done queue nid ns = Ok nodes -> Permutation (leaves nodes) S.
    Proof.
      induction fuel as [|fuel IH]; intros done queue nid ns nodes S HS Hb.
      - destruct queue as [|lf rest]; simpl in Hb; [|discriminate].
        inversion Hb; subst. simpl in HS. rewrite app_nil_r in HS. exact HS.
      - destruct queue as [|lf rest]; simpl in Hb.
        + inversion Hb; subst. simpl in HS. rewrite app_nil_r in HS. exact HS.
        + destruct (leaf_ok _ _) eqn:Hleaf.
          * eapply IH; [|exact Hb]. unfold leaves. rewrite flat_map_app. simpl. rewrite app_nil_r.
            rewrite <- app_assoc. exact HS.
          * destruct (split P (p_pts lf) (p_axis lf) (oracle ns)) as [[sv less] more] eqn:Hs.
            assert (Hlen := leaf_ok_false _ _ Hleaf Hmls).
            destruct (split_spec _ _ _ _ _ _ Hlen Hs) as (Hperm & _).
            eapply IH; [|exact Hb]. unfold leaves. rewrite !flat_map_app. simpl. rewrite !app_nil_r.
            eapply Permutation_trans; [|exact HS]. apply Permutation_app_head. simpl.
            eapply Permutation_trans; [apply Permutation_app_comm|].
            apply Permutation_app_tail. exact Hperm.
    Qed.

    (* ---------------------------------------------------------------- ghost invariant: G i = the points handed to node i *)
    Definition nprop (G : nat -> list nat) (nid i : nat) (nd : node) : Prop :=
      match nd with
      | Leaf _ lp bb => G i = lp /\ Forall (fun j => inbox bb (pt j)) lp
      | Node _ _ l r bb =>
        (i < l /\ l < nid) /\ (i < r /\ r < nid) /\ Permutation (G l ++ G r) (G i) /\ G l <> [] /\ G r <> [] /\
        Forall (fun j => inbox bb (pt j)) (G i)
      end.

    Fixpoint DInv (G : nat -> list nat) (nid start : nat) (done : list node) : Prop :=
      match done with [] => True | nd :: t => nprop G nid start nd /\ DInv G nid (S start) t end.

    Fixpoint QInv (G : nat -> list nat) (start : nat) (queue : list pend) : Prop :=
      match queue with
      | [] => True
      | p :: t => (G start = p_pts p /\ Forall (fun j => inbox (p_bb p) (pt j)) (p_pts p)) /\ QInv G (S start) t
      end.

    Lemma DInv_app G nid a : forall s b, DInv G nid s (a ++ b) <-> DInv G nid s a /\ DInv G nid (s + length a) b.
    Proof.
      induction a as [|x a IH]; intros s b; simpl.
      - rewrite Nat.add_0_r. tauto.
      - rewrite IH. replace (S s + length a) with (s + S (length a)) by lia. tauto.
    Qed.

    Lemma QInv_app G a : forall s b, QInv G s (a ++ b) <-> QInv G s a /\ QInv G (s + length a) b.
    Proof.
      induction a as [|x a IH]; intros s b; simpl.
      - rewrite Nat.add_0_r. tauto.
      - rewrite IH. replace (S s + length a) with (s + S (length a)) by lia. tauto.
    Qed.

    Lemma DInv_mono G G' nid nid' done : forall s,
      nid <= nid' -> (forall i, i < nid -> G' i = G i) -> s + length done <= nid ->
      DInv G nid s done -> DInv G' nid' s done.
    Proof.
      induction done as [|nd t IH]; intros s Hn HG Hs H; simpl in *; [exact I|].
      destruct H as [H1 H2]. split; [|apply IH; auto; lia].
      destruct nd as [ax lp bb|ax sv l r bb]; simpl in *.
      - rewrite HG by lia. exact H1.
      - destruct H1 as ((A1 & A2) & (B1 & B2) & C & D & E & F).
        rewrite !HG by lia. repeat split; auto; lia.
    Qed.

    Lemma QInv_ext G G' q : forall s,
      (forall i, s <= i < s + length q -> G' i = G i) -> QInv G s q -> QInv G' s q.
    Proof.
      induction q as [|p t IH]; intros s HG H; simpl in *; [exact I|].
      destruct H as [[H1 H2] H3]. split; [split; [rewrite HG by lia; exact H1|exact H2]|].
      apply IH; [|exact H3]. intros i Hi. apply HG. lia.
    Qed.

    Lemma DInv_nth G nid done : forall s i nd,
      DInv G nid s done -> nth_error done i = Some nd -> nprop G nid (s + i) nd.
    Proof.
      induction done as [|x t IH]; intros s i nd H Hn; [destruct i; discriminate|].
      simpl in H. destruct H as [H1 H2]. destruct i as [|i]; simpl in Hn.
      - inversion Hn; subst. rewrite Nat.add_0_r. exact H1.
      - replace (s + S i) with (S s + i) by lia. eapply IH; eauto.
    Qed.

    Lemma bloop_inv fuel : forall done queue nid ns nodes G,
      nid = length done + length queue -> DInv G nid 0 done -> QInv G (length done) queue ->
      bloop P dim mls oracle fuel done queue nid ns = Ok nodes ->
      exists G', (forall i, i < nid -> G' i = G i) /\ DInv G' (length nodes) 0 nodes.
    Proof.
      induction fuel as [|fuel IH]; intros done queue nid ns nodes G Hnid HD HQ Hb.
      - destruct queue as [|lf rest]; simpl in Hb; [|discriminate].
        inversion Hb; subst. exists G. split; [auto|]. simpl in HD. rewrite Nat.add_0_r in HD. exact HD.
      - destruct queue as [|lf rest]; simpl in Hb.
        { inversion Hb; subst. exists G. split; [auto|]. simpl in HD. rewrite Nat.add_0_r in HD. exact HD. }
        simpl in HQ. destruct HQ as [[HG0 Hbox] HQ]. simpl in Hnid.
        destruct (leaf_ok _ _) eqn:Hleaf.
        + (* the leaf is final *)
          apply IH with (G := G) in Hb.
          * exact Hb.
          * rewrite app_length. simpl. lia.
          * apply DInv_app. split; [exact HD|]. simpl. split; [|exact I]. split; assumption.
          * rewrite app_length. simpl. replace (length done + 1) with (S (length done)) by lia. exact HQ.
        + (* the leaf is split *)
          destruct (split P (p_pts lf) (p_axis lf) (oracle ns)) as [[sv less] more] eqn:Hs.
          assert (Hlen := leaf_ok_false _ _ Hleaf Hmls).
          destruct (split_spec _ _ _ _ _ _ Hlen Hs) as (Hperm & Hl & Hm & Hcl & Hcm).
          set (G1 := fun i => if Nat.eqb i nid then less else if Nat.eqb i (S nid) then more else G i).
          assert (HG1 : forall i, i < nid -> G1 i = G i).
          { intros i Hi. unfold G1. destruct (Nat.eqb_spec i nid); [lia|]. destruct (Nat.eqb_spec i (S nid)); [lia|]. reflexivity. }
          assert (HG1a : G1 nid = less).
          { unfold G1. rewrite Nat.eqb_refl. reflexivity. }
          assert (HG1b : G1 (S nid) = more).
          { unfold G1. destruct (Nat.eqb_spec (S nid) nid); [lia|]. rewrite Nat.eqb_refl. reflexivity. }
          apply IH with (G := G1) in Hb.
          * destruct Hb as (G' & HG' & HD'). exists G'. split; [|exact HD'].
            intros i Hi. rewrite HG' by lia. apply HG1. exact Hi.
          * rewrite !app_length. simpl. lia.
          * apply DInv_app. split.
            { eapply DInv_mono with (nid := nid); [lia|exact HG1|simpl; lia|exact HD]. }
            simpl. split; [|exact I].
            rewrite HG1a, HG1b, (HG1 (length done)) by lia. rewrite HG0.
            repeat split; auto; lia.
          * rewrite app_length. simpl. replace (length done + 1) with (S (length done)) by lia.
            apply QInv_app. split.
            { eapply QInv_ext; [|exact HQ]. intros i Hi. apply HG1. lia. }
            replace (S (length done) + length rest) with nid by lia.
            simpl. rewrite HG1a, HG1b.
            assert (Hin : forall j, In j (less ++ more) -> inbox (p_bb lf) (pt j)).
            { intros j Hj. rewrite Forall_forall in Hbox. apply Hbox. eapply Permutation_in; [exact Hperm|exact Hj]. }
            repeat split; auto.
            { apply Forall_forall. intros j Hj. apply less_box_spec; [apply Hin; apply in_or_app; auto|]. apply Hcl. exact Hj. }
            { apply Forall_forall. intros j Hj. apply more_box_spec; [apply Hin; apply in_or_app; auto|]. apply Hcm. exact Hj. }
    Qed.

    Lemma bloop_length fuel : forall done queue nid ns nodes,
      bloop P dim mls oracle fuel done queue nid ns = Ok nodes -> length done + length queue <= length nodes.
    Proof.
      induction fuel as [|fuel IH]; intros done queue nid ns nodes Hb.
      - destruct queue; simpl in Hb; [|discriminate]. inversion Hb; subst. simpl. lia.
      - destruct queue as [|lf rest]; simpl in Hb; [inversion Hb; subst; simpl; lia|].
        destruct (leaf_ok _ _).
        + apply IH in Hb. rewrite app_length in Hb. simpl in *. lia.
        + destruct (split P (p_pts lf) (p_axis lf) (oracle ns)) as [[sv less] more].
          apply IH in Hb. rewrite !app_length in Hb. simpl in *. lia.
    Qed.

    (* ---------------------------------------------------------------- from the final invariant to the tree *)
    Lemma tree_of_inv nodes G : DInv G (length nodes) 0 nodes ->
      forall m i, length nodes - i <= m -> i < length nodes ->
      exists t, repr nodes i t /\ Permutation (tpts t) (G i) /\ twf t /\ tne t.
    Proof.
      intros HD. induction m as [|m IH]; intros i Hm Hi; [lia|].
      destruct (nth_error nodes i) as [nd|] eqn:Hn; [|apply nth_error_None in Hn; lia].
      pose proof (DInv_nth _ _ _ 0 i nd HD Hn) as Hp. simpl in Hp.
      destruct nd as [ax lp bb|ax sv l r bb]; simpl in Hp.
      - destruct Hp as [Hg Hbox]. exists (TL lp bb). split; [econstructor; eauto|].
        simpl. rewrite Hg. repeat split; auto.
      - destruct Hp as ((A1 & A2) & (B1 & B2) & C & D & E & F).
        destruct (IH l ltac:(lia) A2) as (tl & Rl & Pl & Wl & Nl).
        destruct (IH r ltac:(lia) B2) as (tr & Rr & Pr & Wr & Nr).
        exists (TN bb l r tl tr).
        assert (HP : Permutation (tpts tl ++ tpts tr) (G i)).
        { eapply Permutation_trans; [|exact C]. apply Permutation_app; assumption. }
        split; [econstructor; eauto|]. simpl. split; [exact HP|]. split.
        + split; [|split; assumption].
          eapply Permutation_Forall; [apply Permutation_sym; exact HP|exact F].
        + repeat split; auto.
          * intros Ee. rewrite Ee in Pl. apply Permutation_nil in Pl. congruence.
          * intros Ee. rewrite Ee in Pr. apply Permutation_nil in Pr. congruence.
    Qed.

    Hypothesis HP : Forall (fun p => length p = dim) P.

    Lemma pt_length j : j < length P -> length (pt j) = dim.
    Proof. intros Hj. rewrite Forall_forall in HP. apply HP. apply nth_In. exact Hj. Qed.

    Lemma build_inv nodes : build P dim mls oracle = Ok nodes ->
      0 < length nodes /\ exists G, G 0 = seq 0 (length P) /\ DInv G (length nodes) 0 nodes.
    Proof.
      unfold build. intros Hb.
      assert (Hlen : 0 < length nodes) by (apply bloop_length in Hb; simpl in Hb; lia).
      split; [exact Hlen|].
      apply bloop_inv with (G := fun _ => seq 0 (length P)) in Hb.
      - destruct Hb as (G' & HG' & HD). exists G'. split; [apply (HG' 0); lia|exact HD].
      - reflexivity.
      - exact I.
      - simpl. repeat split; auto. apply Forall_forall. intros j Hj. apply in_seq in Hj.
        apply inbox_infinite. apply pt_length. lia.
    Qed.

    Theorem build_tree nodes : build P dim mls oracle = Ok nodes ->
      exists t, repr nodes 0 t /\ Permutation (tpts t) (seq 0 (length P)) /\ twf t /\ tne t.
    Proof.
      intros Hb. destruct (build_inv nodes Hb) as (Hlen & G & HG & HD).
      destruct (tree_of_inv nodes G HD (length nodes) 0 ltac:(lia) Hlen) as (t & R & Pm & W & N).
      exists t. rewrite HG in Pm. auto.
    Qed.

    Theorem build_leaf_boxes nodes : build P dim mls oracle = Ok nodes ->
      forall i ax lp bb, nth_error nodes i = Some (Leaf ax lp bb) -> forall j, In j lp -> inbox bb (pt j).
    Proof.
      intros Hb i ax lp bb Hn j Hj. destruct (build_inv nodes Hb) as (_ & G & _ & HD).
      pose proof (DInv_nth _ _ _ 0 i _ HD Hn) as Hp. simpl in Hp. destruct Hp as [_ Hf].
      rewrite Forall_forall in Hf. apply Hf. exact Hj.
    Qed.

    Theorem build_partition nodes : build P dim mls oracle = Ok nodes ->
      Permutation (leaves nodes) (seq 0 (length P)).
    Proof.
      unfold build. intros Hb. eapply bloop_partition; [|exact Hb]. simpl. rewrite app_nil_r. reflexivity.
    Qed.

  End Build.
End WithPoints.
