(* C11: what the proofs need from the GENERATED definitions (Gen.v), and order facts on extended integers.
   The scripts are deliberately generic (`unfold; destruct; lia`): a rewrite of the source that keeps the needed
   fact (e.g. `<=` -> `<` in the split predicate, `>` -> `>=` in the kNN prune test) still goes through, a rewrite
   that loses it (operator flipped the wrong way, off-by-one in `half`, swapped box bound) breaks the proof. *)
From Coq Require Import ZArith List Bool Lia Arith PeanoNat.
Import ListNotations.
Require Import MV.C11.Ext MV.C11.Heap MV.C11.Gen MV.C11.Model MV.C11.ProofsHeap.
Open Scope Z_scope.

(* ---------------------------------------------------------------- order on ext *)
Definition ele (a b : ext) : Prop := eleb a b = true.

Lemma ele_refl a : ele a a.
Proof. destruct a; unfold ele; simpl; auto. apply Z.leb_refl. Qed.

Lemma ele_trans a b c : ele a b -> ele b c -> ele a c.
Proof. unfold ele; destruct a, b, c; simpl; intros; auto; try discriminate. apply Z.leb_le in H, H0. apply Z.leb_le. lia. Qed.

Lemma ele_fin x y : ele (Fin x) (Fin y) <-> x <= y.
Proof. unfold ele; simpl. apply Z.leb_le. Qed.

Lemma eltb_false a b : eltb a b = false -> ele b a.
Proof. unfold eltb, ele. destruct (eleb b a); simpl; congruence. Qed.

Lemma eltb_true a b : eltb a b = true -> ~ ele b a.
Proof. unfold eltb, ele. destruct (eleb b a); simpl; congruence. Qed.

Lemma eleb_total a b : eleb a b = false -> ele b a.
Proof. unfold ele; destruct a, b; simpl; auto; try discriminate. intros H. apply Z.leb_gt in H. apply Z.leb_le. lia. Qed.

Lemma eeqb_sym_le a b : eeqb a b = true -> ele a b /\ ele b a.
Proof. unfold eeqb, ele. intros H. apply andb_true_iff in H. exact H. Qed.

Lemma ele_PosInf_l a : ele PosInf a -> a = PosInf.
Proof. unfold ele; destruct a; simpl; congruence. Qed.

(* ---------------------------------------------------------------- boxes *)
Fixpoint inbox_l (l h : list ext) (p : list Z) : Prop :=
  match l, h, p with
  | [], [], [] => True
  | a :: l', b :: h', c :: p' => ele a (Fin c) /\ ele (Fin c) b /\ inbox_l l' h' p'
  | _, _, _ => False
  end.
Definition inbox (b : box) (p : list Z) : Prop := inbox_l (lo b) (hi b) p.

Lemma inbox_infinite dim p : length p = dim -> inbox (infinite_box dim) p.
Proof.
  unfold inbox, infinite_box; simpl. revert p. induction dim as [|d IH]; intros [|c p] H; simpl in *; try discriminate.
  - exact I.
  - split; [reflexivity|]. split; [reflexivity|]. apply IH. lia.
Qed.

Lemma inbox_upd_hi l h p ax sv : inbox_l l h p -> nth ax p 0 <= sv -> inbox_l l (upd h ax (Fin sv)) p.
Proof.
  revert h p ax. induction l as [|a l IH]; intros [|b h] [|c p] ax H Hc; simpl in *; try contradiction; auto.
  destruct H as (H1 & H2 & H3). destruct ax as [|ax]; simpl.
  - repeat split; auto. apply ele_fin. exact Hc.
  - repeat split; auto.
Qed.

Lemma inbox_upd_lo l h p ax sv : inbox_l l h p -> sv <= nth ax p 0 -> inbox_l (upd l ax (Fin sv)) h p.
Proof.
  revert h p ax. induction l as [|a l IH]; intros [|b h] [|c p] ax H Hc; simpl in *; try contradiction; auto.
  destruct H as (H1 & H2 & H3). destruct ax as [|ax]; simpl.
  - repeat split; auto. apply ele_fin. exact Hc.
  - repeat split; auto.
Qed.

(* the box handed to the `less` child contains the points whose coordinate is <= the split value, ... *)
Lemma less_box_spec b ax sv p : inbox b p -> nth ax p 0 <= sv -> inbox (less_box b ax sv) p.
Proof.
  unfold inbox, less_box; destruct b as [l h]; simpl. intros H Hc.
  first [ apply inbox_upd_hi; assumption | apply inbox_upd_lo; assumption | exact H ].
Qed.

Lemma more_box_spec b ax sv p : inbox b p -> sv <= nth ax p 0 -> inbox (more_box b ax sv) p.
Proof.
  unfold inbox, more_box; destruct b as [l h]; simpl. intros H Hc.
  first [ apply inbox_upd_lo; assumption | apply inbox_upd_hi; assumption | exact H ].
Qed.

(* ---------------------------------------------------------------- AABB.distance: the excess is a lower bound *)
Lemma box_excess_spec l h c q :
  ele l (Fin c) -> ele (Fin c) h -> exists e, box_excess l h q = Fin e /\ 0 <= e /\ e * e <= (q - c) * (q - c).
Proof.
  unfold ele. intros Hl Hh. pose proof (Z.square_nonneg (q - c)) as Hsq.
  destruct l as [|x|], h as [|y|]; simpl in Hl, Hh; try discriminate;
  try apply Z.leb_le in Hl; try apply Z.leb_le in Hh;
  cbv [box_excess emax esub_ez esub_ze eleb];
  repeat match goal with
           | |- context [ if (?a <=? ?b) then _ else _ ] => destruct (Z.leb_spec a b)
         end.
  all: eexists; (split; [reflexivity|]).
  all: split; [lia|nia].
Qed.

(* ---------------------------------------------------------------- build predicates *)
Lemma leaf_ok_false size mls : leaf_ok size mls = false -> (1 <= mls)%nat -> (2 <= size)%nat.
Proof.
  unfold leaf_ok. intros H Hm.
  repeat match goal with
         | H : context [ Nat.leb ?a ?b ] |- _ => destruct (Nat.leb_spec a b)
         | H : context [ Nat.ltb ?a ?b ] |- _ => destruct (Nat.ltb_spec a b)
         end; simpl in *; try discriminate; lia.
Qed.

Lemma goes_left_true c pivot : goes_left c pivot = true -> c <= pivot.
Proof.
  unfold goes_left. intros H.
  repeat match goal with
         | H : context [ Z.leb ?a ?b ] |- _ => destruct (Z.leb_spec a b)
         | H : context [ Z.ltb ?a ?b ] |- _ => destruct (Z.ltb_spec a b)
         end; simpl in *; try discriminate; lia.
Qed.

Lemma goes_left_false c pivot : goes_left c pivot = false -> pivot <= c.
Proof.
  unfold goes_left. intros H.
  repeat match goal with
         | H : context [ Z.leb ?a ?b ] |- _ => destruct (Z.leb_spec a b)
         | H : context [ Z.ltb ?a ?b ] |- _ => destruct (Z.ltb_spec a b)
         end; simpl in *; try discriminate; lia.
Qed.

Lemma degenerate_false a b : degenerate a b = false -> a <> O /\ b <> O.
Proof.
  unfold degenerate. intros H.
  repeat match goal with
         | H : context [ Nat.eqb ?a ?b ] |- _ => destruct (Nat.eqb_spec a b)
         | H : context [ Nat.leb ?a ?b ] |- _ => destruct (Nat.leb_spec a b)
         | H : context [ Nat.ltb ?a ?b ] |- _ => destruct (Nat.ltb_spec a b)
         end; simpl in *; try discriminate; lia.
Qed.

Lemma rank_half_spec size : (2 <= size)%nat -> (1 <= rank_half size /\ rank_half size < size)%nat.
Proof.
  unfold rank_half. intros H.
  assert (H2 := Nat.div_mod size 2 ltac:(lia)). assert (H3 := Nat.mod_upper_bound size 2 ltac:(lia)).
  assert (H4 := Nat.div_mod (size + 1) 2 ltac:(lia)). assert (H5 := Nat.mod_upper_bound (size + 1) 2 ltac:(lia)).
  assert (H6 := Nat.div_mod (size - 1) 2 ltac:(lia)). assert (H7 := Nat.mod_upper_bound (size - 1) 2 ltac:(lia)).
  lia.
Qed.

(* the rank pivot is the last element of the first half or the first element of the second half *)
Lemma rank_pivot_pos_spec half : (1 <= half)%nat -> (half - 1 <= rank_pivot_pos half /\ rank_pivot_pos half <= half)%nat.
Proof. unfold rank_pivot_pos. lia. Qed.

(* ---------------------------------------------------------------- query predicates *)
Lemma knn_evict_true n k : knn_evict n k = true -> (k < n)%nat.
Proof.
  unfold knn_evict. intros H.
  repeat match goal with
         | H : context [ Nat.leb ?a ?b ] |- _ => destruct (Nat.leb_spec a b)
         | H : context [ Nat.ltb ?a ?b ] |- _ => destruct (Nat.ltb_spec a b)
         end; simpl in *; try discriminate; lia.
Qed.

Lemma knn_evict_false n k : knn_evict n k = false -> (n <= k)%nat.
Proof.
  unfold knn_evict. intros H.
  repeat match goal with
         | H : context [ Nat.leb ?a ?b ] |- _ => destruct (Nat.leb_spec a b)
         | H : context [ Nat.ltb ?a ?b ] |- _ => destruct (Nat.ltb_spec a b)
         end; simpl in *; try discriminate; lia.
Qed.

(* a finite pruning bound is only used once k candidates are held (and the heap is not empty) *)
Lemma knn_full_true n k e : knn_full n k e = true -> (k <= n)%nat /\ e = false.
Proof.
  unfold knn_full. intros H. destruct e; simpl in *;
  repeat match goal with
         | H : context [ Nat.leb ?a ?b ] |- _ => destruct (Nat.leb_spec a b)
         | H : context [ Nat.ltb ?a ?b ] |- _ => destruct (Nat.ltb_spec a b)
         | H : context [ Nat.eqb ?a ?b ] |- _ => destruct (Nat.eqb_spec a b)
         end; simpl in *; try discriminate; split; auto; lia.
Qed.

(* a child is skipped only if its box is at least as far as the pruning bound *)
Lemma knn_visit_false f d : knn_visit f d = false -> ele f d.
Proof.
  unfold knn_visit. intros H.
  first [ apply eltb_false; exact H
        | apply eleb_total; exact H ].
Qed.

Lemma knn_result_reversed_true : knn_result_reversed = true.
Proof. reflexivity. Qed.

(* a node is skipped by the radius query only if its box is strictly farther than the radius *)
Lemma rad_prune_true d r : rad_prune d r = true -> ~ ele d r.
Proof. unfold rad_prune. intros H. apply eltb_true. exact H. Qed.

Lemma rad_keep_iff d r : rad_keep d r = true <-> d <= r.
Proof.
  unfold rad_keep.
  first [ apply Z.leb_le | (rewrite Z.geb_leb; apply Z.leb_le) ].
Qed.

(* ---------------------------------------------------------------- PriorityItem / PriorityQueue (priority_queue.py) *)
(* the comparator is a strict weak order that compares priorities: what the heap contract of ProofsHeap.v needs *)
Lemma item_lt_ok : lt_ok item_lt.
Proof.
  constructor; unfold item_lt; intros;
  repeat match goal with
         | H : context [ Z.ltb ?a ?b ] |- _ => destruct (Z.ltb_spec a b)
         | |- context [ Z.ltb ?a ?b ] => destruct (Z.ltb_spec a b)
         end; simpl in *; try discriminate; try reflexivity; lia.
Qed.

(* `not (a < b)` means b's priority is at most a's: the popped item has a smallest priority *)
Lemma item_lt_false a b : item_lt a b = false -> fst b <= fst a.
Proof.
  unfold item_lt. intros H.
  repeat match goal with
         | H : context [ Z.ltb ?a ?b ] |- _ => destruct (Z.ltb_spec a b)
         end; simpl in *; try discriminate; lia.
Qed.

Lemma pq_push_eq d x w : pq_push d x w = heappush item item_lt item_dummy d (w, x).
Proof. reflexivity. Qed.

Lemma pq_pop_eq d : pq_pop d = heappop item item_lt item_dummy d.
Proof. reflexivity. Qed.

Lemma pq_empty_false d : pq_empty d = false -> d <> [].
Proof. intros H E. subst d. vm_compute in H. discriminate. Qed.

Lemma pq_front_cons d : d <> [] -> pq_front d = Some (nth 0 d item_dummy).
Proof. destruct d; [congruence|reflexivity]. Qed.

(* ---------------------------------------------------------------- the constructor keeps a private copy of its input *)
Lemma self_points_at_build at_build now : MV.C11.Model.self_points at_build now = at_build.
Proof. unfold MV.C11.Model.self_points. reflexivity. Qed.
