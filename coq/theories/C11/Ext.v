(* C11: numbers of the k-d tree model (definitions only).
   Coordinates are integers (the harness doubles everything so that medians of integer coordinates are integral);
   box bounds are integers extended with -inf / +inf (AABB.infinite); distances are SQUARED distances. *)
From Coq Require Import ZArith List Bool.
Import ListNotations.
Open Scope Z_scope.

Inductive ext := NegInf | Fin (z : Z) | PosInf.

Definition eleb (a b : ext) : bool :=
  match a, b with
  | NegInf, _ => true
  | _, PosInf => true
  | Fin x, Fin y => Z.leb x y
  | _, _ => false
  end.
Definition eltb (a b : ext) : bool := negb (eleb b a).
Definition eeqb (a b : ext) : bool := eleb a b && eleb b a.
Definition emax (a b : ext) : ext := if eleb a b then b else a.
(* a - q  and  q - a  for an extended a and a finite q (numpy: -inf - q = -inf, q - inf = -inf, ...) *)
Definition esub_ez (a : ext) (q : Z) : ext :=
  match a with NegInf => NegInf | Fin x => Fin (x - q) | PosInf => PosInf end.
Definition esub_ze (q : Z) (a : ext) : ext :=
  match a with NegInf => PosInf | Fin x => Fin (q - x) | PosInf => NegInf end.
Definition esq (a : ext) : ext := match a with Fin x => Fin (x * x) | _ => PosInf end.
Definition eadd (a b : ext) : ext :=
  match a, b with
  | Fin x, Fin y => Fin (x + y)
  | PosInf, _ | _, PosInf => PosInf
  | _, _ => NegInf
  end.

(* build strategies and what _find_pivot computes for each *)
Inductive strategy := Balanced | Fast | Random.
Inductive prule :=
| PMedian                        (* np.median(pts_ax) *)
| PMedianOfSample (cap : nat)    (* np.median of min(cap, size) values drawn from pts_ax without replacement *)
| PElement.                      (* np.random.choice(pts_ax, 1)[0] *)

Record box := mkbox { lo : list ext; hi : list ext }.

(* arr[i] = v on a copy *)
Fixpoint upd {A} (l : list A) (i : nat) (v : A) : list A :=
  match l, i with
  | [], _ => []
  | _ :: t, O => v :: t
  | x :: t, S j => x :: upd t j v
  end.

Definition infinite_box (dim : nat) : box := mkbox (repeat NegInf dim) (repeat PosInf dim).

(* sum_i (p_i - q_i)^2 : square of geometry.distance (norm(B-A), l2) *)
Fixpoint dist2 (p q : list Z) : Z :=
  match p, q with
  | a :: p', b :: q' => (b - a) * (b - a) + dist2 p' q'
  | _, _ => 0
  end.

Definition ext_eqb (a b : ext) : bool :=
  match a, b with
  | NegInf, NegInf => true | PosInf, PosInf => true | Fin x, Fin y => Z.eqb x y | _, _ => false
  end.
