(* C11 round 7: further theorems about the model - the generated split always makes progress (whatever the pivot: any
   strategy), leaves respect max_leaf_size, children come after their parent in the node array, the radius answer as a
   permutation of the filtered index range (duplicated points included), kNN with k >= n returns every point. *)
From Coq Require Import ZArith List Bool Lia Arith PeanoNat Permutation Sorting.Sorted.
Import ListNotations.
Require Import MV.C11.Ext MV.C11.Heap MV.C11.Gen MV.C11.Model MV.C11.ProofsHeap MV.C11.ProofsGen MV.C11.ProofsBuild
               MV.C11.ProofsQuery MV.C11.Proofs.
Close Scope Z_scope.
Open Scope nat_scope.

(* a leaf is appended only when its size passed the leaf test *)
Lemma leaf_ok_true size mls : leaf_ok size mls = true -> size <= mls.
Proof.
  unfold leaf_ok. intros H.
  repeat match goal with
         | H : context [ Nat.leb ?a ?b ] |- _ => destruct (Nat.leb_spec a b)
         | H : context [ Nat.ltb ?a ?b ] |- _ => destruct (Nat.ltb_spec a b)
         end; simpl in *; try discriminate; lia.
Qed.

Section More.
  Variable P : list (list Z).
  Variables dim mls : nat.
  Variable oracle : nat -> Z.
  Hypothesis Hdim : 1 <= dim.
  Hypothesis Hmls : 1 <= mls.
  Hypothesis HP : points_wf dim P.

  (* ---------------------------------------------------------------- max_leaf_size is respected *)
  Definition leaf_small (nd : node) : Prop := match nd with Leaf _ lp _ => length lp <= mls | _ => True end.

  Lemma bloop_leaf_sizes fuel : forall done queue nid ns nodes,
    Forall leaf_small done -> bloop P dim mls oracle fuel done queue nid ns = Ok nodes -> Forall leaf_small nodes.
  Proof.
    induction fuel as [|fuel IH]; intros done queue nid ns nodes Hd Hb.
    - destruct queue; simpl in Hb; [|discriminate]. inversion Hb; subst. exact Hd.
    - destruct queue as [|lf rest]; simpl in Hb; [inversion Hb; subst; exact Hd|].
      destruct (leaf_ok _ _) eqn:Hleaf.
      + eapply IH; [|exact Hb]. apply Forall_app. split; [exact Hd|]. constructor; [|constructor].
        simpl. apply leaf_ok_true. exact Hleaf.
      + destruct (split P (p_pts lf) (p_axis lf) (oracle ns)) as [[sv less] more].
        eapply IH; [|exact Hb]. apply Forall_app. split; [exact Hd|]. constructor; [exact I|constructor].
  Qed.

  Theorem leaf_size_bound nodes : build P dim mls oracle = Ok nodes ->
    forall i ax lp bb, nth_error nodes i = Some (Leaf ax lp bb) -> length lp <= mls.
  Proof.
    unfold build. intros Hb i ax lp bb Hn.
    pose proof (bloop_leaf_sizes _ _ _ _ _ _ (Forall_nil _) Hb) as Hf.
    rewrite Forall_forall in Hf. apply (Hf (Leaf ax lp bb)). eapply nth_error_In. exact Hn.
  Qed.

  (* ---------------------------------------------------------------- the array is laid out parents first *)
  Theorem children_after_parent nodes : build P dim mls oracle = Ok nodes ->
    forall i ax sv l r bb, nth_error nodes i = Some (Node ax sv l r bb) ->
      i < l /\ l < length nodes /\ i < r /\ r < length nodes.
  Proof.
    intros Hb i ax sv l r bb Hn. destruct (build_inv P dim mls oracle Hmls HP nodes Hb) as (_ & G & _ & HD).
    pose proof (DInv_nth P mls oracle Hmls _ _ _ 0 i _ HD Hn) as Hp. simpl in Hp.
    destruct Hp as ((A1 & A2) & (B1 & B2) & _). lia.
  Qed.

  (* ---------------------------------------------------------------- radius answer = the filtered index range, as a multiset *)
  Theorem radius_permutation nodes P' q r2 : build P dim mls oracle = Ok nodes ->
    exists res, query_radius (self_points P P') nodes q r2 = Ok res /\
      Permutation res (filter (fun j => Z.leb (sqdist P q j) r2) (seq 0 (length P))).
  Proof.
    intros Hb. destruct (radius_exact_alias P dim mls oracle Hdim Hmls HP nodes P' q r2 Hb) as (res & E & Hnd & Hin).
    exists res. split; [exact E|]. apply NoDup_Permutation; [exact Hnd|apply NoDup_filter; apply seq_NoDup|].
    intros j. rewrite Hin, filter_In, in_seq, Z.leb_le. split; intros [A B]; split; auto; lia.
  Qed.

  (* ---------------------------------------------------------------- k >= n: every point is returned, nearest first *)
  Theorem knn_all nodes P' q k : build P dim mls oracle = Ok nodes -> length P <= k ->
    exists res, query (self_points P P') nodes q k = Ok res /\
      Permutation res (seq 0 (length P)) /\
      StronglySorted (fun a b => (sqdist P q a <= sqdist P q b)%Z) res.
  Proof.
    intros Hb Hk. destruct (knn_exact_alias P dim mls oracle Hdim Hmls HP nodes P' q k Hb) as (res & E & Hl & Hnd & Hlt & Hs & _).
    exists res. split; [exact E|]. split; [|exact Hs].
    apply NoDup_Permutation_bis; [exact Hnd|rewrite seq_length; lia|].
    intros i Hi. apply in_seq. specialize (Hlt i Hi). lia.
  Qed.
End More.

(* ---------------------------------------------------------------- _find_pivot: every strategy's pivot lies among the coordinates *)
Ltac Zify.zify_post_hook ::= Z.to_euclidean_division_equations.

Lemma zins_perm x l : Permutation (zins x l) (x :: l).
Proof.
  induction l as [|y t IH]; simpl; [reflexivity|]. destruct (Z.leb x y); [reflexivity|].
  eapply Permutation_trans; [apply perm_skip; exact IH|]. apply perm_swap.
Qed.

Lemma zsort_perm l : Permutation (zsort l) l.
Proof.
  induction l as [|x t IH]; simpl; [constructor|].
  eapply Permutation_trans; [apply zins_perm|]. constructor. exact IH.
Qed.

Section PivotBounds.
  Variables lo hi : Z.
  Definition inb (c : Z) : Prop := (lo <= c <= hi)%Z.

  Lemma median_bounds l : l <> [] -> Forall inb l -> inb (median l).
  Proof.
    intros Hne Hf. unfold median.
    assert (Hs : Forall inb (zsort l)) by (eapply Permutation_Forall; [apply Permutation_sym; apply zsort_perm|exact Hf]).
    assert (Hl : length (zsort l) = length l) by (apply Permutation_length; apply zsort_perm).
    assert (Hn : 1 <= length l) by (destruct l; simpl; [congruence|lia]).
    set (s := zsort l) in *. rewrite Forall_forall in Hs.
    assert (Hnth : forall i, i < length s -> inb (nth i s 0%Z)) by (intros i Hi; apply Hs; apply nth_In; exact Hi).
    destruct (Nat.even (length s)) eqn:Ev.
    - assert (H2 : 2 <= length s).
      { destruct (length s) as [|[|n]] eqn:E; [lia|simpl in Ev; discriminate|lia]. }
      pose proof (Hnth (length s / 2 - 1) ltac:(lia)) as A. pose proof (Hnth (length s / 2) ltac:(lia)) as B.
      unfold inb in *. lia.
    - apply Hnth. lia.
  Qed.

  Lemma zmin_bound l : l <> [] -> Forall inb l -> (lo <= zmin l)%Z.
  Proof.
    intros Hne Hf. unfold zmin. assert (Hh : inb (hd 0%Z l)) by (destruct l; [congruence|inversion Hf; assumption]).
    generalize dependent (hd 0%Z l). intros h Hh. induction Hf as [|x t Hx Ht IH]; simpl; [unfold inb in Hh; lia|].
    unfold inb in *. destruct t as [|y t']; simpl in *; [lia|]. specialize (IH ltac:(congruence)). lia.
  Qed.

  Lemma zmax_bound l : l <> [] -> Forall inb l -> (zmax l <= hi)%Z.
  Proof.
    intros Hne Hf. unfold zmax. assert (Hh : inb (hd 0%Z l)) by (destruct l; [congruence|inversion Hf; assumption]).
    generalize dependent (hd 0%Z l). intros h Hh. induction Hf as [|x t Hx Ht IH]; simpl; [unfold inb in Hh; lia|].
    unfold inb in *. destruct t as [|y t']; simpl in *; [lia|]. specialize (IH ltac:(congruence)). lia.
  Qed.

  Theorem pivot_within_bounds (s : strategy) coords pivot :
    coords <> [] -> Forall inb coords -> pivot_ok (pivot_rule s) coords pivot = true -> inb pivot.
  Proof.
    intros Hne Hf. generalize (pivot_rule s). intros r H. destruct r as [|cap|]; simpl in H.
    - apply Z.eqb_eq in H. subst. apply median_bounds; assumption.
    - destruct (Nat.leb _ _).
      + apply Z.eqb_eq in H. subst. apply median_bounds; assumption.
      + apply andb_true_iff in H. destruct H as [A B]. apply Z.leb_le in A, B.
        pose proof (zmin_bound coords Hne Hf). pose proof (zmax_bound coords Hne Hf). unfold inb. lia.
    - apply existsb_exists in H. destruct H as (x & Hx & E). apply Z.eqb_eq in E. subst.
      rewrite Forall_forall in Hf. apply Hf. exact Hx.
  Qed.
End PivotBounds.

(* ---------------------------------------------------------------- non-vacuity *)
Open Scope Z_scope.
Example ex_split_progress : (2 <= length [0%nat; 1%nat; 2%nat])%nat /\
  exists sv less more, split P18 [0%nat; 1%nat; 2%nat] 0 6 = (sv, less, more) /\ less <> [] /\ more <> [].
Proof. split; [simpl; repeat constructor|]. vm_compute. do 3 eexists. split; [reflexivity|]. split; congruence. Qed.

Example ex_more19 :
  match build P19 2 1 (fun s => nth s [0; 8] 0) with
  | Ok nodes =>
    (forall i ax lp bb, nth_error nodes i = Some (Leaf ax lp bb) -> (length lp <= 1)%nat) /\
    match query (self_points P19 [[1; 1]]) nodes [0; 0] 7, query_radius (self_points P19 []) nodes [0; 0] 36 with
    | Ok r, Ok r' => Permutation r (seq 0 3) /\ length r' = 2%nat
    | _, _ => False
    end
  | _ => False
  end.
Proof.
  pose proof (leaf_size_bound P19 2 1 (fun s => nth s [0; 8] 0)) as H.
  pose proof (knn_all P19 2 1 (fun s => nth s [0; 8] 0) ltac:(lia) ltac:(lia) ex_hyp19) as Hk.
  destruct (build P19 2 1 (fun s => nth s [0; 8] 0)) as [nodes| |] eqn:Eb; try (vm_compute in Eb; discriminate).
  split; [apply H; reflexivity|].
  destruct (Hk nodes [[1; 1]] [0; 0] 7%nat eq_refl ltac:(simpl; lia)) as (res & E & Hp & _). rewrite E.
  vm_compute in Eb. inversion Eb; subst nodes. split; [exact Hp|]. vm_compute. reflexivity.
Qed.

Example ex_pivot_bounds : pivot_ok (pivot_rule Balanced) [6; 4; 6] 6 = true /\ pivot_ok (pivot_rule Random) [6; 4; 6] 4 = true /\
                          pivot_ok (pivot_rule Fast) [2; 8] 5 = true /\ Forall (inb 2 8) [6; 4; 6].
Proof. vm_compute. repeat split; try reflexivity; repeat constructor; discriminate. Qed.
