(* C11: correspondence checker - compares the model with what the implementation was observed to do. *)
From Coq Require Import ZArith List Bool.
Import ListNotations.
Require Import MV.Lib.Base MV.C11.Ext MV.C11.Gen MV.C11.Model.
Open Scope Z_scope.

Definition box_eqb (a b : box) : bool := list_eqb ext_eqb (lo a) (lo b) && list_eqb ext_eqb (hi a) (hi b).

Definition node_eqb (a b : node) : bool :=
  match a, b with
  | Leaf ax p bb, Leaf ax' p' bb' => Nat.eqb ax ax' && list_eqb Nat.eqb p p' && box_eqb bb bb'
  | Node ax sv l r bb, Node ax' sv' l' r' bb' =>
    Nat.eqb ax ax' && Z.eqb sv sv' && Nat.eqb l l' && Nat.eqb r r' && box_eqb bb bb'
  | _, _ => false
  end.

Record case := mkcase {
  c_dim : nat; c_mls : nat; c_strategy : strategy; c_pts : list (list Z);
  c_now : list (list Z);                        (* the caller's container while the queries run *)
  c_piv : list Z;                               (* what _find_pivot returned, in call order *)
  c_nodes : list node;                          (* tree.nodes as observed *)
  c_knn : list (list Z * nat * list nat);       (* (query point, k, observed answer) *)
  c_rad : list (list Z * Z * list nat)          (* (query point, squared radius, observed answer) *)
}.

Fixpoint nodupb (l : list nat) : bool :=
  match l with [] => true | x :: t => negb (existsb (Nat.eqb x) t) && nodupb t end.

Definition is_node (n : node) : bool := match n with Node _ _ _ _ _ => true | _ => false end.

(* kNN answers are compared modulo ties: same squared distances position by position, valid distinct indices *)
Definition check_knn (P : list (list Z)) (nodes : list node) (x : list Z * nat * list nat) : bool :=
  let '(q, k, ans) := x in
  match query P nodes q k with
  | Ok r => list_eqb Z.eqb (map (fun i => dist2 (pt P i) q) r) (map (fun i => dist2 (pt P i) q) ans)
            && nodupb ans && forallb (fun i => Nat.ltb i (length P)) ans
  | _ => false
  end.

(* radius answers are compared as sets *)
Definition check_rad (P : list (list Z)) (nodes : list node) (x : list Z * Z * list nat) : bool :=
  let '(q, r2, ans) := x in
  match query_radius P nodes q r2 with
  | Ok r => Nat.eqb (length r) (length ans) && nodupb ans && forallb (fun i => existsb (Nat.eqb i) ans) r
  | _ => false
  end.

(* the points below node i (fuel = number of nodes) *)
Fixpoint subpts (fuel : nat) (nodes : list node) (i : nat) : list nat :=
  match fuel with
  | O => []
  | S f => match nth_error nodes i with
           | Some (Leaf _ lp _) => lp
           | Some (Node _ _ l r _) => subpts f nodes l ++ subpts f nodes r
           | None => []
           end
  end.

(* every recorded pivot is one the strategy's rule allows for the coordinates of the leaf that was split (the k-th internal
   node of the array consumed the k-th pivot) *)
Fixpoint pivots_ok (P : list (list Z)) (r : prule) (nodes : list node) (i : nat) (rest : list node) (piv : list Z) : bool :=
  match rest with
  | [] => true
  | Leaf _ _ _ :: t => pivots_ok P r nodes (S i) t piv
  | Node ax _ _ _ _ :: t =>
    match piv with
    | [] => false
    | p :: piv' => pivot_ok r (map (fun j => coord P j ax) (subpts (length nodes) nodes i)) p && pivots_ok P r nodes (S i) t piv'
    end
  end.

Definition check_case (c : case) : bool :=
  match build (c_pts c) (c_dim c) (c_mls c) (fun s => nth s (c_piv c) 0) with
  | Ok nodes =>
    list_eqb node_eqb nodes (c_nodes c)
    && Nat.eqb (length (filter is_node nodes)) (length (c_piv c))
    && pivots_ok (c_pts c) (pivot_rule (c_strategy c)) nodes 0 nodes (c_piv c)
    && forallb (check_knn (self_points (c_pts c) (c_now c)) nodes) (c_knn c)
    && forallb (check_rad (self_points (c_pts c) (c_now c)) nodes) (c_rad c)
  | _ => false
  end.
