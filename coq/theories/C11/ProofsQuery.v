(* C11: the two queries on a well-formed tree - box distance is a lower bound, the pruned depth-first kNN search
   keeps the k best of everything it has accounted for (DESIGN.md Appendix B4), the radius search is exact. *)
From Coq Require Import ZArith List Bool Lia Arith PeanoNat Permutation Sorting.Sorted.
Import ListNotations.
Require Import MV.C11.Ext MV.C11.Heap MV.C11.Gen MV.C11.Model MV.C11.ProofsHeap MV.C11.ProofsGen MV.C11.ProofsBuild.
Close Scope Z_scope.
Open Scope nat_scope.

(* ---------------------------------------------------------------- AABB.distance^2 <= distance^2 for points of the box *)
Lemma boxdist2_lower l : forall h p qq, inbox_l l h p -> ele (boxdist2_l l h qq) (Fin (dist2 p qq)).
Proof.
  induction l as [|a l IH]; intros [|b h] [|c p] qq H; simpl in H; try contradiction.
  - destruct qq; simpl; apply ele_refl.
  - destruct H as (H1 & H2 & H3). destruct qq as [|c0 qq]; simpl; [apply ele_refl|].
    destruct (box_excess_spec a b c c0 H1 H2) as (e & He & He0 & He2). rewrite He. simpl.
    specialize (IH h p qq H3). unfold ele in *.
    destruct (boxdist2_l l h qq) as [|x|]; simpl in *; try discriminate; auto.
    apply Z.leb_le in IH. apply Z.leb_le. lia.
Qed.

Lemma SS_app {A} (R : A -> A -> Prop) a : forall b,
  StronglySorted R (a ++ b) ->
  StronglySorted R a /\ StronglySorted R b /\ (forall x y, In x a -> In y b -> R x y).
Proof.
  induction a as [|z a IH]; intros b H; simpl in *.
  - repeat split; auto. constructor. intros x y [].
  - inversion H as [|? ? Hs Hf]; subst. destruct (IH b Hs) as (Ha & Hb & Hc).
    rewrite Forall_forall in Hf.
    split; [constructor; [exact Ha|apply Forall_forall; intros x Hx; apply Hf; apply in_or_app; auto]|].
    split; [exact Hb|].
    intros x y [Hx|Hx] Hy; [subst; apply Hf; apply in_or_app; auto|apply Hc; auto].
Qed.

Lemma filter_nil {A} (f : A -> bool) l : (forall x, In x l -> f x = false) -> filter f l = [].
Proof.
  induction l as [|x l IH]; intros H; simpl; [reflexivity|].
  rewrite (H x (or_introl eq_refl)). apply IH. intros y Hy. apply H. right. exact Hy.
Qed.

Lemma last_cons {A} (x : A) l d : l <> [] -> last (x :: l) d = last l d.
Proof. destruct l; [congruence|reflexivity]. Qed.

Lemma last_In {A} (l : list A) d : l <> [] -> In (last l d) l.
Proof.
  induction l as [|x l IH]; [congruence|]. intros _. destruct l as [|y l]; [left; reflexivity|].
  right. apply IH. congruence.
Qed.

Lemma removelast_In {A} (x : A) l : In x (removelast l) -> In x l.
Proof.
  induction l as [|y l IH]; [auto|]. destruct l as [|y' l]; [intros []|].
  intros [H|H]; [left; exact H|right; apply IH; exact H].
Qed.

Section Query.
  Variable P : list (list Z).
  Variable nodes : list node.
  Variable q : list Z.
  Local Notation pt := (pt P).
  Local Notation twf := (twf P).

  Definition d2 (j : nat) : Z := dist2 (pt j) q.

  Lemma box_lower t j : twf t -> In j (tpts t) -> ele (boxdist2 (tbox t) q) (Fin (d2 j)).
  Proof.
    intros W Hj. apply twf_box in W. rewrite Forall_forall in W. specialize (W j Hj).
    unfold boxdist2, d2. apply boxdist2_lower. exact W.
  Qed.

  (* ================================================================ k nearest *)
  Section KNN.
    Variable k : nat.
    Local Notation push := (push_c P q k).
    Local Notation hp_ok := (heap_ok item_lt item_dummy).

    (* squared distance recorded in a heap item (priority = - distance) and the worst one held (the heap's root) *)
    Definition key (e : item) : Z := (- fst e)%Z.
    Definition worst (f : list item) : Z := key (nth 0 f item_dummy).
    Definition new_item (i : nat) : item := ((- d2 i)%Z, Z.of_nat i).

    Lemma payload_new i : payload (new_item i) = i.
    Proof. unfold payload, new_item. simpl. apply Nat2Z.id. Qed.

    Lemma root_max f : hp_ok f -> forall y, In y f -> (key y <= worst f)%Z.
    Proof.
      intros H y Hy. destruct (In_nth _ _ item_dummy Hy) as (i & Hi & <-).
      pose proof (heap_ok_root item item_lt item_dummy item_lt_ok f H i Hi) as Hr.
      apply item_lt_false in Hr. unfold worst, key. lia.
    Qed.

    (* ---------------------------------------------------------------- push / evict on the heap *)
    Lemma push_item_spec f i : hp_ok f ->
      hp_ok (push_item P q f i) /\ Permutation (push_item P q f i) (new_item i :: f).
    Proof.
      intros H. unfold push_item. fold (d2 i). rewrite pq_push_eq. fold (new_item i). split.
      - apply heappush_ok; [exact item_lt_ok|exact H].
      - apply heappush_perm.
    Qed.

    Lemma evict_small n f : length f <= k -> evict n k f = f.
    Proof.
      intros H. destruct n; simpl; [reflexivity|].
      destruct (knn_evict _ _) eqn:E; [|reflexivity]. apply knn_evict_true in E. lia.
    Qed.

    Lemma push_cases f i : hp_ok f -> length f <= k ->
      (length f < k /\ push f i = push_item P q f i) \/
      (length f = k /\ exists z f', push f i = f' /\ Permutation (push_item P q f i) (z :: f') /\ hp_ok f' /\
                                    forall y, In y (push_item P q f i) -> (key y <= key z)%Z).
    Proof.
      intros Hok H. unfold push_c. set (f1 := push_item P q f i).
      destruct (push_item_spec f i Hok) as [Hok1 Hp1]. fold f1 in Hok1, Hp1.
      assert (Hl : length f1 = S (length f)) by (apply (Permutation_length Hp1)).
      destruct (Nat.eq_dec (length f) k) as [E|E].
      - right. split; [exact E|]. rewrite Hl. cbn [evict].
        destruct (knn_evict _ _) eqn:Ev; [|apply knn_evict_false in Ev; lia].
        rewrite pq_pop_eq.
        destruct (heappop item item_lt item_dummy f1) as [[z f']|] eqn:Ep.
        + pose proof (heappop_perm _ _ _ _ _ _ Ep) as Hpp.
          exists z, f'. split; [|split; [exact Hpp|split]].
          * apply evict_small. apply Permutation_length in Hpp. simpl in Hpp. lia.
          * eapply heappop_ok; [exact item_lt_ok|exact Hok1|exact Ep].
          * intros y Hy. pose proof (heappop_min _ _ _ item_lt_ok _ _ _ Hok1 Ep y Hy) as Hm.
            apply item_lt_false in Hm. unfold key. lia.
        + apply heappop_none in Ep. rewrite Ep in Hl. simpl in Hl. lia.
      - left. split; [lia|]. apply evict_small. lia.
    Qed.

    (* ---------------------------------------------------------------- the invariant: f = the k best of S *)
    Definition dok (f : list item) : Prop := forall e, In e f -> key e = d2 (payload e).

    Definition Inv (f : list item) (S : list nat) : Prop :=
      hp_ok f /\ dok f /\ length f <= k /\
      exists rest, Permutation S (map payload f ++ rest) /\ (rest <> [] -> length f = k) /\
                   (forall j e, In j rest -> In e f -> (key e <= d2 j)%Z).

    Lemma Inv_perm f S S' : Permutation S S' -> Inv f S -> Inv f S'.
    Proof.
      intros HP (H1 & H2 & H3 & rest & H4 & H5 & H6). repeat split; auto.
      exists rest. repeat split; auto. eapply Permutation_trans; [apply Permutation_sym; exact HP|exact H4].
    Qed.

    Lemma dok_new i : key (new_item i) = d2 (payload (new_item i)).
    Proof. rewrite payload_new. unfold key, new_item. simpl. lia. Qed.

    Lemma Inv_push f S i : Inv f S -> Inv (push f i) (S ++ [i]).
    Proof.
      intros (Hs & Hd & Hl & rest & Hp & Hr & Hb).
      set (e := new_item i). destruct (push_item_spec f i Hs) as [Hok1 Hip].
      set (f1 := push_item P q f i) in *. fold e in Hip.
      assert (Hd1 : dok f1).
      { intros x Hx. apply (Permutation_in _ Hip) in Hx. destruct Hx as [Hx|Hx]; [subst; apply dok_new|apply Hd; exact Hx]. }
      assert (Hm1 : Permutation (map payload f1) (i :: map payload f)).
      { apply (Permutation_map payload) in Hip. simpl in Hip. unfold e in Hip. rewrite payload_new in Hip. exact Hip. }
      assert (Hl1 : length f1 = Datatypes.S (length f)) by (apply (Permutation_length Hip)).
      destruct (push_cases f i Hs Hl) as [[Hlt E]|[Heq (z & f' & E & Hpp & Hok' & Hmax)]]; rewrite E; fold f1.
      - (* room left: nothing evicted *)
        assert (rest = []) by (destruct rest; [reflexivity|exfalso; assert (length f = k) by (apply Hr; congruence); lia]).
        subst rest. rewrite app_nil_r in Hp.
        split; [exact Hok1|]. split; [exact Hd1|]. split; [lia|].
        exists []. rewrite app_nil_r. split; [|split; [congruence|intros j x []]].
        eapply Permutation_trans; [apply Permutation_sym; apply Permutation_cons_append|].
        eapply Permutation_trans; [apply perm_skip; exact Hp|]. apply Permutation_sym. exact Hm1.
      - (* full: a farthest of f + e is evicted *)
        fold f1 in Hpp, Hmax.
        assert (Hzin : In z f1) by (apply (Permutation_in _ (Permutation_sym Hpp)); simpl; auto).
        assert (Hsub : forall x, In x f' -> In x f1) by (intros x Hx; apply (Permutation_in _ (Permutation_sym Hpp)); simpl; auto).
        assert (Hl' : length f' = k) by (apply Permutation_length in Hpp; simpl in Hpp; lia).
        split; [exact Hok'|]. split; [intros x Hx; apply Hd1; apply Hsub; exact Hx|]. split; [lia|].
        exists (payload z :: rest). split; [|split].
        + eapply Permutation_trans; [apply Permutation_sym; apply Permutation_cons_append|].
          eapply Permutation_trans; [apply perm_skip; exact Hp|].
          change (i :: map payload f ++ rest) with ((i :: map payload f) ++ rest).
          eapply Permutation_trans; [apply Permutation_app_tail; apply Permutation_sym; exact Hm1|].
          apply (Permutation_map payload) in Hpp. simpl in Hpp.
          eapply Permutation_trans; [apply Permutation_app_tail; exact Hpp|]. simpl. apply Permutation_middle.
        + intros _. exact Hl'.
        + intros j x Hj Hx. destruct Hj as [Hj|Hj].
          * subst j. rewrite <- (Hd1 z Hzin). apply Hmax. apply Hsub. exact Hx.
          * apply (Permutation_in _ Hip) in Hzin. destruct Hzin as [Hz|Hz].
            -- (* the new point itself is evicted: f' is a permutation of f *)
               assert (Hpa : Permutation f' f).
               { apply Permutation_cons_inv with (a := e). eapply Permutation_trans; [|exact Hip].
                 rewrite Hz. apply Permutation_sym. exact Hpp. }
               apply (Hb j x Hj). eapply Permutation_in; [exact Hpa|exact Hx].
            -- (* an old candidate z is evicted; x <= z <= d2 j *)
               pose proof (Hmax x (Hsub x Hx)) as H1. specialize (Hb j z Hj Hz). lia.
    Qed.

    Lemma Inv_fold lp : forall f S, Inv f S -> Inv (fold_left push lp f) (S ++ lp).
    Proof.
      induction lp as [|i lp IH]; intros f S H; simpl.
      - rewrite app_nil_r. exact H.
      - replace (S ++ i :: lp) with ((S ++ [i]) ++ lp) by (rewrite <- app_assoc; reflexivity).
        apply IH. apply Inv_push. exact H.
    Qed.

    (* points that are at least as far as every candidate held (k of them) can be skipped *)
    Lemma Inv_prune f S T : Inv f S ->
      (forall j, In j T -> length f = k /\ (forall e, In e f -> (key e <= d2 j)%Z)) -> Inv f (S ++ T).
    Proof.
      intros (Hs & Hd & Hl & rest & Hp & Hr & Hb) HT. repeat split; auto.
      exists (rest ++ T). split; [|split].
      - rewrite app_assoc. apply Permutation_app_tail. exact Hp.
      - intros Hne. destruct rest as [|r0 rest]; [|apply Hr; congruence].
        destruct T as [|t0 T]; [simpl in Hne; congruence|]. apply (HT t0). simpl; auto.
      - intros j e Hj He. apply in_app_or in Hj. destruct Hj as [Hj|Hj]; [apply Hb; auto|].
        apply (HT j Hj). exact He.
    Qed.

    (* ---------------------------------------------------------------- once full, stays full and the k-th distance never grows *)
    Definition Full (f : list item) : Prop := hp_ok f /\ length f = k /\ f <> [].

    Lemma Full_push f i : Full f -> Full (push f i) /\ (worst (push f i) <= worst f)%Z.
    Proof.
      intros (Hs & Hl & Hne).
      destruct (push_item_spec f i Hs) as [Hok1 Hip].
      destruct (push_cases f i Hs ltac:(lia)) as [[Hlt _]|[_ (z & f' & E & Hpp & Hok' & Hmax)]]; [lia|]. rewrite E.
      set (f1 := push_item P q f i) in *. set (e := new_item i) in *.
      assert (Hk : 1 <= k) by (destruct f; simpl in *; [congruence|lia]).
      assert (Hl' : length f' = k).
      { apply Permutation_length in Hpp. apply Permutation_length in Hip. simpl in *. lia. }
      assert (Hne' : f' <> []) by (intros En; rewrite En in Hl'; simpl in Hl'; lia).
      split; [split; [exact Hok'|split; assumption]|].
      assert (Hsub : forall x, In x f' -> In x f1) by (intros x Hx; apply (Permutation_in _ (Permutation_sym Hpp)); simpl; auto).
      assert (Hr : In (nth 0 f' item_dummy) f') by (apply nth_In; lia).
      unfold worst at 1. set (r := nth 0 f' item_dummy) in *.
      assert (Hzin : In z f1) by (apply (Permutation_in _ (Permutation_sym Hpp)); simpl; auto).
      apply (Permutation_in _ Hip) in Hzin. destruct Hzin as [Hz|Hz].
      - assert (Hpa : Permutation f' f).
        { apply Permutation_cons_inv with (a := e). eapply Permutation_trans; [|exact Hip].
          rewrite Hz. apply Permutation_sym. exact Hpp. }
        apply root_max; [exact Hs|]. eapply Permutation_in; [exact Hpa|exact Hr].
      - pose proof (Hsub r Hr) as Hr1. apply (Permutation_in _ Hip) in Hr1. destruct Hr1 as [Hr1|Hr1].
        + pose proof (Hmax r (Hsub r Hr)) as H1. pose proof (root_max f Hs z Hz) as H2. lia.
        + apply root_max; assumption.
    Qed.

    Lemma Full_fold lp : forall f, Full f ->
      Full (fold_left push lp f) /\ (worst (fold_left push lp f) <= worst f)%Z.
    Proof.
      induction lp as [|i lp IH]; intros f H; simpl.
      - split; [exact H|lia].
      - destruct (Full_push f i H) as [H1 H2]. destruct (IH _ H1) as [H3 H4].
        split; [exact H3|lia].
    Qed.

    (* ---------------------------------------------------------------- the search on the represented tree *)
    Definition order_lr (dl dr : ext) (l r : nat) : bool := eltb dl dr || (eeqb dl dr && Nat.leb l r).

    Fixpoint visit (t : tree) (found : list item) : list item :=
      match t with
      | TL lp _ => fold_left push lp found
      | TN _ lid rid l r =>
        let fsf := furthest k found in
        let dl := boxdist2 (tbox l) q in
        let dr := boxdist2 (tbox r) q in
        if order_lr dl dr lid rid then
          let f1 := if knn_visit fsf dr then visit r found else found in
          if knn_visit fsf dl then visit l f1 else f1
        else
          let f1 := if knn_visit fsf dl then visit l found else found in
          if knn_visit fsf dr then visit r f1 else f1
      end.

    Ltac fin IH ts' :=
      rewrite (IH _ ts'); [reflexivity | repeat (apply Forall2_cons; [assumption|]); assumption | simpl; lia].

    Lemma qloop_trees fuel : forall stack ts f,
      Forall2 (repr nodes) stack ts -> list_sum (map tsize ts) <= fuel ->
      qloop P nodes q k fuel stack f = Ok (fold_left (fun acc t => visit t acc) ts f).
    Proof.
      induction fuel as [|fuel IH]; intros stack ts f HF Hsz.
      - destruct HF as [|id t stack ts Hr HF]; [reflexivity|].
        simpl in Hsz. pose proof (tsize_pos t). lia.
      - destruct HF as [|id t stack ts Hr HF]; [reflexivity|].
        simpl in Hsz. cbn [qloop fold_left].
        inversion Hr as [i ax lp bb Hn|i ax sv l r bb tl tr Hn Hl Hrr]; subst.
        + rewrite Hn. cbn [visit]. apply IH; [exact HF|]. simpl in Hsz. lia.
        + rewrite Hn. destruct (repr_some _ _ _ Hl) as (nl & Hnl & Hbl). destruct (repr_some _ _ _ Hrr) as (nr & Hnr & Hbr).
          rewrite Hnl, Hnr, Hbl, Hbr. cbn [visit tsize] in *.
          unfold child_order. fold (order_lr (boxdist2 (tbox tl) q) (boxdist2 (tbox tr) q) l r).
          destruct (order_lr _ _ l r); unfold push_children; cbn [fold_left fst snd];
            destruct (knn_visit (furthest k f) (boxdist2 (tbox tl) q));
            destruct (knn_visit (furthest k f) (boxdist2 (tbox tr) q));
            first [ fin IH (tr :: tl :: ts) | fin IH (tl :: tr :: ts) | fin IH (tl :: ts) | fin IH (tr :: ts) | fin IH ts ].
    Qed.

    (* a subtree is skipped only when k candidates are held and none of its points beats the worst of them *)
    Lemma prune_ok t f j : twf t -> hp_ok f -> length f <= k ->
      knn_visit (furthest k f) (boxdist2 (tbox t) q) = false -> In j (tpts t) ->
      Full f /\ (worst f <= d2 j)%Z.
    Proof.
      intros W Hs Hl Hv Hj. apply knn_visit_false in Hv.
      pose proof (ele_trans _ _ _ Hv (box_lower t j W Hj)) as H.
      unfold furthest in H. destruct (knn_full _ _ _) eqn:Ef.
      - apply knn_full_true in Ef. destruct Ef as [Ek En]. apply pq_empty_false in En.
        rewrite (pq_front_cons f En) in H. apply ele_fin in H.
        split; [|exact H]. split; [exact Hs|]. split; [lia|exact En].
      - apply ele_PosInf_l in H. discriminate.
    Qed.

    Lemma Full_visit t : forall f, Full f -> Full (visit t f) /\ (worst (visit t f) <= worst f)%Z.
    Proof.
      induction t as [lp bb|bb lid rid l IHl r IHr]; intros f H; cbn [visit].
      - apply Full_fold. exact H.
      - assert (Hid : Full f /\ (worst f <= worst f)%Z) by (split; [exact H|lia]).
        destruct (order_lr _ _ _ _).
        + destruct (knn_visit (furthest k f) (boxdist2 (tbox r) q)); [destruct (IHr f H) as [H1 H2]|destruct Hid as [H1 H2]];
            (destruct (knn_visit (furthest k f) (boxdist2 (tbox l) q)); [destruct (IHl _ H1) as [H3 H4]; split; [exact H3|lia]|split; assumption]).
        + destruct (knn_visit (furthest k f) (boxdist2 (tbox l) q)); [destruct (IHl f H) as [H1 H2]|destruct Hid as [H1 H2]];
            (destruct (knn_visit (furthest k f) (boxdist2 (tbox r) q)); [destruct (IHr _ H1) as [H3 H4]; split; [exact H3|lia]|split; assumption]).
    Qed.

    (* one internal node: first child a, then child b, both decisions taken with the bound computed before *)
    Lemma Inv_two a b f S :
      twf a -> twf b ->
      (forall f S, Inv f S -> Inv (visit a f) (S ++ tpts a)) ->
      (forall f S, Inv f S -> Inv (visit b f) (S ++ tpts b)) ->
      Inv f S ->
      let f1 := if knn_visit (furthest k f) (boxdist2 (tbox a) q) then visit a f else f in
      let f2 := if knn_visit (furthest k f) (boxdist2 (tbox b) q) then visit b f1 else f1 in
      Inv f2 ((S ++ tpts a) ++ tpts b).
    Proof.
      intros Wa Wb IHa IHb HI. pose proof HI as (Hs & _ & Hl & _).
      cbv zeta.
      assert (H1 : Inv (if knn_visit (furthest k f) (boxdist2 (tbox a) q) then visit a f else f) (S ++ tpts a)).
      { destruct (knn_visit _ (boxdist2 (tbox a) q)) eqn:Ea; [apply IHa; exact HI|].
        apply Inv_prune; [exact HI|]. intros j Hj.
        destruct (prune_ok a f j Wa Hs Hl Ea Hj) as [(Hs' & Hk & Hne) Hd]. split; [exact Hk|].
        intros e He. pose proof (root_max f Hs e He) as Hc. lia. }
      destruct (knn_visit _ (boxdist2 (tbox b) q)) eqn:Eb; [apply IHb; exact H1|].
      apply Inv_prune; [exact H1|]. intros j Hj.
      destruct (prune_ok b f j Wb Hs Hl Eb Hj) as [HF Hd].
      assert (HF1 : Full (if knn_visit (furthest k f) (boxdist2 (tbox a) q) then visit a f else f) /\
                    (worst (if knn_visit (furthest k f) (boxdist2 (tbox a) q) then visit a f else f) <= worst f)%Z).
      { destruct (knn_visit _ (boxdist2 (tbox a) q)); [apply Full_visit; exact HF|split; [exact HF|lia]]. }
      destruct HF1 as [(Hs1 & Hk1 & Hne1) Hc1]. split; [exact Hk1|].
      intros e He. pose proof (root_max _ Hs1 e He) as Hc. lia.
    Qed.

    Lemma Inv_visit t : twf t -> forall f S, Inv f S -> Inv (visit t f) (S ++ tpts t).
    Proof.
      induction t as [lp bb|bb lid rid l IHl r IHr]; intros W f S HI; cbn [visit tpts].
      - apply Inv_fold. exact HI.
      - destruct W as [_ [Wl Wr]]. specialize (IHl Wl). specialize (IHr Wr).
        destruct (order_lr _ _ _ _).
        + eapply Inv_perm; [|apply (Inv_two r l f S Wr Wl IHr IHl HI)].
          rewrite <- app_assoc. apply Permutation_app_head. apply Permutation_app_comm.
        + rewrite app_assoc. apply (Inv_two l r f S Wl Wr IHl IHr HI).
    Qed.

    Lemma Inv_nil : Inv [] [].
    Proof.
      split; [apply heap_ok_nil|]. split; [intros e []|]. split; [simpl; lia|].
      exists []. split; [constructor|]. split; [congruence|intros j e []].
    Qed.

    (* ---------------------------------------------------------------- emptying the heap: items by increasing priority *)
    Lemma popall_spec n : forall f, hp_ok f -> length f = n ->
      Permutation (popall n f) f /\ StronglySorted (fun a b : item => (fst a <= fst b)%Z) (popall n f).
    Proof.
      induction n as [|n IH]; intros f Hok Hl; cbn [popall].
      - destruct f; [split; constructor|discriminate].
      - rewrite pq_pop_eq. destruct (heappop item item_lt item_dummy f) as [[z f']|] eqn:Ep.
        + pose proof (heappop_perm _ _ _ _ _ _ Ep) as Hpp.
          assert (Hok' : hp_ok f') by (eapply heappop_ok; [exact item_lt_ok|exact Hok|exact Ep]).
          assert (Hl' : length f' = n) by (apply Permutation_length in Hpp; simpl in Hpp; lia).
          destruct (IH f' Hok' Hl') as [Hp Hs]. split.
          * eapply Permutation_trans; [apply perm_skip; exact Hp|]. apply Permutation_sym. exact Hpp.
          * constructor; [exact Hs|]. apply Forall_forall. intros y Hy.
            apply (Permutation_in _ Hp) in Hy.
            assert (Hyf : In y f) by (apply (Permutation_in _ (Permutation_sym Hpp)); simpl; auto).
            pose proof (heappop_min _ _ _ item_lt_ok _ _ _ Hok Ep y Hyf) as Hm. apply item_lt_false in Hm. exact Hm.
        + apply heappop_none in Ep. subst f. discriminate.
    Qed.
  End KNN.

  (* ================================================================ radius *)
  Section Radius.
    Variable r2 : Z.
    Definition keep (i : nat) : bool := rad_keep (d2 i) r2.

    Lemma rloop_spec fuel : forall queue ts acc,
      Forall2 (repr nodes) queue ts -> Forall twf ts -> list_sum (map tsize ts) <= fuel ->
      exists res, rloop P nodes q r2 fuel queue acc = Ok res /\
                  Permutation res (acc ++ filter keep (flat_map tpts ts)).
    Proof.
      induction fuel as [|fuel IH]; intros queue ts acc HF HW Hsz.
      - destruct HF as [|id t queue ts Hr HF]; [exists acc; simpl; rewrite app_nil_r; split; reflexivity|].
        simpl in Hsz. pose proof (tsize_pos t). lia.
      - destruct HF as [|id t queue ts Hr HF]; [exists acc; simpl; rewrite app_nil_r; split; reflexivity|].
        simpl in Hsz. inversion HW as [|? ? Wt HW']; subst. cbn [rloop].
        destruct (repr_some _ _ _ Hr) as (nd & Hn & Hb). rewrite Hn, Hb.
        destruct (rad_prune _ _) eqn:Epr.
        + (* the whole subtree is farther than r *)
          destruct (IH queue ts acc HF HW' ltac:(pose proof (tsize_pos t); lia)) as (res & E & Hp).
          exists res. split; [exact E|]. simpl. rewrite filter_app.
          rewrite (filter_nil keep (tpts t)); [exact Hp|].
          intros j Hj. apply rad_prune_true in Epr.
          destruct (keep j) eqn:Ek; [|reflexivity]. exfalso. apply Epr.
          apply ele_trans with (Fin (d2 j)); [apply box_lower; assumption|].
          apply ele_fin. apply rad_keep_iff. exact Ek.
        + inversion Hr as [i ax lp bb Hn'|i ax sv l r bb tl tr Hn' Hl Hrr]; subst; rewrite Hn in Hn'; inversion Hn'; subst.
          * destruct (IH queue ts (acc ++ filter keep lp) HF HW' ltac:(simpl in Hsz; lia)) as (res & E & Hp).
            exists res. split; [exact E|]. simpl. rewrite filter_app, app_assoc. exact Hp.
          * simpl in Wt. destruct Wt as [_ [Wl Wr]].
            destruct (IH (queue ++ [l; r]) (ts ++ [tl; tr]) acc) as (res & E & Hp).
            { apply Forall2_app; [exact HF|]. repeat constructor; assumption. }
            { apply Forall_app. split; [exact HW'|]. repeat constructor; assumption. }
            { rewrite map_app, list_sum_app. simpl in *. lia. }
            exists res. split; [exact E|]. eapply Permutation_trans; [exact Hp|]. apply Permutation_app_head.
            rewrite flat_map_app. simpl. rewrite app_nil_r. rewrite !filter_app.
            apply Permutation_app_comm.
    Qed.
  End Radius.
End Query.
