(* C11: the property theorems, assembled (statements are re-exported one per obligation in Props.v). *)
From Coq Require Import ZArith List Bool Lia Arith PeanoNat Permutation Sorting.Sorted.
Import ListNotations.
Require Import MV.C11.Ext MV.C11.Heap MV.C11.Gen MV.C11.Model MV.C11.ProofsHeap MV.C11.ProofsGen MV.C11.ProofsBuild MV.C11.ProofsQuery.
Close Scope Z_scope.
Open Scope nat_scope.

(* every point has `dim` coordinates (the (N,d) array of the constructor) *)
Definition points_wf (dim : nat) (P : list (list Z)) : Prop := Forall (fun p => length p = dim) P.

(* squared distance from point j to the query point *)
Definition sqdist (P : list (list Z)) (q : list Z) (j : nat) : Z := dist2 (pt P j) q.

Lemma NoDup_app_l {A} (a b : list A) : NoDup (a ++ b) -> NoDup a.
Proof.
  induction a as [|x a IH]; simpl; intros H; [constructor|].
  inversion H; subst. constructor; [|apply IH; assumption].
  intros Hx. apply H2. apply in_or_app. left. exact Hx.
Qed.

Lemma SS_app_intro {A} (R : A -> A -> Prop) a : forall b,
  StronglySorted R a -> StronglySorted R b -> (forall x y, In x a -> In y b -> R x y) -> StronglySorted R (a ++ b).
Proof.
  induction a as [|z a IH]; intros b Ha Hb Hc; simpl; [exact Hb|].
  inversion Ha as [|? ? Hs Hf]; subst. constructor.
  - apply IH; auto. intros x y Hx Hy. apply Hc; simpl; auto.
  - apply Forall_forall. intros y Hy. apply in_app_or in Hy. destruct Hy as [Hy|Hy].
    + rewrite Forall_forall in Hf. apply Hf. exact Hy.
    + apply Hc; simpl; auto.
Qed.

Lemma SS_rev {A} (R : A -> A -> Prop) l : StronglySorted (fun a b => R b a) l -> StronglySorted R (rev l).
Proof.
  induction 1 as [|x l Hs IH Hf]; simpl; [constructor|].
  apply SS_app_intro; [exact IH|repeat constructor|].
  intros a b Ha [Hb|[]]. subst b. rewrite Forall_forall in Hf. apply Hf. apply in_rev. exact Ha.
Qed.

Section Final.
  Variable P : list (list Z).
  Variables dim mls : nat.
  Variable oracle : nat -> Z.
  Hypothesis Hdim : 1 <= dim.
  Hypothesis Hmls : 1 <= mls.
  Hypothesis HP : points_wf dim P.

  (* ---------------------------------------------------------------- termination *)
  (* each loop iteration appends exactly one node and consumes one unit of fuel *)
  Lemma bloop_length_le fuel : forall done queue nid ns nodes,
    bloop P dim mls oracle fuel done queue nid ns = Ok nodes -> length nodes <= length done + fuel.
  Proof.
    induction fuel as [|fuel IH]; intros done queue nid ns nodes Hb.
    - destruct queue; simpl in Hb; [|discriminate]. inversion Hb; subst. lia.
    - destruct queue as [|lf rest]; simpl in Hb; [inversion Hb; subst; lia|].
      destruct (leaf_ok _ _).
      + apply IH in Hb. rewrite app_length in Hb. simpl in Hb. lia.
      + destruct (split P (p_pts lf) (p_axis lf) (oracle ns)) as [[sv less] more].
        apply IH in Hb. rewrite app_length in Hb. simpl in Hb. lia.
  Qed.

  Theorem terminates : exists nodes, build P dim mls oracle = Ok nodes /\ length nodes <= fuel_bound P.
  Proof.
    destruct (build_terminates P dim mls oracle Hmls) as (nodes & Hb). exists nodes. split; [exact Hb|].
    unfold build in Hb. apply bloop_length_le in Hb. simpl in Hb. exact Hb.
  Qed.

  (* ---------------------------------------------------------------- partition *)
  Theorem partition nodes : build P dim mls oracle = Ok nodes ->
    Permutation (leaves nodes) (seq 0 (length P)) /\
    NoDup (leaves nodes) /\ (forall j, In j (leaves nodes) <-> j < length P) /\
    (forall i ax lp bb, nth_error nodes i = Some (Leaf ax lp bb) -> forall j, In j lp -> inbox bb (pt P j)).
  Proof.
    intros Hb. pose proof (build_partition P dim mls oracle Hmls nodes Hb) as Hp.
    split; [exact Hp|]. split; [|split].
    - eapply Permutation_NoDup; [apply Permutation_sym; exact Hp|apply seq_NoDup].
    - intros j. split; intros H.
      + apply (Permutation_in _ Hp) in H. apply in_seq in H. lia.
      + apply (Permutation_in _ (Permutation_sym Hp)). apply in_seq. lia.
    - apply (build_leaf_boxes P dim mls oracle Hmls HP nodes Hb).
  Qed.

  (* ---------------------------------------------------------------- box distance *)
  Theorem box_distance_lower_bound b p q : inbox b p -> ele (boxdist2 b q) (Fin (dist2 p q)).
  Proof. intros H. unfold boxdist2. apply boxdist2_lower. exact H. Qed.

  (* ---------------------------------------------------------------- k nearest *)
  (* the heap emptied by increasing priority, reversed: indices by non-decreasing distance *)
  Lemma sorted_out q L : StronglySorted (fun a b : item => (fst a <= fst b)%Z) L -> dok P q L ->
    StronglySorted (fun a b => (sqdist P q a <= sqdist P q b)%Z) (rev (map payload L)).
  Proof.
    intros Hs Hd. apply SS_rev. induction Hs as [|e L Hs IH Hf]; simpl; [constructor|].
    constructor.
    - apply IH. intros x Hx. apply Hd. right. exact Hx.
    - apply Forall_forall. intros j Hj. apply in_map_iff in Hj. destruct Hj as (x & Hx & Hxin).
      rewrite Forall_forall in Hf. specialize (Hf x Hxin). simpl in Hf.
      pose proof (Hd e (or_introl eq_refl)) as He. pose proof (Hd x (or_intror Hxin)) as Hxd.
      unfold key, d2 in He, Hxd. unfold sqdist. subst j. lia.
  Qed.

  Theorem knn_exact nodes q k : build P dim mls oracle = Ok nodes ->
    exists res, query P nodes q k = Ok res /\
      length res = Nat.min k (length P) /\
      NoDup res /\ (forall i, In i res -> i < length P) /\
      StronglySorted (fun a b => (sqdist P q a <= sqdist P q b)%Z) res /\
      (forall i j, In i res -> j < length P -> ~ In j res -> (sqdist P q i <= sqdist P q j)%Z).
  Proof.
    intros Hb. destruct (build_tree P dim mls oracle Hmls HP nodes Hb) as (t & R & Pm & W & N).
    assert (Hn : length (tpts t) = length P) by (rewrite (Permutation_length Pm); apply seq_length).
    assert (Hsz : list_sum (map tsize [t]) <= fuel_bound P).
    { pose proof (tsize_bound t N) as Hts. rewrite Hn in Hts. unfold fuel_bound. change (list_sum (map tsize [t])) with (tsize t + 0). lia. }
    pose proof (qloop_trees P nodes q k (fuel_bound P) [0] [t] [] ltac:(repeat constructor; exact R) Hsz) as Hq.
    simpl in Hq. unfold query. rewrite Hq. rewrite knn_result_reversed_true.
    set (f := visit P q k t []) in *.
    assert (HI : Inv P q k f (seq 0 (length P))).
    { eapply Inv_perm; [exact Pm|]. apply (Inv_visit P q k t W [] [] (Inv_nil P q k)). }
    clearbody f. destruct HI as (Hs & Hd & Hl & rest & Hp & Hr & Hbd).
    destruct (popall_spec (length f) f Hs eq_refl) as [HpL HsL].
    set (L := popall (length f) f) in *. clearbody L.
    assert (Hres : Permutation (rev (map payload L)) (map payload f)).
    { eapply Permutation_trans; [apply Permutation_sym; apply Permutation_rev|]. apply Permutation_map. exact HpL. }
    exists (rev (map payload L)). split; [reflexivity|].
    assert (Hnd : NoDup (map payload f ++ rest)) by (eapply Permutation_NoDup; [exact Hp|apply seq_NoDup]).
    assert (Hlen : length P = length f + length rest).
    { apply Permutation_length in Hp. rewrite seq_length, app_length, map_length in Hp. exact Hp. }
    split; [|split; [|split; [|split]]].
    - rewrite (Permutation_length Hres), map_length. unfold item in *. destruct rest as [|r0 rest]; simpl in Hlen; [clear - Hl Hlen; lia|].
      assert (Hfk : length f = k) by (apply Hr; congruence). clear - Hfk Hlen. lia.
    - eapply Permutation_NoDup; [apply Permutation_sym; exact Hres|]. apply NoDup_app_l in Hnd. exact Hnd.
    - intros i Hi. apply (Permutation_in _ Hres) in Hi. assert (Hin : In i (seq 0 (length P))).
      { apply (Permutation_in _ (Permutation_sym Hp)). apply in_or_app. left. exact Hi. }
      apply in_seq in Hin. lia.
    - apply sorted_out; [exact HsL|]. intros e He. apply Hd. apply (Permutation_in _ HpL). exact He.
    - intros i j Hi Hj Hnj. apply (Permutation_in _ Hres) in Hi.
      assert (Hnj' : ~ In j (map payload f)) by (intros Hc; apply Hnj; apply (Permutation_in _ (Permutation_sym Hres)); exact Hc).
      assert (Hin : In j (map payload f ++ rest)) by (apply (Permutation_in _ Hp); apply in_seq; lia).
      apply in_app_or in Hin. destruct Hin as [Hin|Hin]; [contradiction|].
      apply in_map_iff in Hi. destruct Hi as (e & He & Hein). subst i.
      specialize (Hbd j e Hin Hein). pose proof (Hd e Hein) as Hde. unfold sqdist. unfold d2 in *. lia.
  Qed.

  (* ---------------------------------------------------------------- radius *)
  Theorem radius_exact nodes q r2 : build P dim mls oracle = Ok nodes ->
    exists res, query_radius P nodes q r2 = Ok res /\ NoDup res /\
      (forall j, In j res <-> (j < length P /\ (sqdist P q j <= r2)%Z)).
  Proof.
    intros Hb. destruct (build_tree P dim mls oracle Hmls HP nodes Hb) as (t & R & Pm & W & N).
    assert (Hn : length (tpts t) = length P) by (rewrite (Permutation_length Pm); apply seq_length).
    assert (Hsz : list_sum (map tsize [t]) <= fuel_bound P).
    { pose proof (tsize_bound t N) as Hts. rewrite Hn in Hts. unfold fuel_bound. change (list_sum (map tsize [t])) with (tsize t + 0). lia. }
    destruct (rloop_spec P nodes q r2 (fuel_bound P) [0] [t] [] ltac:(repeat constructor; exact R)
                         ltac:(repeat constructor; exact W) Hsz) as (res & E & Hp).
    exists res. split; [exact E|]. simpl in Hp. rewrite app_nil_r in Hp.
    assert (Hnd : NoDup (tpts t)) by (eapply Permutation_NoDup; [apply Permutation_sym; exact Pm|apply seq_NoDup]).
    split.
    - eapply Permutation_NoDup; [apply Permutation_sym; exact Hp|]. apply NoDup_filter. exact Hnd.
    - intros j. split; intros H.
      + apply (Permutation_in _ Hp) in H. apply filter_In in H. destruct H as [Hin Hk].
        apply (Permutation_in _ Pm) in Hin. apply in_seq in Hin. split; [lia|].
        apply rad_keep_iff. exact Hk.
      + destruct H as [Hj Hd]. apply (Permutation_in _ (Permutation_sym Hp)). apply filter_In. split.
        * apply (Permutation_in _ (Permutation_sym Pm)). apply in_seq. lia.
        * apply rad_keep_iff. exact Hd.
  Qed.
  (* the answers do not depend on what the caller does with its array after the construction *)
  Theorem knn_exact_alias nodes P' q k : build P dim mls oracle = Ok nodes ->
    exists res, query (self_points P P') nodes q k = Ok res /\
      length res = Nat.min k (length P) /\
      NoDup res /\ (forall i, In i res -> i < length P) /\
      StronglySorted (fun a b => (sqdist P q a <= sqdist P q b)%Z) res /\
      (forall i j, In i res -> j < length P -> ~ In j res -> (sqdist P q i <= sqdist P q j)%Z).
  Proof. rewrite self_points_at_build. apply knn_exact. Qed.

  Theorem radius_exact_alias nodes P' q r2 : build P dim mls oracle = Ok nodes ->
    exists res, query_radius (self_points P P') nodes q r2 = Ok res /\ NoDup res /\
      (forall j, In j res <-> (j < length P /\ (sqdist P q j <= r2)%Z)).
  Proof. rewrite self_points_at_build. apply radius_exact. Qed.
End Final.

(* ---------------------------------------------------------------- non-vacuity: concrete inputs meet the hypotheses *)
Open Scope Z_scope.
(* DESIGN.md section 6 #18 (doubled): three distinct points, leaf size 2, the median is the maximum on both axes *)
Definition P18 : list (list Z) := [[6; 4]; [4; 4]; [6; 0]].
Example ex_hyp18 : (1 <= 2)%nat /\ (1 <= 2)%nat /\ points_wf 2 P18.
Proof. repeat split; try lia. repeat constructor. Qed.
Example ex_build18 : exists nodes, build P18 2 2 (fun _ => 6) = Ok nodes /\ length (leaves nodes) = 3%nat.
Proof. vm_compute. eexists. split; reflexivity. Qed.

(* #19 (doubled twice): a=(6,0) c=(0,2) b=(0,14), q=(0,0), k=3, leaf size 1: all three points are returned *)
Definition P19 : list (list Z) := [[6; 0]; [0; 2]; [0; 14]].
Example ex_hyp19 : points_wf 2 P19.
Proof. repeat constructor. Qed.
Example ex_knn19 :
  match build P19 2 1 (fun s => nth s [0; 8] 0) with
  | Ok nodes =>
    match query P19 nodes [0; 0] 3, query_radius P19 nodes [0; 0] 36 with
    | Ok r, Ok r' => length r = 3%nat /\ length r' = 2%nat
    | _, _ => False
    end
  | _ => False
  end.
Proof. vm_compute. split; reflexivity. Qed.

Example ex_inbox : inbox (mkbox [Fin 4; NegInf] [PosInf; PosInf]) [6; 0].
Proof. vm_compute. repeat split. Qed.
