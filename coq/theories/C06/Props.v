(* C06 property theorems only: each closed by `exact <lemma>` with Print Assumptions beneath.
   Vocabulary (Model.v / Proofs*.v): a world = heap of buffers + list of objects (meshes, caller arrays), each a list of
   cell ids; wf = in every object the vertex ids use pairwise distinct allocated buffers; ok_hist = producers outside the
   anchors store no vector under two ids; obj_coords w i = coordinates of object i; allocated m c = buffer c exists in m. *)
From Coq Require Import ZArith List Bool PArith QArith Qcanon.
Import ListNotations.
Require Import MV.Lib.Base MV.C06.Base MV.C06.Gen MV.C06.Model MV.C06.Run MV.C06.Proofs.

(* no two vertex ids of any object ever share a buffer: invariant of ALL histories of copy / merge / from_arrays / ring /
   transforms / edits (and of outside producers that respect it) *)
Theorem C06_no_shared_buffer_invariant :
  forall (T : Type) (O : ops T) (l : list (op (T:=T))) (w w' : world (T:=T)),
    wf w -> ok_hist O w l -> run O w l = Some w' -> wf w'.
Proof. exact (fun T O => invariant_all_histories O). Qed.
Print Assumptions C06_no_shared_buffer_invariant.

(* ring: every vertex append stores a new vector (rings.py as regenerated); 1 + N*n_cover (+1 when open) vertices *)
Theorem C06_ring_stores_every_vertex_once :
  forall N nc open,
    Forall (fun s => s = SFresh) (ring_pattern N nc open)
    /\ ((1 <= N * nc)%Z -> Z.of_nat (length (ring_pattern N nc open)) = (N * nc + 1 + (if open then 1 else 0))%Z).
Proof. exact ring_structure. Qed.
Print Assumptions C06_ring_stores_every_vertex_once.

(* the structural facts the theorems below rest on, read off the source on every run: copy deep-copies in both branches
   and also the connectivity (a new object whose back-reference is the copy), merge / from_arrays / prepare() / the five appending exporters copy each vector, translate
   works on a private copy of its parameter, three Euler angles mean rotations about the fixed axes x, y, z *)
Theorem C06_structure_of_the_code :
  (forall attr : bool, (if attr then copy_mode_with_attributes else copy_mode_data_only) = Copy)
  /\ copy_connectivity_mode = Copy /\ copy_connectivity_backref = BackToCopy
  /\ eff merge_vertex_mode = Copy /\ eff from_arrays_mode = Copy /\ prepare_vertex_mode = Copy
  /\ (forall p, (0 <= p <= 4)%Z -> append_mode p = Copy)
  /\ translate_param_by_value = true
  /\ euler_seq = Fixed_xyz.
Proof.
  exact (conj copy_is_deep (conj copy_connectivity_is_deep (conj copy_connectivity_answers_from_the_copy (conj merge_copies (conj from_arrays_copies
        (conj prepare_copies (conj appenders_copy (conj translate_by_value euler_angles_about_fixed_axes)))))))).
Qed.
Print Assumptions C06_structure_of_the_code.

(* copy (both branches): every container - elements and the element/owner tables of face_corners, cell_corners,
   cell_faces - equal to its source; the attributes are the source's with copy_attributes=True and
   none otherwise; on buffers that did not exist before (so shared with nobody), nothing else touched *)
Theorem C06_copy :
  forall (T : Type) (O : ops T) (w w' : world (T:=T)) i attr,
    wf w -> step O w (OCopy i attr) = Some w' ->
    exists so co, get_mesh w i = Some so /\ wobjs w' = wobjs w ++ [co]
      /\ coords O (mheap (wmem w')) co = coords O (mheap (wmem w)) so
      /\ oedges co = oedges so /\ ofaces co = ofaces so /\ occells co = occells so /\ ocorn co = ocorn so
      /\ oattr co = (if attr then oattr so else []) /\ okind co = okind so
      /\ NoDup (ocells co) /\ (forall c, In c (ocells co) -> ~ allocated (wmem w) c)
      /\ frame O (wmem w) (wmem w').
Proof. exact (fun T O => copy_spec O). Qed.
Print Assumptions C06_copy.

(* merge: vertices concatenated, elements of input k shifted by the running vertex count (corner tables by the running
   vertex / face / cell counts), class = largest dimensionality, on fresh pairwise distinct buffers - also when one mesh occurs twice in the list *)
Theorem C06_merge :
  forall (T : Type) (O : ops T) (w w' : world (T:=T)) ms,
    wf w -> step O w (OMerge ms) = Some w' ->
    exists ins mo, get_meshes w ms = Some ins /\ wobjs w' = wobjs w ++ [mo]
      /\ coords O (mheap (wmem w')) mo = flat_map (coords O (mheap (wmem w))) ins
      /\ oedges mo = shifted sel_edges 0 ins /\ ofaces mo = shifted sel_faces 0 ins /\ occells mo = shifted sel_cells 0 ins
      /\ ocorn mo = merge_corn 0 0 0 ins /\ oattr mo = [] /\ okind mo = max_dim ins
      /\ NoDup (ocells mo) /\ (forall c, In c (ocells mo) -> ~ allocated (wmem w) c)
      /\ frame O (wmem w) (wmem w').
Proof. exact (fun T O => merge_spec O). Qed.
Print Assumptions C06_merge.

(* "the disjoint union of its inputs with indices shifted by the running vertex count", in closed form: an element of the
   result is an element of some input k with every index moved by the number of vertices of the inputs before k, and
   conversely; vertex v of input k is vertex (count before k) + v of the result; nothing else is in the result *)
Theorem C06_merge_is_the_shifted_disjoint_union :
  forall (T : Type) (O : ops T) (w w' : world (T:=T)) ms,
    wf w -> step O w (OMerge ms) = Some w' ->
    exists ins mo, get_meshes w ms = Some ins /\ wobjs w' = wobjs w ++ [mo]
      /\ (forall el, In el (oedges mo) <-> exists k o e0, nth_error ins k = Some o /\ In e0 (sel_edges o)
                                             /\ el = map (Z.add (Z.of_nat (count_before ins k))) e0)
      /\ (forall el, In el (ofaces mo) <-> exists k o e0, nth_error ins k = Some o /\ In e0 (sel_faces o)
                                             /\ el = map (Z.add (Z.of_nat (count_before ins k))) e0)
      /\ (forall el, In el (occells mo) <-> exists k o e0, nth_error ins k = Some o /\ In e0 (sel_cells o)
                                             /\ el = map (Z.add (Z.of_nat (count_before ins k))) e0)
      /\ (forall k o v, nth_error ins k = Some o -> (v < length (ocells o))%nat ->
            nth_error (coords O (mheap (wmem w')) mo) (count_before ins k + v)
            = nth_error (coords O (mheap (wmem w)) o) v)
      /\ length (ocells mo) = count_before ins (length ins).
Proof. exact (fun T O => merge_is_the_shifted_disjoint_union O). Qed.
Print Assumptions C06_merge_is_the_shifted_disjoint_union.

(* what must NOT change: a transform or an edit through object i leaves the whole record of every other object as it is
   (vertex slots, edges, faces, cells, corner tables, attributes, class); a producer only appends one object *)
Theorem C06_only_the_target_object_changes :
  forall (T : Type) (O : ops T) (w w' : world (T:=T)) o i,
    wf w -> op_ok w o -> step O w o = Some w' -> target o = Some i ->
    length (wobjs w') = length (wobjs w) /\ forall j, j <> i -> nth_error (wobjs w') j = nth_error (wobjs w) j.
Proof. exact (fun T O => only_the_target_object_changes O). Qed.
Print Assumptions C06_only_the_target_object_changes.

Theorem C06_producers_only_append :
  forall (T : Type) (O : ops T) (w w' : world (T:=T)) o,
    wf w -> op_ok w o -> step O w o = Some w' -> target o = None -> exists no, wobjs w' = wobjs w ++ [no].
Proof. exact (fun T O => producers_only_append O). Qed.
Print Assumptions C06_producers_only_append.

(* ... and a transform changes nothing of its own target but the vertex slots *)
Theorem C06_transform_keeps_the_rest_of_its_target :
  forall (T : Type) (O : ops T) (w w' : world (T:=T)) o i f,
    wf w -> tmap O w o = Some (i, f) -> step O w o = Some w' ->
    exists so so', nth_error (wobjs w) i = Some so /\ nth_error (wobjs w') i = Some so'
      /\ oedges so' = oedges so /\ ofaces so' = ofaces so /\ occells so' = occells so /\ ocorn so' = ocorn so
      /\ oattr so' = oattr so /\ okind so' = okind so /\ length (ocells so') = length (ocells so).
Proof. exact (fun T O => transform_keeps_the_rest_of_its_target O). Qed.
Print Assumptions C06_transform_keeps_the_rest_of_its_target.

(* from_arrays: the mesh holds the array's values on buffers of its own *)
Theorem C06_from_arrays :
  forall (T : Type) (O : ops T) (w w' : world (T:=T)) a e f c cn k,
    wf w -> step O w (OFromArrays a e f c cn k) = Some w' ->
    exists ao mo, nth_error (wobjs w) a = Some ao /\ wobjs w' = wobjs w ++ [mo]
      /\ coords O (mheap (wmem w')) mo = coords O (mheap (wmem w)) ao
      /\ NoDup (ocells mo) /\ (forall c, In c (ocells mo) -> ~ allocated (wmem w) c)
      /\ frame O (wmem w) (wmem w').
Proof. exact (fun T O => from_arrays_spec O). Qed.
Print Assumptions C06_from_arrays.

(* frame over histories: whatever is written later through the new object (copy, merge result, mesh from an array)
   never changes an older object, nor the reverse *)
Theorem C06_new_object_isolated :
  forall (T : Type) (O : ops T) (w w1 w2 : world (T:=T)) l i new,
    wf w -> wf w1 -> (i < length (wobjs w))%nat -> wobjs w1 = wobjs w ++ [new] -> frame O (wmem w) (wmem w1) ->
    (forall c, In c (ocells new) -> ~ allocated (wmem w) c) ->
    ok_hist O w1 l -> run O w1 l = Some w2 ->
    (Forall (targets_only (length (wobjs w))) l -> obj_coords O w2 i = obj_coords O w1 i)
    /\ (Forall (targets_only i) l -> obj_coords O w2 (length (wobjs w)) = obj_coords O w1 (length (wobjs w))).
Proof. exact (fun T O => fresh_object_isolated O). Qed.
Print Assumptions C06_new_object_isolated.

(* distinct objects never share a vertex buffer: invariant of every history. Everything the LIBRARY builds gets buffers of
   its own by the regenerated model: results built through RawMeshData.prepare() (procedural generators, loaders,
   subdivision, volume boundary, cut graph, feature graph, corner point cloud, singularity graph), the exporters that append
   to a PolyLine() directly (extract_boundary_of_surface, build_path, Edge/Face/CellSpanningTree.build_tree_as_polyline;
   Gen.append_mode), copy, merge, from_arrays, ring. The only hypothesis left (fresh_hist) is about USER code: the caller's
   own numpy arrays and vectors handed to PointCloud.append are new vectors. *)
Theorem C06_distinct_objects_share_no_buffer :
  forall (T : Type) (O : ops T) (l : list (op (T:=T))) (w w' : world (T:=T)),
    wf w -> sep w -> fresh_hist O w l -> run O w l = Some w' -> wf w' /\ sep w'.
Proof. exact (fun T O => objects_stay_disjoint O). Qed.
Print Assumptions C06_distinct_objects_share_no_buffer.

(* hence, whatever way the meshes were produced: a transform or an edit through object i changes no other object *)
Theorem C06_transform_leaves_other_objects_alone :
  forall (T : Type) (O : ops T) (l : list (op (T:=T))) (w1 w2 : world (T:=T)) o i j,
    fresh_hist O (w0 (T:=T)) l -> run O (w0 (T:=T)) l = Some w1 ->
    op_fresh w1 o -> step O w1 o = Some w2 -> target o = Some i -> j <> i -> (j < length (wobjs w1))%nat ->
    obj_coords O w2 j = obj_coords O w1 j.
Proof. exact (fun T O => transform_leaves_other_objects_alone O). Qed.
Print Assumptions C06_transform_leaves_other_objects_alone.

(* one step, any world: objects that share no buffer do not interfere *)
Theorem C06_disjoint_objects_do_not_interfere :
  forall (T : Type) (O : ops T) (w w' : world (T:=T)) o i j,
    wf w -> op_ok w o -> step O w o = Some w' -> target o = Some i -> j <> i -> (j < length (wobjs w))%nat ->
    (forall c, In c (obj_cells w j) -> ~ In c (obj_cells w i)) ->
    obj_coords O w' j = obj_coords O w j.
Proof. exact (fun T O => disjoint_objects_do_not_interfere O). Qed.
Print Assumptions C06_disjoint_objects_do_not_interfere.

(* general form: buffers disjoint from object k's are untouched by every history that writes only through object k *)
Theorem C06_isolation :
  forall (T : Type) (O : ops T) (l : list (op (T:=T))) (w w' : world (T:=T)) (S : cell -> Prop) k,
    wf w -> ok_hist O w l -> (k < length (wobjs w))%nat ->
    (forall c, S c -> allocated (wmem w) c) ->
    (forall c, In c (obj_cells w k) -> ~ S c) ->
    Forall (targets_only k) l ->
    run O w l = Some w' ->
    (forall c, S c -> rd O (mheap (wmem w')) c = rd O (mheap (wmem w)) c)
    /\ (forall c, In c (obj_cells w' k) -> ~ S c).
Proof. exact (fun T O => isolation O). Qed.
Print Assumptions C06_isolation.

(* every transform (translate, rotate, scale, scale_xyz, normalize, fit_into_unit_cube, translate_to_origin, flatten)
   maps every vertex of its target exactly once by the requested map and leaves every other buffer and object alone *)
Theorem C06_transform_once :
  forall (T : Type) (O : ops T), field_laws O ->
  forall (w w' : world (T:=T)) o,
    wf w -> step O w o = Some w' ->
    forall i g, requested O w o = Some (i, g) ->
    obj_coords O w' i = map g (obj_coords O w i)
    /\ (forall c, allocated (wmem w) c -> ~ In c (obj_cells w i) -> rd O (mheap (wmem w')) c = rd O (mheap (wmem w)) c)
    /\ (forall j, j <> i -> obj_cells w' j = obj_cells w j).
Proof. exact (fun T O F => every_vertex_once_by_the_requested_map O F). Qed.
Print Assumptions C06_transform_once.

(* rotate(mesh, [a, b, c]) (list / tuple of Euler angles): the rotation applied is Rz Ry Rx - every vertex is turned
   about x, then about y, then about z (fixed axes), as regenerated from the string handed to Rotation.from_euler *)
Theorem C06_euler_form_of_rotate :
  forall (T : Type) (O : ops T), field_laws O ->
  forall (Rx Ry Rz : mat (T:=T)) v,
    mapply O (euler_compose O Rx Ry Rz) v = mapply O Rz (mapply O Ry (mapply O Rx v)).
Proof. exact (fun T O F => euler_form_is_x_then_y_then_z O F). Qed.
Print Assumptions C06_euler_form_of_rotate.

(* translate(t);translate(-t), scale(s);scale(1/s) (s<>0), rotate(R);rotate(R^T) (R^T R = I) restore the coordinates *)
Theorem C06_inverses :
  forall (T : Type) (O : ops T), field_laws O ->
  forall (w w1 w2 : world (T:=T)) i, wf w ->
  (forall t, step O w (OTranslate i (PVal t)) = Some w1 -> step O w1 (OTranslate i (PVal (vopp O t))) = Some w2 ->
             obj_coords O w2 i = obj_coords O w i)
  /\ (forall s orig, s <> z0 O -> step O w (OScale i s orig) = Some w1 ->
             step O w1 (OScale i (div O (o1 O) s) orig) = Some w2 -> obj_coords O w2 i = obj_coords O w i)
  /\ (forall R orig, mmul O (mtrans R) R = mid O -> step O w (ORotate i R orig) = Some w1 ->
             step O w1 (ORotate i (mtrans R) orig) = Some w2 -> obj_coords O w2 i = obj_coords O w i).
Proof. exact (fun T O => inverses_restore O). Qed.
Print Assumptions C06_inverses.

(* normalize / fit_into_unit_cube: box centred at 0 with largest extent 2, or anchored at 0 with largest extent 1; a step exists as soon as the
   mesh has a vertex and its largest extent is positive (otherwise the model returns the error value None) *)
Theorem C06_normalize_box :
  forall (T : Type) (O : ops T), field_laws O -> order_laws O ->
  forall (w w' : world (T:=T)) i, wf w ->
  (step O w (ONormalize i true) = Some w' ->
     exists lo hi, bbox O (obj_coords O w' i) = Some (lo, hi)
       /\ aabb_center O lo hi = vzero O /\ vmax3 O (aabb_span O lo hi) = add O (o1 O) (o1 O))
  /\ (step O w (ONormalize i false) = Some w' \/ step O w (OFit i) = Some w' ->
     exists lo hi, bbox O (obj_coords O w' i) = Some (lo, hi)
       /\ lo = vzero O /\ vmax3 O (aabb_span O lo hi) = o1 O)
  /\ (forall so lo hi c, get_mesh w i = Some so -> bbox O (coords O (mheap (wmem w)) so) = Some (lo, hi) ->
        leb O (vmax3 O (aabb_span O lo hi)) (z0 O) = false -> exists w'', step O w (ONormalize i c) = Some w'').
Proof. exact (fun T O => normalize_box O). Qed.
Print Assumptions C06_normalize_box.

(* the instance the correspondence batches execute (canonical rationals) satisfies all the laws assumed above *)
Theorem C06_rationals_satisfy_the_laws : field_laws QcO /\ order_laws QcO.
Proof. exact rationals_satisfy_the_laws. Qed.
Print Assumptions C06_rationals_satisfy_the_laws.
