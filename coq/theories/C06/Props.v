(* C06 property theorems only: each closed by `exact <lemma>` with Print Assumptions beneath. *)
From Coq Require Import ZArith List Bool.
Require Import MV.Lib.Base MV.C06.Base MV.C06.Gen MV.C06.Model MV.C06.Proofs.

Theorem C06_ring_no_shared_vector : forall N nc open, Forall (fun s => s = SFresh) (ring_pattern N nc open).
Proof. exact ring_all_fresh. Qed.
Print Assumptions C06_ring_no_shared_vector.
