(* C06 - executable heap model of mouette's value semantics (copy / merge / from_arrays / ring / transforms / edits).
   A numpy buffer is a reference CELL; a vertex container is a list of cell ids; `x += t` writes the cell,
   `x = y + t` allocates a new one; `Vec(x)` is a view (same cell). Which operation does which is read off the
   source on every run (Gen.v). Coordinates live in any type T with a bare record of operations. No proofs here. *)
From Coq Require Import ZArith List Bool PArith FMapPositive.
Import ListNotations.
Require Import MV.Lib.Base MV.C06.Base MV.C06.Gen.

Definition cell := positive.

Section Model.
Context {T : Type} (O : ops T).
Notation vec := (vec T).

Definition heap := PositiveMap.t vec.
Record mem := mkmem { mheap : heap; mnext : cell }.
Definition rd (h : heap) (c : cell) : vec := match PositiveMap.find c h with Some v => v | None => vzero O end.
Definition wr (h : heap) (c : cell) (v : vec) : heap := PositiveMap.add c v h.

Definition alloc1 (m : mem) (v : vec) : mem * cell :=
  (mkmem (wr (mheap m) (mnext m) v) (Pos.succ (mnext m)), mnext m).
Fixpoint allocs (m : mem) (vs : list vec) : mem * list cell :=
  match vs with
  | [] => (m, [])
  | v :: t => let '(m1, c) := alloc1 m v in let '(m2, cs) := allocs m1 t in (m2, c :: cs)
  end.

(* taking vectors over: the very same buffers, or new ones holding the same values.
   NOTE on Copy: one new buffer per SLOT. copy.deepcopy keeps two slots on one new buffer when they hold the very same
   Python object (its memo) and separates them when they are two views of one buffer; a cell does not distinguish the two.
   The two readings coincide exactly on slot lists without repetition, i.e. on every world satisfying the invariant `wf`
   that Proofs_Step proves for all histories - and every theorem about copy assumes `wf`. The driver never builds a
   repeated slot (it would have to write `m.vertices[i] = m.vertices[j]` itself). *)
Definition take (md : cmode) (m : mem) (cs : list cell) : mem * list cell :=
  match md with Alias => (m, cs) | Copy => allocs m (map (rd (mheap m)) cs) end.
(* a producer's choice composed with what RawMeshData._prepare_vertices does to every stored vector *)
Definition eff (a : cmode) : cmode := match a, prepare_vertex_mode with Alias, Alias => Alias | _, _ => Copy end.

(* the two loop shapes of transform.py *)
Fixpoint inplace (f : vec -> vec) (h : heap) (cs : list cell) : heap :=
  match cs with [] => h | c :: t => inplace f (wr h c (f (rd h c))) t end.
Fixpoint rebind (f : vec -> vec) (m : mem) (cs : list cell) : mem * list cell :=
  match cs with
  | [] => (m, [])
  | c :: t => let '(m1, c') := alloc1 m (f (rd (mheap m) c)) in
              let '(m2, r) := rebind f m1 t in (m2, c' :: r)
  end.
Definition apply_kind (k : tkind) (f : vec -> vec) (m : mem) (cs : list cell) : mem * list cell :=
  match k with
  | InPlace => (mkmem (inplace f (mheap m) cs) (mnext m), cs)
  | Rebind => rebind f m cs
  end.
(* in-place loop whose parameter is itself a live buffer, re-read at every iteration *)
Fixpoint inplace_ref (g : vec -> vec -> vec) (pc : cell) (h : heap) (cs : list cell) : heap :=
  match cs with [] => h | c :: t => inplace_ref g pc (wr h c (g (rd h pc) (rd h c))) t end.

(* ---------------------------------------------------------------- objects and worlds *)
(* the three corner containers of a mesh: element and owner tables of face_corners, cell_corners, cell_faces *)
Record corners := mkcorn { fce : list Z; fca : list Z; cce : list Z; cca : list Z; cfe : list Z; cfa : list Z }.
Definition corn0 : corners := mkcorn [] [] [] [] [] [].
Definition get_corn (c : corners) (k : nat) : list Z :=
  match k with 0%nat => fce c | 1%nat => fca c | 2%nat => cce c | 3%nat => cca c | 4%nat => cfe c | _ => cfa c end.
(* attributes: (container, name, values for the keys 0, 1, ...) - integer attributes, values of the object *)
Definition attrs : Type := list (Z * Z * list Z).
Record obj := mkobj { ocells : list cell; oedges : list (list Z); ofaces : list (list Z); occells : list (list Z);
                      ocorn : corners; oattr : attrs; okind : Z }.   (* kind: -1 caller array, 0 point cloud, 1 polyline, 2 surface, 3 volume *)
Record world := mkw { wmem : mem; wobjs : list obj }.
Definition w0 : world := mkw (mkmem (PositiveMap.empty vec) 1%positive) [].

Definition coords (h : heap) (o : obj) : list vec := map (rd h) (ocells o).
Definition with_cells (o : obj) (cs : list cell) : obj := mkobj cs (oedges o) (ofaces o) (occells o) (ocorn o) (oattr o) (okind o).
Definition get_elem (o : obj) (k : nat) : list (list Z) :=
  match k with 0%nat => oedges o | 1%nat => ofaces o | _ => occells o end.
(* mesh.copy: every container of the copy is filled from the container of the source the code names (Gen.v) *)
Definition copy_obj (attr : bool) (so : obj) (cs : list cell) : obj :=
  let c := ocorn so in
  mkobj cs (get_elem so (copy_elem_src attr 0)) (get_elem so (copy_elem_src attr 1)) (get_elem so (copy_elem_src attr 2))
        (mkcorn (get_corn c (copy_corn_src attr 0)) (get_corn c (copy_corn_src attr 1)) (get_corn c (copy_corn_src attr 2))
                (get_corn c (copy_corn_src attr 3)) (get_corn c (copy_corn_src attr 4)) (get_corn c (copy_corn_src attr 5)))
        (if copy_keeps_attributes attr then oattr so else []) (okind so).
Fixpoint upd {A} (l : list A) (i : nat) (x : A) : list A :=
  match l, i with
  | [], _ => []
  | _ :: t, 0%nat => x :: t
  | a :: t, S j => a :: upd t j x
  end.
Definition is_mesh (o : obj) : bool := (0 <=? okind o)%Z.
Definition get_mesh (w : world) (i : nat) : option obj :=
  match nth_error (wobjs w) i with Some o => if is_mesh o then Some o else None | None => None end.

(* ---------------------------------------------------------------- producers *)
Inductive sinit := IFresh (v : vec) | IShare (o s : nat).
(* how a result of the library outside the anchors comes about: handed over by the caller as it is (numpy arrays,
   PointCloud.append: user code), built through RawMeshData.prepare(), or appended vector by vector to a PolyLine() by
   exporter number p (Gen.append_mode) *)
Inductive build := ByUser | ByPrepare | ByAppend (p : Z).
Definition build_mode (b : build) : cmode :=
  match b with ByUser => Alias | ByPrepare => prepare_vertex_mode | ByAppend p => append_mode p end.
Fixpoint build_ext (objs : list obj) (m : mem) (pat : list sinit) : option (mem * list cell) :=
  match pat with
  | [] => Some (m, [])
  | IFresh v :: t =>
      let '(m1, c) := alloc1 m v in
      match build_ext objs m1 t with Some (m2, cs) => Some (m2, c :: cs) | None => None end
  | IShare o s :: t =>
      match nth_error objs o with
      | Some ob => match nth_error (ocells ob) s with
                   | Some c => match build_ext objs m t with Some (m2, cs) => Some (m2, c :: cs) | None => None end
                   | None => None
                   end
      | None => None
      end
  end.

(* appends of a generator: a new vector, or the vector already stored in an earlier slot *)
Fixpoint build_pat (m : mem) (acc : list cell) (pat : list slotsrc) (vs : list vec) : option (mem * list cell) :=
  match pat, vs with
  | [], [] => Some (m, acc)
  | SFresh :: p, v :: t => let '(m1, c) := alloc1 m v in build_pat m1 (acc ++ [c]) p t
  | SSame k :: p, _ :: t => match nth_error acc k with Some c => build_pat m (acc ++ [c]) p t | None => None end
  | _, _ => None
  end.
Definition ring_cells (m : mem) (N nc : Z) (open : bool) (vs : list vec) : option (mem * list cell) :=
  match build_pat m [] (ring_pattern N nc open) vs with
  | None => None
  | Some (m1, cs) =>
      let '(m2, cs2) :=
        match ring_apex_rebound, cs with
        | true, c0 :: t => let '(m', c') := alloc1 m1 (nth 0 vs (vzero O)) in (m', c' :: t)
        | _, _ => (m1, cs)
        end in
      Some (take prepare_vertex_mode m2 cs2)
  end.

(* ---------------------------------------------------------------- merge *)
Definition has_edges (k : Z) : bool := (1 <=? k)%Z.
Definition has_faces (k : Z) : bool := (2 <=? k)%Z.
Definition has_cells (k : Z) : bool := (3 <=? k)%Z.
Definition nverts (o : obj) : Z := Z.of_nat (length (ocells o)).
Definition nonempty {A} (l : list A) : bool := match l with [] => false | _ => true end.

Fixpoint merge_comb (off : Z) (ins : list obj) : list (list Z) * list (list Z) * list (list Z) :=
  match ins with
  | [] => ([], [], [])
  | o :: t =>
      let n := nverts o in
      let '(e, f, c) := merge_comb (merge_next_offset off n) t in
      ((if has_edges (okind o) then map (map (merge_shift_edges off n)) (oedges o) else []) ++ e,
       (if has_faces (okind o) then map (map (merge_shift_faces off n)) (ofaces o) else []) ++ f,
       (if has_cells (okind o) then map (map (merge_shift_cells off n)) (occells o) else []) ++ c)
  end.
(* corner containers of the merged mesh: the inputs' tables, vertices / faces / cells renumbered by the running counts *)
Definition zlen {A} (l : list A) : Z := Z.of_nat (length l).
Fixpoint merge_corn (voff foff coff : Z) (ins : list obj) : corners :=
  match ins with
  | [] => corn0
  | o :: t =>
      let nf := if has_faces (okind o) then zlen (ofaces o) else 0%Z in
      let nc := if has_cells (okind o) then zlen (occells o) else 0%Z in
      let r := merge_corn (voff + nverts o) (foff + nf) (coff + nc) t in
      let c := ocorn o in
      let fo (b : bool) (l : list Z) := if b then l else [] in
      mkcorn (map (Z.add voff) (fo (has_faces (okind o)) (fce c)) ++ fce r)
             (map (Z.add foff) (fo (has_faces (okind o)) (fca c)) ++ fca r)
             (map (Z.add voff) (fo (has_cells (okind o)) (cce c)) ++ cce r)
             (map (Z.add coff) (fo (has_cells (okind o)) (cca c)) ++ cca r)
             (map (Z.add foff) (fo (has_cells (okind o)) (cfe c)) ++ cfe r)
             (map (Z.add coff) (fo (has_cells (okind o)) (cfa c)) ++ cfa r)
  end.
Fixpoint merge_cells (m : mem) (ins : list obj) : mem * list cell :=
  match ins with
  | [] => (m, [])
  | o :: t => let '(m1, cs) := take (eff merge_vertex_mode) m (ocells o) in
              let '(m2, r) := merge_cells m1 t in (m2, cs ++ r)
  end.
Definition kind_of_data (e f c : list (list Z)) : Z :=
  class_of_dim (Z.max (-1) (data_dim (nonempty e) (nonempty f) (nonempty c))).
Fixpoint get_meshes (w : world) (ms : list nat) : option (list obj) :=
  match ms with
  | [] => Some []
  | i :: t => match get_mesh w i, get_meshes w t with Some o, Some r => Some (o :: r) | _, _ => None end
  end.

(* ---------------------------------------------------------------- transforms *)
Inductive tparam := PVal (v : vec) | PSlot (o s : nat).
Definition cell_of (w : world) (o s : nat) : option cell :=
  match nth_error (wobjs w) o with Some ob => nth_error (ocells ob) s | None => None end.

Definition default_orig (d : dorig) (h : heap) (cs : list cell) (orig : option vec) : option vec :=
  match orig with
  | Some v => Some v
  | None => match d with
            | DZero => Some (vzero O)
            | DVertex0 => match cs with c :: _ => Some (rd h c) | [] => None end
            end
  end.

Definition do_translate (m : mem) (cs : list cell) (t : vec) : mem * list cell :=
  apply_kind translate_kind (translate_pt O t) m cs.
Definition do_scale (m : mem) (cs : list cell) (s : T) (orig : option vec) : option (mem * list cell) :=
  match default_orig scale_default (mheap m) cs orig with
  | Some og => Some (apply_kind scale_kind (scale_pt O s og) m cs)
  | None => None
  end.

Definition bbox (vs : list vec) : option (vec * vec) :=
  match vs with
  | [] => None
  | v :: t => Some (fold_left (vminc O) t v, fold_left (vmaxc O) t v)
  end.
(* translation vector and scale factor of normalize; None when there is no vertex or no extent *)
Definition normalize_maps (centre : bool) (vs : list vec) : option (vec * T) :=
  match bbox vs with
  | None => None
  | Some (mini, maxi) =>
      let center := aabb_center O mini maxi in
      let span := aabb_span O mini maxi in
      if leb O (vmax3 O span) (z0 O) then None else
      let sc := normalize_sc O mini maxi center span in
      Some (if centre
            then (normalize_centre_tr O mini maxi center span sc, normalize_centre_factor O mini maxi center span sc)
            else (normalize_corner_tr O mini maxi center span sc, normalize_corner_factor O mini maxi center span sc))
  end.
Definition do_normalize (m : mem) (cs : list cell) (centre : bool) : option (mem * list cell) :=
  match normalize_maps centre (map (rd (mheap m)) cs) with
  | None => None
  | Some (t, f) => let '(m1, cs1) := do_translate m cs t in do_scale m1 cs1 f None
  end.
Definition vsum (vs : list vec) : vec := fold_left (vadd O) vs (vzero O).

(* ---------------------------------------------------------------- operations *)
Inductive op :=
| ONew (how : build) (pat : list sinit) (e f c : list (list Z)) (cn : corners) (at0 : attrs) (k : Z)
    (* caller arrays, producers outside the anchors *)
| OFromArrays (a : nat) (e f c : list (list Z)) (cn : corners) (k : Z)
| ORing (N nc : Z) (open : bool) (vs : list vec) (e f : list (list Z)) (cn : corners)
| OCopy (m : nat) (attr : bool)
| OMerge (ms : list nat)
| OTranslate (m : nat) (t : tparam)
| ORotate (m : nat) (R : mat (T:=T)) (orig : option vec)
| OScale (m : nat) (s : T) (orig : option vec)
| OScaleXYZ (m : nat) (fx fy fz : T) (orig : option vec)
| ONormalize (m : nat) (centre : bool)
| OFit (m : nat)
| OToOrigin (m : nat)
| OFlatten (m : nat) (dim : nat)
| OEdit (o s k : nat) (x : T)
| OSet (m s : nat) (v : vec)
| OAttrSet (m : nat) (cont name : Z) (vals : list Z)          (* create / overwrite an attribute *)
| OAttrEdit (m : nat) (cont name : Z) (k : nat) (x : Z)       (* attribute[k] = x *)
| OElemEdit (m : nat) (which k : nat) (el : list Z)           (* mesh.<edges|faces|cells>[k] = el *)
| OGrow (m : nat) (v : vec) (ne nf : list (list Z)) (ce ca : list Z).
    (* the mesh grows through its containers: vertices.append(v), edges / faces extended by ne / nf, face_corners by
       (ce, ca); every attribute gets its default value on the new keys *)

Definition push (w : world) (m : mem) (o : obj) : world := mkw m (wobjs w ++ [o]).
Definition akey (a : Z * Z * list Z) (cont name : Z) : bool := (fst (fst a) =? cont)%Z && (snd (fst a) =? name)%Z.
Definition attr_set (l : attrs) (cont name : Z) (vals : list Z) : attrs :=
  filter (fun a => negb (akey a cont name)) l ++ [(cont, name, vals)].
Definition attr_edit (l : attrs) (cont name : Z) (k : nat) (x : Z) : attrs :=
  map (fun a => if akey a cont name then (cont, name, upd (snd a) k x) else a) l.
Definition with_attr (o : obj) (a : attrs) : obj := mkobj (ocells o) (oedges o) (ofaces o) (occells o) (ocorn o) a (okind o).
Definition with_elem (o : obj) (which k : nat) (el : list Z) : obj :=
  match which with
  | 0%nat => mkobj (ocells o) (upd (oedges o) k el) (ofaces o) (occells o) (ocorn o) (oattr o) (okind o)
  | 1%nat => mkobj (ocells o) (oedges o) (upd (ofaces o) k el) (occells o) (ocorn o) (oattr o) (okind o)
  | _ => mkobj (ocells o) (oedges o) (ofaces o) (upd (occells o) k el) (ocorn o) (oattr o) (okind o)
  end.
Definition grow_attrs (l : attrs) (nv ne nf nc : nat) : attrs :=
  map (fun a => let '(cont, name, vals) := a in
                let k := if (cont =? 0)%Z then nv else if (cont =? 1)%Z then ne else if (cont =? 2)%Z then nf
                         else if (cont =? 3)%Z then nc else 0%nat in
                (cont, name, vals ++ repeat 0%Z k)) l.
Definition grown (o : obj) (c : cell) (ne nf : list (list Z)) (ce ca : list Z) : obj :=
  let cn := ocorn o in
  mkobj (ocells o ++ [c]) (oedges o ++ ne) (ofaces o ++ nf) (occells o)
        (mkcorn (fce cn ++ ce) (fca cn ++ ca) (cce cn) (cca cn) (cfe cn) (cfa cn))
        (grow_attrs (oattr o) 1 (length ne) (length nf) (length ce)) (okind o).
(* rotate accepts rotation matrices only (scipy's Rotation.from_matrix orthonormalises anything else) *)
Definition teq (a b : T) : bool := leb O a b && leb O b a.
Definition veq (a b : vec) : bool := teq (vx a) (vx b) && teq (vy a) (vy b) && teq (vz a) (vz b).
Definition mmul (A B : mat (T:=T)) : mat (T:=T) :=
  let Bt := mtrans B in
  let '(a1, a2, a3) := A in
  let '(b1, b2, b3) := Bt in
  ((dot O a1 b1, dot O a1 b2, dot O a1 b3), (dot O a2 b1, dot O a2 b2, dot O a2 b3), (dot O a3 b1, dot O a3 b2, dot O a3 b3)).
Definition mid : mat (T:=T) := ((o1 O, z0 O, z0 O), (z0 O, o1 O, z0 O), (z0 O, z0 O, o1 O)).
(* rotate(mesh, [a, b, c]): the rotation composed of the rotations Rx, Ry, Rz by the three angles about x, y, z, in the
   convention the code passes to scipy (Gen.euler_seq) *)
Definition euler_compose (Rx Ry Rz : mat (T:=T)) : mat (T:=T) :=
  match euler_seq with Fixed_xyz => mmul Rz (mmul Ry Rx) | Moving_xyz => mmul Rx (mmul Ry Rz) end.
Definition det3 (R : mat (T:=T)) : T :=
  let '(a, b, c) := R in
  add O (sub O (mul O (vx a) (sub O (mul O (vy b) (vz c)) (mul O (vz b) (vy c))))
               (mul O (vy a) (sub O (mul O (vx b) (vz c)) (mul O (vz b) (vx c)))))
        (mul O (vz a) (sub O (mul O (vx b) (vy c)) (mul O (vy b) (vx c)))).
Definition is_rotation (R : mat (T:=T)) : bool :=
  let '(r1, r2, r3) := mmul (mtrans R) R in
  let '(i1, i2, i3) := mid in
  veq r1 i1 && veq r2 i2 && veq r3 i3 && teq (det3 R) (o1 O).
Definition retarget (w : world) (i : nat) (o : obj) (r : mem * list cell) : world :=
  mkw (fst r) (upd (wobjs w) i (with_cells o (snd r))).

Definition step (w : world) (o : op) : option world :=
  let m := wmem w in
  match o with
  | ONew how pat e f c cn at0 k =>
      match build_ext (wobjs w) m pat with
      | Some (m1, cs) => let '(m2, cs2) := take (build_mode how) m1 cs in
                         Some (push w m2 (mkobj cs2 e f c cn at0 k))
      | None => None
      end
  | OFromArrays a e f c cn k =>
      match nth_error (wobjs w) a with
      | Some ao => if is_mesh ao then None else
                   let '(m1, cs) := take (eff from_arrays_mode) m (ocells ao) in
                   Some (push w m1 (mkobj cs e f c cn [] k))
      | None => None
      end
  | ORing N nc open vs e f cn =>
      match ring_cells m N nc open vs with
      | Some (m1, cs) => Some (push w m1 (mkobj cs e f [] cn [] 2))
      | None => None
      end
  | OCopy i attr =>
      match get_mesh w i with
      | Some so => let '(m1, cs) := take (if attr then copy_mode_with_attributes else copy_mode_data_only) m (ocells so) in
                   Some (push w m1 (copy_obj attr so cs))
      | None => None
      end
  | OMerge ms =>
      match ms, get_meshes w ms with
      | _ :: _, Some ins =>
          let '(m1, cs) := merge_cells m ins in
          let '(e, f, c) := merge_comb merge_offset0 ins in
          Some (push w m1 (mkobj cs e f c (merge_corn 0 0 0 ins) [] (kind_of_data e f c)))
      | _, _ => None
      end
  | OTranslate i t =>
      match get_mesh w i with
      | None => None
      | Some so =>
          match t with
          | PVal v => Some (retarget w i so (do_translate m (ocells so) v))
          | PSlot po ps =>
              match cell_of w po ps with
              | None => None
              | Some pc =>
                  if translate_param_by_value then Some (retarget w i so (do_translate m (ocells so) (rd (mheap m) pc)))
                  else match translate_kind with
                       | InPlace => Some (retarget w i so
                                      (mkmem (inplace_ref (translate_pt O) pc (mheap m) (ocells so)) (mnext m), ocells so))
                       | Rebind => Some (retarget w i so (do_translate m (ocells so) (rd (mheap m) pc)))
                       end
              end
          end
      end
  | ORotate i R orig =>
      if negb (is_rotation R) then None else
      match get_mesh w i with
      | None => None
      | Some so => match default_orig rotate_default (mheap m) (ocells so) orig with
                   | Some og => Some (retarget w i so (apply_kind rotate_kind (rotate_pt O (mapply O R) og) m (ocells so)))
                   | None => None
                   end
      end
  | OScale i s orig =>
      match get_mesh w i with
      | None => None
      | Some so => match do_scale m (ocells so) s orig with Some r => Some (retarget w i so r) | None => None end
      end
  | OScaleXYZ i fx fy fz orig =>
      match get_mesh w i with
      | None => None
      | Some so => match default_orig scale_xyz_default (mheap m) (ocells so) orig with
                   | Some og => Some (retarget w i so (apply_kind scale_xyz_kind (scale_xyz_pt O fx fy fz og) m (ocells so)))
                   | None => None
                   end
      end
  | ONormalize i centre =>
      match get_mesh w i with
      | None => None
      | Some so => match do_normalize m (ocells so) centre with Some r => Some (retarget w i so r) | None => None end
      end
  | OFit i =>
      match get_mesh w i with
      | None => None
      | Some so => match do_normalize m (ocells so) fit_centre_flag with Some r => Some (retarget w i so r) | None => None end
      end
  | OToOrigin i =>
      match get_mesh w i with
      | None => None
      | Some so =>
          match ocells so with
          | [] => None
          | _ => Some (retarget w i so
                   (do_translate m (ocells so) (to_origin_tr O (vsum (map (rd (mheap m)) (ocells so))) (cst O (nverts so)))))
          end
      end
  | OFlatten i dim =>
      match get_mesh w i with
      | None => None
      | Some so => if (dim <? 3)%nat
                   then Some (retarget w i so (apply_kind InPlace (fun p => setc p dim (flatten_value O)) m (ocells so)))
                   else None
      end
  | OEdit oi s k x =>
      match cell_of w oi s with
      | Some c => if (k <? 3)%nat then Some (mkw (mkmem (wr (mheap m) c (setc (rd (mheap m) c) k x)) (mnext m)) (wobjs w))
                  else None
      | None => None
      end
  | OSet i s v =>
      match get_mesh w i with
      | None => None
      | Some so => if (s <? length (ocells so))%nat
                   then let '(m1, c) := alloc1 m v in Some (retarget w i so (m1, upd (ocells so) s c))
                   else None
      end
  | OAttrSet i cont name vals =>
      match get_mesh w i with
      | Some so => Some (mkw m (upd (wobjs w) i (with_attr so (attr_set (oattr so) cont name vals))))
      | None => None
      end
  | OAttrEdit i cont name k x =>
      match get_mesh w i with
      | Some so => Some (mkw m (upd (wobjs w) i (with_attr so (attr_edit (oattr so) cont name k x))))
      | None => None
      end
  | OElemEdit i which k el =>
      match get_mesh w i with
      | Some so => Some (mkw m (upd (wobjs w) i (with_elem so which k el)))
      | None => None
      end
  | OGrow i v ne nf ce ca =>
      match get_mesh w i with
      | Some so => let '(m1, c) := alloc1 m v in Some (mkw m1 (upd (wobjs w) i (grown so c ne nf ce ca)))
      | None => None
      end
  end.

Fixpoint run (w : world) (l : list op) : option world :=
  match l with
  | [] => Some w
  | o :: t => match step w o with Some w' => run w' t | None => None end
  end.

(* canonical numbering of the buffers behind all slots of all objects, by first occurrence *)
Fixpoint index_of (c : cell) (l : list cell) (k : Z) : option Z :=
  match l with [] => None | x :: t => if Pos.eqb c x then Some k else index_of c t (k + 1)%Z end.
Fixpoint canon (seen : list cell) (cs : list cell) : list Z :=
  match cs with
  | [] => []
  | c :: t => match index_of c seen 0%Z with
              | Some k => k :: canon seen t
              | None => Z.of_nat (length seen) :: canon (seen ++ [c]) t
              end
  end.
Definition classes (w : world) : list Z := canon [] (flat_map ocells (wobjs w)).
End Model.
