(* C06 - copy, merge, from_arrays: values, combinatorics, fresh buffers; isolation corollaries. *)
From Coq Require Import ZArith List Bool PArith FMapPositive Lia.
Import ListNotations.
Require Import MV.Lib.Base MV.C06.Base MV.C06.Gen MV.C06.Model MV.C06.Proofs_Heap MV.C06.Proofs_World MV.C06.Proofs_Step.

Local Arguments alloc1 : simpl never.
Local Arguments take : simpl never.

(* ---------------------------------------------------------------- merge combinatorics (no heap involved) *)
(* the specification: elements of input k are shifted by the number of vertices of the inputs before it *)
Fixpoint shifted (sel : obj -> list (list Z)) (off : Z) (ins : list obj) : list (list Z) :=
  match ins with
  | [] => []
  | o :: t => map (map (Z.add off)) (sel o) ++ shifted sel (off + nverts o) t
  end.
Definition sel_edges (o : obj) := if has_edges (okind o) then oedges o else [].
Definition sel_faces (o : obj) := if has_faces (okind o) then ofaces o else [].
Definition sel_cells (o : obj) := if has_cells (okind o) then occells o else [].
(* dimensionality of what an input actually contains *)
Definition ddim (o : obj) : Z := data_dim (nonempty (sel_edges o)) (nonempty (sel_faces o)) (nonempty (sel_cells o)).
Definition max_dim (ins : list obj) : Z := fold_right (fun o acc => Z.max (ddim o) acc) 0%Z ins.

Lemma merge_comb_shifted ins : forall off,
  merge_comb off ins = (shifted sel_edges off ins, shifted sel_faces off ins, shifted sel_cells off ins).
Proof.
  induction ins as [|o t IH]; intros off; cbn [merge_comb shifted]; auto.
  rewrite IH. unfold merge_next_offset, sel_edges, sel_faces, sel_cells.
  change (merge_shift_edges off (nverts o)) with (Z.add off).
  change (merge_shift_faces off (nverts o)) with (Z.add off).
  change (merge_shift_cells off (nverts o)) with (Z.add off).
  destruct (has_edges (okind o)), (has_faces (okind o)), (has_cells (okind o)); reflexivity.
Qed.

Lemma nonempty_app {A} (a b : list A) : nonempty (a ++ b) = nonempty a || nonempty b.
Proof. destruct a; reflexivity. Qed.
Lemma nonempty_map {A B} (f : A -> B) l : nonempty (map f l) = nonempty l.
Proof. destruct l; reflexivity. Qed.

Lemma data_dim_or e1 f1 c1 e2 f2 c2 :
  data_dim (e1 || e2) (f1 || f2) (c1 || c2) = Z.max (data_dim e1 f1 c1) (data_dim e2 f2 c2).
Proof. destruct e1, f1, c1, e2, f2, c2; reflexivity. Qed.

Lemma data_dim_range e f c : (0 <= data_dim e f c <= 3)%Z.
Proof. destruct e, f, c; unfold data_dim; lia. Qed.

Lemma class_of_dim_id d : (0 <= d <= 3)%Z -> class_of_dim d = d.
Proof.
  intros H. assert (d = 0 \/ d = 1 \/ d = 2 \/ d = 3)%Z as [-> | [-> | [-> | ->]]] by lia; reflexivity.
Qed.

Lemma merge_kind ins : forall off,
  kind_of_data (shifted sel_edges off ins) (shifted sel_faces off ins) (shifted sel_cells off ins) = max_dim ins.
Proof.
  unfold kind_of_data. intros off.
  assert (E : data_dim (nonempty (shifted sel_edges off ins)) (nonempty (shifted sel_faces off ins))
                       (nonempty (shifted sel_cells off ins)) = max_dim ins).
  { revert off. induction ins as [|o t IH]; intros off; cbn [shifted max_dim fold_right]; [reflexivity|].
    rewrite !nonempty_app, !nonempty_map, data_dim_or. fold (max_dim t). rewrite IH. reflexivity. }
  rewrite E. pose proof (data_dim_range (nonempty (shifted sel_edges off ins)) (nonempty (shifted sel_faces off ins))
                                        (nonempty (shifted sel_cells off ins))) as R. rewrite E in R.
  rewrite Z.max_r by lia. now apply class_of_dim_id.
Qed.

Section Merge.
Context {T : Type} (O : ops T).
Notation vec := (vec T).
Notation rd := (rd O).
Notation world := (world (T:=T)).
Notation op := (op (T:=T)).
Notation wf := (wf (T:=T)).

(* ---- copy *)
Theorem copy_spec (w w' : world) i attr :
  wf w -> step O w (OCopy i attr) = Some w' ->
  exists so co, get_mesh w i = Some so /\ wobjs w' = wobjs w ++ [co]
    /\ coords O (mheap (wmem w')) co = coords O (mheap (wmem w)) so
    /\ oedges co = oedges so /\ ofaces co = ofaces so /\ occells co = occells so /\ ocorn co = ocorn so
    /\ oattr co = (if attr then oattr so else []) /\ okind co = okind so
    /\ NoDup (ocells co) /\ (forall c, In c (ocells co) -> ~ allocated (wmem w) c)
    /\ frame O (wmem w) (wmem w').
Proof.
  intros Hwf Hs. cbn [step] in Hs. destruct (get_mesh w i) as [so|] eqn:Em; [|discriminate].
  rewrite copy_is_deep in Hs. destruct (take O Copy (wmem w) (ocells so)) as [m1 cs] eqn:E.
  inversion Hs; subst; clear Hs. apply take_copy_fresh in E as (Hfb & Hf & Hmap).
  rewrite copy_plumbing_is_identity.
  eexists so, _. split; [reflexivity|]. split; [reflexivity|]. simpl. repeat split; auto; try apply Hf; try apply Hfb.
  intros c Hc. eapply fresh_block_not_allocated; eauto.
Qed.

(* ---- merge *)
Theorem merge_spec (w w' : world) ms :
  wf w -> step O w (OMerge ms) = Some w' ->
  exists ins mo, get_meshes w ms = Some ins /\ wobjs w' = wobjs w ++ [mo]
    /\ coords O (mheap (wmem w')) mo = flat_map (coords O (mheap (wmem w))) ins
    /\ oedges mo = shifted sel_edges 0 ins /\ ofaces mo = shifted sel_faces 0 ins /\ occells mo = shifted sel_cells 0 ins
    /\ ocorn mo = merge_corn 0 0 0 ins /\ oattr mo = [] /\ okind mo = max_dim ins
    /\ NoDup (ocells mo) /\ (forall c, In c (ocells mo) -> ~ allocated (wmem w) c)
    /\ frame O (wmem w) (wmem w').
Proof.
  intros Hwf Hs. cbn [step] in Hs. destruct ms as [|i0 mt]; [discriminate|].
  destruct (get_meshes w (i0 :: mt)) as [ins|] eqn:Eg; [|discriminate].
  destruct (merge_cells O (wmem w) ins) as [m1 cs] eqn:E.
  rewrite merge_comb_shifted in Hs. change merge_offset0 with 0%Z in Hs.
  inversion Hs; subst; clear Hs.
  apply merge_cells_spec in E as (Hfb & Hf & Hmap).
  - eexists ins, _. split; [reflexivity|]. split; [reflexivity|]. simpl.
    repeat split; auto; try apply Hf; try apply Hfb; try apply merge_kind.
    intros c Hc. eapply fresh_block_not_allocated; eauto.
  - intros o Ho. apply wf_objs_allocated; auto. eapply get_meshes_In; eauto.
Qed.

(* ---- from_arrays *)
Theorem from_arrays_spec (w w' : world) a e f c cn k :
  wf w -> step O w (OFromArrays a e f c cn k) = Some w' ->
  exists ao mo, nth_error (wobjs w) a = Some ao /\ wobjs w' = wobjs w ++ [mo]
    /\ coords O (mheap (wmem w')) mo = coords O (mheap (wmem w)) ao
    /\ NoDup (ocells mo) /\ (forall c, In c (ocells mo) -> ~ allocated (wmem w) c)
    /\ frame O (wmem w) (wmem w').
Proof.
  intros Hwf Hs. cbn [step] in Hs. destruct (nth_error (wobjs w) a) as [ao|] eqn:Ea; [|discriminate].
  destruct (is_mesh ao); [discriminate|]. rewrite from_arrays_copies in Hs.
  destruct (take O Copy (wmem w) (ocells ao)) as [m1 cs] eqn:E. inversion Hs; subst; clear Hs.
  apply take_copy_fresh in E as (Hfb & Hf & Hmap).
  exists ao, (mkobj cs e f c cn [] k). repeat split; auto; try apply Hf; try apply Hfb.
  intros x Hx. eapply fresh_block_not_allocated; eauto.
Qed.

(* ---- ring *)
Theorem ring_spec (w w' : world) N nc open vs e f cn :
  step O w (ORing N nc open vs e f cn) = Some w' ->
  exists ro, wobjs w' = wobjs w ++ [ro] /\ coords O (mheap (wmem w')) ro = vs
    /\ NoDup (ocells ro) /\ (forall c, In c (ocells ro) -> ~ allocated (wmem w) c) /\ frame O (wmem w) (wmem w').
Proof.
  intros Hs. cbn [step] in Hs. destruct (ring_cells O (wmem w) N nc open vs) as [[m1 cs]|] eqn:E; [|discriminate].
  inversion Hs; subst; clear Hs. apply ring_cells_spec in E as (A & B & C & D & F).
  exists (mkobj cs e f [] cn [] 2). repeat split; auto; apply C.
Qed.

(* ---- histories that never target object j leave its list of cells alone *)
Lemma untargeted_cells : forall l (w w' : world) k,
  wf w -> ok_hist O w l -> Forall (targets_only k) l -> run O w l = Some w' ->
  forall j, j <> k -> (j < length (wobjs w))%nat -> obj_cells w' j = obj_cells w j.
Proof.
  induction l as [|o t IH]; intros w w' k Hwf Hok Ht Hr j Hj Hlen; simpl in Hr.
  - now inversion Hr.
  - destruct (step O w o) as [w1|] eqn:Es; [|discriminate]. destruct Hok as [Hok Hrest].
    inversion Ht as [|? ? Ho Ht']; subst.
    destruct (step_effect O _ _ _ Hwf Hok Es) as (_ & _ & _ & Hsame).
    rewrite (IH w1 w' k); auto.
    + apply Hsame; auto. destruct Ho as [Ho|Ho]; rewrite Ho; congruence.
    + eapply step_wf; eauto.
    + pose proof (step_length O _ _ _ Hwf Hok Es). lia.
Qed.

Definition obj_coords (w : world) (k : nat) : list vec := map (rd (mheap (wmem w))) (obj_cells w k).

(* one transform / edit through object i leaves object j alone as soon as the two share no buffer *)
Theorem disjoint_objects_do_not_interfere (w w' : world) o i j :
  wf w -> op_ok w o -> step O w o = Some w' -> target o = Some i -> j <> i -> (j < length (wobjs w))%nat ->
  (forall c, In c (obj_cells w j) -> ~ In c (obj_cells w i)) ->
  obj_coords w' j = obj_coords w j.
Proof.
  intros Hwf Hok Hs Ht Hj Hlen Hdis. destruct (step_effect O _ _ _ Hwf Hok Hs) as (_ & Hfr & _ & Hsame).
  unfold obj_coords. rewrite Hsame; auto; [|rewrite Ht; congruence].
  apply map_ext_in. intros c Hc. apply Hfr.
  - unfold obj_cells in Hc. destruct (nth_error (wobjs w) j) as [oj|] eqn:E; [|destruct Hc].
    destruct (wf_nth _ _ _ Hwf E) as [_ H]. rewrite Forall_forall in H. auto.
  - intros i' Hi'. rewrite Ht in Hi'. inversion Hi'; subst. auto.
Qed.

(* A freshly made object (copy, merge result, from_arrays mesh: anything whose cells were not allocated before)
   and an older object are isolated from one another under every later history:
   writing through the new one never changes the old one, and the reverse. *)
Theorem fresh_object_isolated (w w1 w2 : world) l i new :
  wf w -> wf w1 -> (i < length (wobjs w))%nat -> wobjs w1 = wobjs w ++ [new] -> frame O (wmem w) (wmem w1) ->
  (forall c, In c (ocells new) -> ~ allocated (wmem w) c) ->
  ok_hist O w1 l -> run O w1 l = Some w2 ->
  (Forall (targets_only (length (wobjs w))) l -> obj_coords w2 i = obj_coords w1 i)
  /\ (Forall (targets_only i) l -> obj_coords w2 (length (wobjs w)) = obj_coords w1 (length (wobjs w))).
Proof.
  intros Hwf Hwf1 Hi Hobjs Hfr Hfresh Hok Hr.
  assert (Hlen1 : length (wobjs w1) = S (length (wobjs w))) by (rewrite Hobjs, app_length; simpl; lia).
  assert (Hnew : obj_cells w1 (length (wobjs w)) = ocells new).
  { unfold obj_cells. rewrite Hobjs, nth_error_app2, Nat.sub_diag by lia. reflexivity. }
  assert (Hold : obj_cells w1 i = obj_cells w i).
  { unfold obj_cells. rewrite Hobjs, nth_error_app1 by lia. reflexivity. }
  assert (Hal : forall c, In c (obj_cells w i) -> allocated (wmem w) c).
  { intros c Hc. unfold obj_cells in Hc. destruct (nth_error (wobjs w) i) as [o|] eqn:E; [|destruct Hc].
    destruct (wf_nth _ _ _ Hwf E) as [_ H]. rewrite Forall_forall in H. auto. }
  split; intros Ht.
  - (* only the new object is written *)
    destruct (isolation O l w1 w2 (fun c => In c (obj_cells w i)) (length (wobjs w))) as [A _]; auto; try lia.
    + intros c Hc. eapply allocated_mono; eauto.
    + intros c Hc Hin. rewrite Hnew in Hc. exact (Hfresh _ Hc (Hal _ Hin)).
    + unfold obj_coords. rewrite (untargeted_cells l w1 w2 (length (wobjs w))); auto; try lia.
      rewrite Hold. apply map_ext_in. intros c Hc. apply A. exact Hc.
  - (* only the old object is written *)
    destruct (isolation O l w1 w2 (fun c => In c (ocells new)) i) as [A _]; auto; try lia.
    + intros c Hc. rewrite <- Hnew in Hc. unfold obj_cells in Hc.
      destruct (nth_error (wobjs w1) (length (wobjs w))) as [o|] eqn:E; [|destruct Hc].
      destruct (wf_nth _ _ _ Hwf1 E) as [_ H]. rewrite Forall_forall in H. auto.
    + intros c Hc Hin. rewrite Hold in Hc. exact (Hfresh _ Hin (Hal _ Hc)).
    + unfold obj_coords. rewrite (untargeted_cells l w1 w2 i); auto; try lia.
      rewrite Hnew. apply map_ext_in. intros c Hc. apply A. exact Hc.
Qed.
End Merge.
