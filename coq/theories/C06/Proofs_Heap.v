(* C06 - reference cells: read/write/alloc, fresh blocks, frames, the two loop shapes of transform.py. *)
From Coq Require Import ZArith List Bool PArith FMapPositive Lia.
Import ListNotations.
Require Import MV.Lib.Base MV.C06.Base MV.C06.Gen MV.C06.Model.

Local Arguments alloc1 : simpl never.

Section Heap.
Context {T : Type} (O : ops T).
Notation vec := (vec T).
Notation rd := (rd O).
Notation mem := (mem (T:=T)).

Definition allocated (m : mem) (c : cell) : Prop := (c < mnext m)%positive.
(* m' extends m: nothing allocated in m was rewritten *)
Definition frame (m m' : mem) : Prop :=
  (mnext m <= mnext m')%positive /\ forall c, allocated m c -> rd (mheap m') c = rd (mheap m) c.
(* cs are pairwise distinct cells allocated between m and m' *)
Definition fresh_block (m m' : mem) (cs : list cell) : Prop :=
  NoDup cs /\ Forall (fun c => (mnext m <= c < mnext m')%positive) cs.

Lemma rd_wr_same h c v : rd (wr h c v) c = v.
Proof. unfold Model.rd, wr. now rewrite PositiveMap.gss. Qed.

Lemma rd_wr_other h c c' v : c <> c' -> rd (wr h c v) c' = rd h c'.
Proof. intros H. unfold Model.rd, wr. rewrite PositiveMap.gso; auto. Qed.

Lemma frame_refl m : frame m m.
Proof. split; [lia | auto]. Qed.

Lemma frame_trans a b c : frame a b -> frame b c -> frame a c.
Proof.
  intros [H1 H2] [H3 H4]. split; [lia|]. intros x Hx. rewrite H4, H2; auto. unfold allocated in *. lia.
Qed.

Lemma allocated_mono m m' c : frame m m' -> allocated m c -> allocated m' c.
Proof. intros [H _]. unfold allocated. lia. Qed.

Lemma Forall_allocated_mono m m' cs : frame m m' -> Forall (allocated m) cs -> Forall (allocated m') cs.
Proof. intros H. apply Forall_impl. intros a. now apply allocated_mono. Qed.

Lemma alloc1_spec m v m' c :
  alloc1 m v = (m', c) ->
  c = mnext m /\ mnext m' = Pos.succ (mnext m) /\ rd (mheap m') c = v /\ frame m m'.
Proof.
  unfold alloc1. intros E. inversion E; subst; clear E. simpl. repeat split.
  - apply rd_wr_same.
  - simpl. lia.
  - intros x Hx. simpl. apply rd_wr_other. unfold allocated in Hx. lia.
Qed.

Lemma fresh_block_not_allocated m m' cs c : fresh_block m m' cs -> In c cs -> ~ allocated m c.
Proof.
  intros [_ H] Hc. rewrite Forall_forall in H. specialize (H _ Hc). unfold allocated. lia.
Qed.

Lemma fresh_block_allocated m m' cs : fresh_block m m' cs -> Forall (allocated m') cs.
Proof. intros [_ H]. eapply Forall_impl; [|exact H]. unfold allocated. simpl. intros; lia. Qed.

Lemma allocs_spec vs : forall m m' cs,
  allocs m vs = (m', cs) ->
  fresh_block m m' cs /\ frame m m' /\ map (rd (mheap m')) cs = vs.
Proof.
  induction vs as [|v t IH]; intros m m' cs E; cbn [allocs] in E.
  - inversion E; subst. repeat split; try constructor; try lia; auto.
  - destruct (alloc1 m v) as [m1 c] eqn:E1. destruct (allocs m1 t) as [m2 r] eqn:E2.
    inversion E; subst; clear E.
    apply alloc1_spec in E1 as (Hc & Hn & Hv & Hf1).
    apply IH in E2 as ([Hnd Hrange] & Hf2 & Hmap).
    assert (Hle : (mnext m1 <= mnext m')%positive) by apply Hf2.
    repeat split.
    + constructor; auto. intros Hin. rewrite Forall_forall in Hrange. specialize (Hrange _ Hin). lia.
    + constructor; [lia|]. eapply Forall_impl; [|exact Hrange]. simpl. intros; lia.
    + destruct Hf1, Hf2. lia.
    + apply (frame_trans _ _ _ Hf1 Hf2).
    + simpl. f_equal; auto. destruct Hf2 as [_ Hf2]. rewrite Hf2; auto. unfold allocated. lia.
Qed.

(* taking vectors over, in either mode, keeps "pairwise distinct and allocated" and the values *)
Lemma take_spec md m cs m' cs' :
  take O md m cs = (m', cs') -> NoDup cs -> Forall (allocated m) cs ->
  NoDup cs' /\ Forall (allocated m') cs' /\ frame m m' /\ map (rd (mheap m')) cs' = map (rd (mheap m)) cs.
Proof.
  intros E Hnd Hal. destruct md; simpl in E.
  - inversion E; subst. repeat split; auto using frame_refl. lia.
  - apply allocs_spec in E as (Hfb & Hf & Hmap). repeat split; auto; try apply Hfb; try apply Hf.
    now apply fresh_block_allocated with (m := m).
Qed.

Lemma take_copy_fresh m cs m' cs' :
  take O Copy m cs = (m', cs') ->
  fresh_block m m' cs' /\ frame m m' /\ map (rd (mheap m')) cs' = map (rd (mheap m)) cs.
Proof. intros E. simpl in E. now apply allocs_spec in E. Qed.

(* ---- in-place loop: every cell written once iff the cells are pairwise distinct *)
Lemma inplace_other f cs : forall h c, ~ In c cs -> rd (inplace O f h cs) c = rd h c.
Proof.
  induction cs as [|a t IH]; intros h c Hn; simpl; auto.
  rewrite IH by (intros H; apply Hn; now right). apply rd_wr_other. intros ->. apply Hn. now left.
Qed.

Lemma inplace_once f cs : forall h, NoDup cs ->
  map (rd (inplace O f h cs)) cs = map f (map (rd h) cs).
Proof.
  induction cs as [|a t IH]; intros h Hnd; simpl; auto.
  inversion Hnd as [|? ? Hna Hnt]; subst. f_equal.
  - rewrite inplace_other by assumption. apply rd_wr_same.
  - rewrite IH by assumption. f_equal. apply map_ext_in. intros x Hx. apply rd_wr_other. intros ->. contradiction.
Qed.

(* ---- rebinding loop *)
Lemma rebind_spec f cs : forall m m' cs',
  rebind O f m cs = (m', cs') -> Forall (allocated m) cs ->
  fresh_block m m' cs' /\ frame m m' /\ map (rd (mheap m')) cs' = map f (map (rd (mheap m)) cs).
Proof.
  induction cs as [|a t IH]; intros m m' cs' E Hal; cbn [rebind] in E.
  - inversion E; subst. repeat split; try constructor; try lia; auto.
  - destruct (alloc1 m (f (rd (mheap m) a))) as [m1 c] eqn:E1. destruct (rebind O f m1 t) as [m2 r] eqn:E2.
    inversion E; subst; clear E. inversion Hal as [|? ? Ha Ht]; subst.
    apply alloc1_spec in E1 as (Hc & Hn & Hv & Hf1).
    apply IH in E2 as ([Hnd Hrange] & Hf2 & Hmap); [|now apply Forall_allocated_mono with (m := m)].
    assert (Hle : (mnext m1 <= mnext m')%positive) by apply Hf2.
    repeat split.
    + constructor; auto. intros Hin. rewrite Forall_forall in Hrange. specialize (Hrange _ Hin). lia.
    + constructor; [lia|]. eapply Forall_impl; [|exact Hrange]. simpl. intros; lia.
    + destruct Hf1, Hf2. lia.
    + apply (frame_trans _ _ _ Hf1 Hf2).
    + simpl. f_equal.
      * destruct Hf2 as [_ Hf2]. rewrite Hf2; auto. unfold allocated. lia.
      * rewrite Hmap. f_equal. apply map_ext_in. intros x Hx. destruct Hf1 as [_ Hf1]. apply Hf1.
        rewrite Forall_forall in Ht. now apply Ht.
Qed.

(* ---- what any transform loop guarantees on pairwise distinct, allocated cells *)
Definition tr_spec (f : vec -> vec) (m : mem) (cs : list cell) (m' : mem) (cs' : list cell) : Prop :=
  map (rd (mheap m')) cs' = map f (map (rd (mheap m)) cs)
  /\ (forall c, allocated m c -> ~ In c cs -> rd (mheap m') c = rd (mheap m) c)
  /\ NoDup cs' /\ Forall (allocated m') cs' /\ (mnext m <= mnext m')%positive
  /\ length cs' = length cs
  /\ (forall c, In c cs' -> In c cs \/ ~ allocated m c).

Lemma apply_kind_spec k f m cs m' cs' :
  apply_kind O k f m cs = (m', cs') -> NoDup cs -> Forall (allocated m) cs -> tr_spec f m cs m' cs'.
Proof.
  intros E Hnd Hal. destruct k; simpl in E.
  - inversion E; subst; clear E. unfold tr_spec; simpl. repeat split; auto.
    + now apply inplace_once.
    + intros c _ Hn. now apply inplace_other.
    + lia.
  - apply rebind_spec in E as (Hfb & Hf & Hmap); auto. unfold tr_spec. repeat split; auto.
    + intros c Hc _. now apply Hf.
    + apply Hfb.
    + now apply fresh_block_allocated with (m := m).
    + apply Hf.
    + apply (f_equal (@length _)) in Hmap. now rewrite !map_length in Hmap.
    + intros c Hc. right. eapply fresh_block_not_allocated; eauto.
Qed.

Lemma tr_spec_ext f g m cs m' cs' :
  (forall p, f p = g p) -> tr_spec f m cs m' cs' -> tr_spec g m cs m' cs'.
Proof.
  intros H (H1 & H2). split; auto. rewrite H1. apply map_ext. auto.
Qed.

(* composition of two loops on the same container (normalize = translate then scale) *)
Lemma tr_spec_comp f g m cs m1 cs1 m2 cs2 :
  tr_spec f m cs m1 cs1 -> tr_spec g m1 cs1 m2 cs2 -> tr_spec (fun p => g (f p)) m cs m2 cs2.
Proof.
  intros (A1 & A2 & A3 & A4 & A5 & A6 & A7) (B1 & B2 & B3 & B4 & B5 & B6 & B7).
  unfold tr_spec. repeat split; auto; try lia.
  - rewrite B1, A1, !map_map. reflexivity.
  - intros c Hc Hn. rewrite B2.
    + now apply A2.
    + unfold allocated in *. lia.
    + intros Hin. destruct (A7 _ Hin); contradiction.
  - intros c Hc. destruct (B7 _ Hc) as [Hin|Hna].
    + apply A7 in Hin. exact Hin.
    + right. intros Hal. apply Hna. unfold allocated in *. lia.
Qed.
End Heap.
