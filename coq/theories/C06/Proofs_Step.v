(* C06 - one step of a history: what it allocates, what it writes, what it leaves alone; the invariant; isolation. *)
From Coq Require Import ZArith List Bool PArith FMapPositive Lia.
Import ListNotations.
Require Import MV.Lib.Base MV.C06.Base MV.C06.Gen MV.C06.Model MV.C06.Proofs_Heap MV.C06.Proofs_World.

Local Arguments alloc1 : simpl never.
Local Arguments take : simpl never.
Local Arguments apply_kind : simpl never.

Section Step.
Context {T : Type} (O : ops T).
Notation vec := (vec T).
Notation rd := (rd O).
Notation world := (world (T:=T)).
Notation mem := (mem (T:=T)).
Notation op := (op (T:=T)).
Notation wf := (wf (T:=T)).

(* the per-vertex map of every transform, as the generated definitions give it *)
Definition tmap (w : world) (o : op) : option (nat * (vec -> vec)) :=
  let h := mheap (wmem w) in
  match o with
  | OTranslate i (PVal v) => Some (i, translate_pt O v)
  | OTranslate i (PSlot po ps) =>
      match cell_of w po ps with Some pc => Some (i, translate_pt O (rd h pc)) | None => None end
  | ORotate i R orig =>
      match get_mesh w i with
      | Some so => match default_orig O rotate_default h (ocells so) orig with
                   | Some og => Some (i, rotate_pt O (mapply O R) og) | None => None end
      | None => None
      end
  | OScale i s orig =>
      match get_mesh w i with
      | Some so => match default_orig O scale_default h (ocells so) orig with
                   | Some og => Some (i, scale_pt O s og) | None => None end
      | None => None
      end
  | OScaleXYZ i fx fy fz orig =>
      match get_mesh w i with
      | Some so => match default_orig O scale_xyz_default h (ocells so) orig with
                   | Some og => Some (i, scale_xyz_pt O fx fy fz og) | None => None end
      | None => None
      end
  | ONormalize i c =>
      match get_mesh w i with
      | Some so => match normalize_maps O c (coords O h so) with
                   | Some (t, f) => Some (i, fun p => scale_pt O f (vzero O) (translate_pt O t p)) | None => None end
      | None => None
      end
  | OFit i =>
      match get_mesh w i with
      | Some so => match normalize_maps O fit_centre_flag (coords O h so) with
                   | Some (t, f) => Some (i, fun p => scale_pt O f (vzero O) (translate_pt O t p)) | None => None end
      | None => None
      end
  | OToOrigin i =>
      match get_mesh w i with
      | Some so => Some (i, translate_pt O (to_origin_tr O (vsum O (coords O h so)) (cst O (nverts so))))
      | None => None
      end
  | OFlatten i dim => Some (i, fun p => setc p dim (flatten_value O))
  | _ => None
  end.

Definition target (o : op) : option nat :=
  match o with
  | OTranslate i _ | ORotate i _ _ | OScale i _ _ | OScaleXYZ i _ _ _ _ | ONormalize i _ | OFit i | OToOrigin i
  | OFlatten i _ | OSet i _ _ | OEdit i _ _ _ | OAttrSet i _ _ _ | OAttrEdit i _ _ _ _ | OElemEdit i _ _ _ | OGrow i _ _ _ _ _ => Some i
  | _ => None
  end.

(* results that take vectors over AS THEY ARE (the caller's own arrays and PointCloud.append - user code - or an exporter
   whose regenerated append does not copy): the stated hypothesis is that no vector ends up under two vertex ids.
   Results built through prepare() or by an appending exporter that copies need no hypothesis. *)
Definition op_ok (w : world) (o : op) : Prop :=
  match o with
  | ONew how pat _ _ _ _ _ _ =>
      match build_mode how with
      | Alias => forall m' cs, build_ext (wobjs w) (wmem w) pat = Some (m', cs) -> NoDup cs
      | Copy => True
      end
  | _ => True
  end.

Lemma do_translate_spec m cs v m' cs' :
  do_translate O m cs v = (m', cs') -> NoDup cs -> Forall (allocated m) cs ->
  tr_spec O (translate_pt O v) m cs m' cs'.
Proof. unfold do_translate. apply apply_kind_spec. Qed.

Lemma scale_default_zero : scale_default = DZero.
Proof. reflexivity. Qed.

Lemma do_normalize_spec m cs c m' cs' t f :
  normalize_maps O c (map (rd (mheap m)) cs) = Some (t, f) ->
  do_normalize O m cs c = Some (m', cs') -> NoDup cs -> Forall (allocated m) cs ->
  tr_spec O (fun p => scale_pt O f (vzero O) (translate_pt O t p)) m cs m' cs'.
Proof.
  intros En E Hnd Hal. unfold do_normalize in E. rewrite En in E.
  destruct (do_translate O m cs t) as [m1 cs1] eqn:E1.
  apply do_translate_spec in E1; auto.
  unfold do_scale in E. rewrite scale_default_zero in E. cbn [default_orig] in E.
  destruct (apply_kind O scale_kind (scale_pt O f (vzero O)) m1 cs1) as [m2 cs2] eqn:E2.
  inversion E; subst; clear E.
  pose proof E1 as (_ & _ & Hnd1 & Hal1 & _).
  apply apply_kind_spec in E2; auto.
  exact (tr_spec_comp O _ _ _ _ _ _ _ _ E1 E2).
Qed.

Lemma upd_same {A} (l : list A) i x : nth_error l i = Some x -> upd l i x = l.
Proof.
  revert i. induction l as [|a t IH]; intros i H; simpl; auto.
  destruct i; simpl in H; [congruence|]. f_equal. auto.
Qed.

Lemma with_cells_same o : with_cells o (ocells o) = o.
Proof. destruct o; reflexivity. Qed.

(* every transform op is one loop of transform.py over the target's own cells *)
Lemma step_tmap (w w' : world) o i f :
  wf w -> tmap w o = Some (i, f) -> step O w o = Some w' ->
  exists so m' cs', get_mesh w i = Some so /\ w' = retarget w i so (m', cs')
                    /\ tr_spec O f (wmem w) (ocells so) m' cs'.
Proof.
  intros Hwf Ht Hs.
  assert (Hobj : forall j so, get_mesh w j = Some so -> NoDup (ocells so) /\ Forall (allocated (wmem w)) (ocells so)).
  { intros j so E. apply get_mesh_nth in E. exact (wf_nth _ _ _ Hwf E). }
  destruct o; cbn [tmap] in Ht; try discriminate; cbn [step] in Hs.
  - (* translate *)
    destruct t as [v|po ps].
    + inversion Ht; subst; clear Ht. destruct (get_mesh w i) as [so|] eqn:Em; [|discriminate].
      destruct (Hobj _ _ Em) as [Hnd Hal]. inversion Hs; subst; clear Hs.
      destruct (do_translate O (wmem w) (ocells so) v) as [m' cs'] eqn:E.
      exists so, m', cs'. split; [first [exact Em | reflexivity]|split; [reflexivity|]]. now apply do_translate_spec.
    + destruct (cell_of w po ps) as [pc|] eqn:Ec; [|discriminate]. inversion Ht; subst; clear Ht.
      destruct (get_mesh w i) as [so|] eqn:Em; [|discriminate]. destruct (Hobj _ _ Em) as [Hnd Hal].
      rewrite translate_by_value in Hs. inversion Hs; subst; clear Hs.
      destruct (do_translate O (wmem w) (ocells so) (rd (mheap (wmem w)) pc)) as [m' cs'] eqn:E.
      exists so, m', cs'. split; [first [exact Em | reflexivity]|split; [reflexivity|]]. now apply do_translate_spec.
  - (* rotate *)
    destruct (is_rotation O R); [|discriminate]. cbn [negb] in Hs.
    destruct (get_mesh w m) as [so|] eqn:Em; [|discriminate]. destruct (Hobj _ _ Em) as [Hnd Hal].
    destruct (default_orig O rotate_default (mheap (wmem w)) (ocells so) orig) as [og|]; [|discriminate].
    inversion Ht; subst; clear Ht. inversion Hs; subst; clear Hs.
    destruct (apply_kind O rotate_kind (rotate_pt O (mapply O R) og) (wmem w) (ocells so)) as [m' cs'] eqn:E.
    exists so, m', cs'. split; [first [exact Em | reflexivity]|split; [reflexivity|]]. now apply apply_kind_spec in E.
  - (* scale *)
    destruct (get_mesh w m) as [so|] eqn:Em; [|discriminate]. destruct (Hobj _ _ Em) as [Hnd Hal].
    unfold do_scale in Hs.
    destruct (default_orig O scale_default (mheap (wmem w)) (ocells so) orig) as [og|]; [|discriminate].
    inversion Ht; subst; clear Ht. inversion Hs; subst; clear Hs.
    destruct (apply_kind O scale_kind (scale_pt O s og) (wmem w) (ocells so)) as [m' cs'] eqn:E.
    exists so, m', cs'. split; [first [exact Em | reflexivity]|split; [reflexivity|]]. now apply apply_kind_spec in E.
  - (* scale_xyz *)
    destruct (get_mesh w m) as [so|] eqn:Em; [|discriminate]. destruct (Hobj _ _ Em) as [Hnd Hal].
    destruct (default_orig O scale_xyz_default (mheap (wmem w)) (ocells so) orig) as [og|]; [|discriminate].
    inversion Ht; subst; clear Ht. inversion Hs; subst; clear Hs.
    destruct (apply_kind O scale_xyz_kind (scale_xyz_pt O fx fy fz og) (wmem w) (ocells so)) as [m' cs'] eqn:E.
    exists so, m', cs'. split; [first [exact Em | reflexivity]|split; [reflexivity|]]. now apply apply_kind_spec in E.
  - (* normalize *)
    destruct (get_mesh w m) as [so|] eqn:Em; [|discriminate]. destruct (Hobj _ _ Em) as [Hnd Hal].
    unfold coords in Ht.
    destruct (normalize_maps O centre (map (rd (mheap (wmem w))) (ocells so))) as [[t fa]|] eqn:En; [|discriminate].
    inversion Ht; subst; clear Ht.
    destruct (do_normalize O (wmem w) (ocells so) centre) as [[m' cs']|] eqn:E; [|discriminate].
    inversion Hs; subst; clear Hs. exists so, m', cs'. split; [first [exact Em | reflexivity]|split; [reflexivity|]].
    eapply do_normalize_spec; eauto.
  - (* fit *)
    destruct (get_mesh w m) as [so|] eqn:Em; [|discriminate]. destruct (Hobj _ _ Em) as [Hnd Hal].
    unfold coords in Ht.
    destruct (normalize_maps O fit_centre_flag (map (rd (mheap (wmem w))) (ocells so))) as [[t fa]|] eqn:En; [|discriminate].
    inversion Ht; subst; clear Ht.
    destruct (do_normalize O (wmem w) (ocells so) fit_centre_flag) as [[m' cs']|] eqn:E; [|discriminate].
    inversion Hs; subst; clear Hs. exists so, m', cs'. split; [first [exact Em | reflexivity]|split; [reflexivity|]].
    eapply do_normalize_spec; eauto.
  - (* to_origin *)
    destruct (get_mesh w m) as [so|] eqn:Em; [|discriminate]. destruct (Hobj _ _ Em) as [Hnd Hal].
    inversion Ht; subst; clear Ht.
    destruct (ocells so) as [|c0 ct] eqn:Ec; [discriminate|]. rewrite <- Ec in *. inversion Hs; subst; clear Hs.
    unfold coords.
    destruct (do_translate O (wmem w) (ocells so)
               (to_origin_tr O (vsum O (map (rd (mheap (wmem w))) (ocells so))) (cst O (nverts so)))) as [m' cs'] eqn:E.
    exists so, m', cs'. split; [first [exact Em | reflexivity]|split; [reflexivity|]]. now apply do_translate_spec.
  - (* flatten *)
    inversion Ht; subst; clear Ht.
    destruct (get_mesh w i) as [so|] eqn:Em; [|discriminate]. destruct (Hobj _ _ Em) as [Hnd Hal].
    destruct (dim <? 3)%nat; [|discriminate]. inversion Hs; subst; clear Hs.
    destruct (apply_kind O InPlace (fun p => setc p dim (flatten_value O)) (wmem w) (ocells so)) as [m' cs'] eqn:E.
    exists so, m', cs'. split; [first [exact Em | reflexivity]|split; [reflexivity|]]. now apply apply_kind_spec in E.
Qed.

(* ---- the shape of every step: a new object on fresh-or-shared cells, or one object's cells rewritten *)
Definition step_shape (w w' : world) (o : op) : Prop :=
  (target o = None /\ exists m' no, w' = push w m' no /\ frame O (wmem w) m' /\ wf_obj m' no)
  \/ (exists i so so' m' cs', target o = Some i /\ nth_error (wobjs w) i = Some so
        /\ w' = mkw m' (upd (wobjs w) i so') /\ ocells so' = cs'
        /\ (mnext (wmem w) <= mnext m')%positive /\ NoDup cs' /\ Forall (allocated m') cs'
        /\ (forall c, allocated (wmem w) c -> ~ In c (ocells so) -> rd (mheap m') c = rd (mheap (wmem w)) c)
        /\ (forall c, In c cs' -> In c (ocells so) \/ ~ allocated (wmem w) c)).

Lemma tmap_target w o i f : tmap w o = Some (i, f) -> target o = Some i.
Proof.
  destruct o; cbn [tmap target]; try discriminate.
  - destruct t; [intros E; inversion E; auto|]. destruct (cell_of w _ _); [|discriminate]. intros E; inversion E; auto.
  - destruct (get_mesh w m); [|discriminate]. destruct (default_orig _ _ _ _ _); [|discriminate]. intros E; inversion E; auto.
  - destruct (get_mesh w m); [|discriminate]. destruct (default_orig _ _ _ _ _); [|discriminate]. intros E; inversion E; auto.
  - destruct (get_mesh w m); [|discriminate]. destruct (default_orig _ _ _ _ _); [|discriminate]. intros E; inversion E; auto.
  - destruct (get_mesh w m); [|discriminate]. destruct (normalize_maps _ _ _) as [[? ?]|]; [|discriminate]. intros E; inversion E; auto.
  - destruct (get_mesh w m); [|discriminate]. destruct (normalize_maps _ _ _) as [[? ?]|]; [|discriminate]. intros E; inversion E; auto.
  - destruct (get_mesh w m); [|discriminate]. intros E; inversion E; auto.
  - intros E; inversion E; auto.
Qed.

(* a transform step is defined exactly when its map is *)
Lemma step_has_tmap (w w' : world) o :
  step O w o = Some w' ->
  match o with
  | OTranslate _ _ | ORotate _ _ _ | OScale _ _ _ | OScaleXYZ _ _ _ _ _ | ONormalize _ _ | OFit _ | OToOrigin _
  | OFlatten _ _ => exists i f, tmap w o = Some (i, f)
  | _ => True
  end.
Proof.
  destruct o; auto; cbn [step tmap]; intros Hs.
  - destruct (get_mesh w m); [|discriminate]. destruct t; eauto. destruct (cell_of w _ _); [eauto|discriminate].
  - destruct (is_rotation O R); [|discriminate]. cbn [negb] in Hs.
    destruct (get_mesh w m); [|discriminate]. destruct (default_orig _ _ _ _ _); [eauto|discriminate].
  - destruct (get_mesh w m); [|discriminate]. unfold do_scale in Hs. destruct (default_orig _ _ _ _ _); [eauto|discriminate].
  - destruct (get_mesh w m); [|discriminate]. destruct (default_orig _ _ _ _ _); [eauto|discriminate].
  - destruct (get_mesh w m) as [so|]; [|discriminate]. unfold do_normalize in Hs. unfold coords.
    destruct (normalize_maps _ _ _) as [[? ?]|]; [eauto|discriminate].
  - destruct (get_mesh w m) as [so|]; [|discriminate]. unfold do_normalize in Hs. unfold coords.
    destruct (normalize_maps _ _ _) as [[? ?]|]; [eauto|discriminate].
  - destruct (get_mesh w m); [eauto|discriminate].
  - eauto.
Qed.

Lemma wf_objs_allocated (w : world) : wf w -> forall o, In o (wobjs w) -> Forall (allocated (wmem w)) (ocells o).
Proof. intros H o Ho. unfold Proofs_World.wf in H. rewrite Forall_forall in H. apply H; auto. Qed.

Lemma step_shape_holds (w w' : world) o : wf w -> op_ok w o -> step O w o = Some w' -> step_shape w w' o.
Proof.
  intros Hwf Hok Hs. pose proof (step_has_tmap _ _ _ Hs) as Htm.
  destruct o; cbn [target] in *;
    try (destruct Htm as (i & f & Ht); pose proof (tmap_target _ _ _ _ Ht) as Hti; cbn [target] in Hti;
         destruct (step_tmap _ _ _ _ _ Hwf Ht Hs) as (so & m' & cs' & Em & -> & (S1 & S2 & S3 & S4 & S5 & S6 & S7));
         right; exists i, so, (with_cells so cs'), m', cs'; repeat split; auto using get_mesh_nth; fail).
  - (* ONew *)
    left. split; auto. cbn [step] in Hs. destruct (build_ext (wobjs w) (wmem w) pat) as [[m1 cs]|] eqn:E; [|discriminate].
    pose proof E as E0.
    apply build_ext_spec with (O := O) in E as [Hf Hal]; [|apply wf_objs_allocated; auto].
    destruct (take O (build_mode how) m1 cs) as [m2 cs2] eqn:Et. inversion Hs; subst. cbn [op_ok] in Hok.
    exists m2, (mkobj cs2 e f c cn at0 k). destruct (build_mode how).
    + cbn [take] in Et. inversion Et; subst.
      split; [reflexivity|split; [exact Hf|split; [exact (Hok _ _ E0)|exact Hal]]].
    + apply take_copy_fresh in Et as (Hfb & Hf2 & _).
      split; [reflexivity|split; [eapply frame_trans; eauto|split; [apply Hfb|]]].
      simpl. now apply fresh_block_allocated with (m := m1).
  - (* OFromArrays *)
    left. split; auto. cbn [step] in Hs. destruct (nth_error (wobjs w) a) as [ao|] eqn:Ea; [|discriminate].
    destruct (is_mesh ao); [discriminate|].
    destruct (take O (eff from_arrays_mode) (wmem w) (ocells ao)) as [m1 cs] eqn:E. inversion Hs; subst.
    destruct (wf_nth _ _ _ Hwf Ea) as [Hnd Hal].
    apply take_spec in E as (A & B & C & _); auto. exists m1, (mkobj cs e f c cn [] k). split; [reflexivity|split; [exact C|split; [exact A|exact B]]].
  - (* ORing *)
    left. split; auto. cbn [step] in Hs. destruct (ring_cells O (wmem w) N nc open vs) as [[m1 cs]|] eqn:E; [|discriminate].
    inversion Hs; subst. apply ring_cells_spec in E as (A & B & C & _). exists m1, (mkobj cs e f [] cn [] 2). split; [reflexivity|split; [exact C|split; [exact A|exact B]]].
  - (* OCopy *)
    left. split; auto. cbn [step] in Hs. destruct (get_mesh w m) as [so|] eqn:Em; [|discriminate].
    destruct (take O (if attr then copy_mode_with_attributes else copy_mode_data_only) (wmem w) (ocells so)) as [m1 cs] eqn:E.
    inversion Hs; subst. destruct (wf_nth _ _ _ Hwf (get_mesh_nth _ _ _ Em)) as [Hnd Hal].
    apply take_spec in E as (A & B & C & _); auto. exists m1, (copy_obj attr so cs). split; [reflexivity|split; [exact C|split; [exact A|exact B]]].
  - (* OMerge *)
    left. split; auto. cbn [step] in Hs. destruct ms as [|i0 mt]; [discriminate|].
    destruct (get_meshes w (i0 :: mt)) as [ins|] eqn:Eg; [|discriminate].
    destruct (merge_cells O (wmem w) ins) as [m1 cs] eqn:E.
    destruct (merge_comb merge_offset0 ins) as [[e f] c]. inversion Hs; subst.
    apply merge_cells_spec in E as (A & B & _).
    + exists m1, (mkobj cs e f c (merge_corn 0 0 0 ins) [] (kind_of_data e f c)). split; [reflexivity|split; [exact B|split; [apply A|]]].
      simpl. now apply fresh_block_allocated with (m := wmem w).
    + intros o Ho. apply wf_objs_allocated; auto. eapply get_meshes_In; eauto.
  - (* OEdit *)
    right. cbn [step] in Hs. unfold cell_of in Hs. destruct (nth_error (wobjs w) o) as [ob|] eqn:Eo; [|discriminate].
    destruct (nth_error (ocells ob) s) as [c|] eqn:Ec; [|discriminate]. destruct (k <? 3)%nat; [|discriminate].
    inversion Hs; subst; clear Hs. destruct (wf_nth _ _ _ Hwf Eo) as [Hnd Hal].
    exists o, ob, ob, (mkmem (wr (mheap (wmem w)) c (setc (rd (mheap (wmem w)) c) k x)) (mnext (wmem w))), (ocells ob).
    repeat split; auto.
    + simpl. rewrite upd_same; auto.
    + simpl. lia.
    + simpl. intros c' _ Hn. apply rd_wr_other. intros ->. apply Hn. eapply nth_error_In; eauto.
  - (* OSet *)
    right. cbn [step] in Hs. destruct (get_mesh w m) as [so|] eqn:Em; [|discriminate].
    destruct (s <? length (ocells so))%nat eqn:Es; [|discriminate].
    destruct (alloc1 (wmem w) v) as [m1 c] eqn:E. inversion Hs; subst; clear Hs.
    apply (alloc1_spec O) in E as (Hc & Hn & Hv & Hf). destruct (wf_nth _ _ _ Hwf (get_mesh_nth _ _ _ Em)) as [Hnd Hal].
    exists m, so, (with_cells so (upd (ocells so) s c)), m1, (upd (ocells so) s c). repeat split; auto using get_mesh_nth.
    + apply Hf.
    + apply NoDup_upd_fresh; auto. intros Hin. rewrite Forall_forall in Hal. specialize (Hal _ Hin).
      unfold allocated in Hal. lia.
    + apply Forall_upd; [eapply Forall_allocated_mono; eauto|]. unfold allocated. lia.
    + intros c' Hc' _. now apply Hf.
    + intros c' Hc'. apply In_upd in Hc' as [->|Hc']; auto. right. unfold allocated. lia.
  - (* OAttrSet *)
    right. cbn [step] in Hs. destruct (get_mesh w m) as [so|] eqn:Em; [|discriminate]. inversion Hs; subst; clear Hs.
    destruct (wf_nth _ _ _ Hwf (get_mesh_nth _ _ _ Em)) as [Hnd Hal].
    exists m, so, (with_attr so (attr_set (oattr so) cont name vals)), (wmem w), (ocells so).
    repeat split; auto using get_mesh_nth; lia.
  - (* OAttrEdit *)
    right. cbn [step] in Hs. destruct (get_mesh w m) as [so|] eqn:Em; [|discriminate]. inversion Hs; subst; clear Hs.
    destruct (wf_nth _ _ _ Hwf (get_mesh_nth _ _ _ Em)) as [Hnd Hal].
    exists m, so, (with_attr so (attr_edit (oattr so) cont name k x)), (wmem w), (ocells so).
    repeat split; auto using get_mesh_nth; lia.
  - (* OElemEdit *)
    right. cbn [step] in Hs. destruct (get_mesh w m) as [so|] eqn:Em; [|discriminate]. inversion Hs; subst; clear Hs.
    destruct (wf_nth _ _ _ Hwf (get_mesh_nth _ _ _ Em)) as [Hnd Hal].
    exists m, so, (with_elem so which k el), (wmem w), (ocells so).
    repeat split; auto using get_mesh_nth; try lia. destruct which as [|[|?]]; reflexivity.
  - (* OGrow *)
    right. cbn [step] in Hs. destruct (get_mesh w m) as [so|] eqn:Em; [|discriminate].
    destruct (alloc1 (wmem w) v) as [m1 c] eqn:E. inversion Hs; subst; clear Hs.
    apply (alloc1_spec O) in E as (Hc & Hn & Hv & Hf). destruct (wf_nth _ _ _ Hwf (get_mesh_nth _ _ _ Em)) as [Hnd Hal].
    exists m, so, (grown so c ne nf ce ca), m1, (ocells so ++ [c]). repeat split; auto using get_mesh_nth.
    + apply Hf.
    + apply NoDup_app_ranges with (k := mnext (wmem w)); auto; repeat constructor; auto; lia.
    + apply Forall_app. split; [eapply Forall_allocated_mono; eauto|]. repeat constructor. unfold allocated. lia.
    + intros c' Hc' _. now apply Hf.
    + intros c' Hc'. apply in_app_or in Hc' as [Hc'|[<-|[]]]; auto. right. unfold allocated. lia.
Qed.

(* ---------------------------------------------------------------- the invariant *)
Lemma step_wf (w w' : world) o : wf w -> op_ok w o -> step O w o = Some w' -> wf w'.
Proof.
  intros Hwf Hok Hs. destruct (step_shape_holds _ _ _ Hwf Hok Hs) as [(_ & m' & no & -> & Hf & Hno)|H].
  - apply wf_push; auto. apply Hf.
  - destruct H as (i & so & so' & m' & cs' & _ & _ & -> & Hc & Hle & Hnd & Hal & _).
    unfold Proofs_World.wf. simpl. apply Forall_upd.
    + eapply Forall_impl; [|exact Hwf]. intros a. now apply wf_obj_mono.
    + split; rewrite Hc; auto.
Qed.

Fixpoint ok_hist (w : world) (l : list op) : Prop :=
  match l with
  | [] => True
  | o :: t => op_ok w o /\ forall w', step O w o = Some w' -> ok_hist w' t
  end.

Theorem invariant_all_histories : forall l (w w' : world), wf w -> ok_hist w l -> run O w l = Some w' -> wf w'.
Proof.
  induction l as [|o t IH]; intros w w' Hwf Hok Hr; simpl in Hr.
  - now inversion Hr; subst.
  - destruct (step O w o) as [w1|] eqn:Es; [|discriminate]. destruct Hok as [Hok Hrest].
    eapply IH; [eapply step_wf; eauto | apply Hrest; auto | exact Hr].
Qed.

Lemma wf_w0 : wf (w0 (T:=T)).
Proof. constructor. Qed.

(* ---------------------------------------------------------------- isolation over histories *)
Definition obj_cells (w : world) (k : nat) : list cell :=
  match nth_error (wobjs w) k with Some o => ocells o | None => [] end.

Lemma nth_error_retarget_other (w : world) i so r j : i <> j -> nth_error (wobjs (retarget w i so r)) j = nth_error (wobjs w) j.
Proof. intros H. unfold retarget. simpl. now apply nth_error_upd_other. Qed.
Lemma obj_cells_upd_other (m : mem) objs i so' j : i <> j -> obj_cells (mkw m (upd objs i so')) j = obj_cells (mkw m objs) j.
Proof. intros H. unfold obj_cells. simpl. now rewrite nth_error_upd_other. Qed.

(* one step: cells outside the target object keep their value; an object's new cells are its old ones or fresh *)
Lemma step_effect (w w' : world) o :
  wf w -> op_ok w o -> step O w o = Some w' ->
  (mnext (wmem w) <= mnext (wmem w'))%positive
  /\ (forall c, allocated (wmem w) c -> (forall i, target o = Some i -> ~ In c (obj_cells w i)) ->
        rd (mheap (wmem w')) c = rd (mheap (wmem w)) c)
  /\ (forall k, (k < length (wobjs w))%nat -> forall c, In c (obj_cells w' k) -> In c (obj_cells w k) \/ ~ allocated (wmem w) c)
  /\ (forall k, target o <> Some k -> (k < length (wobjs w))%nat -> obj_cells w' k = obj_cells w k).
Proof.
  intros Hwf Hok Hs. destruct (step_shape_holds _ _ _ Hwf Hok Hs) as [(Ht & m' & no & -> & Hf & Hno)|H].
  - repeat split.
    + apply Hf.
    + intros c Hc _. now apply Hf.
    + intros k Hk c Hc. left. unfold obj_cells, push in *. simpl in *. now rewrite nth_error_app1 in Hc.
    + intros k _ Hk. unfold obj_cells, push. simpl. now rewrite nth_error_app1.
  - destruct H as (i & so & so' & m' & cs' & Ht & En & -> & Hc & Hle & Hnd & Hal & Hfr & Hsub). repeat split; auto.
    + intros c Hc0 Hn. apply Hfr; auto. specialize (Hn _ Ht). unfold obj_cells in Hn. now rewrite En in Hn.
    + intros k Hk c Hc0. destruct (Nat.eq_dec i k) as [->|Hne].
      * unfold obj_cells in *. rewrite En. simpl in Hc0.
        rewrite nth_error_upd_same in Hc0 by auto. rewrite Hc in Hc0. auto.
      * left. unfold obj_cells in *. simpl in Hc0. now rewrite nth_error_upd_other in Hc0.
    + intros k Hne _. unfold obj_cells. simpl. rewrite nth_error_upd_other; auto. congruence.
Qed.

Definition targets_only (k : nat) (o : op) : Prop := target o = None \/ target o = Some k.

Lemma step_length (w w' : world) o : wf w -> op_ok w o -> step O w o = Some w' -> (length (wobjs w) <= length (wobjs w'))%nat.
Proof.
  intros Hwf Hok Hs. destruct (step_shape_holds _ _ _ Hwf Hok Hs) as [(_ & m' & no & -> & _)|H].
  - unfold push. simpl. rewrite app_length. lia.
  - destruct H as (i & so & so' & m' & cs' & _ & _ & -> & _). simpl. rewrite upd_length. lia.
Qed.

(* If the cells S are disjoint from object k's, no history that writes only through object k (and creates whatever
   it likes) changes what S holds - and object k never comes to hold a cell of S. *)
Theorem isolation : forall l (w w' : world) (S : cell -> Prop) k,
  wf w -> ok_hist w l -> (k < length (wobjs w))%nat ->
  (forall c, S c -> allocated (wmem w) c) ->
  (forall c, In c (obj_cells w k) -> ~ S c) ->
  Forall (targets_only k) l ->
  run O w l = Some w' ->
  (forall c, S c -> rd (mheap (wmem w')) c = rd (mheap (wmem w)) c)
  /\ (forall c, In c (obj_cells w' k) -> ~ S c).
Proof.
  induction l as [|o t IH]; intros w w' S k Hwf Hok Hk HS Hdis Ht Hr; simpl in Hr.
  - inversion Hr; subst. auto.
  - destruct (step O w o) as [w1|] eqn:Es; [|discriminate]. destruct Hok as [Hok Hrest].
    inversion Ht as [|? ? Ho Ht']; subst.
    destruct (step_effect _ _ _ Hwf Hok Es) as (Hle & Hfr & Hsub & _).
    assert (Hdis1 : forall c, In c (obj_cells w1 k) -> ~ S c).
    { intros c Hc Hs. destruct (Hsub k Hk c Hc) as [Hin|Hna]; [exact (Hdis _ Hin Hs) | exact (Hna (HS _ Hs))]. }
    destruct (IH w1 w' S k) as [A B]; auto.
    + eapply step_wf; eauto.
    + pose proof (step_length _ _ _ Hwf Hok Es). lia.
    + intros c Hc. specialize (HS _ Hc). unfold allocated in *. lia.
    + split; auto. intros c Hc. rewrite A by auto. apply Hfr; auto.
      intros i Hi Hin. destruct Ho as [Ho|Ho]; rewrite Ho in Hi; [discriminate|]. inversion Hi; subst.
      exact (Hdis _ Hin Hc).
Qed.
End Step.
