From Coq Require Import ZArith List Bool Lia.
Import ListNotations.
Require Import MV.Lib.Base MV.C06.Base MV.C06.Gen MV.C06.Model.

Lemma ring_all_fresh N nc open : Forall (fun s => s = SFresh) (ring_pattern N nc open).
Proof.
  unfold ring_pattern. repeat (apply Forall_app; split); try (constructor; [reflexivity|constructor]).
  - apply Forall_forall. intros x Hx. apply in_flat_map in Hx as [i [_ Hi]]. simpl in Hi. intuition.
  - destruct open; repeat constructor.
Qed.
