(* C06 - final forms of the property theorems (law bundles made explicit), re-exported one per obligation by Props.v *)
From Coq Require Import ZArith List Bool PArith FMapPositive QArith Qcanon Field.
Import ListNotations.
Require Import MV.Lib.Base MV.C06.Base MV.C06.Gen MV.C06.Model MV.C06.Run.
Require Export MV.C06.Proofs_Heap MV.C06.Proofs_World MV.C06.Proofs_Step MV.C06.Proofs_Merge MV.C06.Proofs_Alg
               MV.C06.Proofs_Norm MV.C06.Proofs_Req MV.C06.Proofs_Sep MV.C06.Proofs_More MV.C06.Proofs_Qc.

(* the coordinates form a field (Leibniz equality) *)
Definition field_laws {T} (O : ops T) : Prop :=
  field_theory (z0 O) (o1 O) (add O) (mul O) (sub O) (opp O) (div O) (fun x => div O (o1 O) x) (@eq T).
(* ... an ordered one *)
Definition order_laws {T} (O : ops T) : Prop :=
  (forall a b, leb O a b = true \/ leb O b a = true)
  /\ (forall a b c, leb O a b = true -> leb O b c = true -> leb O a c = true)
  /\ (forall a b, leb O a b = true -> leb O b a = true -> a = b)
  /\ (forall a b c, leb O a b = true -> leb O (add O a c) (add O b c) = true)
  /\ (forall a b c, leb O (z0 O) c = true -> leb O a b = true -> leb O (mul O c a) (mul O c b) = true).

Lemma ring_structure N nc open :
  Forall (fun s => s = SFresh) (ring_pattern N nc open)
  /\ ((1 <= N * nc)%Z -> Z.of_nat (length (ring_pattern N nc open)) = (N * nc + 1 + (if open then 1 else 0))%Z).
Proof. split; [apply ring_all_fresh | apply ring_count]. Qed.

Lemma inverses_restore {T} (O : ops T) : field_laws O ->
  forall (w w1 w2 : world (T:=T)) i, wf w ->
  (forall t, step O w (OTranslate i (PVal t)) = Some w1 -> step O w1 (OTranslate i (PVal (vopp O t))) = Some w2 ->
             obj_coords O w2 i = obj_coords O w i)
  /\ (forall s orig, s <> z0 O -> step O w (OScale i s orig) = Some w1 ->
             step O w1 (OScale i (div O (o1 O) s) orig) = Some w2 -> obj_coords O w2 i = obj_coords O w i)
  /\ (forall R orig, mmul O (mtrans R) R = mid O -> step O w (ORotate i R orig) = Some w1 ->
             step O w1 (ORotate i (mtrans R) orig) = Some w2 -> obj_coords O w2 i = obj_coords O w i).
Proof.
  intros F w w1 w2 i Hwf. split; [|split].
  - intros t. now apply translate_then_back.
  - intros s [og|] Hs; [now apply scale_then_back | now apply scale_then_back_default_origin].
  - intros R orig HR. apply rotate_then_back; auto.
Qed.

Lemma normalize_box {T} (O : ops T) : field_laws O -> order_laws O ->
  forall (w w' : world (T:=T)) i, wf w ->
  (step O w (ONormalize i true) = Some w' ->
     exists lo hi, bbox O (obj_coords O w' i) = Some (lo, hi)
       /\ aabb_center O lo hi = vzero O /\ vmax3 O (aabb_span O lo hi) = add O (o1 O) (o1 O))
  /\ (step O w (ONormalize i false) = Some w' \/ step O w (OFit i) = Some w' ->
     exists lo hi, bbox O (obj_coords O w' i) = Some (lo, hi)
       /\ lo = vzero O /\ vmax3 O (aabb_span O lo hi) = o1 O)
  /\ (forall so lo hi c, get_mesh w i = Some so -> bbox O (coords O (mheap (wmem w)) so) = Some (lo, hi) ->
        leb O (vmax3 O (aabb_span O lo hi)) (z0 O) = false -> exists w'', step O w (ONormalize i c) = Some w'').
Proof.
  intros F (L1 & L2 & L3 & L4 & L5) w w' i Hwf. split; [|split].
  - now apply normalize_centres_the_box.
  - intros [H|H]; [eapply normalize_anchors_the_box; eauto | eapply fit_anchors_the_box; eauto].
  - intros so lo hi c. now apply normalize_defined.
Qed.

Lemma rationals_satisfy_the_laws : field_laws QcO /\ order_laws QcO.
Proof.
  split; [exact Qc_field|]. repeat split.
  - exact Qc_total.
  - exact Qc_trans.
  - exact Qc_anti.
  - exact Qc_add.
  - exact Qc_mul.
Qed.
