(* C06 - distinct objects never share a buffer: invariant of all histories in which the few producers that bypass
   prepare() (caller arrays, PointCloud.append, extract_boundary_of_surface) store new vectors; hence a transform or an
   edit through one object never changes another one. *)
From Coq Require Import ZArith List Bool PArith FMapPositive Lia.
Import ListNotations.
Require Import MV.Lib.Base MV.C06.Base MV.C06.Gen MV.C06.Model MV.C06.Proofs_Heap MV.C06.Proofs_World MV.C06.Proofs_Step
               MV.C06.Proofs_Merge.

Local Arguments alloc1 : simpl never.
Local Arguments take : simpl never.

Section Sep.
Context {T : Type} (O : ops T).
Notation vec := (vec T).
Notation world := (world (T:=T)).
Notation op := (op (T:=T)).
Notation wf := (wf (T:=T)).

Definition sep (w : world) : Prop :=
  forall i j, i <> j -> forall c, In c (obj_cells w i) -> ~ In c (obj_cells w j).

Definition is_fresh (s : sinit (T:=T)) : Prop := match s with IFresh _ => True | IShare _ _ => False end.
(* hypothesis on the producers that do not go through prepare(): they store new vectors only *)
Definition op_fresh (w : world) (o : op) : Prop :=
  match o with
  | ONew how pat _ _ _ _ _ _ => match build_mode how with Alias => Forall is_fresh pat | Copy => True end
  | _ => True
  end.

Lemma build_ext_fresh objs pat : forall (m m' : mem (T:=T)) cs,
  Forall is_fresh pat -> build_ext objs m pat = Some (m', cs) -> fresh_block m m' cs /\ frame O m m'.
Proof.
  induction pat as [|[v|o s] t IH]; intros m m' cs Hp E; cbn [build_ext] in E.
  - inversion E; subst. split; [split; [constructor|constructor] | apply frame_refl].
  - inversion Hp; subst. destruct (alloc1 m v) as [m1 c] eqn:E1.
    destruct (build_ext objs m1 t) as [[m2 r]|] eqn:E2; [|discriminate]. inversion E; subst; clear E.
    apply (alloc1_spec O) in E1 as (Hc & Hn & _ & Hf1). apply IH in E2 as [Hfb Hf2]; auto.
    assert (Hle : (mnext m1 <= mnext m')%positive) by apply Hf2.
    split; [|eapply frame_trans; eauto].
    change (c :: r) with ([c] ++ r). apply fresh_block_app with (m1 := m1); auto; try lia.
    split; [repeat constructor; auto | repeat constructor; lia].
  - inversion Hp as [|? ? Hs _]; subst. destruct Hs.
Qed.

Lemma op_fresh_ok (w : world) o : op_fresh w o -> op_ok w o.
Proof.
  destruct o; simpl; auto. destruct (build_mode how); auto. intros Hp m' cs E.
  apply build_ext_fresh in E as [[Hnd _] _]; auto.
Qed.

(* every producer step appends one object whose buffers did not exist before *)
Lemma step_new_fresh (w w' : world) o :
  wf w -> op_fresh w o -> step O w o = Some w' -> target o = None ->
  exists no, wobjs w' = wobjs w ++ [no] /\ forall c, In c (ocells no) -> ~ allocated (wmem w) c.
Proof.
  intros Hwf Hfr Hs Ht. destruct o; cbn [target] in Ht; try discriminate.
  - (* ONew *)
    cbn [step] in Hs. destruct (build_ext (wobjs w) (wmem w) pat) as [[m1 cs]|] eqn:E; [|discriminate].
    destruct (take O (build_mode how) m1 cs) as [m2 cs2] eqn:Et. inversion Hs; subst. cbn [op_fresh] in Hfr.
    destruct (build_mode how).
    + cbn [take] in Et. inversion Et; subst. apply build_ext_fresh in E as [Hfb _]; auto.
      eexists; split; [reflexivity|]. simpl. intros x Hx. eapply fresh_block_not_allocated; eauto.
    + apply build_ext_spec with (O := O) in E as [Hf _]; [|apply wf_objs_allocated; auto].
      apply take_copy_fresh in Et as (Hfb & _ & _). eexists; split; [reflexivity|]. simpl.
      intros x Hx Hal. apply (fresh_block_not_allocated _ _ _ _ Hfb Hx). eapply allocated_mono; eauto.
  - destruct (from_arrays_spec O _ _ _ _ _ _ _ _ Hwf Hs) as (ao & mo & _ & E & _ & _ & Hf & _). eauto.
  - destruct (ring_spec O _ _ _ _ _ _ _ _ _ Hs) as (ro & E & _ & _ & Hf & _). eauto.
  - destruct (copy_spec O _ _ _ _ Hwf Hs) as (so & co & _ & E & _ & _ & _ & _ & _ & _ & _ & _ & Hf & _). eauto.
  - destruct (merge_spec O _ _ _ Hwf Hs) as (ins & mo & _ & E & _ & _ & _ & _ & _ & _ & _ & _ & Hf & _). eauto.
Qed.

Lemma obj_cells_allocated (w : world) k c : wf w -> In c (obj_cells w k) -> allocated (wmem w) c.
Proof.
  intros Hwf Hc. unfold obj_cells in Hc. destruct (nth_error (wobjs w) k) as [o|] eqn:E; [|destruct Hc].
  destruct (wf_nth _ _ _ Hwf E) as [_ H]. rewrite Forall_forall in H. auto.
Qed.

Lemma obj_cells_beyond (w : world) k : (length (wobjs w) <= k)%nat -> obj_cells w k = [].
Proof. intros H. unfold obj_cells. apply nth_error_None in H. now rewrite H. Qed.

Lemma sep_step (w w' : world) o : wf w -> sep w -> op_fresh w o -> step O w o = Some w' -> sep w'.
Proof.
  intros Hwf Hsep Hfr Hs. pose proof (op_fresh_ok _ _ Hfr) as Hok.
  destruct (step_effect O _ _ _ Hwf Hok Hs) as (_ & _ & Hsub & Hsame).
  remember (length (wobjs w)) as n eqn:Hn.
  destruct (target o) as [t|] eqn:Ht.
  - (* one object's cells rewritten; same number of objects *)
    assert (Hlen : length (wobjs w') = n).
    { destruct (step_shape_holds O _ _ _ Hwf Hok Hs) as [(Ht' & _)|(i & so & so' & m' & cs' & _ & _ & -> & _)]; [congruence|].
      simpl. rewrite Hn. apply upd_length. }
    assert (Hold : forall k c, In c (obj_cells w' k) -> (k < n)%nat /\ (In c (obj_cells w k) \/ ~ allocated (wmem w) c)).
    { intros k c Hc. destruct (Nat.lt_ge_cases k n) as [Hk|Hk]; [split; [exact Hk | exact (Hsub k Hk c Hc)]|].
      rewrite obj_cells_beyond in Hc by lia. destruct Hc. }
    assert (Hkeep : forall k, k <> t -> (k < n)%nat -> obj_cells w' k = obj_cells w k).
    { intros k Hk Hl. apply Hsame; auto. congruence. }
    intros i j Hij c Hci Hcj.
    destruct (Hold _ _ Hci) as [Hi Hi'], (Hold _ _ Hcj) as [Hj Hj'].
    destruct (Nat.eq_dec i t) as [->|Hit].
    + rewrite Hkeep in Hcj by auto. destruct Hi' as [Hi'|Hi'].
      * exact (Hsep _ _ Hij _ Hi' Hcj).
      * apply Hi'. eapply obj_cells_allocated; eauto.
    + rewrite Hkeep in Hci by auto. destruct (Nat.eq_dec j t) as [->|Hjt].
      * destruct Hj' as [Hj'|Hj']; [exact (Hsep _ _ Hij _ Hci Hj') | apply Hj'; eapply obj_cells_allocated; eauto].
      * rewrite Hkeep in Hcj by auto. exact (Hsep _ _ Hij _ Hci Hcj).
  - (* a new object on buffers that did not exist *)
    destruct (step_new_fresh _ _ _ Hwf Hfr Hs Ht) as (no & E & Hnew).
    assert (Hcells : forall k, obj_cells w' k = if (k <? n)%nat then obj_cells w k else if (k =? n)%nat then ocells no else []).
    { intros k. unfold obj_cells. rewrite E. subst n. destruct (k <? length (wobjs w))%nat eqn:E1.
      - apply Nat.ltb_lt in E1. now rewrite nth_error_app1.
      - apply Nat.ltb_ge in E1. rewrite nth_error_app2 by exact E1. destruct (k =? length (wobjs w))%nat eqn:E2.
        + apply Nat.eqb_eq in E2. subst k. now rewrite Nat.sub_diag.
        + apply Nat.eqb_neq in E2. destruct (k - length (wobjs w))%nat as [|d] eqn:E3; [lia|]. simpl. destruct d; reflexivity. }
    intros i j Hij c Hci Hcj. rewrite Hcells in Hci, Hcj.
    destruct (i <? n)%nat eqn:Ei, (j <? n)%nat eqn:Ej.
    + exact (Hsep _ _ Hij _ Hci Hcj).
    + destruct (j =? n)%nat; [|destruct Hcj]. apply (Hnew _ Hcj). eapply obj_cells_allocated; eauto.
    + destruct (i =? n)%nat; [|destruct Hci]. apply (Hnew _ Hci). eapply obj_cells_allocated; eauto.
    + destruct (i =? n)%nat eqn:Ei2, (j =? n)%nat eqn:Ej2; try destruct Hci; try destruct Hcj.
      apply Nat.eqb_eq in Ei2, Ej2. congruence.
Qed.

Fixpoint fresh_hist (w : world) (l : list op) : Prop :=
  match l with
  | [] => True
  | o :: t => op_fresh w o /\ forall w', step O w o = Some w' -> fresh_hist w' t
  end.

Lemma sep_w0 : sep (w0 (T:=T)).
Proof. intros i j _ c Hc. unfold obj_cells in Hc. simpl in Hc. destruct i; destruct Hc. Qed.

Theorem objects_stay_disjoint : forall l (w w' : world),
  wf w -> sep w -> fresh_hist w l -> run O w l = Some w' -> wf w' /\ sep w'.
Proof.
  induction l as [|o t IH]; intros w w' Hwf Hsep Hh Hr; simpl in Hr.
  - inversion Hr; subst. auto.
  - destruct (step O w o) as [w1|] eqn:Es; [|discriminate]. destruct Hh as [Hfr Hrest].
    apply (IH w1 w'); auto.
    + eapply step_wf; eauto using op_fresh_ok.
    + eapply sep_step; eauto.
Qed.

(* the full statement: after ANY such history, a transform or an edit through object i changes no other object *)
Theorem transform_leaves_other_objects_alone : forall l (w1 w2 : world) o i j,
  fresh_hist (w0 (T:=T)) l -> run O (w0 (T:=T)) l = Some w1 ->
  op_fresh w1 o -> step O w1 o = Some w2 -> target o = Some i -> j <> i -> (j < length (wobjs w1))%nat ->
  obj_coords O w2 j = obj_coords O w1 j.
Proof.
  intros l w1 w2 o i j Hh Hr Hfr Hs Ht Hj Hlen.
  destruct (objects_stay_disjoint l _ _ (wf_w0 (T:=T)) sep_w0 Hh Hr) as [Hwf Hsep].
  eapply disjoint_objects_do_not_interfere; eauto using op_fresh_ok.
Qed.
End Sep.
