(* C06 - shared vocabulary of the generated part (Gen.v) and of the hand-written heap model (Model.v). No proofs. *)
From Coq Require Import ZArith List Bool.
Import ListNotations.

(* a bare record of operations; laws are hypotheses of the theorems, never of the model *)
Record ops (T : Type) := mkops {
  z0 : T; o1 : T;
  add : T -> T -> T; sub : T -> T -> T; mul : T -> T -> T; div : T -> T -> T; opp : T -> T;
  leb : T -> T -> bool }.
Arguments z0 {T}. Arguments o1 {T}. Arguments add {T}. Arguments sub {T}. Arguments mul {T}.
Arguments div {T}. Arguments opp {T}. Arguments leb {T}.

Inductive cmode := Alias | Copy.            (* the same buffer / a new one *)
Inductive tkind := InPlace | Rebind.        (* `mesh.vertices[i] += e`  /  `mesh.vertices[i] = e` *)
Inductive dorig := DZero | DVertex0.        (* default origin of a transform *)
(* which mesh the connectivity object handed to a copy answers from: the copy itself, the source, or a hidden clone *)
Inductive backref := BackToCopy | BackToSource | BackToClone.
(* convention of the three Euler angles rotate accepts as a list / tuple: rotations about the fixed axes x, y, z in that
   order (scipy "xyz": R = Rz Ry Rx) or about the moving axes (scipy "XYZ": R = Rx Ry Rz) *)
Inductive eulerseq := Fixed_xyz | Moving_xyz.
Inductive slotsrc := SFresh | SSame (k : nat).  (* a producer appends a new vector / the vector already stored in slot k *)

Definition vec (T : Type) : Type := (T * T * T)%type.
Definition vx {T} (v : vec T) : T := fst (fst v).
Definition vy {T} (v : vec T) : T := snd (fst v).
Definition vz {T} (v : vec T) : T := snd v.
Definition mkv {T} (a b c : T) : vec T := (a, b, c).

Section V.
Context {T : Type} (O : ops T).
Definition vzero : vec T := (z0 O, z0 O, z0 O).
Definition vadd (a b : vec T) : vec T := (add O (vx a) (vx b), add O (vy a) (vy b), add O (vz a) (vz b)).
Definition vsub (a b : vec T) : vec T := (sub O (vx a) (vx b), sub O (vy a) (vy b), sub O (vz a) (vz b)).
Definition vopp (a : vec T) : vec T := (opp O (vx a), opp O (vy a), opp O (vz a)).
Definition smul (s : T) (a : vec T) : vec T := (mul O s (vx a), mul O s (vy a), mul O s (vz a)).
Definition vdivs (a : vec T) (s : T) : vec T := (div O (vx a) s, div O (vy a) s, div O (vz a) s).
Definition tmax (a b : T) : T := if leb O a b then b else a.
Definition tmin (a b : T) : T := if leb O a b then a else b.
Definition vmax3 (v : vec T) : T := tmax (tmax (vx v) (vy v)) (vz v).       (* np.max of a 3-vector *)
Definition vmaxc (a b : vec T) : vec T := (tmax (vx a) (vx b), tmax (vy a) (vy b), tmax (vz a) (vz b)).
Definition vminc (a b : vec T) : vec T := (tmin (vx a) (vx b), tmin (vy a) (vy b), tmin (vz a) (vz b)).
(* integer literals of the source *)
Definition cst (z : Z) : T :=
  match z with
  | Z0 => z0 O
  | Zpos p => Pos.iter (add O (o1 O)) (z0 O) p
  | Zneg p => opp O (Pos.iter (add O (o1 O)) (z0 O) p)
  end.
(* 3x3 matrices as three rows *)
Definition mat : Type := (vec T * vec T * vec T)%type.
Definition dot (a b : vec T) : T := add O (add O (mul O (vx a) (vx b)) (mul O (vy a) (vy b))) (mul O (vz a) (vz b)).
Definition mapply (R : mat) (v : vec T) : vec T := (dot (fst (fst R)) v, dot (snd (fst R)) v, dot (snd R) v).
Definition mtrans (R : mat) : mat :=
  let '(a, b, c) := R in
  ((vx a, vx b, vx c), (vy a, vy b, vy c), (vz a, vz b, vz c)).
Definition getc (v : vec T) (k : nat) : T := match k with 0%nat => vx v | 1%nat => vy v | _ => vz v end.
Definition setc (v : vec T) (k : nat) (x : T) : vec T :=
  match k with 0%nat => (x, vy v, vz v) | 1%nat => (vx v, x, vz v) | _ => (vx v, vy v, x) end.
End V.
