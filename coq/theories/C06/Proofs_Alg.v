(* C06 - the algebra: each generated per-vertex expression IS the requested map; inverses; normalisation.
   Everything holds over any field with Leibniz equality (order laws only where normalisation needs them). *)
From Coq Require Import ZArith List Bool PArith FMapPositive Lia Ring Field.
Import ListNotations.
Require Import MV.Lib.Base MV.C06.Base MV.C06.Gen MV.C06.Model MV.C06.Proofs_Heap MV.C06.Proofs_World
               MV.C06.Proofs_Step MV.C06.Proofs_Merge.

Section Alg.
Context {T : Type} (O : ops T).
Notation vec := (vec T).
Notation world := (world (T:=T)).
Notation op := (op (T:=T)).
Notation wf := (wf (T:=T)).
Notation "0" := (z0 O).
Notation "1" := (o1 O).
Infix "+" := (add O).
Infix "-" := (sub O).
Infix "*" := (mul O).
Infix "/" := (div O).
Notation "- x" := (opp O x) (at level 35, right associativity).
Notation "a <=? b" := (leb O a b).

Hypothesis Fth : field_theory 0 1 (add O) (mul O) (sub O) (opp O) (div O) (fun x => 1 / x) (@eq T).
Add Field Ff : Fth.

Ltac vdestruct :=
  repeat match goal with v : Base.vec T |- _ => destruct v as [[? ?] ?] end.
Ltac vunf := unfold translate_pt, scale_pt, rotate_pt, scale_xyz_pt, to_origin_tr, vadd, vsub, vopp, smul, vdivs, vzero, mkv,
                    mapply, dot, vx, vy, vz, mtrans in *; cbn [fst snd] in *.
Lemma triple_eq (a b c a' b' c' : T) : a = a' -> b = b' -> c = c' -> (a, b, c) = (a', b', c').
Proof. congruence. Qed.
Ltac veq := apply triple_eq.
Ltac vring := vdestruct; vunf; veq; ring.

(* ---------------------------------------------------------------- the requested maps *)
Lemma translate_is_add t p : translate_pt O t p = vadd O p t.
Proof. vring. Qed.
Lemma scale_is_homothety s og p : scale_pt O s og p = vadd O og (smul O s (vsub O p og)).
Proof. vring. Qed.
Lemma rotate_is_rotation R og p : rotate_pt O (mapply O R) og p = vadd O og (mapply O R (vsub O p og)).
Proof. destruct R as [[? ?] ?]. vring. Qed.
Lemma scale_xyz_is_axis_scaling fx fy fz og p :
  scale_xyz_pt O fx fy fz og p
  = (vx og + fx * (vx p - vx og), vy og + fy * (vy p - vy og), vz og + fz * (vz p - vz og)).
Proof. vring. Qed.

(* ---------------------------------------------------------------- inverses *)
Lemma translate_inverse t p : translate_pt O (vopp O t) (translate_pt O t p) = p.
Proof. vring. Qed.

Lemma scale_inverse s og p : s <> 0 -> scale_pt O (1 / s) og (scale_pt O s og p) = p.
Proof. intros Hs. vdestruct; vunf; veq; field; auto. Qed.

Notation mmul := (mmul O).
Notation mid := (mid O).

Lemma mapply_mmul A B v : mapply O A (mapply O B v) = mapply O (mmul A B) v.
Proof.
  destruct A as [[[[? ?] ?] [[? ?] ?]] [[? ?] ?]], B as [[[[? ?] ?] [[? ?] ?]] [[? ?] ?]], v as [[? ?] ?].
  unfold mmul, mtrans, mapply, dot, vx, vy, vz; cbn [fst snd]. veq; ring.
Qed.
Lemma mapply_mid v : mapply O mid v = v.
Proof. destruct v as [[? ?] ?]. unfold mid, mapply, dot, vx, vy, vz; cbn [fst snd]. veq; ring. Qed.

Lemma rotate_inverse R og p :
  mmul (mtrans R) R = mid ->
  rotate_pt O (mapply O (mtrans R)) og (rotate_pt O (mapply O R) og p) = p.
Proof.
  intros H. rewrite !rotate_is_rotation.
  replace (vsub O (vadd O og (mapply O R (vsub O p og))) og) with (mapply O R (vsub O p og)).
  - rewrite mapply_mmul, H, mapply_mid. vring.
  - generalize (mapply O R (vsub O p og)). intros q. vring.
Qed.

(* the list / tuple form of rotate: R = Rz Ry Rx, i.e. every vertex is turned about x, then about y, then about z *)
Lemma euler_form_is_x_then_y_then_z Rx Ry Rz v :
  mapply O (euler_compose O Rx Ry Rz) v = mapply O Rz (mapply O Ry (mapply O Rx v)).
Proof.
  unfold euler_compose. rewrite euler_angles_about_fixed_axes.
  rewrite (mapply_mmul Ry Rx v), (mapply_mmul Rz (mmul Ry Rx) v). reflexivity.
Qed.

(* ---------------------------------------------------------------- every vertex exactly once (world level) *)
Lemma obj_cells_retarget (w : world) i so m' cs' :
  nth_error (wobjs w) i = Some so -> obj_cells (retarget w i so (m', cs')) i = cs'.
Proof.
  intros E. unfold obj_cells, retarget. simpl. rewrite nth_error_upd_same; [reflexivity|].
  apply nth_error_Some. congruence.
Qed.

Theorem transform_once (w w' : world) o i f :
  wf w -> tmap O w o = Some (i, f) -> step O w o = Some w' ->
  obj_coords O w' i = map f (obj_coords O w i)
  /\ (forall c, allocated (wmem w) c -> ~ In c (obj_cells w i) -> rd O (mheap (wmem w')) c = rd O (mheap (wmem w)) c)
  /\ (forall j, j <> i -> obj_cells w' j = obj_cells w j)
  /\ length (wobjs w') = length (wobjs w).
Proof.
  intros Hwf Ht Hs. destruct (step_tmap O _ _ _ _ _ Hwf Ht Hs) as (so & m' & cs' & Em & -> & (S1 & S2 & _)).
  apply get_mesh_nth in Em. unfold obj_coords. rewrite (obj_cells_retarget _ _ _ _ _ Em).
  assert (Ec : obj_cells w i = ocells so) by (unfold obj_cells; now rewrite Em). rewrite Ec.
  repeat split; auto.
  - intros j Hj. unfold obj_cells. rewrite nth_error_retarget_other; auto.
  - unfold retarget. simpl. apply upd_length.
Qed.

Lemma transform_ok (w : world) o i f : tmap O w o = Some (i, f) -> op_ok w o.
Proof. destruct o; simpl; auto; discriminate. Qed.

Lemma map_id_ext {A} (g : A -> A) l : (forall x, g x = x) -> map g l = l.
Proof. intros H. induction l; simpl; congruence. Qed.

(* two transforms in a row whose maps compose to the identity restore the coordinates *)
Lemma two_steps_restore (w w1 w2 : world) o1 o2 i f g :
  wf w -> tmap O w o1 = Some (i, f) -> step O w o1 = Some w1 ->
  tmap O w1 o2 = Some (i, g) -> step O w1 o2 = Some w2 ->
  (forall p, g (f p) = p) -> obj_coords O w2 i = obj_coords O w i.
Proof.
  intros Hwf T1 S1 T2 S2 Hid.
  destruct (transform_once _ _ _ _ _ Hwf T1 S1) as (A & _).
  assert (Hwf1 : wf w1) by (eapply step_wf; eauto using transform_ok).
  destruct (transform_once _ _ _ _ _ Hwf1 T2 S2) as (B & _).
  rewrite B, A, map_map. now apply map_id_ext.
Qed.

Theorem translate_then_back (w w1 w2 : world) i t :
  wf w -> step O w (OTranslate i (PVal t)) = Some w1 -> step O w1 (OTranslate i (PVal (vopp O t))) = Some w2 ->
  obj_coords O w2 i = obj_coords O w i.
Proof.
  intros Hwf S1 S2. eapply two_steps_restore; eauto; try reflexivity. apply translate_inverse.
Qed.

Theorem scale_then_back (w w1 w2 : world) i s og :
  wf w -> s <> 0 -> step O w (OScale i s (Some og)) = Some w1 -> step O w1 (OScale i (1 / s) (Some og)) = Some w2 ->
  obj_coords O w2 i = obj_coords O w i.
Proof.
  intros Hwf Hs S1 S2.
  assert (G1 : exists so, get_mesh w i = Some so) by (cbn [step] in S1; destruct (get_mesh w i); [eauto|discriminate]).
  assert (G2 : exists so, get_mesh w1 i = Some so) by (cbn [step] in S2; destruct (get_mesh w1 i); [eauto|discriminate]).
  destruct G1 as [so1 G1], G2 as [so2 G2].
  eapply two_steps_restore with (f := scale_pt O s og) (g := scale_pt O (1 / s) og); eauto.
  - cbn [tmap]. rewrite G1. reflexivity.
  - cbn [tmap]. rewrite G2. reflexivity.
  - intros p. now apply scale_inverse.
Qed.

Theorem scale_then_back_default_origin (w w1 w2 : world) i s :
  wf w -> s <> 0 -> step O w (OScale i s None) = Some w1 -> step O w1 (OScale i (1 / s) None) = Some w2 ->
  obj_coords O w2 i = obj_coords O w i.
Proof.
  intros Hwf Hs S1 S2.
  assert (G1 : exists so, get_mesh w i = Some so) by (cbn [step] in S1; destruct (get_mesh w i); [eauto|discriminate]).
  assert (G2 : exists so, get_mesh w1 i = Some so) by (cbn [step] in S2; destruct (get_mesh w1 i); [eauto|discriminate]).
  destruct G1 as [so1 G1], G2 as [so2 G2].
  eapply two_steps_restore with (f := scale_pt O s (vzero O)) (g := scale_pt O (1 / s) (vzero O)); eauto.
  - cbn [tmap]. rewrite G1. reflexivity.
  - cbn [tmap]. rewrite G2. reflexivity.
  - intros p. now apply scale_inverse.
Qed.

Theorem rotate_then_back (w w1 w2 : world) i R orig :
  wf w -> mmul (mtrans R) R = mid ->
  orig <> None \/ rotate_default = DZero ->
  step O w (ORotate i R orig) = Some w1 -> step O w1 (ORotate i (mtrans R) orig) = Some w2 ->
  obj_coords O w2 i = obj_coords O w i.
Proof.
  intros Hwf HR _ S1 S2.
  assert (G1 : exists so, get_mesh w i = Some so)
    by (cbn [step] in S1; destruct (is_rotation O R); [|discriminate]; destruct (get_mesh w i); [eauto|discriminate]).
  assert (G2 : exists so, get_mesh w1 i = Some so)
    by (cbn [step] in S2; destruct (is_rotation O (mtrans R)); [|discriminate]; destruct (get_mesh w1 i); [eauto|discriminate]).
  destruct G1 as [so1 G1], G2 as [so2 G2].
  set (og := match orig with Some v => v | None => vzero O end).
  eapply two_steps_restore with (f := rotate_pt O (mapply O R) og) (g := rotate_pt O (mapply O (mtrans R)) og); eauto.
  - cbn [tmap]. rewrite G1. destruct orig; reflexivity.
  - cbn [tmap]. rewrite G2. destruct orig; reflexivity.
  - intros p. now apply rotate_inverse.
Qed.
End Alg.
