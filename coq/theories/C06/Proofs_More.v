(* C06 - what must NOT change, and the closed form of "indices shifted by the running vertex count". *)
From Coq Require Import ZArith List Bool PArith FMapPositive Lia.
Import ListNotations.
Require Import MV.Lib.Base MV.C06.Base MV.C06.Gen MV.C06.Model MV.C06.Proofs_Heap MV.C06.Proofs_World MV.C06.Proofs_Step
               MV.C06.Proofs_Merge.

Local Arguments alloc1 : simpl never.
Local Arguments take : simpl never.

(* ---------------------------------------------------------------- merge: closed form *)
(* number of vertices of the inputs before input k: the running vertex count when input k is reached *)
Fixpoint count_before (ins : list obj) (k : nat) : nat :=
  match k, ins with
  | S k', o :: t => (length (ocells o) + count_before t k')%nat
  | _, _ => 0%nat
  end.

Lemma shifted_In sel ins : forall off el,
  In el (shifted sel off ins) <->
  exists k o e0, nth_error ins k = Some o /\ In e0 (sel o) /\ el = map (Z.add (off + Z.of_nat (count_before ins k))) e0.
Proof.
  induction ins as [|o t IH]; intros off el; cbn [shifted].
  - split; [intros [] | intros (k & o & e0 & E & _); destruct k; discriminate].
  - rewrite in_app_iff, in_map_iff, IH. split.
    + intros [(e0 & <- & He0) | (k & o' & e0 & E & He0 & ->)].
      * exists 0%nat, o, e0. cbn [nth_error count_before]. repeat split; auto. now rewrite Z.add_0_r.
      * exists (S k), o', e0. cbn [nth_error count_before]. repeat split; auto.
        f_equal. f_equal. unfold nverts. lia.
    + intros (k & o' & e0 & E & He0 & ->). destruct k as [|k].
      * cbn [nth_error] in E. inversion E; subst o'. left. exists e0. cbn [count_before]. now rewrite Z.add_0_r.
      * right. exists k, o', e0. cbn [nth_error count_before] in *. repeat split; auto.
        f_equal. f_equal. unfold nverts. lia.
Qed.

Lemma nth_error_flat_map_block {A} (g : obj -> list A) ins : forall k o v,
  nth_error ins k = Some o -> (v < length (g o))%nat ->
  (forall o', length (g o') = length (ocells o')) ->
  nth_error (flat_map g ins) (count_before ins k + v) = nth_error (g o) v.
Proof.
  induction ins as [|a t IH]; intros k o v E Hv Hlen; [destruct k; discriminate|].
  destruct k as [|k]; cbn [nth_error count_before flat_map] in *.
  - inversion E; subst a. simpl. now rewrite nth_error_app1.
  - rewrite nth_error_app2 by (rewrite Hlen; lia).
    replace (length (ocells a) + count_before t k + v - length (g a))%nat with (count_before t k + v)%nat
      by (rewrite Hlen; lia).
    now apply IH.
Qed.

Section More.
Context {T : Type} (O : ops T).
Notation vec := (vec T).
Notation world := (world (T:=T)).
Notation op := (op (T:=T)).
Notation wf := (wf (T:=T)).

(* "a merge is the disjoint union of its inputs with indices shifted by the running vertex count", element by element
   and vertex by vertex: an element of the result is an element of some input k with every index moved by the number of
   vertices of the inputs before k, and conversely; vertex v of input k is vertex (count before k) + v of the result *)
Theorem merge_is_the_shifted_disjoint_union (w w' : world) ms :
  wf w -> step O w (OMerge ms) = Some w' ->
  exists ins mo, get_meshes w ms = Some ins /\ wobjs w' = wobjs w ++ [mo]
    /\ (forall el, In el (oedges mo) <-> exists k o e0, nth_error ins k = Some o /\ In e0 (sel_edges o)
                                           /\ el = map (Z.add (Z.of_nat (count_before ins k))) e0)
    /\ (forall el, In el (ofaces mo) <-> exists k o e0, nth_error ins k = Some o /\ In e0 (sel_faces o)
                                           /\ el = map (Z.add (Z.of_nat (count_before ins k))) e0)
    /\ (forall el, In el (occells mo) <-> exists k o e0, nth_error ins k = Some o /\ In e0 (sel_cells o)
                                           /\ el = map (Z.add (Z.of_nat (count_before ins k))) e0)
    /\ (forall k o v, nth_error ins k = Some o -> (v < length (ocells o))%nat ->
          nth_error (coords O (mheap (wmem w')) mo) (count_before ins k + v)
          = nth_error (coords O (mheap (wmem w)) o) v)
    /\ length (ocells mo) = count_before ins (length ins).
Proof.
  intros Hwf Hs. destruct (merge_spec O _ _ _ Hwf Hs) as (ins & mo & Eg & Eo & Ec & Ee & Ef & Ecc & _).
  exists ins, mo. split; auto. split; auto.
  split; [intros el; rewrite Ee, shifted_In; reflexivity|].
  split; [intros el; rewrite Ef, shifted_In; reflexivity|].
  split; [intros el; rewrite Ecc, shifted_In; reflexivity|].
  split.
  - intros k o v E Hv. rewrite Ec. apply nth_error_flat_map_block; auto.
    + unfold coords. now rewrite map_length.
    + intros o'. unfold coords. apply map_length.
  - assert (L : length (coords O (mheap (wmem w')) mo) = length (flat_map (coords O (mheap (wmem w))) ins)) by now rewrite Ec.
    unfold coords at 1 in L. rewrite map_length in L. rewrite L. clear.
    induction ins as [|a t IH]; cbn [flat_map count_before length]; auto.
    rewrite app_length, IH. unfold coords. now rewrite map_length.
Qed.

(* ---------------------------------------------------------------- what must not change *)
(* a transform or an edit through object i leaves the whole RECORD of every other object as it is - its vertex slots,
   edges, faces, cells, corner tables, attributes, class *)
Theorem only_the_target_object_changes (w w' : world) o i :
  wf w -> op_ok w o -> step O w o = Some w' -> target o = Some i ->
  length (wobjs w') = length (wobjs w) /\ forall j, j <> i -> nth_error (wobjs w') j = nth_error (wobjs w) j.
Proof.
  intros Hwf Hok Hs Ht. destruct (step_shape_holds O _ _ _ Hwf Hok Hs) as [(Ht' & _)|H]; [congruence|].
  destruct H as (i' & so & so' & m' & cs' & Ht' & _ & -> & _). rewrite Ht in Ht'. inversion Ht'; subst i'.
  split; [simpl; apply upd_length|]. intros j Hj. simpl. apply nth_error_upd_other. congruence.
Qed.

(* a producer (copy, merge, from_arrays, ring, any outside producer) appends one object and leaves every record as it is *)
Theorem producers_only_append (w w' : world) o :
  wf w -> op_ok w o -> step O w o = Some w' -> target o = None ->
  exists no, wobjs w' = wobjs w ++ [no].
Proof.
  intros Hwf Hok Hs Ht. destruct (step_shape_holds O _ _ _ Hwf Hok Hs) as [(_ & m' & no & -> & _)|H].
  - exists no. reflexivity.
  - destruct H as (i' & so & so' & m' & cs' & Ht' & _). congruence.
Qed.

(* a transform changes nothing of its own target but the vertex slots: elements, corner tables, attributes, class stay *)
Theorem transform_keeps_the_rest_of_its_target (w w' : world) o i f :
  wf w -> tmap O w o = Some (i, f) -> step O w o = Some w' ->
  exists so so', nth_error (wobjs w) i = Some so /\ nth_error (wobjs w') i = Some so'
    /\ oedges so' = oedges so /\ ofaces so' = ofaces so /\ occells so' = occells so /\ ocorn so' = ocorn so
    /\ oattr so' = oattr so /\ okind so' = okind so /\ length (ocells so') = length (ocells so).
Proof.
  intros Hwf Ht Hs. destruct (step_tmap O _ _ _ _ _ Hwf Ht Hs) as (so & m' & cs' & Em & -> & (_ & _ & _ & _ & _ & Hlen & _)).
  apply get_mesh_nth in Em. exists so, (with_cells so cs'). split; auto. split.
  - unfold retarget. simpl. apply nth_error_upd_same. apply nth_error_Some. congruence.
  - repeat split; auto.
Qed.
End More.

(* non-vacuity: two triangles merged; face (0,1,2) of the second input is face (3,4,5) of the result *)
Example closed_form_example :
  let t := mkobj [1%positive; 2%positive; 3%positive] [[0;1];[1;2];[0;2]]%Z [[0;1;2]]%Z [] corn0 [] 2 in
  In [3;4;5]%Z (shifted sel_faces 0 [t; t]) /\ count_before [t; t] 1 = 3%nat.
Proof. split; [apply shifted_In; exists 1%nat; eexists; exists [0;1;2]%Z; repeat split; simpl; auto | reflexivity]. Qed.
