(* C06 - non-vacuity: canonical rationals (the instance the correspondence batches execute) satisfy every law the
   theorems assume, and concrete histories satisfy their hypotheses. *)
From Coq Require Import ZArith List Bool QArith Qcanon Field FMapPositive.
Import ListNotations.
Require Import MV.Lib.Base MV.C06.Base MV.C06.Gen MV.C06.Model MV.C06.Run MV.C06.Proofs_Heap MV.C06.Proofs_World
               MV.C06.Proofs_Step MV.C06.Proofs_Merge MV.C06.Proofs_Alg MV.C06.Proofs_Norm MV.C06.Proofs_Sep.

Lemma Qc_field : field_theory (z0 QcO) (o1 QcO) (add QcO) (mul QcO) (sub QcO) (opp QcO) (div QcO)
                              (fun x => div QcO (o1 QcO) x) (@eq Qc).
Proof.
  simpl. constructor.
  - exact Qcrt.
  - exact (F_1_neq_0 Qcft).
  - intros p q. unfold Qcdiv. ring.
  - intros p Hp. unfold Qcdiv. rewrite Qcmult_1_l. now apply Qcmult_inv_l.
Qed.

Lemma Qc_leb_iff a b : leb QcO a b = true <-> (a <= b)%Qc.
Proof. simpl. unfold Qcle. apply Qle_bool_iff. Qed.

Lemma Qc_total a b : leb QcO a b = true \/ leb QcO b a = true.
Proof. rewrite !Qc_leb_iff. destruct (Qclt_le_dec a b) as [H|H]; [left; now apply Qclt_le_weak | now right]. Qed.
Lemma Qc_trans a b c : leb QcO a b = true -> leb QcO b c = true -> leb QcO a c = true.
Proof. rewrite !Qc_leb_iff. apply Qcle_trans. Qed.
Lemma Qc_anti a b : leb QcO a b = true -> leb QcO b a = true -> a = b.
Proof. rewrite !Qc_leb_iff. apply Qcle_antisym. Qed.
Lemma Qc_add a b c : leb QcO a b = true -> leb QcO (add QcO a c) (add QcO b c) = true.
Proof. rewrite !Qc_leb_iff. simpl. intros H. apply Qcplus_le_compat; [exact H | apply Qcle_refl]. Qed.
Lemma Qc_mul a b c : leb QcO (z0 QcO) c = true -> leb QcO a b = true -> leb QcO (mul QcO c a) (mul QcO c b) = true.
Proof.
  rewrite !Qc_leb_iff. simpl. intros Hc H. rewrite (Qcmult_comm c a), (Qcmult_comm c b).
  now apply Qcmult_le_compat_r.
Qed.

(* a concrete history: array, mesh over it, the same mesh merged twice, a copy, transforms and an edit *)
Definition ex_hist : list (op (T:=Qc)) :=
  [ ONew ByUser [IFresh (q 0 1, q 0 1, q 0 1); IFresh (q 1 1, q 0 1, q 0 1); IFresh (q 0 1, q 2 1, q 0 1)] [] [] [] corn0 [] (-1);
    OFromArrays 0 [[0;1];[1;2];[0;2]]%Z [[0;1;2]]%Z [] (mkcorn [0;1;2] [0;0;0] [] [] [] [])%Z 2;
    OMerge [1%nat; 1%nat];
    OCopy 2 false;
    OTranslate 2 (PVal (q 1 2, q 0 1, q 0 1));
    ONormalize 3 true;
    OEdit 0 1 0 (q 5 1);
    OAttrSet 1 0 7 [3; -1; 4]%Z; OCopy 1 true; OAttrEdit 1 0 7 2 9%Z; OElemEdit 4 1 0 [1; 2; 0]%Z;
    ORing 3 1 true [(q 0 1, q 0 1, q 1 1); (q 1 1, q 0 1, q 0 1); (q (-1) 2, q 1 1, q 0 1); (q (-1) 2, q (-1) 1, q 0 1);
                    (q 1 1, q 0 1, q 0 1)] [] [[0;1;2];[0;2;3];[0;3;4]]%Z corn0 ].

Example ex_hist_runs : exists w, run QcO (w0 (T:=Qc)) ex_hist = Some w /\ length (wobjs w) = 6%nat.
Proof. vm_compute. eexists. split; reflexivity. Qed.

Example ex_hist_ok : ok_hist QcO (w0 (T:=Qc)) ex_hist.
Proof.
  cbn [ok_hist ex_hist]. split.
  - intros m' cs E. vm_compute in E. inversion E; subst. repeat constructor; simpl; intuition discriminate.
  - intros w1 _. repeat (split; [exact I|intros ? _]). exact I.
Qed.

Example ex_hist_fresh : fresh_hist QcO (w0 (T:=Qc)) ex_hist.
Proof.
  cbn [fresh_hist ex_hist]. split; [repeat constructor|]. intros w1 _. repeat (split; [exact I|intros ? _]). exact I.
Qed.

Example ex_invariant : forall w, run QcO (w0 (T:=Qc)) ex_hist = Some w -> wf w.
Proof. intros w H. eapply invariant_all_histories; eauto using wf_w0, ex_hist_ok. Qed.

(* the necessity of the invariant (the mechanism of the repaired defects): when two vertex ids DO share a buffer,
   the in-place loop of translate moves that vertex twice *)
Definition shared_world : world (T:=Qc) :=
  mkw (mkmem (wr (PositiveMap.empty _) 1%positive (q 1 1, q 0 1, q 0 1)) 2%positive) [mkobj [1%positive; 1%positive] [] [] [] corn0 [] 0].
Example shared_buffer_moves_twice :
  exists w', step QcO shared_world (OTranslate 0 (PVal (q 1 1, q 0 1, q 0 1))) = Some w'
             /\ obj_coords QcO w' 0 = [(q 3 1, q 0 1, q 0 1); (q 3 1, q 0 1, q 0 1)].
Proof. eexists. split; vm_compute; reflexivity. Qed.

(* Necessity of the freshness hypothesis of Proofs_Sep (and the mechanism of the defects repaired by 84375c8 / b7d8427:
   boundary extraction, subdivision and the procedural generators handed the source's / caller's vectors to their result).
   A result that bypasses prepare() and stores the source's own vectors is an object on shared cells (ONew false with
   IShare); a transform of the result then moves the source. Witness: a triangle, its
   boundary polyline on the same three buffers, translate the boundary by (1,0,0). *)
Definition alias_hist : list (op (T:=Qc)) :=
  [ ONew ByUser [IFresh (q 0 1, q 0 1, q 0 1); IFresh (q 1 1, q 0 1, q 0 1); IFresh (q 0 1, q 1 1, q 0 1)]
         [[0;1];[1;2];[0;2]]%Z [[0;1;2]]%Z [] (mkcorn [0;1;2] [0;0;0] [] [] [] [])%Z [] 2;
    ONew ByUser [IShare 0 0; IShare 0 1; IShare 0 2] [[0;1];[1;2];[0;2]]%Z [] [] corn0 [] 1 ].
Lemma derived_alias_moves_the_source :
  exists (w1 w2 : world (T:=Qc)) o i j,
    run QcO (w0 (T:=Qc)) alias_hist = Some w1 /\ wf w1 /\ ok_hist QcO (w0 (T:=Qc)) alias_hist
    /\ step QcO w1 o = Some w2 /\ target o = Some i /\ j <> i /\ (j < length (wobjs w1))%nat
    /\ obj_coords QcO w2 j <> obj_coords QcO w1 j.
Proof.
  assert (Hok : ok_hist QcO (w0 (T:=Qc)) alias_hist).
  { cbn [ok_hist alias_hist]. split.
    - intros m' cs E. vm_compute in E. inversion E; subst. repeat constructor; simpl; intuition discriminate.
    - intros w1 E1. split; [|intros; exact I].
      vm_compute in E1. inversion E1; subst. intros m' cs E. vm_compute in E. inversion E; subst.
      repeat constructor; simpl; intuition discriminate. }
  destruct (run QcO (w0 (T:=Qc)) alias_hist) as [w1|] eqn:E1; [|vm_compute in E1; discriminate].
  destruct (step QcO w1 (OTranslate 1 (PVal (q 1 1, q 0 1, q 0 1)))) as [w2|] eqn:E2;
    [|vm_compute in E1; inversion E1; subst; vm_compute in E2; discriminate].
  exists w1, w2, (OTranslate 1 (PVal (q 1 1, q 0 1, q 0 1))), 1%nat, 0%nat.
  split; [reflexivity|]. split; [eapply invariant_all_histories; eauto using wf_w0|]. split; [exact Hok|].
  split; [exact E2|]. split; [reflexivity|]. split; [discriminate|].
  vm_compute in E1. inversion E1; subst. vm_compute in E2. inversion E2; subst.
  split; [vm_compute; auto|]. vm_compute. discriminate.
Qed.
