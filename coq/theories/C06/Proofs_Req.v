(* C06 - the REQUESTED map of every transform, written down independently of the generated definitions, and the
   proof that the code's per-vertex expression (Gen.v) is that map. *)
From Coq Require Import ZArith List Bool PArith FMapPositive Lia Ring Field.
Import ListNotations.
Require Import MV.Lib.Base MV.C06.Base MV.C06.Gen MV.C06.Model MV.C06.Proofs_Heap MV.C06.Proofs_World
               MV.C06.Proofs_Step MV.C06.Proofs_Merge MV.C06.Proofs_Alg.

Section Req.
Context {T : Type} (O : ops T).
Notation vec := (vec T).
Notation world := (world (T:=T)).
Notation op := (op (T:=T)).
Notation wf := (wf (T:=T)).
Notation "0" := (z0 O).
Notation "1" := (o1 O).
Infix "+" := (add O).
Infix "-" := (sub O).
Infix "*" := (mul O).
Infix "/" := (div O).

Hypothesis Fth : field_theory 0 1 (add O) (mul O) (sub O) (opp O) (div O) (fun x => 1 / x) (@eq T).
Add Field Ff3 : Fth.

Definition or_zero (orig : option vec) : vec := match orig with Some v => v | None => vzero O end.

(* what the caller asks for (docstrings of transform.py), on the coordinates as they are when the call is made *)
Definition requested (w : world) (o : op) : option (nat * (vec -> vec)) :=
  let h := mheap (wmem w) in
  match o with
  | OTranslate i (PVal t) => Some (i, fun p => vadd O p t)
  | OTranslate i (PSlot po ps) =>
      match cell_of w po ps with Some pc => Some (i, fun p => vadd O p (rd O h pc)) | None => None end
  | ORotate i R orig =>
      match get_mesh w i with
      | Some _ => Some (i, fun p => vadd O (or_zero orig) (mapply O R (vsub O p (or_zero orig))))
      | None => None end
  | OScale i s orig =>
      match get_mesh w i with
      | Some _ => Some (i, fun p => vadd O (or_zero orig) (smul O s (vsub O p (or_zero orig))))
      | None => None end
  | OScaleXYZ i fx fy fz orig =>
      match get_mesh w i with
      | Some _ =>
          let og := or_zero orig in
          Some (i, fun p => (vx og + fx * (vx p - vx og), vy og + fy * (vy p - vy og), vz og + fz * (vz p - vz og)))
      | None => None end
  | ONormalize i c =>
      match get_mesh w i with
      | Some so =>
          match bbox O (coords O h so) with
          | Some (lo, hi) =>
              let M := vmax3 O (vsub O hi lo) in
              if leb O M 0 then None else
              Some (i, if c then fun p => smul O ((1 + 1) * (1 / M)) (vsub O p (vdivs O (vadd O lo hi) (1 + 1)))
                       else fun p => smul O (1 / M) (vsub O p lo))
          | None => None end
      | None => None end
  | OFit i =>
      match get_mesh w i with
      | Some so =>
          match bbox O (coords O h so) with
          | Some (lo, hi) =>
              let M := vmax3 O (vsub O hi lo) in
              if leb O M 0 then None else Some (i, fun p => smul O (1 / M) (vsub O p lo))
          | None => None end
      | None => None end
  | OToOrigin i =>
      match get_mesh w i with
      | Some so => Some (i, fun p => vsub O p (vdivs O (vsum O (coords O h so)) (cst O (nverts so))))
      | None => None end
  | OFlatten i dim => Some (i, fun p => setc p dim 0)
  | _ => None
  end.

Ltac vdestruct := repeat match goal with v : Base.vec T |- _ => destruct v as [[? ?] ?] end.
Ltac vunf := unfold translate_pt, scale_pt, rotate_pt, scale_xyz_pt, to_origin_tr, vadd, vsub, vopp, smul, vdivs, vzero, mkv,
                    mapply, dot, vx, vy, vz, or_zero in *; cbn [fst snd] in *.

Lemma cst2' : cst O 2 = 1 + 1.
Proof. cbv [cst Pos.iter]. ring. Qed.

Theorem code_map_is_requested (w : world) o i f :
  tmap O w o = Some (i, f) -> exists g, requested w o = Some (i, g) /\ forall p, f p = g p.
Proof.
  destruct o; cbn [tmap requested]; try discriminate.
  - (* translate *)
    destruct t as [v|po ps].
    + intros E; inversion E; subst. eexists; split; [reflexivity|]. intros p. apply translate_is_add; auto.
    + destruct (cell_of w po ps); [|discriminate]. intros E; inversion E; subst.
      eexists; split; [reflexivity|]. intros p. apply translate_is_add; auto.
  - (* rotate *)
    destruct (get_mesh w m); [|discriminate]. change rotate_default with DZero.
    destruct orig as [og|]; cbn [default_orig]; intros E; inversion E; subst;
      (eexists; split; [reflexivity|]); intros p; apply rotate_is_rotation; auto.
  - (* scale *)
    destruct (get_mesh w m); [|discriminate]. change scale_default with DZero.
    destruct orig as [og|]; cbn [default_orig]; intros E; inversion E; subst;
      (eexists; split; [reflexivity|]); intros p; apply scale_is_homothety; auto.
  - (* scale_xyz *)
    destruct (get_mesh w m) as [so|]; [|discriminate]. change scale_xyz_default with DZero.
    destruct orig as [og|]; cbn [default_orig]; intros E; inversion E; subst;
      (eexists; split; [reflexivity|]); intros p; apply scale_xyz_is_axis_scaling; auto.
  - (* normalize *)
    destruct (get_mesh w m) as [so|]; [|discriminate]. unfold normalize_maps.
    destruct (bbox O (coords O (mheap (wmem w)) so)) as [[lo hi]|]; [|discriminate].
    change (aabb_span O lo hi) with (vsub O hi lo).
    destruct (leb O (vmax3 O (vsub O hi lo)) 0); [discriminate|].
    destruct centre; intros E; inversion E; subst; (eexists; split; [reflexivity|]); intros p;
      unfold normalize_centre_tr, normalize_centre_factor, normalize_corner_tr, normalize_corner_factor, normalize_sc,
             aabb_center; rewrite ?cst2'; generalize (vmax3 O (vsub O hi lo)); intros M; vdestruct; vunf;
      apply triple_eq; ring.
  - (* fit *)
    destruct (get_mesh w m) as [so|]; [|discriminate]. unfold normalize_maps. change fit_centre_flag with false.
    destruct (bbox O (coords O (mheap (wmem w)) so)) as [[lo hi]|]; [|discriminate].
    change (aabb_span O lo hi) with (vsub O hi lo).
    destruct (leb O (vmax3 O (vsub O hi lo)) 0); [discriminate|].
    intros E; inversion E; subst; (eexists; split; [reflexivity|]); intros p;
      unfold normalize_corner_tr, normalize_corner_factor, normalize_sc;
      generalize (vmax3 O (vsub O hi lo)); intros M; vdestruct; vunf; apply triple_eq; ring.
  - (* to_origin *)
    destruct (get_mesh w m) as [so|]; [|discriminate]. intros E; inversion E; subst.
    eexists; split; [reflexivity|]. intros p.
    generalize (vsum O (coords O (mheap (wmem w)) so)), (cst O (nverts so)). intros s n.
    vdestruct; vunf.
    apply triple_eq;
      repeat match goal with |- context [?a / ?n] => lazymatch a with 1 => fail | _ => rewrite (Fdiv_def Fth a n) end end;
      ring.
  - (* flatten *)
    intros E; inversion E; subst. eexists; split; [reflexivity|]. reflexivity.
Qed.

(* "every transform moves every vertex exactly once by exactly the requested map", all transforms at once *)
Theorem every_vertex_once_by_the_requested_map (w w' : world) o :
  wf w -> step O w o = Some w' ->
  forall i g, requested w o = Some (i, g) ->
  obj_coords O w' i = map g (obj_coords O w i)
  /\ (forall c, allocated (wmem w) c -> ~ In c (obj_cells w i) -> rd O (mheap (wmem w')) c = rd O (mheap (wmem w)) c)
  /\ (forall j, j <> i -> obj_cells w' j = obj_cells w j).
Proof.
  intros Hwf Hs i g Hreq.
  assert (Ht : exists i' f, tmap O w o = Some (i', f)).
  { pose proof (step_has_tmap O _ _ _ Hs) as H. destruct o; auto; cbn [requested] in Hreq; discriminate. }
  destruct Ht as (i' & f & Ht). destruct (code_map_is_requested _ _ _ _ Ht) as (g' & Hg & Heq).
  rewrite Hreq in Hg. inversion Hg; subst i' g'.
  destruct (transform_once O _ _ _ _ _ Hwf Ht Hs) as (A & B & C & _).
  split; [|split]; auto. rewrite A. apply map_ext. exact Heq.
Qed.
End Req.
