(* C06 - the model instantiated with canonical rationals (Qc: a field with Leibniz equality, so the theorems of
   Proofs*.v apply to these very definitions) and the boolean checker evaluated by the correspondence batches. No proofs. *)
From Coq Require Import ZArith List Bool QArith Qabs Qcanon.
Import ListNotations.
Require Import MV.Lib.Base MV.C06.Base MV.C06.Gen MV.C06.Model.

Definition QcO : ops Qc :=
  mkops Qc (Q2Qc 0) (Q2Qc 1) Qcplus Qcminus Qcmult Qcdiv Qcopp (fun a b => Qle_bool (this a) (this b)).
Definition q (n : Z) (d : positive) : Qc := Q2Qc (n # d).
Arguments q n%Z d%positive.
(* a vector of dyadic rationals n1/2^k, n2/2^k, n3/2^k (every binary64 value is one) *)
Definition D (n1 n2 n3 : Z) (k : N) : vec Qc :=
  let d := Pos.pow 2 (N.succ_pos k) in (q (2 * n1) d, q (2 * n2) d, q (2 * n3) d).
Arguments D (n1 n2 n3)%Z k%N.

(* |a - b| <= 1e-9 (1 + |b|), exact rational arithmetic *)
Definition qclose (a b : Qc) : bool :=
  Qle_bool (Qabs (this a - this b)) ((1 # 1000000000) * (1 + Qabs (this b))).
Definition vclose (a b : vec Qc) : bool := qclose (vx a) (vx b) && qclose (vy a) (vy b) && qclose (vz a) (vz b).

Definition zl_eqb := list_eqb Z.eqb.
Definition zll_eqb := list_eqb zl_eqb.

(* what the implementation showed after one step: the objects whose coordinates changed (or that are new), the
   canonical buffer classes of all slots, and the elements/class of a newly created object *)
Record obs := mkobs {
  o_changed : list (nat * list (vec Qc));
  o_cls : option (list Z);        (* None: the same classes as after the previous step *)
  o_new : option (list (list Z) * list (list Z) * list (list Z) * Z) }.

Fixpoint patch (snap : list (list (vec Qc))) (ch : list (nat * list (vec Qc))) : list (list (vec Qc)) :=
  match ch with
  | [] => snap
  | (i, vs) :: t => patch (if (i <? length snap)%nat then upd snap i vs else snap ++ [vs]) t
  end.

Fixpoint all2 {A B} (f : A -> B -> bool) (a : list A) (b : list B) : bool :=
  match a, b with
  | [], [] => true
  | x :: s, y :: t => f x y && all2 f s t
  | _, _ => false
  end.

Definition agree_coords (w : world (T:=Qc)) (snap : list (list (vec Qc))) : bool :=
  all2 (fun o vs => all2 vclose (coords QcO (mheap (wmem w)) o) vs) (wobjs w) snap.

Definition agree_new (w : world (T:=Qc)) (n : option (list (list Z) * list (list Z) * list (list Z) * Z)) : bool :=
  match n with
  | None => true
  | Some (e, f, c, k) =>
      match rev (wobjs w) with
      | o :: _ => zll_eqb (oedges o) e && zll_eqb (ofaces o) f && zll_eqb (occells o) c && Z.eqb (okind o) k
      | [] => false
      end
  end.

Fixpoint check_from (w : world (T:=Qc)) (snap : list (list (vec Qc))) (cls : list Z) (h : list (op (T:=Qc) * obs)) : bool :=
  match h with
  | [] => true
  | (o, ob) :: t =>
      match step QcO w o with
      | None => false
      | Some w' =>
          let snap' := patch snap (o_changed ob) in
          let cls' := match o_cls ob with Some c => c | None => cls end in
          agree_coords w' snap' && zl_eqb (classes w') cls' && agree_new w' (o_new ob) && check_from w' snap' cls' t
      end
  end.

Definition check_case (h : list (op (T:=Qc) * obs)) : bool := check_from (w0 (T:=Qc)) [] [] h.
