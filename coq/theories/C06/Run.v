(* C06 - the model instantiated with canonical rationals (Qc: a field with Leibniz equality, so the theorems of
   Proofs*.v apply to these very definitions) and the boolean checker evaluated by the correspondence batches. No proofs. *)
From Coq Require Import ZArith List Bool QArith Qabs Qcanon.
Import ListNotations.
Require Import MV.Lib.Base MV.C06.Base MV.C06.Gen MV.C06.Model.

Definition QcO : ops Qc :=
  mkops Qc (Q2Qc 0) (Q2Qc 1) Qcplus Qcminus Qcmult Qcdiv Qcopp (fun a b => Qle_bool (this a) (this b)).
Definition q (n : Z) (d : positive) : Qc := Q2Qc (n # d).
Arguments q n%Z d%positive.
(* a vector of dyadic rationals n1/2^k, n2/2^k, n3/2^k (every binary64 value is one) *)
Definition D (n1 n2 n3 : Z) (k : N) : vec Qc :=
  let d := Pos.pow 2 (N.succ_pos k) in (q (2 * n1) d, q (2 * n2) d, q (2 * n3) d).
Arguments D (n1 n2 n3)%Z k%N.

(* |a - b| <= 1e-9 (1 + |b|), exact rational arithmetic *)
Definition qclose (a b : Qc) : bool :=
  Qle_bool (Qabs (this a - this b)) ((1 # 1000000000) * (1 + Qabs (this b))).
Definition vclose (a b : vec Qc) : bool := qclose (vx a) (vx b) && qclose (vy a) (vy b) && qclose (vz a) (vz b).

Definition zl_eqb := list_eqb Z.eqb.
Definition zll_eqb := list_eqb zl_eqb.

(* every container of a mesh as the implementation shows it: edges, faces, cells, corner tables, class *)
Definition info : Type := (list (list Z) * list (list Z) * list (list Z) * corners * Z)%type.
Definition info_of (o : obj) : info := (oedges o, ofaces o, occells o, ocorn o, okind o).
Definition corn_eqb (a b : corners) : bool :=
  zl_eqb (fce a) (fce b) && zl_eqb (fca a) (fca b) && zl_eqb (cce a) (cce b) && zl_eqb (cca a) (cca b)
  && zl_eqb (cfe a) (cfe b) && zl_eqb (cfa a) (cfa b).
Definition info_eqb (a b : info) : bool :=
  let '(e1, f1, c1, n1, k1) := a in let '(e2, f2, c2, n2, k2) := b in
  zll_eqb e1 e2 && zll_eqb f1 f2 && zll_eqb c1 c2 && corn_eqb n1 n2 && Z.eqb k1 k2.
(* the containers observed on a newly created object: given in full, or "identical to what was observed on object i
   when it was created" (the harness found the two observations equal), or nothing to compare (the op carries them) *)
Inductive newobs := NewFull (i : info) | NewSame (i : nat) | NewNone.

(* what the implementation showed after one step: the objects whose coordinates changed (or that are new), the
   canonical buffer classes of all slots, and the containers of a newly created object *)
Definition elems : Type := (list (list Z) * list (list Z) * list (list Z))%type.
Record obs := mkobs {
  o_changed : list (nat * list (vec Qc));
  o_cls : option (list Z);        (* None: the same classes as after the previous step *)
  o_new : newobs;
  o_attrs : list (nat * attrs);   (* objects whose attributes are not what they were (a new object starts without any) *)
  o_elems : list (nat * elems) }. (* objects whose element lists were edited *)

Definition attr1_eqb (a b : Z * Z * list Z) : bool :=
  Z.eqb (fst (fst a)) (fst (fst b)) && Z.eqb (snd (fst a)) (snd (fst b)) && zl_eqb (snd a) (snd b).
(* attributes are a finite map (container, name) -> values: compared as sets of bindings *)
Definition attrs_eqb (a b : attrs) : bool :=
  Nat.eqb (length a) (length b) && forallb (fun x => existsb (attr1_eqb x) b) a.
Definition elems_of (o : obj) : elems := (oedges o, ofaces o, occells o).
Definition elems_eqb (a b : elems) : bool :=
  let '(e1, f1, c1) := a in let '(e2, f2, c2) := b in zll_eqb e1 e2 && zll_eqb f1 f2 && zll_eqb c1 c2.
Fixpoint patchl {A} (l : list A) (ch : list (nat * A)) : list A :=
  match ch with [] => l | (i, x) :: t => patchl (upd l i x) t end.

Fixpoint patch (snap : list (list (vec Qc))) (ch : list (nat * list (vec Qc))) : list (list (vec Qc)) :=
  match ch with
  | [] => snap
  | (i, vs) :: t => patch (if (i <? length snap)%nat then upd snap i vs else snap ++ [vs]) t
  end.

Fixpoint all2 {A B} (f : A -> B -> bool) (a : list A) (b : list B) : bool :=
  match a, b with
  | [], [] => true
  | x :: s, y :: t => f x y && all2 f s t
  | _, _ => false
  end.

Definition agree_coords (w : world (T:=Qc)) (snap : list (list (vec Qc))) : bool :=
  all2 (fun o vs => all2 vclose (coords QcO (mheap (wmem w)) o) vs) (wobjs w) snap.

Definition last_info (w : world (T:=Qc)) : option info :=
  match rev (wobjs w) with o :: _ => Some (info_of o) | [] => None end.

(* returns the observed containers of the new object (to be remembered), or None on disagreement *)
Definition agree_new (w : world (T:=Qc)) (infos : list info) (n : newobs) (created : bool) : option (list info) :=
  match n, last_info w with
  | NewNone, Some i => Some (if created then infos ++ [i] else infos)
  | NewFull j, Some i => if info_eqb i j then Some (infos ++ [j]) else None
  | NewSame k, Some i => match nth_error infos k with
                         | Some j => if info_eqb i j then Some (infos ++ [j]) else None
                         | None => None end
  | NewNone, None => Some infos
  | _, None => None
  end.

Definition agree_state (w : world (T:=Qc)) (ats : list attrs) (els : list elems) : bool :=
  all2 (fun o a => attrs_eqb (oattr o) a) (wobjs w) ats && all2 (fun o e => elems_eqb (elems_of o) e) (wobjs w) els.

Fixpoint check_from (w : world (T:=Qc)) (snap : list (list (vec Qc))) (cls : list Z) (infos : list info)
                    (ats : list attrs) (els : list elems) (h : list (op (T:=Qc) * obs)) : bool :=
  match h with
  | [] => true
  | (o, ob) :: t =>
      match step QcO w o with
      | None => false
      | Some w' =>
          let snap' := patch snap (o_changed ob) in
          let cls' := match o_cls ob with Some c => c | None => cls end in
          let created := (length (wobjs w) <? length (wobjs w'))%nat in
          (* a new object enters the stores without attributes and with the element lists the model gave it (those were
             compared with the observation by agree_new); observed changes are patched in, then everything is compared *)
          let ats0 := if created then ats ++ [[]] else ats in
          let els0 := if created then els ++ match rev (wobjs w') with x :: _ => [elems_of x] | [] => [] end else els in
          let ats' := patchl ats0 (o_attrs ob) in
          let els' := patchl els0 (o_elems ob) in
          match agree_new w' infos (o_new ob) created with
          | None => false
          | Some infos' => agree_coords w' snap' && zl_eqb (classes w') cls' && agree_state w' ats' els'
                           && check_from w' snap' cls' infos' ats' els' t
          end
      end
  end.

Definition check_case (h : list (op (T:=Qc) * obs)) : bool := check_from (w0 (T:=Qc)) [] [] [] [] [] h.
