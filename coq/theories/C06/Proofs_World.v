(* C06 - worlds: the invariant "no two vertex ids of an object share a buffer", what one step writes, producers. *)
From Coq Require Import ZArith List Bool PArith FMapPositive Lia.
Import ListNotations.
Require Import MV.Lib.Base MV.C06.Base MV.C06.Gen MV.C06.Model MV.C06.Proofs_Heap.

Local Arguments alloc1 : simpl never.

(* ---- structural facts read off the generated definitions (they break when the source stops copying) *)
Lemma merge_copies : eff merge_vertex_mode = Copy.
Proof. reflexivity. Qed.
Lemma from_arrays_copies : eff from_arrays_mode = Copy.
Proof. reflexivity. Qed.
Lemma copy_is_deep : forall attr : bool, (if attr then copy_mode_with_attributes else copy_mode_data_only) = Copy.
Proof. intros []; reflexivity. Qed.
(* every container of the copy is filled from the same container of the source, in both branches of mesh.copy *)
Lemma copy_plumbing_is_identity (attr : bool) (so : obj) cs :
  copy_obj attr so cs = mkobj cs (oedges so) (ofaces so) (occells so) (ocorn so) (if attr then oattr so else []) (okind so).
Proof. destruct attr, so as [? ? ? ? [? ? ? ? ? ?] ? ?]; reflexivity. Qed.
Lemma copy_connectivity_is_deep : copy_connectivity_mode = Copy.
Proof. reflexivity. Qed.
Lemma prepare_copies : prepare_vertex_mode = Copy.
Proof. reflexivity. Qed.
(* the exporters that append to a PolyLine() directly (boundary of a surface, exported shortest paths, the three spanning
   trees) append copies *)
Lemma appenders_copy : forall p, (0 <= p <= 4)%Z -> append_mode p = Copy.
Proof.
  intros p H. assert (p = 0 \/ p = 1 \/ p = 2 \/ p = 3 \/ p = 4)%Z as [-> | [-> | [-> | [-> | ->]]]] by lia; reflexivity.
Qed.
Lemma copy_connectivity_answers_from_the_copy : copy_connectivity_backref = BackToCopy.
Proof. reflexivity. Qed.
(* three Euler angles given as a list / tuple mean rotations about the FIXED axes x, then y, then z *)
Lemma euler_angles_about_fixed_axes : euler_seq = Fixed_xyz.
Proof. reflexivity. Qed.
Lemma translate_by_value : translate_param_by_value = true.
Proof. reflexivity. Qed.
Lemma ring_all_fresh N nc open : Forall (fun s => s = SFresh) (ring_pattern N nc open).
Proof.
  unfold ring_pattern. repeat (apply Forall_app; split); try (constructor; [reflexivity|constructor]).
  - apply Forall_forall. intros x Hx. apply in_flat_map in Hx as [i [_ Hi]]. simpl in Hi. intuition.
  - destruct open; repeat constructor.
Qed.
Lemma ring_count N nc open : (1 <= N * nc)%Z ->
  Z.of_nat (length (ring_pattern N nc open)) = (N * nc + 1 + (if open then 1 else 0))%Z.
Proof.
  intros H. unfold ring_pattern. rewrite !app_length.
  assert (E : length (flat_map (fun _ : Z => [SFresh]) (zrange2 1 (N * nc))) = Z.to_nat (N * nc - 1)).
  { rewrite flat_map_concat_map. unfold zrange2. rewrite !map_map.
    rewrite <- (zrange_length (N * nc - 1)). generalize (zrange (N * nc - 1)). intros l.
    induction l; simpl; auto. }
  rewrite E. destruct open; simpl length; lia.
Qed.

Section World.
Context {T : Type} (O : ops T).
Notation vec := (vec T).
Notation rd := (rd O).
Notation world := (world (T:=T)).
Notation mem := (mem (T:=T)).

Definition wf_obj (m : mem) (o : obj) : Prop := NoDup (ocells o) /\ Forall (allocated m) (ocells o).
Definition wf (w : world) : Prop := Forall (wf_obj (wmem w)) (wobjs w).

Lemma wf_obj_mono m m' o : (mnext m <= mnext m')%positive -> wf_obj m o -> wf_obj m' o.
Proof.
  intros H [A B]. split; auto. eapply Forall_impl; [|exact B]. unfold allocated. intros; lia.
Qed.

Lemma Forall_upd {A} (P : A -> Prop) l i x : Forall P l -> P x -> Forall P (upd l i x).
Proof.
  revert i. induction l as [|a t IH]; intros i Hl Hx; simpl; auto.
  inversion Hl; subst. destruct i; constructor; auto.
Qed.

Lemma nth_error_upd_same {A} (l : list A) i x : (i < length l)%nat -> nth_error (upd l i x) i = Some x.
Proof.
  revert i. induction l as [|a t IH]; intros i H; simpl in *; [lia|]. destruct i; simpl; auto. apply IH. lia.
Qed.

Lemma nth_error_upd_other {A} (l : list A) i j x : i <> j -> nth_error (upd l i x) j = nth_error l j.
Proof.
  revert i j. induction l as [|a t IH]; intros i j H; simpl; auto.
  destruct i, j; simpl; auto; try congruence.
Qed.

Lemma upd_length {A} (l : list A) i x : length (upd l i x) = length l.
Proof. revert i. induction l as [|a t IH]; intros i; simpl; auto. destruct i; simpl; auto. Qed.

Lemma In_upd {A} (l : list A) i x y : In y (upd l i x) -> y = x \/ In y l.
Proof.
  revert i. induction l as [|a t IH]; intros i H; simpl in *; auto.
  destruct i; simpl in H; destruct H as [H|H]; auto. apply IH in H. tauto.
Qed.

Lemma NoDup_upd_fresh (l : list cell) i c : NoDup l -> ~ In c l -> NoDup (upd l i c).
Proof.
  revert i. induction l as [|a t IH]; intros i Hnd Hn; simpl; auto.
  inversion Hnd; subst. destruct i.
  - constructor; auto. intros H. apply Hn. now right.
  - constructor.
    + intros H. apply In_upd in H as [->|H]; [apply Hn; now left | contradiction].
    + apply IH; auto. intros H. apply Hn. now right.
Qed.

Lemma get_mesh_nth (w : world) i o : get_mesh w i = Some o -> nth_error (wobjs w) i = Some o.
Proof. unfold get_mesh. destruct (nth_error (wobjs w) i); [|discriminate]. destruct (is_mesh o0); congruence. Qed.

Lemma wf_nth (w : world) i o : wf w -> nth_error (wobjs w) i = Some o -> wf_obj (wmem w) o.
Proof. intros H E. unfold wf in H. rewrite Forall_forall in H. apply H. eapply nth_error_In; eauto. Qed.

Lemma wf_push (w : world) m' o :
  wf w -> (mnext (wmem w) <= mnext m')%positive -> wf_obj m' o -> wf (push w m' o).
Proof.
  intros H Hle Ho. unfold wf, push. simpl. apply Forall_app. split; [|constructor; auto].
  eapply Forall_impl; [|exact H]. intros a. now apply wf_obj_mono.
Qed.

Lemma wf_retarget (w : world) i so m' cs' :
  wf w -> (mnext (wmem w) <= mnext m')%positive -> NoDup cs' -> Forall (allocated m') cs' ->
  wf (retarget w i so (m', cs')).
Proof.
  intros H Hle Hnd Hal. unfold wf, retarget. simpl. apply Forall_upd.
  - eapply Forall_impl; [|exact H]. intros a. now apply wf_obj_mono.
  - split; auto.
Qed.

(* ---------------------------------------------------------------- producers *)
Lemma build_ext_spec objs pat : forall m m' cs,
  (forall o, In o objs -> Forall (allocated m) (ocells o)) ->
  build_ext objs m pat = Some (m', cs) ->
  frame O m m' /\ Forall (allocated m') cs.
Proof.
  induction pat as [|[v|o s] t IH]; intros m m' cs Hobjs E; cbn [build_ext] in E.
  - inversion E; subst. split; [apply frame_refl | constructor].
  - destruct (alloc1 m v) as [m1 c] eqn:E1. destruct (build_ext objs m1 t) as [[m2 r]|] eqn:E2; [|discriminate].
    inversion E; subst; clear E. apply (alloc1_spec O) in E1 as (Hc & Hn & _ & Hf1).
    apply IH in E2 as [Hf2 Hal].
    + split; [eapply frame_trans; eauto|]. constructor; auto. destruct Hf2 as [Hle _]. unfold allocated. lia.
    + intros o Ho. eapply Forall_allocated_mono; eauto.
  - destruct (nth_error objs o) as [ob|] eqn:Eo; [|discriminate].
    destruct (nth_error (ocells ob) s) as [c|] eqn:Es; [|discriminate].
    destruct (build_ext objs m t) as [[m2 r]|] eqn:E2; [|discriminate].
    inversion E; subst; clear E. apply IH in E2 as [Hf2 Hal]; auto. split; auto. constructor; auto.
    eapply allocated_mono; eauto. apply nth_error_In in Eo, Es. specialize (Hobjs _ Eo).
    rewrite Forall_forall in Hobjs. auto.
Qed.

Lemma NoDup_app_ranges (a b : list cell) (k : positive) :
  NoDup a -> NoDup b -> Forall (fun c => (c < k)%positive) a -> Forall (fun c => (k <= c)%positive) b -> NoDup (a ++ b).
Proof.
  intros Ha Hb Ra Rb. induction a as [|x t IH]; simpl; auto.
  inversion Ha; subst. inversion Ra; subst. constructor; auto.
  intros Hin. apply in_app_or in Hin as [Hin|Hin]; [contradiction|].
  rewrite Forall_forall in Rb. specialize (Rb _ Hin). lia.
Qed.

Lemma fresh_block_app (m m1 m2 : mem) a b :
  fresh_block m m1 a -> fresh_block m1 m2 b -> (mnext m <= mnext m1)%positive -> (mnext m1 <= mnext m2)%positive ->
  fresh_block m m2 (a ++ b).
Proof.
  intros [A1 A2] [B1 B2] H1 H2. split.
  - apply NoDup_app_ranges with (k := mnext m1); auto.
    + eapply Forall_impl; [|exact A2]. simpl. intros; lia.
    + eapply Forall_impl; [|exact B2]. simpl. intros; lia.
  - apply Forall_app. split; eapply Forall_impl; try eassumption; simpl; intros; lia.
Qed.

(* a generator all of whose appends are new vectors yields one fresh block *)
Lemma build_pat_fresh pat : forall m acc vs m' r,
  Forall (fun s => s = SFresh) pat ->
  build_pat m acc pat vs = Some (m', r) ->
  exists cs, r = acc ++ cs /\ fresh_block m m' cs /\ frame O m m' /\ map (rd (mheap m')) cs = vs.
Proof.
  induction pat as [|s p IH]; intros m acc vs m' r Hp E; cbn [build_pat] in E.
  - destruct vs; [|discriminate]. inversion E; subst. exists []. rewrite app_nil_r.
    repeat split; try constructor; try lia; auto.
  - inversion Hp as [|? ? Hs Hp']; subst. destruct vs as [|v t]; [discriminate|].
    destruct (alloc1 m v) as [m1 c] eqn:E1. apply (alloc1_spec O) in E1 as (Hc & Hn & Hv & Hf1).
    apply IH in E as (cs & -> & Hfb & Hf2 & Hmap); auto.
    exists (c :: cs). rewrite <- app_assoc. simpl. split; auto.
    assert (Hle : (mnext m1 <= mnext m')%positive) by apply Hf2.
    split; [|split].
    + change (c :: cs) with ([c] ++ cs). apply fresh_block_app with (m1 := m1); auto; try lia.
      split; [repeat constructor; auto | repeat constructor; lia].
    + eapply frame_trans; eauto.
    + simpl. f_equal; auto. destruct Hf2 as [_ Hf2]. rewrite Hf2; auto. unfold allocated. lia.
Qed.

Lemma ring_cells_spec m N nc open vs m' cs :
  ring_cells O m N nc open vs = Some (m', cs) ->
  NoDup cs /\ Forall (allocated m') cs /\ frame O m m' /\ (forall c, In c cs -> ~ allocated m c)
  /\ map (rd (mheap m')) cs = vs.
Proof.
  unfold ring_cells. destruct (build_pat m [] (ring_pattern N nc open) vs) as [[m1 cs1]|] eqn:E; [|discriminate].
  apply build_pat_fresh in E as (cs0 & -> & Hfb & Hf & Hmap); [|apply ring_all_fresh].
  change ring_apex_rebound with true. cbn [app].
  (* cells before prepare(): pairwise distinct, allocated after m *)
  assert (Hpre : exists m2 cs2,
            (match cs0 with c0 :: t => let '(m', c') := alloc1 m1 (nth 0 vs (vzero O)) in (m', c' :: t) | [] => (m1, cs0) end)
            = (m2, cs2)
            /\ NoDup cs2 /\ Forall (allocated m2) cs2 /\ frame O m m2 /\ (forall c, In c cs2 -> ~ allocated m c)
            /\ map (rd (mheap m2)) cs2 = vs).
  { destruct cs0 as [|c0 t].
    - exists m1, []. split; [reflexivity|]. split; [constructor|]. split; [constructor|]. split; [exact Hf|].
      split; [intros c []|]. exact Hmap.
    - destruct (alloc1 m1 (nth 0 vs (vzero O))) as [m2 c'] eqn:E1. exists m2, (c' :: t). split; [reflexivity|].
      apply (alloc1_spec O) in E1 as (Hc & Hn & Hv & Hf1). subst c'.
      destruct Hfb as [Hnd Hr]. inversion Hnd as [|? ? Hn0 Hnt]; subst. inversion Hr as [|? ? Hr0 Hrt]; subst.
      assert (Hle : (mnext m <= mnext m1)%positive) by apply Hf.
      assert (Hle2 : (mnext m1 <= mnext m2)%positive) by apply Hf1.
      split; [|split; [|split; [|split]]].
      + constructor; auto. intros Hin. rewrite Forall_forall in Hrt. specialize (Hrt _ Hin). lia.
      + constructor; [unfold allocated; lia|]. eapply Forall_impl; [|exact Hrt]. unfold allocated. simpl. intros; lia.
      + eapply frame_trans; eauto.
      + intros c [<-|Hin]; unfold allocated; [lia|]. rewrite Forall_forall in Hrt. specialize (Hrt _ Hin). lia.
      + cbn [map]. cbn [map nth] in Hv. f_equal; [exact Hv|].
        apply map_ext_in. intros x Hx. destruct Hf1 as [_ Hf1]. apply Hf1.
        rewrite Forall_forall in Hrt. specialize (Hrt _ Hx). unfold allocated. lia. }
  destruct Hpre as (m2 & cs2 & -> & Hnd2 & Hal2 & Hf2 & Hfresh2 & Hmap2).
  intros E. assert (Et : take O prepare_vertex_mode m2 cs2 = (m', cs)) by congruence. clear E.
  pose proof Et as Et'. apply take_spec in Et as (A & B & C & D); auto.
  split; [exact A|]. split; [exact B|]. split; [eapply frame_trans; eauto|]. split; [|now rewrite D].
  intros c Hc Hal. rewrite prepare_copies in Et'.
  apply take_copy_fresh in Et' as (Hfb' & _ & _). apply (fresh_block_not_allocated _ _ _ _ Hfb' Hc).
  eapply allocated_mono; eauto.
Qed.

(* merge takes every input over into one fresh block, input by input - also when an input occurs twice *)
Lemma merge_cells_spec ins : forall m m' cs,
  (forall o, In o ins -> Forall (allocated m) (ocells o)) ->
  merge_cells O m ins = (m', cs) ->
  fresh_block m m' cs /\ frame O m m' /\ map (rd (mheap m')) cs = flat_map (coords O (mheap m)) ins.
Proof.
  induction ins as [|o t IH]; intros m m' cs Hal E; cbn [merge_cells] in E.
  - inversion E; subst. repeat split; try constructor; try lia; auto.
  - rewrite merge_copies in E.
    destruct (take O Copy m (ocells o)) as [m1 c1] eqn:E1. destruct (merge_cells O m1 t) as [m2 r] eqn:E2.
    inversion E; subst; clear E.
    apply take_copy_fresh in E1 as (Hfb1 & Hf1 & Hmap1).
    apply IH in E2 as (Hfb2 & Hf2 & Hmap2).
    + split; [|split].
      * apply fresh_block_app with (m1 := m1); auto; [apply Hf1 | apply Hf2].
      * eapply frame_trans; eauto.
      * simpl. rewrite map_app. f_equal.
        -- unfold coords. rewrite <- Hmap1. apply map_ext_in. intros x Hx. destruct Hf2 as [_ Hf2]. apply Hf2.
           eapply Forall_forall; [apply (fresh_block_allocated _ _ _ Hfb1)|exact Hx].
        -- rewrite Hmap2. rewrite !flat_map_concat_map. f_equal. apply map_ext_in. intros a Ha.
           unfold coords. apply map_ext_in. intros x Hx. destruct Hf1 as [_ Hf1]. apply Hf1.
           assert (In a (o :: t)) by now right. specialize (Hal _ H). rewrite Forall_forall in Hal. auto.
    + intros a Ha. eapply Forall_allocated_mono; [exact Hf1|]. apply Hal. now right.
Qed.

Lemma get_meshes_In (w : world) ms ins o : get_meshes w ms = Some ins -> In o ins -> In o (wobjs w).
Proof.
  revert ins. induction ms as [|i t IH]; intros ins E Ho; simpl in E.
  - inversion E; subst. destruct Ho.
  - destruct (get_mesh w i) as [a|] eqn:Ea; [|discriminate]. destruct (get_meshes w t) as [r|]; [|discriminate].
    inversion E; subst. destruct Ho as [<-|Ho]; [|eapply IH; eauto].
    apply get_mesh_nth in Ea. eapply nth_error_In; eauto.
Qed.
End World.
