(* C06 - normalisation puts the bounding box where documented: over any ORDERED field. *)
From Coq Require Import ZArith List Bool PArith FMapPositive Lia Ring Field.
Import ListNotations.
Require Import MV.Lib.Base MV.C06.Base MV.C06.Gen MV.C06.Model MV.C06.Proofs_Heap MV.C06.Proofs_World
               MV.C06.Proofs_Step MV.C06.Proofs_Merge MV.C06.Proofs_Alg.

Section Norm.
Context {T : Type} (O : ops T).
Notation vec := (vec T).
Notation world := (world (T:=T)).
Notation wf := (wf (T:=T)).
Notation "0" := (z0 O).
Notation "1" := (o1 O).
Infix "+" := (add O).
Infix "-" := (sub O).
Infix "*" := (mul O).
Infix "/" := (div O).
Notation "- x" := (opp O x) (at level 35, right associativity).
Notation "a <=? b" := (leb O a b).

Hypothesis Fth : field_theory 0 1 (add O) (mul O) (sub O) (opp O) (div O) (fun x => 1 / x) (@eq T).
Add Field Ff2 : Fth.
Hypothesis Htot : forall a b, (a <=? b) = true \/ (b <=? a) = true.
Hypothesis Htrans : forall a b c, (a <=? b) = true -> (b <=? c) = true -> (a <=? c) = true.
Hypothesis Hanti : forall a b, (a <=? b) = true -> (b <=? a) = true -> a = b.
Hypothesis Hadd : forall a b c, (a <=? b) = true -> (a + c <=? b + c) = true.
Hypothesis Hmul : forall a b c, (0 <=? c) = true -> (a <=? b) = true -> (c * a <=? c * b) = true.

Lemma le_refl a : (a <=? a) = true.
Proof. destruct (Htot a a); auto. Qed.

Lemma le_0_1 : (0 <=? 1) = true.
Proof.
  destruct (Htot 0 1) as [H|H]; auto.
  set (m1 := opp O 1).
  pose proof (Hadd _ _ m1 H) as H1.
  replace (1 + m1) with 0 in H1 by (unfold m1; ring). replace (0 + m1) with m1 in H1 by ring.
  pose proof (Hmul _ _ _ H1 H1) as H2.
  replace (m1 * 0) with 0 in H2 by ring. replace (m1 * m1) with 1 in H2 by (unfold m1; ring). exact H2.
Qed.

Lemma le_0_2 : (0 <=? 1 + 1) = true.
Proof.
  pose proof (Hadd _ _ 1 le_0_1) as H. replace (0 + 1) with 1 in H by ring.
  exact (Htrans _ _ _ le_0_1 H).
Qed.

Lemma one_neq_0 : 1 <> 0.
Proof. exact (F_1_neq_0 Fth). Qed.

Lemma two_neq_0 : 1 + 1 <> 0.
Proof.
  intros E. pose proof (Hadd _ _ 1 le_0_1) as H. replace (0 + 1) with 1 in H by ring. rewrite E in H.
  apply one_neq_0. apply Hanti; auto using le_0_1.
Qed.

Lemma pos_facts M : (M <=? 0) = false -> M <> 0 /\ (0 <=? M) = true /\ (0 <=? 1 / M) = true.
Proof.
  intros H. assert (Hne : M <> 0) by (intros ->; rewrite le_refl in H; discriminate).
  assert (Hpos : (0 <=? M) = true) by (destruct (Htot 0 M) as [A|A]; [auto | rewrite A in H; discriminate]).
  split; [exact Hne|split; [exact Hpos|]].
  destruct (Htot 0 (1 / M)) as [A|A]; auto.
  pose proof (Hmul _ _ _ Hpos A) as B. replace (M * (1 / M)) with 1 in B by (field; auto).
  replace (M * 0) with 0 in B by ring.
  exfalso. apply one_neq_0. apply Hanti; auto using le_0_1.
Qed.

Definition mono (g : T -> T) : Prop := forall a b, (a <=? b) = true -> (g a <=? g b) = true.

Lemma tmin_mono g a b : mono g -> tmin O (g a) (g b) = g (tmin O a b).
Proof.
  intros Hg. unfold tmin. destruct (a <=? b) eqn:E.
  - now rewrite (Hg _ _ E).
  - assert (E' : (b <=? a) = true) by (destruct (Htot a b) as [A|A]; [congruence | auto]).
    destruct (g a <=? g b) eqn:E2; auto; apply Hanti; auto.
Qed.

Lemma tmax_mono g a b : mono g -> tmax O (g a) (g b) = g (tmax O a b).
Proof.
  intros Hg. unfold tmax. destruct (a <=? b) eqn:E.
  - now rewrite (Hg _ _ E).
  - assert (E' : (b <=? a) = true) by (destruct (Htot a b) as [A|A]; [congruence | auto]).
    destruct (g a <=? g b) eqn:E2; auto; apply Hanti; auto.
Qed.

Lemma affine_mono f t : (0 <=? f) = true -> mono (fun x => f * (x + t)).
Proof. intros Hf a b H. apply Hmul; auto. Qed.

Lemma scaling_mono f : (0 <=? f) = true -> mono (fun x => f * x).
Proof. intros Hf a b H. apply Hmul; auto. Qed.

(* coordinate-wise monotone maps commute with the bounding box *)
Definition cmap (g1 g2 g3 : T -> T) (v : vec) : vec := (g1 (vx v), g2 (vy v), g3 (vz v)).

Lemma vminc_cmap g1 g2 g3 a b : mono g1 -> mono g2 -> mono g3 ->
  vminc O (cmap g1 g2 g3 a) (cmap g1 g2 g3 b) = cmap g1 g2 g3 (vminc O a b).
Proof.
  intros H1 H2 H3. unfold vminc, cmap; cbn [vx vy vz fst snd]. now rewrite !tmin_mono.
Qed.
Lemma vmaxc_cmap g1 g2 g3 a b : mono g1 -> mono g2 -> mono g3 ->
  vmaxc O (cmap g1 g2 g3 a) (cmap g1 g2 g3 b) = cmap g1 g2 g3 (vmaxc O a b).
Proof.
  intros H1 H2 H3. unfold vmaxc, cmap; cbn [vx vy vz fst snd]. now rewrite !tmax_mono.
Qed.

Lemma bbox_cmap g1 g2 g3 vs : mono g1 -> mono g2 -> mono g3 ->
  bbox O (map (cmap g1 g2 g3) vs)
  = match bbox O vs with Some (lo, hi) => Some (cmap g1 g2 g3 lo, cmap g1 g2 g3 hi) | None => None end.
Proof.
  intros H1 H2 H3. destruct vs as [|v t]; [reflexivity|]. cbn [map bbox]. f_equal. f_equal.
  - revert v. induction t as [|a t IH]; intros v; cbn [map fold_left]; auto. rewrite vminc_cmap; auto.
  - revert v. induction t as [|a t IH]; intros v; cbn [map fold_left]; auto. rewrite vmaxc_cmap; auto.
Qed.

Lemma vmax3_scaling f s : (0 <=? f) = true -> vmax3 O (smul O f s) = f * vmax3 O s.
Proof.
  intros Hf. unfold vmax3, smul; cbn [vx vy vz fst snd].
  rewrite !(tmax_mono (fun x => f * x)); auto using scaling_mono.
Qed.

Lemma cst2 : cst O 2 = 1 + 1.
Proof. cbv [cst Pos.iter]. ring. Qed.

(* the composed map of normalize is affine with a non-negative factor in every coordinate *)
Lemma normalize_map_is_cmap f t p :
  scale_pt O f (vzero O) (translate_pt O t p)
  = cmap (fun x => f * (x + vx t)) (fun x => f * (x + vy t)) (fun x => f * (x + vz t)) p.
Proof.
  destruct t as [[? ?] ?], p as [[? ?] ?].
  unfold scale_pt, translate_pt, cmap, vadd, vsub, smul, vzero, vx, vy, vz; cbn [fst snd].
  apply triple_eq; ring.
Qed.

Section Box.
Variables (vs : list vec) (lo hi : vec).
Hypothesis Hbox : bbox O vs = Some (lo, hi).
Let M := vmax3 O (aabb_span O lo hi).
Hypothesis Hpos : (M <=? 0) = false.                    (* the largest extent is positive *)

Lemma normalize_maps_defined c : exists t f, normalize_maps O c vs = Some (t, f).
Proof.
  unfold normalize_maps. rewrite Hbox. fold M. rewrite Hpos. destruct c; eauto.
Qed.

(* centre_at_zero = True: box centred at the origin, largest extent 2 *)
Theorem normalize_box_centred t f :
  normalize_maps O true vs = Some (t, f) ->
  exists lo' hi', bbox O (map (fun p => scale_pt O f (vzero O) (translate_pt O t p)) vs) = Some (lo', hi')
    /\ aabb_center O lo' hi' = vzero O /\ vmax3 O (aabb_span O lo' hi') = 1 + 1.
Proof.
  unfold normalize_maps. rewrite Hbox. fold M. rewrite Hpos. intros E. inversion E; subst; clear E.
  destruct (pos_facts M Hpos) as (Hne & HposM & Hinv).
  set (f := normalize_centre_factor O lo hi (aabb_center O lo hi) (aabb_span O lo hi)
              (normalize_sc O lo hi (aabb_center O lo hi) (aabb_span O lo hi))).
  set (t := normalize_centre_tr O lo hi (aabb_center O lo hi) (aabb_span O lo hi)
              (normalize_sc O lo hi (aabb_center O lo hi) (aabb_span O lo hi))).
  assert (Ef : f = (1 + 1) * (1 / M)).
  { unfold f, normalize_centre_factor, normalize_sc. fold M. now rewrite cst2. }
  assert (Hf : (0 <=? f) = true).
  { rewrite Ef. pose proof (Hmul _ _ _ le_0_2 Hinv) as H. now replace ((1 + 1) * 0) with 0 in H by ring. }
  rewrite (map_ext _ _ (normalize_map_is_cmap f t)).
  rewrite bbox_cmap, Hbox by (apply affine_mono; exact Hf).
  eexists _, _. split; [reflexivity|]. split.
  - (* centre *)
    unfold t, normalize_centre_tr, aabb_center, cmap. rewrite cst2.
    destruct lo as [[? ?] ?], hi as [[? ?] ?].
    unfold vdivs, vadd, vopp, vzero, vx, vy, vz; cbn [fst snd].
    apply triple_eq; field; exact two_neq_0.
  - (* extent *)
    replace (aabb_span O (cmap (fun x => f * (x + vx t)) (fun x => f * (x + vy t)) (fun x => f * (x + vz t)) lo)
                         (cmap (fun x => f * (x + vx t)) (fun x => f * (x + vy t)) (fun x => f * (x + vz t)) hi))
      with (smul O f (aabb_span O lo hi)).
    + rewrite vmax3_scaling by exact Hf. fold M. rewrite Ef. field. exact Hne.
    + destruct lo as [[? ?] ?], hi as [[? ?] ?], t as [[? ?] ?].
      unfold aabb_span, cmap, smul, vsub, vx, vy, vz; cbn [fst snd]. apply triple_eq; ring.
Qed.

(* centre_at_zero = False: box anchored at the origin, largest extent 1 *)
Theorem normalize_box_corner t f :
  normalize_maps O false vs = Some (t, f) ->
  exists lo' hi', bbox O (map (fun p => scale_pt O f (vzero O) (translate_pt O t p)) vs) = Some (lo', hi')
    /\ lo' = vzero O /\ vmax3 O (aabb_span O lo' hi') = 1.
Proof.
  unfold normalize_maps. rewrite Hbox. fold M. rewrite Hpos. intros E. inversion E; subst; clear E.
  destruct (pos_facts M Hpos) as (Hne & HposM & Hinv).
  set (f := normalize_corner_factor O lo hi (aabb_center O lo hi) (aabb_span O lo hi)
              (normalize_sc O lo hi (aabb_center O lo hi) (aabb_span O lo hi))).
  set (t := normalize_corner_tr O lo hi (aabb_center O lo hi) (aabb_span O lo hi)
              (normalize_sc O lo hi (aabb_center O lo hi) (aabb_span O lo hi))).
  assert (Ef : f = 1 / M) by (unfold f, normalize_corner_factor, normalize_sc; now fold M).
  assert (Hf : (0 <=? f) = true) by now rewrite Ef.
  rewrite (map_ext _ _ (normalize_map_is_cmap f t)).
  rewrite bbox_cmap, Hbox by (apply affine_mono; exact Hf).
  eexists _, _. split; [reflexivity|]. split.
  - unfold t, normalize_corner_tr, cmap. destruct lo as [[? ?] ?].
    unfold vopp, vzero, vx, vy, vz; cbn [fst snd]. apply triple_eq; ring.
  - replace (aabb_span O (cmap (fun x => f * (x + vx t)) (fun x => f * (x + vy t)) (fun x => f * (x + vz t)) lo)
                         (cmap (fun x => f * (x + vx t)) (fun x => f * (x + vy t)) (fun x => f * (x + vz t)) hi))
      with (smul O f (aabb_span O lo hi)).
    + rewrite vmax3_scaling by exact Hf. fold M. rewrite Ef. field. exact Hne.
    + destruct lo as [[? ?] ?], hi as [[? ?] ?], t as [[? ?] ?].
      unfold aabb_span, cmap, smul, vsub, vx, vy, vz; cbn [fst snd]. apply triple_eq; ring.
Qed.
End Box.

(* ---- world level: a successful normalize step (non-empty mesh, positive extent) leaves the box as documented *)
Lemma normalize_step_inv (w w' : world) i c :
  step O w (ONormalize i c) = Some w' ->
  exists so lo hi t f, get_mesh w i = Some so /\ bbox O (obj_coords O w i) = Some (lo, hi)
     /\ (vmax3 O (aabb_span O lo hi) <=? 0) = false /\ normalize_maps O c (obj_coords O w i) = Some (t, f)
     /\ tmap O w (ONormalize i c) = Some (i, fun p => scale_pt O f (vzero O) (translate_pt O t p)).
Proof.
  intros Hs. cbn [step] in Hs. destruct (get_mesh w i) as [so|] eqn:Em; [|discriminate].
  unfold do_normalize in Hs.
  assert (Ec : obj_coords O w i = map (rd O (mheap (wmem w))) (ocells so)).
  { unfold obj_coords, obj_cells. now rewrite (get_mesh_nth _ _ _ Em). }
  destruct (normalize_maps O c (map (rd O (mheap (wmem w))) (ocells so))) as [[t f]|] eqn:En; [|discriminate].
  pose proof En as En'. unfold normalize_maps in En'.
  destruct (bbox O (map (rd O (mheap (wmem w))) (ocells so))) as [[lo hi]|] eqn:Eb; [|discriminate].
  destruct (vmax3 O (aabb_span O lo hi) <=? 0) eqn:Ep; [discriminate|].
  exists so, lo, hi, t, f. rewrite Ec. repeat split; auto.
  cbn [tmap]. rewrite Em. unfold coords. now rewrite En.
Qed.

Theorem normalize_centres_the_box (w w' : world) i :
  wf w -> step O w (ONormalize i true) = Some w' ->
  exists lo' hi', bbox O (obj_coords O w' i) = Some (lo', hi')
    /\ aabb_center O lo' hi' = vzero O /\ vmax3 O (aabb_span O lo' hi') = 1 + 1.
Proof.
  intros Hwf Hs. destruct (normalize_step_inv _ _ _ _ Hs) as (so & lo & hi & t & f & Em & Hb & Hp & Hn & Ht).
  destruct (transform_once O _ _ _ _ _ Hwf Ht Hs) as (A & _). rewrite A.
  eapply normalize_box_centred; eauto.
Qed.

Theorem normalize_anchors_the_box (w w' : world) i :
  wf w -> step O w (ONormalize i false) = Some w' ->
  exists lo' hi', bbox O (obj_coords O w' i) = Some (lo', hi')
    /\ lo' = vzero O /\ vmax3 O (aabb_span O lo' hi') = 1.
Proof.
  intros Hwf Hs. destruct (normalize_step_inv _ _ _ _ Hs) as (so & lo & hi & t & f & Em & Hb & Hp & Hn & Ht).
  destruct (transform_once O _ _ _ _ _ Hwf Ht Hs) as (A & _). rewrite A.
  eapply normalize_box_corner; eauto.
Qed.

(* fit_into_unit_cube is normalize(center_at_zero=False) (call plumbing regenerated from the source) *)
Lemma fit_is_normalize (w : world) i : step O w (OFit i) = step O w (ONormalize i false).
Proof. cbn [step]. change fit_centre_flag with false. reflexivity. Qed.

Theorem fit_anchors_the_box (w w' : world) i :
  wf w -> step O w (OFit i) = Some w' ->
  exists lo' hi', bbox O (obj_coords O w' i) = Some (lo', hi')
    /\ lo' = vzero O /\ vmax3 O (aabb_span O lo' hi') = 1.
Proof. rewrite fit_is_normalize. apply normalize_anchors_the_box. Qed.

(* definedness: the hypotheses "at least one vertex, positive largest extent" are all a normalize step needs *)
Theorem normalize_defined (w : world) i so lo hi c :
  get_mesh w i = Some so -> bbox O (coords O (mheap (wmem w)) so) = Some (lo, hi) ->
  (vmax3 O (aabb_span O lo hi) <=? 0) = false -> exists w', step O w (ONormalize i c) = Some w'.
Proof.
  intros Em Hb Hp. cbn [step]. rewrite Em. unfold do_normalize.
  destruct (normalize_maps_defined _ _ _ Hb Hp c) as (t & f & E). unfold coords in E. rewrite E.
  destruct (do_translate O (wmem w) (ocells so) t) as [m1 cs1]. unfold do_scale.
  change scale_default with DZero. cbn [default_orig]. eauto.
Qed.
End Norm.
