(* C19 - the statements exported by Props.v, assembled from the lemma files, and the non-vacuity examples. *)
From Coq Require Import ZArith Reals List Bool Lia Lra.
Import ListNotations.
Require Import MV.Lib.Base MV.C19.Ops MV.C19.OpsR MV.C19.Gen MV.C19.Model.
Require Import MV.C19.Proofs_Index MV.C19.Proofs_Bezier MV.C19.Proofs_Samplers MV.C19.Proofs_Export.
Open Scope R_scope.

(* ------------------------------------------------------------------ probabilities handed to `choice` *)
Lemma polyline_probabilities V E lens : edge_lengths Rops V E = Ok lens -> 0 < tsum Rops lens ->
  let p := poly_probs Rops lens in
  length p = length E /\ Forall (fun x => 0 <= x) p /\ tsum Rops p = 1 /\
  forall k a b, nth_error E k = Some (a, b) ->
    exists A B, nth_res V a = Ok A /\ nth_res V b = Ok B /\ nth k p 0 * tsum Rops lens = dist3 Rops A B.
Proof.
  intros H Hs p. destruct (edge_lengths_spec V E lens H) as [Hl [Hnn Hk]].
  destruct (probs_spec (poly_prob Rops) lens poly_prob_eq Hnn Hs) as [P1 [P2 [P3 P4]]].
  unfold p, poly_probs. split; [lia|]. split; [exact P1|]. split; [exact P2|].
  intros k a b Hab. destruct (Hk k a b Hab) as [A [B [HA [HB Hd]]]]. exists A, B. split; [exact HA|]. split; [exact HB|].
  rewrite P4 by (apply nth_error_Some; congruence). now apply nth_error_nth.
Qed.

Lemma surface_probabilities V F areas : face_areas Rops V F = Ok areas -> 0 < tsum Rops areas ->
  let p := surf_probs Rops areas in
  length p = length F /\ Forall (fun x => 0 <= x) p /\ tsum Rops p = 1 /\
  forall k f, nth_error F k = Some f ->
    exists A B C, tri_pts V f = Ok (A, B, C) /\ nth k p 0 * tsum Rops areas = tri_area Rops A B C.
Proof.
  intros H Hs p. destruct (face_areas_spec V F areas H) as [Hl [Hnn Hk]].
  destruct (probs_spec (surf_prob Rops) areas surf_prob_eq Hnn Hs) as [P1 [P2 [P3 P4]]].
  unfold p, surf_probs. split; [lia|]. split; [exact P1|]. split; [exact P2|].
  intros k f Hf. destruct (Hk k f Hf) as [A [B [C [HA Hd]]]]. exists A, B, C. split; [exact HA|].
  rewrite P4 by (apply nth_error_Some; congruence). now apply nth_error_nth.
Qed.

(* ------------------------------------------------------------------ counts *)
Lemma box_uniform_count pc p1 p2 n us pts :
  sample_box Rops MUniform pc p1 p2 n us = Ok pts -> length pts = length us.
Proof.
  unfold sample_box. destruct (box_is_empty Rops p1 p2); [discriminate|].
  destruct (box_pc_dim_guard (Z.of_nat (length p1)) && pc); [discriminate|].
  intros H; inversion H. apply map_length.
Qed.

Lemma box_grid_count pc p1 p2 n us pts : (0 <= n)%Z -> (1 <= length p1)%nat ->
  sample_box Rops MGrid pc p1 p2 n us = Ok pts ->
  Z.of_nat (length pts) = (grid_res n (Z.of_nat (length p1)) ^ Z.of_nat (length p1))%Z.
Proof.
  intros Hn Hd H. unfold sample_box in H. destruct (box_is_empty Rops p1 p2); [discriminate|].
  destruct (box_pc_dim_guard (Z.of_nat (length p1)) && pc); [discriminate|].
  inversion H. rewrite map_length, tuples_length. unfold linspace. rewrite map_length, zrange_length.
  rewrite Nat2Z.inj_pow. f_equal. apply Z2Nat.id.
  unfold grid_res. apply (iroot_round_spec n (Z.of_nat (length p1))); lia.
Qed.

Lemma polyline_count V E n chosen ts pts : (0 <= n)%Z -> length chosen = Z.to_nat n -> length ts = Z.to_nat n ->
  sample_polyline Rops V E n chosen ts = Ok pts -> length pts = Z.to_nat n.
Proof.
  intros Hn Hc Ht H. unfold sample_polyline in H. apply res_seq_map2_ok in H as [Hl _].
  rewrite Hl, (poly_edges_used_length _ n chosen Hn Hc), Ht. lia.
Qed.

Lemma surface_count V F chosen us pts n : length chosen = n -> length us = n ->
  sample_surface Rops V F chosen us = Ok pts -> length pts = n.
Proof. intros Hc Hu H. unfold sample_surface in H. apply res_seq_map2_ok in H as [Hl _]. lia. Qed.

(* ------------------------------------------------------------------ Bernstein, stated with binomial coefficients *)
Definition bernstein_poly (P : list R) (t : R) : R :=
  let n := (length P - 1)%nat in rsum (S n) (fun i => C n i * t ^ i * (1 - t) ^ (n - i) * nth i P 0).

Lemma de_casteljau_is_bernstein P t : P <> [] -> 0 <= t <= 1 -> de_casteljau Rops P t = Ok (bernstein_poly P t).
Proof. intros HP Ht. rewrite de_casteljau_bernstein by assumption. f_equal. apply bernstein_closed. Qed.

Lemma bernstein_poly_eq P t : bernstein_poly P t = bernstein P t.
Proof. symmetry. apply bernstein_closed. Qed.

Lemma curve_is_bernstein P t : P <> [] -> 0 <= t <= 1 ->
  curve_eval Rops P t = Ok (map (fun k => bernstein_poly (column Rops k P) t) (seq 0 (point_dim P))).
Proof.
  intros HP Ht. unfold curve_eval. rewrite de_casteljau_vec_bernstein by assumption. f_equal.
  unfold bernstein_vec. apply map_ext. intros k. symmetry. apply bernstein_poly_eq.
Qed.

Lemma bezier_endpoints P : P <> [] ->
  de_casteljau Rops P 0 = Ok (nth 0 P 0) /\ de_casteljau Rops P 1 = Ok (nth (length P - 1) P 0).
Proof.
  intros HP. split.
  - rewrite de_casteljau_bernstein by (auto; lra). f_equal. apply bernstein_first.
  - rewrite de_casteljau_bernstein by (auto; lra). f_equal. apply bernstein_last.
Qed.

Lemma bezier_convex_hull P t : P <> [] -> 0 <= t <= 1 ->
  exists w : nat -> R, (forall i, 0 <= w i) /\ rsum (length P) w = 1 /\
    de_casteljau Rops P t = Ok (rsum (length P) (fun i => w i * nth i P 0)).
Proof.
  intros HP Ht. destruct (bernstein_convex P t Ht) as [Hw [Hs He]]. cbv zeta in *.
  assert (Hlen : length P = S (length P - 1)) by (destruct P; [congruence | simpl; lia]).
  rewrite de_casteljau_bernstein by assumption. rewrite He.
  remember (length P - 1)%nat as n eqn:En. clear En. rewrite Hlen.
  exists (bw t n). split; [exact Hw|]. split; [exact Hs | reflexivity].
Qed.

(* patch: tensor-product Bernstein form of every coordinate, and the four corners *)
Lemma patch_is_tensor_bernstein rows u v d : rows <> [] -> Forall (fun r => r <> []) rows ->
  Forall (fun r => point_dim r = d) rows -> 0 <= u <= 1 -> 0 <= v <= 1 ->
  exists x, patch_eval Rops rows u v = Ok x /\ length x = d /\
    forall k, (k < d)%nat ->
      nth k x 0 = bernstein_poly (map (fun row => bernstein_poly (column Rops k row) u) rows) v.
Proof.
  intros Hr Hne Hd Hu Hv. exists (patch_bernstein rows u v). split; [now apply patch_eval_bernstein|]. split.
  - unfold patch_bernstein. rewrite bernstein_vec_length. destruct rows as [|r rows]; [congruence|].
    cbn [map point_dim]. rewrite bernstein_vec_length. rewrite Forall_forall in Hd. apply Hd. now left.
  - intros k Hk. rewrite (patch_bernstein_nth rows u v d k Hr Hd Hk). unfold patch_bernstein1.
    rewrite bernstein_poly_eq. f_equal. rewrite map_map. apply map_ext. intros row. now rewrite bernstein_poly_eq.
Qed.

Lemma patch_corners (rows : list (list R)) : rows <> [] ->
  let lastrow := nth (length rows - 1) rows [] in
  patch_bernstein1 rows 0 0 = nth 0 (nth 0 rows []) 0 /\
  patch_bernstein1 rows 1 0 = nth (length (nth 0 rows []) - 1) (nth 0 rows []) 0 /\
  patch_bernstein1 rows 0 1 = nth 0 lastrow 0 /\
  patch_bernstein1 rows 1 1 = nth (length lastrow - 1) lastrow 0.
Proof.
  intros Hr lastrow. split; [apply patch_corner_00|]. split; [apply patch_corner_10|].
  split; [now apply patch_corner_01 | now apply patch_corner_11].
Qed.

(* ------------------------------------------------------------------ non-vacuity examples *)
Example ex_sphere : dist3 Rops (1, 2, 3) (sphere_pt Rops (1 / 8) (1, 2, 3) (1, 2, 2)) = 1 / 8.
Proof. apply sphere_pt_dist; [intro E; inversion E; lra | lra]. Qed.

Example ex_ball_draw : ball_draw_ok (1 / 8) (1 / 2).
Proof. unfold ball_draw_ok, ball_u_lo, ball_u_hi. cbn. lra. Qed.

Example ex_ball : dist3 Rops (0, 0, 0) (ball_pt Rops (1 / 8) (0, 0, 0) (3, 0, 4) (1 / 2)) <= 1 / 8.
Proof. apply ball_pt_inside; [intro E; inversion E; lra | lra | apply ex_ball_draw]. Qed.

Example ex_box_nonempty : box_is_empty Rops [0; 1] [1; 3] = false.
Proof.
  unfold box_is_empty. cbn [map2 existsb]. unfold aabb_empty_coord, aabb_maxi, aabb_mini. cbn [oleb Rops].
  rewrite (proj2 (Rleb_false 1 0)) by lra. rewrite (proj2 (Rleb_false 3 1)) by lra. reflexivity.
Qed.

Example ex_box_uniform : exists pts, sample_box Rops MUniform false [0; 1] [1; 3] 1 [[1 / 2; 1 / 4]] = Ok pts.
Proof. unfold sample_box. rewrite ex_box_nonempty. eexists. reflexivity. Qed.

Example ex_box_grid : exists pts, sample_box Rops MGrid false [0; 1] [1; 3] 5 [] = Ok pts /\ length pts = 4%nat.
Proof. unfold sample_box. rewrite ex_box_nonempty. eexists. split; [reflexivity|]. vm_compute. reflexivity. Qed.

Example ex_grid_res : grid_res 10 2 = 3%Z /\ grid_res 4 3 = 2%Z /\ grid_res 27 3 = 3%Z /\ grid_res 0 4 = 0%Z.
Proof. repeat split; vm_compute; reflexivity. Qed.

Definition exV : list rv3 := [(0, 0, 0); (1, 0, 0); (1, 2, 0); (0, 0, 1)].
Example ex_polyline : exists pts, sample_polyline Rops exV [(0, 1); (1, 2)]%Z 1 [1%Z] [1 / 4] = Ok pts.
Proof. eexists. reflexivity. Qed.

Example ex_edge_lengths : exists lens, edge_lengths Rops exV [(0, 1); (1, 2)]%Z = Ok lens /\ 0 < tsum Rops lens.
Proof.
  eexists. split; [reflexivity|]. cbn.
  assert (0 <= sqrt ((1 - 0) * (1 - 0) + (0 - 0) * (0 - 0) + (0 - 0) * (0 - 0))) by apply sqrt_pos.
  assert (0 < sqrt ((1 - 1) * (1 - 1) + (2 - 0) * (2 - 0) + (0 - 0) * (0 - 0))) by (apply sqrt_lt_R0; lra).
  lra.
Qed.

Example ex_surface : exists pts, sample_surface Rops exV [(0, 1, 2); (0, 2, 3)]%Z [1%Z] [(1 / 4, 1 / 2)] = Ok pts.
Proof. eexists. reflexivity. Qed.

Example ex_surface_normals : exists ns, sample_surface_normals Rops exV [(0, 1, 2); (0, 2, 3)]%Z [1%Z] = Ok ns.
Proof. eexists. reflexivity. Qed.

Example ex_nondegenerate : cross3 Rops (sub3 Rops (1, 0, 0) (0, 0, 0)) (sub3 Rops (1, 2, 0) (0, 0, 0)) <> (0, 0, 0).
Proof. cbn. intro E. inversion E. lra. Qed.

Example ex_bernstein_value : bernstein_poly [0; 2; 0] (1 / 2) = 1.
Proof. unfold bernstein_poly, C. simpl. field. Qed.

Example ex_de_casteljau : de_casteljau Rops [0; 2; 0] (1 / 2) = Ok 1.
Proof. rewrite de_casteljau_is_bernstein by (try discriminate; lra). f_equal. apply ex_bernstein_value. Qed.

Example ex_surface_faces : surface_faces 2 3 = [[0; 1; 4; 3]; [1; 2; 5; 4]]%Z
                        /\ surface_faces 4 2 = [[0; 1; 3; 2]; [2; 3; 5; 4]; [4; 5; 7; 6]]%Z.
Proof. split; vm_compute; reflexivity. Qed.

Example ex_polyline_edges : polyline_edges 2 4 4 = [(0, 1); (1, 2); (2, 3)]%Z.
Proof. vm_compute. reflexivity. Qed.

Example ex_as_surface : exists r, as_surface Rops [[[0; 0; 0]; [0; 1; 0]]; [[1; 0; 0]; [1; 1; 2]]] 2 3 = Ok r.
Proof. eexists. apply as_surface_spec; [discriminate | repeat constructor; discriminate]. Qed.

Lemma export_polyline P n_pts custom : P <> [] -> (point_dim P = 2 \/ point_dim P = 3)%nat ->
  let ts := curve_params Rops n_pts custom in
  (Forall unit_closed ts ->
     as_polyline Rops P n_pts custom =
       Ok (map (fun t => padf (bernstein_vec P t)) ts, ts,
           polyline_edges n_pts (Z.of_nat (length ts)) (Z.of_nat (length ts)))) /\
  (custom = None -> Forall unit_closed ts) /\
  (forall t, In t ts -> ~ unit_closed t -> as_polyline Rops P n_pts custom = Err EOutOfRange).
Proof.
  intros HP Hd ts. split; [now apply as_polyline_spec|]. split.
  - intros E. unfold ts. rewrite E. apply linspace01_all_unit.
  - intros t Hin Ht. now apply (as_polyline_rejects P n_pts custom t).
Qed.

Lemma surface_weights (A B C : rv3) u1 u2 : 0 <= u1 < 1 -> 0 <= u2 < 1 ->
  (let '(wa, wb, wc) := bary_w u1 u2 in 0 <= wa /\ 0 <= wb /\ 0 <= wc /\ wa + wb + wc = 1) /\
  (let '(wa, wb, wc) := bary_w u1 u2 in
   let '(ax, ay, az) := A in let '(bx, by_, bz) := B in let '(cx, cy, cz) := C in
   surf_pt_of Rops A B C u1 u2 =
     (wa * ax + wb * bx + wc * cx, wa * ay + wb * by_ + wc * cy, wa * az + wb * bz + wc * cz)).
Proof. intros H1 H2. split; [now apply bary_w_ok | apply surf_pt_of_bary]. Qed.

Lemma face_normal_is_unit_normal (A B C : rv3) :
  cross3 Rops (sub3 Rops B A) (sub3 Rops C A) <> (0, 0, 0) ->
  (let n := tri_normal Rops A B C in
   dot3 Rops n n = 1 /\ dot3 Rops n (sub3 Rops B A) = 0 /\ dot3 Rops n (sub3 Rops C A) = 0) /\
  forall p, in_triangle A B C p -> dot3 Rops (tri_normal Rops A B C) (sub3 Rops p A) = 0.
Proof. intros H. split; [now apply tri_normal_spec | intros p Hp; now apply in_triangle_in_plane]. Qed.

Lemma bezier_rejects t : ~ (0 <= t <= 1) ->
  (forall P, de_casteljau Rops P t = Err EOutOfRange) /\
  (forall P, curve_eval Rops P t = Err EOutOfRange) /\
  (forall rows v, rows <> [] -> patch_eval Rops rows t v = Err EOutOfRange) /\
  (forall rows u, patch_eval Rops rows u t = Err EOutOfRange \/ exists e, patch_row Rops rows u = Err e).
Proof.
  intros H. split; [intros; now apply de_casteljau_rejects|]. split; [intros; now apply de_casteljau_vec_rejects|].
  split; [intros; now apply patch_eval_rejects_u | intros; now apply patch_eval_rejects_v].
Qed.

Lemma export_surface_counts n1 n2 : (1 <= n1)%Z -> (1 <= n2)%Z ->
  Z.of_nat (length (surface_vertex_params n1 n2)) = (n1 * n2)%Z /\
  Z.of_nat (length (surface_faces n1 n2)) = ((n1 - 1) * (n2 - 1))%Z /\
  (forall i j, (0 <= i < n1 - 1)%Z -> (0 <= j < n2 - 1)%Z ->
     nth_error (surface_faces n1 n2) (Z.to_nat (i * (n2 - 1) + j)) = Some (cell_corners n2 i j)).
Proof.
  intros H1 H2. split; [apply surface_vertex_count; lia|]. split; [now apply surface_face_count | apply surface_face_at].
Qed.
