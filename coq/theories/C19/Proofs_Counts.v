(* C19 - counts: "exactly the requested number of points" holds for EVERY instance of the numeric operations
   (so also for the binary64 instance the implementation runs on): discrete, closed under the global context. *)
From Coq Require Import ZArith List Bool Lia.
Import ListNotations.
Require Import MV.Lib.Base MV.C19.Ops MV.C19.Gen MV.C19.Model MV.C19.Proofs_Index.

Section Counts.
Context {T : Type} (o : ops T).

Lemma zip3_length_g {A} (a b c : list A) n : length a = n -> length b = n -> length c = n -> length (zip3 a b c) = n.
Proof.
  revert b c n. induction a as [|x a IH]; intros [|y b] [|z c] n Ha Hb Hc; simpl in *; subst; try reflexivity; try discriminate.
  f_equal. apply IH; lia.
Qed.

Lemma map2_length_g {A B C} (f : A -> B -> C) a b : length (map2 f a b) = Nat.min (length a) (length b).
Proof. revert b. induction a as [|x a IH]; intros [|y b]; simpl; try reflexivity. now rewrite IH. Qed.

Lemma res_seq_length_g {A} (l : list (res A)) s : res_seq l = Ok s -> length s = length l.
Proof.
  revert s. induction l as [|r l IH]; intros s H; simpl in H; [inversion H; reflexivity|].
  destruct r as [a|e]; [|discriminate]. destruct (res_seq l) as [s'|e] eqn:E; [|discriminate].
  inversion H; subst. simpl. f_equal. now apply IH.
Qed.

Lemma tuples_length_g (axis : list T) d : length (tuples axis d) = (length axis ^ d)%nat.
Proof.
  induction d as [|d IH]; [reflexivity|]. cbn [tuples Nat.pow].
  assert (E : forall l : list T, length (flat_map (fun x => map (cons x) (tuples axis d)) l) = (length l * length (tuples axis d))%nat).
  { induction l as [|a l IHl]; [reflexivity|]. cbn [flat_map]. rewrite app_length, map_length, IHl. simpl. lia. }
  rewrite E, IH. reflexivity.
Qed.

Lemma sphere_count radius c xs ys zs n :
  length xs = n -> length ys = n -> length zs = n -> length (sample_sphere o radius c xs ys zs) = n.
Proof.
  intros Hx Hy Hz. unfold sample_sphere. rewrite map_length.
  pose proof (zip3_length_g xs ys zs n Hx Hy Hz) as E. unfold v3 in *. exact E.
Qed.

Lemma ball_count radius c xs ys zs us n :
  length xs = n -> length ys = n -> length zs = n -> length us = n -> length (sample_ball o radius c xs ys zs us) = n.
Proof.
  intros Hx Hy Hz Hu. unfold sample_ball. rewrite map2_length_g.
  pose proof (zip3_length_g xs ys zs n Hx Hy Hz) as E. unfold v3 in *. lia.
Qed.

Lemma box_uniform_count_g pc p1 p2 n us pts :
  sample_box o MUniform pc p1 p2 n us = Ok pts -> length pts = length us.
Proof.
  unfold sample_box. destruct (box_is_empty o p1 p2); [discriminate|].
  destruct (box_pc_dim_guard (Z.of_nat (length p1)) && pc); [discriminate|].
  intros H; inversion H. apply map_length.
Qed.

(* grid mode: round(n^(1/d))^d points *)
Lemma box_grid_count_g pc p1 p2 n us pts : (0 <= n)%Z -> (1 <= length p1)%nat ->
  sample_box o MGrid pc p1 p2 n us = Ok pts ->
  Z.of_nat (length pts) = (grid_res n (Z.of_nat (length p1)) ^ Z.of_nat (length p1))%Z.
Proof.
  intros Hn Hd H. unfold sample_box in H. destruct (box_is_empty o p1 p2); [discriminate|].
  destruct (box_pc_dim_guard (Z.of_nat (length p1)) && pc); [discriminate|].
  inversion H. rewrite map_length, tuples_length_g. unfold linspace. rewrite map_length, zrange_length.
  rewrite Nat2Z.inj_pow. f_equal. apply Z2Nat.id.
  unfold grid_res. apply (iroot_round_spec n (Z.of_nat (length p1))); lia.
Qed.

Lemma polyline_count_g V E n chosen ts pts : (0 <= n)%Z -> length chosen = Z.to_nat n -> length ts = Z.to_nat n ->
  sample_polyline o V E n chosen ts = Ok pts -> length pts = Z.to_nat n.
Proof.
  intros Hn Hc Ht H. unfold sample_polyline in H. apply res_seq_length_g in H. rewrite H, map2_length_g, Ht.
  unfold poly_edges_used. destruct (poly_use_choice (Z.of_nat (length E))); [lia | rewrite repeat_length; lia].
Qed.

Lemma surface_count_g V F chosen us pts n : length chosen = n -> length us = n ->
  sample_surface o V F chosen us = Ok pts -> length pts = n.
Proof. intros Hc Hu H. unfold sample_surface in H. apply res_seq_length_g in H. rewrite H, map2_length_g. lia. Qed.

(* which requests sample_AABB refuses *)
Lemma box_rejects_g m pc p1 p2 n us :
  (m = MOther -> sample_box o m pc p1 p2 n us = Err EBadMode) /\
  (m <> MOther -> box_is_empty o p1 p2 = true -> sample_box o m pc p1 p2 n us = Err EEmptyBox) /\
  (m <> MOther -> box_is_empty o p1 p2 = false -> box_pc_dim_guard (Z.of_nat (length p1)) && pc = true ->
     sample_box o m pc p1 p2 n us = Err EDimGt3) /\
  (forall pts, sample_box o m pc p1 p2 n us = Ok pts ->
     m <> MOther /\ box_is_empty o p1 p2 = false /\ box_pc_dim_guard (Z.of_nat (length p1)) && pc = false).
Proof.
  split; [intros ->; reflexivity|]. split; [intros Hm He; unfold sample_box; rewrite He; destruct m; congruence|].
  split; [intros Hm He Hg; unfold sample_box; rewrite He, Hg; destruct m; congruence|].
  intros pts H. unfold sample_box in H. destruct m; try discriminate;
    destruct (box_is_empty o p1 p2); try discriminate;
    destruct (box_pc_dim_guard (Z.of_nat (length p1)) && pc); try discriminate; repeat split; congruence.
Qed.

End Counts.

Lemma box_pc_dim_guard_spec d : box_pc_dim_guard d = true <-> (d > 3)%Z.
Proof. unfold box_pc_dim_guard. rewrite Z.gtb_lt. lia. Qed.

(* ------------------------------------------------------------------ which edge a polyline sample is taken on
   The deterministic core of "the share of samples per edge follows length": from the test generated from the
   source, the fallback (all samples on the default edge) is taken exactly when there is at most ONE edge; with
   two or more edges the edge of sample i is the i-th index returned by choice(NE, size=n, p = lengths/sum)
   (C19_probabilities_polyline says what that p is). *)
Lemma poly_choice_iff NE : (0 <= NE)%Z -> (poly_use_choice NE = true <-> (2 <= NE)%Z).
Proof. intros H. unfold poly_use_choice. rewrite Z.gtb_lt. lia. Qed.

Lemma poly_edges_drawn_by_choice NE n chosen : (0 <= NE)%Z ->
  ((2 <= NE)%Z -> poly_edges_used NE n chosen = chosen) /\
  ((NE <= 1)%Z -> poly_edges_used NE n chosen = repeat poly_default_edge (Z.to_nat n)) /\
  (NE = 1%Z -> (0 <= poly_default_edge < NE)%Z).
Proof.
  intros H. split; [|split].
  - intros H2. unfold poly_edges_used. destruct (poly_use_choice NE) eqn:E; [reflexivity|].
    apply (proj2 (poly_choice_iff NE H)) in H2. congruence.
  - intros H1. unfold poly_edges_used. destruct (poly_use_choice NE) eqn:E; [|reflexivity].
    apply (poly_choice_iff NE H) in E. lia.
  - intros ->. unfold poly_default_edge. lia.
Qed.
