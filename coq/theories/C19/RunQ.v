(* C19 - exact checkers: Bezier evaluation on dyadic control nets / parameters is exact in binary64, so the
   implementation's doubles are compared with the model run over Q for EQUALITY. *)
From Coq Require Import ZArith QArith List Bool.
Import ListNotations.
Require Import MV.Lib.Base MV.C19.Ops MV.C19.OpsQ MV.C19.Gen MV.C19.Model.

Definition qeql := list_eqb Qeqb.
Definition qres_eqb (a b : res (list Q)) : bool :=
  match a, b with
  | Ok x, Ok y => qeql x y
  | Err _, Err _ => true   (* a refusal is compared as a refusal: its exception class is not part of the property *)
  | _, _ => false
  end.

Inductive qcase :=
| QCurve (P : list (list Q)) (t : Q) (out : res (list Q))
| QPatch (rows : list (list (list Q))) (u v : Q) (out : res (list Q)).

Definition check_q (c : qcase) : bool :=
  match c with
  | QCurve P t out => qres_eqb (curve_eval Qops P t) out
  | QPatch rows u v out => qres_eqb (patch_eval Qops rows u v) out
  end.

(* grid resolution: the run-length table of the values round(np.power(n, 1/d)) takes in binary64 on 0..limit
   is accepted iff it coincides with iroot_round there (Proofs_Index.table_ok_sound) *)
Definition check_grid_table (c : Z * Z * list (Z * Z)) : bool :=
  let '(d, limit, l) := c in (1 <=? d)%Z && table_ok d 0 limit l.
