(* C19 - convex-hull clause for curves AND patches: every coordinate of the value lies between the extreme control
   values, and a patch value is the convex combination of ALL its control points with the product weights. *)
From Coq Require Import ZArith Reals List Bool Lia Lra.
Import ListNotations.
Require Import MV.Lib.Base MV.C19.Ops MV.C19.OpsR MV.C19.Gen MV.C19.Model MV.C19.Proofs_Bezier.
Open Scope R_scope.

Lemma curve_within_bounds P t lo hi x : P <> [] -> 0 <= t <= 1 ->
  (forall i, (i < length P)%nat -> lo <= nth i P 0 <= hi) -> de_casteljau Rops P t = Ok x -> lo <= x <= hi.
Proof.
  intros HP Ht Hb H. rewrite de_casteljau_bernstein in H by assumption. inversion H; subst.
  apply bernstein_bounds; assumption.
Qed.

Lemma patch_within_bounds rows u v lo hi : rows <> [] -> Forall (fun r => r <> []) rows -> 0 <= u <= 1 -> 0 <= v <= 1 ->
  (forall row, In row rows -> forall i, (i < length row)%nat -> lo <= nth i row 0 <= hi) ->
  exists x, patch_eval1 Rops rows u v = Ok x /\ lo <= x <= hi.
Proof.
  intros Hr Hne Hu Hv Hb. exists (patch_bernstein1 rows u v). split; [now apply patch_eval1_bernstein|].
  unfold patch_bernstein1. apply bernstein_bounds; [assumption| |destruct rows; [congruence | discriminate]].
  intros j Hj. rewrite map_length in Hj. unfold ctrl. rewrite (nth_map_in _ _ _ _ []) by assumption.
  assert (Hin : In (nth j rows []) rows) by (now apply nth_In).
  apply bernstein_bounds; [assumption | | rewrite Forall_forall in Hne; now apply Hne].
  intros i Hi. now apply Hb.
Qed.

(* product weights *)
Lemma patch_convex_combination rows u v n : rows <> [] -> Forall (fun r => length r = S n) rows ->
  0 <= u <= 1 -> 0 <= v <= 1 ->
  let m := (length rows - 1)%nat in
  let w := fun j i => bw v m j * bw u n i in
  (forall j i, 0 <= w j i) /\
  rsum (S m) (fun j => rsum (S n) (fun i => w j i)) = 1 /\
  patch_bernstein1 rows u v = rsum (S m) (fun j => rsum (S n) (fun i => w j i * nth i (nth j rows []) 0)).
Proof.
  intros Hr Hlen Hu Hv m w.
  assert (Hm : length rows = S m) by (unfold m; destruct rows; [congruence | simpl; lia]).
  split; [|split].
  - intros j i. unfold w. apply Rmult_le_pos; now apply bw_nonneg.
  - pose proof (bsum_const_one v m) as Ev. pose proof (bsum_const_one u n) as Eu. unfold bsum in Ev, Eu.
    rewrite (rsum_ext _ _ (fun j => bw v m j * 1)); [exact Ev|].
    intros j _. unfold w. rewrite rsum_scal. f_equal.
    transitivity (rsum (S n) (fun i => bw u n i * 1)); [apply rsum_ext; intros; ring | exact Eu].
  - unfold patch_bernstein1, bernstein. rewrite map_length. fold m. replace (length rows - 1)%nat with m by reflexivity.
    unfold bsum. apply rsum_ext. intros j Hj. unfold ctrl at 1.
    rewrite (nth_map_in _ _ _ _ []) by lia.
    assert (Hin : In (nth j rows []) rows) by (apply nth_In; lia).
    rewrite Forall_forall in Hlen. unfold bernstein, bsum. rewrite (Hlen _ Hin). simpl (S n - 1)%nat. rewrite Nat.sub_0_r.
    rewrite <- rsum_scal. apply rsum_ext. intros i _. unfold w, ctrl. ring.
Qed.

Example ex_patch_hull : exists x, patch_eval1 Rops [[0; 2]; [4; 6]] (1 / 2) (1 / 2) = Ok x /\ 0 <= x <= 6.
Proof.
  apply patch_within_bounds; try lra; [discriminate | repeat constructor; discriminate |].
  intros row [<-|[<-|[]]] [|[|i]] Hi; simpl in *; try lia; lra.
Qed.
