(* C19 - executable model of mouette/sampling.py and mouette/splines/bezier.py (no proofs).

   Every sampler is a deterministic function of its random draws: the draws are INPUTS (the driver records
   what numpy's generator handed to the implementation and feeds the same numbers to the model).  All
   arithmetic expressions, guards, loop bounds and index formulas come from Gen.v, regenerated from the
   source on every run; this file only supplies the plumbing (zipping draws, iterating loops).

   Numbers: parametric in the bare record `ops T` - R for the theorems, Q / binary64 for execution.
   numpy arithmetic on a Vec is coordinate-wise: a point is a triple (3D samplers) or a list (boxes and
   control points of any dimension), and each coordinate goes through the same scalar expression. *)
From Coq Require Import ZArith List Bool.
Import ListNotations.
Require Import MV.Lib.Base MV.C19.Ops MV.C19.Gen.

Section Model.
Context {T : Type} (o : ops T).

Definition v3 := (T * T * T)%type.
Definition sumsq3 (g : v3) : T := let '(x, y, z) := g in oadd o (oadd o (omul o x x) (omul o y y)) (omul o z z).
Definition norm3 (g : v3) : T := osqrt o (sumsq3 g).
Definition sub3 (a b : v3) : v3 :=
  let '(ax, ay, az) := a in let '(bx, by_, bz) := b in (osub o ax bx, osub o ay by_, osub o az bz).
Definition cross3 (a b : v3) : v3 :=
  let '(a0, a1, a2) := a in let '(b0, b1, b2) := b in
  (osub o (omul o a1 b2) (omul o a2 b1), osub o (omul o b0 a2) (omul o b2 a0), osub o (omul o a0 b1) (omul o a1 b0)).
Definition dot3 (a b : v3) : T :=
  let '(a0, a1, a2) := a in let '(b0, b1, b2) := b in oadd o (oadd o (omul o a0 b0) (omul o a1 b1)) (omul o a2 b2).
Definition dist3 (a b : v3) : T := norm3 (sub3 b a).

(* the CODE's geometry (geometry.cross / norm / distance / triangle_area, Vec.norm / normalized, as applied by
   attributes.edge_length / face_area / face_normals): component expressions generated in Gen.v.  The definitions
   above (cross3, norm3, dist3) and tri_area / tri_normal below are the mathematical reference the theorems are stated
   with; Proofs_Geometry shows that the code's versions coincide with them. *)
Definition c_cross3 (a b : v3) : v3 :=
  let '(a0, a1, a2) := a in let '(b0, b1, b2) := b in
  (cross_c0 o a0 a1 a2 b0 b1 b2, cross_c1 o a0 a1 a2 b0 b1 b2, cross_c2 o a0 a1 a2 b0 b1 b2).
Definition c_edge_len (A B : v3) : T :=
  let '(ax, ay, az) := A in let '(bx, by_, bz) := B in
  geom_norm_l2 o (sumsq3 (distance_diff o ax bx, distance_diff o ay by_, distance_diff o az bz)).
Definition c_tri_area (A B C : v3) : T :=
  tri_area_of_norm o (vec_norm_l2 o (sumsq3 (c_cross3 (sub3 B A) (sub3 C A)))).
Definition c_tri_normal (A B C : v3) : v3 :=
  let n := c_cross3 (sub3 B A) (sub3 C A) in let l := vec_norm_l2 o (sumsq3 n) in
  let '(x, y, z) := n in (normalized_coord o x l, normalized_coord o y l, normalized_coord o z l).

(* ------------------------------------------------------------------ sphere / ball *)
(* g = the three N(0,1) draws of one row *)
Definition sphere_pt (radius : T) (c g : v3) : v3 :=
  let n := norm3 g in let '(cx, cy, cz) := c in let '(gx, gy, gz) := g in
  (sphere_coord o radius cx gx n, sphere_coord o radius cy gy n, sphere_coord o radius cz gz n).
Definition sample_sphere (radius : T) (c : v3) (xs ys zs : list T) : list v3 :=
  map (sphere_pt radius c) (zip3 xs ys zs).

Definition ball_pt (radius : T) (c g : v3) (u : T) : v3 :=
  let n := norm3 g in let '(cx, cy, cz) := c in let '(gx, gy, gz) := g in
  (ball_coord o radius cx gx n u, ball_coord o radius cy gy n u, ball_coord o radius cz gz n u).
Definition sample_ball (radius : T) (c : v3) (xs ys zs us : list T) : list v3 :=
  map2 (ball_pt radius c) (zip3 xs ys zs) us.

(* ------------------------------------------------------------------ boxes (any dimension) *)
Inductive mode := MUniform | MGrid | MOther.

Definition box_is_empty (p1 p2 : list T) : bool := existsb (fun x => x) (map2 (aabb_empty_coord o) p1 p2).

(* np.linspace(lo, hi, n)[j]: lo + j * ((hi - lo) / (n - 1)); a single sample is lo *)
Definition linspace_at (lo hi : T) (n j : Z) : T :=
  if (n <=? 1)%Z then lo else oadd o lo (omul o (oZ o j) (odiv o (osub o hi lo) (oZ o (n - 1)))).
Definition linspace (lo hi : T) (n : Z) : list T := map (linspace_at lo hi n) (zrange n).

(* all d-tuples over `axis` (the product grid np.meshgrid builds), lexicographic *)
Fixpoint tuples (axis : list T) (d : nat) : list (list T) :=
  match d with
  | O => [[]]
  | S k => flat_map (fun x => map (cons x) (tuples axis k)) axis
  end.

Fixpoint map4 {A B C D E} (f : A -> B -> C -> D -> E) (a : list A) (b : list B) (c : list C) (d : list D) : list E :=
  match a, b, c, d with
  | x :: s, y :: t, z :: u, w :: v => f x y z w :: map4 f s t u v
  | _, _, _, _ => []
  end.

Definition box_span (p1 p2 : list T) : list T := map2 (aabb_span o) p1 p2.
Definition box_mini (p1 p2 : list T) : list T := map2 (aabb_mini o) p1 p2.
Definition box_maxi (p1 p2 : list T) : list T := map2 (aabb_maxi o) p1 p2.

Definition box_uniform_pt (p1 p2 : list T) (u : list T) : list T :=
  map4 (box_uniform_coord o) (box_mini p1 p2) (box_maxi p1 p2) (box_span p1 p2) u.
Definition box_grid_pt (p1 p2 : list T) (x : list T) : list T :=
  map4 (box_grid_coord o) (box_mini p1 p2) (box_maxi p1 p2) (box_span p1 p2) x.

(* us : the (n_pts x dim) array of uniform draws, one row per point (only read in uniform mode) *)
Definition sample_box (m : mode) (pc : bool) (p1 p2 : list T) (n : Z) (us : list (list T)) : res (list (list T)) :=
  match m with
  | MOther => Err EBadMode
  | _ =>
    if box_is_empty p1 p2 then Err EEmptyBox
    else if box_pc_dim_guard (Z.of_nat (length p1)) && pc then Err EDimGt3
    else match m with
         | MUniform => Ok (map (box_uniform_pt p1 p2) us)
         | _ => let d := length p1 in
                let r := grid_res n (Z.of_nat d) in
                Ok (map (box_grid_pt p1 p2) (tuples (linspace (grid_lin_lo o) (grid_lin_hi o) r) d))
         end
  end.

(* ------------------------------------------------------------------ weights handed to `choice` *)
Definition tsum (l : list T) : T := fold_right (oadd o) (o0 o) l.

Definition nth_res {A} (l : list A) (i : Z) : res A :=
  if (i <? 0)%Z then Err EIndex else match nth_error l (Z.to_nat i) with Some x => Ok x | None => Err EIndex end.

(* ------------------------------------------------------------------ polyline *)
Definition edge_lengths (V : list v3) (E : list (Z * Z)) : res (list T) :=
  res_seq (map (fun e => res_bind (nth_res V (fst e)) (fun a => res_bind (nth_res V (snd e)) (fun b => Ok (c_edge_len a b)))) E).
Definition poly_probs (lens : list T) : list T := map (fun w => poly_prob o w (tsum lens)) lens.

(* the edges the loop visits: what `choice` returned when NE > 1, else the default edge n times *)
Definition poly_edges_used (NE n : Z) (chosen : list Z) : list Z :=
  if poly_use_choice NE then chosen else repeat poly_default_edge (Z.to_nat n).

Definition poly_pt (V : list v3) (E : list (Z * Z)) (e : Z) (t : T) : res v3 :=
  res_bind (nth_res E e) (fun ab =>
  res_bind (nth_res V (fst ab)) (fun A =>
  res_bind (nth_res V (snd ab)) (fun B =>
    let '(ax, ay, az) := A in let '(bx, by_, bz) := B in
    Ok (poly_coord o t ax bx, poly_coord o t ay by_, poly_coord o t az bz)))).

Definition sample_polyline (V : list v3) (E : list (Z * Z)) (n : Z) (chosen : list Z) (ts : list T) : res (list v3) :=
  res_seq (map2 (poly_pt V E) (poly_edges_used (Z.of_nat (length E)) n chosen) ts).

(* ------------------------------------------------------------------ surface *)
Definition tri := (Z * Z * Z)%type.
Definition tri_pts (V : list v3) (f : tri) : res (v3 * v3 * v3) :=
  let '(a, b, c) := f in
  res_bind (nth_res V a) (fun A => res_bind (nth_res V b) (fun B => res_bind (nth_res V c) (fun C => Ok (A, B, C)))).
Definition half : T := odiv o (o1 o) (oZ o 2).
Definition tri_area (A B C : v3) : T := odiv o (norm3 (cross3 (sub3 B A) (sub3 C A))) (oZ o 2).
Definition tri_normal (A B C : v3) : v3 :=
  let n := cross3 (sub3 B A) (sub3 C A) in let l := norm3 n in
  let '(x, y, z) := n in (odiv o x l, odiv o y l, odiv o z l).
Definition face_areas (V : list v3) (F : list tri) : res (list T) :=
  res_seq (map (fun f => res_bind (tri_pts V f) (fun p => let '(A, B, C) := p in Ok (c_tri_area A B C))) F).
Definition face_normals (V : list v3) (F : list tri) : res (list v3) :=
  res_seq (map (fun f => res_bind (tri_pts V f) (fun p => let '(A, B, C) := p in Ok (c_tri_normal A B C))) F).
Definition surf_probs (areas : list T) : list T := map (fun w => surf_prob o w (tsum areas)) areas.

Definition surf_pt_of (A B C : v3) (u1 u2 : T) : v3 :=
  let r1 := surf_r1 o u1 u2 in let r2 := surf_r2 o u1 u2 in
  let '(ax, ay, az) := A in let '(bx, by_, bz) := B in let '(cx, cy, cz) := C in
  (surf_coord o r1 r2 ax bx cx, surf_coord o r1 r2 ay by_ cy, surf_coord o r1 r2 az bz cz).
Definition surf_pt (V : list v3) (F : list tri) (f : Z) (u : T * T) : res v3 :=
  res_bind (nth_res F f) (fun fc => res_bind (tri_pts V fc) (fun p =>
    let '(A, B, C) := p in Ok (surf_pt_of A B C (fst u) (snd u)))).
Definition sample_surface (V : list v3) (F : list tri) (chosen : list Z) (us : list (T * T)) : res (list v3) :=
  res_seq (map2 (surf_pt V F) chosen us).
Definition sample_surface_normals (V : list v3) (F : list tri) (chosen : list Z) : res (list v3) :=
  res_bind (face_normals V F) (fun N => res_seq (map (fun f => nth_res N (surf_normal_index f)) chosen)).

(* ------------------------------------------------------------------ de Casteljau (scalar core) *)
(* for i in range(m): coeffs[i] = lerp(coeffs[i], coeffs[i+1])  - in place, ascending i, so entry i+1 is
   still the old one when it is read; None = IndexError *)
Fixpoint dc_inner_loop (t : T) (l : list T) (m : nat) {struct m} : option (list T) :=
  match m with
  | O => Some l
  | S m' => match l with
            | a :: ((b :: _) as tl) => option_map (cons (dc_lerp o t a b)) (dc_inner_loop t tl m')
            | _ => None
            end
  end.
(* for j in js: inner loop with range(dc_inner order j) *)
Fixpoint dc_outer_loop (t : T) (order : Z) (l : list T) (js : list Z) : option (list T) :=
  match js with
  | [] => Some l
  | j :: js' => match dc_inner_loop t l (Z.to_nat (dc_inner order j)) with
                | None => None
                | Some l' => dc_outer_loop t order l' js'
                end
  end.
Definition de_casteljau (P : list T) (t : T) : res T :=
  if dc_reject o t then Err EOutOfRange
  else let order := dc_order (Z.of_nat (length P)) in
       match dc_outer_loop t order P (zrange (dc_outer order)) with
       | None => Err EIndex
       | Some l => nth_res l dc_result_index
       end.

(* vector-valued control points: numpy evaluates the same loop on every coordinate *)
Definition column (k : nat) (P : list (list T)) : list T := map (fun p => nth k p (o0 o)) P.
Definition point_dim (P : list (list T)) : nat := match P with [] => 0 | p :: _ => length p end.
Definition de_casteljau_vec (P : list (list T)) (t : T) : res (list T) :=
  if dc_reject o t then Err EOutOfRange
  else match P with
       | [] => Err EIndex
       | _ => res_seq (map (fun k => de_casteljau (column k P) t) (seq 0 (point_dim P)))
       end.

Definition curve_eval := de_casteljau_vec.
(* BezierPatch.evaluate(u, v) = de_casteljau([de_casteljau(row, u) for row in pts], v) *)
Definition patch_row (rows : list (list (list T))) (u : T) : res (list (list T)) :=
  res_seq (map (fun row => de_casteljau_vec row u) rows).
Definition patch_eval (rows : list (list (list T))) (u v : T) : res (list T) :=
  res_bind (patch_row rows u) (fun q => de_casteljau_vec q v).
(* scalar patch (one coordinate) *)
Definition patch_eval1 (rows : list (list T)) (u v : T) : res T :=
  res_bind (res_seq (map (fun row => de_casteljau row u) rows)) (fun q => de_casteljau q v).

(* ------------------------------------------------------------------ exports *)
Definition pad3 (p : list T) : option (list T) :=
  if existsb (Z.eqb (Z.of_nat (length p))) polyline_vertex_dims
  then Some (match p with [x; y] => [x; y; o0 o] | _ => p end) else None.

Fixpoint somes {A} (l : list (option A)) : list A :=
  match l with [] => [] | Some a :: t => a :: somes t | None :: t => somes t end.

(* as_polyline(n_pts, custom_pos): (vertices, attribute t, edges) *)
Definition curve_params (n_pts : Z) (custom : option (list T)) : list T :=
  match custom with
  | Some l => l
  | None => linspace (polyline_lin_lo o) (polyline_lin_hi o) (polyline_default_len n_pts)
  end.
Definition as_polyline (P : list (list T)) (n_pts : Z) (custom : option (list T))
  : res (list (list T) * list T * list (Z * Z)) :=
  let ts := curve_params n_pts custom in
  res_bind (res_seq (map (curve_eval P) ts)) (fun pts =>
    let verts := somes (map pad3 pts) in
    Ok (verts, ts, polyline_edges n_pts (Z.of_nat (length ts)) (Z.of_nat (length verts)))).

(* as_surface(n1, n2): (vertices, uv attribute, faces) *)
Definition as_surface (rows : list (list (list T))) (n1 n2 : Z)
  : res (list (list T) * list (T * T) * list (list Z)) :=
  let U := linspace (surface_lin_lo o) (surface_lin_hi o) (surface_U_len n1 n2) in
  let V := linspace (surface_lin_lo o) (surface_lin_hi o) (surface_V_len n1 n2) in
  res_bind (res_seq (map (fun ij => res_bind (nth_res U (fst ij)) (fun u => res_bind (nth_res V (snd ij)) (fun v =>
                            patch_eval rows u v))) (surface_vertex_params n1 n2))) (fun verts =>
  res_bind (res_seq (map (fun ij => res_bind (nth_res U (fst ij)) (fun u => res_bind (nth_res V (snd ij)) (fun v =>
                            Ok (u, v)))) (surface_uv_params n1 n2))) (fun uvs =>
    Ok (verts, uvs, surface_faces n1 n2))).

End Model.
