(* C19 - the bare record of numeric operations the model is parametric in (no laws):
   instantiated with R for the theorems (OpsR.v), with Q for exact execution of the sqrt-free
   parts and with binary64 PrimFloat for the sqrt/cbrt-bearing parts (OpsQ.v, OpsF.v). *)
From Coq Require Import ZArith List Bool.
Import ListNotations.

Record ops (T : Type) := mkops {
  o0 : T; o1 : T;
  oadd : T -> T -> T; osub : T -> T -> T; omul : T -> T -> T; odiv : T -> T -> T;
  osqrt : T -> T; ocbrt : T -> T;
  oleb : T -> T -> bool; oltb : T -> T -> bool;
  oZ : Z -> T
}.
Arguments o0 {T}. Arguments o1 {T}. Arguments oadd {T}. Arguments osub {T}. Arguments omul {T}.
Arguments odiv {T}. Arguments osqrt {T}. Arguments ocbrt {T}. Arguments oleb {T}. Arguments oltb {T}.
Arguments oZ {T}.

(* results: Python exceptions are explicit values *)
Inductive err := EOutOfRange | EIndex | EEmptyBox | EBadMode | EDimGt3 | EShape.
Inductive res (A : Type) := Ok (a : A) | Err (e : err).
Arguments Ok {A}. Arguments Err {A}.

Definition err_eqb (a b : err) : bool :=
  match a, b with
  | EOutOfRange, EOutOfRange | EIndex, EIndex | EEmptyBox, EEmptyBox | EBadMode, EBadMode
  | EDimGt3, EDimGt3 | EShape, EShape => true
  | _, _ => false
  end.

Definition res_bind {A B} (r : res A) (f : A -> res B) : res B :=
  match r with Ok a => f a | Err e => Err e end.

(* all-or-first-error *)
Fixpoint res_seq {A} (l : list (res A)) : res (list A) :=
  match l with
  | [] => Ok []
  | r :: t => match r with
              | Err e => Err e
              | Ok a => match res_seq t with Ok s => Ok (a :: s) | Err e => Err e end
              end
  end.

Fixpoint map2 {A B C} (f : A -> B -> C) (a : list A) (b : list B) : list C :=
  match a, b with
  | x :: s, y :: t => f x y :: map2 f s t
  | _, _ => []
  end.

Fixpoint zip3 {A} (a b c : list A) : list (A * A * A) :=
  match a, b, c with
  | x :: s, y :: t, z :: u => (x, y, z) :: zip3 s t u
  | _, _, _ => []
  end.

(* round(n ** (1/d)) for integers n >= 0, d >= 1: the integer r nearest to the real d-th root of n,
   i.e. the least r with 2^d * n < (2r+1)^d  (ties cannot occur: ((2r+1)/2)^d is never an integer). *)
Fixpoint iroot_search (fuel : nat) (n d r : Z) : Z :=
  match fuel with
  | O => r
  | S f => if (2 ^ d * n <? (2 * r + 1) ^ d)%Z then r else iroot_search f n d (r + 1)%Z
  end.
Definition iroot_round (n d : Z) : Z := iroot_search (Z.to_nat n) n d 0%Z.

(* A run-length table of an integer function on [lo, limit]: entries (hi, r) mean "value r on lo..hi", the next
   entry starts at hi+1.  table_ok d lo limit l: the table covers exactly lo..limit and every entry satisfies the
   nearest-root inequalities for its whole range.  (Used to check, on every run, the values that
   round(np.power(n, 1/d)) takes in binary64 against iroot_round; soundness is proved in Proofs_Index.) *)
Fixpoint table_ok (d lo limit : Z) (l : list (Z * Z)) : bool :=
  match l with
  | [] => (limit <? lo)%Z
  | (hi, r) :: t =>
      (lo <=? hi)%Z && (hi <=? limit)%Z && (0 <=? r)%Z
      && (2 ^ d * hi <? (2 * r + 1) ^ d)%Z
      && ((r =? 0)%Z || ((2 * r - 1) ^ d <=? 2 ^ d * lo)%Z)
      && table_ok d (hi + 1) limit t
  end.
Fixpoint table_lookup (lo : Z) (l : list (Z * Z)) (n : Z) : option Z :=
  match l with
  | [] => None
  | (hi, r) :: t => if (n <=? hi)%Z then (if (lo <=? n)%Z then Some r else None) else table_lookup (hi + 1) t n
  end.
