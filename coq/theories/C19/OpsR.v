(* the reals - the instance the theorems are about *)
From Coq Require Import ZArith Reals List Bool Lra.
Require Import MV.C19.Ops.
Open Scope R_scope.

Definition Rleb (a b : R) : bool := if Rle_dec a b then true else false.
Definition Rltb (a b : R) : bool := if Rlt_dec a b then true else false.

(* a cube root on [0, +oo) : exp (ln x / 3), and 0 at 0 *)
Definition Rcbrt (x : R) : R := if Rle_dec x 0 then 0 else exp (ln x / 3).

Definition Rops : ops R :=
  mkops R 0 1 Rplus Rminus Rmult Rdiv R_sqrt.sqrt Rcbrt Rleb Rltb IZR.

Lemma Rleb_true a b : Rleb a b = true <-> a <= b.
Proof. unfold Rleb. destruct (Rle_dec a b); split; intros; try easy. Qed.
Lemma Rltb_true a b : Rltb a b = true <-> a < b.
Proof. unfold Rltb. destruct (Rlt_dec a b); split; intros; try easy. Qed.
Lemma Rleb_false a b : Rleb a b = false <-> b < a.
Proof. unfold Rleb. destruct (Rle_dec a b); split; intros; try easy; lra. Qed.

Lemma Rcbrt_nonneg x : 0 <= Rcbrt x.
Proof. unfold Rcbrt. destruct (Rle_dec x 0); [lra|]. left. apply exp_pos. Qed.

Lemma Rcbrt_cube x : 0 <= x -> Rcbrt x * Rcbrt x * Rcbrt x = x.
Proof.
  intros Hx. unfold Rcbrt. destruct (Rle_dec x 0) as [H|H].
  - assert (x = 0) by lra. subst. ring.
  - rewrite <- !exp_plus. replace (ln x / 3 + ln x / 3 + ln x / 3) with (ln x) by field.
    apply exp_ln. lra.
Qed.

Global Arguments Rcbrt : simpl never.
Global Arguments Rleb : simpl never.
Global Arguments Rltb : simpl never.
