(* C19 - as_polyline / as_surface: for every resolution the parameters stay in [0,1] (nothing is rejected),
   vertex k is the curve / patch evaluated at the k-th parameter (pair), the attribute carries that
   parameter, and the index lists are those of Proofs_Index. Over R. *)
From Coq Require Import ZArith Reals List Bool Lia Lra.
Import ListNotations.
Require Import MV.Lib.Base MV.C19.Ops MV.C19.OpsR MV.C19.Gen MV.C19.Model.
Require Import MV.C19.Proofs_Index MV.C19.Proofs_Bezier.
Open Scope R_scope.

Definition unit_closed (t : R) : Prop := 0 <= t <= 1.

Lemma linspace01_unit n j : (0 <= j < n)%Z -> unit_closed (linspace_at Rops 0 1 n j).
Proof.
  intros Hj. unfold unit_closed, linspace_at. destruct (n <=? 1)%Z eqn:E; cbn; [lra|].
  assert (H1 : 0 < IZR (n - 1)) by (apply IZR_lt; lia).
  assert (H2 : 0 <= IZR j) by (apply IZR_le; lia).
  assert (H3 : IZR j <= IZR (n - 1)) by (apply IZR_le; lia).
  replace (0 + IZR j * ((1 - 0) / IZR (n - 1))) with (IZR j / IZR (n - 1)) by (field; lra).
  split.
  - apply Rmult_le_pos; [assumption|]. left. now apply Rinv_0_lt_compat.
  - apply (Rmult_le_reg_r (IZR (n - 1))); [assumption|]. unfold Rdiv. rewrite Rmult_assoc, Rinv_l by lra. lra.
Qed.

Lemma linspace01_all_unit n : Forall unit_closed (linspace Rops 0 1 n).
Proof.
  unfold linspace. apply Forall_forall. intros x Hx. apply in_map_iff in Hx as [j [<- Hj]].
  apply In_zrange in Hj. now apply linspace01_unit.
Qed.

Lemma linspace_nth_res n i : (0 <= i < n)%Z -> nth_res (linspace Rops 0 1 n) i = Ok (linspace_at Rops 0 1 n i).
Proof.
  intros Hi. unfold nth_res, linspace. destruct (i <? 0)%Z eqn:E; [lia|].
  erewrite map_nth_error; [reflexivity | now apply zrange_nth_error].
Qed.

(* end points of np.linspace(0,1,n), n >= 2 *)
Lemma linspace01_first n : linspace_at Rops 0 1 n 0 = 0.
Proof. unfold linspace_at. destruct (n <=? 1)%Z; cbn; [reflexivity | unfold Rdiv; ring]. Qed.
Lemma linspace01_last n : (2 <= n)%Z -> linspace_at Rops 0 1 n (n - 1) = 1.
Proof.
  intros Hn. unfold linspace_at. destruct (n <=? 1)%Z eqn:E; [lia|]. cbn.
  assert (0 < IZR (n - 1)) by (apply IZR_lt; lia). field. lra.
Qed.

(* ------------------------------------------------------------------ as_polyline *)
Definition padf (p : list R) : list R := match p with [x; y] => [x; y; 0] | _ => p end.

Lemma pad3_ok p : (length p = 2 \/ length p = 3)%nat -> pad3 Rops p = Some (padf p).
Proof.
  intros [H|H]; unfold pad3, polyline_vertex_dims; rewrite H; cbn [existsb Z.eqb Z.of_nat Pos.of_succ_nat Pos.succ Pos.eqb orb];
    destruct p as [|x [|y [|z [|w p]]]]; simpl in H; try discriminate; reflexivity.
Qed.

Lemma somes_map_some {A B} (f : A -> option B) (g : A -> B) l : (forall a, In a l -> f a = Some (g a)) ->
  somes (map f l) = map g l.
Proof.
  induction l as [|a l IH]; intros H; simpl; [reflexivity|]. rewrite H by (now left). f_equal. apply IH. intros; apply H; now right.
Qed.

Lemma curve_params_default n_pts : curve_params Rops n_pts None = linspace Rops 0 1 n_pts.
Proof. reflexivity. Qed.

(* every parameter in [0,1]  ->  one vertex per parameter, at the Bernstein value, edges (i,i+1) over the SAMPLES *)
Lemma as_polyline_spec P n_pts custom : P <> [] -> (point_dim P = 2 \/ point_dim P = 3)%nat ->
  let ts := curve_params Rops n_pts custom in
  Forall unit_closed ts ->
  as_polyline Rops P n_pts custom =
    Ok (map (fun t => padf (bernstein_vec P t)) ts, ts, polyline_edges n_pts (Z.of_nat (length ts)) (Z.of_nat (length ts))).
Proof.
  intros HP Hd ts Hts. unfold as_polyline. fold ts.
  rewrite (res_seq_map_ok _ (bernstein_vec P)).
  - cbn [res_bind]. rewrite map_map.
    rewrite (somes_map_some _ (fun t => padf (bernstein_vec P t))); [rewrite map_length; reflexivity|].
    intros t _. apply pad3_ok. now rewrite bernstein_vec_length.
  - intros t Ht. rewrite Forall_forall in Hts. apply de_casteljau_vec_bernstein; [assumption | now apply Hts].
Qed.

(* the default positions np.linspace(0,1,n_pts) are never rejected *)
Lemma as_polyline_default P n_pts : P <> [] -> (point_dim P = 2 \/ point_dim P = 3)%nat ->
  as_polyline Rops P n_pts None =
    Ok (map (fun t => padf (bernstein_vec P t)) (linspace Rops 0 1 n_pts), linspace Rops 0 1 n_pts,
        polyline_edges n_pts (Z.of_nat (length (linspace Rops 0 1 n_pts))) (Z.of_nat (length (linspace Rops 0 1 n_pts)))).
Proof. intros HP Hd. apply (as_polyline_spec P n_pts None HP Hd). apply linspace01_all_unit. Qed.

Lemma res_seq_first_err {A} (l : list (res A)) e0 :
  (forall r, In r l -> (exists a, r = Ok a) \/ r = Err e0) -> (exists r, In r l /\ r = Err e0) -> res_seq l = Err e0.
Proof.
  induction l as [|r l IH]; intros Hall [r0 [Hin Hr0]]; [contradiction|].
  simpl. destruct (Hall r (or_introl eq_refl)) as [[a ->]| ->]; [|reflexivity].
  destruct Hin as [<-|Hin]; [discriminate|].
  rewrite IH; [reflexivity | intros; apply Hall; now right | exists r0; auto].
Qed.

(* a custom position outside [0,1] makes the export fail with the range error *)
Lemma as_polyline_rejects P n_pts custom t : P <> [] -> In t (curve_params Rops n_pts custom) -> ~ unit_closed t ->
  as_polyline Rops P n_pts custom = Err EOutOfRange.
Proof.
  intros HP Hin Ht. unfold as_polyline.
  rewrite (res_seq_first_err _ EOutOfRange); [reflexivity | |].
  - intros r Hr. apply in_map_iff in Hr as [t' [<- _]]. unfold curve_eval.
    destruct (Rle_dec 0 t') as [H0|H0]; [destruct (Rle_dec t' 1) as [H1|H1]|].
    + left. eexists. apply de_casteljau_vec_bernstein; [assumption | lra].
    + right. apply de_casteljau_vec_rejects. lra.
    + right. apply de_casteljau_vec_rejects. lra.
  - exists (curve_eval Rops P t). split; [now apply in_map | now apply de_casteljau_vec_rejects].
Qed.

(* ------------------------------------------------------------------ as_surface *)
Definition lin (n i : Z) : R := linspace_at Rops 0 1 n i.

Lemma surface_vertex_params_in n1 n2 ij : In ij (surface_vertex_params n1 n2) ->
  (0 <= fst ij < n1)%Z /\ (0 <= snd ij < n2)%Z.
Proof.
  unfold surface_vertex_params. intros H. apply in_flat_map in H as [i [Hi H]]. apply in_flat_map in H as [j [Hj H]].
  apply In_zrange in Hi. apply In_zrange in Hj. destruct H as [<-|[]]. simpl. lia.
Qed.

Lemma as_surface_spec rows n1 n2 : rows <> [] -> Forall (fun r => r <> []) rows ->
  as_surface Rops rows n1 n2 =
    Ok (map (fun ij => patch_bernstein rows (lin n1 (fst ij)) (lin n2 (snd ij))) (surface_vertex_params n1 n2),
        map (fun ij => (lin n1 (fst ij), lin n2 (snd ij))) (surface_vertex_params n1 n2),
        surface_faces n1 n2).
Proof.
  intros Hr Hne. unfold as_surface.
  change (surface_lin_lo Rops) with 0. change (surface_lin_hi Rops) with 1.
  change (surface_U_len n1 n2) with n1. change (surface_V_len n1 n2) with n2.
  rewrite (res_seq_map_ok _ (fun ij => patch_bernstein rows (lin n1 (fst ij)) (lin n2 (snd ij)))).
  - cbn [res_bind]. rewrite surface_uv_is_vertex_order.
    rewrite (res_seq_map_ok _ (fun ij => (lin n1 (fst ij), lin n2 (snd ij)))); [reflexivity|].
    intros ij Hin. apply surface_vertex_params_in in Hin as [Hi Hj].
    rewrite !linspace_nth_res by assumption. reflexivity.
  - intros ij Hin. apply surface_vertex_params_in in Hin as [Hi Hj].
    rewrite !linspace_nth_res by assumption. cbn [res_bind].
    apply patch_eval_bernstein; auto; now apply linspace01_unit.
Qed.
