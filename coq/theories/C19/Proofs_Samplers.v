(* C19 - every sampler, as a function of its draws, stays on its domain for ALL draws in their ranges
   (expressions from Gen.v, over R); the vector handed to `choice` is a probability vector proportional
   to length / area. *)
From Coq Require Import ZArith Reals List Bool Lia Lra Psatz.
Import ListNotations.
Require Import MV.Lib.Base MV.C19.Ops MV.C19.OpsR MV.C19.Gen MV.C19.Model MV.C19.Proofs_Geometry.
Open Scope R_scope.

Definition rv3 := (R * R * R)%type.

(* ------------------------------------------------------------------ list plumbing *)
Lemma zip3_length {A} (a b c : list A) n : length a = n -> length b = n -> length c = n -> length (zip3 a b c) = n.
Proof.
  revert b c n. induction a as [|x a IH]; intros [|y b] [|z c] n Ha Hb Hc; simpl in *; subst; try reflexivity; try discriminate.
  f_equal. apply IH; lia.
Qed.

Lemma map2_length {A B C} (f : A -> B -> C) a b : length (map2 f a b) = Nat.min (length a) (length b).
Proof. revert b. induction a as [|x a IH]; intros [|y b]; simpl; try reflexivity. now rewrite IH. Qed.

Lemma map2_nth_error {A B C} (f : A -> B -> C) a b i x y :
  nth_error a i = Some x -> nth_error b i = Some y -> nth_error (map2 f a b) i = Some (f x y).
Proof.
  revert b i. induction a as [|x0 a IH]; intros [|y0 b] [|i] Hx Hy; simpl in *; try discriminate.
  - now inversion Hx; inversion Hy.
  - now apply IH.
Qed.

Lemma map2_In {A B C} (f : A -> B -> C) a b z : In z (map2 f a b) -> exists x y, In x a /\ In y b /\ z = f x y.
Proof.
  revert b. induction a as [|x a IH]; intros [|y b] H; simpl in H; try contradiction.
  destruct H as [<-|H].
  - exists x, y. simpl. auto.
  - destruct (IH b H) as [x' [y' [H1 [H2 H3]]]]. exists x', y'. simpl. auto.
Qed.

Lemma map4_length {A B C D E} (f : A -> B -> C -> D -> E) a b c d n :
  length a = n -> length b = n -> length c = n -> length d = n -> length (map4 f a b c d) = n.
Proof.
  revert b c d n. induction a as [|x a IH]; intros [|y b] [|z c] [|w d] n Ha Hb Hc Hd; simpl in *; subst; try reflexivity; try discriminate.
  f_equal. apply IH; lia.
Qed.

Lemma map4_nth {A B C D E} (f : A -> B -> C -> D -> E) a b c d k da db dc dd de :
  (k < length a)%nat -> length b = length a -> length c = length a -> length d = length a ->
  nth k (map4 f a b c d) de = f (nth k a da) (nth k b db) (nth k c dc) (nth k d dd).
Proof.
  revert b c d k. induction a as [|x a IH]; intros [|y b] [|z c] [|w d] k Hk Hb Hc Hd; simpl in *; try lia.
  destruct k as [|k]; [reflexivity|]. apply IH; lia.
Qed.

Lemma map2_nth {A B C} (f : A -> B -> C) a b k da db dc :
  (k < length a)%nat -> length b = length a -> nth k (map2 f a b) dc = f (nth k a da) (nth k b db).
Proof.
  revert b k. induction a as [|x a IH]; intros [|y b] k Hk Hb; simpl in *; try lia.
  destruct k as [|k]; [reflexivity|]. apply IH; lia.
Qed.

Lemma res_seq_ok {A} (l : list (res A)) s : res_seq l = Ok s ->
  length s = length l /\ forall i r, nth_error l i = Some r -> exists a, nth_error s i = Some a /\ r = Ok a.
Proof.
  revert s. induction l as [|r l IH]; intros s H; simpl in H.
  - inversion H. split; [reflexivity|]. intros [|i] r Hr; discriminate.
  - destruct r as [a|e]; [|discriminate]. destruct (res_seq l) as [s'|e] eqn:E; [|discriminate].
    inversion H; subst. destruct (IH s' eq_refl) as [Hl Hn]. split; [simpl; lia|].
    intros [|i] r Hr; simpl in *.
    + inversion Hr. exists a. auto.
    + now apply Hn.
Qed.

Lemma nth_res_ok {A} (l : list A) i a : nth_res l i = Ok a -> (0 <= i)%Z /\ nth_error l (Z.to_nat i) = Some a.
Proof.
  unfold nth_res. destruct (i <? 0)%Z eqn:E; [discriminate|]. destruct (nth_error l (Z.to_nat i)) eqn:E2; [|discriminate].
  intros H; inversion H; subst. split; [lia | reflexivity].
Qed.

(* ------------------------------------------------------------------ sphere *)
Definition sq_dist (a b : rv3) : R := sumsq3 Rops (sub3 Rops b a).

Lemma sumsq_pos (g : rv3) : g <> (0, 0, 0) -> 0 < sumsq3 Rops g.
Proof.
  destruct g as [[x y] z]. intros H. cbn.
  destruct (Req_dec x 0) as [->|Hx]; [|nra]. destruct (Req_dec y 0) as [->|Hy]; [|nra].
  destruct (Req_dec z 0) as [->|Hz]; [congruence | nra].
Qed.

(* for every centre, radius and every non-zero normal row: the squared distance to the centre is radius^2 *)
Lemma sphere_pt_on_sphere radius (c g : rv3) : g <> (0, 0, 0) ->
  sq_dist c (sphere_pt Rops radius c g) = radius * radius.
Proof.
  intros Hg. pose proof (sumsq_pos g Hg) as HS. destruct c as [[cx cy] cz], g as [[gx gy] gz].
  unfold sq_dist, sphere_pt, sphere_coord, norm3. cbn in *.
  set (S := gx * gx + gy * gy + gz * gz) in *. set (n := sqrt S).
  assert (Hn : n * n = S) by (apply sqrt_sqrt; lra).
  assert (Hn0 : n <> 0) by (intro E; rewrite E in Hn; lra).
  transitivity (radius * radius * (S / (n * n))); [unfold S; field; assumption|].
  rewrite Hn. field. lra.
Qed.

Lemma sphere_pt_dist radius (c g : rv3) : g <> (0, 0, 0) -> 0 <= radius ->
  dist3 Rops c (sphere_pt Rops radius c g) = radius.
Proof.
  intros Hg Hr. unfold dist3, norm3. cbn [osqrt Rops]. fold (sq_dist c (sphere_pt Rops radius c g)).
  rewrite sphere_pt_on_sphere by assumption. now apply sqrt_square.
Qed.

Lemma sample_sphere_count radius c xs ys zs n :
  length xs = n -> length ys = n -> length zs = n -> length (sample_sphere Rops radius c xs ys zs) = n.
Proof. intros Hx Hy Hz. unfold sample_sphere. rewrite map_length. pose proof (zip3_length xs ys zs n Hx Hy Hz) as E. unfold v3 in *. exact E. Qed.

Lemma zip3_In {A} (a b c : list A) x : In x (zip3 a b c) -> True.
Proof. trivial. Qed.

Lemma sample_sphere_on_sphere radius c xs ys zs p : 0 <= radius ->
  Forall (fun g => g <> (0, 0, 0)) (zip3 xs ys zs) ->
  In p (sample_sphere Rops radius c xs ys zs) -> dist3 Rops c p = radius.
Proof.
  intros Hr Hg Hp. unfold sample_sphere in Hp. apply in_map_iff in Hp as [g [<- Hin]].
  rewrite Forall_forall in Hg. apply sphere_pt_dist; auto.
Qed.

(* ------------------------------------------------------------------ ball *)
Lemma Rcbrt_le_1 u : 0 <= u < 1 -> Rcbrt u <= 1.
Proof.
  intros Hu. pose proof (Rcbrt_nonneg u) as H0. pose proof (Rcbrt_cube u (proj1 Hu)) as H3.
  destruct (Rle_dec (Rcbrt u) 1) as [H|H]; [assumption|]. exfalso.
  assert (1 < Rcbrt u) by lra. assert (1 < Rcbrt u * Rcbrt u) by nra. nra.
Qed.

Lemma ball_pt_sq_dist radius (c g : rv3) u : g <> (0, 0, 0) ->
  sq_dist c (ball_pt Rops radius c g u) = (radius * Rcbrt u) * (radius * Rcbrt u).
Proof.
  intros Hg. pose proof (sumsq_pos g Hg) as HS. destruct c as [[cx cy] cz], g as [[gx gy] gz].
  unfold sq_dist, ball_pt, ball_coord, norm3. cbn in *.
  set (S := gx * gx + gy * gy + gz * gz) in *. set (n := sqrt S).
  assert (Hn : n * n = S) by (apply sqrt_sqrt; lra).
  assert (Hn0 : n <> 0) by (intro E; rewrite E in Hn; lra).
  transitivity ((radius * Rcbrt u) * (radius * Rcbrt u) * (S / (n * n))); [unfold S; field; assumption|].
  rewrite Hn. field. lra.
Qed.

(* the draw u is in the range handed to np.random.uniform (Gen.v: ball_u_lo, ball_u_hi) *)
Definition ball_draw_ok (radius u : R) : Prop := ball_u_lo Rops radius <= u < ball_u_hi Rops radius.

Lemma ball_draw_unit radius u : ball_draw_ok radius u -> 0 <= u < 1.
Proof. unfold ball_draw_ok, ball_u_lo, ball_u_hi. cbn. auto. Qed.

Lemma ball_pt_dist radius (c g : rv3) u : g <> (0, 0, 0) -> 0 <= radius -> ball_draw_ok radius u ->
  dist3 Rops c (ball_pt Rops radius c g u) = radius * Rcbrt u.
Proof.
  intros Hg Hr Hu. unfold dist3, norm3. cbn [osqrt Rops]. fold (sq_dist c (ball_pt Rops radius c g u)).
  rewrite ball_pt_sq_dist by assumption. apply sqrt_square.
  apply Rmult_le_pos; [assumption | apply Rcbrt_nonneg].
Qed.

Lemma ball_pt_inside radius (c g : rv3) u : g <> (0, 0, 0) -> 0 <= radius -> ball_draw_ok radius u ->
  dist3 Rops c (ball_pt Rops radius c g u) <= radius.
Proof.
  intros Hg Hr Hu. rewrite ball_pt_dist by assumption. apply ball_draw_unit in Hu.
  pose proof (Rcbrt_le_1 u Hu). pose proof (Rcbrt_nonneg u). nra.
Qed.

(* the radial law that makes the ball sample uniform in volume: (|p - c| / radius)^3 is the uniform draw *)
Lemma ball_pt_radial_law radius (c g : rv3) u : g <> (0, 0, 0) -> 0 <= radius -> ball_draw_ok radius u ->
  let d := dist3 Rops c (ball_pt Rops radius c g u) in d * d * d = radius * radius * radius * u.
Proof.
  intros Hg Hr Hu d. unfold d. rewrite ball_pt_dist by assumption. apply ball_draw_unit in Hu.
  pose proof (Rcbrt_cube u (proj1 Hu)) as H3.
  transitivity (radius * radius * radius * (Rcbrt u * Rcbrt u * Rcbrt u)); [ring | now rewrite H3].
Qed.

Lemma sample_ball_count radius c xs ys zs us n :
  length xs = n -> length ys = n -> length zs = n -> length us = n -> length (sample_ball Rops radius c xs ys zs us) = n.
Proof. intros Hx Hy Hz Hu. unfold sample_ball. rewrite map2_length. pose proof (zip3_length xs ys zs n Hx Hy Hz) as E. unfold v3 in *. lia. Qed.

Lemma sample_ball_inside radius c xs ys zs us p : 0 <= radius ->
  Forall (fun g => g <> (0, 0, 0)) (zip3 xs ys zs) -> Forall (ball_draw_ok radius) us ->
  In p (sample_ball Rops radius c xs ys zs us) -> dist3 Rops c p <= radius.
Proof.
  intros Hr Hg Hu Hp. unfold sample_ball in Hp. apply map2_In in Hp as [g [u [Hg' [Hu' ->]]]].
  rewrite Forall_forall in Hg, Hu. apply ball_pt_inside; auto.
Qed.

(* ------------------------------------------------------------------ boxes *)
Lemma box_uniform_coord_in p1 p2 u : p1 < p2 -> 0 <= u < 1 ->
  let x := box_uniform_coord Rops (aabb_mini Rops p1 p2) (aabb_maxi Rops p1 p2) (aabb_span Rops p1 p2) u in
  p1 <= x < p2.
Proof. intros H Hu. unfold box_uniform_coord, aabb_mini, aabb_maxi, aabb_span. cbn. nra. Qed.

Lemma box_grid_coord_in p1 p2 x : p1 < p2 -> 0 <= x <= 1 ->
  let y := box_grid_coord Rops (aabb_mini Rops p1 p2) (aabb_maxi Rops p1 p2) (aabb_span Rops p1 p2) x in
  p1 <= y <= p2.
Proof. intros H Hu. unfold box_grid_coord, aabb_mini, aabb_maxi, aabb_span. cbn. nra. Qed.

Lemma box_nonempty_lt p1 p2 : length p2 = length p1 -> box_is_empty Rops p1 p2 = false ->
  forall k, (k < length p1)%nat -> nth k p1 0 < nth k p2 0.
Proof.
  revert p2. induction p1 as [|a p1 IH]; intros [|b p2] Hl He k Hk; simpl in *; try lia.
  unfold box_is_empty in He. cbn [map2 existsb] in He. apply orb_false_iff in He as [He1 He2].
  destruct k as [|k].
  - unfold aabb_empty_coord, aabb_maxi, aabb_mini in He1. cbn in He1. now apply Rleb_false in He1.
  - apply IH; [lia | exact He2 | lia].
Qed.

Definition in_unit_half_open (u : list R) : Prop := Forall (fun x => 0 <= x < 1) u.
Definition in_unit_closed (u : list R) : Prop := Forall (fun x => 0 <= x <= 1) u.

Lemma Forall_nth_R (Pp : R -> Prop) l k : Forall Pp l -> (k < length l)%nat -> Pp (nth k l 0).
Proof. intros H Hk. rewrite Forall_forall in H. apply H. now apply nth_In. Qed.

Lemma box_span_length p1 p2 : length p2 = length p1 -> length (box_span Rops p1 p2) = length p1.
Proof. intros H. unfold box_span. rewrite map2_length. lia. Qed.
Lemma box_mini_length p1 p2 : length p2 = length p1 -> length (box_mini Rops p1 p2) = length p1.
Proof. intros H. unfold box_mini. rewrite map2_length. lia. Qed.
Lemma box_maxi_length p1 p2 : length p2 = length p1 -> length (box_maxi Rops p1 p2) = length p1.
Proof. intros H. unfold box_maxi. rewrite map2_length. lia. Qed.

Lemma box_uniform_pt_in p1 p2 u : length p2 = length p1 -> length u = length p1 ->
  box_is_empty Rops p1 p2 = false -> in_unit_half_open u ->
  length (box_uniform_pt Rops p1 p2 u) = length p1 /\
  forall k, (k < length p1)%nat -> nth k p1 0 <= nth k (box_uniform_pt Rops p1 p2 u) 0 < nth k p2 0.
Proof.
  intros Hl Hu He Hin. split.
  - unfold box_uniform_pt. apply map4_length; auto using box_span_length, box_mini_length, box_maxi_length.
  - intros k Hk. unfold box_uniform_pt.
    rewrite (map4_nth _ _ _ _ _ k 0 0 0 0 0)
      by (rewrite ?box_span_length, ?box_mini_length, ?box_maxi_length by assumption; lia).
    unfold box_mini, box_maxi, box_span. rewrite !(map2_nth _ _ _ k 0 0 0) by lia.
    apply box_uniform_coord_in; [now apply box_nonempty_lt|]. apply (Forall_nth_R _ u k Hin). lia.
Qed.

Lemma box_grid_pt_in p1 p2 x : length p2 = length p1 -> length x = length p1 ->
  box_is_empty Rops p1 p2 = false -> in_unit_closed x ->
  length (box_grid_pt Rops p1 p2 x) = length p1 /\
  forall k, (k < length p1)%nat -> nth k p1 0 <= nth k (box_grid_pt Rops p1 p2 x) 0 <= nth k p2 0.
Proof.
  intros Hl Hu He Hin. split.
  - unfold box_grid_pt. apply map4_length; auto using box_span_length, box_mini_length, box_maxi_length.
  - intros k Hk. unfold box_grid_pt.
    rewrite (map4_nth _ _ _ _ _ k 0 0 0 0 0)
      by (rewrite ?box_span_length, ?box_mini_length, ?box_maxi_length by assumption; lia).
    unfold box_mini, box_maxi, box_span. rewrite !(map2_nth _ _ _ k 0 0 0) by lia.
    apply box_grid_coord_in; [now apply box_nonempty_lt|]. apply (Forall_nth_R _ x k Hin). lia.
Qed.

(* np.linspace(0, 1, n) stays in [0,1] *)
Lemma linspace_unit n j : (0 <= j < n)%Z ->
  0 <= linspace_at Rops (grid_lin_lo Rops) (grid_lin_hi Rops) n j <= 1.
Proof.
  intros Hj. unfold linspace_at, grid_lin_lo, grid_lin_hi. destruct (n <=? 1)%Z eqn:E; cbn; [lra|].
  assert (Hn : (2 <= n)%Z) by lia.
  assert (H1 : 0 < IZR (n - 1)) by (apply IZR_lt; lia).
  assert (H2 : 0 <= IZR j) by (apply IZR_le; lia).
  assert (H3 : IZR j <= IZR (n - 1)) by (apply IZR_le; lia).
  replace (0 + IZR j * ((1 - 0) / IZR (n - 1))) with (IZR j / IZR (n - 1)) by (field; lra).
  split.
  - apply Rmult_le_pos; [assumption|]. left. now apply Rinv_0_lt_compat.
  - apply (Rmult_le_reg_r (IZR (n - 1))); [assumption|]. unfold Rdiv. rewrite Rmult_assoc, Rinv_l by lra. lra.
Qed.

Lemma linspace_all_unit n : in_unit_closed (linspace Rops (grid_lin_lo Rops) (grid_lin_hi Rops) n).
Proof.
  unfold in_unit_closed, linspace. apply Forall_forall. intros x Hx. apply in_map_iff in Hx as [j [<- Hj]].
  apply In_zrange in Hj. now apply linspace_unit.
Qed.

Lemma tuples_spec (axis : list R) d x : In x (tuples axis d) -> length x = d /\ Forall (fun y => In y axis) x.
Proof.
  revert x. induction d as [|d IH]; intros x H; simpl in H.
  - destruct H as [<-|[]]. split; [reflexivity | constructor].
  - apply in_flat_map in H as [a [Ha H]]. apply in_map_iff in H as [t [<- Ht]].
    destruct (IH t Ht) as [Hl Hf]. split; [simpl; lia | now constructor].
Qed.

Lemma tuples_length (axis : list R) d : length (tuples axis d) = (length axis ^ d)%nat.
Proof.
  induction d as [|d IH]; [reflexivity|]. cbn [tuples Nat.pow].
  assert (E : forall l : list R, length (flat_map (fun x => map (cons x) (tuples axis d)) l) = (length l * length (tuples axis d))%nat).
  { induction l as [|a l IHl]; [reflexivity|]. cbn [flat_map]. rewrite app_length, map_length, IHl. simpl. lia. }
  rewrite E, IH. reflexivity.
Qed.

(* the whole of sample_AABB *)
Lemma sample_box_uniform pc p1 p2 n us pts : length p2 = length p1 ->
  Forall (fun u => length u = length p1 /\ in_unit_half_open u) us ->
  sample_box Rops MUniform pc p1 p2 n us = Ok pts ->
  length pts = length us /\
  forall p, In p pts -> length p = length p1 /\ forall k, (k < length p1)%nat -> nth k p1 0 <= nth k p 0 < nth k p2 0.
Proof.
  intros Hl Hus H. unfold sample_box in H.
  destruct (box_is_empty Rops p1 p2) eqn:He; [discriminate|].
  destruct (box_pc_dim_guard (Z.of_nat (length p1)) && pc); [discriminate|].
  inversion H; subst. split; [apply map_length|].
  intros p Hp. apply in_map_iff in Hp as [u [<- Hu]]. rewrite Forall_forall in Hus. destruct (Hus u Hu).
  now apply box_uniform_pt_in.
Qed.

Lemma sample_box_grid pc p1 p2 n us pts : length p2 = length p1 ->
  sample_box Rops MGrid pc p1 p2 n us = Ok pts ->
  let r := grid_res n (Z.of_nat (length p1)) in
  length pts = (Z.to_nat r ^ length p1)%nat /\
  forall p, In p pts -> length p = length p1 /\ forall k, (k < length p1)%nat -> nth k p1 0 <= nth k p 0 <= nth k p2 0.
Proof.
  intros Hl H r. unfold sample_box in H.
  destruct (box_is_empty Rops p1 p2) eqn:He; [discriminate|].
  destruct (box_pc_dim_guard (Z.of_nat (length p1)) && pc); [discriminate|].
  inversion H; subst. split.
  - rewrite map_length, tuples_length. unfold linspace. rewrite map_length, zrange_length. reflexivity.
  - intros p Hp. apply in_map_iff in Hp as [x [<- Hx]]. apply tuples_spec in Hx as [Hlx Hfx].
    apply box_grid_pt_in; auto. unfold in_unit_closed. apply Forall_forall. intros y Hy.
    rewrite Forall_forall in Hfx. specialize (Hfx y Hy).
    pose proof (linspace_all_unit (grid_res n (Z.of_nat (length p1)))) as Hall.
    unfold in_unit_closed in Hall. rewrite Forall_forall in Hall. now apply Hall.
Qed.

Lemma sample_box_rejects m pc p1 p2 n us :
  (m = MOther -> sample_box Rops m pc p1 p2 n us = Err EBadMode) /\
  (m <> MOther -> box_is_empty Rops p1 p2 = true -> sample_box Rops m pc p1 p2 n us = Err EEmptyBox).
Proof.
  split.
  - intros ->. reflexivity.
  - intros Hm He. unfold sample_box. rewrite He. destruct m; congruence.
Qed.

(* ------------------------------------------------------------------ probability vectors *)
Lemma tsum_map_div (l : list R) s : tsum Rops (map (fun w => w / s) l) = tsum Rops l / s.
Proof. induction l as [|a l IH]; simpl; [unfold Rdiv; cbn; ring|]. cbn in *. rewrite IH. unfold Rdiv. ring. Qed.

Lemma tsum_nonneg (l : list R) : Forall (fun w => 0 <= w) l -> 0 <= tsum Rops l.
Proof. induction 1; simpl; cbn in *; lra. Qed.

(* normalising non-negative weights with a positive total gives a probability vector proportional to them *)
Lemma probs_spec (prob : R -> R -> R) (l : list R) :
  (forall w total, prob w total = w / total) ->
  Forall (fun w => 0 <= w) l -> 0 < tsum Rops l ->
  let p := map (fun w => prob w (tsum Rops l)) l in
  Forall (fun x => 0 <= x) p /\ tsum Rops p = 1 /\ length p = length l
  /\ forall k, (k < length l)%nat -> nth k p 0 * tsum Rops l = nth k l 0.
Proof.
  intros Hp Hl Hs p. unfold p. rewrite (map_ext _ (fun w => w / tsum Rops l)) by (intros; apply Hp).
  repeat split.
  - apply Forall_forall. intros x Hx. apply in_map_iff in Hx as [w [<- Hw]]. rewrite Forall_forall in Hl.
    apply Rmult_le_pos; [now apply Hl | left; now apply Rinv_0_lt_compat].
  - rewrite tsum_map_div. field. lra.
  - apply map_length.
  - intros k Hk. rewrite (nth_indep _ 0 ((fun w => w / tsum Rops l) 0)) by (rewrite map_length; lia).
    change ((fun w => w / tsum Rops l) 0) with (0 / tsum Rops l).
    rewrite (map_nth (fun w => w / tsum Rops l)). field. lra.
Qed.

Lemma poly_prob_eq w total : poly_prob Rops w total = w / total.
Proof. reflexivity. Qed.
Lemma surf_prob_eq w total : surf_prob Rops w total = w / total.
Proof. reflexivity. Qed.

Lemma dist3_nonneg a b : 0 <= dist3 Rops a b.
Proof. unfold dist3, norm3. cbn [osqrt Rops]. apply sqrt_pos. Qed.
Lemma tri_area_nonneg A B C : 0 <= tri_area Rops A B C.
Proof.
  unfold tri_area, norm3. cbn [osqrt odiv oZ Rops].
  apply Rmult_le_pos; [apply sqrt_pos | lra].
Qed.

Lemma edge_lengths_spec V E lens : edge_lengths Rops V E = Ok lens ->
  length lens = length E /\ Forall (fun w => 0 <= w) lens /\
  forall k a b, nth_error E k = Some (a, b) ->
    exists A B, nth_res V a = Ok A /\ nth_res V b = Ok B /\ nth_error lens k = Some (dist3 Rops A B).
Proof.
  intros H. unfold edge_lengths in H. apply res_seq_ok in H as [Hl Hn]. rewrite map_length in Hl.
  split; [exact Hl|]. split.
  - apply Forall_forall. intros w Hw. apply In_nth_error in Hw as [k Hk].
    assert (Hk' : (k < length E)%nat) by (rewrite <- Hl; apply nth_error_Some; congruence).
    destruct (nth_error E k) as [e|] eqn:Ee; [|apply nth_error_None in Ee; lia].
    destruct (Hn k _ (map_nth_error _ _ _ Ee)) as [a [Ha Hr]]. rewrite Hk in Ha. inversion Ha; subst a.
    destruct (nth_res V (fst e)) as [A|]; [|discriminate]. destruct (nth_res V (snd e)) as [B|]; [|discriminate].
    cbn [res_bind] in Hr. rewrite c_edge_len_eq in Hr. inversion Hr. apply dist3_nonneg.
  - intros k a b Ee. destruct (Hn k _ (map_nth_error _ _ _ Ee)) as [w [Hw Hr]]. cbn [fst snd] in Hr.
    destruct (nth_res V a) as [A|]; [|discriminate]. destruct (nth_res V b) as [B|]; [|discriminate].
    cbn [res_bind] in Hr. rewrite c_edge_len_eq in Hr. inversion Hr; subst. exists A, B. auto.
Qed.

Lemma face_areas_spec V F areas : face_areas Rops V F = Ok areas ->
  length areas = length F /\ Forall (fun w => 0 <= w) areas /\
  forall k f, nth_error F k = Some f ->
    exists A B C, tri_pts V f = Ok (A, B, C) /\ nth_error areas k = Some (tri_area Rops A B C).
Proof.
  intros H. unfold face_areas in H. apply res_seq_ok in H as [Hl Hn]. rewrite map_length in Hl.
  split; [exact Hl|]. split.
  - apply Forall_forall. intros w Hw. apply In_nth_error in Hw as [k Hk].
    assert (Hk' : (k < length F)%nat) by (rewrite <- Hl; apply nth_error_Some; congruence).
    destruct (nth_error F k) as [f|] eqn:Ee; [|apply nth_error_None in Ee; lia].
    destruct (Hn k _ (map_nth_error _ _ _ Ee)) as [a [Ha Hr]]. rewrite Hk in Ha. inversion Ha; subst a.
    destruct (tri_pts V f) as [[[A B] C]|]; [|discriminate].
    cbn [res_bind] in Hr. rewrite c_tri_area_eq in Hr. inversion Hr. apply tri_area_nonneg.
  - intros k f Ee. destruct (Hn k _ (map_nth_error _ _ _ Ee)) as [w [Hw Hr]].
    destruct (tri_pts V f) as [[[A B] C]|]; [|discriminate].
    cbn [res_bind] in Hr. rewrite c_tri_area_eq in Hr. inversion Hr; subst. exists A, B, C. auto.
Qed.

(* ------------------------------------------------------------------ polyline *)
(* p = s*A + (1-s)*B with 0 <= s <= 1 *)
Definition on_segment (A B p : rv3) : Prop :=
  exists s, 0 <= s <= 1 /\
    let '(ax, ay, az) := A in let '(bx, by_, bz) := B in
    p = (s * ax + (1 - s) * bx, s * ay + (1 - s) * by_, s * az + (1 - s) * bz).

Lemma poly_pt_on_edge V E e t p : 0 <= t < 1 -> poly_pt Rops V E e t = Ok p ->
  exists a b A B, nth_res E e = Ok (a, b) /\ nth_res V a = Ok A /\ nth_res V b = Ok B /\ on_segment A B p.
Proof.
  intros Ht H. unfold poly_pt in H.
  destruct (nth_res E e) as [[a b]|] eqn:Ee; [|discriminate]. cbn [res_bind fst snd] in H.
  destruct (nth_res V a) as [A|] eqn:Ea; [|discriminate]. cbn [res_bind] in H.
  destruct (nth_res V b) as [B|] eqn:Eb; [|discriminate]. cbn [res_bind] in H.
  exists a, b, A, B. repeat split; auto.
  destruct A as [[ax ay] az], B as [[bx by_] bz]. inversion H; subst.
  exists t. split; [lra|]. unfold poly_coord. cbn. reflexivity.
Qed.

Lemma res_seq_map2_ok {A B C} (f : A -> B -> res C) l1 l2 s : res_seq (map2 f l1 l2) = Ok s ->
  length s = Nat.min (length l1) (length l2) /\
  forall i a b, nth_error l1 i = Some a -> nth_error l2 i = Some b -> exists c, nth_error s i = Some c /\ f a b = Ok c.
Proof.
  intros H. apply res_seq_ok in H as [Hl Hn]. rewrite map2_length in Hl. split; [exact Hl|].
  intros i a b Ha Hb. apply (Hn i). now apply map2_nth_error.
Qed.

Lemma sample_polyline_spec V E n chosen ts pts : Forall (fun t => 0 <= t < 1) ts ->
  sample_polyline Rops V E n chosen ts = Ok pts ->
  let used := poly_edges_used (Z.of_nat (length E)) n chosen in
  length pts = Nat.min (length used) (length ts) /\
  forall i e p, nth_error used i = Some e -> nth_error pts i = Some p ->
    exists a b A B, nth_res E e = Ok (a, b) /\ nth_res V a = Ok A /\ nth_res V b = Ok B /\ on_segment A B p.
Proof.
  intros Ht H used. unfold sample_polyline in H. fold used in H.
  apply res_seq_map2_ok in H as [Hl Hn]. split; [exact Hl|].
  intros i e p He Hp.
  assert (Hi0 : (i < length pts)%nat) by (apply nth_error_Some; congruence).
  assert (Hi : (i < length ts)%nat) by lia.
  destruct (nth_error ts i) as [t|] eqn:Et; [|apply nth_error_None in Et; lia].
  destruct (Hn i e t He Et) as [c [Hc Hf]]. rewrite Hp in Hc. inversion Hc; subst c.
  apply (poly_pt_on_edge V E e t p); [|exact Hf].
  rewrite Forall_forall in Ht. apply Ht. eapply nth_error_In; eauto.
Qed.

Lemma poly_edges_used_length NE n chosen : (0 <= n)%Z -> length chosen = Z.to_nat n ->
  length (poly_edges_used NE n chosen) = Z.to_nat n.
Proof. intros Hn Hc. unfold poly_edges_used. destruct (poly_use_choice NE); [exact Hc | apply repeat_length]. Qed.

(* ------------------------------------------------------------------ surface *)
(* the barycentric weights of the draw (u1, u2) *)
Definition bary_w (u1 u2 : R) : R * R * R := (sqrt u1 * (1 - u2), 1 - sqrt u1, sqrt u1 * u2).

Lemma bary_w_ok u1 u2 : 0 <= u1 < 1 -> 0 <= u2 < 1 ->
  let '(wa, wb, wc) := bary_w u1 u2 in 0 <= wa /\ 0 <= wb /\ 0 <= wc /\ wa + wb + wc = 1.
Proof.
  intros H1 H2. unfold bary_w. pose proof (sqrt_pos u1) as Hs.
  assert (Hs1 : sqrt u1 < 1) by (rewrite <- sqrt_1; apply sqrt_lt_1; lra).
  repeat split; try nra.
Qed.

Lemma surf_pt_of_bary (A B C : rv3) u1 u2 :
  let '(wa, wb, wc) := bary_w u1 u2 in
  let '(ax, ay, az) := A in let '(bx, by_, bz) := B in let '(cx, cy, cz) := C in
  surf_pt_of Rops A B C u1 u2 =
    (wa * ax + wb * bx + wc * cx, wa * ay + wb * by_ + wc * cy, wa * az + wb * bz + wc * cz).
Proof.
  unfold bary_w. destruct A as [[ax ay] az], B as [[bx by_] bz], C as [[cx cy] cz].
  unfold surf_pt_of, surf_coord, surf_r1, surf_r2. cbn. f_equal; [f_equal|]; ring.
Qed.

Definition in_triangle (A B C p : rv3) : Prop :=
  exists wa wb wc, 0 <= wa /\ 0 <= wb /\ 0 <= wc /\ wa + wb + wc = 1 /\
    let '(ax, ay, az) := A in let '(bx, by_, bz) := B in let '(cx, cy, cz) := C in
    p = (wa * ax + wb * bx + wc * cx, wa * ay + wb * by_ + wc * cy, wa * az + wb * bz + wc * cz).

Lemma surf_pt_of_in_triangle A B C u1 u2 : 0 <= u1 < 1 -> 0 <= u2 < 1 -> in_triangle A B C (surf_pt_of Rops A B C u1 u2).
Proof.
  intros H1 H2. pose proof (bary_w_ok u1 u2 H1 H2) as Hw. pose proof (surf_pt_of_bary A B C u1 u2) as Hp.
  destruct (bary_w u1 u2) as [[wa wb] wc]. destruct Hw as [Ha [Hb [Hc Hs]]].
  exists wa, wb, wc. split; [assumption|]. split; [assumption|]. split; [assumption|]. split; [assumption|].
  destruct A as [[ax ay] az], B as [[bx by_] bz], C as [[cx cy] cz]. exact Hp.
Qed.

Lemma surf_pt_in_face V F f u p : 0 <= fst u < 1 -> 0 <= snd u < 1 -> surf_pt Rops V F f u = Ok p ->
  exists fc A B C, nth_res F f = Ok fc /\ tri_pts V fc = Ok (A, B, C) /\ in_triangle A B C p.
Proof.
  intros H1 H2 H. unfold surf_pt in H.
  destruct (nth_res F f) as [fc|] eqn:Ef; [|discriminate]. cbn [res_bind] in H.
  destruct (tri_pts V fc) as [[[A B] C]|] eqn:Et; [|discriminate]. cbn [res_bind] in H.
  inversion H; subst. exists fc, A, B, C. repeat split; auto. now apply surf_pt_of_in_triangle.
Qed.

Lemma sample_surface_spec V F chosen us pts : Forall (fun u => 0 <= fst u < 1 /\ 0 <= snd u < 1) us ->
  sample_surface Rops V F chosen us = Ok pts ->
  length pts = Nat.min (length chosen) (length us) /\
  forall i f p, nth_error chosen i = Some f -> nth_error pts i = Some p ->
    exists fc A B C, nth_res F f = Ok fc /\ tri_pts V fc = Ok (A, B, C) /\ in_triangle A B C p.
Proof.
  intros Hu H. unfold sample_surface in H. apply res_seq_map2_ok in H as [Hl Hn]. split; [exact Hl|].
  intros i f p Hf Hp.
  assert (Hi0 : (i < length pts)%nat) by (apply nth_error_Some; congruence).
  assert (Hi : (i < length us)%nat) by lia.
  destruct (nth_error us i) as [u|] eqn:Eu; [|apply nth_error_None in Eu; lia].
  destruct (Hn i f u Hf Eu) as [c [Hc Hfu]]. rewrite Hp in Hc. inversion Hc; subst c.
  rewrite Forall_forall in Hu. destruct (Hu u (nth_error_In _ _ Eu)).
  now apply (surf_pt_in_face V F f u p).
Qed.

(* normals: entry i is the unit normal of the face sample i was drawn on *)
Lemma sample_surface_normals_spec V F chosen ns : sample_surface_normals Rops V F chosen = Ok ns ->
  length ns = length chosen /\
  forall i f nn, nth_error chosen i = Some f -> nth_error ns i = Some nn ->
    exists fc A B C, nth_res F f = Ok fc /\ tri_pts V fc = Ok (A, B, C) /\ nn = tri_normal Rops A B C.
Proof.
  intros H. unfold sample_surface_normals in H.
  destruct (face_normals Rops V F) as [N|] eqn:EN; [|discriminate]. cbn [res_bind] in H.
  apply res_seq_ok in H as [Hl Hn]. rewrite map_length in Hl. split; [exact Hl|].
  intros i f nn Hf Hnn. destruct (Hn i _ (map_nth_error _ _ _ Hf)) as [a [Ha Hr]].
  rewrite Hnn in Ha. inversion Ha; subst a. unfold surf_normal_index in Hr.
  apply nth_res_ok in Hr as [Hf0 HN].
  unfold face_normals in EN. apply res_seq_ok in EN as [HlN HnN]. rewrite map_length in HlN.
  assert (Hlt : (Z.to_nat f < length F)%nat) by (rewrite <- HlN; apply nth_error_Some; congruence).
  destruct (nth_error F (Z.to_nat f)) as [fc|] eqn:Efc; [|apply nth_error_None in Efc; lia].
  destruct (HnN _ _ (map_nth_error _ _ _ Efc)) as [a [Ha2 Hr2]]. rewrite HN in Ha2. inversion Ha2; subst a.
  destruct (tri_pts V fc) as [[[A B] C]|] eqn:Et; [|discriminate]. cbn [res_bind] in Hr2. rewrite c_tri_normal_eq in Hr2. inversion Hr2.
  exists fc, A, B, C. repeat split; auto.
  unfold nth_res. destruct (f <? 0)%Z eqn:E; [lia|]. now rewrite Efc.
Qed.

(* what "the face's unit normal" means: unit length, orthogonal to both edge vectors (non-degenerate faces) *)
Lemma tri_normal_spec (A B C : rv3) :
  cross3 Rops (sub3 Rops B A) (sub3 Rops C A) <> (0, 0, 0) ->
  let n := tri_normal Rops A B C in
  dot3 Rops n n = 1 /\ dot3 Rops n (sub3 Rops B A) = 0 /\ dot3 Rops n (sub3 Rops C A) = 0.
Proof.
  intros Hnd. pose proof (sumsq_pos _ Hnd) as HS.
  destruct A as [[ax ay] az], B as [[bx by_] bz], C as [[cx cy] cz].
  unfold tri_normal, norm3. cbn in *.
  set (x := (by_ - ay) * (cz - az) - (bz - az) * (cy - ay)) in *.
  set (y := (cx - ax) * (bz - az) - (cz - az) * (bx - ax)) in *.
  set (z := (bx - ax) * (cy - ay) - (by_ - ay) * (cx - ax)) in *.
  set (S := x * x + y * y + z * z) in *. set (l := sqrt S).
  assert (Hl : l * l = S) by (apply sqrt_sqrt; lra).
  assert (Hl0 : l <> 0) by (intro E; rewrite E in Hl; lra).
  repeat split.
  - transitivity (S / (l * l)); [unfold S; field; assumption | rewrite Hl; field; lra].
  - unfold x, y, z. field. assumption.
  - unfold x, y, z. field. assumption.
Qed.

(* a point of the face lies in the plane through A with that normal *)
Lemma in_triangle_in_plane A B C p : in_triangle A B C p ->
  cross3 Rops (sub3 Rops B A) (sub3 Rops C A) <> (0, 0, 0) ->
  dot3 Rops (tri_normal Rops A B C) (sub3 Rops p A) = 0.
Proof.
  intros [wa [wb [wc [_ [_ [_ [Hs Hp]]]]]]] Hnd. destruct (tri_normal_spec A B C Hnd) as [_ [H1 H2]].
  destruct A as [[ax ay] az], B as [[bx by_] bz], C as [[cx cy] cz]. subst p.
  destruct (tri_normal Rops (ax, ay, az) (bx, by_, bz) (cx, cy, cz)) as [[nx ny] nz]. cbn in *.
  assert (wa = 1 - wb - wc) by lra. subst wa.
  transitivity (wb * (nx * (bx - ax) + ny * (by_ - ay) + nz * (bz - az)) + wc * (nx * (cx - ax) + ny * (cy - ay) + nz * (cz - az))); [ring|].
  rewrite H1, H2. ring.
Qed.
