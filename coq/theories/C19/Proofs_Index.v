(* C19 - export index theorems (discrete; closed under the global context) *)
From Coq Require Import ZArith List Bool Lia.
Import ListNotations.
Require Import MV.Lib.Base MV.C19.Ops MV.C19.Gen.
Open Scope Z_scope.

(* position of sample (i, j) in the order in which as_surface creates its vertices *)
Lemma flat_map_const_length {A B} (f : A -> list B) (l : list A) (k : nat) :
  (forall a, In a l -> length (f a) = k) -> length (flat_map f l) = (length l * k)%nat.
Proof.
  induction l as [|a l IH]; intros H; simpl; [reflexivity|].
  rewrite app_length, H by (now left). rewrite IH; [lia|]. intros; apply H; now right.
Qed.

Lemma surface_vertex_count n1 n2 : 0 <= n1 -> 0 <= n2 ->
  Z.of_nat (length (surface_vertex_params n1 n2)) = n1 * n2.
Proof.
  intros H1 H2. unfold surface_vertex_params.
  rewrite (flat_map_const_length _ _ (Z.to_nat n2)).
  - rewrite zrange_length, Nat2Z.inj_mul, !Z2Nat.id by lia. reflexivity.
  - intros a _. rewrite (flat_map_const_length _ _ 1%nat); [rewrite zrange_length; lia | reflexivity].
Qed.

Lemma surface_face_count n1 n2 : 1 <= n1 -> 1 <= n2 ->
  Z.of_nat (length (surface_faces n1 n2)) = (n1 - 1) * (n2 - 1).
Proof.
  intros H1 H2. unfold surface_faces.
  rewrite (flat_map_const_length _ _ (Z.to_nat (n2 - 1))).
  - rewrite zrange_length, Nat2Z.inj_mul, !Z2Nat.id by lia. reflexivity.
  - intros a _. rewrite (flat_map_const_length _ _ 1%nat); [rewrite zrange_length; lia | reflexivity].
Qed.

(* every index of every face is a vertex: for ALL n1, n2 *)
Lemma surface_faces_in_range n1 n2 f x :
  In f (surface_faces n1 n2) -> In x f -> 0 <= x < n1 * n2.
Proof.
  unfold surface_faces. intros Hf Hx.
  apply in_flat_map in Hf as [i [Hi Hf]]. apply in_flat_map in Hf as [j [Hj Hf]].
  apply In_zrange in Hi. apply In_zrange in Hj.
  destruct Hf as [<-|[]]. simpl in Hx.
  destruct Hx as [<-|[<-|[<-|[<-|[]]]]]; nia.
Qed.
