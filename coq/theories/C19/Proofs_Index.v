(* C19 - export index theorems (discrete; closed under the global context) *)
From Coq Require Import ZArith List Bool Lia.
Import ListNotations.
Require Import MV.Lib.Base MV.C19.Ops MV.C19.Gen.
Open Scope Z_scope.

(* position of sample (i, j) in the order in which as_surface creates its vertices *)
Lemma flat_map_const_length {A B} (f : A -> list B) (l : list A) (k : nat) :
  (forall a, In a l -> length (f a) = k) -> length (flat_map f l) = (length l * k)%nat.
Proof.
  induction l as [|a l IH]; intros H; simpl; [reflexivity|].
  rewrite app_length, H by (now left). rewrite IH; [lia|]. intros; apply H; now right.
Qed.

Lemma surface_vertex_count n1 n2 : 0 <= n1 -> 0 <= n2 ->
  Z.of_nat (length (surface_vertex_params n1 n2)) = n1 * n2.
Proof.
  intros H1 H2. unfold surface_vertex_params.
  rewrite (flat_map_const_length _ _ (Z.to_nat n2)).
  - rewrite zrange_length, Nat2Z.inj_mul, !Z2Nat.id by lia. reflexivity.
  - intros a _. rewrite (flat_map_const_length _ _ 1%nat); [rewrite zrange_length; lia | reflexivity].
Qed.

Lemma surface_face_count n1 n2 : 1 <= n1 -> 1 <= n2 ->
  Z.of_nat (length (surface_faces n1 n2)) = (n1 - 1) * (n2 - 1).
Proof.
  intros H1 H2. unfold surface_faces.
  rewrite (flat_map_const_length _ _ (Z.to_nat (n2 - 1))).
  - rewrite zrange_length, Nat2Z.inj_mul, !Z2Nat.id by lia. reflexivity.
  - intros a _. rewrite (flat_map_const_length _ _ 1%nat); [rewrite zrange_length; lia | reflexivity].
Qed.

(* every index of every face is a vertex: for ALL n1, n2 *)
Lemma surface_faces_in_range n1 n2 f x :
  In f (surface_faces n1 n2) -> In x f -> 0 <= x < n1 * n2.
Proof.
  unfold surface_faces. intros Hf Hx.
  apply in_flat_map in Hf as [i [Hi Hf]]. apply in_flat_map in Hf as [j [Hj Hf]].
  apply In_zrange in Hi. apply In_zrange in Hj.
  destruct Hf as [<-|[]]. simpl in Hx.
  destruct Hx as [<-|[<-|[<-|[<-|[]]]]]; nia.
Qed.

(* ------------------------------------------------------------------ blocks of a flat_map *)
Lemma flat_map_nth_block {A B} (f : A -> list B) (k : nat) :
  (forall a, length (f a) = k) ->
  forall l i j a, nth_error l i = Some a -> (j < k)%nat ->
  nth_error (flat_map f l) (i * k + j) = nth_error (f a) j.
Proof.
  intros Hk. induction l as [|a0 l IH]; intros i j a Hi Hj; [destruct i; discriminate|].
  destruct i as [|i]; simpl in Hi.
  - inversion Hi; subst. simpl. apply nth_error_app1. rewrite Hk. lia.
  - cbn [flat_map]. rewrite nth_error_app2 by (rewrite Hk; lia). rewrite Hk.
    replace (S i * k + j - k)%nat with (i * k + j)%nat by lia. now apply IH.
Qed.

Lemma zrange_nth_error n i : (0 <= i < n) -> nth_error (zrange n) (Z.to_nat i) = Some i.
Proof.
  intros H. unfold zrange. erewrite map_nth_error; [|apply nth_error_nth' with (d := 0%nat); rewrite seq_length; lia].
  rewrite seq_nth by lia. f_equal. lia.
Qed.

Lemma flat_map_single {A B} (f : A -> B) l : flat_map (fun a => [f a]) l = map f l.
Proof. induction l; simpl; congruence. Qed.

(* the vertex created at position i*n2 + j is the sample (U[i], V[j]) *)
Lemma surface_vertex_at n1 n2 i j : 0 <= i < n1 -> 0 <= j < n2 ->
  nth_error (surface_vertex_params n1 n2) (Z.to_nat (i * n2 + j)) = Some (i, j).
Proof.
  intros Hi Hj. unfold surface_vertex_params.
  replace (Z.to_nat (i * n2 + j)) with (Z.to_nat i * Z.to_nat n2 + Z.to_nat j)%nat by nia.
  rewrite (flat_map_nth_block _ (Z.to_nat n2)) with (a := i).
  - rewrite flat_map_single. erewrite map_nth_error; [reflexivity | now apply zrange_nth_error].
  - intros a. rewrite flat_map_single, map_length. apply zrange_length.
  - now apply zrange_nth_error.
  - lia.
Qed.

Lemma surface_uv_is_vertex_order n1 n2 : surface_uv_params n1 n2 = surface_vertex_params n1 n2.
Proof. reflexivity. Qed.

(* face number i*(n2-1) + j is the cell (i, j) *)
Definition cell_corners (n2 i j : Z) : list Z := [i * n2 + j; i * n2 + (j + 1); (i + 1) * n2 + (j + 1); (i + 1) * n2 + j].

Lemma surface_face_at n1 n2 i j : 0 <= i < n1 - 1 -> 0 <= j < n2 - 1 ->
  nth_error (surface_faces n1 n2) (Z.to_nat (i * (n2 - 1) + j)) = Some (cell_corners n2 i j).
Proof.
  intros Hi Hj. unfold surface_faces.
  replace (Z.to_nat (i * (n2 - 1) + j)) with (Z.to_nat i * Z.to_nat (n2 - 1) + Z.to_nat j)%nat by nia.
  rewrite (flat_map_nth_block _ (Z.to_nat (n2 - 1))) with (a := i).
  - rewrite flat_map_single. erewrite map_nth_error; [|now apply zrange_nth_error].
    unfold cell_corners. f_equal. repeat (f_equal; try lia).
  - intros a. rewrite flat_map_single, map_length. apply zrange_length.
  - now apply zrange_nth_error.
  - lia.
Qed.

(* grid consistency: every face joins, in order, the samples (i,j) (i,j+1) (i+1,j+1) (i+1,j) of ONE cell,
   for all n1, n2 (equal or not) *)
Definition vertex_sample n1 n2 (x : Z) : option (Z * Z) :=
  if x <? 0 then None else nth_error (surface_vertex_params n1 n2) (Z.to_nat x).

Lemma surface_faces_grid_consistent n1 n2 f : In f (surface_faces n1 n2) ->
  exists i j a b c d, 0 <= i < n1 - 1 /\ 0 <= j < n2 - 1 /\ f = [a; b; c; d]
    /\ vertex_sample n1 n2 a = Some (i, j) /\ vertex_sample n1 n2 b = Some (i, j + 1)
    /\ vertex_sample n1 n2 c = Some (i + 1, j + 1) /\ vertex_sample n1 n2 d = Some (i + 1, j).
Proof.
  unfold surface_faces. intros Hf.
  apply in_flat_map in Hf as [i [Hi Hf]]. apply in_flat_map in Hf as [j [Hj Hf]].
  apply In_zrange in Hi. apply In_zrange in Hj. destruct Hf as [<-|[]].
  exists i, j. do 4 eexists. split; [lia|]. split; [lia|]. split; [reflexivity|].
  unfold vertex_sample.
  assert (E1 : i * n2 + j + 1 = i * n2 + (j + 1)) by lia.
  assert (E2 : (i + 1) * n2 + j + 1 = (i + 1) * n2 + (j + 1)) by lia.
  rewrite E1, E2.
  repeat split.
  - destruct (i * n2 + j <? 0) eqn:E; [nia|]. apply surface_vertex_at; lia.
  - destruct (i * n2 + (j + 1) <? 0) eqn:E; [nia|]. apply surface_vertex_at; lia.
  - destruct ((i + 1) * n2 + (j + 1) <? 0) eqn:E; [nia|]. apply surface_vertex_at; lia.
  - destruct ((i + 1) * n2 + j <? 0) eqn:E; [nia|]. apply surface_vertex_at; lia.
Qed.

(* ------------------------------------------------------------------ as_polyline edges *)
Lemma polyline_edges_eq n_pts k m : polyline_edges n_pts k m = map (fun i => (i, i + 1)) (zrange (m - 1)).
Proof. unfold polyline_edges. apply flat_map_single. Qed.

(* m sampled positions -> exactly the m-1 edges (i, i+1), whatever n_pts is *)
Lemma polyline_edges_spec n_pts k m :
  Z.of_nat (length (polyline_edges n_pts k m)) = Z.max 0 (m - 1) /\
  (forall i, 0 <= i < m - 1 -> nth_error (polyline_edges n_pts k m) (Z.to_nat i) = Some (i, i + 1)) /\
  (forall a b, In (a, b) (polyline_edges n_pts k m) -> 0 <= a /\ b = a + 1 /\ b < m).
Proof.
  rewrite polyline_edges_eq. repeat split.
  - rewrite map_length, zrange_length. lia.
  - intros i Hi. erewrite map_nth_error; [reflexivity | now apply zrange_nth_error].
  - apply in_map_iff in H as [i [E Hi]]. apply In_zrange in Hi. inversion E; subst. lia.
  - apply in_map_iff in H as [i [E Hi]]. apply In_zrange in Hi. inversion E; subst. lia.
  - apply in_map_iff in H as [i [E Hi]]. apply In_zrange in Hi. inversion E; subst. lia.
Qed.

(* ------------------------------------------------------------------ grid resolution round(n ** (1/d)) *)
Lemma iroot_search_spec n d : forall fuel r0, 0 <= r0 ->
  (forall r', 0 <= r' < r0 -> (2 * r' + 1) ^ d <= 2 ^ d * n) ->
  (exists rs, r0 <= rs <= r0 + Z.of_nat fuel /\ 2 ^ d * n < (2 * rs + 1) ^ d) ->
  let r := iroot_search fuel n d r0 in
  r0 <= r /\ 2 ^ d * n < (2 * r + 1) ^ d /\ forall r', 0 <= r' < r -> (2 * r' + 1) ^ d <= 2 ^ d * n.
Proof.
  induction fuel as [|f IH]; intros r0 H0 Hlow [rs [Hrs Hhit]]; cbn [iroot_search].
  - assert (rs = r0) by lia. subst. repeat split; auto; lia.
  - destruct (2 ^ d * n <? (2 * r0 + 1) ^ d) eqn:E.
    + apply Z.ltb_lt in E. repeat split; auto; lia.
    + apply Z.ltb_ge in E. destruct (IH (r0 + 1)) as [H1 [H2 H3]]; [lia| | |].
      * intros r' Hr'. destruct (Z.eq_dec r' r0) as [->|Hne]; [exact E | apply Hlow; lia].
      * exists rs. split; [|exact Hhit]. assert (rs <> r0) by (intro; subst; lia). lia.
      * repeat split; auto; lia.
Qed.

Lemma iroot_bound n d : 0 <= n -> 1 <= d -> 2 ^ d * n < (2 * n + 1) ^ d.
Proof.
  intros Hn Hd. destruct (Z.eq_dec n 0) as [->|Hne].
  - rewrite Z.mul_0_r. simpl. rewrite Z.pow_1_l by lia. lia.
  - apply Z.le_lt_trans with ((2 * n) ^ d).
    + rewrite Z.pow_mul_l. apply Z.mul_le_mono_nonneg_l; [apply Z.pow_nonneg; lia|].
      rewrite <- (Z.pow_1_r n) at 1. apply Z.pow_le_mono_r; lia.
    + apply Z.pow_lt_mono_l; lia.
Qed.

(* r = round(n ** (1/d)) is the integer nearest to the real d-th root: (r - 1/2)^d <= n < (r + 1/2)^d *)
Lemma iroot_round_spec n d : 0 <= n -> 1 <= d ->
  let r := iroot_round n d in
  0 <= r /\ 2 ^ d * n < (2 * r + 1) ^ d /\ (1 <= r -> (2 * r - 1) ^ d <= 2 ^ d * n) /\ (r = 0 <-> n = 0).
Proof.
  intros Hn Hd r. unfold r, iroot_round.
  destruct (iroot_search_spec n d (Z.to_nat n) 0) as [H1 [H2 H3]]; [lia | intros; lia | |].
  - exists n. split; [lia|]. now apply iroot_bound.
  - set (q := iroot_search (Z.to_nat n) n d 0) in *. repeat split; auto.
    + intros Hq. specialize (H3 (q - 1)). replace (2 * (q - 1) + 1) with (2 * q - 1) in H3 by lia. apply H3. lia.
    + intros Hq. rewrite Hq in H2. simpl in H2. rewrite Z.pow_1_l in H2 by lia.
      assert (0 < 2 ^ d) by (apply Z.pow_pos_nonneg; lia). nia.
    + intros ->. destruct (Z.eq_dec q 0) as [|Hne]; [assumption|]. exfalso.
      specialize (H3 0). rewrite Z.mul_0_r in H3. simpl in H3. rewrite Z.pow_1_l in H3 by lia. lia.
Qed.

(* ------------------------------------------------------------------ uniqueness of the nearest root; checked tables *)
Lemma pow_lt_cancel a b d : 0 <= a -> 0 <= b -> 1 <= d -> a ^ d < b ^ d -> a < b.
Proof.
  intros Ha Hb Hd H. destruct (Z_lt_le_dec a b) as [|Hle]; [assumption|]. exfalso.
  assert (b ^ d <= a ^ d) by (apply Z.pow_le_mono_l; lia). lia.
Qed.

Lemma iroot_round_unique n d r : 0 <= n -> 1 <= d -> 0 <= r ->
  2 ^ d * n < (2 * r + 1) ^ d -> (r = 0 \/ (2 * r - 1) ^ d <= 2 ^ d * n) -> iroot_round n d = r.
Proof.
  intros Hn Hd Hr Hup Hlow. destruct (iroot_round_spec n d Hn Hd) as [Q0 [Qup [Qlow Qz]]]. cbv zeta in *.
  set (q := iroot_round n d) in *.
  assert (Hqr : q <= r).
  { destruct (Z_le_gt_dec q r) as [|Hgt]; [assumption|]. exfalso.
    assert (H1 : (2 * q - 1) ^ d <= 2 ^ d * n) by (apply Qlow; lia).
    assert ((2 * r + 1) ^ d <= (2 * q - 1) ^ d) by (apply Z.pow_le_mono_l; lia). lia. }
  assert (Hrq : r <= q).
  { destruct (Z_le_gt_dec r q) as [|Hgt]; [assumption|]. exfalso.
    destruct Hlow as [->|Hlow]; [lia|].
    assert ((2 * q + 1) ^ d <= (2 * r - 1) ^ d) by (apply Z.pow_le_mono_l; lia). lia. }
  lia.
Qed.

Lemma iroot_round_dim1 n : 0 <= n -> iroot_round n 1 = n.
Proof. intros Hn. apply iroot_round_unique; rewrite ?Z.pow_1_r; try lia. Qed.

(* a table accepted by table_ok gives iroot_round on the whole covered interval *)
Lemma table_ok_sound d limit : 1 <= d -> forall l lo, 0 <= lo -> table_ok d lo limit l = true ->
  forall n, lo <= n <= limit -> table_lookup lo l n = Some (iroot_round n d).
Proof.
  intros Hd. induction l as [|[hi r] t IH]; intros lo Hlo H n Hn; cbn [table_ok table_lookup] in *.
  - apply Z.ltb_lt in H. lia.
  - repeat (apply andb_true_iff in H as [H ?]).
    apply Z.leb_le in H. rename H0 into Ht, H1 into Hlow, H2 into Hup, H3 into Hr, H4 into Hhi.
    apply Z.leb_le in Hhi. apply Z.leb_le in Hr. apply Z.ltb_lt in Hup.
    destruct (n <=? hi) eqn:E.
    + apply Z.leb_le in E. destruct (lo <=? n) eqn:E2; [|apply Z.leb_gt in E2; lia]. f_equal. symmetry.
      assert (P : 0 < 2 ^ d) by (apply Z.pow_pos_nonneg; lia).
      apply iroot_round_unique; try lia; [nia|].
      apply orb_true_iff in Hlow as [Hz|Hl]; [left; now apply Z.eqb_eq in Hz | right; apply Z.leb_le in Hl; nia].
    + apply Z.leb_gt in E. apply IH; [lia | assumption | lia].
Qed.
