(* exact rationals (kept reduced) - execution of the sqrt-free parts. sqrt/cbrt are NOT available
   over Q: the fields are dummies and no Q-run goes through them. *)
From Coq Require Import ZArith QArith Qreduction List Bool.
Require Import MV.C19.Ops.

Definition Qleb (a b : Q) : bool := Qle_bool a b.
Definition Qltb (a b : Q) : bool := negb (Qle_bool b a).
Definition Qops : ops Q :=
  mkops Q 0%Q 1%Q (fun a b => Qred (a + b)) (fun a b => Qred (a - b)) (fun a b => Qred (a * b))
        (fun a b => Qred (a / b)) (fun _ => 0%Q) (fun _ => 0%Q) Qleb Qltb inject_Z.
Definition Qeqb (a b : Q) : bool := Qeq_bool a b.
