(* binary64 (kernel primitive floats) - execution of the sqrt/cbrt-bearing parts. *)
From Coq Require Import ZArith Uint63 PrimFloat List Bool.
Require Import MV.C19.Ops MV.Lib.FloatLit.

Definition f3 : float := mkf 3 0.
Definition f2 : float := mkf 2 0.
(* cube root of x >= 0 by Newton's iteration x <- (2x + u/x^2)/3 from 1 (80 rounds: converges to ~1ulp for
   u in [2^-60, 2^60]); only used to EXECUTE the model on the recorded draws, never in a theorem *)
Fixpoint newton_cbrt (n : nat) (u x : float) : float :=
  match n with
  | O => x
  | S k => newton_cbrt k u (PrimFloat.div (PrimFloat.add (PrimFloat.mul f2 x) (PrimFloat.div u (PrimFloat.mul x x))) f3)
  end.
Definition fcbrt (u : float) : float :=
  if PrimFloat.leb u PrimFloat.zero then PrimFloat.zero else newton_cbrt 80 u PrimFloat.one.

Definition fofZ (z : Z) : float :=
  if (z <? 0)%Z then PrimFloat.opp (PrimFloat.of_uint63 (Uint63.of_Z (Z.abs z)))
  else PrimFloat.of_uint63 (Uint63.of_Z z).

Definition Fops : ops float :=
  mkops float PrimFloat.zero PrimFloat.one PrimFloat.add PrimFloat.sub PrimFloat.mul PrimFloat.div
        PrimFloat.sqrt fcbrt PrimFloat.leb PrimFloat.ltb fofZ.
