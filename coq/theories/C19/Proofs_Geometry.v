(* C19 - the code's geometric helpers (generated component expressions) coincide with the mathematical
   definitions the theorems are stated with: Euclidean distance, half the norm of the cross product, unit normal. *)
From Coq Require Import ZArith Reals List Bool Lra.
Require Import MV.Lib.Base MV.C19.Ops MV.C19.OpsR MV.C19.Gen MV.C19.Model.
Open Scope R_scope.

Lemma c_cross3_eq (a b : R * R * R) : c_cross3 Rops a b = cross3 Rops a b.
Proof.
  destruct a as [[a0 a1] a2], b as [[b0 b1] b2]. unfold c_cross3, cross3, cross_c0, cross_c1, cross_c2. cbn.
  apply f_equal2; [apply f_equal2|]; ring.
Qed.

Lemma c_edge_len_eq (A B : R * R * R) : c_edge_len Rops A B = dist3 Rops A B.
Proof.
  destruct A as [[ax ay] az], B as [[bx by_] bz]. unfold c_edge_len, dist3, norm3, geom_norm_l2, distance_diff. cbn.
  apply f_equal. ring.
Qed.

Lemma c_tri_area_eq (A B C : R * R * R) : c_tri_area Rops A B C = tri_area Rops A B C.
Proof.
  unfold c_tri_area, tri_area, norm3, tri_area_of_norm, vec_norm_l2. rewrite c_cross3_eq. reflexivity.
Qed.

Lemma c_tri_normal_eq (A B C : R * R * R) : c_tri_normal Rops A B C = tri_normal Rops A B C.
Proof.
  unfold c_tri_normal, tri_normal, norm3, vec_norm_l2. rewrite c_cross3_eq.
  destruct (cross3 Rops (sub3 Rops B A) (sub3 Rops C A)) as [[x y] z]. unfold normalized_coord. reflexivity.
Qed.

(* the mathematical content of cross3: orthogonal to both arguments, squared norm |a|^2|b|^2 - (a.b)^2 (Lagrange) *)
Lemma cross3_orthogonal (a b : R * R * R) :
  dot3 Rops (cross3 Rops a b) a = 0 /\ dot3 Rops (cross3 Rops a b) b = 0 /\
  sumsq3 Rops (cross3 Rops a b) = sumsq3 Rops a * sumsq3 Rops b - dot3 Rops a b * dot3 Rops a b.
Proof. destruct a as [[a0 a1] a2], b as [[b0 b1] b2]. cbn. repeat split; ring. Qed.

Lemma code_geometry_is_euclidean (A B C : R * R * R) :
  c_edge_len Rops A B = dist3 Rops A B /\
  c_tri_area Rops A B C = norm3 Rops (cross3 Rops (sub3 Rops B A) (sub3 Rops C A)) / 2 /\
  c_tri_normal Rops A B C = tri_normal Rops A B C /\
  (forall a b, c_cross3 Rops a b = cross3 Rops a b).
Proof.
  split; [apply c_edge_len_eq|]. split; [rewrite c_tri_area_eq; reflexivity|]. split; [apply c_tri_normal_eq | apply c_cross3_eq].
Qed.

Example ex_code_geometry : c_edge_len Rops (0, 0, 0) (3, 4, 0) = 5.
Proof.
  rewrite c_edge_len_eq. unfold dist3, norm3. cbn.
  replace ((3 - 0) * (3 - 0) + (4 - 0) * (4 - 0) + (0 - 0) * (0 - 0)) with (5 * 5) by ring. apply sqrt_square. lra.
Qed.
