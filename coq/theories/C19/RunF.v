(* C19 - boolean checkers evaluated by the correspondence batches: the model, run on binary64 with the
   recorded draws, returns what the implementation returned (1e-9 relative tolerance; index data exact). *)
From Coq Require Import ZArith List Bool PrimFloat.
Import ListNotations.
Require Import MV.Lib.Base MV.Lib.FloatLit MV.C19.Ops MV.C19.OpsF MV.C19.Gen MV.C19.Model.

Definition fv3 := (float * float * float)%type.
Definition feq (a b : float) : bool := fclose tol9 a b.
Definition feq3 (a b : fv3) : bool :=
  let '(a0, a1, a2) := a in let '(b0, b1, b2) := b in feq a0 b0 && feq a1 b1 && feq a2 b2.
Definition feql := list_eqb feq.
Definition feq3l := list_eqb feq3.
Definition feqll := list_eqb feql.
Definition zeql := list_eqb Z.eqb.
Definition zpair_eqb (a b : Z * Z) : bool := Z.eqb (fst a) (fst b) && Z.eqb (snd a) (snd b).
Definition fpair_eqb (a b : float * float) : bool := feq (fst a) (fst b) && feq (snd a) (snd b).

Definition res_eqb {A} (eqb : A -> A -> bool) (a b : res A) : bool :=
  match a, b with
  | Ok x, Ok y => eqb x y
  | Err _, Err _ => true   (* a refusal is compared as a refusal: its exception class is not part of the property *)
  | _, _ => false
  end.

(* grid samples are compared as SETS (both sides sorted lexicographically): the property does not fix their order *)
Fixpoint lex_leb (a b : list float) : bool :=
  match a, b with
  | [], _ => true
  | _ :: _, [] => false
  | x :: s, y :: t => if PrimFloat.ltb x y then true else if PrimFloat.ltb y x then false else lex_leb s t
  end.
Fixpoint lex_insert (x : list float) (l : list (list float)) : list (list float) :=
  match l with
  | [] => [x]
  | y :: t => if lex_leb x y then x :: l else y :: lex_insert x t
  end.
Definition lex_sort (l : list (list float)) : list (list float) := fold_right lex_insert [] l.
Definition res_map {A B} (f : A -> B) (r : res A) : res B := match r with Ok a => Ok (f a) | Err e => Err e end.

Inductive fcase :=
| FSphere (radius : float) (c : fv3) (xs ys zs : list float) (out : list fv3)
| FBall (radius : float) (c : fv3) (ulo uhi : float) (xs ys zs us : list float) (out : list fv3)
| FBox (m : option mode) (pc : bool) (p1 p2 : list float) (n : Z) (us : list (list float)) (out : res (list (list float)))
| FPoly (V : list fv3) (E : list (Z * Z)) (n : Z) (chosen : list Z) (ts : list float)
        (probs : option (list float)) (out : res (list fv3))
| FSurf (V : list fv3) (F : list tri) (chosen : list Z) (us : list (float * float))
        (probs : list float) (out : res (list fv3)) (normals : option (list fv3))
| FCurve (P : list (list float)) (t : float) (out : res (list float))
| FPatch (rows : list (list (list float))) (u v : float) (out : res (list float))
| FPolylineX (P : list (list float)) (n_pts : option Z) (custom : option (list float))
             (out : res (list (list float) * list float * list (Z * Z)))
| FSurfaceX (rows : list (list (list float))) (n1 n2 : option Z)
            (out : res (list (list float) * list (float * float) * list (list Z))).

Definition check_f (c : fcase) : bool :=
  match c with
  | FSphere radius ce xs ys zs out => feq3l (sample_sphere Fops radius ce xs ys zs) out
  | FBall radius ce ulo uhi xs ys zs us out =>
      feq3l (sample_ball Fops radius ce xs ys zs us) out
      (* the range handed to np.random.uniform is the one Gen.v extracted, and the draws respect it *)
      && feq (ball_u_lo Fops radius) ulo && feq (ball_u_hi Fops radius) uhi
      && forallb (fun u => PrimFloat.leb ulo u && PrimFloat.ltb u uhi) us
  | FBox m0 pc p1 p2 n us out =>
      (* an omitted argument takes the default extracted from the signature (Gen.v) *)
      let m := match m0 with Some m => m | None => if box_default_mode_uniform then MUniform else MGrid end in
      match m with
      | MGrid => res_eqb feqll (res_map lex_sort (sample_box Fops m pc p1 p2 n us)) (res_map lex_sort out)
      | _ => res_eqb feqll (sample_box Fops m pc p1 p2 n us) out
      end
  | FPoly V E n chosen ts probs out =>
      res_eqb feq3l (sample_polyline Fops V E n chosen ts) out
      && match probs with
         | None => negb (poly_use_choice (Z.of_nat (length E)))
         | Some p => poly_use_choice (Z.of_nat (length E))
                     && res_eqb feql (res_bind (edge_lengths Fops V E) (fun l => Ok (poly_probs Fops l))) (Ok p)
         end
  | FSurf V F chosen us probs out normals =>
      res_eqb feq3l (sample_surface Fops V F chosen us) out
      && res_eqb feql (res_bind (face_areas Fops V F) (fun l => Ok (surf_probs Fops l))) (Ok probs)
      && match normals with
         | None => true
         | Some nn => res_eqb feq3l (sample_surface_normals Fops V F chosen) (Ok nn)
         end
  | FCurve P t out => res_eqb feql (curve_eval Fops P t) out
  | FPatch rows u v out => res_eqb feql (patch_eval Fops rows u v) out
  | FPolylineX P n_pts custom out =>
      res_eqb (fun a b => let '(v1, t1, e1) := a in let '(v2, t2, e2) := b in
                          feqll v1 v2 && feql t1 t2 && list_eqb zpair_eqb e1 e2)
              (as_polyline Fops P (match n_pts with Some n => n | None => polyline_default_n_pts end) custom) out
  | FSurfaceX rows n1 n2 out =>
      res_eqb (fun a b => let '(v1, t1, f1) := a in let '(v2, t2, f2) := b in
                          feqll v1 v2 && list_eqb fpair_eqb t1 t2 && list_eqb zeql f1 f2)
              (as_surface Fops rows (match n1 with Some n => n | None => surface_default_n1 end)
                                    (match n2 with Some n => n | None => surface_default_n2 end)) out
  end.
