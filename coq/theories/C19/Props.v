(* C19 property theorems only: each closed by `exact <lemma>` with Print Assumptions beneath. *)
From Coq Require Import ZArith List Bool.
Require Import MV.Lib.Base MV.C19.Ops MV.C19.Gen MV.C19.Model MV.C19.Proofs_Index.
Open Scope Z_scope.

Theorem C19_export_surface_in_range : forall n1 n2 f x,
  In f (surface_faces n1 n2) -> In x f -> 0 <= x < n1 * n2.
Proof. exact surface_faces_in_range. Qed.
Print Assumptions C19_export_surface_in_range.
