(* C19 property theorems only: each closed by `exact <lemma>` with Print Assumptions beneath.
   All definitions named *_coord, dc_*, ball_u_*, grid_*, poly_*, surf_*, polyline_*, surface_* come from Gen.v,
   regenerated from mouette/sampling.py, mouette/splines/bezier.py, mouette/geometry/aabb.py on every run.
   Not provable (statistical): "over many draws the share of samples per edge/face follows length/area" - the
   theorems C19_probabilities_* say that the vector handed to numpy's choice is the right one; numpy is trusted. *)
From Coq Require Import ZArith Reals List Bool.
Import ListNotations.
Require Import MV.Lib.Base MV.C19.Ops MV.C19.OpsR MV.C19.Gen MV.C19.Model.
Require Import MV.C19.Proofs_Geometry MV.C19.Proofs_Hull MV.C19.Proofs_Index MV.C19.Proofs_Counts MV.C19.Proofs_Bezier MV.C19.Proofs_Samplers MV.C19.Proofs_Export MV.C19.Proofs_Main.
Open Scope R_scope.

(* ---------------------------------------------------------------- counts
   for EVERY instance `o` of the numeric operations (R, Q, binary64): discrete facts, no real-number axiom *)
Theorem C19_counts_sphere : forall {T} (o : ops T) radius c xs ys zs n,
  length xs = n -> length ys = n -> length zs = n -> length (sample_sphere o radius c xs ys zs) = n.
Proof. exact @sphere_count. Qed.
Print Assumptions C19_counts_sphere.

Theorem C19_counts_ball : forall {T} (o : ops T) radius c xs ys zs us n,
  length xs = n -> length ys = n -> length zs = n -> length us = n ->
  length (sample_ball o radius c xs ys zs us) = n.
Proof. exact @ball_count. Qed.
Print Assumptions C19_counts_ball.

Theorem C19_counts_box_uniform : forall {T} (o : ops T) pc p1 p2 n us pts,
  sample_box o MUniform pc p1 p2 n us = Ok pts -> length pts = length us.
Proof. exact @box_uniform_count_g. Qed.
Print Assumptions C19_counts_box_uniform.

(* grid mode: round(n^(1/d))^d points *)
Theorem C19_counts_box_grid : forall {T} (o : ops T) pc p1 p2 n us pts, (0 <= n)%Z -> (1 <= length p1)%nat ->
  sample_box o MGrid pc p1 p2 n us = Ok pts ->
  Z.of_nat (length pts) = (grid_res n (Z.of_nat (length p1)) ^ Z.of_nat (length p1))%Z.
Proof. exact @box_grid_count_g. Qed.
Print Assumptions C19_counts_box_grid.

(* ... where the resolution is the integer nearest to the real d-th root of n: (r-1/2)^d <= n < (r+1/2)^d *)
Theorem C19_grid_resolution_is_nearest_root : forall n d, (0 <= n)%Z -> (1 <= d)%Z ->
  let r := iroot_round n d in
  (0 <= r /\ 2 ^ d * n < (2 * r + 1) ^ d /\ (1 <= r -> (2 * r - 1) ^ d <= 2 ^ d * n) /\ (r = 0 <-> n = 0))%Z.
Proof. exact iroot_round_spec. Qed.
Print Assumptions C19_grid_resolution_is_nearest_root.

(* the binary64 evaluation round(np.power(n, 1/d)) is compared with iroot_round on every run for all n <= LIMIT
   (META) by a kernel-checked run-length table; this is what an accepted table means *)
Theorem C19_grid_resolution_table_sound : forall d limit, (1 <= d)%Z -> forall l lo, (0 <= lo)%Z ->
  table_ok d lo limit l = true ->
  forall n, (lo <= n <= limit)%Z -> table_lookup lo l n = Some (iroot_round n d).
Proof. exact table_ok_sound. Qed.
Print Assumptions C19_grid_resolution_table_sound.

Theorem C19_grid_resolution_dim1 : forall n, (0 <= n)%Z -> iroot_round n 1 = n.
Proof. exact iroot_round_dim1. Qed.
Print Assumptions C19_grid_resolution_dim1.

Theorem C19_counts_polyline : forall {T} (o : ops T) V E n chosen ts pts,
  (0 <= n)%Z -> length chosen = Z.to_nat n -> length ts = Z.to_nat n ->
  sample_polyline o V E n chosen ts = Ok pts -> length pts = Z.to_nat n.
Proof. exact @polyline_count_g. Qed.
Print Assumptions C19_counts_polyline.

Theorem C19_counts_surface : forall {T} (o : ops T) V F chosen us pts n, length chosen = n -> length us = n ->
  sample_surface o V F chosen us = Ok pts -> length pts = n.
Proof. exact @surface_count_g. Qed.
Print Assumptions C19_counts_surface.

(* ---------------------------------------------------------------- in-domain, for ALL draws in their ranges *)
Theorem C19_sphere_on_sphere : forall radius c xs ys zs p, 0 <= radius ->
  Forall (fun g => g <> (0, 0, 0)) (zip3 xs ys zs) ->
  In p (sample_sphere Rops radius c xs ys zs) -> dist3 Rops c p = radius.
Proof. exact sample_sphere_on_sphere. Qed.
Print Assumptions C19_sphere_on_sphere.

Theorem C19_ball_inside : forall radius c xs ys zs us p, 0 <= radius ->
  Forall (fun g => g <> (0, 0, 0)) (zip3 xs ys zs) -> Forall (ball_draw_ok radius) us ->
  In p (sample_ball Rops radius c xs ys zs us) -> dist3 Rops c p <= radius.
Proof. exact sample_ball_inside. Qed.
Print Assumptions C19_ball_inside.

(* radial law of the uniform ball: the cube of the distance is radius^3 times the uniform draw *)
Theorem C19_ball_radial_law : forall radius (c g : rv3) u, g <> (0, 0, 0) -> 0 <= radius -> ball_draw_ok radius u ->
  let d := dist3 Rops c (ball_pt Rops radius c g u) in d * d * d = radius * radius * radius * u.
Proof. exact ball_pt_radial_law. Qed.
Print Assumptions C19_ball_radial_law.

Theorem C19_box_uniform_in_box : forall pc p1 p2 n us pts, length p2 = length p1 ->
  Forall (fun u => length u = length p1 /\ in_unit_half_open u) us ->
  sample_box Rops MUniform pc p1 p2 n us = Ok pts ->
  length pts = length us /\
  forall p, In p pts -> length p = length p1 /\ forall k, (k < length p1)%nat -> nth k p1 0 <= nth k p 0 < nth k p2 0.
Proof. exact sample_box_uniform. Qed.
Print Assumptions C19_box_uniform_in_box.

Theorem C19_box_grid_in_box : forall pc p1 p2 n us pts, length p2 = length p1 ->
  sample_box Rops MGrid pc p1 p2 n us = Ok pts ->
  let r := grid_res n (Z.of_nat (length p1)) in
  length pts = (Z.to_nat r ^ length p1)%nat /\
  forall p, In p pts -> length p = length p1 /\ forall k, (k < length p1)%nat -> nth k p1 0 <= nth k p 0 <= nth k p2 0.
Proof. exact sample_box_grid. Qed.
Print Assumptions C19_box_grid_in_box.

Theorem C19_box_rejects : forall {T} (o : ops T) m pc p1 p2 n us,
  (m = MOther -> sample_box o m pc p1 p2 n us = Err EBadMode) /\
  (m <> MOther -> box_is_empty o p1 p2 = true -> sample_box o m pc p1 p2 n us = Err EEmptyBox) /\
  (m <> MOther -> box_is_empty o p1 p2 = false -> box_pc_dim_guard (Z.of_nat (length p1)) && pc = true ->
     sample_box o m pc p1 p2 n us = Err EDimGt3) /\
  (forall pts, sample_box o m pc p1 p2 n us = Ok pts ->
     m <> MOther /\ box_is_empty o p1 p2 = false /\ box_pc_dim_guard (Z.of_nat (length p1)) && pc = false).
Proof. exact @box_rejects_g. Qed.
Print Assumptions C19_box_rejects.

(* every polyline sample is a convex combination of the end points of the edge chosen for it *)
Theorem C19_polyline_on_chosen_edge : forall V E n chosen ts pts, Forall (fun t => 0 <= t < 1) ts ->
  sample_polyline Rops V E n chosen ts = Ok pts ->
  let used := poly_edges_used (Z.of_nat (length E)) n chosen in
  length pts = Nat.min (length used) (length ts) /\
  forall i e p, nth_error used i = Some e -> nth_error pts i = Some p ->
    exists a b A B, nth_res E e = Ok (a, b) /\ nth_res V a = Ok A /\ nth_res V b = Ok B /\ on_segment A B p.
Proof. exact sample_polyline_spec. Qed.
Print Assumptions C19_polyline_on_chosen_edge.

(* deterministic core of "shares per edge follow length": only a polyline with at most one edge bypasses
   choice(NE, size=n, p = lengths/sum) (poly_use_choice is the test generated from sample_polyline); sample_surface
   has no bypass at all: its model takes the face of every sample from choice (C19_surface_in_chosen_face) *)
Theorem C19_polyline_edge_drawn_by_choice : forall NE n chosen, (0 <= NE)%Z ->
  ((2 <= NE)%Z -> poly_edges_used NE n chosen = chosen) /\
  ((NE <= 1)%Z -> poly_edges_used NE n chosen = repeat poly_default_edge (Z.to_nat n)) /\
  (NE = 1%Z -> (0 <= poly_default_edge < NE)%Z).
Proof. exact poly_edges_drawn_by_choice. Qed.
Print Assumptions C19_polyline_edge_drawn_by_choice.

(* barycentric weights of a surface sample: (sqrt u1 (1-u2), 1 - sqrt u1, sqrt u1 u2), all >= 0, sum 1 *)
Theorem C19_surface_weights : forall (A B C : rv3) u1 u2, 0 <= u1 < 1 -> 0 <= u2 < 1 ->
  (let '(wa, wb, wc) := bary_w u1 u2 in 0 <= wa /\ 0 <= wb /\ 0 <= wc /\ wa + wb + wc = 1) /\
  (let '(wa, wb, wc) := bary_w u1 u2 in
   let '(ax, ay, az) := A in let '(bx, by_, bz) := B in let '(cx, cy, cz) := C in
   surf_pt_of Rops A B C u1 u2 =
     (wa * ax + wb * bx + wc * cx, wa * ay + wb * by_ + wc * cy, wa * az + wb * bz + wc * cz)).
Proof. exact surface_weights. Qed.
Print Assumptions C19_surface_weights.

Theorem C19_surface_in_chosen_face : forall V F chosen us pts,
  Forall (fun u => 0 <= fst u < 1 /\ 0 <= snd u < 1) us ->
  sample_surface Rops V F chosen us = Ok pts ->
  length pts = Nat.min (length chosen) (length us) /\
  forall i f p, nth_error chosen i = Some f -> nth_error pts i = Some p ->
    exists fc A B C, nth_res F f = Ok fc /\ tri_pts V fc = Ok (A, B, C) /\ in_triangle A B C p.
Proof. exact sample_surface_spec. Qed.
Print Assumptions C19_surface_in_chosen_face.

(* normal i is the normal of the face sample i was drawn on ... *)
Theorem C19_surface_normal_of_chosen_face : forall V F chosen ns, sample_surface_normals Rops V F chosen = Ok ns ->
  length ns = length chosen /\
  forall i f nn, nth_error chosen i = Some f -> nth_error ns i = Some nn ->
    exists fc A B C, nth_res F f = Ok fc /\ tri_pts V fc = Ok (A, B, C) /\ nn = tri_normal Rops A B C.
Proof. exact sample_surface_normals_spec. Qed.
Print Assumptions C19_surface_normal_of_chosen_face.

(* ... which is a unit vector orthogonal to the face, and every point of the face lies in its plane *)
Theorem C19_face_normal_is_unit_normal : forall (A B C : rv3),
  cross3 Rops (sub3 Rops B A) (sub3 Rops C A) <> (0, 0, 0) ->
  (let n := tri_normal Rops A B C in
   dot3 Rops n n = 1 /\ dot3 Rops n (sub3 Rops B A) = 0 /\ dot3 Rops n (sub3 Rops C A) = 0) /\
  forall p, in_triangle A B C p -> dot3 Rops (tri_normal Rops A B C) (sub3 Rops p A) = 0.
Proof. exact face_normal_is_unit_normal. Qed.
Print Assumptions C19_face_normal_is_unit_normal.

(* ---------------------------------------------------------------- the vector handed to `choice` *)
Theorem C19_probabilities_polyline : forall V E lens, edge_lengths Rops V E = Ok lens -> 0 < tsum Rops lens ->
  let p := poly_probs Rops lens in
  length p = length E /\ Forall (fun x => 0 <= x) p /\ tsum Rops p = 1 /\
  forall k a b, nth_error E k = Some (a, b) ->
    exists A B, nth_res V a = Ok A /\ nth_res V b = Ok B /\ nth k p 0 * tsum Rops lens = dist3 Rops A B.
Proof. exact polyline_probabilities. Qed.
Print Assumptions C19_probabilities_polyline.

Theorem C19_probabilities_surface : forall V F areas, face_areas Rops V F = Ok areas -> 0 < tsum Rops areas ->
  let p := surf_probs Rops areas in
  length p = length F /\ Forall (fun x => 0 <= x) p /\ tsum Rops p = 1 /\
  forall k f, nth_error F k = Some f ->
    exists A B C, tri_pts V f = Ok (A, B, C) /\ nth k p 0 * tsum Rops areas = tri_area Rops A B C.
Proof. exact surface_probabilities. Qed.
Print Assumptions C19_probabilities_surface.

(* ---------------------------------------------------------------- Bezier *)
(* de Casteljau (the in-place double loop) = sum_i C(n,i) t^i (1-t)^(n-i) P_i, Binomial.C = n!/(i!(n-i)!) *)
Theorem C19_bernstein : forall P t, P <> [] -> 0 <= t <= 1 ->
  de_casteljau Rops P t =
    Ok (let n := (length P - 1)%nat in rsum (S n) (fun i => C n i * t ^ i * (1 - t) ^ (n - i) * nth i P 0)).
Proof. exact de_casteljau_is_bernstein. Qed.
Print Assumptions C19_bernstein.

Theorem C19_bernstein_curve : forall P t, P <> [] -> 0 <= t <= 1 ->
  curve_eval Rops P t = Ok (map (fun k => bernstein_poly (column Rops k P) t) (seq 0 (point_dim P))).
Proof. exact curve_is_bernstein. Qed.
Print Assumptions C19_bernstein_curve.

Theorem C19_bezier_endpoints : forall P, P <> [] ->
  de_casteljau Rops P 0 = Ok (nth 0 P 0) /\ de_casteljau Rops P 1 = Ok (nth (length P - 1) P 0).
Proof. exact bezier_endpoints. Qed.
Print Assumptions C19_bezier_endpoints.

(* convex hull: weights >= 0 summing to 1, depending on (degree, t) only - the same for every coordinate *)
Theorem C19_bezier_convex_hull : forall P t, P <> [] -> 0 <= t <= 1 ->
  exists w : nat -> R, (forall i, 0 <= w i) /\ rsum (length P) w = 1 /\
    de_casteljau Rops P t = Ok (rsum (length P) (fun i => w i * nth i P 0)).
Proof. exact bezier_convex_hull. Qed.
Print Assumptions C19_bezier_convex_hull.

Theorem C19_bezier_rejects_outside_unit_interval : forall t, ~ (0 <= t <= 1) ->
  (forall P, de_casteljau Rops P t = Err EOutOfRange) /\
  (forall P, curve_eval Rops P t = Err EOutOfRange) /\
  (forall rows v, rows <> [] -> patch_eval Rops rows t v = Err EOutOfRange) /\
  (forall rows u, patch_eval Rops rows u t = Err EOutOfRange \/ exists e, patch_row Rops rows u = Err e).
Proof. exact bezier_rejects. Qed.
Print Assumptions C19_bezier_rejects_outside_unit_interval.

Theorem C19_patch_tensor_bernstein : forall rows u v d, rows <> [] -> Forall (fun r => r <> []) rows ->
  Forall (fun r => point_dim r = d) rows -> 0 <= u <= 1 -> 0 <= v <= 1 ->
  exists x, patch_eval Rops rows u v = Ok x /\ length x = d /\
    forall k, (k < d)%nat ->
      nth k x 0 = bernstein_poly (map (fun row => bernstein_poly (column Rops k row) u) rows) v.
Proof. exact patch_is_tensor_bernstein. Qed.
Print Assumptions C19_patch_tensor_bernstein.

Theorem C19_patch_corners : forall (rows : list (list R)), rows <> [] ->
  let lastrow := nth (length rows - 1) rows [] in
  patch_bernstein1 rows 0 0 = nth 0 (nth 0 rows []) 0 /\
  patch_bernstein1 rows 1 0 = nth (length (nth 0 rows []) - 1) (nth 0 rows []) 0 /\
  patch_bernstein1 rows 0 1 = nth 0 lastrow 0 /\
  patch_bernstein1 rows 1 1 = nth (length lastrow - 1) lastrow 0.
Proof. exact patch_corners. Qed.
Print Assumptions C19_patch_corners.

(* convex hull, coordinate-wise: between the extreme control values - curves and patches *)
Theorem C19_bezier_within_control_bounds : forall P t lo hi x, P <> [] -> 0 <= t <= 1 ->
  (forall i, (i < length P)%nat -> lo <= nth i P 0 <= hi) -> de_casteljau Rops P t = Ok x -> lo <= x <= hi.
Proof. exact curve_within_bounds. Qed.
Print Assumptions C19_bezier_within_control_bounds.

Theorem C19_patch_within_control_bounds : forall rows u v lo hi, rows <> [] -> Forall (fun r => r <> []) rows ->
  0 <= u <= 1 -> 0 <= v <= 1 ->
  (forall row, In row rows -> forall i, (i < length row)%nat -> lo <= nth i row 0 <= hi) ->
  exists x, patch_eval1 Rops rows u v = Ok x /\ lo <= x <= hi.
Proof. exact patch_within_bounds. Qed.
Print Assumptions C19_patch_within_control_bounds.

(* a patch value is the convex combination of ALL control points with the product weights b_j(v) b_i(u) *)
Theorem C19_patch_convex_hull : forall rows u v n, rows <> [] -> Forall (fun r => length r = S n) rows ->
  0 <= u <= 1 -> 0 <= v <= 1 ->
  let m := (length rows - 1)%nat in
  let w := fun j i => bw v m j * bw u n i in
  (forall j i, 0 <= w j i) /\
  rsum (S m) (fun j => rsum (S n) (fun i => w j i)) = 1 /\
  patch_bernstein1 rows u v = rsum (S m) (fun j => rsum (S n) (fun i => w j i * nth i (nth j rows []) 0)).
Proof. exact patch_convex_combination. Qed.
Print Assumptions C19_patch_convex_hull.

(* ---------------------------------------------------------------- the code's geometry is the Euclidean one
   c_* are assembled from the component expressions generated from geometry.cross / norm / distance / triangle_area,
   Vec.norm / normalized as applied by attributes.edge_length / face_area / face_normals; the weights handed to
   `choice` and the returned normals go through them (edge_lengths, face_areas, face_normals of Model.v) *)
Theorem C19_code_geometry_is_euclidean : forall (A B C : R * R * R),
  c_edge_len Rops A B = dist3 Rops A B /\
  c_tri_area Rops A B C = norm3 Rops (cross3 Rops (sub3 Rops B A) (sub3 Rops C A)) / 2 /\
  c_tri_normal Rops A B C = tri_normal Rops A B C /\
  (forall a b, c_cross3 Rops a b = cross3 Rops a b).
Proof. exact code_geometry_is_euclidean. Qed.
Print Assumptions C19_code_geometry_is_euclidean.

(* ... and cross3 is the cross product: orthogonal to both factors, |a x b|^2 = |a|^2 |b|^2 - (a.b)^2 *)
Theorem C19_cross_product_laws : forall (a b : R * R * R),
  dot3 Rops (cross3 Rops a b) a = 0 /\ dot3 Rops (cross3 Rops a b) b = 0 /\
  sumsq3 Rops (cross3 Rops a b) = sumsq3 Rops a * sumsq3 Rops b - dot3 Rops a b * dot3 Rops a b.
Proof. exact cross3_orthogonal. Qed.
Print Assumptions C19_cross_product_laws.

(* ---------------------------------------------------------------- exports *)
(* as_polyline: one vertex per sampled position at the curve's value, edges link consecutive SAMPLES
   (their number comes from the positions, not from n_pts); positions outside [0,1] are rejected *)
Theorem C19_export_polyline : forall P n_pts custom, P <> [] -> (point_dim P = 2 \/ point_dim P = 3)%nat ->
  let ts := curve_params Rops n_pts custom in
  (Forall unit_closed ts ->
     as_polyline Rops P n_pts custom =
       Ok (map (fun t => padf (bernstein_vec P t)) ts, ts,
           polyline_edges n_pts (Z.of_nat (length ts)) (Z.of_nat (length ts)))) /\
  (custom = None -> Forall unit_closed ts) /\
  (forall t, In t ts -> ~ unit_closed t -> as_polyline Rops P n_pts custom = Err EOutOfRange).
Proof. exact export_polyline. Qed.
Print Assumptions C19_export_polyline.

Theorem C19_export_polyline_edges : forall n_pts k m,
  Z.of_nat (length (polyline_edges n_pts k m)) = Z.max 0 (m - 1) /\
  (forall i, (0 <= i < m - 1)%Z -> nth_error (polyline_edges n_pts k m) (Z.to_nat i) = Some (i, i + 1)%Z) /\
  (forall a b, In (a, b) (polyline_edges n_pts k m) -> (0 <= a /\ b = a + 1 /\ b < m)%Z).
Proof. exact polyline_edges_spec. Qed.
Print Assumptions C19_export_polyline_edges.

(* as_surface for ALL (n1, n2), equal or not *)
Theorem C19_export_surface_in_range : forall n1 n2 f x,
  In f (surface_faces n1 n2) -> In x f -> (0 <= x < n1 * n2)%Z.
Proof. exact surface_faces_in_range. Qed.
Print Assumptions C19_export_surface_in_range.

Theorem C19_export_surface_grid_consistent : forall n1 n2 f, In f (surface_faces n1 n2) ->
  exists i j a b c d, (0 <= i < n1 - 1)%Z /\ (0 <= j < n2 - 1)%Z /\ f = [a; b; c; d]
    /\ vertex_sample n1 n2 a = Some (i, j) /\ vertex_sample n1 n2 b = Some (i, (j + 1)%Z)
    /\ vertex_sample n1 n2 c = Some ((i + 1)%Z, (j + 1)%Z) /\ vertex_sample n1 n2 d = Some ((i + 1)%Z, j).
Proof. exact surface_faces_grid_consistent. Qed.
Print Assumptions C19_export_surface_grid_consistent.

Theorem C19_export_surface_counts : forall n1 n2, (1 <= n1)%Z -> (1 <= n2)%Z ->
  Z.of_nat (length (surface_vertex_params n1 n2)) = (n1 * n2)%Z /\
  Z.of_nat (length (surface_faces n1 n2)) = ((n1 - 1) * (n2 - 1))%Z /\
  (forall i j, (0 <= i < n1 - 1)%Z -> (0 <= j < n2 - 1)%Z ->
     nth_error (surface_faces n1 n2) (Z.to_nat (i * (n2 - 1) + j)) = Some (cell_corners n2 i j)).
Proof. exact export_surface_counts. Qed.
Print Assumptions C19_export_surface_counts.

(* nothing is rejected; vertex k is the patch at (U[i], V[j]) for the k-th pair of the vertex loop and carries that uv *)
Theorem C19_export_surface_vertices : forall rows n1 n2, rows <> [] -> Forall (fun r => r <> []) rows ->
  as_surface Rops rows n1 n2 =
    Ok (map (fun ij => patch_bernstein rows (lin n1 (fst ij)) (lin n2 (snd ij))) (surface_vertex_params n1 n2),
        map (fun ij => (lin n1 (fst ij), lin n2 (snd ij))) (surface_vertex_params n1 n2),
        surface_faces n1 n2).
Proof. exact as_surface_spec. Qed.
Print Assumptions C19_export_surface_vertices.
