(* C19 - de Casteljau (the in-place double loop of bezier.py, expressions from Gen.v) equals the
   Bernstein polynomial; end-point interpolation; convex combination on [0,1]; rejection outside [0,1];
   vector-valued curves and tensor-product patches by composition.  Over R. *)
From Coq Require Import ZArith Reals List Bool Lia Lra Factorial.
Import ListNotations.
Require Import MV.Lib.Base MV.C19.Ops MV.C19.OpsR MV.C19.Gen MV.C19.Model.
Open Scope R_scope.

(* ------------------------------------------------------------------ finite sums *)
Fixpoint rsum (n : nat) (F : nat -> R) : R := match n with O => 0 | S k => rsum k F + F k end.

Lemma rsum_ext n F G : (forall i, (i < n)%nat -> F i = G i) -> rsum n F = rsum n G.
Proof. induction n; intros H; simpl; [reflexivity|]. rewrite IHn, H by (intros; try apply H; lia). reflexivity. Qed.
Lemma rsum_plus n F G : rsum n (fun i => F i + G i) = rsum n F + rsum n G.
Proof. induction n; simpl; [ring|]. rewrite IHn. ring. Qed.
Lemma rsum_scal n c F : rsum n (fun i => c * F i) = c * rsum n F.
Proof. induction n; simpl; [ring|]. rewrite IHn. ring. Qed.
Lemma rsum_shift n F : rsum (S n) F = F O + rsum n (fun i => F (S i)).
Proof. induction n; [simpl; ring|]. change (rsum (S (S n)) F) with (rsum (S n) F + F (S n)). rewrite IHn. simpl. ring. Qed.
Lemma rsum_nonneg n F : (forall i, (i < n)%nat -> 0 <= F i) -> 0 <= rsum n F.
Proof. induction n; intros H; simpl; [lra|]. assert (0 <= rsum n F) by (apply IHn; intros; apply H; lia). assert (0 <= F n) by (apply H; lia). lra. Qed.

(* ------------------------------------------------------------------ Bernstein weights *)
(* by Pascal's recursion; closed form C(j,i) t^i (1-t)^(j-i) proved below (bw_closed) *)
Fixpoint bw (t : R) (j i : nat) : R :=
  match j, i with
  | O, O => 1
  | O, S _ => 0
  | S j', O => (1 - t) * bw t j' O
  | S j', S i' => (1 - t) * bw t j' (S i') + t * bw t j' i'
  end.

Lemma bw_zero t j : forall i, (j < i)%nat -> bw t j i = 0.
Proof.
  induction j; intros [|i] H; simpl; try lia; try reflexivity.
  rewrite !IHj by lia. ring.
Qed.

Lemma C_n_0 n : C n 0 = 1.
Proof. unfold C. rewrite Nat.sub_0_r. simpl fact. simpl INR. field. apply INR_fact_neq_0. Qed.
Lemma C_n_n n : C n n = 1.
Proof. unfold C. rewrite Nat.sub_diag. simpl fact. simpl INR. field. apply INR_fact_neq_0. Qed.

(* the closed (Bernstein) form, with the standard library's binomial coefficient
   Binomial.C n i = n! / (i! (n-i)!) *)
Lemma bw_closed t j : forall i, (i <= j)%nat -> bw t j i = C j i * t ^ i * (1 - t) ^ (j - i).
Proof.
  induction j; intros [|i] H; try lia.
  - simpl. rewrite C_n_0. ring.
  - simpl bw. rewrite IHj by lia. rewrite !C_n_0. rewrite !Nat.sub_0_r. simpl. ring.
  - simpl bw. destruct (Nat.eq_dec i j) as [->|Hne].
    + rewrite bw_zero by lia. rewrite IHj by lia. rewrite !C_n_n. rewrite !Nat.sub_diag. simpl. ring.
    + rewrite !IHj by lia. rewrite <- (pascal j i) by lia.
      replace (S j - S i)%nat with (S (j - S i)) by lia. replace (j - i)%nat with (S (j - S i)) by lia.
      simpl. ring.
Qed.

Lemma bw_nonneg t : 0 <= t <= 1 -> forall j i, 0 <= bw t j i.
Proof.
  intros Ht. induction j; intros [|i]; simpl; try lra.
  - apply Rmult_le_pos; [lra | apply IHj].
  - apply Rplus_le_le_0_compat; apply Rmult_le_pos; try lra; apply IHj.
Qed.

(* sum_{i<=j} bw j i * g i *)
Definition bsum (t : R) (j : nat) (g : nat -> R) : R := rsum (S j) (fun i => bw t j i * g i).

(* one de Casteljau round on the weights *)
Lemma bsum_step t j g : bsum t (S j) g = (1 - t) * bsum t j g + t * bsum t j (fun i => g (S i)).
Proof.
  unfold bsum. rewrite (rsum_shift (S j)).
  rewrite (rsum_ext (S j) _ (fun i => (1 - t) * (bw t j (S i) * g (S i)) + t * (bw t j i * g (S i))))
    by (intros; simpl; ring).
  rewrite rsum_plus, !rsum_scal.
  assert (E : rsum (S j) (fun i => bw t j i * g i) = bw t j O * g O + rsum (S j) (fun i => bw t j (S i) * g (S i))).
  { rewrite <- (rsum_shift (S j) (fun i => bw t j i * g i)).
    change (rsum (S (S j)) (fun i => bw t j i * g i)) with (rsum (S j) (fun i => bw t j i * g i) + bw t j (S j) * g (S j)).
    rewrite (bw_zero t j (S j)) by lia. ring. }
  rewrite E. simpl bw. ring.
Qed.

Lemma bsum_const_one t j : bsum t j (fun _ => 1) = 1.
Proof. induction j; [unfold bsum; simpl; ring|]. rewrite bsum_step, IHj. ring. Qed.

Lemma bsum_at_0 j : forall g, bsum 0 j g = g O.
Proof. induction j; intros g; [unfold bsum; simpl; ring|]. rewrite bsum_step, !IHj. ring. Qed.
Lemma bsum_at_1 j : forall g, bsum 1 j g = g j.
Proof. induction j; intros g; [unfold bsum; simpl; ring|]. rewrite bsum_step, !IHj. ring. Qed.

(* ------------------------------------------------------------------ the loops *)
Lemma lerp_eq t a b : dc_lerp Rops t a b = (1 - t) * a + t * b.
Proof. unfold dc_lerp. cbn. ring. Qed.

Lemma inner_spec t : forall m l, (m < length l)%nat ->
  exists l', dc_inner_loop Rops t l m = Some l' /\ length l' = length l
    /\ (forall k, (k < m)%nat -> nth k l' 0 = (1 - t) * nth k l 0 + t * nth (S k) l 0)
    /\ (forall k, (m <= k)%nat -> nth k l' 0 = nth k l 0).
Proof.
  induction m; intros l Hl.
  - exists l. simpl. split; [reflexivity|]. split; [reflexivity|]. split; [intros k Hk; inversion Hk | reflexivity].
  - destruct l as [|a [|b tl]]; simpl in Hl; try lia.
    destruct (IHm (b :: tl)) as [l' [E [Hlen [H1 H2]]]]; [simpl; lia|].
    exists (dc_lerp Rops t a b :: l'). cbn [dc_inner_loop]. rewrite E. cbn [option_map].
    split; [reflexivity|]. split; [simpl in *; lia|]. split.
    + intros [|k] Hk; [simpl; apply lerp_eq|]. cbn [nth]. rewrite H1 by lia. reflexivity.
    + intros [|k] Hk; [lia|]. cbn [nth]. apply H2. lia.
Qed.

Definition ctrl (P : list R) (i : nat) : R := nth i P 0.

(* the state after j rounds *)
Definition dc_inv (t : R) (P : list R) (n j : nat) (l : list R) : Prop :=
  length l = S n /\ forall k, (k + j <= n)%nat -> nth k l 0 = bsum t j (fun i => ctrl P (k + i)).

Lemma outer_spec t P n : forall c j l, (j + c <= n)%nat -> dc_inv t P n j l ->
  exists l', dc_outer_loop Rops t (Z.of_nat n) l (map Z.of_nat (seq j c)) = Some l' /\ dc_inv t P n (j + c) l'.
Proof.
  induction c; intros j l Hj [Hlen Hinv].
  - exists l. simpl. rewrite Nat.add_0_r. split; [reflexivity | split; assumption].
  - cbn [seq map dc_outer_loop].
    assert (Em : Z.to_nat (dc_inner (Z.of_nat n) (Z.of_nat j)) = (n - j)%nat) by (unfold dc_inner; lia).
    rewrite Em.
    destruct (inner_spec t (n - j) l) as [l1 [E [Hlen1 [H1 H2]]]]; [lia|].
    rewrite E.
    destruct (IHc (S j) l1) as [l' [E' Hinv']]; [lia| |].
    + split; [lia|]. intros k Hk. rewrite H1 by lia. rewrite !Hinv by lia.
      rewrite bsum_step. f_equal. f_equal. unfold bsum. apply rsum_ext. intros i _.
      replace (S k + i)%nat with (k + S i)%nat by lia. reflexivity.
    + exists l'. split; [exact E'|]. replace (j + S c)%nat with (S j + c)%nat by lia. exact Hinv'.
Qed.

(* the Bernstein polynomial of the control values P at t *)
Definition bernstein (P : list R) (t : R) : R := bsum t (length P - 1) (ctrl P).

Lemma reject_false t : 0 <= t <= 1 -> dc_reject Rops t = false.
Proof.
  intros [H0 H1]. unfold dc_reject. cbn.
  assert (E0 : Rleb 0 t = true) by (apply Rleb_true; lra).
  assert (E1 : Rleb t 1 = true) by (apply Rleb_true; lra).
  rewrite E0, E1. reflexivity.
Qed.
Lemma reject_true t : ~ (0 <= t <= 1) -> dc_reject Rops t = true.
Proof.
  intros H. unfold dc_reject. cbn.
  destruct (Rleb 0 t) eqn:E0; [|reflexivity]. destruct (Rleb t 1) eqn:E1; [|reflexivity].
  apply Rleb_true in E0. apply Rleb_true in E1. exfalso. apply H. lra.
Qed.

(* MAIN: for every non-empty list of control values and every t in [0,1] the loops return the Bernstein form *)
Lemma de_casteljau_bernstein P t : P <> [] -> 0 <= t <= 1 -> de_casteljau Rops P t = Ok (bernstein P t).
Proof.
  intros HP Ht. unfold de_casteljau. rewrite reject_false by assumption.
  destruct P as [|p0 P']; [congruence|]. set (P := p0 :: P') in *.
  set (n := length P'). assert (Hn : length P = S n) by reflexivity.
  assert (Eo : dc_order (Z.of_nat (length P)) = Z.of_nat n) by (unfold dc_order; rewrite Hn; lia).
  rewrite Eo. unfold dc_outer. unfold zrange. rewrite Nat2Z.id.
  destruct (outer_spec t P n n 0%nat P) as [l' [E [Hlen Hinv]]]; [lia| |].
  - split; [exact Hn|]. intros k Hk. unfold bsum. cbn [rsum bw]. rewrite Nat.add_0_r. unfold ctrl. ring.
  - rewrite E. unfold nth_res, dc_result_index. simpl Z.ltb. cbn [Z.to_nat].
    destruct l' as [|x l'']; [simpl in Hlen; lia|]. simpl.
    specialize (Hinv 0%nat). simpl in Hinv. rewrite Hinv by lia.
    unfold bernstein. rewrite Hn. simpl. rewrite Nat.sub_0_r. reflexivity.
Qed.

Lemma de_casteljau_rejects P t : ~ (0 <= t <= 1) -> de_casteljau Rops P t = Err EOutOfRange.
Proof. intros H. unfold de_casteljau. now rewrite reject_true. Qed.

Lemma de_casteljau_empty t : 0 <= t <= 1 -> de_casteljau Rops [] t = Err EIndex.
Proof. intros H. unfold de_casteljau. rewrite reject_false by assumption. reflexivity. Qed.

(* Bernstein form with explicit binomial coefficients *)
Lemma bernstein_closed P t :
  bernstein P t = rsum (S (length P - 1)) (fun i => C (length P - 1) i * t ^ i * (1 - t) ^ (length P - 1 - i) * ctrl P i).
Proof. unfold bernstein, bsum. apply rsum_ext. intros i Hi. rewrite bw_closed by lia. reflexivity. Qed.

Lemma bernstein_first P : bernstein P 0 = ctrl P 0.
Proof. unfold bernstein. apply bsum_at_0. Qed.
Lemma bernstein_last P : bernstein P 1 = ctrl P (length P - 1).
Proof. unfold bernstein. apply bsum_at_1. Qed.

(* convex combination: weights depend on (degree, t) only - the same for every coordinate *)
Lemma bernstein_convex P t : 0 <= t <= 1 ->
  let n := (length P - 1)%nat in
  (forall i, 0 <= bw t n i) /\ rsum (S n) (bw t n) = 1 /\ bernstein P t = rsum (S n) (fun i => bw t n i * ctrl P i).
Proof.
  intros Ht n. split; [intros; now apply bw_nonneg|]. split; [|reflexivity].
  rewrite <- (bsum_const_one t n). unfold bsum. apply rsum_ext. intros; ring.
Qed.

(* hence the value lies between the extreme control values *)
Lemma bernstein_bounds P t lo hi : 0 <= t <= 1 -> (forall i, (i < length P)%nat -> lo <= ctrl P i <= hi) -> P <> [] ->
  lo <= bernstein P t <= hi.
Proof.
  intros Ht Hb HP. destruct (bernstein_convex P t Ht) as [Hw [Hs He]]. cbv zeta in Hw, Hs, He.
  assert (Hlen : length P = S (length P - 1)) by (destruct P; [congruence | simpl; lia]).
  remember (length P - 1)%nat as n eqn:En. clear En.
  rewrite He. split.
  - replace lo with (rsum (S n) (fun i => bw t n i * lo)) by (rewrite (rsum_ext _ _ (fun i => lo * bw t n i)), rsum_scal, Hs by (intros; ring); ring).
    rewrite <- (Rplus_0_r (rsum _ (fun i => bw t n i * lo))).
    replace (rsum (S n) (fun i => bw t n i * ctrl P i)) with
      (rsum (S n) (fun i => bw t n i * lo) + rsum (S n) (fun i => bw t n i * (ctrl P i - lo)))
      by (rewrite <- rsum_plus; apply rsum_ext; intros; ring).
    apply Rplus_le_compat_l. apply rsum_nonneg. intros i Hi. apply Rmult_le_pos; [apply Hw|]. assert (Hi' : (i < length P)%nat) by lia. specialize (Hb i Hi'). lra.
  - replace hi with (rsum (S n) (fun i => bw t n i * hi)) by (rewrite (rsum_ext _ _ (fun i => hi * bw t n i)), rsum_scal, Hs by (intros; ring); ring).
    rewrite <- (Rplus_0_r (rsum _ (fun i => bw t n i * hi))).
    replace (rsum (S n) (fun i => bw t n i * ctrl P i)) with
      (rsum (S n) (fun i => bw t n i * hi) + - rsum (S n) (fun i => bw t n i * (hi - ctrl P i))).
    + apply Rplus_le_compat_l. assert (0 <= rsum (S n) (fun i => bw t n i * (hi - ctrl P i))); [|lra].
      apply rsum_nonneg. intros i Hi. apply Rmult_le_pos; [apply Hw|]. assert (Hi' : (i < length P)%nat) by lia. specialize (Hb i Hi'). lra.
    + replace (- rsum (S n) (fun i => bw t n i * (hi - ctrl P i))) with (rsum (S n) (fun i => -1 * (bw t n i * (hi - ctrl P i))))
        by (rewrite rsum_scal; ring).
      rewrite <- rsum_plus. apply rsum_ext. intros; ring.
Qed.

(* ------------------------------------------------------------------ vector-valued control points *)
Lemma res_seq_map_ok {A B} (f : A -> res B) (g : A -> B) (l : list A) :
  (forall a, In a l -> f a = Ok (g a)) -> res_seq (map f l) = Ok (map g l).
Proof.
  induction l as [|a l IH]; intros H; simpl; [reflexivity|].
  rewrite H by (now left). rewrite IH by (intros; apply H; now right). reflexivity.
Qed.

Definition bernstein_vec (P : list (list R)) (t : R) : list R :=
  map (fun k => bernstein (column Rops k P) t) (seq 0 (point_dim P)).

Lemma column_length k (P : list (list R)) : length (column Rops k P) = length P.
Proof. unfold column. apply map_length. Qed.

Lemma de_casteljau_vec_bernstein P t : P <> [] -> 0 <= t <= 1 ->
  de_casteljau_vec Rops P t = Ok (bernstein_vec P t).
Proof.
  intros HP Ht. unfold de_casteljau_vec. rewrite reject_false by assumption.
  destruct P as [|p P']; [congruence|]. unfold bernstein_vec.
  apply res_seq_map_ok. intros k _. apply de_casteljau_bernstein; [|assumption].
  intros E. apply (f_equal (@length R)) in E. rewrite column_length in E. simpl in E. lia.
Qed.

Lemma de_casteljau_vec_rejects P t : ~ (0 <= t <= 1) -> de_casteljau_vec Rops P t = Err EOutOfRange.
Proof. intros H. unfold de_casteljau_vec. now rewrite reject_true. Qed.

(* ------------------------------------------------------------------ patches: tensor-product Bernstein form *)
Definition patch_bernstein1 (rows : list (list R)) (u v : R) : R :=
  bernstein (map (fun row => bernstein row u) rows) v.

Lemma patch_eval1_bernstein rows u v : rows <> [] -> Forall (fun r => r <> []) rows -> 0 <= u <= 1 -> 0 <= v <= 1 ->
  patch_eval1 Rops rows u v = Ok (patch_bernstein1 rows u v).
Proof.
  intros Hr Hne Hu Hv. unfold patch_eval1.
  rewrite (res_seq_map_ok _ (fun row => bernstein row u)).
  - cbn [res_bind]. apply de_casteljau_bernstein; [|assumption]. destruct rows; [congruence | discriminate].
  - intros row Hin. apply de_casteljau_bernstein; [|assumption]. rewrite Forall_forall in Hne. now apply Hne.
Qed.

Definition patch_bernstein (rows : list (list (list R))) (u v : R) : list R :=
  bernstein_vec (map (fun row => bernstein_vec row u) rows) v.

Lemma patch_eval_bernstein rows u v : rows <> [] -> Forall (fun r => r <> []) rows -> 0 <= u <= 1 -> 0 <= v <= 1 ->
  patch_eval Rops rows u v = Ok (patch_bernstein rows u v).
Proof.
  intros Hr Hne Hu Hv. unfold patch_eval, patch_row.
  rewrite (res_seq_map_ok _ (fun row => bernstein_vec row u)).
  - cbn [res_bind]. apply de_casteljau_vec_bernstein; [|assumption]. destruct rows; [congruence | discriminate].
  - intros row Hin. apply de_casteljau_vec_bernstein; [|assumption]. rewrite Forall_forall in Hne. now apply Hne.
Qed.

Lemma patch_eval_rejects_u rows u v : rows <> [] -> ~ (0 <= u <= 1) -> patch_eval Rops rows u v = Err EOutOfRange.
Proof.
  intros Hr Hu. unfold patch_eval, patch_row. destruct rows as [|r rows]; [congruence|].
  cbn [map res_seq]. rewrite de_casteljau_vec_rejects by assumption. reflexivity.
Qed.
Lemma patch_eval_rejects_v rows u v : ~ (0 <= v <= 1) ->
  patch_eval Rops rows u v = Err EOutOfRange \/ exists e, patch_row Rops rows u = Err e.
Proof.
  intros Hv. unfold patch_eval. destruct (patch_row Rops rows u) as [q|e]; [left | right; now exists e].
  cbn [res_bind]. now apply de_casteljau_vec_rejects.
Qed.

(* in rectangular nets of dimension d, coordinate k of the patch is the scalar tensor-product form of coordinate k *)
Lemma nth_map_in {A B} (f : A -> B) (l : list A) (k : nat) (d : B) (d' : A) :
  (k < length l)%nat -> nth k (map f l) d = f (nth k l d').
Proof. revert k; induction l as [|a l IH]; intros [|k] H; simpl in *; try lia; auto. apply IH. lia. Qed.

Lemma bernstein_vec_nth P t k : (k < point_dim P)%nat -> nth k (bernstein_vec P t) 0 = bernstein (column Rops k P) t.
Proof.
  intros Hk. unfold bernstein_vec.
  rewrite (nth_map_in _ _ _ _ 0%nat) by (rewrite seq_length; lia). rewrite seq_nth by lia. reflexivity.
Qed.

Lemma bernstein_vec_length P t : length (bernstein_vec P t) = point_dim P.
Proof. unfold bernstein_vec. now rewrite map_length, seq_length. Qed.

Lemma patch_bernstein_nth rows u v d k : rows <> [] -> Forall (fun r => point_dim r = d) rows -> (k < d)%nat ->
  nth k (patch_bernstein rows u v) 0 = patch_bernstein1 (map (column Rops k) rows) u v.
Proof.
  intros Hr Hd Hk. unfold patch_bernstein, patch_bernstein1.
  rewrite bernstein_vec_nth.
  - f_equal. unfold column at 1. rewrite !map_map. apply map_ext_in. intros row Hin.
    rewrite bernstein_vec_nth; [reflexivity|]. rewrite Forall_forall in Hd. rewrite (Hd row Hin). exact Hk.
  - destruct rows as [|r rows]; [congruence|]. cbn [map point_dim]. rewrite bernstein_vec_length.
    rewrite Forall_forall in Hd. rewrite (Hd r) by (now left). exact Hk.
Qed.

(* corner interpolation *)
Lemma patch_corner_00 rows : patch_bernstein1 rows 0 0 = ctrl (nth 0 rows []) 0.
Proof.
  unfold patch_bernstein1. rewrite bernstein_first. unfold ctrl at 1.
  destruct rows as [|r rows]; [reflexivity|]. simpl. apply bernstein_first.
Qed.
Lemma patch_corner_11 rows : rows <> [] ->
  patch_bernstein1 rows 1 1 = ctrl (nth (length rows - 1) rows []) (length (nth (length rows - 1) rows []) - 1).
Proof.
  intros Hr. unfold patch_bernstein1. rewrite bernstein_last. unfold ctrl at 1. rewrite map_length.
  rewrite (nth_map_in _ _ _ _ []) by (destruct rows; [congruence | simpl; lia]). apply bernstein_last.
Qed.
Lemma patch_corner_01 rows : rows <> [] ->
  patch_bernstein1 rows 0 1 = ctrl (nth (length rows - 1) rows []) 0.
Proof.
  intros Hr. unfold patch_bernstein1. rewrite bernstein_last. unfold ctrl at 1. rewrite map_length.
  rewrite (nth_map_in _ _ _ _ []) by (destruct rows; [congruence | simpl; lia]). apply bernstein_first.
Qed.
Lemma patch_corner_10 rows : patch_bernstein1 rows 1 0 = ctrl (nth 0 rows []) (length (nth 0 rows []) - 1).
Proof.
  unfold patch_bernstein1. rewrite bernstein_first. unfold ctrl at 1.
  destruct rows as [|r rows]; [reflexivity|]. simpl. apply bernstein_last.
Qed.
