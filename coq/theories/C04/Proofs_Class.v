(* C04 - the class of the loaded object is the one its content implies; kinds outside a format's vocabulary are
   absent from what a file of that format gives back; witnesses (non-vacuity, and the refutation for hexahedra in
   geogram_ascii). *)
From Coq Require Import ZArith Bool String Ascii Lia.
From Coq Require Import List.
Import ListNotations.
Require Import MV.Lib.Base MV.C04.Gen MV.C04.Model MV.C04.Geo MV.C04.Stl MV.C04.Ref MV.C04.Run MV.C04.Proofs_Text MV.C04.Proofs_Geo.
Open Scope list_scope.
Open Scope Z_scope.

Section Class.
Variables F Cx : Type.
Notation mesh := (mesh F Cx).
Notation raw := (raw F Cx).

Definition implied_class (r : raw) : string :=
  if negb (isnil (rC r)) then "VolumeMesh" else if negb (isnil (rF r)) then "SurfaceMesh"
  else if negb (isnil (rE r)) then "PolyLine" else "PointCloud".

(* mesh.py:_instanciate_raw_mesh_data o mesh_data.py:_compute_dimensionality (both regenerated in Gen.v) *)
Lemma class_implied (r : raw) : class_of_raw r = Some (implied_class r).
Proof. unfold class_of_raw, dim_raw, implied_class. destruct (rC r), (rF r), (rE r); reflexivity. Qed.

(* the class of the object load() returns (after prepare) is the implied one whenever the edges read are valid *)
Lemma class_loaded (r : raw) :
  (forall e, In e (rE r) -> edge_valid (zlen (rV r)) e = true) -> class_of_loaded r = Some (implied_class r).
Proof.
  intros H. rewrite <- class_implied. unfold class_of_loaded, class_of_raw, dim_raw. f_equal. f_equal.
  destruct (rE r) as [|e E]; [reflexivity|]. cbn [existsb isnil]. rewrite (H e (or_introl eq_refl)). reflexivity.
Qed.

Lemma filter_len_or a b (els : list (list Z)) :
  Forall (fun e => zlen e = a \/ zlen e = b) (filter (len_is a) els ++ filter (len_is b) els).
Proof.
  apply Forall_app. split; apply Forall_forall; intros e He; apply filter_In in He as [_ He]; unfold len_is in He; lia.
Qed.

Lemma vocabulary (m : mesh) sw :
  (rE (vocab_xyz m) = [] /\ rF (vocab_xyz m) = [] /\ rC (vocab_xyz m) = [])
  /\ (forall r, vocab_obj sw m = Some r -> rC r = [])
  /\ (rE (vocab_off m) = [] /\ rC (vocab_off m) = [])
  /\ (rE (vocab_tet m) = [] /\ rF (vocab_tet m) = [])
  /\ (forall r, vocab_medit m = Some r ->
        Forall (fun f => zlen f = 3 \/ zlen f = 4) (rF r) /\ Forall (fun c => zlen c = 8 \/ zlen c = 4) (rC r)).
Proof.
  repeat split; try reflexivity.
  - intros r. unfold vocab_obj. destruct (obj_exported_edges sw m); [|discriminate]. intros [= <-]. reflexivity.
  - revert H. unfold vocab_medit. destruct (medit_exported_edges m); [|discriminate]. intros [= <-].
    cbn [rF raw_of]. cbn. rewrite app_nil_r. apply filter_len_or.
  - revert H. unfold vocab_medit. destruct (medit_exported_edges m); [|discriminate]. intros [= <-].
    cbn [rC raw_of]. cbn. rewrite app_nil_r. apply filter_len_or.
Qed.
End Class.

(* ------------------------------------------------------------------ witnesses *)
(* a square pyramid's worth of data: 5 vertices, two explicit edges, a triangle and a quad, one tetrahedron; a float
   attribute on the vertices, a string attribute on the faces (bit patterns stand for the doubles) *)
Definition ex_attr_w : zattr := zmkattr "w" TyFloat 1 [vF 4607182418800017408; vF 0; vF 4611686018427387904; vF 0; vF 0].
Definition ex_attr_l : zattr := zmkattr "label" TyString 1 [vS "a"; vS ""].
Definition ex_mesh : zmesh :=
  zmkmesh [(0, 0, 0); (4607182418800017408, 0, 0); (4607182418800017408, 4607182418800017408, 0); (0, 4607182418800017408, 0);
           (0, 0, 4607182418800017408)]
          [(0, 1); (1, 2)] (Some [0; 1]) [[0; 1; 2]; [0; 2; 3; 4]] [[0; 1; 2; 4]]
          [ex_attr_w] [] [ex_attr_l] [] [] [] [] [4294967295; 4294967295; 4294967295; 4294967295].

Example ex_off_ok : off_ok ex_mesh.
Proof. repeat constructor; unfold zlen; cbn; lia. Qed.

Example ex_obj_ref_ok : obj_ref_ok Z (Z * Z) [(0, 1); (1, 2)] ex_mesh.
Proof. split; repeat constructor; cbn; lia. Qed.

Lemma clean_cbn s : (forallb (fun c => negb (Ascii.eqb c dquote)) (list_ascii_of_string s) = true) -> clean s.
Proof.
  intros H c Hc E. rewrite forallb_forall in H. specialize (H c Hc). subst c. rewrite Ascii.eqb_refl in H. discriminate.
Qed.

Example ex_geo_ok : geo_ok Z Z (Z * Z) (Z * Z) ex_mesh.
Proof.
  assert (Hw : attr_ok Z Z (Z * Z) (Z * Z) ex_attr_w).
  { split; [apply clean_cbn; reflexivity|]. split.
    - unfold reserved. cbn. intros H. repeat (destruct H as [H|H]); try discriminate H; try contradiction.
    - split; [reflexivity|]. split; [cbn; lia|]. repeat constructor. }
  assert (Hl : attr_ok Z Z (Z * Z) (Z * Z) ex_attr_l).
  { split; [apply clean_cbn; reflexivity|]. split.
    - unfold reserved. cbn. intros H. repeat (destruct H as [H|H]); try discriminate H; try contradiction.
    - split; [reflexivity|]. split; [cbn; lia|]. repeat constructor. }
  unfold geo_ok, attrs_ok. cbn [ex_mesh zmkmesh aV aE aF aFC aC aCC aCF mC map].
  repeat split;
    try match goal with
        | |- Forall (attr_ok _ _ _ _) [_] => constructor; [assumption|constructor]
        | |- Forall _ [] => constructor
        | |- NoDup _ => repeat constructor; cbn; intuition discriminate
        | |- ~ In _ _ => cbn; intuition discriminate
        | |- Forall _ [_] => repeat constructor
        end.
Qed.

(* the model's own round trips on the witness, evaluated *)
Example ex_roundtrips :
  forallb (fun f => check_roundtrip (f, default_sw, ex_mesh)) [Fxyz; Fobj; Foff; Ftet; Fmedit; Fgeo] = true.
Proof. vm_compute. reflexivity. Qed.

Example ex_geo_attr_dense :
  @dense_of Z (Z * Z) bits_of_int cx_of_bits 5 (@sparse_of Z (Z * Z) bits_is_zero cbits_is_zero ex_attr_w) = a_vals ex_attr_w.
Proof. vm_compute. reflexivity. Qed.

Example ex_stl : exists S, @soup32 (Z * Z) (Z * Z) Z to32_pair
    (szmkmesh [((0, 0), (0, 0), (0, 0)); ((4607182418800017408, 1065353216), (0, 0), (0, 0)); ((0, 0), (4607182418800017408, 1065353216), (0, 0))]
              [] None [[0; 1; 2]] [] [] [] [] [] [] [] [] []) = Some S.
Proof. eexists. vm_compute. reflexivity. Qed.

(* hexahedral and mixed volume meshes: the model's geogram round trip evaluated on a witness (the theorem covers them) *)
Definition ex_hex_mesh : zmesh :=
  zmkmesh (map (fun i => (bits_of_int i, 0, bits_of_int (i * i))) (zrange 9)) [] None [] [[0; 1; 2; 3; 4; 5; 6; 7]; [0; 1; 2; 8]]
          [] [] [] [] [zmkattr "ca" TyInt 1 [Run.vI 5; Run.vI 0]] [] [] [].
Example ex_hex_roundtrip : forallb (fun f => check_roundtrip (f, default_sw, ex_hex_mesh)) [Fmedit; Ftet; Fgeo] = true.
Proof. vm_compute. reflexivity. Qed.

(* REFUTED (known findings obj/relative-indices, mesh/count-on-keyword-line, mesh/dimension-2): legal files of independent
   writers that mouette's importers misread.  1.0 = 4607182418800017408, 7.0 = 4619567317775286272 as bit patterns. *)
Definition ex_obj_relative : list zline :=
  [[tW "v"; tF 0; tF 0; tF 0]; [tW "v"; tF 4607182418800017408; tF 0; tF 0]; [tW "v"; tF 0; tF 4607182418800017408; tF 0];
   [tW "f"; tI (-3); tI (-2); tI (-1)]].
Lemma obj_relative_indices_refuted :
  exists r, parse_fmt Fobj ex_obj_relative = Some r /\ rF r = [[-4; -3; -2]] /\ rF r <> [[0; 1; 2]].
Proof. eexists. split; [vm_compute; reflexivity|]. split; [reflexivity|discriminate]. Qed.

Definition ex_medit_inline : list zline :=
  [[tW "MeshVersionFormatted"; tI 2]; [tW "Dimension"; tI 3]; [tW "Vertices"; tI 1]; [tF 0; tF 0; tF 0; tI 0]; [tW "End"]].
Lemma medit_inline_count_refuted :
  exists r1 r2, ref_parse_fmt Fmedit ex_medit_inline = Some r1 /\ parse_fmt Fmedit ex_medit_inline = Some r2
                /\ rV r1 = [[0; 0; 0]] /\ rV r2 = [].
Proof. do 2 eexists. repeat split; vm_compute; reflexivity. Qed.

Definition ex_medit_dim2 : list zline :=
  [[tW "MeshVersionFormatted"; tI 2]; [tW "Dimension"; tI 2]; [tW "Vertices"]; [tI 1]; [tF 0; tF 0; tI 7]; [tW "End"]].
Lemma medit_dimension2_refuted :
  exists r, parse_fmt Fmedit ex_medit_dim2 = Some r /\ rV r = [[0; 0; 4619567317775286272]].
Proof. eexists. split; vm_compute; reflexivity. Qed.
