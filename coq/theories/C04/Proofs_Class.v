(* C04 - class of the loaded object, vocabulary corollary, extension dispatch, ignore_elements, witnesses (non-vacuity)
   and the _refuted witnesses of the known findings; statement lemmas exported to Props.v. *)


From Coq Require Import ZArith Bool String Ascii Lia.
From Coq Require Import List.
Import ListNotations.
Require Import MV.Lib.Base MV.C04.Gen MV.C04.Model MV.C04.Geo MV.C04.Stl MV.C04.Ref MV.C04.GeoRef MV.C04.Run MV.C04.Proofs_Text MV.C04.Proofs_Ref MV.C04.Proofs_Geo MV.C04.Proofs_GeoRef.
Open Scope list_scope.
Open Scope Z_scope.

Section Class.
Variables F Cx : Type.
Notation mesh := (mesh F Cx).
Notation raw := (raw F Cx).

Definition implied_class (r : raw) : string :=
  if negb (isnil (rC r)) then "VolumeMesh" else if negb (isnil (rF r)) then "SurfaceMesh"
  else if negb (isnil (rE r)) then "PolyLine" else "PointCloud".

(* mesh.py:_instanciate_raw_mesh_data o mesh_data.py:_compute_dimensionality (both regenerated in Gen.v) *)
Lemma class_implied (r : raw) : class_of_raw r = Some (implied_class r).
Proof. unfold class_of_raw, dim_raw, implied_class. destruct (rC r), (rF r), (rE r); reflexivity. Qed.

(* the class of the object load() returns (after prepare) is the implied one whenever the edges read are valid *)
Lemma class_loaded (r : raw) :
  (forall e, In e (rE r) -> edge_valid (zlen (rV r)) e = true) -> class_of_loaded r = Some (implied_class r).
Proof.
  intros H. rewrite <- class_implied. unfold class_of_loaded, class_of_raw, dim_raw. f_equal. f_equal.
  destruct (rE r) as [|e E]; [reflexivity|]. cbn [existsb isnil]. rewrite (H e (or_introl eq_refl)). reflexivity.
Qed.

Lemma prepared_dim (r : raw) :
  (forall e, In e (rE r) -> edge_valid (zlen (rV r)) e = true) ->
  compute_dimensionality (isnil (rC r)) (isnil (rF r)) (negb (existsb (edge_valid (zlen (rV r))) (rE r))) = dim_raw r.
Proof.
  intros H. unfold dim_raw. f_equal.
  destruct (rE r) as [|e E]; [reflexivity|]. cbn [existsb isnil]. rewrite (H e (or_introl eq_refl)). reflexivity.
Qed.

(* load(path, dim=d): a dimension below that of the content never demotes the object (no element kind is dropped), and
   leaving `dim` out is the plain load *)
Lemma class_loaded_dim (r : raw) (d : Z) :
  (forall e, In e (rE r) -> edge_valid (zlen (rV r)) e = true) -> d <= dim_raw r ->
  class_of_loaded_dim (Some d) r = Some (implied_class r) /\ class_of_loaded_dim None r = class_of_loaded r.
Proof.
  intros H Hd. unfold class_of_loaded_dim, class_of_loaded. rewrite (prepared_dim r H). unfold instanciate_dim. split.
  - rewrite Z.max_r by exact Hd. apply class_implied.
  - f_equal. apply Z.max_r. unfold dim_raw, compute_dimensionality. destruct (isnil (rC r)), (isnil (rF r)), (isnil (rE r)); cbn; lia.
Qed.

Lemma filter_len_or a b (els : list (list Z)) :
  Forall (fun e => zlen e = a \/ zlen e = b) (filter (len_is a) els ++ filter (len_is b) els).
Proof.
  apply Forall_app. split; apply Forall_forall; intros e He; apply filter_In in He as [_ He]; unfold len_is in He; lia.
Qed.

Lemma vocabulary (m : mesh) sw :
  (rE (vocab_xyz m) = [] /\ rF (vocab_xyz m) = [] /\ rC (vocab_xyz m) = [])
  /\ (forall r, vocab_obj sw m = Some r -> rC r = [])
  /\ (rE (vocab_off m) = [] /\ rC (vocab_off m) = [])
  /\ (rE (vocab_tet m) = [] /\ rF (vocab_tet m) = [])
  /\ (forall r, vocab_medit m = Some r ->
        Forall (fun f => zlen f = 3 \/ zlen f = 4) (rF r) /\ Forall (fun c => zlen c = 8 \/ zlen c = 4) (rC r)).
Proof.
  repeat split; try reflexivity.
  - intros r. unfold vocab_obj. destruct (obj_exported_edges sw m); [|discriminate]. intros [= <-]. reflexivity.
  - revert H. unfold vocab_medit. destruct (medit_exported_edges m); [|discriminate]. intros [= <-].
    cbn [rF raw_of]. cbn. rewrite app_nil_r. apply filter_len_or.
  - revert H. unfold vocab_medit. destruct (medit_exported_edges m); [|discriminate]. intros [= <-].
    cbn [rC raw_of]. cbn. rewrite app_nil_r. apply filter_len_or.
Qed.
End Class.

(* ------------------------------------------------------------------ witnesses *)
(* a square pyramid's worth of data: 5 vertices, two explicit edges, a triangle and a quad, one tetrahedron; a float
   attribute on the vertices, a string attribute on the faces (bit patterns stand for the doubles) *)
Definition ex_attr_w : zattr := zmkattr "w" TyFloat 1 [vF 4607182418800017408; vF 0; vF 4611686018427387904; vF 0; vF 0].
Definition ex_attr_l : zattr := zmkattr "label" TyString 1 [vS "a"; vS ""].
Definition ex_mesh : zmesh :=
  zmkmesh [(0, 0, 0); (4607182418800017408, 0, 0); (4607182418800017408, 4607182418800017408, 0); (0, 4607182418800017408, 0);
           (0, 0, 4607182418800017408)]
          [(0, 1); (1, 2)] (Some [0; 1]) [[0; 1; 2]; [0; 2; 3; 4]] [[0; 1; 2; 4]]
          [ex_attr_w] [] [ex_attr_l] [] [] [] [] [4294967295; 4294967295; 4294967295; 4294967295].

Example ex_off_ok : off_ok ex_mesh.
Proof. repeat constructor; unfold zlen; cbn; lia. Qed.

Example ex_obj_ref_ok : obj_ref_ok Z (Z * Z) [(0, 1); (1, 2)] ex_mesh.
Proof. split; repeat constructor; cbn; lia. Qed.

Example ex_geo_ok : geo_ok Z (Z * Z) zenc_n ex_mesh.
Proof.
  assert (Hw : attr_ok Z (Z * Z) zenc_n ex_attr_w).
  { split.
    - unfold reserved. cbn. intros H. repeat (destruct H as [H|H]); try discriminate H; try contradiction.
    - split; [cbn; lia|]. repeat constructor. }
  assert (Hl : attr_ok Z (Z * Z) zenc_n ex_attr_l).
  { split.
    - unfold reserved. cbn. intros H. repeat (destruct H as [H|H]); try discriminate H; try contradiction.
    - split; [cbn; lia|]. repeat constructor. }
  unfold geo_ok, attrs_ok. cbn [ex_mesh zmkmesh aV aE aF aFC aC aCC aCF mC map].
  repeat split;
    try match goal with
        | |- Forall (attr_ok _ _ _) [_] => constructor; [assumption|constructor]
        | |- Forall _ [] => constructor
        | |- NoDup _ => repeat constructor; cbn; intuition discriminate
        | |- ~ In _ _ => cbn; intuition discriminate
        | |- Forall _ [_] => repeat constructor
        end.
Qed.

Example ex_geo_sizes_ok : geo_sizes_ok Z (Z * Z) ex_mesh.
Proof.
  unfold geo_sizes_ok. cbn [ex_mesh zmkmesh aV aE aF aFC aC aCC aCF mV mE mF mC mAdj].
  repeat split; try (repeat constructor; cbn; lia); try reflexivity.
Qed.

(* string values and attribute names with the characters the file format itself uses: #, blanks at the ends, line break,
   double quote, chunk keyword, the empty string - percent-encoded on export, they come back *)
Definition ex_nl : string := String (ascii_of_N 10) EmptyString.
Definition ex_str_mesh : zmesh :=
  zmkmesh [(0, 0, 0); (4607182418800017408, 0, 0); (0, 4607182418800017408, 0); (0, 0, 0); (0, 0, 0)] [] None [[0; 1; 2]] []
          [zmkattr ("na#me ""q""" ++ ex_nl ++ "[ATTS]") TyString 1 [vS "a#b"; vS " lead "; vS ("x" ++ ex_nl ++ "y"); vS "[ATTR]"; vS ""]]
          [] [] [] [] [] [] [].
Example ex_str_roundtrip : check_roundtrip (Fgeo, default_sw, ex_str_mesh) = true.
Proof. vm_compute. reflexivity. Qed.
Example ex_pct_roundtrip :
  forallb (fun s => String.eqb (pct_decode (zenc_s s)) s && String.eqb (pct_decode (zenc_n s)) s
                    && negb (@Geo.is_chunk_header Z (Z * Z) (TWord (zenc_s s))) && negb (@Geo.is_chunk_header Z (Z * Z) (TWord (qs (zenc_n s)))))
          ["a#b"; " lead "; "x" ++ ex_nl ++ "y"; "[ATTR]"; "[HEAD]"; ""; "100%"; "%41"; "a""b"; "tab" ++ String (ascii_of_N 9) ""]%string = true.
Proof. vm_compute. reflexivity. Qed.

(* the model's own round trips on the witness, evaluated *)
Example ex_roundtrips :
  forallb (fun f => check_roundtrip (f, default_sw, ex_mesh)) [Fxyz; Fobj; Foff; Ftet; Fmedit; Fgeo] = true.
Proof. vm_compute. reflexivity. Qed.

Example ex_geo_attr_dense :
  @dense_of Z (Z * Z) bits_of_int cx_of_bits 5 (@sparse_of Z (Z * Z) bits_is_zero cbits_is_zero ex_attr_w) = a_vals ex_attr_w.
Proof. vm_compute. reflexivity. Qed.

Example ex_stl : exists S, @soup32 (Z * Z) (Z * Z) Z to32_pair
    (szmkmesh [((0, 0), (0, 0), (0, 0)); ((4607182418800017408, 1065353216), (0, 0), (0, 0)); ((0, 0), (4607182418800017408, 1065353216), (0, 0))]
              [] None [[0; 1; 2]] [] [] [] [] [] [] [] [] []) = Some S.
Proof. eexists. vm_compute. reflexivity. Qed.

(* hexahedral and mixed volume meshes: the model's geogram round trip evaluated on a witness (the theorem covers them) *)
Definition ex_hex_mesh : zmesh :=
  zmkmesh (map (fun i => (bits_of_int i, 0, bits_of_int (i * i))) (zrange 9)) [] None [] [[0; 1; 2; 3; 4; 5; 6; 7]; [0; 1; 2; 8]]
          [] [] [] [] [zmkattr "ca" TyInt 1 [Run.vI 5; Run.vI 0]] [] [] [].
Example ex_hex_roundtrip : forallb (fun f => check_roundtrip (f, default_sw, ex_hex_mesh)) [Fmedit; Ftet; Fgeo] = true.
Proof. vm_compute. reflexivity. Qed.

(* REFUTED (known findings mesh/count-on-keyword-line, mesh/dimension-2; the first example, obj relative indices, is repaired): legal files of independent
   writers that mouette's importers misread.  1.0 = 4607182418800017408, 7.0 = 4619567317775286272 as bit patterns. *)
Definition ex_obj_relative : list zline :=
  [[tW "v"; tF 0; tF 0; tF 0]; [tW "v"; tF 4607182418800017408; tF 0; tF 0]; [tW "v"; tF 0; tF 4607182418800017408; tF 0];
   [tW "f"; tI (-3); tI (-2); tI (-1)]].
(* relative references are resolved against the vertices read so far (repaired in /repo: resolve_index) *)
Lemma obj_relative_example :
  exists r, parse_fmt Fobj ex_obj_relative = Some r /\ rF r = [[0; 1; 2]].
Proof. eexists. split; vm_compute; reflexivity. Qed.
(* the hypotheses of C04_interop_obj_relative and the index guards of C04_roundtrip_obj / C04_interop_obj hold of ex_mesh *)
Example ex_obj_rel_hyps :
  Forall (fun e : Z * Z => fst e < zlen (mV ex_mesh) /\ snd e < zlen (mV ex_mesh)) (mE ex_mesh)
  /\ Forall (Forall (fun i => i < zlen (mV ex_mesh))) (mF ex_mesh)
  /\ nonneg_edges (mE ex_mesh) /\ nonneg_elems (mF ex_mesh).
Proof. vm_compute. repeat constructor; discriminate. Qed.
Example ex_obj_rel_loads :
  parse_fmt Fobj (@ref_print_obj_rel Z Z (Z * Z) (Z * Z) idZ ex_mesh)
  = Some (raw_of (Z * Z) (map (@v3 Z) (mV ex_mesh)) [[0; 1]; [1; 2]] (mF ex_mesh) []).
Proof. vm_compute. reflexivity. Qed.

Definition ex_obj_relative_mixed : list zline :=
  [[tW "v"; tF 0; tF 0; tF 0]; [tW "v"; tF 4607182418800017408; tF 0; tF 0]; [tW "v"; tF 0; tF 4607182418800017408; tF 0];
   [tW "f"; tW "-3/-3"; tW "-2//7"; tI (-1)]; [tW "v"; tF 0; tF 0; tF 4607182418800017408]; [tW "f"; tI (-1); tI 1; tI (-2)]; [tW "l"; tI (-1); tI 1]].
Example obj_relative_mixed_example :
  exists r, parse_fmt Fobj ex_obj_relative_mixed = Some r /\ rF r = [[0; 1; 2]; [3; 0; 2]] /\ rE r = [[0; 3]].
Proof. eexists. repeat split; vm_compute; reflexivity. Qed.

Definition ex_medit_inline : list zline :=
  [[tW "MeshVersionFormatted"; tI 2]; [tW "Dimension"; tI 3]; [tW "Vertices"; tI 1]; [tF 0; tF 0; tF 0; tI 0]; [tW "End"]].
Lemma medit_inline_count_refuted :
  exists r1 r2, ref_parse_fmt Fmedit ex_medit_inline = Some r1 /\ parse_fmt Fmedit ex_medit_inline = Some r2
                /\ rV r1 = [[0; 0; 0]] /\ rV r2 = [].
Proof. do 2 eexists. repeat split; vm_compute; reflexivity. Qed.

Definition ex_medit_dim2 : list zline :=
  [[tW "MeshVersionFormatted"; tI 2]; [tW "Dimension"; tI 2]; [tW "Vertices"]; [tI 1]; [tF 0; tF 0; tI 7]; [tW "End"]].
Lemma medit_dimension2_refuted :
  exists r, parse_fmt Fmedit ex_medit_dim2 = Some r /\ rV r = [[0; 0; 4619567317775286272]].
Proof. eexists. split; vm_compute; reflexivity. Qed.

(* REFUTED (known finding geogram_ascii/attribute-name/reserved-by-the-format): a user attribute whose name is one the format
   gives a meaning to ("point" on the vertices) is read back as geometry: the vertices are doubled and the attribute lost *)
Definition ex_point_mesh : zmesh :=
  zmkmesh [(0, 0, 0); (4607182418800017408, 0, 0)] [] None [] []
          [zmkattr "point" TyFloat 3 [Run.vF 0; Run.vF 0; Run.vF 0; Run.vF 0; Run.vF 0; Run.vF 0]] [] [] [] [] [] [] [].
Lemma geogram_reserved_name_refuted :
  exists r, parse_fmt Fgeo (map (fun t => [t]) (zprint_geo ex_point_mesh)) = Some r
            /\ length (rV r) = 4%nat /\ rAV r = [] /\ oraw_eqb (Some r) (vocab_fmt Fgeo default_sw ex_point_mesh) = false.
Proof. eexists. split; [vm_compute; reflexivity|]. repeat split. Qed.

(* REFUTED (known finding stl/quad-faces/written-as-two-triangles): STL has no quads; a quad is not left out but written as the
   two triangles (p0,p1,p2), (p2,p3,p0): an element kind the format cannot express is turned into something else *)
Definition ex_quad_smesh : smesh :=
  szmkmesh [((0, 0), (0, 0), (0, 0)); ((4607182418800017408, 1065353216), (0, 0), (0, 0));
            ((4607182418800017408, 1065353216), (4607182418800017408, 1065353216), (0, 0)); ((0, 0), (4607182418800017408, 1065353216), (0, 0))]
           [] None [[0; 1; 2; 3]] [] [] [] [] [] [] [] [] [].
Lemma stl_quad_refuted :
  exists L S, zprint_stl ex_quad_smesh = Some L /\ @ref_parse_stl Z L = Some S /\ length S = 2%nat /\ Forall (fun t => length t = 3%nat) S.
Proof. do 2 eexists. split; [vm_compute; reflexivity|]. split; [vm_compute; reflexivity|]. split; [reflexivity|repeat constructor]. Qed.

(* ------------------------------------------------------------------ statements exported to Props.v *)
Section Statements.
Variables F Ftxt Cx Ctxt : Type.
Variable pf : F -> Ftxt.
Variable rf : Ftxt -> F.
Variable f_of_int : Z -> F.
Hypothesis rf_pf : forall x, rf (pf x) = x.

Lemma roundtrip_xyz_stmt (m : mesh F Cx) L : no_xyz_attrs m ->
  @print_xyz F Ftxt Cx Ctxt pf m = Some L -> @parse_xyz F Ftxt Cx Ctxt rf f_of_int L = Some (vocab_xyz m).
Proof. intros _. now apply xyz_roundtrip. Qed.

Lemma roundtrip_obj_stmt sw (m : mesh F Cx) L : no_obj_attrs m -> nonneg_edges (mE m) -> nonneg_elems (mF m) ->
  @print_obj F Ftxt Cx Ctxt pf sw m = Some L -> @parse_obj F Ftxt Cx Ctxt rf f_of_int L = vocab_obj sw m.
Proof. intros _ HE HF. now apply obj_roundtrip. Qed.

Lemma interop_xyz_stmt (m : mesh F Cx) : no_xyz_attrs m ->
  (forall L, @print_xyz F Ftxt Cx Ctxt pf m = Some L -> @ref_parse_xyz F Ftxt Cx Ctxt rf f_of_int L = Some (vocab_xyz m))
  /\ @parse_xyz F Ftxt Cx Ctxt rf f_of_int (@ref_print_xyz F Ftxt Cx Ctxt pf m) = Some (vocab_xyz m).
Proof. intros _. split; [intros; eapply xyz_ref_reads; eassumption | now apply xyz_loads_ref]. Qed.

Lemma interop_obj_stmt sw (m : mesh F Cx) : no_obj_attrs m ->
  (forall L el, obj_exported_edges sw m = Some el -> @obj_ref_ok F Cx el m -> @print_obj F Ftxt Cx Ctxt pf sw m = Some L ->
     @ref_parse_obj F Ftxt Cx Ctxt rf f_of_int L = Some (raw_of Cx (map (@v3 F) (mV m)) (map e2 el) (mF m) []))
  /\ (nonneg_edges (mE m) -> nonneg_elems (mF m) ->
      @parse_obj F Ftxt Cx Ctxt rf f_of_int (@ref_print_obj F Ftxt Cx Ctxt pf m)
      = Some (raw_of Cx (map (@v3 F) (mV m)) (map (fun e => keyify2 (fst e) (snd e)) (mE m)) (mF m) [])).
Proof. intros _. split; [intros; eapply obj_ref_reads; eassumption | intros; now apply obj_loads_ref]. Qed.

(* a file whose faces and polylines use RELATIVE references (i - n after the n vertices) loads as the mesh it denotes *)
Lemma interop_obj_relative_stmt (m : mesh F Cx) :
  Forall (fun e : Z * Z => fst e < zlen (mV m) /\ snd e < zlen (mV m)) (mE m) ->
  Forall (Forall (fun i => i < zlen (mV m))) (mF m) ->
  @parse_obj F Ftxt Cx Ctxt rf f_of_int (@ref_print_obj_rel F Ftxt Cx Ctxt pf m)
  = Some (raw_of Cx (map (@v3 F) (mV m)) (map (fun e => keyify2 (fst e) (snd e)) (mE m)) (mF m) []).
Proof. now apply obj_loads_relative. Qed.

Lemma interop_off_stmt (m : mesh F Cx) :
  @ref_parse_off F Ftxt Cx Ctxt rf f_of_int (concat (print_off Ctxt pf m)) = Some (vocab_off m)
  /\ (off_ok m -> @parse_off F Ftxt Cx Ctxt rf f_of_int (@ref_print_off F Ftxt Cx Ctxt pf m) = Some (vocab_off m)).
Proof. split; [now apply off_ref_reads | now apply off_loads_ref]. Qed.

Lemma interop_tet_stmt (m : mesh F Cx) :
  @ref_parse_tet F Ftxt Cx Ctxt rf f_of_int (concat (print_tet Ctxt pf m)) = Some (vocab_tet m)
  /\ @parse_tet F Ftxt Cx Ctxt rf f_of_int (@ref_print_tet F Ftxt Cx Ctxt pf m) = Some (vocab_tet m).
Proof. split; [now apply tet_ref_reads | now apply tet_loads_ref]. Qed.

Lemma interop_medit_stmt (m : mesh F Cx) :
  (forall L, @print_medit F Ftxt Cx Ctxt pf m = Some L ->
     option_map Some (@ref_parse_medit F Ftxt Cx Ctxt rf f_of_int (concat L)) = Some (vocab_medit m))
  /\ @parse_medit F Ftxt Cx Ctxt rf f_of_int (@ref_print_medit F Ftxt Cx Ctxt pf m)
     = Some (raw_of Cx (map (@v3 F) (mV m)) (map e2 (mE m))
               (filter (len_is 3) (mF m) ++ filter (len_is 4) (mF m)) (filter (len_is 4) (mC m) ++ filter (len_is 8) (mC m))).
Proof. split; [intros L HL; now apply (medit_ref_reads F Ftxt Cx Ctxt pf rf f_of_int rf_pf m L) | now apply medit_loads_ref]. Qed.
End Statements.

Lemma attributes_geogram_stmt (F Cx : Type) (f_of_int : Z -> F) (cx_of_f : F -> Cx)
    (f_is_zero : F -> bool) (c_is_zero : Cx -> bool) (a : attr F Cx) (n : nat) :
  1 <= a_ar a -> length (a_vals a) = (n * Z.to_nat (a_ar a))%nat ->
  (a_ar a = 1 -> Forall (fun v => @not_default F Cx f_is_zero c_is_zero v = false -> v = @ty_default F Cx f_of_int cx_of_f (a_ty a)) (a_vals a)) ->
  @dense_of F Cx f_of_int cx_of_f (Z.of_nat n) (@sparse_of F Cx f_is_zero c_is_zero a) = a_vals a
  /\ s_name (@sparse_of F Cx f_is_zero c_is_zero a) = a_name a
  /\ s_ty (@sparse_of F Cx f_is_zero c_is_zero a) = a_ty a /\ s_ar (@sparse_of F Cx f_is_zero c_is_zero a) = a_ar a.
Proof. intros H1 H2 H3. split; [now apply geo_attr_dense | repeat split]. Qed.

(* io.py: every writable / readable extension of the model is dispatched to the codec the model describes *)
Lemma dispatch_all : forall f, dispatch_ok f = true.
Proof. intros []; vm_compute; reflexivity. Qed.

(* save(ignore_elements=...): the named kinds are absent from what is written, nothing else changes *)
Lemma existsb_eqb_In (k : string) (l : list string) : In k l -> existsb (String.eqb k) l = true.
Proof. intros H. apply existsb_exists. exists k. split; [assumption|apply String.eqb_refl]. Qed.
Lemma ignore_elements_stmt (F Cx : Type) (sw : switches) (m : mesh F Cx) :
  (In "edges"%string (sw_ignore sw) -> mE (apply_ignore sw m) = [] /\ mHard (apply_ignore sw m) = None /\ aE (apply_ignore sw m) = [])
  /\ (In "faces"%string (sw_ignore sw) -> mF (apply_ignore sw m) = [] /\ aF (apply_ignore sw m) = [] /\ aFC (apply_ignore sw m) = [])
  /\ (In "cells"%string (sw_ignore sw) -> mC (apply_ignore sw m) = [] /\ aC (apply_ignore sw m) = [] /\ aCC (apply_ignore sw m) = []
                                         /\ aCF (apply_ignore sw m) = [])
  /\ mV (apply_ignore sw m) = mV m /\ aV (apply_ignore sw m) = aV m
  /\ (sw_ignore sw = [] -> apply_ignore sw m = m).
Proof.
  unfold apply_ignore, ignored, save_ignore_table. cbn [existsb fst snd mE mHard aE mF aF aFC mC aC aCC aCF mV aV].
  repeat split;
    try match goal with H : In _ (sw_ignore sw) |- _ => rewrite (existsb_eqb_In _ _ H) end;
    try (cbn [String.eqb Ascii.eqb Bool.eqb andb orb]; rewrite ?andb_false_r, ?andb_true_r, ?orb_false_r, ?orb_true_r;
         cbn [andb orb]; rewrite ?orb_true_r; reflexivity).
  - intros ->. cbn. now destruct m.
Qed.
