(* C04 - an independent, count-driven reader of the geogram_ascii container layout, written from the description of
   the format ([HEAD] / [ATTS] name count / [ATTR] set name type element-size dimension, followed by count * dimension
   values) and NOT from mouette's importer: it never looks for the next chunk header, it reads the number of values the
   declared sizes announce (this is how geogram itself reads the file).  No proofs. *)
From Coq Require Import ZArith Bool String Ascii.
From Coq Require Import List.
Import ListNotations.
Require Import MV.Lib.Base MV.C04.Model.
Open Scope list_scope.
Open Scope Z_scope.
Set Implicit Arguments.
Set Maximal Implicit Insertion.

Section GeoRef.
Variables Ftxt Ctxt : Type.
Notation tok := (tok Ftxt Ctxt).

(* what the file contains: attribute sets with their sizes, attributes with their set, name, type, dimension, values *)
Inductive gitem := GAtts (set : string) (n : Z) | GAttr (set name ty : string) (esize dim : Z) (vals : list tok).

Definition lookup_size (s : string) (sizes : list (string * Z)) : option Z :=
  match find (fun e => String.eqb s (fst e)) sizes with Some (_, n) => Some n | None => None end.

Fixpoint ref_geo_loop (fuel : nat) (ts : list tok) (sizes : list (string * Z)) : option (list gitem) :=
  match fuel with
  | O => None
  | S fuel' =>
      match ts with
      | [] => Some []
      | TWord k :: rest =>
          if String.eqb k "[HEAD]" then
            match rest with TWord _ :: TWord _ :: r => ref_geo_loop fuel' r sizes | _ => None end
          else if String.eqb k "[ATTS]" then
            match rest with
            | TWord s :: TInt n :: r =>
                if n <? 0 then None else
                match ref_geo_loop fuel' r ((s, n) :: sizes) with Some l => Some (GAtts s n :: l) | None => None end
            | _ => None
            end
          else if String.eqb k "[ATTR]" then
            match rest with
            | TWord s :: TWord nm :: TWord ty :: TInt es :: TInt dim :: r =>
                match lookup_size s sizes with
                | None => None      (* attribute of an undeclared set *)
                | Some n =>
                    if dim <? 0 then None else
                    let k := Z.to_nat (n * dim) in
                    if (length r <? k)%nat then None else
                    match ref_geo_loop fuel' (skipn k r) sizes with
                    | Some l => Some (GAttr s nm ty es dim (firstn k r) :: l)
                    | None => None
                    end
                end
            | _ => None
            end
          else None
      | _ => None
      end
  end.

Definition ref_read_geo (ts : list tok) : option (list gitem) := ref_geo_loop (S (length ts)) ts [].

End GeoRef.
