(* C04 - instantiation of the codec model for the kernel-checked correspondence batches.
   A binary64 is represented by its 64-bit pattern (a Z), a float text by the bit pattern of the value it denotes
   (so print = parse = identity and token comparison is "same float value, bit for bit").  No proofs. *)
From Coq Require Import ZArith Bool String Ascii.
From Coq Require Import List.
Import ListNotations.
Require Import MV.Lib.Base MV.C04.Gen MV.C04.Model MV.C04.Geo MV.C04.Stl MV.C04.Ref MV.C04.GeoRef.
Open Scope list_scope.
Open Scope Z_scope.

(* bit pattern of float(z) for |z| < 2^53 *)
Definition bits_of_int (z : Z) : Z :=
  if z =? 0 then 0 else
  let a := Z.abs z in let e := Z.log2 a in
  (if z <? 0 then 2 ^ 63 else 0) + (e + 1023) * 2 ^ 52 + (Z.shiftl a (52 - e) - 2 ^ 52).

Definition idZ (x : Z) : Z := x.
Definition idC (x : Z * Z) : Z * Z := x.
Definition cx_of_bits (x : Z) : Z * Z := (x, 0).

Definition ztok := tok Z (Z * Z).
Definition zline := list ztok.
Definition zmesh := mesh Z (Z * Z).
Definition zraw := raw Z (Z * Z).
Definition zattr := attr Z (Z * Z).
Definition zsattr := sattr Z (Z * Z).
Definition zaval := aval Z (Z * Z).

(* monomorphic constructors: the case files elaborate several times faster with them *)
Definition tI : Z -> ztok := @TInt Z (Z * Z).
Definition tF : Z -> ztok := @TFlt Z (Z * Z).
Definition tC : Z * Z -> ztok := @TCx Z (Z * Z).
Definition tW : string -> ztok := @TWord Z (Z * Z).
Definition vB : bool -> zaval := @VBool Z (Z * Z).
Definition vI : Z -> zaval := @VInt Z (Z * Z).
Definition vF : Z -> zaval := @VFloat Z (Z * Z).
Definition vC : Z * Z -> zaval := @VCx Z (Z * Z).
Definition vS : string -> zaval := @VStr Z (Z * Z).
Definition zmkmesh := @mkmesh Z (Z * Z).
Definition zmkraw := @mkraw Z (Z * Z).
Definition zmkattr := @mkattr Z (Z * Z).
Definition zmksattr := @mksattr Z (Z * Z).

Definition pair_eqb (a b : Z * Z) : bool := (fst a =? fst b) && (snd a =? snd b).

(* model token against file token: same token, or a float the file spells as an integer *)
Definition tok_agree (a b : ztok) : bool :=
  match a, b with
  | TInt x, TInt y => x =? y
  | TFlt x, TFlt y => x =? y
  | TFlt x, TInt y => x =? bits_of_int y
  | TCx x, TCx y => pair_eqb x y
  | TWord x, TWord y => String.eqb x y
  | _, _ => false
  end.
Definition lines_agree (a b : list zline) : bool := list_eqb (list_eqb tok_agree) a b.

Definition aval_eqb (a b : zaval) : bool :=
  match a, b with
  | VBool x, VBool y => Bool.eqb x y
  | VInt x, VInt y => x =? y
  | VFloat x, VFloat y => x =? y
  | VCx x, VCx y => pair_eqb x y
  | VStr x, VStr y => String.eqb x y
  | _, _ => false
  end.
Definition sattr_eqb (a b : zsattr) : bool :=
  String.eqb (s_name a) (s_name b) && aty_eqb (s_ty a) (s_ty b) && (s_ar a =? s_ar b)
  && list_eqb (fun x y => (fst x =? fst y) && list_eqb aval_eqb (snd x) (snd y)) (s_items a) (s_items b).
Definition zll_eqb := list_eqb (list_eqb Z.eqb).
Definition raw_eqb (a b : zraw) : bool :=
  zll_eqb (rV a) (rV b) && zll_eqb (rE a) (rE b) && zll_eqb (rF a) (rF b) && zll_eqb (rC a) (rC b)
  && list_eqb sattr_eqb (rAV a) (rAV b) && list_eqb sattr_eqb (rAE a) (rAE b) && list_eqb sattr_eqb (rAF a) (rAF b)
  && list_eqb sattr_eqb (rAFC a) (rAFC b) && list_eqb sattr_eqb (rAC a) (rAC b) && list_eqb sattr_eqb (rACC a) (rACC b)
  && list_eqb sattr_eqb (rACF a) (rACF b).
Definition oraw_eqb (a b : option zraw) : bool :=
  match a, b with Some x, Some y => raw_eqb x y | None, None => true | _, _ => false end.
Definition ostr_eqb (a b : option string) : bool :=
  match a, b with Some x, Some y => String.eqb x y | None, None => true | _, _ => false end.

Inductive fmt := Fxyz | Fobj | Foff | Ftet | Fmedit | Fgeo.

(* x == 0.0 on bit patterns (both zeros), z == 0j *)
Definition bits_is_zero (b : Z) : bool := (b =? 0) || (b =? 2 ^ 63).
Definition cbits_is_zero (c : Z * Z) : bool := bits_is_zero (fst c) && bits_is_zero (snd c).
Definition zenc_s : string -> string := pct_encode geo_string_safe.
Definition zenc_n : string -> string := pct_encode geo_name_safe.
Definition zsave_geo (m : zmesh) : option (list ztok) := @save_geo Z Z (Z * Z) (Z * Z) idZ idC zenc_s zenc_n m.
Definition zprint_geo (m : zmesh) : list ztok := @print_geo Z Z (Z * Z) (Z * Z) idZ idC zenc_s zenc_n m.
Definition zparse_geo (l : list ztok) : option zraw :=
  @parse_geo Z Z (Z * Z) (Z * Z) idZ bits_of_int idC cx_of_bits bits_is_zero cbits_is_zero pct_decode pct_decode l.
Definition zvocab_geo (m : zmesh) : zraw := @vocab_geo Z (Z * Z) bits_is_zero cbits_is_zero m.

(* io.py: the extension of the file selects the export / import function *)
Definition fmt_ext (f : fmt) : string :=
  match f with Fxyz => "xyz" | Fobj => "obj" | Foff => "off" | Ftet => "tet" | Fmedit => "mesh" | Fgeo => "geogram_ascii" end.
Definition fmt_codec (f : fmt) : string * string :=
  match f with
  | Fxyz => ("export_xyz", "import_xyz") | Fobj => ("export_obj", "import_obj") | Foff => ("export_off", "import_off")
  | Ftet => ("export_tet", "import_tet") | Fmedit => ("export_medit", "import_medit")
  | Fgeo => ("export_geogram_ascii", "import_geogram_ascii")
  end%string.
Definition table_get (k : string) (t : list (string * string)) : option string :=
  match find (fun e => String.eqb k (fst e)) t with Some (_, v) => Some v | None => None end.
Definition dispatch_ok (f : fmt) : bool :=
  ostr_eqb (table_get (fmt_ext f) io_export_table) (Some (fst (fmt_codec f)))
  && ostr_eqb (table_get (fmt_ext f) io_import_table) (Some (snd (fmt_codec f))).

Definition print_fmt (f : fmt) (sw : switches) (m0 : zmesh) : option (list zline) :=
  let m := apply_ignore sw m0 in
  match f with
  | Fxyz => @print_xyz Z Z (Z * Z) (Z * Z) idZ m
  | Fobj => @print_obj Z Z (Z * Z) (Z * Z) idZ sw m
  | Foff => Some (@print_off Z Z (Z * Z) (Z * Z) idZ m)
  | Ftet => Some (@print_tet Z Z (Z * Z) (Z * Z) idZ m)
  | Fmedit => @print_medit Z Z (Z * Z) (Z * Z) idZ m
  | Fgeo => Some (map (fun t => [t]) (zprint_geo m))
  end.

Definition parse_fmt (f : fmt) (ls : list zline) : option zraw :=
  match f with
  | Fxyz => @parse_xyz Z Z (Z * Z) (Z * Z) idZ bits_of_int ls
  | Fobj => @parse_obj Z Z (Z * Z) (Z * Z) idZ bits_of_int ls
  | Foff => @parse_off Z Z (Z * Z) (Z * Z) idZ bits_of_int ls
  | Ftet => @parse_tet Z Z (Z * Z) (Z * Z) idZ bits_of_int ls
  | Fmedit => @parse_medit Z Z (Z * Z) (Z * Z) idZ bits_of_int ls
  | Fgeo => zparse_geo (concat ls)
  end.

Definition vocab_fmt (f : fmt) (sw : switches) (m0 : zmesh) : option zraw :=
  let m := apply_ignore sw m0 in
  match f with
  | Fxyz => Some (vocab_xyz m)
  | Fobj => vocab_obj sw m
  | Foff => Some (vocab_off m)
  | Ftet => Some (vocab_tet m)
  | Fmedit => vocab_medit m
  | Fgeo => Some (zvocab_geo m)
  end.

(* save: the file mouette wrote (tokenised), or None when save raised *)
Definition check_save (c : fmt * switches * zmesh * option (list zline)) : bool :=
  let '(f, sw, m, obs) := c in
  dispatch_ok f &&
  match print_fmt f sw m, obs with
  | Some a, Some b => lines_agree a b
  | None, None => true
  | _, _ => false
  end.

(* load: what mouette.mesh.load(raw=True) returned for these lines (None = it raised), and the class of the
   object load() built (None = not observed) *)
Definition check_load (c : fmt * list zline * option zraw * option (option string)) : bool :=
  let '(f, ls, obs, cls) := c in
  let r := parse_fmt f ls in
  dispatch_ok f && oraw_eqb r obs &&
  match cls, r with
  | Some k, Some x => ostr_eqb (class_of_loaded x) k
  | _, _ => true
  end.

(* load(path, dim=d) of these lines built an object of class k *)
Definition check_load_dim (c : fmt * list zline * Z * string) : bool :=
  let '(f, ls, d, k) := c in
  match parse_fmt f ls with
  | Some x => ostr_eqb (class_of_loaded_dim (Some d) x) (Some k)
  | None => false
  end.

(* the model's own round trip on this input, evaluated: parse (print m) = vocab m (a test, the theorems are in Props.v) *)
Definition check_roundtrip (c : fmt * switches * zmesh) : bool :=
  let '(f, sw, m) := c in
  match print_fmt f sw m with
  | Some ls => oraw_eqb (parse_fmt f ls) (vocab_fmt f sw m)
  | None => true
  end.

(* ---- binary STL: a coordinate is (binary64 pattern, binary32 pattern of its rounding or -1 when out of range) *)
Definition smesh := mesh (Z * Z) (Z * Z).
Definition szmkmesh := @mkmesh (Z * Z) (Z * Z).
Definition sfld := sfield Z.
Definition sH : string -> sfld := @SHeader Z.
Definition sU32 : Z -> sfld := @SU32 Z.
Definition sF : Z -> sfld := @SF32 Z.
Definition sU16 : Z -> sfld := @SU16 Z.
Definition to32_pair (x : Z * Z) : option Z := if snd x <? 0 then None else Some (snd x).
Definition zprint_stl (m : smesh) : option (list sfld) := @print_stl (Z * Z) (Z * Z) Z to32_pair 0 m.
Definition sfield_eqb (a b : sfld) : bool :=
  match a, b with
  | SHeader x, SHeader y => String.eqb x y
  | SU32 x, SU32 y | SF32 x, SF32 y | SU16 x, SU16 y => x =? y
  | _, _ => false
  end.
Definition soup_eqb := list_eqb (list_eqb (list_eqb Z.eqb)).
(* the bytes mouette wrote (as fields; None = save raised) and the soup an independent reader of the bytes found *)
Definition check_stl (c : smesh * option (list sfld) * option (list (list (list Z)))) : bool :=
  let '(m, obs, soup) := c in
  match zprint_stl m, obs with
  | Some a, Some b =>
      list_eqb sfield_eqb a b &&
      match @ref_parse_stl Z b, soup with Some x, Some y => soup_eqb x y | None, None => true | _, _ => false end
  | None, None => true
  | _, _ => false
  end.

(* ---- reference codecs (Ref.v) against independent Python implementations of the same format descriptions,
   and mouette's importers on the reference writer's files *)
Definition ref_print_fmt (f : fmt) (m : zmesh) : option (list zline) :=
  match f with
  | Fxyz => Some (@ref_print_xyz Z Z (Z * Z) (Z * Z) idZ m)
  | Fobj => Some (@ref_print_obj Z Z (Z * Z) (Z * Z) idZ m)
  | Foff => Some (@ref_print_off Z Z (Z * Z) (Z * Z) idZ m)
  | Ftet => Some (@ref_print_tet Z Z (Z * Z) (Z * Z) idZ m)
  | Fmedit => Some (@ref_print_medit Z Z (Z * Z) (Z * Z) idZ m)
  | Fgeo => None
  end.
Definition ref_parse_fmt (f : fmt) (ls : list zline) : option zraw :=
  match f with
  | Fxyz => @ref_parse_xyz Z Z (Z * Z) (Z * Z) idZ bits_of_int ls
  | Fobj => @ref_parse_obj Z Z (Z * Z) (Z * Z) idZ bits_of_int ls
  | Foff => @ref_parse_off Z Z (Z * Z) (Z * Z) idZ bits_of_int (concat ls)
  | Ftet => @ref_parse_tet Z Z (Z * Z) (Z * Z) idZ bits_of_int (concat ls)
  | Fmedit => @ref_parse_medit Z Z (Z * Z) (Z * Z) idZ bits_of_int (concat ls)
  | Fgeo => None
  end.
(* the file of the reference writer (as written by its Python twin), and what mouette loaded from it *)
Definition check_refwrite (c : fmt * zmesh * list zline * option zraw * option (option string)) : bool :=
  let '(f, m, tref, obs, cls) := c in
  match ref_print_fmt f m with
  | Some a => lines_agree a tref && check_load (f, tref, obs, cls)
  | None => false
  end.
(* a file written by mouette, and what the Python twin of the reference reader found in it *)
Definition check_refread (c : fmt * list zline * option zraw) : bool :=
  let '(f, ls, obs) := c in oraw_eqb (ref_parse_fmt f ls) obs.

(* ---- the count-driven geogram reader of GeoRef.v against its Python twin, on files written by mouette: the items found,
   summarised as (0, set, "", "", n, 0) for an attribute set and (1, set, name, type, dimension, number of values) *)
Definition gsummary (i : gitem Z (Z * Z)) : Z * string * string * string * Z * Z :=
  match i with
  | GAtts _ _ s n => (0, s, ""%string, ""%string, n, 0)
  | GAttr s nm ty _ dim vals => (1, s, nm, ty, dim, zlen vals)
  end.
Definition gsummary_eqb (a b : Z * string * string * string * Z * Z) : bool :=
  let '(k1, s1, n1, t1, d1, l1) := a in let '(k2, s2, n2, t2, d2, l2) := b in
  (k1 =? k2) && String.eqb s1 s2 && String.eqb n1 n2 && String.eqb t1 t2 && (d1 =? d2) && (l1 =? l2).
Definition check_georead (c : list zline * option (list (Z * string * string * string * Z * Z))) : bool :=
  let '(ls, obs) := c in
  match @ref_read_geo Z (Z * Z) (concat ls), obs with
  | Some items, Some o => list_eqb gsummary_eqb (map gsummary items) o
  | None, None => true
  | _, _ => false
  end.
