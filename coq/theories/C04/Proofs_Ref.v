(* C04 - interoperability: files written by mouette mean the same to the reference readers of Ref.v, and files
   written by the reference writers load correctly with mouette's importers (all meshes, by induction). *)
From Coq Require Import ZArith Bool String Ascii Lia ZifyBool.
From Coq Require Import List.
Import ListNotations.
Require Import MV.Lib.Base MV.C04.Gen MV.C04.Model MV.C04.Ref MV.C04.Proofs_Text.
Open Scope list_scope.
Open Scope Z_scope.

Section ProofsRef.
Variables F Ftxt Cx Ctxt : Type.
Variable pf : F -> Ftxt.
Variable rf : Ftxt -> F.
Variable f_of_int : Z -> F.
Hypothesis rf_pf : forall x, rf (pf x) = x.

Notation tok := (tok Ftxt Ctxt).
Notation line := (list tok).
Notation mesh := (mesh F Cx).
Notation raw := (raw F Cx).
Notation fl := (@fl F Ftxt Ctxt pf).
Notation TI := (@TInt Ftxt Ctxt).
Notation TW := (@TWord Ftxt Ctxt).
Notation take_nums := (@take_nums F Ftxt Ctxt rf f_of_int).
Notation take_ints := (@take_ints Ftxt Ctxt).
Notation take_polys := (@take_polys Ftxt Ctxt).
Notation take_records := (@take_records Ftxt Ctxt).

(* ------------------------------------------------------------------ stream helpers *)
Lemma take_nums_fl (xs : list F) rest : take_nums (length xs) (map fl xs ++ rest) = Some (xs, rest).
Proof.
  induction xs as [|x xs IH]; [reflexivity|]. cbn [length map app Ref.take_nums Ref.num Model.fl].
  rewrite rf_pf. fold (map fl xs). change (TFlt (pf x)) with (fl x). rewrite IH. reflexivity.
Qed.
Lemma take_ints_TI (zs : list Z) rest : take_ints (length zs) (map TI zs ++ rest) = Some (zs, rest).
Proof. induction zs as [|z zs IH]; [reflexivity|]. cbn [length map app Ref.take_ints Ref.int]. rewrite IH. reflexivity. Qed.

Lemma take_polys_sized (els : list (list Z)) rest :
  take_polys (length els) (concat (map (@sized_line Ftxt Ctxt) els) ++ rest) = Some (els, rest).
Proof.
  induction els as [|e els IH]; [reflexivity|].
  cbn [length map concat]. unfold sized_line at 1. cbn [app Ref.take_polys].
  destruct (zlen e <? 0) eqn:E; [unfold zlen in E; lia|]. rewrite zlen_nat, <- app_assoc, take_ints_TI, IH. reflexivity.
Qed.

Lemma take_vertices (V : list (F * F * F)) rest :
  take_records take_nums 3 0 (length V) (concat (map (fun v => map fl (v3 v)) V) ++ rest) = Some (map (@v3 F) V, rest).
Proof.
  induction V as [|[[x y] z] V IH]; [reflexivity|].
  cbn [length map concat Ref.take_records]. rewrite <- app_assoc.
  rewrite (take_nums_fl [x; y; z]). cbn [skipn Nat.ltb Nat.leb length]. rewrite IH. reflexivity.
Qed.

(* ------------------------------------------------------------------ xyz *)
Lemma xyz_ref_reads (m : mesh) L : print_xyz Ctxt pf m = Some L -> ref_parse_xyz Cx rf f_of_int L = Some (vocab_xyz m).
Proof.
  rewrite (print_xyz_eq F Ftxt Cx Ctxt pf). intros [= <-]. unfold ref_parse_xyz, vocab_xyz. f_equal.
  induction (mV m) as [|[[x y] z] V IH]; [reflexivity|]. cbn [map Ref.ref_parse_xyz_lines v3].
  change (take_nums 3 [fl x; fl y; fl z]) with (take_nums (length [x; y; z]) (map fl [x; y; z] ++ [])).
  rewrite take_nums_fl. cbn [option_map] in IH |- *. destruct (Ref.ref_parse_xyz_lines _ _ _) eqn:E; [|discriminate].
  injection IH as ->. reflexivity.
Qed.

Lemma xyz_loads_ref (m : mesh) : parse_xyz Cx rf f_of_int (ref_print_xyz Ctxt pf m) = Some (vocab_xyz m).
Proof. apply (xyz_roundtrip F Ftxt Cx Ctxt pf rf f_of_int rf_pf). apply print_xyz_eq. Qed.

(* ------------------------------------------------------------------ off *)
Lemma off_ref_reads (m : mesh) : ref_parse_off Cx rf f_of_int (concat (print_off Ctxt pf m)) = Some (vocab_off m).
Proof.
  unfold print_off, off_exp_counts, off_header. cbn [concat map app]. unfold ref_parse_off.
  change (Ref.word (TW "OFF") "OFF") with true. cbn [andb].
  destruct (0 <=? zlen (mV m)) eqn:E1; [|unfold zlen in E1; lia]. destruct (0 <=? zlen (mF m)) eqn:E2; [|unfold zlen in E2; lia].
  cbn [andb]. rewrite !zlen_nat, concat_app.
  unfold off_vertex_line. rewrite take_vertices.
  rewrite <- (app_nil_r (concat (map (@sized_line Ftxt Ctxt) (mF m)))). rewrite take_polys_sized. reflexivity.
Qed.

Lemma off_loads_ref (m : mesh) : off_ok m -> parse_off Cx rf f_of_int (ref_print_off Ctxt pf m) = Some (vocab_off m).
Proof.
  intros Hok. pose proof (off_roundtrip F Ftxt Cx Ctxt pf rf f_of_int rf_pf (mkmesh (mV m) [] None (mF m) [] [] [] [] [] [] [] [] []) Hok) as H.
  exact H.
Qed.

(* ------------------------------------------------------------------ tet *)
Lemma tet_ref_reads (m : mesh) : ref_parse_tet Cx rf f_of_int (concat (print_tet Ctxt pf m)) = Some (vocab_tet m).
Proof.
  unfold print_tet. cbn [concat map app]. unfold ref_parse_tet.
  change (Ref.word (TW tet_exp_word_v) "vertices") with true. change (Ref.word (TW tet_exp_word_c) "tets") with true. cbn [andb orb].
  destruct (0 <=? zlen (mV m)) eqn:E1; [|unfold zlen in E1; lia]. destruct (0 <=? zlen (mC m)) eqn:E2; [|unfold zlen in E2; lia].
  cbn [andb]. rewrite !zlen_nat, concat_app.
  unfold off_vertex_line. rewrite take_vertices.
  rewrite <- (app_nil_r (concat (map (@sized_line Ftxt Ctxt) (mC m)))). rewrite take_polys_sized. reflexivity.
Qed.

Lemma tet_loads_ref (m : mesh) : parse_tet Cx rf f_of_int (ref_print_tet Ctxt pf m) = Some (vocab_tet m).
Proof. exact (tet_roundtrip F Ftxt Cx Ctxt pf rf f_of_int rf_pf m). Qed.

End ProofsRef.
