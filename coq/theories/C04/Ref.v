(* C04 - reference codecs: an independent writer and an independent reader per text format, written from the format
   descriptions (Wavefront OBJ, Geomview OFF, INRIA Medit .mesh, the .tet and .xyz conventions) and NOT from mouette's
   code.  Where the format is free-form (OFF, Medit, tet) the reader works on the stream of tokens, ignoring the line
   structure that mouette's importers rely on.  Nothing here uses Gen.v.  No proofs. *)
From Coq Require Import ZArith Bool String Ascii.
From Coq Require Import List.
Import ListNotations.
Require Import MV.Lib.Base MV.C04.Model.
Open Scope list_scope.
Open Scope Z_scope.
Set Implicit Arguments.
Set Maximal Implicit Insertion.

Section Ref.
Variables F Ftxt Cx Ctxt : Type.
Variable pf : F -> Ftxt.
Variable rf : Ftxt -> F.
Variable f_of_int : Z -> F.

Notation tok := (tok Ftxt Ctxt).
Notation line := (list tok).
Notation mesh := (mesh F Cx).
Notation raw := (raw F Cx).
Notation fl := (@fl F Ftxt Ctxt pf).

Definition num (t : tok) : option F := match t with TInt z => Some (f_of_int z) | TFlt x => Some (rf x) | _ => None end.
Definition int (t : tok) : option Z := match t with TInt z => Some z | _ => None end.
Definition word (t : tok) (s : string) : bool := match t with TWord w => String.eqb w s | _ => false end.
Definition W (s : string) : tok := TWord s.
Definition I (z : Z) : tok := TInt z.

(* n floats, then the rest *)
Fixpoint take_nums (n : nat) (l : list tok) : option (list F * list tok) :=
  match n with
  | O => Some ([], l)
  | S n' => match l with
            | t :: r => match num t, take_nums n' r with Some x, Some (xs, rest) => Some (x :: xs, rest) | _, _ => None end
            | [] => None
            end
  end.
Fixpoint take_ints (n : nat) (l : list tok) : option (list Z * list tok) :=
  match n with
  | O => Some ([], l)
  | S n' => match l with
            | t :: r => match int t, take_ints n' r with Some x, Some (xs, rest) => Some (x :: xs, rest) | _, _ => None end
            | [] => None
            end
  end.
(* n records made of k values read by `take`, each followed by `extra` tokens that are skipped (a reference number) *)
Fixpoint take_records {A} (take : nat -> list tok -> option (list A * list tok)) (k extra : nat) (n : nat) (l : list tok)
  : option (list (list A) * list tok) :=
  match n with
  | O => Some ([], l)
  | S n' => match take k l with
            | Some (rec, rest) =>
                if (length rest <? extra)%nat then None else
                match take_records take k extra n' (skipn extra rest) with
                | Some (recs, rest') => Some (rec :: recs, rest')
                | None => None
                end
            | None => None
            end
  end.
(* n polygons "k i1 .. ik" *)
Fixpoint take_polys (n : nat) (l : list tok) : option (list (list Z) * list tok) :=
  match n with
  | O => Some ([], l)
  | S n' => match l with
            | TInt k :: r =>
                if k <? 0 then None else
                match take_ints (Z.to_nat k) r with
                | Some (p, rest) => match take_polys n' rest with Some (ps, rest') => Some (p :: ps, rest') | None => None end
                | None => None
                end
            | _ => None
            end
  end.

(* ------------------------------------------------------------------ xyz: one point per line, "x y z [more columns]" *)
Definition ref_print_xyz (m : mesh) : list line := map (fun v => map fl (v3 v)) (mV m).
Fixpoint ref_parse_xyz_lines (ls : list line) : option (list (list F)) :=
  match ls with
  | [] => Some []
  | [] :: r => ref_parse_xyz_lines r
  | l :: r => match take_nums 3 l, ref_parse_xyz_lines r with Some (p, _), Some ps => Some (p :: ps) | _, _ => None end
  end.
Definition ref_parse_xyz (ls : list line) : option raw := option_map (fun vs => raw_of Cx vs [] [] []) (ref_parse_xyz_lines ls).

(* ------------------------------------------------------------------ Wavefront OBJ *)
(* statements: "v x y z [w]", "l i j k ..." (polyline), "f i j k ..." (indices from 1); anything else is skipped *)
Definition ref_print_obj (m : mesh) : list line :=
  [W "#"; W "reference"; W "writer"] :: [W "o"; W "mesh"]
  :: map (fun v => W "v" :: map fl (v3 v)) (mV m)
  ++ map (fun e => [W "l"; I (fst e + 1); I (snd e + 1)]) (mE m)
  ++ map (fun f => W "f" :: map (fun i => I (i + 1)) f) (mF m).

Definition obj_index (t : tok) : option Z := match t with TInt z => if 1 <=? z then Some (z - 1) else None | _ => None end.
Fixpoint pairs_of (l : list Z) : list (list Z) :=
  match l with a :: ((b :: _) as r) => [a; b] :: pairs_of r | _ => [] end.

Fixpoint ref_parse_obj_lines (ls : list line) : option (list (list F) * list (list Z) * list (list Z)) :=
  match ls with
  | [] => Some ([], [], [])
  | l :: r =>
      match ref_parse_obj_lines r with
      | None => None
      | Some (V, E, Fs) =>
          match l with
          | t0 :: args =>
              if word t0 "v" then match take_nums 3 args with Some (p, _) => Some (p :: V, E, Fs) | None => None end
              else if word t0 "l" then
                match omap obj_index args with
                | Some ((_ :: _ :: _) as idx) => Some (V, pairs_of idx ++ E, Fs)
                | _ => None
                end
              else if word t0 "f" then
                match omap obj_index args with
                | Some ((_ :: _ :: _ :: _) as idx) => Some (V, E, idx :: Fs)
                | _ => None
                end
              else Some (V, E, Fs)
          | [] => Some (V, E, Fs)
          end
      end
  end.
Definition ref_parse_obj (ls : list line) : option raw :=
  option_map (fun a => let '(V, E, Fs) := a in raw_of Cx V E Fs []) (ref_parse_obj_lines ls).

(* ------------------------------------------------------------------ OFF: "OFF" nv nf ne, nv points, nf polygons; free-form *)
Definition ref_print_off (m : mesh) : list line :=
  [W "OFF"] :: [I (zlen (mV m)); I (zlen (mF m)); I 0]
  :: map (fun v => map fl (v3 v)) (mV m) ++ map (fun f => I (zlen f) :: map I f) (mF m).

Definition ref_parse_off (ts : list tok) : option raw :=
  match ts with
  | t0 :: TInt nv :: TInt nf :: TInt _ :: rest =>
      if word t0 "OFF" && (0 <=? nv) && (0 <=? nf) then
        match take_records take_nums 3 0 (Z.to_nat nv) rest with
        | Some (V, rest1) =>
            match take_polys (Z.to_nat nf) rest1 with
            | Some (Fs, _) => Some (raw_of Cx V [] Fs [])
            | None => None
            end
        | None => None
        end
      else None
  | _ => None
  end.

(* ------------------------------------------------------------------ .tet: "n vertices", "m tets", points, "k i1 .. ik" *)
Definition ref_print_tet (m : mesh) : list line :=
  [I (zlen (mV m)); W "vertices"] :: [I (zlen (mC m)); W "tets"]
  :: map (fun v => map fl (v3 v)) (mV m) ++ map (fun c => I (zlen c) :: map I c) (mC m).

Definition ref_parse_tet (ts : list tok) : option raw :=
  match ts with
  | TInt nv :: w1 :: TInt nc :: w2 :: rest =>
      if word w1 "vertices" && (word w2 "tets" || word w2 "cells") && (0 <=? nv) && (0 <=? nc) then
        match take_records take_nums 3 0 (Z.to_nat nv) rest with
        | Some (V, rest1) =>
            match take_polys (Z.to_nat nc) rest1 with
            | Some (C, _) => Some (raw_of Cx V [] [] C)
            | None => None
            end
        | None => None
        end
      else None
  | _ => None
  end.

(* ------------------------------------------------------------------ Medit .mesh (ASCII), free-form *)
(* MeshVersionFormatted v / Dimension 3 / Vertices n (x y z ref)* / Edges n (a b ref)* / Triangles / Quadrilaterals /
   Tetrahedra / Hexahedra / End; indices from 1, every entity carries a reference number *)
Definition medit_kinds : list (string * nat) :=
  [("Edges"%string, 2%nat); ("Triangles"%string, 3%nat); ("Quadrilaterals"%string, 4%nat);
   ("Tetrahedra"%string, 4%nat); ("Hexahedra"%string, 8%nat)].

Definition ref_medit_block (kw : string) (ar : Z) (els : list (list Z)) : list line :=
  let sel := filter (len_is ar) els in
  if isnil sel then [] else [W kw] :: [I (zlen sel)] :: map (fun e => map (fun i => I (i + 1)) e ++ [I 0]) sel.

Definition ref_print_medit (m : mesh) : list line :=
  [W "MeshVersionFormatted"; I 2] :: [W "Dimension"; I 3]
  :: ([W "Vertices"] :: [I (zlen (mV m))] :: map (fun v => map fl (v3 v) ++ [I 0]) (mV m))
  ++ ref_medit_block "Edges" 2 (map e2 (mE m))
  ++ ref_medit_block "Triangles" 3 (mF m) ++ ref_medit_block "Quadrilaterals" 4 (mF m)
  ++ ref_medit_block "Tetrahedra" 4 (mC m) ++ ref_medit_block "Hexahedra" 8 (mC m)
  ++ [[W "End"]].

Record rmacc := mkrmacc { kV : list (list F); kE : list (list Z); kTri : list (list Z); kQuad : list (list Z);
                        kTet : list (list Z); kHex : list (list Z) }.
Definition rmacc_add (kw : string) (els : list (list Z)) (a : rmacc) : rmacc :=
  let els := map (map (fun i => i - 1)) els in
  if String.eqb kw "Edges" then mkrmacc (kV a) (kE a ++ els) (kTri a) (kQuad a) (kTet a) (kHex a)
  else if String.eqb kw "Triangles" then mkrmacc (kV a) (kE a) (kTri a ++ els) (kQuad a) (kTet a) (kHex a)
  else if String.eqb kw "Quadrilaterals" then mkrmacc (kV a) (kE a) (kTri a) (kQuad a ++ els) (kTet a) (kHex a)
  else if String.eqb kw "Tetrahedra" then mkrmacc (kV a) (kE a) (kTri a) (kQuad a) (kTet a ++ els) (kHex a)
  else mkrmacc (kV a) (kE a) (kTri a) (kQuad a) (kTet a) (kHex a ++ els).

Fixpoint ref_medit_loop (fuel : nat) (ts : list tok) (a : rmacc) : option rmacc :=
  match fuel with
  | O => None
  | S fuel' =>
      match ts with
      | [] => Some a
      | TWord kw :: rest =>
          if String.eqb kw "End" then Some a
          else if String.eqb kw "MeshVersionFormatted" then
            match rest with TInt _ :: r => ref_medit_loop fuel' r a | _ => None end
          else if String.eqb kw "Dimension" then
            match rest with TInt d :: r => if d =? 3 then ref_medit_loop fuel' r a else None | _ => None end
          else if String.eqb kw "Vertices" then
            match rest with
            | TInt n :: r =>
                if n <? 0 then None else
                match take_records take_nums 3 1 (Z.to_nat n) r with
                | Some (V, r') => ref_medit_loop fuel' r' (mkrmacc (kV a ++ V) (kE a) (kTri a) (kQuad a) (kTet a) (kHex a))
                | None => None
                end
            | _ => None
            end
          else match find (fun k => String.eqb kw (fst k)) medit_kinds, rest with
               | Some (_, ar), TInt n :: r =>
                   if n <? 0 then None else
                   match take_records take_ints ar 1 (Z.to_nat n) r with
                   | Some (els, r') => ref_medit_loop fuel' r' (rmacc_add kw els a)
                   | None => None
                   end
               | _, _ => None
               end
      | _ => None
      end
  end.

Definition ref_parse_medit (ts : list tok) : option raw :=
  match ref_medit_loop (S (length ts)) ts (mkrmacc [] [] [] [] [] []) with
  | Some a => Some (raw_of Cx (kV a) (kE a) (kTri a ++ kQuad a) (kHex a ++ kTet a))
  | None => None
  end.

End Ref.
