(* C04 - geogram_ascii: parse_geo (print_geo m) = Some (vocab_geo m) for every mesh with well-formed attributes,
   and the attribute values read back densely are the saved ones. *)
From Coq Require Import ZArith Bool String Ascii Lia.
From Coq Require Import List.
Import ListNotations.
Require Import MV.Lib.Base MV.C04.Gen MV.C04.Model MV.C04.Geo MV.C04.Proofs_Text.
Open Scope list_scope.
Open Scope Z_scope.

(* ------------------------------------------------------------------ strings *)
Lemma upto_quote_app s t : (forall c, In c (list_ascii_of_string s) -> c <> dquote) ->
  upto_quote (s ++ String dquote t) = s.
Proof.
  induction s as [|c s IH]; intros H; cbn.
  - reflexivity.
  - destruct (Ascii.eqb c dquote) eqn:E.
    + apply Ascii.eqb_eq in E. exfalso. apply (H c); [now left|assumption].
    + f_equal. apply IH. intros c' Hc'. apply H. now right.
Qed.

(* no double quote inside *)
Definition clean (s : string) : Prop := forall c, In c (list_ascii_of_string s) -> c <> dquote.

Lemma split_quote_qs s : clean s -> split_quote_1 (qs s) = Some s.
Proof. intros H. unfold qs. cbn. now rewrite upto_quote_app. Qed.

Lemma qs_inj a b : qs a = qs b -> a = b.
Proof.
  unfold qs. intros H. injection H as H. revert b H.
  induction a as [|c a IH]; intros [|d b] H; cbn in H; try reflexivity.
  - destruct b; discriminate.
  - destruct a; discriminate.
  - injection H as -> H. f_equal. now apply IH.
Qed.

(* ------------------------------------------------------------------ index lemmas (Python loops over range(n)) *)
Lemma zrange_succ n : zrange (Z.of_nat (S n)) = 0 :: map (fun i => i + 1) (zrange (Z.of_nat n)).
Proof.
  unfold zrange. rewrite !Nat2Z.id. cbn [seq map]. change (Z.of_nat 0) with 0. f_equal.
  rewrite <- seq_shift, !map_map. apply map_ext. intros a. rewrite Nat2Z.inj_succ. unfold Z.succ. reflexivity.
Qed.

Lemma omap_ext_in {A B} (f g : A -> option B) l : (forall x, In x l -> f x = g x) -> omap f l = omap g l.
Proof.
  induction l as [|a l IH]; intros H; [reflexivity|]. cbn.
  rewrite (H a (or_introl eq_refl)), IH; [reflexivity|]. intros x Hx. apply H. now right.
Qed.

Lemma omap_app {A B} (f : A -> option B) l1 l2 r1 r2 :
  omap f l1 = Some r1 -> omap f l2 = Some r2 -> omap f (l1 ++ l2) = Some (r1 ++ r2).
Proof.
  revert r1. induction l1 as [|a l1 IH]; intros r1 H1 H2; cbn in *.
  - injection H1 as <-. exact H2.
  - destruct (f a); [|discriminate]. destruct (omap f l1) eqn:E; [|discriminate].
    injection H1 as <-. now rewrite (IH _ eq_refl H2).
Qed.

Lemma nthz_0 {A} (a : A) l : nthz (a :: l) 0 = Some a.
Proof. reflexivity. Qed.
Lemma nthz_succ {A} (a : A) l i : 0 <= i -> nthz (a :: l) (i + 1) = nthz l i.
Proof.
  intros H. unfold nthz. destruct (i + 1 <? 0) eqn:E1; [lia|]. destruct (i <? 0) eqn:E2; [lia|].
  replace (Z.to_nat (i + 1)) with (S (Z.to_nat i)) by lia. reflexivity.
Qed.
Lemma nthz_app_r {A} (pre l : list A) i : 0 <= i -> nthz (pre ++ l) (zlen pre + i) = nthz l i.
Proof.
  intros H. unfold nthz, zlen. destruct (Z.of_nat (length pre) + i <? 0) eqn:E1; [apply Z.ltb_lt in E1; lia|]. destruct (i <? 0) eqn:E2; [apply Z.ltb_lt in E2; lia|].
  replace (Z.to_nat (Z.of_nat (length pre) + i)) with (length pre + Z.to_nat i)%nat by lia.
  rewrite nth_error_app2 by lia. f_equal. lia.
Qed.
Lemma py_nth_nonneg {A} (l : list A) i : 0 <= i -> py_nth l i = nthz l i.
Proof. intros H. unfold py_nth. destruct (i <? 0) eqn:E; [lia|reflexivity]. Qed.

(* [l[0], l[1], ..] read through indices is l *)
Lemma omap_nthz_all {A} (l : list A) : omap (fun j => nthz l j) (zrange (zlen l)) = Some l.
Proof.
  induction l as [|a l IH]; [reflexivity|].
  unfold zlen. cbn [length]. rewrite zrange_succ. cbn [omap]. rewrite nthz_0, omap_map.
  rewrite (omap_ext_in _ (fun j => nthz l j)).
  - fold (zlen l). now rewrite IH.
  - intros j Hj. apply In_zrange in Hj. apply nthz_succ. lia.
Qed.

Lemma omap_slice_at {A} (pre f rest : list A) :
  omap (fun j => py_nth (pre ++ f ++ rest) (zlen pre + j)) (zrange (zlen f)) = Some f.
Proof.
  rewrite (omap_ext_in _ (fun j => nthz f j)); [apply omap_nthz_all|].
  intros j Hj. apply In_zrange in Hj. rewrite py_nth_nonneg by (unfold zlen; lia).
  rewrite nthz_app_r by lia. unfold nthz. destruct (j <? 0) eqn:E; [lia|].
  apply nth_error_app1. unfold zlen in Hj. lia.
Qed.

(* elems_of with the sizes and first-corner indices of the elements themselves gives the elements back *)
Lemma elems_of_ptrs_gen (els : list (list Z)) : forall (pre : list Z),
  omap (fun sp => omap (fun j => py_nth (pre ++ concat els) (snd sp + j)) (zrange (fst sp)))
       (combine (map zlen els) (ptrs_from (zlen pre) els)) = Some els.
Proof.
  induction els as [|f els IH]; intros pre; [reflexivity|].
  cbn [map ptrs_from combine omap concat fst snd]. rewrite omap_slice_at.
  specialize (IH (pre ++ f)). rewrite <- app_assoc in IH.
  replace (zlen (pre ++ f)) with (zlen pre + zlen f) in IH by (unfold zlen; rewrite app_length; lia).
  now rewrite IH.
Qed.

Lemma omap_zrange_combine {A B C} (g : A * B -> option C) (la : list A) (lb : list B) :
  length la = length lb ->
  omap (fun i => match nthz la i, nthz lb i with Some a, Some b => g (a, b) | _, _ => None end) (zrange (zlen la))
  = omap g (combine la lb).
Proof.
  revert lb. induction la as [|a la IH]; intros [|b lb] H; try discriminate; [reflexivity|].
  unfold zlen. cbn [length]. rewrite zrange_succ. cbn [omap combine]. rewrite !nthz_0, omap_map.
  rewrite (omap_ext_in _ (fun i => match nthz la i, nthz lb i with Some a, Some b => g (a, b) | _, _ => None end)).
  - fold (zlen la). rewrite IH by (cbn in H; lia). reflexivity.
  - intros i Hi. apply In_zrange in Hi. rewrite !nthz_succ by lia. reflexivity.
Qed.

Lemma ptrs_from_length p els : length (ptrs_from p els) = length els.
Proof. revert p. induction els as [|f els IH]; intros p; cbn; [reflexivity|]. now rewrite IH. Qed.

Lemma elems_of_ptrs (els : list (list Z)) :
  elems_of (zlen els) (map zlen els) (ptrs_from 0 els) (concat els) = Some els.
Proof.
  unfold elems_of. rewrite <- (zlen_map zlen els).
  rewrite (omap_zrange_combine (fun sp => omap (fun j => py_nth (concat els) (snd sp + j)) (zrange (fst sp)))).
  - apply (elems_of_ptrs_gen els []).
  - now rewrite map_length, ptrs_from_length.
Qed.

(* regular elements: the default sizes / pointers are the real ones *)
Lemma default_sizes_regular k (els : list (list Z)) : Forall (fun e => zlen e = k) els ->
  default_sizes k (zlen els) = (map zlen els, ptrs_from 0 els).
Proof.
  intros H. unfold default_sizes. f_equal.
  - induction H as [|e els He _ IH]; [reflexivity|].
    unfold zlen at 1. cbn [length]. rewrite zrange_succ. cbn [map]. rewrite map_map. fold (zlen els). rewrite He. f_equal. exact IH.
  - assert (G : forall p, map (fun i => p + k * i) (zrange (zlen els)) = ptrs_from p els).
    { induction H as [|e els He _ IH]; intros p; [reflexivity|].
      unfold zlen at 1. cbn [length]. rewrite zrange_succ. cbn [map ptrs_from]. f_equal; [lia|].
      rewrite map_map, He, <- IH. fold (zlen els). apply map_ext. intros i. lia. }
    rewrite <- G. apply map_ext. intros i. lia.
Qed.

(* facet_ptr : differences of consecutive pointers, the last one against the number of corners *)
Lemma sizes_from_ptrs_gen (els : list (list Z)) : forall p e0,
  omap (fun i => match nthz (ptrs_from p (e0 :: els)) (i + 1), nthz (ptrs_from p (e0 :: els)) i with
                 | Some b, Some a => Some (b - a) | _, _ => None end) (zrange (zlen els))
  = Some (map zlen (removelast (e0 :: els)))
  /\ last_opt (ptrs_from p (e0 :: els)) = Some (p + sum_len (removelast (e0 :: els))).
Proof.
  induction els as [|e1 els IH]; intros p e0.
  - split; [reflexivity|]. cbn. unfold sum_len, zlen. cbn. f_equal. lia.
  - destruct (IH (p + zlen e0) e1) as [IH1 IH2]. split.
    + change (ptrs_from p (e0 :: e1 :: els)) with (p :: ptrs_from (p + zlen e0) (e1 :: els)).
      remember (ptrs_from (p + zlen e0) (e1 :: els)) as P eqn:EP.
      unfold zlen at 1. cbn [length]. rewrite zrange_succ. cbn [omap].
      rewrite (nthz_succ p P 0) by lia. rewrite nthz_0.
      assert (H0 : nthz P 0 = Some (p + zlen e0)) by (subst P; reflexivity). rewrite H0, omap_map.
      rewrite (omap_ext_in _ (fun i => match nthz P (i + 1), nthz P i with
                 | Some b, Some a => Some (b - a) | _, _ => None end)).
      * fold (zlen els). rewrite IH1.
        change (removelast (e0 :: e1 :: els)) with (e0 :: removelast (e1 :: els)). cbn [map]. f_equal. f_equal. lia.
      * intros i Hi. apply In_zrange in Hi. rewrite !nthz_succ by lia. reflexivity.
    + change (removelast (e0 :: e1 :: els)) with (e0 :: removelast (e1 :: els)).
      change (ptrs_from p (e0 :: e1 :: els)) with (p :: ptrs_from (p + zlen e0) (e1 :: els)).
      unfold last_opt in *. cbn [length]. rewrite ptrs_from_length in *. cbn [length] in *.
      replace (S (S (length els)) - 1)%nat with (S (S (length els) - 1)) by lia. cbn [nth_error].
      rewrite IH2. f_equal. unfold sum_len, zlen. cbn [concat]. rewrite app_length. lia.
Qed.

Lemma sizes_from_ptr_ok (els : list (list Z)) : els <> [] ->
  sizes_from_ptr (zlen els) (sum_len els) (ptrs_from 0 els) = Some (map zlen els).
Proof.
  destruct els as [|e0 els]; [congruence|]. intros _. unfold sizes_from_ptr.
  replace (zlen (e0 :: els) - 1) with (zlen els) by (unfold zlen; cbn [length]; lia).
  destruct (sizes_from_ptrs_gen els 0 e0) as [H1 H2]. rewrite H1, H2. f_equal.
  assert (HL : e0 :: els = removelast (e0 :: els) ++ [last (e0 :: els) []]) by (apply app_removelast_last; discriminate).
  remember (removelast (e0 :: els)) as R. remember (last (e0 :: els) []) as x.
  rewrite HL. rewrite map_app. f_equal. cbn [map]. f_equal.
  unfold sum_len. rewrite concat_app. cbn [concat]. rewrite app_nil_r. unfold zlen. rewrite app_length. lia.
Qed.

Section ProofsGeo.
Variables F Ftxt Cx Ctxt : Type.
Variable pf : F -> Ftxt.
Variable rf : Ftxt -> F.
Variable f_of_int : Z -> F.
Variable pc : Cx -> Ctxt.
Variable rc : Ctxt -> Cx.
Variable cx_of_f : F -> Cx.
Variable f_is_zero : F -> bool.
Variable c_is_zero : Cx -> bool.
Variables enc_s dec_s enc_n dec_n : string -> string.
Hypothesis rf_pf : forall x, rf (pf x) = x.
Hypothesis rc_pc : forall c, rc (pc c) = c.
(* urllib.parse.unquote (quote s) = s; an encoded text has no double quote and no chunk keyword (it has no '[') *)
Hypothesis dec_enc_s : forall s, dec_s (enc_s s) = s.
Hypothesis dec_enc_n : forall s, dec_n (enc_n s) = s.
Hypothesis enc_s_safe : forall s, @Geo.is_chunk_header Ftxt Ctxt (TWord (enc_s s)) = false.
Hypothesis enc_n_safe : forall s, clean (enc_n s) /\ @Geo.is_chunk_header Ftxt Ctxt (TWord (qs (enc_n s))) = false.

Notation tok := (tok Ftxt Ctxt).
Notation aval := (aval F Cx).
Notation attr := (attr F Cx).
Notation sattr := (sattr F Cx).
Notation mesh := (mesh F Cx).
Notation raw := (raw F Cx).
Notation chunk := (chunk F Ftxt Cx Ctxt).
Notation TI := (@TInt Ftxt Ctxt).
Notation TW := (@TWord Ftxt Ctxt).
Notation fl := (@fl F Ftxt Ctxt pf).
Notation gw := (@gw Ftxt Ctxt).
Notation ti := (@ti Ftxt Ctxt).
Notation is_chunk_header := (@is_chunk_header Ftxt Ctxt).
Notation geo_atts := (@geo_atts Ftxt Ctxt).
Notation geo_attr_head := (@geo_attr_head Ftxt Ctxt).
Notation tok_container := (@tok_container Ftxt Ctxt).
Notation tok_dtype := (@tok_dtype Ftxt Ctxt).
Notation chunks_aux := (@chunks_aux Ftxt Ctxt).
Notation chunks := (@chunks Ftxt Ctxt).
Notation print_aval := (@print_aval F Ftxt Cx Ctxt pf pc enc_s).
Notation geo_user_attr := (@geo_user_attr F Ftxt Cx Ctxt pf pc enc_s enc_n).
Notation geo_chunks := (@geo_chunks F Ftxt Cx Ctxt pf pc enc_s enc_n).
Notation print_geo := (@print_geo F Ftxt Cx Ctxt pf pc enc_s enc_n).
Notation conv_data := (@conv_data F Ftxt Cx Ctxt rf f_of_int rc cx_of_f dec_s).
Notation parse_chunk := (@parse_chunk F Ftxt Cx Ctxt rf f_of_int rc cx_of_f dec_s).
Notation parse_geo := (@parse_geo F Ftxt Cx Ctxt rf f_of_int rc cx_of_f f_is_zero c_is_zero dec_s dec_n).
Notation geo_step := (@geo_step F Ftxt Cx Ctxt f_of_int f_is_zero c_is_zero dec_n).
Notation vocab_geo := (@vocab_geo F Cx f_is_zero c_is_zero).
Notation sparse_of := (@sparse_of F Cx f_is_zero c_is_zero).
Notation not_default := (@not_default F Cx f_is_zero c_is_zero).
Notation import_items := (@import_items F Cx).

(* ------------------------------------------------------------------ A. cutting the file into chunks *)
Definition body_ok (b : list tok) : Prop := Forall (fun t => is_chunk_header t = false) b.
Definition chunk_shaped (c : list tok) : Prop :=
  match c with h :: b => is_chunk_header h = true /\ body_ok b | [] => False end.

Lemma chunks_aux_body b rest : body_ok b ->
  chunks_aux (b ++ rest) = (b ++ fst (chunks_aux rest), snd (chunks_aux rest)).
Proof.
  induction 1 as [|t b Ht _ IH]; cbn [app Geo.chunks_aux].
  - now destruct (chunks_aux rest).
  - rewrite IH. cbn. now rewrite Ht.
Qed.

Lemma chunks_aux_concat cs : Forall chunk_shaped cs -> chunks_aux (concat cs) = ([], cs).
Proof.
  induction 1 as [|c cs Hc _ IH]; [reflexivity|].
  destruct c as [|h b]; [contradiction|]. destruct Hc as [Hh Hb].
  cbn [concat app Geo.chunks_aux]. rewrite (chunks_aux_body _ _ Hb), IH. cbn. rewrite Hh. now rewrite app_nil_r.
Qed.

Lemma chunks_concat cs : Forall chunk_shaped cs -> chunks (concat cs) = cs.
Proof. intros H. unfold Geo.chunks. now rewrite chunks_aux_concat. Qed.

(* ------------------------------------------------------------------ well-formed attributes *)
Definition has_type (t : aty) (v : aval) : Prop :=
  match t, v with
  | TyBool, VBool _ | TyInt, VInt _ | TyFloat, VFloat _ | TyComplex, VCx _ => True
  | TyString, VStr _ => True
  | _, _ => False
  end.

(* names the importer gives a meaning of its own to *)
Definition reserved (nm : string) : Prop :=
  In (qs (enc_n nm)) (map (fun e => snd (fst e)) geo_imp_special) \/ In (qs (enc_n nm)) geo_imp_skip
  \/ qs (enc_n nm) = geo_imp_facet_ptr \/ qs (enc_n nm) = geo_imp_cell_ptr.

Definition attr_ok (a : attr) : Prop :=
  ~ reserved (a_name a) /\ 1 <= a_ar a /\ Forall (has_type (a_ty a)) (a_vals a).
Definition attrs_ok (l : list attr) : Prop := Forall attr_ok l /\ NoDup (map (@a_name F Cx) l).

Lemma print_aval_not_header t v : has_type t v -> is_chunk_header (print_aval v) = false.
Proof. destruct t, v; cbn; try contradiction; auto. intros _. apply enc_s_safe. Qed.

Lemma conv_print t v : has_type t v -> conv_data t (print_aval v) = Some v.
Proof.
  destruct t, v; cbn; try contradiction; intros _; try reflexivity.
  - now destruct b.
  - now rewrite rf_pf.
  - now rewrite rc_pc.
  - now rewrite dec_enc_s.
Qed.

Lemma omap_conv_print t vs : Forall (has_type t) vs -> omap (conv_data t) (map print_aval vs) = Some vs.
Proof.
  intros H. rewrite omap_map. rewrite (omap_ext_some _ (fun v => v)); [now rewrite map_id|].
  intros v Hv. apply conv_print. rewrite Forall_forall in H. now apply H.
Qed.

(* ------------------------------------------------------------------ C. parsing the chunks export writes *)
Definition pc_head : chunk := mkchunk 0 None (TI 0) TyInt 0 [] 0.
Definition pc_atts (code n : Z) : chunk := mkchunk 2 (Some code) (TI 0) TyInt 0 [] n.
Definition pc_attr (code : Z) (nm : tok) (dty : aty) (ar : Z) (d : list aval) : chunk := mkchunk 1 (Some code) nm dty ar d 0.

Lemma parse_head : parse_chunk (map gw geo_exp_head) = Some pc_head.
Proof. reflexivity. Qed.

Lemma parse_atts_V n : parse_chunk (geo_atts geo_exp_atts_V n) = Some (pc_atts 0 n).
Proof. reflexivity. Qed.
Lemma parse_atts_E n : parse_chunk (geo_atts geo_exp_atts_E n) = Some (pc_atts 1 n).
Proof. reflexivity. Qed.
Lemma parse_atts_F n : parse_chunk (geo_atts geo_exp_atts_F n) = Some (pc_atts 2 n).
Proof. reflexivity. Qed.
Lemma parse_atts_FC n : parse_chunk (geo_atts geo_exp_atts_FC n) = Some (pc_atts 3 n).
Proof. reflexivity. Qed.
Lemma parse_atts_C n : parse_chunk (geo_atts geo_exp_atts_C n) = Some (pc_atts 4 n).
Proof. reflexivity. Qed.
Lemma parse_atts_CC n : parse_chunk (geo_atts geo_exp_atts_CC n) = Some (pc_atts 5 n).
Proof. reflexivity. Qed.
Lemma parse_atts_CF n : parse_chunk (geo_atts geo_exp_atts_CF n) = Some (pc_atts 6 n).
Proof. reflexivity. Qed.

Lemma parse_attr_chunk (c nm ty : tok) (bs ar : Z) (data : list tok) code dty d :
  tok_container c = Some code -> tok_dtype ty = Some dty -> omap (conv_data dty) data = Some d ->
  parse_chunk (gw geo_kw_attr :: c :: nm :: ty :: TI bs :: TI ar :: data) = Some (pc_attr code nm dty ar d).
Proof.
  intros Hc Ht Hd. unfold Geo.parse_chunk.
  change (nthz (gw geo_kw_attr :: c :: nm :: ty :: TI bs :: TI ar :: data) geo_pos_type) with (Some (gw geo_kw_attr)).
  change (nthz (gw geo_kw_attr :: c :: nm :: ty :: TI bs :: TI ar :: data) geo_pos_cont) with (Some c).
  change (nthz (gw geo_kw_attr :: c :: nm :: ty :: TI bs :: TI ar :: data) geo_pos_name) with (Some nm).
  change (nthz (gw geo_kw_attr :: c :: nm :: ty :: TI bs :: TI ar :: data) geo_pos_dty) with (Some ty).
  change (nthz (gw geo_kw_attr :: c :: nm :: ty :: TI bs :: TI ar :: data) geo_pos_bs) with (Some (TI bs)).
  change (nthz (gw geo_kw_attr :: c :: nm :: ty :: TI bs :: TI ar :: data) geo_pos_ar) with (Some (TI ar)).
  change (skipn (Z.to_nat geo_pos_data) (gw geo_kw_attr :: c :: nm :: ty :: TI bs :: TI ar :: data)) with data.
  change (is_word (gw geo_kw_attr) geo_kw_head) with false.
  change (is_word (gw geo_kw_attr) geo_kw_atts) with false.
  change (is_word (gw geo_kw_attr) geo_kw_attr) with true. cbn iota.
  rewrite Hc, Ht, Hd. reflexivity.
Qed.

Lemma type_string_from t : tok_dtype (gw (qs (geo_type_string t))) = Some t.
Proof. destruct t; reflexivity. Qed.

Lemma user_cont_code k : (k < 7)%nat -> tok_container (gw (qs (user_cont k))) = Some (Z.of_nat k).
Proof. intros H. do 7 (destruct k as [|k]; [reflexivity|]). lia. Qed.

Lemma parse_user_attr k (a : attr) : (k < 7)%nat -> Forall (has_type (a_ty a)) (a_vals a) ->
  parse_chunk (geo_user_attr (user_cont k) a)
  = Some (pc_attr (Z.of_nat k) (gw (qs (enc_n (a_name a)))) (a_ty a) (a_ar a) (a_vals a)).
Proof.
  intros Hk Hv. unfold Geo.geo_user_attr. cbn [app].
  apply parse_attr_chunk; [now apply user_cont_code | apply type_string_from | now apply omap_conv_print].
Qed.

Lemma omap_conv_fl (xs : list F) : omap (conv_data TyFloat) (map fl xs) = Some (map (@VFloat F Cx) xs).
Proof.
  rewrite omap_map. apply omap_ext_some. intros x _. cbn. now rewrite rf_pf.
Qed.
Lemma omap_conv_ti (zs : list Z) : omap (conv_data TyInt) (map ti zs) = Some (map (@VInt F Cx) zs).
Proof. rewrite omap_map. apply omap_ext_some. reflexivity. Qed.

Lemma parse_point (xs : list F) :
  parse_chunk (geo_attr_head geo_exp_attr_point ++ map fl xs)
  = Some (pc_attr 0 (gw (snd (fst (special 0)))) TyFloat 3 (map (@VFloat F Cx) xs)).
Proof. apply (parse_attr_chunk _ _ _ _ _ _ 0 TyFloat); [reflexivity | reflexivity | apply omap_conv_fl]. Qed.

Lemma parse_edge_vertex (zs : list Z) :
  parse_chunk (geo_attr_head geo_exp_attr_edge_vertex ++ map ti zs)
  = Some (pc_attr 1 (gw (snd (fst (special 1)))) TyInt 2 (map (@VInt F Cx) zs)).
Proof. apply (parse_attr_chunk _ _ _ _ _ _ 1 TyInt); [reflexivity | reflexivity | apply omap_conv_ti]. Qed.

Lemma parse_facet_ptr (zs : list Z) :
  parse_chunk (geo_attr_head geo_exp_attr_facet_ptr ++ map ti zs)
  = Some (pc_attr 2 (gw geo_imp_facet_ptr) TyInt 1 (map (@VInt F Cx) zs)).
Proof. apply (parse_attr_chunk _ _ _ _ _ _ 2 TyInt); [reflexivity | reflexivity | apply omap_conv_ti]. Qed.

Lemma parse_cell_ptr (zs : list Z) :
  parse_chunk (geo_attr_head geo_exp_attr_cell_ptr ++ map ti zs)
  = Some (pc_attr 4 (gw geo_imp_cell_ptr) TyInt 1 (map (@VInt F Cx) zs)).
Proof. apply (parse_attr_chunk _ _ _ _ _ _ 4 TyInt); [reflexivity | reflexivity | apply omap_conv_ti]. Qed.

Lemma parse_fc_vertex (zs : list Z) :
  parse_chunk (geo_attr_head geo_exp_attr_fc_vertex ++ map ti zs)
  = Some (pc_attr 3 (gw (snd (fst (special 2)))) TyInt 1 (map (@VInt F Cx) zs)).
Proof. apply (parse_attr_chunk _ _ _ _ _ _ 3 TyInt); [reflexivity | reflexivity | apply omap_conv_ti]. Qed.

Lemma parse_cc_vertex (zs : list Z) :
  parse_chunk (geo_attr_head geo_exp_attr_cc_vertex ++ map ti zs)
  = Some (pc_attr 5 (gw (snd (fst (special 4)))) TyInt 1 (map (@VInt F Cx) zs)).
Proof. apply (parse_attr_chunk _ _ _ _ _ _ 5 TyInt); [reflexivity | reflexivity | apply omap_conv_ti]. Qed.

Lemma parse_cf_adj (zs : list Z) :
  parse_chunk (geo_attr_head geo_exp_attr_cf_adj ++ map ti zs)
  = Some (pc_attr 6 (gw (snd (fst (special 5)))) TyInt 1 (map (@VInt F Cx) zs)).
Proof. apply (parse_attr_chunk _ _ _ _ _ _ 6 TyInt); [reflexivity | reflexivity | apply omap_conv_ti]. Qed.

(* ------------------------------------------------------------------ D. the chunk records of a printed mesh *)
Definition user_pcs (k : nat) (l : list attr) : list chunk :=
  map (fun a => pc_attr (Z.of_nat k) (gw (qs (enc_n (a_name a)))) (a_ty a) (a_ar a) (a_vals a)) l.
Definition nm (k : nat) : tok := gw (snd (fst (special k))).
Definition vI (zs : list Z) : list aval := map (@VInt F Cx) zs.

Definition pchunks (m : mesh) : list chunk :=
  [pc_head]
  ++ [pc_atts 0 (zlen (mV m)); pc_attr 0 (nm 0) TyFloat 3 (map (@VFloat F Cx) (flat_map (@v3 F) (mV m)))]
  ++ user_pcs 0 (aV m)
  ++ (if isnil (mE m) then [] else
        [pc_atts 1 (zlen (mE m)); pc_attr 1 (nm 1) TyInt 2 (vI (flat_map e2 (mE m)))] ++ user_pcs 1 (aE m))
  ++ (if isnil (mF m) then [] else
        [pc_atts 2 (zlen (mF m))]
        ++ (if forallb (len_is 3) (mF m) then [] else [pc_attr 2 (gw geo_imp_facet_ptr) TyInt 1 (vI (ptrs_from 0 (mF m)))])
        ++ user_pcs 2 (aF m)
        ++ [pc_atts 3 (sum_len (mF m)); pc_attr 3 (nm 2) TyInt 1 (vI (concat (mF m)))]
        ++ user_pcs 3 (aFC m))
  ++ (if isnil (mC m) then [] else
        [pc_atts 4 (zlen (mC m))]
        ++ (if forallb (len_is 4) (mC m) then [] else [pc_attr 4 (gw geo_imp_cell_ptr) TyInt 1 (vI (ptrs_from 0 (mC m)))])
        ++ user_pcs 4 (aC m)
        ++ [pc_atts 5 (sum_len (mC m)); pc_attr 5 (nm 4) TyInt 1 (vI (concat (mC m)))]
        ++ user_pcs 5 (aCC m)
        ++ [pc_atts 6 (n_cell_facets (mC m))]
        ++ (if has_adjacency m then [pc_attr 6 (nm 5) TyInt 1 (vI (mAdj m))] else [])
        ++ user_pcs 6 (aCF m)).

Definition geo_ok (m : mesh) : Prop :=
  attrs_ok (aV m) /\ attrs_ok (aE m) /\ attrs_ok (aF m) /\ attrs_ok (aFC m) /\ attrs_ok (aC m) /\ attrs_ok (aCC m)
  /\ attrs_ok (aCF m) /\ ~ In geo_imp_opp_cell (map (@a_name F Cx) (aCF m))
  /\ (~ In geo_exp_fc_adj_name (map (@a_name F Cx) (aFC m)) /\ ~ In geo_exp_cf_adj_name (map (@a_name F Cx) (aCF m))).

Lemma flat_map_fl (V : list (F * F * F)) : flat_map (fun v => map fl (v3 v)) V = map fl (flat_map (@v3 F) V).
Proof. induction V as [|v V IH]; [reflexivity|]. cbn [flat_map]. now rewrite map_app, IH. Qed.
Lemma flat_map_ti (E : list (Z * Z)) : flat_map (fun e => [ti (fst e); ti (snd e)]) E = map ti (flat_map e2 E).
Proof. induction E as [|e E IH]; [reflexivity|]. cbn [flat_map]. now rewrite map_app, IH. Qed.

Lemma omap_if {A B} (b : bool) (f : A -> option B) l r :
  omap f l = Some r -> omap f (if b then [] else l) = Some (if b then [] else r).
Proof. destruct b; [reflexivity|auto]. Qed.

Lemma omap_if' {A B} (b : bool) (f : A -> option B) l r :
  omap f l = Some r -> omap f (if b then l else []) = Some (if b then r else []).
Proof. destruct b; [auto|reflexivity]. Qed.
Lemma Forall_if' {A} (P : A -> Prop) (b : bool) l : Forall P l -> Forall P (if b then l else []).
Proof. destruct b; [auto|constructor]. Qed.

Lemma parse_users k (l : list attr) : (k < 7)%nat -> Forall attr_ok l ->
  omap parse_chunk (map (geo_user_attr (user_cont k)) l) = Some (user_pcs k l).
Proof.
  intros Hk Hl. rewrite omap_map. apply omap_ext_some. intros a Ha.
  rewrite Forall_forall in Hl. destruct (Hl a Ha) as (_ & _ & Hv). now apply parse_user_attr.
Qed.

Lemma parse_chunks_ok (m : mesh) : geo_ok m -> omap parse_chunk (geo_chunks m) = Some (pchunks m).
Proof.
  intros ([HV _] & [HE _] & [HF _] & [HFC _] & [HC _] & [HCC _] & [HCF _] & _).
  unfold Geo.geo_chunks, pchunks.
  rewrite flat_map_fl, flat_map_ti.
  repeat (first [ apply omap_app | apply omap_if | apply omap_if' ]);
    try (apply parse_users; [lia|assumption]);
    cbn [omap];
    rewrite ?parse_head, ?parse_atts_V, ?parse_atts_E, ?parse_atts_F, ?parse_atts_FC, ?parse_atts_C, ?parse_atts_CC, ?parse_atts_CF,
            ?parse_point, ?parse_edge_vertex, ?parse_facet_ptr, ?parse_cell_ptr, ?parse_fc_vertex, ?parse_cc_vertex, ?parse_cf_adj;
    reflexivity.
Qed.

(* every chunk written starts with a header line and has no other *)
Lemma users_shaped k (l : list attr) : (k < 7)%nat -> Forall attr_ok l ->
  Forall chunk_shaped (map (geo_user_attr (user_cont k)) l).
Proof.
  intros Hk Hl. apply Forall_forall. intros c Hc. apply in_map_iff in Hc as [a [<- Ha]].
  rewrite Forall_forall in Hl. destruct (Hl a Ha) as (_ & _ & Hv). destruct (enc_n_safe (a_name a)) as [_ Hn].
  unfold Geo.geo_user_attr. cbn [app chunk_shaped]. split; [reflexivity|].
  repeat constructor.
  - do 7 (destruct k as [|k]; [reflexivity|]). lia.
  - exact Hn.
  - destruct (a_ty a); reflexivity.
  - apply Forall_forall. intros t Ht. apply in_map_iff in Ht as [v [<- Hv']].
    rewrite Forall_forall in Hv. eapply print_aval_not_header. now apply Hv.
Qed.

Lemma body_ti (zs : list Z) : body_ok (map ti zs).
Proof. apply Forall_forall. intros t Ht. apply in_map_iff in Ht as [z [<- _]]. reflexivity. Qed.
Lemma body_fl (xs : list F) : body_ok (map fl xs).
Proof. apply Forall_forall. intros t Ht. apply in_map_iff in Ht as [z [<- _]]. reflexivity. Qed.

Lemma Forall_if {A} (P : A -> Prop) (b : bool) l : Forall P l -> Forall P (if b then [] else l).
Proof. destruct b; [constructor|auto]. Qed.

Lemma attr_head_shaped (h : list string * Z * Z) (data : list tok) :
  chunk_shaped (geo_attr_head h) -> body_ok data -> chunk_shaped (geo_attr_head h ++ data).
Proof.
  destruct h as [[ws bs] ar]. unfold Geo.geo_attr_head. destruct ws as [|w ws]; cbn [map app chunk_shaped].
  - intros [Hh _]. discriminate.
  - intros [Hh Hb] Hd. split; [exact Hh|]. apply Forall_app. split; assumption.
Qed.

Lemma chunks_shaped (m : mesh) : geo_ok m -> Forall chunk_shaped (geo_chunks m).
Proof.
  intros ([HV _] & [HE _] & [HF _] & [HFC _] & [HC _] & [HCC _] & [HCF _] & _).
  unfold Geo.geo_chunks. rewrite flat_map_fl, flat_map_ti.
  repeat (first [ apply Forall_app; split | apply Forall_if | apply Forall_if' ]);
    try (apply users_shaped; [lia|assumption]);
    repeat (apply Forall_cons); try apply Forall_nil;
    try (apply attr_head_shaped; [ cbn; split; [reflexivity | repeat constructor] | first [apply body_ti | apply body_fl] ]);
    try (cbn; split; [reflexivity | repeat constructor]).
Qed.

(* ------------------------------------------------------------------ E. the passes of import_geogram_ascii *)
Notation sizes_of := (@sizes_of F Ftxt Cx Ctxt).
Notation ptr_pass := (@ptr_pass F Ftxt Cx Ctxt).
Notation name_is := (@name_is F Ftxt Cx Ctxt).
Notation is_special := (@is_special F Ftxt Cx Ctxt).

Definition size_step (acc : list (option Z * Z)) (c : chunk) : list (option Z * Z) :=
  if ck_type c =? 2 then (ck_cont c, ck_n c) :: acc else acc.

Lemma size_users k l acc : fold_left size_step (user_pcs k l) acc = acc.
Proof. revert acc. induction l as [|a l IH]; intros acc; [reflexivity|]. cbn [user_pcs map fold_left]. apply IH. Qed.

Lemma size_opt (b : bool) c acc : ck_type c = 1 -> fold_left size_step (if b then [] else [c]) acc = acc.
Proof. intros H. destruct b; [reflexivity|]. cbn. unfold size_step. now rewrite H. Qed.
Lemma size_opt' (b : bool) c acc : ck_type c = 1 -> fold_left size_step (if b then [c] else []) acc = acc.
Proof. intros H. destruct b; [|reflexivity]. cbn. unfold size_step. now rewrite H. Qed.

Lemma sizes_pchunks (m : mesh) :
  sizes_of (pchunks m) =
    (if isnil (mC m) then [] else [(Some 6, n_cell_facets (mC m)); (Some 5, sum_len (mC m)); (Some 4, zlen (mC m))])
    ++ (if isnil (mF m) then [] else [(Some 3, sum_len (mF m)); (Some 2, zlen (mF m))])
    ++ (if isnil (mE m) then [] else [(Some 1, zlen (mE m))])
    ++ [(Some 0, zlen (mV m))].
Proof.
  unfold Geo.sizes_of, pchunks. change (fun acc c => if ck_type c =? 2 then (ck_cont c, ck_n c) :: acc else acc) with size_step.
  rewrite !fold_left_app. cbn [fold_left]. rewrite size_users.
  destruct (isnil (mE m)); destruct (isnil (mF m)); destruct (isnil (mC m));
    repeat (first [ rewrite fold_left_app | rewrite size_users | rewrite size_opt by reflexivity | rewrite size_opt' by reflexivity
                  | progress cbn [fold_left app] ]);
    reflexivity.
Qed.

Lemma isnil_true {A} (l : list A) : isnil l = true -> l = [].
Proof. destruct l; [reflexivity|discriminate]. Qed.

Lemma size_of_pchunks (m : mesh) :
  let S := sizes_of (pchunks m) in
  size_of S 1 = zlen (mE m) /\ size_of S 2 = zlen (mF m) /\ size_of S 3 = sum_len (mF m)
  /\ size_of S 4 = zlen (mC m) /\ size_of S 5 = sum_len (mC m).
Proof.
  cbv zeta. rewrite sizes_pchunks.
  destruct (mE m); destruct (mF m); destruct (mC m); cbn [isnil app]; repeat split; reflexivity.
Qed.

(* -- the *_ptr pass *)
Definition ptr_state := option (list Z * list Z * list Z * list Z).
Definition is_ptr_chunk (c : chunk) : bool :=
  ((ck_type c =? 1) && name_is c geo_imp_facet_ptr) || ((ck_type c =? 1) && name_is c geo_imp_cell_ptr).

Lemma not_reserved_neq nm0 s : ~ reserved nm0 ->
  (In s (map (fun e => snd (fst e)) geo_imp_special) \/ In s geo_imp_skip \/ s = geo_imp_facet_ptr \/ s = geo_imp_cell_ptr) ->
  String.eqb (qs (enc_n nm0)) s = false.
Proof.
  intros Hr Hs. apply String.eqb_neq. intros E. apply Hr. unfold reserved. rewrite E. exact Hs.
Qed.

Section PtrPass.
Variable sizes : list (option Z * Z).
Let pstep (st : ptr_state) (c : chunk) : ptr_state :=
    match st with
    | None => None
    | Some (ncf, fptr, ncc, cptr) =>
        if (ck_type c =? 1) && name_is c geo_imp_facet_ptr then
          match omap (@aval_int F Cx) (ck_data c) with
          | Some d => option_map (fun s => (ncf ++ s, d, ncc, cptr)) (sizes_from_ptr (size_of sizes 2) (size_of sizes 3) d)
          | None => None
          end
        else if (ck_type c =? 1) && name_is c geo_imp_cell_ptr then
          match omap (@aval_int F Cx) (ck_data c) with
          | Some d => option_map (fun s => (ncf, fptr, ncc ++ s, d)) (sizes_from_ptr (size_of sizes 4) (size_of sizes 5) d)
          | None => None
          end
        else st
    end.

Lemma pstep_skip st c : is_ptr_chunk c = false -> pstep st c = st.
Proof.
  unfold is_ptr_chunk, pstep. intros H. apply orb_false_iff in H as [H1 H2]. destruct st as [[[[? ?] ?] ?]|]; [|reflexivity].
  now rewrite H1, H2.
Qed.

Lemma pstep_skip_list st l : Forall (fun c => is_ptr_chunk c = false) l -> fold_left pstep l st = st.
Proof.
  intros H. revert st. induction H as [|c l Hc _ IH]; intros st; [reflexivity|]. cbn [fold_left]. now rewrite pstep_skip, IH.
Qed.

Lemma users_not_ptr k l : Forall attr_ok l -> Forall (fun c => is_ptr_chunk c = false) (user_pcs k l).
Proof.
  intros H. apply Forall_forall. intros c Hc. apply in_map_iff in Hc as [a [<- Ha]].
  rewrite Forall_forall in H. destruct (H a Ha) as (Hr & _).
  unfold is_ptr_chunk, pc_attr, Geo.name_is, Geo.gw. cbn [ck_type ck_name is_word].
  rewrite (not_reserved_neq _ geo_imp_facet_ptr Hr) by tauto.
  rewrite (not_reserved_neq _ geo_imp_cell_ptr Hr) by tauto. reflexivity.
Qed.

Lemma omap_aval_int_vI zs : omap (@aval_int F Cx) (vI zs) = Some zs.
Proof. unfold vI. rewrite omap_map. rewrite (omap_ext_some _ (fun z => z)); [now rewrite map_id|]. reflexivity. Qed.

Definition facet_ptrs (m : mesh) : list Z * list Z :=
  if isnil (mF m) || forallb (len_is 3) (mF m) then ([], []) else (map zlen (mF m), ptrs_from 0 (mF m)).
Definition cell_ptrs (m : mesh) : list Z * list Z :=
  if isnil (mC m) || forallb (len_is 4) (mC m) then ([], []) else (map zlen (mC m), ptrs_from 0 (mC m)).

Lemma ptr_pass_pchunks (m : mesh) : geo_ok m ->
  size_of sizes 2 = zlen (mF m) -> size_of sizes 3 = sum_len (mF m) ->
  size_of sizes 4 = zlen (mC m) -> size_of sizes 5 = sum_len (mC m) ->
  fold_left pstep (pchunks m) (Some ([], [], [], []))
  = Some (fst (facet_ptrs m), snd (facet_ptrs m), fst (cell_ptrs m), snd (cell_ptrs m)).
Proof.
  intros ([HV _] & [HE _] & [HF _] & [HFC _] & [HC _] & [HCC _] & [HCF _] & _) S2 S3 S4 S5.
  unfold pchunks. rewrite !fold_left_app.
  cbn [fold_left]. rewrite (pstep_skip_list _ _ (users_not_ptr 0 _ HV)).
  change (pstep (pstep (pstep (Some ([], [], [], [])) pc_head) (pc_atts 0 (zlen (mV m))))
                (pc_attr 0 (nm 0) TyFloat 3 (map (@VFloat F Cx) (flat_map (@v3 F) (mV m))))) with (Some (@nil Z, @nil Z, @nil Z, @nil Z)).
  assert (HEb : forall st, fold_left pstep (if isnil (mE m) then [] else
        [pc_atts 1 (zlen (mE m)); pc_attr 1 (nm 1) TyInt 2 (vI (flat_map e2 (mE m)))] ++ user_pcs 1 (aE m)) st = st).
  { intros st. destruct (isnil (mE m)); [reflexivity|]. rewrite fold_left_app. cbn [fold_left].
    rewrite (pstep_skip_list _ _ (users_not_ptr 1 _ HE)). rewrite !pstep_skip by reflexivity. reflexivity. }
  rewrite HEb.
  assert (HFb : forall c0 d0, fold_left pstep (if isnil (mF m) then [] else
        [pc_atts 2 (zlen (mF m))]
        ++ (if forallb (len_is 3) (mF m) then [] else [pc_attr 2 (gw geo_imp_facet_ptr) TyInt 1 (vI (ptrs_from 0 (mF m)))])
        ++ user_pcs 2 (aF m)
        ++ [pc_atts 3 (sum_len (mF m)); pc_attr 3 (nm 2) TyInt 1 (vI (concat (mF m)))]
        ++ user_pcs 3 (aFC m)) (Some ([], [], c0, d0)) = Some (fst (facet_ptrs m), snd (facet_ptrs m), c0, d0)).
  { intros c0 d0. unfold facet_ptrs. destruct (isnil (mF m)) eqn:EF; [reflexivity|]. cbn [orb].
    rewrite !fold_left_app. cbn [fold_left]. rewrite (pstep_skip _ (pc_atts 2 _)) by reflexivity.
    destruct (forallb (len_is 3) (mF m)) eqn:Etri; cbn [fold_left fst snd].
    - rewrite (pstep_skip_list _ _ (users_not_ptr 2 _ HF)).
      rewrite (pstep_skip _ (pc_atts 3 _)) by reflexivity. rewrite (pstep_skip _ (pc_attr 3 _ _ _ _)) by reflexivity.
      rewrite (pstep_skip_list _ _ (users_not_ptr 3 _ HFC)). reflexivity.
    - assert (Hp : pstep (Some ([], [], c0, d0)) (pc_attr 2 (gw geo_imp_facet_ptr) TyInt 1 (vI (ptrs_from 0 (mF m))))
               = Some (map zlen (mF m), ptrs_from 0 (mF m), c0, d0)).
      { unfold pstep. change ((ck_type (pc_attr 2 (gw geo_imp_facet_ptr) TyInt 1 (vI (ptrs_from 0 (mF m)))) =? 1)
                              && name_is (pc_attr 2 (gw geo_imp_facet_ptr) TyInt 1 (vI (ptrs_from 0 (mF m)))) geo_imp_facet_ptr) with true.
        cbn iota. cbn [ck_data pc_attr]. rewrite omap_aval_int_vI, S2, S3, sizes_from_ptr_ok; [reflexivity|].
        destruct (mF m); [discriminate|discriminate]. }
      rewrite Hp.
      rewrite (pstep_skip_list _ _ (users_not_ptr 2 _ HF)).
      rewrite (pstep_skip _ (pc_atts 3 _)) by reflexivity. rewrite (pstep_skip _ (pc_attr 3 _ _ _ _)) by reflexivity.
      rewrite (pstep_skip_list _ _ (users_not_ptr 3 _ HFC)). reflexivity. }
  rewrite HFb.
  unfold cell_ptrs. destruct (isnil (mC m)) eqn:EC; [reflexivity|]. cbn [orb].
  rewrite !fold_left_app. cbn [fold_left]. rewrite (pstep_skip _ (pc_atts 4 _)) by reflexivity.
  assert (Htail : forall st, fold_left pstep (user_pcs 6 (aCF m))
      (fold_left pstep (if has_adjacency m then [pc_attr 6 (nm 5) TyInt 1 (vI (mAdj m))] else [])
         (pstep (fold_left pstep (user_pcs 5 (aCC m))
            (pstep (pstep (fold_left pstep (user_pcs 4 (aC m)) st) (pc_atts 5 (sum_len (mC m))))
               (pc_attr 5 (nm 4) TyInt 1 (vI (concat (mC m)))))) (pc_atts 6 (n_cell_facets (mC m))))) = st).
  { intros st. rewrite (pstep_skip_list _ _ (users_not_ptr 6 _ HCF)).
    assert (Ha : forall st', fold_left pstep (if has_adjacency m then [pc_attr 6 (nm 5) TyInt 1 (vI (mAdj m))] else []) st' = st').
    { intros st'. destruct (has_adjacency m); [|reflexivity]. cbn [fold_left]. now rewrite pstep_skip by reflexivity. }
    rewrite Ha. rewrite (pstep_skip _ (pc_atts 6 _)) by reflexivity.
    rewrite (pstep_skip_list _ _ (users_not_ptr 5 _ HCC)).
    rewrite (pstep_skip _ (pc_attr 5 _ _ _ _)) by reflexivity. rewrite (pstep_skip _ (pc_atts 5 _)) by reflexivity.
    apply (pstep_skip_list _ _ (users_not_ptr 4 _ HC)). }
  destruct (forallb (len_is 4) (mC m)) eqn:Etet; cbn [fold_left fst snd].
  - apply Htail.
  - assert (Hp : pstep (Some (fst (facet_ptrs m), snd (facet_ptrs m), [], [])) (pc_attr 4 (gw geo_imp_cell_ptr) TyInt 1 (vI (ptrs_from 0 (mC m))))
               = Some (fst (facet_ptrs m), snd (facet_ptrs m), map zlen (mC m), ptrs_from 0 (mC m))).
    { unfold pstep. change ((ck_type (pc_attr 4 (gw geo_imp_cell_ptr) TyInt 1 (vI (ptrs_from 0 (mC m)))) =? 1)
                              && name_is (pc_attr 4 (gw geo_imp_cell_ptr) TyInt 1 (vI (ptrs_from 0 (mC m)))) geo_imp_facet_ptr) with false.
      change ((ck_type (pc_attr 4 (gw geo_imp_cell_ptr) TyInt 1 (vI (ptrs_from 0 (mC m)))) =? 1)
                              && name_is (pc_attr 4 (gw geo_imp_cell_ptr) TyInt 1 (vI (ptrs_from 0 (mC m)))) geo_imp_cell_ptr) with true.
      cbn iota. cbn [ck_data pc_attr]. rewrite omap_aval_int_vI, S4, S5, sizes_from_ptr_ok; [reflexivity|].
      destruct (mC m); [discriminate|discriminate]. }
    rewrite Hp. apply Htail.
Qed.
End PtrPass.

(* -- the main pass *)
Definition get_attrs (r : raw) (k : nat) : list sattr :=
  match k with 0 => rAV r | 1 => rAE r | 2 => rAF r | 3 => rAFC r | 4 => rAC r | 5 => rACC r | _ => rACF r end%nat.
Definition upd_attrs (r : raw) (k : nat) (f : list sattr -> list sattr) : raw :=
  let '(mkraw V E Fs C a0 a1 a2 a3 a4 a5 a6) := r in
  match k with
  | 0 => mkraw V E Fs C (f a0) a1 a2 a3 a4 a5 a6
  | 1 => mkraw V E Fs C a0 (f a1) a2 a3 a4 a5 a6
  | 2 => mkraw V E Fs C a0 a1 (f a2) a3 a4 a5 a6
  | 3 => mkraw V E Fs C a0 a1 a2 (f a3) a4 a5 a6
  | 4 => mkraw V E Fs C a0 a1 a2 a3 (f a4) a5 a6
  | 5 => mkraw V E Fs C a0 a1 a2 a3 a4 (f a5) a6
  | _ => mkraw V E Fs C a0 a1 a2 a3 a4 a5 (f a6)
  end%nat.

Lemma raw_set_attrs_nat r k f : (k < 7)%nat -> raw_set_attrs r (Z.of_nat k) f = Some (upd_attrs r k f).
Proof. intros H. destruct r. do 7 (destruct k as [|k]; [reflexivity|]). lia. Qed.
Lemma get_upd r k f : (k < 7)%nat -> get_attrs (upd_attrs r k f) k = f (get_attrs r k).
Proof. intros H. destruct r. do 7 (destruct k as [|k]; [reflexivity|]). lia. Qed.
Lemma upd_upd r k f g : (k < 7)%nat -> upd_attrs (upd_attrs r k f) k g = upd_attrs r k (fun l => g (f l)).
Proof. intros H. destruct r. do 7 (destruct k as [|k]; [reflexivity|]). lia. Qed.
Lemma upd_ext r k f g : (k < 7)%nat -> f (get_attrs r k) = g (get_attrs r k) -> upd_attrs r k f = upd_attrs r k g.
Proof. intros H. destruct r. do 7 (destruct k as [|k]; [cbn; intros ->; reflexivity|]). lia. Qed.
Lemma upd_id r k : (k < 7)%nat -> upd_attrs r k (fun l => l) = r.
Proof. intros H. destruct r. do 7 (destruct k as [|k]; [reflexivity|]). lia. Qed.

Lemma set_attr_fresh (l : list sattr) (a : sattr) : ~ In (s_name a) (map (@s_name F Cx) l) -> set_attr l a = l ++ [a].
Proof.
  induction l as [|b l IH]; intros H; [reflexivity|]. cbn [set_attr app].
  destruct (String.eqb (s_name b) (s_name a)) eqn:E.
  - apply String.eqb_eq in E. exfalso. apply H. left. exact E.
  - f_equal. apply IH. intros Hin. apply H. now right.
Qed.

Lemma import_items_sparse (a : attr) : 1 <= a_ar a ->
  import_items not_default (a_ar a) (a_vals a) = Some (s_items (sparse_of a)).
Proof.
  intros H. unfold Geo.sparse_of, Geo.import_items. cbn [s_items].
  destruct (a_ar a =? 0) eqn:E0; [lia|]. destruct (a_ar a <? 0) eqn:E1; [lia|].
  destruct (a_ar a =? 1); reflexivity.
Qed.

Lemma user_not_special k (a : attr) j : (j < 6)%nat -> ~ reserved (a_name a) ->
  is_special j (pc_attr (Z.of_nat k) (gw (qs (enc_n (a_name a)))) (a_ty a) (a_ar a) (a_vals a)) = false.
Proof.
  intros Hj Hr. unfold Geo.is_special.
  assert (G : forall s, In s (map (fun e => snd (fst e)) geo_imp_special) -> String.eqb (qs (enc_n (a_name a))) s = false)
    by (intros s Hs; apply (not_reserved_neq _ s Hr); now left).
  do 6 (destruct j as [|j]; [ cbn [special nth geo_imp_special]; unfold Geo.name_is, pc_attr, Geo.gw; cbn [ck_name ck_cont is_word];
                               rewrite G by (cbn; tauto); apply andb_false_r |]).
  lia.
Qed.

Section MainPass.
Variable sizes : list (option Z * Z).
Variable ptrs : list Z * list Z * list Z * list Z.
Let gs := geo_step sizes ptrs.
Definition run (cks : list chunk) (r : raw) : option raw :=
  fold_left (fun st c => match st with Some r => gs r c | None => None end) cks (Some r).

Lemma run_none cks : fold_left (fun st c => match st with Some r => gs r c | None => None end) cks None = None.
Proof. induction cks; [reflexivity|]. cbn. assumption. Qed.

Lemma run_app a b r : run (a ++ b) r = match run a r with Some r' => run b r' | None => None end.
Proof. unfold run. rewrite fold_left_app. destruct (fold_left _ a (Some r)); [reflexivity|apply run_none]. Qed.

Lemma run_cons c cks r : run (c :: cks) r = match gs r c with Some r' => run cks r' | None => None end.
Proof. unfold run. cbn [fold_left]. destruct (gs r c); [reflexivity|apply run_none]. Qed.

Lemma run_step c cks r r' : gs r c = Some r' -> run (c :: cks) r = run cks r'.
Proof. intros H. rewrite run_cons, H. reflexivity. Qed.

Lemma run_if (b : bool) cks r : run (if b then [] else cks) r = if b then Some r else run cks r.
Proof. destruct b; reflexivity. Qed.

Lemma step_head r : gs r pc_head = Some r.
Proof. unfold gs, Geo.geo_step. destruct ptrs as [[[? ?] ?] ?]. reflexivity. Qed.
Lemma step_atts c n r : gs r (pc_atts c n) = Some r.
Proof. unfold gs, Geo.geo_step. destruct ptrs as [[[? ?] ?] ?]. reflexivity. Qed.

Lemma step_user k (a : attr) r : (k < 7)%nat -> attr_ok a -> ~ In (a_name a) (map (@s_name F Cx) (get_attrs r k)) ->
  gs r (pc_attr (Z.of_nat k) (gw (qs (enc_n (a_name a)))) (a_ty a) (a_ar a) (a_vals a))
  = Some (upd_attrs r k (fun l => l ++ [sparse_of a])).
Proof.
  intros Hk (Hres & Har & _) Hfresh. destruct (enc_n_safe (a_name a)) as [Hclean _]. unfold gs, Geo.geo_step. destruct ptrs as [[[ncf fptr] ncc] cptr].
  rewrite !user_not_special by (assumption || lia).
  change (negb (ck_type (pc_attr (Z.of_nat k) (gw (qs (enc_n (a_name a)))) (a_ty a) (a_ar a) (a_vals a)) =? 1)) with false. cbn iota.
  assert (Hskip : existsb (name_is (pc_attr (Z.of_nat k) (gw (qs (enc_n (a_name a)))) (a_ty a) (a_ar a) (a_vals a))) geo_imp_skip = false).
  { apply not_true_is_false. intros E. apply existsb_exists in E as [s [Hs E]].
    unfold Geo.name_is, pc_attr, Geo.gw in E. cbn [ck_name is_word] in E.
    rewrite (not_reserved_neq _ s Hres) in E by tauto. discriminate. }
  rewrite Hskip. cbn [pc_attr ck_cont ck_name ck_ar ck_data ck_dty]. unfold Geo.gw.
  rewrite (split_quote_qs _ Hclean), dec_enc_n, (import_items_sparse _ Har), (raw_set_attrs_nat _ _ _ Hk).
  f_equal. apply upd_ext; [assumption|]. unfold Geo.sparse_of at 2. cbn [s_items].
  rewrite set_attr_fresh by exact Hfresh. reflexivity.
Qed.

Lemma run_users k (l : list attr) : (k < 7)%nat -> attrs_ok l -> forall r,
  (forall a, In a l -> ~ In (a_name a) (map (@s_name F Cx) (get_attrs r k))) ->
  run (user_pcs k l) r = Some (upd_attrs r k (fun l0 => l0 ++ map sparse_of l)).
Proof.
  intros Hk [Hok Hnd]. induction l as [|a l IH]; intros r Hfresh.
  - unfold run. cbn [user_pcs map fold_left]. f_equal.
    transitivity (upd_attrs r k (fun l0 => l0)); [symmetry; now apply upd_id | apply upd_ext; [assumption | now rewrite app_nil_r]].
  - cbn [user_pcs map]. rewrite run_cons.
    inversion Hok as [|? ? Ha Hl]; subst. cbn [map] in Hnd. inversion Hnd as [|? ? Hnin Hnd']; subst.
    rewrite (step_user k a r Hk Ha) by (apply Hfresh; now left).
    fold (user_pcs k l). rewrite IH; try assumption.
    + rewrite upd_upd by assumption. f_equal. apply upd_ext; [assumption|]. now rewrite <- app_assoc.
    + intros b Hb. rewrite get_upd by assumption. rewrite map_app, in_app_iff. cbn [map In].
      intros [Hin|[Heq|[]]].
      * apply (Hfresh b); [now right|assumption].
      * apply Hnin. change (s_name (sparse_of a)) with (a_name a) in Heq. rewrite Heq. now apply in_map.
Qed.

End MainPass.

(* -- geometry / connectivity chunks *)
Lemma zlen_flat_v3 (V : list (F * F * F)) : zlen (flat_map (@v3 F) V) = 3 * zlen V.
Proof.
  induction V as [|[[x y] z] V IH]; [reflexivity|]. cbn [flat_map v3]. unfold zlen in *. cbn [app length]. lia.
Qed.
Lemma group3_v3 (V : list (F * F * F)) : group3 (length V) (flat_map (@v3 F) V) = map (@v3 F) V.
Proof. induction V as [|[[x y] z] V IH]; [reflexivity|]. cbn [length group3 flat_map v3 app firstn skipn map]. now rewrite IH. Qed.
Lemma omap_coord_floats (xs : list F) : omap (@aval_coord F Cx f_of_int) (map (@VFloat F Cx) xs) = Some xs.
Proof. rewrite omap_map. rewrite (omap_ext_some _ (fun x => x)); [now rewrite map_id|]. reflexivity. Qed.

Lemma edges_idx (E : list (Z * Z)) :
  omap (fun i => match nthz (flat_map e2 E) (2 * i), nthz (flat_map e2 E) (2 * i + 1) with
                 | Some a, Some b => Some [a; b] | _, _ => None end) (zrange (zlen E)) = Some (map e2 E).
Proof.
  induction E as [|[a b] E IH]; [reflexivity|].
  unfold zlen. cbn [length]. rewrite zrange_succ. cbn [omap flat_map e2 app fst snd map].
  change (nthz (a :: b :: flat_map e2 E) (2 * 0)) with (Some a).
  change (nthz (a :: b :: flat_map e2 E) (2 * 0 + 1)) with (Some b). rewrite omap_map.
  rewrite (omap_ext_in _ (fun i => match nthz (flat_map e2 E) (2 * i), nthz (flat_map e2 E) (2 * i + 1) with
                 | Some a, Some b => Some [a; b] | _, _ => None end)).
  - fold (zlen E). now rewrite IH.
  - intros i Hi. apply In_zrange in Hi.
    replace (2 * (i + 1)) with ((2 * i + 1) + 1) by lia. replace (2 * (i + 1) + 1) with ((2 * i + 1 + 1) + 1) by lia.
    rewrite !nthz_succ by lia. reflexivity.
Qed.

Ltac spec_eval :=
  repeat match goal with
  | |- context [is_special ?k (pc_attr ?c ?n ?t ?a ?d)] =>
      let b := eval vm_compute in (is_special k (pc_attr c n t a [])) in
      change (is_special k (pc_attr c n t a d)) with b
  end.

Section MainPass2.
Variable sizes : list (option Z * Z).
Variable m : mesh.
Hypothesis S1 : size_of sizes 1 = zlen (mE m).
Hypothesis S2 : size_of sizes 2 = zlen (mF m).
Hypothesis S4 : size_of sizes 4 = zlen (mC m).
Let ptrs := (map zlen (mF m), ptrs_from 0 (mF m), map zlen (mC m), ptrs_from 0 (mC m)).
Let gs := geo_step sizes ptrs.

Lemma step_point V0 E0 F0 C0 a0 a1 a2 a3 a4 a5 a6 (V : list (F * F * F)) :
  gs (mkraw V0 E0 F0 C0 a0 a1 a2 a3 a4 a5 a6) (pc_attr 0 (nm 0) TyFloat 3 (map (@VFloat F Cx) (flat_map (@v3 F) V)))
  = Some (mkraw (V0 ++ map (@v3 F) V) E0 F0 C0 a0 a1 a2 a3 a4 a5 a6).
Proof.
  unfold gs, ptrs, Geo.geo_step. spec_eval. cbn [pc_attr ck_type ck_ar ck_data]. change (negb (1 =? 1)) with false.
  change (3 =? special_arity 0) with true. cbn iota.
  rewrite omap_coord_floats, zlen_flat_v3. replace (3 * zlen V / 3) with (zlen V) by (rewrite Z.mul_comm, Z.div_mul; lia).
  rewrite zlen_nat, group3_v3. reflexivity.
Qed.

Lemma step_edges V0 E0 F0 C0 a0 a1 a2 a3 a4 a5 a6 :
  gs (mkraw V0 E0 F0 C0 a0 a1 a2 a3 a4 a5 a6) (pc_attr 1 (nm 1) TyInt 2 (vI (flat_map e2 (mE m))))
  = Some (mkraw V0 (E0 ++ map e2 (mE m)) F0 C0 a0 a1 a2 a3 a4 a5 a6).
Proof.
  unfold gs, ptrs, Geo.geo_step. spec_eval. cbn [pc_attr ck_type ck_ar ck_data]. change (negb (1 =? 1)) with false.
  change (2 =? special_arity 1) with true. cbn iota.
  rewrite omap_aval_int_vI, S1, edges_idx. reflexivity.
Qed.

Lemma step_fptr r zs : gs r (pc_attr 2 (gw geo_imp_facet_ptr) TyInt 1 zs) = Some r.
Proof.
  unfold gs, ptrs, Geo.geo_step. spec_eval. cbn [pc_attr ck_type]. change (negb (1 =? 1)) with false. cbn iota.
  change (existsb (name_is (pc_attr 2 (gw geo_imp_facet_ptr) TyInt 1 zs)) geo_imp_skip) with true. reflexivity.
Qed.

Lemma step_cptr r zs : gs r (pc_attr 4 (gw geo_imp_cell_ptr) TyInt 1 zs) = Some r.
Proof.
  unfold gs, ptrs, Geo.geo_step. spec_eval. cbn [pc_attr ck_type]. change (negb (1 =? 1)) with false. cbn iota.
  change (existsb (name_is (pc_attr 4 (gw geo_imp_cell_ptr) TyInt 1 zs)) geo_imp_skip) with true. reflexivity.
Qed.

Lemma step_faces V0 E0 F0 C0 a0 a1 a2 a3 a4 a5 a6 :
  gs (mkraw V0 E0 F0 C0 a0 a1 a2 a3 a4 a5 a6) (pc_attr 3 (nm 2) TyInt 1 (vI (concat (mF m))))
  = Some (mkraw V0 E0 (F0 ++ mF m) C0 a0 a1 a2 a3 a4 a5 a6).
Proof.
  unfold gs, ptrs, Geo.geo_step. spec_eval. cbn [pc_attr ck_type ck_ar ck_data]. change (negb (1 =? 1)) with false.
  change (1 =? special_arity 2) with true. cbn iota.
  rewrite omap_aval_int_vI, S2, elems_of_ptrs. reflexivity.
Qed.

Lemma step_cells V0 E0 F0 C0 a0 a1 a2 a3 a4 a5 a6 :
  gs (mkraw V0 E0 F0 C0 a0 a1 a2 a3 a4 a5 a6) (pc_attr 5 (nm 4) TyInt 1 (vI (concat (mC m))))
  = Some (mkraw V0 E0 F0 (C0 ++ mC m) a0 a1 a2 a3 a4 a5 a6).
Proof.
  unfold gs, ptrs, Geo.geo_step. spec_eval. cbn [pc_attr ck_type ck_ar ck_data]. change (negb (1 =? 1)) with false.
  change (1 =? special_arity 4) with true. cbn iota.
  rewrite omap_aval_int_vI, S4, elems_of_ptrs. reflexivity.
Qed.

Lemma step_adj V0 E0 F0 C0 a0 a1 a2 a3 a4 a5 :
  gs (mkraw V0 E0 F0 C0 a0 a1 a2 a3 a4 a5 []) (pc_attr 6 (nm 5) TyInt 1 (vI (mAdj m)))
  = Some (mkraw V0 E0 F0 C0 a0 a1 a2 a3 a4 a5 [@adjacency_sattr F Cx geo_imp_opp_cell (mAdj m)]).
Proof.
  unfold gs, ptrs, Geo.geo_step. spec_eval. cbn [pc_attr ck_type ck_ar ck_data]. change (negb (1 =? 1)) with false.
  change (1 =? special_arity 5) with true. cbn iota.
  unfold Geo.import_adjacency, Geo.adjacency_sattr. cbn [pc_attr ck_dty ck_ar ck_data]. unfold vI.
  destruct (import_items _ 1 (map (@VInt F Cx) (mAdj m))) eqn:E; [reflexivity|].
  unfold Geo.import_items in E. cbn in E. discriminate.
Qed.

End MainPass2.

(* ------------------------------------------------------------------ F. the round trip *)
Lemma forallb_len_Forall k (els : list (list Z)) : forallb (len_is k) els = true -> Forall (fun e => zlen e = k) els.
Proof.
  intros H. apply Forall_forall. intros e He. rewrite forallb_forall in H. specialize (H e He). unfold len_is in H. lia.
Qed.

Lemma final_sizes k (els : list (list Z)) :
  let raw := if isnil els || forallb (len_is k) els then (@nil Z, @nil Z) else (map zlen els, ptrs_from 0 els) in
  (if isnil (fst raw) && (zlen els >? 0) then default_sizes k (zlen els) else raw) = (map zlen els, ptrs_from 0 els).
Proof.
  cbv zeta. destruct els as [|e els]; [reflexivity|]. cbn [isnil orb].
  destruct (forallb (len_is k) (e :: els)) eqn:Ereg.
  - cbn [fst isnil andb]. destruct (zlen (e :: els) >? 0) eqn:E; [|unfold zlen in E; cbn in E; lia].
    apply default_sizes_regular. now apply forallb_len_Forall.
  - cbn [fst map isnil andb]. reflexivity.
Qed.

Theorem geo_roundtrip (m : mesh) : geo_ok m -> parse_geo (print_geo m) = Some (vocab_geo m).
Proof.
  intros Hok. unfold Geo.parse_geo, Geo.print_geo.
  rewrite (chunks_concat _ (chunks_shaped m Hok)), (parse_chunks_ok m Hok).
  destruct (size_of_pchunks m) as (S1 & S2 & S3 & S4 & S5). cbv zeta in S1, S2, S3, S4, S5.
  remember (sizes_of (pchunks m)) as sizes eqn:Esz.
  assert (HP : ptr_pass sizes (pchunks m) = Some (fst (facet_ptrs m), snd (facet_ptrs m), fst (cell_ptrs m), snd (cell_ptrs m)))
    by (apply ptr_pass_pchunks; assumption).
  rewrite HP. clear HP. rewrite S2, S4.
  pose proof (final_sizes geo_imp_default_facet (mF m)) as H3. pose proof (final_sizes geo_imp_default_cell (mC m)) as H4.
  cbv zeta in H3, H4. change geo_imp_default_facet with 3 in *. change geo_imp_default_cell with 4 in *.
  fold (facet_ptrs m) in H3. fold (cell_ptrs m) in H4.
  destruct (facet_ptrs m) as [ncf fptr]. destruct (cell_ptrs m) as [ncc cptr]. cbn [fst snd] in *.
  rewrite H3, H4. clear H3 H4.
  change (run sizes (map zlen (mF m), ptrs_from 0 (mF m), map zlen (mC m), ptrs_from 0 (mC m)) (pchunks m) (raw_of Cx [] [] [] []) = Some (vocab_geo m)).
  destruct Hok as (HV & HE & HF & HFC & HC & HCC & HCF & Hopp & _).
  unfold pchunks, raw_of. cbn [app].
  (* head, vertices *)
  rewrite (run_step _ _ _ _ _ _ (step_head _ _ _)).
  rewrite (run_step _ _ _ _ _ _ (step_atts _ _ _ _ _)).
  rewrite (run_step _ _ _ _ _ _ (step_point sizes m _ _ _ _ _ _ _ _ _ _ _ _)).
  rewrite run_app, (run_users _ _ 0 (aV m)) by (try lia; try assumption; intros a _ []).
  cbn [upd_attrs app].
  (* edges *)
  rewrite run_app.
  assert (HEb : forall V1 a0, run sizes (map zlen (mF m), ptrs_from 0 (mF m), map zlen (mC m), ptrs_from 0 (mC m))
      (if isnil (mE m) then [] else pc_atts 1 (zlen (mE m)) :: pc_attr 1 (nm 1) TyInt 2 (vI (flat_map e2 (mE m))) :: user_pcs 1 (aE m))
      (mkraw V1 [] [] [] a0 [] [] [] [] [] [])
      = Some (mkraw V1 (map e2 (mE m)) [] [] a0 (if isnil (mE m) then [] else map sparse_of (aE m)) [] [] [] [] [])).
  { intros V1 a0. destruct (isnil (mE m)) eqn:EE.
    - rewrite (isnil_true _ EE). reflexivity.
    - rewrite (run_step _ _ _ _ _ _ (step_atts _ _ _ _ _)).
      rewrite (run_step _ _ _ _ _ _ (step_edges sizes m S1 _ _ _ _ _ _ _ _ _ _ _)).
      rewrite (run_users _ _ 1 (aE m)) by (try lia; try assumption; intros a _ []). reflexivity. }
  rewrite HEb. clear HEb.
  (* faces *)
  rewrite run_app.
  assert (HFb : forall V1 E1 a0 a1, run sizes (map zlen (mF m), ptrs_from 0 (mF m), map zlen (mC m), ptrs_from 0 (mC m))
      (if isnil (mF m) then [] else
         pc_atts 2 (zlen (mF m))
         :: (if forallb (len_is 3) (mF m) then [] else [pc_attr 2 (gw geo_imp_facet_ptr) TyInt 1 (vI (ptrs_from 0 (mF m)))])
            ++ user_pcs 2 (aF m) ++ pc_atts 3 (sum_len (mF m)) :: pc_attr 3 (nm 2) TyInt 1 (vI (concat (mF m))) :: user_pcs 3 (aFC m))
      (mkraw V1 E1 [] [] a0 a1 [] [] [] [] [])
      = Some (mkraw V1 E1 (mF m) [] a0 a1 (if isnil (mF m) then [] else map sparse_of (aF m))
                    (if isnil (mF m) then [] else map sparse_of (aFC m)) [] [] [])).
  { intros V1 E1 a0 a1. destruct (isnil (mF m)) eqn:EF.
    - rewrite (isnil_true _ EF). reflexivity.
    - rewrite (run_step _ _ _ _ _ _ (step_atts _ _ _ _ _)). rewrite run_app.
      assert (Hp : forall r, run sizes (map zlen (mF m), ptrs_from 0 (mF m), map zlen (mC m), ptrs_from 0 (mC m))
                (if forallb (len_is 3) (mF m) then [] else [pc_attr 2 (gw geo_imp_facet_ptr) TyInt 1 (vI (ptrs_from 0 (mF m)))]) r = Some r).
      { intros r. destruct (forallb (len_is 3) (mF m)); [reflexivity|].
        rewrite (run_step _ _ _ _ _ _ (step_fptr sizes m _ _)). reflexivity. }
      rewrite Hp. rewrite run_app, (run_users _ _ 2 (aF m)) by (try lia; try assumption; intros a _ []).
      cbn [upd_attrs app].
      rewrite (run_step _ _ _ _ _ _ (step_atts _ _ _ _ _)).
      rewrite (run_step _ _ _ _ _ _ (step_faces sizes m S2 _ _ _ _ _ _ _ _ _ _ _)).
      rewrite (run_users _ _ 3 (aFC m)) by (try lia; try assumption; intros a _ []). reflexivity. }
  rewrite HFb. clear HFb.
  (* cells *)
  assert (HCb : forall V1 E1 F1 a0 a1 a2 a3, run sizes (map zlen (mF m), ptrs_from 0 (mF m), map zlen (mC m), ptrs_from 0 (mC m))
      (if isnil (mC m) then [] else
         pc_atts 4 (zlen (mC m))
         :: (if forallb (len_is 4) (mC m) then [] else [pc_attr 4 (gw geo_imp_cell_ptr) TyInt 1 (vI (ptrs_from 0 (mC m)))])
         ++ user_pcs 4 (aC m)
         ++ pc_atts 5 (sum_len (mC m)) :: pc_attr 5 (nm 4) TyInt 1 (vI (concat (mC m))) :: user_pcs 5 (aCC m)
         ++ pc_atts 6 (n_cell_facets (mC m)) :: (if has_adjacency m then [pc_attr 6 (nm 5) TyInt 1 (vI (mAdj m))] else []) ++ user_pcs 6 (aCF m))
      (mkraw V1 E1 F1 [] a0 a1 a2 a3 [] [] [])
      = Some (mkraw V1 E1 F1 (mC m) a0 a1 a2 a3 (if isnil (mC m) then [] else map sparse_of (aC m))
                    (if isnil (mC m) then [] else map sparse_of (aCC m))
                    (if isnil (mC m) then [] else
                       (if has_adjacency m then [@adjacency_sattr F Cx geo_imp_opp_cell (mAdj m)] else []) ++ map sparse_of (aCF m)))).
  { intros V1 E1 F1 a0 a1 a2 a3. destruct (isnil (mC m)) eqn:EC.
    - rewrite (isnil_true _ EC). reflexivity.
    - rewrite (run_step _ _ _ _ _ _ (step_atts _ _ _ _ _)). rewrite run_app.
      assert (Hp : forall r, run sizes (map zlen (mF m), ptrs_from 0 (mF m), map zlen (mC m), ptrs_from 0 (mC m))
                (if forallb (len_is 4) (mC m) then [] else [pc_attr 4 (gw geo_imp_cell_ptr) TyInt 1 (vI (ptrs_from 0 (mC m)))]) r = Some r).
      { intros r. destruct (forallb (len_is 4) (mC m)); [reflexivity|].
        rewrite (run_step _ _ _ _ _ _ (step_cptr sizes m _ _)). reflexivity. }
      rewrite Hp.
      rewrite run_app, (run_users _ _ 4 (aC m)) by (try lia; try assumption; intros a _ []).
      cbn [upd_attrs app].
      rewrite (run_step _ _ _ _ _ _ (step_atts _ _ _ _ _)).
      rewrite (run_step _ _ _ _ _ _ (step_cells sizes m S4 _ _ _ _ _ _ _ _ _ _ _)).
      rewrite run_app, (run_users _ _ 5 (aCC m)) by (try lia; try assumption; intros a _ []).
      cbn [upd_attrs app].
      rewrite (run_step _ _ _ _ _ _ (step_atts _ _ _ _ _)). rewrite run_app.
      destruct (has_adjacency m).
      + rewrite (run_step _ _ _ _ _ _ (step_adj sizes m _ _ _ _ _ _ _ _ _ _)). unfold run at 1. cbn [fold_left].
        rewrite (run_users _ _ 6 (aCF m)); try lia; try assumption.
        * reflexivity.
        * intros a Ha. cbn [get_attrs rACF map In adjacency_sattr s_name]. intros [E|[]]. apply Hopp. rewrite E. now apply in_map.
      + unfold run at 1. cbn [fold_left].
        rewrite (run_users _ _ 6 (aCF m)) by (try lia; try assumption; intros a _ []). reflexivity. }
  rewrite HCb. reflexivity.
Qed.


(* ------------------------------------------------------------------ G. reading the imported attribute densely *)
Notation dense_of := (@dense_of F Cx f_of_int cx_of_f).
Notation ty_default := (@ty_default F Cx f_of_int cx_of_f).
Notation take_items := (@take_items F Cx).

Definition lookup_item (items : list (Z * list aval)) (dflt : list aval) (i : Z) : list aval :=
  match find (fun it => fst it =? i) items with Some it => snd it | None => dflt end.

Lemma flat_map_map {A B C} (f : B -> list C) (g : A -> B) l : flat_map f (map g l) = flat_map (fun x => f (g x)) l.
Proof. induction l as [|a l IH]; [reflexivity|]. cbn. now rewrite IH. Qed.
Lemma flat_map_ext_in {A B} (f g : A -> list B) l : (forall x, In x l -> f x = g x) -> flat_map f l = flat_map g l.
Proof.
  induction l as [|a l IH]; intros H; [reflexivity|]. cbn. rewrite (H a (or_introl eq_refl)), IH; [reflexivity|].
  intros x Hx. apply H. now right.
Qed.

Lemma dense_take (ar : nat) dflt : (0 < ar)%nat -> forall (k : nat) i0 data, length data = (k * ar)%nat ->
  flat_map (fun j => lookup_item (take_items k ar i0 data) dflt (i0 + j)) (zrange (Z.of_nat k)) = data.
Proof.
  intros Har. induction k as [|k IH]; intros i0 data HL.
  - destruct data; [reflexivity|discriminate].
  - rewrite zrange_succ. cbn [flat_map Geo.take_items]. unfold lookup_item at 1. cbn [find fst snd].
    replace (i0 =? i0 + 0) with true by (symmetry; apply Z.eqb_eq; lia).
    rewrite flat_map_map.
    rewrite (flat_map_ext_in _ (fun j => lookup_item (take_items k ar (i0 + 1) (skipn ar data)) dflt (i0 + 1 + j))).
    + rewrite IH by (rewrite skipn_length; cbn in HL; lia). apply firstn_skipn.
    + intros j Hj. apply In_zrange in Hj. unfold lookup_item. cbn [find fst].
      replace (i0 =? i0 + (j + 1)) with false by (symmetry; apply Z.eqb_neq; lia).
      replace (i0 + (j + 1)) with (i0 + 1 + j) by lia. reflexivity.
Qed.

(* arity 1: the values equal to the default are not stored and read back as the default *)
Lemma dense_take_filter (keep : aval -> bool) d : forall (vals : list aval) i0,
  Forall (fun v => keep v = false -> v = d) vals ->
  flat_map (fun j => lookup_item (filter (fun it => match snd it with [v] => keep v | _ => false end)
                                         (take_items (length vals) 1 i0 vals)) [d] (i0 + j))
           (zrange (zlen vals)) = vals.
Proof.
  induction vals as [|v vals IH]; intros i0 H; [reflexivity|].
  inversion H as [|? ? Hv Hvals]; subst.
  unfold zlen. cbn [length]. rewrite zrange_succ. cbn [flat_map Geo.take_items firstn skipn filter snd].
  rewrite flat_map_map.
  assert (Hrest : forall items, flat_map (fun j => lookup_item items [d] (i0 + (j + 1))) (zrange (Z.of_nat (length vals)))
                              = flat_map (fun j => lookup_item items [d] (i0 + 1 + j)) (zrange (zlen vals))).
  { intros items. apply flat_map_ext_in. intros j _. f_equal. lia. }
  destruct (keep v) eqn:Ek.
  - unfold lookup_item at 1. cbn [find fst snd]. replace (i0 =? i0 + 0) with true by (symmetry; apply Z.eqb_eq; lia).
    cbn [snd app]. f_equal.
    rewrite (flat_map_ext_in _ (fun j => lookup_item (filter (fun it => match snd it with [v] => keep v | _ => false end)
                                         (take_items (length vals) 1 (i0 + 1) vals)) [d] (i0 + 1 + j))).
    + apply IH. assumption.
    + intros j Hj. apply In_zrange in Hj. unfold lookup_item. cbn [find fst].
      replace (i0 =? i0 + (j + 1)) with false by (symmetry; apply Z.eqb_neq; lia).
      replace (i0 + (j + 1)) with (i0 + 1 + j) by lia. reflexivity.
  - assert (Hnone : lookup_item (filter (fun it => match snd it with [v] => keep v | _ => false end)
                                         (take_items (length vals) 1 (i0 + 1) vals)) [d] (i0 + 0) = [d]).
    { unfold lookup_item. destruct (find _ _) as [it|] eqn:Ef; [|reflexivity].
      apply find_some in Ef as [Hin Heq]. apply filter_In in Hin as [Hin _]. exfalso.
      assert (G : forall k i1 data it0, In it0 (take_items k 1 i1 data) -> i1 <= fst it0).
      { induction k as [|k IHk]; intros i1 data it0 Hi; [contradiction|]. cbn in Hi. destruct Hi as [<-|Hi]; [cbn; lia|].
        apply IHk in Hi. lia. }
      apply G in Hin. apply Z.eqb_eq in Heq. lia. }
    rewrite Hnone, (Hv eq_refl). cbn [app]. f_equal. rewrite Hrest. apply IH. assumption.
Qed.

Theorem geo_attr_dense (a : attr) (n : nat) :
  1 <= a_ar a -> length (a_vals a) = (n * Z.to_nat (a_ar a))%nat ->
  (a_ar a = 1 -> Forall (fun v => not_default v = false -> v = ty_default (a_ty a)) (a_vals a)) ->
  dense_of (Z.of_nat n) (sparse_of a) = a_vals a.
Proof.
  intros Har HL Hdef. unfold Geo.dense_of, Geo.sparse_of, Geo.import_items. cbn [s_items s_ty s_ar].
  destruct (a_ar a =? 0) eqn:E0; [lia|]. destruct (a_ar a <? 0) eqn:E1; [lia|].
  assert (Hk : Z.to_nat (zlen (a_vals a) / a_ar a) = n).
  { unfold zlen. rewrite HL. rewrite Nat2Z.inj_mul, Z2Nat.id by lia. rewrite Z.div_mul by lia. lia. }
  rewrite Hk.
  destruct (a_ar a =? 1) eqn:E2.
  - apply Z.eqb_eq in E2. specialize (Hdef E2). rewrite E2 in *. change (Z.to_nat 1) with 1%nat in *.
    assert (Hn : n = length (a_vals a)) by lia. clear Hk. subst n.
    change (map (fun _ : Z => ty_default (a_ty a)) (zrange 1)) with [ty_default (a_ty a)].
    pose proof (dense_take_filter not_default (ty_default (a_ty a)) (a_vals a) 0 Hdef) as H.
    unfold lookup_item in H. cbn [Z.add] in H. fold (zlen (a_vals a)). exact H.
  - pose proof (dense_take (Z.to_nat (a_ar a)) (map (fun _ : Z => ty_default (a_ty a)) (zrange (a_ar a))) ltac:(lia) n 0 (a_vals a) HL) as H.
    unfold lookup_item in H. cbn [Z.add] in H. exact H.
Qed.

End ProofsGeo.
