(* C04 - executable model of mouette/mesh/io/stl.py : Binary_STL_Writer (export) and a reader of the binary STL
   layout written from the format description (80-byte header, uint32 triangle count, then per triangle
   12 binary32 values and a uint16).  import_stl delegates to the third-party stl_reader and is not modelled:
   the driver compares what it returns, as a triangle soup, with what this reader gives.  No proofs here. *)
From Coq Require Import ZArith Bool String Ascii.
From Coq Require Import List.
Import ListNotations.
Require Import MV.Lib.Base MV.C04.Gen MV.C04.Model.
Open Scope list_scope.
Open Scope Z_scope.
Set Implicit Arguments.
Set Maximal Implicit Insertion.

Section Stl.
Variables F Cx F32 : Type.
Variable to32 : F -> option F32.     (* struct.pack('f', x): rounding to binary32; None = OverflowError *)
Variable zero32 : F32.               (* 0. packed *)

Inductive sfield := SHeader (s : string) | SU32 (n : Z) | SF32 (x : F32) | SU16 (n : Z).
Notation mesh := (mesh F Cx).

Definition coord (p : F * F * F) (i : Z) : option F := vtx_idx p i.

(* _write_triangle(p1, p2, p3) : the 12 floats in the order of the `data` list, then the attribute word *)
Definition tri_fields (ps : list (F * F * F)) : option (list sfield) :=
  match omap (fun e : Z * Z =>
                let '(k, i) := e in
                if k <? 0 then Some (SF32 zero32)
                else match nthz ps k with
                     | Some p => match coord p i with Some x => option_map SF32 (to32 x) | None => None end
                     | None => None
                     end) stl_tri_layout with
  | Some fs => Some (fs ++ [SU16 stl_tri_attr])
  | None => None
  end.

(* write(): one triangle per 3-face, two per 4-face, ValueError otherwise; pts = [mesh.vertices[v] for v in face] *)
Definition face_fields (m : mesh) (f : list Z) : option (list (list sfield)) :=
  match omap (fun v => py_nth (mV m) v) f with
  | None => None
  | Some pts =>
      match find (fun e => fst e =? zlen f) stl_face_split with
      | Some (_, tris) => omap (fun tr => match omap (fun k => nthz pts k) tr with Some ps => tri_fields ps | None => None end) tris
      | None => None
      end
  end.

Definition print_stl (m : mesh) : option (list sfield) :=
  match omap (face_fields m) (mF m) with
  | Some tss => let ts := concat tss in Some (SHeader stl_header_text :: SU32 (zlen ts) :: concat ts)
  | None => None
  end.

(* ---- reader of the binary layout (independent of mouette): header, count, count * (normal, 3 vertices, attribute) *)
Definition f32_of (x : sfield) : option F32 := match x with SF32 y => Some y | _ => None end.
Fixpoint read_tris (n : nat) (l : list sfield) : option (list (list (list F32))) :=
  match n with
  | O => match l with [] => Some [] | _ => None end
  | S n' =>
      let rec := firstn 13 l in
      if (length rec <? 13)%nat then None else
      match omap f32_of (firstn 12 rec), nth_error rec 12 with
      | Some fs, Some (SU16 _) =>
          match read_tris n' (skipn 13 l) with
          | Some r => Some ([firstn 3 (skipn 3 fs); firstn 3 (skipn 6 fs); firstn 3 (skipn 9 fs)] :: r)
          | None => None
          end
      | _, _ => None
      end
  end.
Definition ref_parse_stl (l : list sfield) : option (list (list (list F32))) :=
  match l with
  | SHeader _ :: SU32 n :: rest => if n <? 0 then None else read_tris (Z.to_nat n) rest
  | _ => None
  end.

(* the triangle soup a triangle mesh denotes, in binary32 *)
Definition point32 (p : F * F * F) : option (list F32) := omap to32 (v3 p).
Definition soup32 (m : mesh) : option (list (list (list F32))) :=
  omap (fun f => omap (fun v => match py_nth (mV m) v with Some p => point32 p | None => None end) f) (mF m).

End Stl.
Arguments SHeader {F32} s.
Arguments SU32 {F32} n.
Arguments SF32 {F32} x.
Arguments SU16 {F32} n.
