(* C04 - binary STL: a triangle mesh written by Binary_STL_Writer reads back, with a reader of the binary layout,
   as the triangle soup of the mesh in binary32 (partial: triangle meshes only; the importer itself is the
   third-party stl_reader and is compared by the driver, not modelled). *)
From Coq Require Import ZArith Bool String Ascii Lia ZifyBool.
From Coq Require Import List.
Import ListNotations.
Require Import MV.Lib.Base MV.C04.Gen MV.C04.Model MV.C04.Stl MV.C04.Proofs_Text.
Open Scope list_scope.
Open Scope Z_scope.

Section ProofsStl.
Variables F Cx F32 : Type.
Variable to32 : F -> option F32.
Variable zero32 : F32.
Notation mesh := (mesh F Cx).
Notation sfield := (sfield F32).
Notation print_stl := (@print_stl F Cx F32 to32 zero32).
Notation face_fields := (@face_fields F Cx F32 to32 zero32).
Notation ref_parse_stl := (@ref_parse_stl F32).
Notation read_tris := (@read_tris F32).
Notation soup32 := (@soup32 F Cx F32 to32).
Notation point32 := (@point32 F F32 to32).

Definition tri_record (la lb lc : list F32) : list sfield :=
  [SF32 zero32; SF32 zero32; SF32 zero32] ++ map (@SF32 F32) (la ++ lb ++ lc) ++ [SU16 stl_tri_attr].

Lemma point32_inv p l : point32 p = Some l ->
  exists x y z, l = [x; y; z] /\ to32 (fst (fst p)) = Some x /\ to32 (snd (fst p)) = Some y /\ to32 (snd p) = Some z.
Proof.
  destruct p as [[a b] c]. unfold Stl.point32. cbn.
  destruct (to32 a) as [x|]; [|discriminate]. destruct (to32 b) as [y|]; [|discriminate]. destruct (to32 c) as [z|]; [|discriminate].
  intros [= <-]. now exists x, y, z.
Qed.

Lemma face_fields_tri (m : mesh) a b c pa pb pc la lb lc :
  py_nth (mV m) a = Some pa -> py_nth (mV m) b = Some pb -> py_nth (mV m) c = Some pc ->
  point32 pa = Some la -> point32 pb = Some lb -> point32 pc = Some lc ->
  face_fields m [a; b; c] = Some [tri_record la lb lc].
Proof.
  intros Ha Hb Hc Hla Hlb Hlc. unfold Stl.face_fields. cbn [omap]. rewrite Ha, Hb, Hc.
  apply point32_inv in Hla as (x1 & y1 & z1 & -> & H1 & H2 & H3).
  apply point32_inv in Hlb as (x2 & y2 & z2 & -> & H4 & H5 & H6).
  apply point32_inv in Hlc as (x3 & y3 & z3 & -> & H7 & H8 & H9).
  destruct pa as [[ax ay] az], pb as [[bx by_] bz], pc as [[cx cy] cz]. cbn [fst snd] in *.
  vm_compute. rewrite H1, H2, H3, H4, H5, H6, H7, H8, H9. reflexivity.
Qed.

Lemma read_tris_record n la lb lc rest :
  length la = 3%nat -> length lb = 3%nat -> length lc = 3%nat ->
  read_tris (S n) (tri_record la lb lc ++ rest) =
  match read_tris n rest with Some r => Some ([la; lb; lc] :: r) | None => None end.
Proof.
  intros Ha Hb Hc.
  destruct la as [|a1 [|a2 [|a3 [|]]]]; try discriminate. destruct lb as [|b1 [|b2 [|b3 [|]]]]; try discriminate.
  destruct lc as [|c1 [|c2 [|c3 [|]]]]; try discriminate. reflexivity.
Qed.

Theorem stl_roundtrip (m : mesh) S :
  Forall (fun f => zlen f = 3) (mF m) -> soup32 m = Some S ->
  exists L, print_stl m = Some L /\ ref_parse_stl L = Some S.
Proof.
  unfold Stl.soup32, Stl.print_stl. revert S.
  induction (mF m) as [|f Fs IH]; intros S Htri HS.
  - cbn in HS. injection HS as <-. eexists. split; reflexivity.
  - inversion Htri as [|? ? Hf HFs]; subst. cbn [omap] in HS.
    destruct (omap _ f) as [tri|] eqn:Ef; [|discriminate].
    destruct (omap _ Fs) as [S'|] eqn:EFs; [|discriminate]. injection HS as <-.
    destruct (IH S' HFs eq_refl) as (L' & HL' & HP').
    destruct (omap (face_fields m) Fs) as [tss|] eqn:Etss; [|discriminate]. injection HL' as <-.
    destruct f as [|a [|b [|c [|]]]]; try (unfold zlen in Hf; cbn in Hf; lia).
    cbn [omap] in Ef.
    destruct (py_nth (mV m) a) as [pa|] eqn:Ea; [|discriminate]. destruct (point32 pa) as [la|] eqn:Ela; [|discriminate].
    destruct (py_nth (mV m) b) as [pb|] eqn:Eb; [|discriminate]. destruct (point32 pb) as [lb|] eqn:Elb; [|discriminate].
    destruct (py_nth (mV m) c) as [pc|] eqn:Ec; [|discriminate]. destruct (point32 pc) as [lc|] eqn:Elc; [|discriminate].
    injection Ef as <-.
    cbn [omap]. rewrite (face_fields_tri m a b c pa pb pc la lb lc) by assumption. rewrite Etss.
    eexists. split; [reflexivity|].
    cbn [concat app]. cbn [Stl.ref_parse_stl] in *.
    assert (Hn : zlen (tri_record la lb lc :: concat tss) = zlen (concat tss) + 1) by (unfold zlen; cbn [length]; rewrite Nat2Z.inj_succ; reflexivity).
    rewrite Hn. destruct (zlen (concat tss) + 1 <? 0) eqn:E1; [unfold zlen in E1; lia|].
    destruct (zlen (concat tss) <? 0) eqn:E2; [unfold zlen in E2; lia|].
    replace (Z.to_nat (zlen (concat tss) + 1)) with (S (Z.to_nat (zlen (concat tss)))) by (unfold zlen; lia).
    destruct (point32_inv _ _ Ela) as (? & ? & ? & -> & _). destruct (point32_inv _ _ Elb) as (? & ? & ? & -> & _).
    destruct (point32_inv _ _ Elc) as (? & ? & ? & -> & _).
    rewrite read_tris_record by reflexivity. rewrite HP'. reflexivity.
Qed.

(* a quad is not in STL's vocabulary: it is written as two triangles (documented, not claimed lossless) *)
End ProofsStl.
