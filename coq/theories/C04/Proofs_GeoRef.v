(* C04 - geogram_ascii interoperability, mouette's file read by an independent count-driven reader (GeoRef.v): the reader
   cuts the file exactly into the attribute sets and attributes mouette wrote, every attribute with all its values -
   i.e. the sizes mouette declares announce exactly the number of values it writes. *)
From Coq Require Import ZArith Bool String Ascii Lia ZifyBool.
From Coq Require Import List.
Import ListNotations.
Require Import MV.Lib.Base MV.C04.Gen MV.C04.Model MV.C04.Geo MV.C04.GeoRef MV.C04.Proofs_Text.
Open Scope list_scope.
Open Scope Z_scope.

Section ProofsGeoRef.
Variables F Ftxt Cx Ctxt : Type.
Variable pf : F -> Ftxt.
Variable pc : Cx -> Ctxt.
Notation tok := (tok Ftxt Ctxt).
Notation gitem := (gitem Ftxt Ctxt).
Notation mesh := (mesh F Cx).
Notation attr := (attr F Cx).
Notation TI := (@TInt Ftxt Ctxt).
Notation TW := (@TWord Ftxt Ctxt).
Notation loop := (@ref_geo_loop Ftxt Ctxt).
Notation geo_chunks := (@geo_chunks F Ftxt Cx Ctxt pf pc).
Notation print_geo := (@print_geo F Ftxt Cx Ctxt pf pc).
Notation geo_user_attr := (@geo_user_attr F Ftxt Cx Ctxt pf pc).
Notation print_aval := (@print_aval F Ftxt Cx Ctxt pf pc).
Notation geo_atts := (@geo_atts Ftxt Ctxt).
Notation geo_attr_head := (@geo_attr_head Ftxt Ctxt).
Notation fl := (@fl F Ftxt Ctxt pf).
Notation ti := (@ti Ftxt Ctxt).

(* the item a chunk (as a list of lines) denotes *)
Definition item_of (c : list tok) : option gitem :=
  match c with
  | [TWord _; TWord s; TInt n] => Some (GAtts _ _ s n)
  | TWord _ :: TWord s :: TWord nm :: TWord ty :: TInt es :: TInt dim :: vals => Some (GAttr s nm ty es dim vals)
  | _ => None
  end.

(* a chunk list whose declared sizes announce the values that follow *)
Fixpoint consistent (sizes : list (string * Z)) (cs : list (list tok)) : Prop :=
  match cs with
  | [] => True
  | c :: r =>
      match c with
      | [TWord k; TWord s; TInt n] => k = "[ATTS]"%string /\ 0 <= n /\ consistent ((s, n) :: sizes) r
      | TWord k :: TWord s :: TWord nm :: TWord ty :: TInt es :: TInt dim :: vals =>
          k = "[ATTR]"%string /\ 0 <= dim
          /\ (exists n, lookup_size s sizes = Some n /\ length vals = Z.to_nat (n * dim)) /\ consistent sizes r
      | _ => False
      end
  end.

Fixpoint items_of (cs : list (list tok)) : list gitem :=
  match cs with [] => [] | c :: r => match item_of c with Some i => i :: items_of r | None => items_of r end end.

Lemma loop_consistent (cs : list (list tok)) : forall sizes extra, consistent sizes cs ->
  loop (S (length (concat cs)) + extra) (concat cs) sizes = Some (items_of cs).
Proof.
  induction cs as [|c cs IH]; intros sizes extra H; [reflexivity|].
  cbn [consistent] in H.
  destruct c as [|[?|?|?|k] c]; try contradiction.
  destruct c as [|[?|?|?|s] c]; try contradiction.
  destruct c as [|[n|?|?|nm] c]; try contradiction.
  - (* ATTS *)
    destruct c as [|? ?]; [|contradiction]. destruct H as (-> & Hn & H).
    cbn [concat app length items_of item_of]. cbn [Nat.add GeoRef.ref_geo_loop].
    change (String.eqb "[ATTS]" "[HEAD]") with false. change (String.eqb "[ATTS]" "[ATTS]") with true. cbn iota.
    destruct (n <? 0) eqn:E; [lia|].
    match goal with |- context [loop ?f (concat cs) _] => replace f with (S (length (concat cs)) + (2 + extra))%nat by lia end.
    rewrite (IH _ _ H). reflexivity.
  - (* ATTR *)
    destruct c as [|[?|?|?|ty] c]; try contradiction.
    destruct c as [|[es|?|?|?] c]; try contradiction.
    destruct c as [|[dim|?|?|?] vals]; try contradiction.
    destruct H as (-> & Hd & (n & Hl & Hlen) & H).
    cbn [concat app length items_of item_of]. cbn [Nat.add GeoRef.ref_geo_loop].
    change (String.eqb "[ATTR]" "[HEAD]") with false. change (String.eqb "[ATTR]" "[ATTS]") with false.
    change (String.eqb "[ATTR]" "[ATTR]") with true. cbn iota.
    rewrite Hl. destruct (dim <? 0) eqn:E; [lia|]. rewrite <- Hlen.
    rewrite app_length. destruct (Nat.ltb_spec (length vals + length (concat cs)) (length vals)) as [?|_]; [lia|].
    rewrite firstn_app_all, skipn_app_all.
    match goal with |- context [loop ?f (concat cs) _] => replace f with (S (length (concat cs)) + (4 + length vals + extra))%nat by lia end.
    rewrite (IH _ _ H). reflexivity.
Qed.

(* a block of attributes of the set declared last does not change the sizes *)
Definition attr_chunk (s nm ty : string) (es dim : Z) (vals : list tok) : list tok :=
  TW "[ATTR]" :: TW s :: TW nm :: TW ty :: TI es :: TI dim :: vals.

Lemma consistent_attrs s n sizes (l : list (list tok)) rest :
  Forall (fun c => exists nm ty es dim vals, c = attr_chunk s nm ty es dim vals /\ 0 <= dim /\ length vals = Z.to_nat (n * dim)) l ->
  consistent ((s, n) :: sizes) rest -> consistent ((s, n) :: sizes) (l ++ rest).
Proof.
  induction 1 as [|c l (nm & ty & es & dim & vals & -> & Hd & Hl) _ IH]; intros Hr; [exact Hr|].
  cbn [app consistent attr_chunk]. repeat split; try assumption.
  - exists n. split; [|exact Hl]. unfold lookup_size. cbn [find fst]. now rewrite String.eqb_refl.
  - now apply IH.
Qed.

Lemma consistent_set s n sizes (l : list (list tok)) rest : 0 <= n ->
  Forall (fun c => exists nm ty es dim vals, c = attr_chunk s nm ty es dim vals /\ 0 <= dim /\ length vals = Z.to_nat (n * dim)) l ->
  consistent ((s, n) :: sizes) rest -> consistent sizes ([TW "[ATTS]"; TW s; TI n] :: l ++ rest).
Proof. intros Hn Hl Hr. cbn [consistent]. repeat split; try assumption. now apply consistent_attrs. Qed.

(* ------------------------------------------------------------------ the chunks of a mesh *)
Definition attr_sized (n : Z) (a : attr) : Prop := 0 <= a_ar a /\ length (a_vals a) = Z.to_nat (n * a_ar a).
Definition geo_sizes_ok (m : mesh) : Prop :=
  Forall (attr_sized (zlen (mV m))) (aV m) /\ Forall (attr_sized (zlen (mE m))) (aE m)
  /\ Forall (attr_sized (zlen (mF m))) (aF m) /\ Forall (attr_sized (sum_len (mF m))) (aFC m)
  /\ Forall (attr_sized (zlen (mC m))) (aC m) /\ Forall (attr_sized (sum_len (mC m))) (aCC m)
  /\ Forall (attr_sized (n_cell_facets (mC m))) (aCF m)
  /\ (has_adjacency m = true -> length (mAdj m) = Z.to_nat (n_cell_facets (mC m))).

Lemma users_sized k n (l : list attr) : Forall (attr_sized n) l ->
  Forall (fun c => exists nm ty es dim vals, c = attr_chunk (qs (user_cont k)) nm ty es dim vals /\ 0 <= dim /\ length vals = Z.to_nat (n * dim))
         (map (geo_user_attr (user_cont k)) l).
Proof.
  intros H. apply Forall_forall. intros c Hc. apply in_map_iff in Hc as [a [<- Ha]].
  rewrite Forall_forall in H. destruct (H a Ha) as [Hd Hl].
  exists (qs (a_name a)), (qs (geo_type_string (a_ty a))), (geo_byte_size (a_ty a)), (a_ar a), (map print_aval (a_vals a)).
  split; [reflexivity|]. split; [assumption|]. now rewrite map_length.
Qed.

Lemma len_flat_v3 (V : list (F * F * F)) : length (flat_map (fun v => map fl (v3 v)) V) = Z.to_nat (zlen V * 3).
Proof. induction V as [|[[x y] z] V IH]; [reflexivity|]. cbn [flat_map v3 map app length]. rewrite IH. unfold zlen. cbn [length]. lia. Qed.
Lemma len_flat_e2 (E : list (Z * Z)) : length (flat_map (fun e => [ti (fst e); ti (snd e)]) E) = Z.to_nat (zlen E * 2).
Proof. induction E as [|e E IH]; [reflexivity|]. cbn [flat_map app length]. rewrite IH. unfold zlen. cbn [length]. lia. Qed.
Lemma len_ptrs p (els : list (list Z)) : length (map ti (ptrs_from p els)) = Z.to_nat (zlen els * 1).
Proof. rewrite map_length. revert p. induction els as [|e els IH]; intros p; [reflexivity|]. cbn [ptrs_from length]. rewrite IH. unfold zlen. cbn [length]. lia. Qed.
Lemma len_concat (els : list (list Z)) : length (map ti (concat els)) = Z.to_nat (sum_len els * 1).
Proof. rewrite map_length. unfold sum_len, zlen. lia. Qed.
Lemma n_cell_facets_nonneg (cells : list (list Z)) : 0 <= n_cell_facets cells.
Proof. induction cells as [|c cells IH]; [reflexivity|]. cbn. unfold geo_exp_cell_facets. destruct (zlen c =? 4); lia. Qed.

Ltac one_attr vals := constructor; [do 5 eexists; split; [reflexivity|]; split; [lia|]; vals | ].

Theorem geo_ref_reads (m : mesh) : geo_sizes_ok m ->
  ref_read_geo (print_geo m) = Some (items_of (tl (geo_chunks m))).
Proof.
  intros (HV & HE & HF & HFC & HC & HCC & HCF & Hadj).
  unfold GeoRef.ref_read_geo, Geo.print_geo, Geo.geo_chunks.
  cbn [app concat tl]. cbn [map geo_exp_head Geo.gw app length].
  cbn [GeoRef.ref_geo_loop]. change (String.eqb "[HEAD]" "[HEAD]") with true. cbn iota.
  match goal with |- loop ?f (concat ?cs) [] = _ => replace f with (S (length (concat cs)) + 2)%nat by (cbn [length]; lia) end.
  apply loop_consistent.
  (* vertices *)
  cbn [app]. apply (consistent_set (nth 1 geo_exp_atts_V ""%string) (zlen (mV m)) [] (_ :: map (geo_user_attr (user_cont 0)) (aV m)));
    [unfold zlen; lia | | ].
  { one_attr ltac:(apply len_flat_v3). apply (users_sized 0). exact HV. }
  (* edges *)
  assert (HEb : forall sizes rest, consistent sizes rest ->
     consistent sizes ((if isnil (mE m) then [] else
        [geo_atts geo_exp_atts_E (zlen (mE m)); geo_attr_head geo_exp_attr_edge_vertex ++ flat_map (fun e => [ti (fst e); ti (snd e)]) (mE m)]
        ++ map (geo_user_attr (user_cont 1)) (aE m)) ++ rest)).
  { intros sizes rest Hr. destruct (isnil (mE m)); [exact Hr|]. cbn [app]. rewrite <- app_assoc.
    admit. }
Abort.
End ProofsGeoRef.
