(* C04 - geogram_ascii interoperability, mouette's file read by an independent count-driven reader (GeoRef.v): the reader
   cuts the file exactly into the attribute sets and attributes mouette wrote, every attribute with all its values -
   i.e. the sizes mouette declares announce exactly the number of values it writes. *)
From Coq Require Import ZArith Bool String Ascii Lia ZifyBool.
From Coq Require Import List.
Import ListNotations.
Require Import MV.Lib.Base MV.C04.Gen MV.C04.Model MV.C04.Geo MV.C04.GeoRef MV.C04.Proofs_Text.
Open Scope list_scope.
Open Scope Z_scope.

Section ProofsGeoRef.
Variables F Ftxt Cx Ctxt : Type.
Variable pf : F -> Ftxt.
Variable pc : Cx -> Ctxt.
Variables enc_s enc_n : string -> string.
Notation tok := (tok Ftxt Ctxt).
Notation gitem := (gitem Ftxt Ctxt).
Notation mesh := (mesh F Cx).
Notation attr := (attr F Cx).
Notation TI := (@TInt Ftxt Ctxt).
Notation TW := (@TWord Ftxt Ctxt).
Notation loop := (@ref_geo_loop Ftxt Ctxt).
Notation geo_chunks := (@geo_chunks F Ftxt Cx Ctxt pf pc enc_s enc_n).
Notation print_geo := (@print_geo F Ftxt Cx Ctxt pf pc enc_s enc_n).
Notation geo_user_attr := (@geo_user_attr F Ftxt Cx Ctxt pf pc enc_s enc_n).
Notation print_aval := (@print_aval F Ftxt Cx Ctxt pf pc enc_s).
Notation geo_atts := (@geo_atts Ftxt Ctxt).
Notation geo_attr_head := (@geo_attr_head Ftxt Ctxt).
Notation fl := (@fl F Ftxt Ctxt pf).
Notation ti := (@ti Ftxt Ctxt).

(* the item a chunk (as a list of lines) denotes *)
Definition item_of (c : list tok) : option gitem :=
  match c with
  | [TWord _; TWord s; TInt n] => Some (GAtts _ _ s n)
  | TWord _ :: TWord s :: TWord nm :: TWord ty :: TInt es :: TInt dim :: vals => Some (GAttr s nm ty es dim vals)
  | _ => None
  end.

(* a chunk list whose declared sizes announce the values that follow *)
Fixpoint consistent (sizes : list (string * Z)) (cs : list (list tok)) : Prop :=
  match cs with
  | [] => True
  | c :: r =>
      match c with
      | [TWord k; TWord s; TInt n] => k = "[ATTS]"%string /\ 0 <= n /\ consistent ((s, n) :: sizes) r
      | TWord k :: TWord s :: TWord nm :: TWord ty :: TInt es :: TInt dim :: vals =>
          k = "[ATTR]"%string /\ 0 <= dim
          /\ (exists n, lookup_size s sizes = Some n /\ length vals = Z.to_nat (n * dim)) /\ consistent sizes r
      | _ => False
      end
  end.

Fixpoint items_of (cs : list (list tok)) : list gitem :=
  match cs with [] => [] | c :: r => match item_of c with Some i => i :: items_of r | None => items_of r end end.

Lemma loop_head fuel a b r sizes : loop (S fuel) (TW "[HEAD]" :: TW a :: TW b :: r) sizes = loop fuel r sizes.
Proof. reflexivity. Qed.
Lemma loop_atts fuel s n r sizes : 0 <= n ->
  loop (S fuel) (TW "[ATTS]" :: TW s :: TI n :: r) sizes
  = match loop fuel r ((s, n) :: sizes) with Some l => Some (GAtts _ _ s n :: l) | None => None end.
Proof.
  intros Hn. cbn [GeoRef.ref_geo_loop]. change (String.eqb "[ATTS]" "[HEAD]") with false.
  change (String.eqb "[ATTS]" "[ATTS]") with true. cbn iota. destruct (n <? 0) eqn:E; [lia|]. reflexivity.
Qed.
Lemma loop_attr fuel s nm ty es dim vals r sizes n :
  lookup_size s sizes = Some n -> 0 <= dim -> length vals = Z.to_nat (n * dim) ->
  loop (S fuel) (TW "[ATTR]" :: TW s :: TW nm :: TW ty :: TI es :: TI dim :: vals ++ r) sizes
  = match loop fuel r sizes with Some l => Some (GAttr s nm ty es dim vals :: l) | None => None end.
Proof.
  intros Hl Hd Hlen. cbn [GeoRef.ref_geo_loop]. change (String.eqb "[ATTR]" "[HEAD]") with false.
  change (String.eqb "[ATTR]" "[ATTS]") with false. change (String.eqb "[ATTR]" "[ATTR]") with true. cbn iota.
  rewrite Hl. destruct (dim <? 0) eqn:E; [lia|]. rewrite <- Hlen, app_length.
  destruct (Nat.ltb_spec (length vals + length r) (length vals)) as [?|_]; [lia|].
  rewrite firstn_app_all, skipn_app_all. reflexivity.
Qed.

Lemma loop_consistent (cs : list (list tok)) : forall sizes extra, consistent sizes cs ->
  loop (S (length (concat cs)) + extra) (concat cs) sizes = Some (items_of cs).
Proof.
  induction cs as [|c cs IH]; intros sizes extra H; [reflexivity|].
  cbn [consistent] in H.
  destruct c as [|[?|?|?|k] c]; try contradiction.
  destruct c as [|[?|?|?|s] c]; try contradiction.
  destruct c as [|[n|?|?|nm] c]; try contradiction.
  - (* ATTS *)
    destruct c as [|? ?]; [|contradiction]. destruct H as (-> & Hn & H).
    cbn [concat app length items_of item_of].
    replace (S (S (S (S (length (concat cs))))) + extra)%nat with (S (S (length (concat cs)) + (2 + extra)))%nat by lia.
    rewrite loop_atts by assumption. rewrite (IH _ _ H). reflexivity.
  - (* ATTR *)
    destruct c as [|[?|?|?|ty] c]; try contradiction.
    destruct c as [|[es|?|?|?] c]; try contradiction.
    destruct c as [|[dim|?|?|?] vals]; try contradiction.
    destruct H as (-> & Hd & (n & Hl & Hlen) & H).
    cbn [concat app length items_of item_of]. rewrite app_length.
    replace (S (S (S (S (S (S (S (length vals + length (concat cs)))))))) + extra)%nat
      with (S (S (length (concat cs)) + (5 + length vals + extra)))%nat by lia.
    rewrite (loop_attr _ s nm ty es dim vals _ sizes n Hl Hd Hlen). rewrite (IH _ _ H). reflexivity.
Qed.

(* a block of attributes of the set declared last does not change the sizes *)
Definition attr_chunk (s nm ty : string) (es dim : Z) (vals : list tok) : list tok :=
  TW "[ATTR]" :: TW s :: TW nm :: TW ty :: TI es :: TI dim :: vals.

Lemma consistent_attrs s n sizes (l : list (list tok)) rest :
  Forall (fun c => exists nm ty es dim vals, c = attr_chunk s nm ty es dim vals /\ 0 <= dim /\ length vals = Z.to_nat (n * dim)) l ->
  consistent ((s, n) :: sizes) rest -> consistent ((s, n) :: sizes) (l ++ rest).
Proof.
  induction 1 as [|c l (nm & ty & es & dim & vals & -> & Hd & Hl) _ IH]; intros Hr; [exact Hr|].
  cbn [app consistent attr_chunk]. repeat split; try assumption.
  - exists n. split; [|exact Hl]. unfold lookup_size. cbn [find fst]. now rewrite String.eqb_refl.
  - now apply IH.
Qed.

Lemma consistent_set s n sizes (l : list (list tok)) rest : 0 <= n ->
  Forall (fun c => exists nm ty es dim vals, c = attr_chunk s nm ty es dim vals /\ 0 <= dim /\ length vals = Z.to_nat (n * dim)) l ->
  consistent ((s, n) :: sizes) rest -> consistent sizes ([TW "[ATTS]"; TW s; TI n] :: l ++ rest).
Proof. intros Hn Hl Hr. cbn [consistent]. repeat split; try assumption. now apply consistent_attrs. Qed.

(* ------------------------------------------------------------------ the chunks of a mesh *)
Definition attr_sized (n : Z) (a : attr) : Prop := 0 <= a_ar a /\ length (a_vals a) = Z.to_nat (n * a_ar a).
Definition geo_sizes_ok (m : mesh) : Prop :=
  Forall (attr_sized (zlen (mV m))) (aV m) /\ Forall (attr_sized (zlen (mE m))) (aE m)
  /\ Forall (attr_sized (zlen (mF m))) (aF m) /\ Forall (attr_sized (sum_len (mF m))) (aFC m)
  /\ Forall (attr_sized (zlen (mC m))) (aC m) /\ Forall (attr_sized (sum_len (mC m))) (aCC m)
  /\ Forall (attr_sized (n_cell_facets (mC m))) (aCF m)
  /\ (has_adjacency m = true -> length (mAdj m) = Z.to_nat (n_cell_facets (mC m))).

Lemma users_sized k n (l : list attr) : Forall (attr_sized n) l ->
  Forall (fun c => exists nm ty es dim vals, c = attr_chunk (qs (user_cont k)) nm ty es dim vals /\ 0 <= dim /\ length vals = Z.to_nat (n * dim))
         (map (geo_user_attr (user_cont k)) l).
Proof.
  intros H. apply Forall_forall. intros c Hc. apply in_map_iff in Hc as [a [<- Ha]].
  rewrite Forall_forall in H. destruct (H a Ha) as [Hd Hl].
  exists (qs (enc_n (a_name a))), (qs (geo_type_string (a_ty a))), (geo_byte_size (a_ty a)), (a_ar a), (map print_aval (a_vals a)).
  split; [reflexivity|]. split; [assumption|]. now rewrite map_length.
Qed.

Lemma to_nat_zlen_mul {A} (l : list A) (k : Z) : 0 <= k -> Z.to_nat (zlen l * k) = (length l * Z.to_nat k)%nat.
Proof. intros Hk. unfold zlen. rewrite Z2Nat.inj_mul by lia. now rewrite Nat2Z.id. Qed.
Lemma length_flat_map_const {A B} (f : A -> list B) k l : (forall x, length (f x) = k) -> length (flat_map f l) = (length l * k)%nat.
Proof. intros H. induction l as [|a l IH]; [reflexivity|]. cbn [flat_map length]. rewrite app_length, H, IH. reflexivity. Qed.
Lemma len_flat_v3 (V : list (F * F * F)) : length (flat_map (fun v => map fl (v3 v)) V) = Z.to_nat (zlen V * 3).
Proof. rewrite (to_nat_zlen_mul V 3) by lia. apply length_flat_map_const. intros [[x y] z]. reflexivity. Qed.
Lemma len_flat_e2 (E : list (Z * Z)) : length (flat_map (fun e => [ti (fst e); ti (snd e)]) E) = Z.to_nat (zlen E * 2).
Proof. rewrite (to_nat_zlen_mul E 2) by lia. apply length_flat_map_const. reflexivity. Qed.
Lemma len_ptrs p (els : list (list Z)) : length (map ti (ptrs_from p els)) = Z.to_nat (zlen els * 1).
Proof.
  rewrite map_length, (to_nat_zlen_mul els 1) by lia. change (Z.to_nat 1) with 1%nat. rewrite Nat.mul_1_r. revert p.
  induction els as [|e els IH]; intros p; [reflexivity|]. cbn [ptrs_from length]. now rewrite IH.
Qed.
Lemma len_concat (els : list (list Z)) : length (map ti (concat els)) = Z.to_nat (sum_len els * 1).
Proof. rewrite map_length. unfold sum_len. rewrite (to_nat_zlen_mul (concat els) 1) by lia. change (Z.to_nat 1) with 1%nat. now rewrite Nat.mul_1_r. Qed.
Lemma n_cell_facets_nonneg (cells : list (list Z)) : 0 <= n_cell_facets cells.
Proof.
  unfold n_cell_facets. induction cells as [|c cells IH]; [cbn; lia|]. cbn [fold_right]. unfold geo_exp_cell_facets at 1.
  destruct (zlen c =? 4); lia.
Qed.

Definition sized_chunk (s : string) (n : Z) (c : list tok) : Prop :=
  exists nm ty es dim vals, c = attr_chunk s nm ty es dim vals /\ 0 <= dim /\ length vals = Z.to_nat (n * dim).

Lemma fixed_sized (h : list string * Z * Z) s nm ty es dim (vals : list tok) n :
  geo_attr_head h = [TW "[ATTR]"; TW s; TW nm; TW ty; TI es; TI dim] -> 0 <= dim -> length vals = Z.to_nat (n * dim) ->
  sized_chunk s n (geo_attr_head h ++ vals).
Proof. intros -> Hd Hl. exists nm, ty, es, dim, vals. repeat split; assumption. Qed.

Lemma opt_sized (b : bool) s n (c : list tok) : sized_chunk s n c -> Forall (sized_chunk s n) (if b then [] else [c]).
Proof. intros H. destruct b; repeat constructor. exact H. Qed.
Lemma opt_sized' (b : bool) s n (c : list tok) : (b = true -> sized_chunk s n c) -> Forall (sized_chunk s n) (if b then [c] else []).
Proof. intros H. destruct b; repeat constructor. now apply H. Qed.

Lemma group_ok s n (l1 l2 rest : list (list tok)) : 0 <= n -> Forall (sized_chunk s n) l1 -> Forall (sized_chunk s n) l2 ->
  (forall sizes, consistent sizes rest) -> forall sizes, consistent sizes ([TW "[ATTS]"; TW s; TI n] :: l1 ++ l2 ++ rest).
Proof.
  intros Hn H1 H2 Hr sizes. rewrite app_assoc. apply consistent_set; [assumption | apply Forall_app; now split | apply Hr].
Qed.
Lemma group_ok_end s n (l1 l2 : list (list tok)) : 0 <= n -> Forall (sized_chunk s n) l1 -> Forall (sized_chunk s n) l2 ->
  forall sizes, consistent sizes ([TW "[ATTS]"; TW s; TI n] :: l1 ++ l2).
Proof.
  intros Hn H1 H2 sizes. rewrite <- (app_nil_r l2). apply group_ok; try assumption. intros; exact I.
Qed.

Theorem geo_ref_reads (m : mesh) : geo_sizes_ok m ->
  ref_read_geo (print_geo m) = Some (items_of (tl (geo_chunks m))).
Proof.
  intros (HV & HE & HF & HFC & HC & HCC & HCF & Hadj).
  unfold GeoRef.ref_read_geo, Geo.print_geo, Geo.geo_chunks.
  match goal with |- loop _ (concat ([?h] ++ ?R)) _ = Some (items_of (tl ([?h] ++ ?R))) =>
    change (concat ([h] ++ R)) with (h ++ concat R); change (tl ([h] ++ R)) with R; set (cs := R) end.
  change (map (@Geo.gw Ftxt Ctxt) geo_exp_head ++ concat cs) with (TW (nth 0 geo_exp_head "") :: TW (nth 1 geo_exp_head "") :: TW (nth 2 geo_exp_head "") :: concat cs)%string.
  cbn [length]. replace (S (S (S (S (length (concat cs)))))) with (S (S (length (concat cs)) + 2))%nat by lia.
  change (TW (nth 0 geo_exp_head ""%string)) with (TW "[HEAD]"). rewrite loop_head.
  apply loop_consistent. subst cs.
  (* cells *)
  assert (HCall : forall sizes, consistent sizes (if isnil (mC m) then [] else
        [geo_atts geo_exp_atts_C (zlen (mC m))]
        ++ (if forallb (len_is 4) (mC m) then [] else [geo_attr_head geo_exp_attr_cell_ptr ++ map ti (ptrs_from 0 (mC m))])
        ++ map (geo_user_attr (user_cont 4)) (aC m)
        ++ [geo_atts geo_exp_atts_CC (sum_len (mC m)); geo_attr_head geo_exp_attr_cc_vertex ++ map ti (concat (mC m))]
        ++ map (geo_user_attr (user_cont 5)) (aCC m)
        ++ [geo_atts geo_exp_atts_CF (n_cell_facets (mC m))]
        ++ (if has_adjacency m then [geo_attr_head geo_exp_attr_cf_adj ++ map ti (mAdj m)] else [])
        ++ map (geo_user_attr (user_cont 6)) (aCF m))).
  { destruct (isnil (mC m)); [intros; exact I|].
    apply (group_ok (nth 1 geo_exp_atts_C ""%string) (zlen (mC m))
             (if forallb (len_is 4) (mC m) then [] else [geo_attr_head geo_exp_attr_cell_ptr ++ map ti (ptrs_from 0 (mC m))])
             (map (geo_user_attr (user_cont 4)) (aC m)));
      [unfold zlen; lia | apply opt_sized; eapply fixed_sized; [reflexivity | lia | apply len_ptrs] | apply (users_sized 4); exact HC | ].
    apply (group_ok (nth 1 geo_exp_atts_CC ""%string) (sum_len (mC m)) [geo_attr_head geo_exp_attr_cc_vertex ++ map ti (concat (mC m))]);
      [unfold sum_len, zlen; lia | repeat constructor; eapply fixed_sized; [reflexivity | lia | apply len_concat] | apply (users_sized 5); exact HCC | ].
    apply (group_ok_end (nth 1 geo_exp_atts_CF ""%string) (n_cell_facets (mC m))
             (if has_adjacency m then [geo_attr_head geo_exp_attr_cf_adj ++ map ti (mAdj m)] else [])
             (map (geo_user_attr (user_cont 6)) (aCF m)));
      [apply n_cell_facets_nonneg
      | apply opt_sized'; intros Ha; eapply fixed_sized; [reflexivity | lia | rewrite map_length, Z.mul_1_r; now apply Hadj]
      | apply (users_sized 6); exact HCF]. }
  (* faces *)
  assert (HFall : forall sizes, consistent sizes ((if isnil (mF m) then [] else
        [geo_atts geo_exp_atts_F (zlen (mF m))]
        ++ (if forallb (len_is 3) (mF m) then [] else [geo_attr_head geo_exp_attr_facet_ptr ++ map ti (ptrs_from 0 (mF m))])
        ++ map (geo_user_attr (user_cont 2)) (aF m)
        ++ [geo_atts geo_exp_atts_FC (sum_len (mF m)); geo_attr_head geo_exp_attr_fc_vertex ++ map ti (concat (mF m))]
        ++ map (geo_user_attr (user_cont 3)) (aFC m))
      ++ (if isnil (mC m) then [] else
        [geo_atts geo_exp_atts_C (zlen (mC m))]
        ++ (if forallb (len_is 4) (mC m) then [] else [geo_attr_head geo_exp_attr_cell_ptr ++ map ti (ptrs_from 0 (mC m))])
        ++ map (geo_user_attr (user_cont 4)) (aC m)
        ++ [geo_atts geo_exp_atts_CC (sum_len (mC m)); geo_attr_head geo_exp_attr_cc_vertex ++ map ti (concat (mC m))]
        ++ map (geo_user_attr (user_cont 5)) (aCC m)
        ++ [geo_atts geo_exp_atts_CF (n_cell_facets (mC m))]
        ++ (if has_adjacency m then [geo_attr_head geo_exp_attr_cf_adj ++ map ti (mAdj m)] else [])
        ++ map (geo_user_attr (user_cont 6)) (aCF m)))).
  { destruct (isnil (mF m)); [exact HCall|]. rewrite <- !app_assoc.
    apply (group_ok (nth 1 geo_exp_atts_F ""%string) (zlen (mF m))
             (if forallb (len_is 3) (mF m) then [] else [geo_attr_head geo_exp_attr_facet_ptr ++ map ti (ptrs_from 0 (mF m))])
             (map (geo_user_attr (user_cont 2)) (aF m)));
      [unfold zlen; lia | apply opt_sized; eapply fixed_sized; [reflexivity | lia | apply len_ptrs] | apply (users_sized 2); exact HF | ].
    apply (group_ok (nth 1 geo_exp_atts_FC ""%string) (sum_len (mF m)) [geo_attr_head geo_exp_attr_fc_vertex ++ map ti (concat (mF m))]);
      [unfold sum_len, zlen; lia | repeat constructor; eapply fixed_sized; [reflexivity | lia | apply len_concat] | apply (users_sized 3); exact HFC | exact HCall]. }
  (* edges, then vertices *)
  apply (group_ok (nth 1 geo_exp_atts_V ""%string) (zlen (mV m)) [geo_attr_head geo_exp_attr_point ++ flat_map (fun v => map fl (v3 v)) (mV m)]);
    [unfold zlen; lia | repeat constructor; eapply fixed_sized; [reflexivity | lia | apply len_flat_v3] | apply (users_sized 0); exact HV | ].
  destruct (isnil (mE m)); [exact HFall|]. intros sizes. rewrite <- !app_assoc.
  apply (group_ok (nth 1 geo_exp_atts_E ""%string) (zlen (mE m)) [geo_attr_head geo_exp_attr_edge_vertex ++ flat_map (fun e => [ti (fst e); ti (snd e)]) (mE m)]);
    [unfold zlen; lia | repeat constructor; eapply fixed_sized; [reflexivity | lia | apply len_flat_e2] | apply (users_sized 1); exact HE | exact HFall].
Qed.

End ProofsGeoRef.
