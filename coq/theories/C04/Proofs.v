(* C04 - the lemmas exported to Props.v *)
From Coq Require Import ZArith Bool String.
From Coq Require Import List.
Require Export MV.C04.Gen MV.C04.Model MV.C04.Geo MV.C04.Stl MV.C04.Ref MV.C04.Proofs_Text MV.C04.Proofs_Ref MV.C04.Proofs_Geo MV.C04.Proofs_Stl MV.C04.GeoRef MV.C04.Proofs_GeoRef MV.C04.Run MV.C04.Proofs_Class.
