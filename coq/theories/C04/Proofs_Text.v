(* C04 - round-trip proofs for the line/token codecs xyz, obj, off, tet, medit (all meshes, by induction on
   the vertex / element lists).  The only fact used about floats is the section hypothesis
   rf (pf x) = x  (Python: float('{}'.format(x)) == x for a binary64 x). *)
From Coq Require Import ZArith Bool String Ascii Lia.
From Coq Require Import List.
Import ListNotations.
Require Import MV.Lib.Base MV.C04.Gen MV.C04.Model.
Open Scope list_scope.
Open Scope Z_scope.

Lemma omap_ext_some {A B} (f : A -> option B) (g : A -> B) l :
  (forall x, In x l -> f x = Some (g x)) -> omap f l = Some (map g l).
Proof.
  induction l as [|a l IH]; intros H; cbn; [reflexivity|].
  rewrite (H a (or_introl eq_refl)), IH; [reflexivity|]. intros x Hx. apply H. now right.
Qed.

Lemma omap_map {A B C} (f : B -> option C) (g : A -> B) l : omap f (map g l) = omap (fun x => f (g x)) l.
Proof. induction l as [|a l IH]; cbn; [reflexivity|]. now rewrite IH. Qed.

Lemma omap_length {A B} (f : A -> option B) l r : omap f l = Some r -> length r = length l.
Proof.
  revert r. induction l as [|a l IH]; cbn; intros r H.
  - now inversion H.
  - destruct (f a); [|discriminate]. destruct (omap f l); [|discriminate]. inversion H. cbn. f_equal. now apply IH.
Qed.

Lemma firstn_app_all {A} (l r : list A) : firstn (length l) (l ++ r) = l.
Proof. rewrite firstn_app, Nat.sub_diag, firstn_all. cbn. apply app_nil_r. Qed.
Lemma skipn_app_all {A} (l r : list A) : skipn (length l) (l ++ r) = r.
Proof. rewrite skipn_app, Nat.sub_diag, skipn_all. reflexivity. Qed.

Lemma firstn_map_app {A B} (f : A -> B) (l : list A) (r : list B) : firstn (length l) (map f l ++ r) = map f l.
Proof. rewrite <- (map_length f l). apply firstn_app_all. Qed.
Lemma skipn_map_app {A B} (f : A -> B) (l : list A) (r : list B) : skipn (length l) (map f l ++ r) = r.
Proof. rewrite <- (map_length f l). apply skipn_app_all. Qed.
Lemma firstn_map_all {A B} (f : A -> B) (l : list A) : firstn (length l) (map f l) = map f l.
Proof. rewrite <- (map_length f l). apply firstn_all. Qed.
Lemma ltb_app_len {A B} (l : list A) (r : list B) : (length l + length r <? length l)%nat = false.
Proof. apply Nat.ltb_ge. lia. Qed.

Lemma zlen_nat {A} (l : list A) : Z.to_nat (zlen l) = length l.
Proof. unfold zlen. lia. Qed.
Lemma zlen_map {A B} (f : A -> B) l : zlen (map f l) = zlen l.
Proof. unfold zlen. now rewrite map_length. Qed.
Lemma zlen_nonneg {A} (l : list A) : 0 <= zlen l.
Proof. unfold zlen. lia. Qed.
Lemma isnil_false_zlen {A} (l : list A) : isnil l = false -> 0 < zlen l.
Proof. destruct l; cbn; [discriminate|]. unfold zlen. cbn. lia. Qed.

Section Proofs.
Variables F Ftxt Cx Ctxt : Type.
Variable pf : F -> Ftxt.
Variable rf : Ftxt -> F.
Variable f_of_int : Z -> F.
Hypothesis rf_pf : forall x, rf (pf x) = x.

Notation tok := (tok Ftxt Ctxt).
Notation line := (list tok).
Notation mesh := (mesh F Cx).
Notation raw := (raw F Cx).
Notation py_float := (@py_float F Ftxt Ctxt rf f_of_int).
Notation py_int := (@py_int Ftxt Ctxt).
Notation fl := (@fl F Ftxt Ctxt pf).
Notation TI := (@TInt Ftxt Ctxt).
Notation TW := (@TWord Ftxt Ctxt).
Notation print_xyz := (@print_xyz F Ftxt Cx Ctxt pf).
Notation parse_xyz := (@parse_xyz F Ftxt Cx Ctxt rf f_of_int).
Notation parse_xyz_lines := (@parse_xyz_lines F Ftxt Ctxt rf f_of_int).
Notation print_obj := (@print_obj F Ftxt Cx Ctxt pf).
Notation parse_obj := (@parse_obj F Ftxt Cx Ctxt rf f_of_int).
Notation parse_obj_lines := (@parse_obj_lines F Ftxt Ctxt rf f_of_int).
Notation obj_vertex_line := (@obj_vertex_line F Ftxt Ctxt pf).
Notation obj_edge_line := (@obj_edge_line Ftxt Ctxt).
Notation obj_face_line := (@obj_face_line Ftxt Ctxt).
Notation off_vertex_line := (@off_vertex_line F Ftxt Ctxt pf).
Notation sized_line := (@sized_line Ftxt Ctxt).
Notation print_off := (@print_off F Ftxt Cx Ctxt pf).
Notation parse_off := (@parse_off F Ftxt Cx Ctxt rf f_of_int).
Notation off_faces := (@off_faces Ftxt Ctxt).
Notation print_tet := (@print_tet F Ftxt Cx Ctxt pf).
Notation parse_tet := (@parse_tet F Ftxt Cx Ctxt rf f_of_int).

Lemma py_float_fl x : py_float (fl x) = Some x.
Proof. cbn. now rewrite rf_pf. Qed.

Lemma omap_float_fl (l : list F) : omap py_float (map fl l) = Some l.
Proof.
  rewrite omap_map. rewrite (omap_ext_some _ (fun x => x)); [now rewrite map_id|].
  intros x _. apply py_float_fl.
Qed.

Lemma omap_int_TInt (l : list Z) : omap py_int (map TI l) = Some l.
Proof. rewrite omap_map. rewrite (omap_ext_some _ (fun x => x)); [now rewrite map_id|]. reflexivity. Qed.

(* ------------------------------------------------------------------ xyz *)
Lemma print_xyz_eq (m : mesh) : print_xyz m = Some (map (fun v => map fl (v3 v)) (mV m)).
Proof.
  unfold print_xyz. apply omap_ext_some. intros [[x y] z] _. reflexivity.
Qed.

Lemma parse_xyz_lines_print (V : list (F * F * F)) :
  parse_xyz_lines (map (fun v => map fl (v3 v)) V) = Some (map v3 V).
Proof.
  induction V as [|[[x y] z] V IH]; [reflexivity|].
  cbn [map parse_xyz_lines]. rewrite IH, omap_float_fl. reflexivity.
Qed.

Lemma xyz_roundtrip (m : mesh) L : print_xyz m = Some L -> parse_xyz L = Some (vocab_xyz m).
Proof.
  rewrite print_xyz_eq. intros H. inversion H; subst. unfold parse_xyz. now rewrite parse_xyz_lines_print.
Qed.

(* ------------------------------------------------------------------ obj *)
Definition obj_acc_app (a b : list (list F) * list (list Z) * list (list Z)) :=
  let '(V1, E1, F1) := a in let '(V2, E2, F2) := b in (V1 ++ V2, E1 ++ E2, F1 ++ F2).

(* each block of lines only adds to its own container *)
Lemma obj_vertices_block (V : list (F * F * F)) rest acc :
  parse_obj_lines rest = Some acc ->
  parse_obj_lines (map obj_vertex_line V ++ rest) =
    Some (let '(V0, E0, F0) := acc in (map v3 V ++ V0, E0, F0)).
Proof.
  intros Hr. induction V as [|[[x y] z] V IH]; cbn [map app].
  - rewrite Hr. now destruct acc as [[? ?] ?].
  - cbn [parse_obj_lines]. rewrite IH. destruct acc as [[V0 E0] F0].
    unfold obj_step, obj_vertex_line. cbn [v3 map].
    change (is_word (TW obj_exp_kw_v) obj_imp_kw_v) with true. cbn iota.
    change (slice (TW obj_exp_kw_v :: [fl x; fl y; fl z]) obj_imp_v_lo obj_imp_v_hi) with (map fl [x; y; z]).
    rewrite omap_float_fl. reflexivity.
Qed.

Lemma obj_edges_block (E : list (Z * Z)) rest acc :
  parse_obj_lines rest = Some acc ->
  parse_obj_lines (map obj_edge_line E ++ rest) =
    Some (let '(V0, E0, F0) := acc in (V0, map (fun e => keyify2 (fst e) (snd e)) E ++ E0, F0)).
Proof.
  intros Hr. induction E as [|[a b] E IH]; cbn [map app].
  - rewrite Hr. now destruct acc as [[? ?] ?].
  - cbn [parse_obj_lines]. rewrite IH. destruct acc as [[V0 E0] F0].
    unfold obj_step, obj_edge_line. cbn [fst snd].
    change (is_word (TW obj_exp_kw_l) obj_imp_kw_v) with false.
    change (is_word (TW obj_exp_kw_l) obj_imp_kw_vn) with false.
    change (is_word (TW obj_exp_kw_l) obj_imp_kw_vt) with false.
    change (is_word (TW obj_exp_kw_l) obj_imp_kw_f) with false.
    change (is_word (TW obj_exp_kw_l) obj_imp_kw_l) with true. cbn iota.
    unfold obj_imp_edge_pos, obj_exp_edge, obj_imp_edge. cbn [map omap nthz].
    change (nthz [TW obj_exp_kw_l; TI (a + 1); TI (b + 1)] 1) with (Some (TI (a + 1))).
    change (nthz [TW obj_exp_kw_l; TI (a + 1); TI (b + 1)] 2) with (Some (TI (b + 1))).
    cbn [py_int Model.py_int option_map].
    replace (a + 1 - 1) with a by lia. replace (b + 1 - 1) with b by lia. reflexivity.
Qed.

Lemma obj_faces_block (Fs : list (list Z)) :
  parse_obj_lines (map obj_face_line Fs) = Some ([], [], Fs).
Proof.
  induction Fs as [|f Fs IH]; [reflexivity|].
  cbn [map parse_obj_lines]. rewrite IH. unfold obj_step, obj_face_line.
  change (is_word (TW obj_exp_kw_f) obj_imp_kw_v) with false.
  change (is_word (TW obj_exp_kw_f) obj_imp_kw_vn) with false.
  change (is_word (TW obj_exp_kw_f) obj_imp_kw_vt) with false.
  change (is_word (TW obj_exp_kw_f) obj_imp_kw_f) with true. cbn iota. cbn [skipn].
  rewrite omap_map.
  rewrite (omap_ext_some _ (fun x => x)); [now rewrite map_id|].
  intros v _. unfold obj_parse_vertex, obj_imp_vid, obj_exp_vid. cbn. f_equal. lia.
Qed.

Lemma obj_roundtrip sw (m : mesh) L :
  print_obj sw m = Some L -> parse_obj L = vocab_obj sw m.
Proof.
  unfold print_obj, vocab_obj. destruct (obj_exported_edges sw m) as [el|]; [|discriminate].
  intros H. inversion H; subst; clear H. unfold parse_obj.
  rewrite (obj_vertices_block _ _ _ (obj_edges_block _ _ _ (obj_faces_block _))).
  cbn. now rewrite !app_nil_r.
Qed.

(* ------------------------------------------------------------------ off *)
Lemma off_faces_print (Fs : list (list Z)) :
  Forall (fun f => 3 <= zlen f) Fs ->
  off_faces (map sized_line Fs) = Some (Fs, []).
Proof.
  induction 1 as [|f Fs Hf _ IH]; [reflexivity|].
  cbn [map off_faces]. rewrite IH. unfold sized_line at 1. cbn [py_int Model.py_int].
  unfold off_imp_is_face. destruct (zlen f >=? 3) eqn:E; [|lia].
  unfold off_imp_face_lo, off_imp_face_hi, slice.
  replace (Z.to_nat (zlen f + 1 - 1)) with (length f) by (unfold zlen; lia).
  change (skipn (Z.to_nat 1) (sized_line f)) with (map TI f).
  rewrite <- (map_length TI f) at 1. rewrite firstn_all, omap_int_TInt. reflexivity.
Qed.


Lemma filter_nonempty_off_lines (V : list (F * F * F)) (Fs : list (list Z)) :
  filter (fun l : line => negb (isnil l)) (map off_vertex_line V ++ map sized_line Fs)
  = map off_vertex_line V ++ map sized_line Fs.
Proof.
  rewrite filter_app. f_equal.
  - induction V as [|[[x y] z] V IH]; [reflexivity|]. cbn. now rewrite IH.
  - induction Fs as [|f Fs IH]; [reflexivity|]. cbn. now rewrite IH.
Qed.

Lemma omap_vertex_lines (V : list (F * F * F)) :
  omap (omap py_float) (map off_vertex_line V) = Some (map v3 V).
Proof.
  rewrite omap_map. apply omap_ext_some. intros v _. unfold off_vertex_line. apply omap_float_fl.
Qed.

Lemma off_roundtrip (m : mesh) : off_ok m -> parse_off (print_off m) = Some (vocab_off m).
Proof.
  intros Hok. unfold parse_off, print_off.
  cbn [filter isnil negb].
  change (isnil (map TI (off_exp_counts (zlen (mV m)) (zlen (mF m)) (zlen (mE m))))) with false. cbn [negb].
  rewrite filter_nonempty_off_lines.
  change (is_word (TW off_header) off_header) with true. cbn iota.
  rewrite omap_int_TInt. unfold off_exp_counts, off_imp_ncounts, off_imp_counts_nv, off_imp_counts_nf.
  cbn [zlen length Z.of_nat Z.eqb Pos.eqb Pos.of_succ_nat Pos.succ nthz Z.ltb Z.compare Z.to_nat nth_error].
  rewrite !zlen_nat. change (Pos.to_nat 1) with 1%nat. cbn [nth_error].
  rewrite !zlen_nat, app_length, !map_length, ltb_app_len.
  rewrite firstn_map_app, skipn_map_app, omap_vertex_lines, map_length, Nat.ltb_irrefl.
  rewrite firstn_map_all, off_faces_print by assumption.
  reflexivity.
Qed.

(* ------------------------------------------------------------------ tet *)
Lemma tet_roundtrip (m : mesh) : parse_tet (print_tet m) = Some (vocab_tet m).
Proof.
  unfold parse_tet, print_tet. unfold tet_imp_count_pos. cbn [nthz Z.ltb Z.compare Z.to_nat nth_error py_int Model.py_int].
  rewrite !zlen_nat, app_length, !map_length, ltb_app_len.
  rewrite firstn_map_app, skipn_map_app, omap_vertex_lines, map_length, Nat.ltb_irrefl, firstn_map_all.
  rewrite omap_map. rewrite (omap_ext_some _ (fun c => c)); [now rewrite map_id|].
  intros c _. change (skipn (Z.to_nat tet_imp_cell_lo) (sized_line c)) with (map TI c).
  apply omap_int_TInt.
Qed.

(* ------------------------------------------------------------------ medit *)
Notation print_medit := (@print_medit F Ftxt Cx Ctxt pf).
Notation parse_medit := (@parse_medit F Ftxt Cx Ctxt rf f_of_int).
Notation medit_run := (@medit_run F Ftxt Ctxt rf f_of_int).
Notation medit_step := (@medit_step F Ftxt Ctxt rf f_of_int).
Notation medit_elem := (@medit_elem F Ftxt Ctxt rf f_of_int).
Notation medit_elem_line := (@medit_elem_line Ftxt Ctxt).
Notation medit_vertex_line := (@medit_vertex_line F Ftxt Ctxt pf).
Notation medit_block := (@medit_block Ftxt Ctxt).
Notation medit_blocks := (@medit_blocks Ftxt Ctxt).
Notation medit_keyword := (@medit_keyword Ftxt Ctxt).
Notation macc := (macc F).

Definition add_vertices (vs : list (list F)) (acc : macc) : macc :=
  let '(V, E, Fs, C) := acc in (V ++ vs, E, Fs, C).
Definition add_field (c : Z) (es : list (list Z)) (acc : macc) : macc :=
  let '(V, E, Fs, C) := acc in
  if c =? 1 then (V, E ++ es, Fs, C) else if c =? 2 then (V, E, Fs ++ es, C) else (V, E, Fs, C ++ es).

Lemma add_field_nil c acc : add_field c [] acc = acc.
Proof. destruct acc as [[[V E] Fs] C]. unfold add_field. destruct (c =? 1), (c =? 2); now rewrite app_nil_r. Qed.
Lemma add_field_cons c e es acc : add_field c (e :: es) acc = add_field c es (add_field c [e] acc).
Proof.
  destruct acc as [[[V E] Fs] C]. unfold add_field.
  destruct (c =? 1), (c =? 2); now rewrite <- app_assoc.
Qed.
Lemma add_vertices_cons v vs acc : add_vertices (v :: vs) acc = add_vertices vs (add_vertices [v] acc).
Proof. destruct acc as [[[V E] Fs] C]. cbn. now rewrite <- app_assoc. Qed.

Lemma medit_idx_inv i : medit_imp_idx (medit_exp_idx i) = i.
Proof. unfold medit_imp_idx, medit_exp_idx. lia. Qed.

Lemma medit_vertex_line_eq v : medit_vertex_line v = Some (map fl (v3 v) ++ [TI medit_exp_ref]).
Proof. destruct v as [[x y] z]. reflexivity. Qed.

Lemma medit_elem_vertex v acc :
  medit_elem KVert (map fl (v3 v) ++ [TI medit_exp_ref]) acc = Some (add_vertices [v3 v] acc).
Proof.
  destruct acc as [[[V E] Fs] C]. destruct v as [[x y] z]. unfold Model.medit_elem.
  change (slice (map fl (v3 (x, y, z)) ++ [TI medit_exp_ref]) 0 medit_imp_vertex_hi) with (map fl [x; y; z]).
  rewrite omap_float_fl. reflexivity.
Qed.

Lemma medit_elem_field c a e acc :
  (c = 1 \/ c = 2 \/ c = 3) -> zlen e = a ->
  medit_elem (KField c a) (medit_elem_line e) acc = Some (add_field c [e] acc).
Proof.
  intros Hc Ha. destruct acc as [[[V E] Fs] C]. unfold Model.medit_elem, Model.medit_elem_line.
  replace (map (fun i : Z => TI (medit_exp_idx i)) e ++ [TI medit_exp_ref])
    with (map TI (map medit_exp_idx e ++ [medit_exp_ref])) by (now rewrite map_app, map_map).
  rewrite omap_int_TInt, map_app, map_map.
  rewrite (map_ext _ (fun i => i) medit_idx_inv), map_id.
  unfold slice. rewrite Z.sub_0_r. change (Z.to_nat 0) with 0%nat. cbn [skipn].
  replace (Z.to_nat a) with (length e) by (unfold zlen in Ha; lia).
  rewrite firstn_app_all. unfold add_field.
  destruct Hc as [-> | [-> | ->]]; reflexivity.
Qed.

Lemma medit_block_vertices (V : list (F * F * F)) : forall r acc rest,
  length V = S r ->
  medit_run (MBlock KVert (S r), acc) (map (fun v => map fl (v3 v) ++ [TI medit_exp_ref]) V ++ rest)
  = medit_run (MIdle, add_vertices (map v3 V) acc) rest.
Proof.
  induction V as [|v V IH]; intros r acc rest HL; [discriminate|].
  cbn [map app Model.medit_run Model.medit_step]. rewrite medit_elem_vertex.
  destruct V as [|v' V].
  - cbn in HL. injection HL as HL. subst r. reflexivity.
  - destruct r as [|r]; [discriminate|]. rewrite IH by (cbn in *; lia).
    cbn [map]. now rewrite (add_vertices_cons (v3 v) (v3 v' :: map v3 V) acc).
Qed.

Lemma medit_block_field c a (els : list (list Z)) :
  (c = 1 \/ c = 2 \/ c = 3) -> Forall (fun e => zlen e = a) els -> forall r acc rest,
  length els = S r ->
  medit_run (MBlock (KField c a) (S r), acc) (map medit_elem_line els ++ rest)
  = medit_run (MIdle, add_field c els acc) rest.
Proof.
  intros Hc Hall. induction Hall as [|e els He Hall IH]; intros r acc rest HL; [discriminate|].
  cbn [map app Model.medit_run Model.medit_step]. rewrite medit_elem_field by assumption.
  destruct els as [|e' els].
  - cbn in HL. injection HL as HL. subst r. reflexivity.
  - destruct r as [|r]; [discriminate|]. rewrite IH by (cbn in *; lia).
    now rewrite (add_field_cons c e (e' :: els) acc).
Qed.

(* a keyword line followed by its count line and n element lines, then the blank line export_medit writes *)
Lemma medit_idle_blank acc rest : medit_run (MIdle, acc) ([] :: rest) = medit_run (MIdle, acc) rest.
Proof. reflexivity. Qed.

Lemma medit_field_block kw c a (els : list (list Z)) acc rest :
  (c = 1 \/ c = 2 \/ c = 3) -> Forall (fun e => zlen e = a) els -> els <> [] ->
  line_is [TW kw] medit_imp_end = false ->
  medit_keyword [TW kw] = Some (KField c a) ->
  medit_run (MIdle, acc) ([TW kw] :: [TI (zlen els)] :: map medit_elem_line els ++ [] :: rest)
  = medit_run (MIdle, add_field c els acc) rest.
Proof.
  intros Hc Hall Hne Hend Hkw.
  cbn [Model.medit_run Model.medit_step]. rewrite Hend, Hkw.
  destruct (zlen els <=? 0) eqn:E.
  { destruct els; [congruence|]. unfold zlen in E. cbn in E. lia. }
  destruct (length els) as [|r] eqn:HL; [destruct els; [congruence|discriminate]|].
  cbn [Model.medit_step]. rewrite E, zlen_nat, HL. rewrite (medit_block_field c a els Hc Hall) by assumption.
  apply medit_idle_blank.
Qed.

Lemma medit_vertex_block (V : list (F * F * F)) acc rest :
  V <> [] ->
  medit_run (MIdle, acc) ([TW medit_exp_vertices] :: [TI (zlen V)]
                          :: map (fun v => map fl (v3 v) ++ [TI medit_exp_ref]) V ++ [] :: rest)
  = medit_run (MIdle, add_vertices (map v3 V) acc) rest.
Proof.
  intros Hne. cbn [Model.medit_run Model.medit_step].
  change (line_is [TW medit_exp_vertices] medit_imp_end) with false.
  change (medit_keyword [TW medit_exp_vertices]) with (Some KVert). cbn iota.
  destruct (zlen V <=? 0) eqn:E.
  { destruct V; [congruence|]. unfold zlen in E. cbn in E. lia. }
  destruct (length V) as [|r] eqn:HL; [destruct V; [congruence|discriminate]|].
  cbn [Model.medit_step]. rewrite E, zlen_nat, HL. rewrite (medit_block_vertices V r) by assumption.
  apply medit_idle_blank.
Qed.

(* export table entry against the import table: same arity written, counted and read back *)
Definition block_ok (cont : Z) (b : string * Z * Z * Z) : Prop :=
  let '(kw, c, war, car) := b in
  c = cont /\ war = car /\ line_is [TW kw] medit_imp_end = false /\ medit_keyword [TW kw] = Some (KField c war).

Lemma filter_len_Forall a (els : list (list Z)) : Forall (fun e => zlen e = a) (filter (len_is a) els).
Proof.
  apply Forall_forall. intros e He. apply filter_In in He as [_ He]. unfold len_is in He. lia.
Qed.

Lemma medit_blocks_run cont (Hc : cont = 2 \/ cont = 3) (els : list (list Z)) (bs : list (string * Z * Z * Z)) :
  Forall (block_ok cont) bs -> forall acc rest,
  medit_run (MIdle, acc) (flat_map (medit_block els) bs ++ rest)
  = medit_run (MIdle, add_field cont (flat_map (fun b => let '(_, _, war, _) := b in filter (len_is war) els) bs) acc) rest.
Proof.
  induction 1 as [|[[[kw c] war] car] bs [-> [<- [Hend Hkw]]] _ IH]; intros acc rest.
  - cbn. now rewrite add_field_nil.
  - cbn [flat_map]. rewrite <- app_assoc. unfold Model.medit_block at 1. unfold count_if.
    destruct (filter (len_is war) els) as [|e0 fl0] eqn:Efl.
    + cbn [zlen length Z.of_nat Z.gtb Z.compare app]. rewrite IH. reflexivity.
    + destruct (zlen (e0 :: fl0) >? 0) eqn:Epos; [|unfold zlen in Epos; cbn in Epos; lia].
      cbn [app]. rewrite <- app_assoc. cbn [app].
      rewrite (medit_field_block kw cont war (e0 :: fl0)); try assumption; try discriminate.
      * rewrite IH. f_equal. f_equal.
        destruct acc as [[[V E] Fs] C]. unfold add_field.
        destruct (cont =? 1), (cont =? 2); now rewrite <- app_assoc.
      * lia.
      * rewrite <- Efl. apply filter_len_Forall.
Qed.

Lemma flat_map_filter_nil (bs : list (string * Z * Z * Z)) :
  flat_map (fun b => let '(_, _, war, _) := b in filter (len_is war) (@nil (list Z))) bs = [].
Proof. induction bs as [|[[[? ?] ?] ?] bs IH]; [reflexivity|]. cbn. exact IH. Qed.

Lemma medit_exp_blocks_ok cont (Hc : cont = 2 \/ cont = 3) :
  Forall (block_ok cont) (filter (fun b => let '(_, c, _, _) := b in c =? cont) medit_exp_blocks).
Proof.
  destruct Hc as [-> | ->]; cbn; repeat constructor.
Qed.

(* a line of two tokens is no keyword line *)
Lemma medit_header_run t1 t2 acc rest : medit_run (MIdle, acc) ([t1; t2] :: rest) = medit_run (MIdle, acc) rest.
Proof. reflexivity. Qed.

Lemma medit_roundtrip (m : mesh) L : print_medit m = Some L -> parse_medit L = vocab_medit m.
Proof.
  unfold Model.print_medit, Model.vocab_medit.
  rewrite (omap_ext_some _ _ _ (fun v _ => medit_vertex_line_eq v)).
  destruct (medit_exported_edges m) as [el|] eqn:Eel; [|discriminate].
  intros [= <-]. unfold Model.parse_medit.
  cbn [map app fst snd]. rewrite !medit_header_run.
  (* vertices *)
  assert (HV : forall acc rest,
    medit_run (MIdle, acc) ((if isnil (mV m) then [] else
       [TW medit_exp_vertices] :: [TI (zlen (mV m))] :: map (fun v => map fl (v3 v) ++ [TI medit_exp_ref]) (mV m) ++ [[]]) ++ rest)
    = medit_run (MIdle, add_vertices (map v3 (mV m)) acc) rest).
  { intros acc rest. destruct (mV m) as [|v V] eqn:EV.
    - cbn. destruct acc as [[[? ?] ?] ?]. cbn. now rewrite app_nil_r.
    - cbn [isnil app]. rewrite <- app_assoc. cbn [app]. apply medit_vertex_block. discriminate. }
  rewrite HV.
  (* edges *)
  assert (HE : forall acc rest,
    medit_run (MIdle, acc) ((if isnil (mE m) then [] else
       [TW medit_exp_edges] :: [TI (zlen el)] :: map (fun e => medit_elem_line (e2 e)) el ++ [[]]) ++ rest)
    = medit_run (MIdle, add_field 1 (map e2 el) acc) rest).
  { intros acc rest. unfold Model.medit_exported_edges in Eel. destruct (isnil (mE m)) eqn:EE.
    - injection Eel as Eel. subst el. cbn. now rewrite add_field_nil.
    - cbn [app]. rewrite <- app_assoc. cbn [app]. rewrite <- (map_map e2 medit_elem_line), <- (zlen_map e2).
      destruct el as [|e0 el].
      + cbn. now rewrite add_field_nil.
      + apply (medit_field_block medit_exp_edges 1 2); try reflexivity; try (now left); try discriminate.
        apply Forall_forall. intros e He. apply in_map_iff in He as [[a b] [<- _]]. reflexivity. }
  rewrite HE.
  (* faces and cells *)
  assert (HB : forall cont els, cont = 2 \/ cont = 3 -> forall acc rest,
    medit_run (MIdle, acc) ((if isnil els then [] else medit_blocks cont els) ++ rest)
    = medit_run (MIdle, add_field cont (flat_map (fun b => let '(_, _, war, _) := b in filter (len_is war) els)
            (filter (fun b => let '(_, c, _, _) := b in c =? cont) medit_exp_blocks)) acc) rest).
  { intros cont els Hc acc rest. destruct els as [|e0 els].
    - cbn [isnil app]. now rewrite flat_map_filter_nil, add_field_nil.
    - cbn [isnil]. unfold Model.medit_blocks. apply medit_blocks_run; [assumption|].
      now apply medit_exp_blocks_ok. }
  rewrite (HB 2 (mF m)) by (now left). rewrite <- (app_nil_r (if isnil (mC m) then _ else _)).
  rewrite (HB 3 (mC m)) by (now right).
  cbn [Model.medit_run]. cbn. now rewrite !app_nil_r.
Qed.

End Proofs.
