(* C04 - round-trip proofs for the line/token codecs xyz, obj, off, tet, medit (all meshes, by induction on
   the vertex / element lists).  The only fact used about floats is the section hypothesis
   rf (pf x) = x  (Python: float('{}'.format(x)) == x for a binary64 x). *)
From Coq Require Import ZArith Bool String Ascii Lia ZifyBool.
From Coq Require Import List.
Import ListNotations.
Require Import MV.Lib.Base MV.C04.Gen MV.C04.Model MV.C04.Ref.
Open Scope list_scope.
Open Scope Z_scope.

Lemma omap_ext_some {A B} (f : A -> option B) (g : A -> B) l :
  (forall x, In x l -> f x = Some (g x)) -> omap f l = Some (map g l).
Proof.
  induction l as [|a l IH]; intros H; cbn; [reflexivity|].
  rewrite (H a (or_introl eq_refl)), IH; [reflexivity|]. intros x Hx. apply H. now right.
Qed.

Lemma omap_map {A B C} (f : B -> option C) (g : A -> B) l : omap f (map g l) = omap (fun x => f (g x)) l.
Proof. induction l as [|a l IH]; cbn; [reflexivity|]. now rewrite IH. Qed.

Lemma omap_length {A B} (f : A -> option B) l r : omap f l = Some r -> length r = length l.
Proof.
  revert r. induction l as [|a l IH]; cbn; intros r H.
  - now inversion H.
  - destruct (f a); [|discriminate]. destruct (omap f l); [|discriminate]. inversion H. cbn. f_equal. now apply IH.
Qed.

Lemma firstn_app_all {A} (l r : list A) : firstn (length l) (l ++ r) = l.
Proof. rewrite firstn_app, Nat.sub_diag, firstn_all. cbn. apply app_nil_r. Qed.
Lemma skipn_app_all {A} (l r : list A) : skipn (length l) (l ++ r) = r.
Proof. rewrite skipn_app, Nat.sub_diag, skipn_all. reflexivity. Qed.

Lemma firstn_map_app {A B} (f : A -> B) (l : list A) (r : list B) : firstn (length l) (map f l ++ r) = map f l.
Proof. rewrite <- (map_length f l). apply firstn_app_all. Qed.
Lemma skipn_map_app {A B} (f : A -> B) (l : list A) (r : list B) : skipn (length l) (map f l ++ r) = r.
Proof. rewrite <- (map_length f l). apply skipn_app_all. Qed.
Lemma firstn_map_all {A B} (f : A -> B) (l : list A) : firstn (length l) (map f l) = map f l.
Proof. rewrite <- (map_length f l). apply firstn_all. Qed.
Lemma ltb_app_len {A B} (l : list A) (r : list B) : (length l + length r <? length l)%nat = false.
Proof. apply Nat.ltb_ge. lia. Qed.

Lemma zlen_nat {A} (l : list A) : Z.to_nat (zlen l) = length l.
Proof. unfold zlen. lia. Qed.
Lemma zlen_map {A B} (f : A -> B) l : zlen (map f l) = zlen l.
Proof. unfold zlen. now rewrite map_length. Qed.
Lemma zlen_nonneg {A} (l : list A) : 0 <= zlen l.
Proof. unfold zlen. lia. Qed.
Lemma isnil_false_zlen {A} (l : list A) : isnil l = false -> 0 < zlen l.
Proof. destruct l; cbn; [discriminate|]. unfold zlen. cbn. lia. Qed.

Section Proofs.
Variables F Ftxt Cx Ctxt : Type.
Variable pf : F -> Ftxt.
Variable rf : Ftxt -> F.
Variable f_of_int : Z -> F.
Hypothesis rf_pf : forall x, rf (pf x) = x.

Notation tok := (tok Ftxt Ctxt).
Notation line := (list tok).
Notation mesh := (mesh F Cx).
Notation raw := (raw F Cx).
Notation py_float := (@py_float F Ftxt Ctxt rf f_of_int).
Notation py_int := (@py_int Ftxt Ctxt).
Notation fl := (@fl F Ftxt Ctxt pf).
Notation TI := (@TInt Ftxt Ctxt).
Notation TW := (@TWord Ftxt Ctxt).
Notation print_xyz := (@print_xyz F Ftxt Cx Ctxt pf).
Notation parse_xyz := (@parse_xyz F Ftxt Cx Ctxt rf f_of_int).
Notation parse_xyz_lines := (@parse_xyz_lines F Ftxt Ctxt rf f_of_int).
Notation print_obj := (@print_obj F Ftxt Cx Ctxt pf).
Notation parse_obj := (@parse_obj F Ftxt Cx Ctxt rf f_of_int).
Notation parse_obj_lines := (@parse_obj_lines F Ftxt Ctxt rf f_of_int).
Notation parse_obj_from := (@parse_obj_from F Ftxt Ctxt rf f_of_int).
Notation obj_vertex_line := (@obj_vertex_line F Ftxt Ctxt pf).
Notation obj_edge_line := (@obj_edge_line Ftxt Ctxt).
Notation obj_face_line := (@obj_face_line Ftxt Ctxt).
Notation off_vertex_line := (@off_vertex_line F Ftxt Ctxt pf).
Notation sized_line := (@sized_line Ftxt Ctxt).
Notation print_off := (@print_off F Ftxt Cx Ctxt pf).
Notation parse_off := (@parse_off F Ftxt Cx Ctxt rf f_of_int).
Notation off_faces := (@off_faces Ftxt Ctxt).
Notation print_tet := (@print_tet F Ftxt Cx Ctxt pf).
Notation parse_tet := (@parse_tet F Ftxt Cx Ctxt rf f_of_int).

Lemma py_float_fl x : py_float (fl x) = Some x.
Proof. cbn. now rewrite rf_pf. Qed.

Lemma omap_float_fl (l : list F) : omap py_float (map fl l) = Some l.
Proof.
  rewrite omap_map. rewrite (omap_ext_some _ (fun x => x)); [now rewrite map_id|].
  intros x _. apply py_float_fl.
Qed.

Lemma omap_int_TInt (l : list Z) : omap py_int (map TI l) = Some l.
Proof. rewrite omap_map. rewrite (omap_ext_some _ (fun x => x)); [now rewrite map_id|]. reflexivity. Qed.

(* ------------------------------------------------------------------ xyz *)
Lemma print_xyz_eq (m : mesh) : print_xyz m = Some (map (fun v => map fl (v3 v)) (mV m)).
Proof.
  unfold print_xyz. apply omap_ext_some. intros [[x y] z] _. reflexivity.
Qed.

Lemma parse_xyz_lines_print (V : list (F * F * F)) :
  parse_xyz_lines (map (fun v => map fl (v3 v)) V) = Some (map v3 V).
Proof.
  induction V as [|[[x y] z] V IH]; [reflexivity|].
  cbn [map parse_xyz_lines]. rewrite IH, omap_float_fl. reflexivity.
Qed.

Lemma xyz_roundtrip (m : mesh) L : print_xyz m = Some L -> parse_xyz L = Some (vocab_xyz m).
Proof.
  rewrite print_xyz_eq. intros H. inversion H; subst. unfold parse_xyz. now rewrite parse_xyz_lines_print.
Qed.

(* ------------------------------------------------------------------ obj *)
Definition obj_acc_app (a b : list (list F) * list (list Z) * list (list Z)) :=
  let '(V1, E1, F1) := a in let '(V2, E2, F2) := b in (V1 ++ V2, E1 ++ E2, F1 ++ F2).

(* each block of lines only adds to its own container; nv = the number of vertex lines before the block *)
Lemma obj_vertices_block (V : list (F * F * F)) rest acc nv :
  parse_obj_from (nv + zlen V) rest = Some acc ->
  parse_obj_from nv (map obj_vertex_line V ++ rest) =
    Some (let '(V0, E0, F0) := acc in (map v3 V ++ V0, E0, F0)).
Proof.
  revert nv. induction V as [|[[x y] z] V IH]; intros nv Hr; cbn [map app].
  - change (zlen (@nil (F * F * F))) with 0 in Hr. rewrite Z.add_0_r in Hr. rewrite Hr. now destruct acc as [[? ?] ?].
  - cbn [Model.parse_obj_from].
    change (obj_line_nv (obj_vertex_line (x, y, z))) with 1.
    rewrite (IH (nv + 1)).
    2:{ rewrite <- Hr. f_equal. unfold zlen. cbn [length]. lia. }
    destruct acc as [[V0 E0] F0].
    unfold obj_step, obj_vertex_line. cbn [v3 map].
    change (is_word (TW obj_exp_kw_v) obj_imp_kw_v) with true. cbn iota.
    change (slice (TW obj_exp_kw_v :: [fl x; fl y; fl z]) obj_imp_v_lo obj_imp_v_hi) with (map fl [x; y; z]).
    rewrite omap_float_fl. reflexivity.
Qed.

Lemma obj_resolve_abs a nv : 0 <= a -> obj_imp_resolve (a + 1) nv = a.
Proof. intros H. unfold obj_imp_resolve. destruct (a + 1 >? 0) eqn:E; lia. Qed.

Lemma obj_edges_block (E : list (Z * Z)) rest acc nv :
  Forall (fun e => 0 <= fst e /\ 0 <= snd e) E ->
  parse_obj_from nv rest = Some acc ->
  parse_obj_from nv (map obj_edge_line E ++ rest) =
    Some (let '(V0, E0, F0) := acc in (V0, map (fun e => keyify2 (fst e) (snd e)) E ++ E0, F0)).
Proof.
  intros HE Hr. induction HE as [|[a b] E [Ha Hb] _ IH]; cbn [map app].
  - rewrite Hr. now destruct acc as [[? ?] ?].
  - cbn [Model.parse_obj_from].
    change (obj_line_nv (obj_edge_line (a, b))) with 0. rewrite Z.add_0_r.
    rewrite IH. destruct acc as [[V0 E0] F0].
    unfold obj_step, obj_edge_line. cbn [fst snd].
    change (is_word (TW obj_exp_kw_l) obj_imp_kw_v) with false.
    change (is_word (TW obj_exp_kw_l) obj_imp_kw_vn) with false.
    change (is_word (TW obj_exp_kw_l) obj_imp_kw_vt) with false.
    change (is_word (TW obj_exp_kw_l) obj_imp_kw_f) with false.
    change (is_word (TW obj_exp_kw_l) obj_imp_kw_l) with true. cbn iota.
    unfold obj_exp_edge. cbn [map skipn length Nat.ltb Nat.leb omap py_int Model.py_int option_map consecutive fst snd app].
    cbn [fst snd] in Ha, Hb. rewrite !obj_resolve_abs by assumption. reflexivity.
Qed.

Lemma obj_faces_block (Fs : list (list Z)) nv :
  Forall (Forall (fun i => 0 <= i)) Fs ->
  parse_obj_from nv (map obj_face_line Fs) = Some ([], [], Fs).
Proof.
  induction 1 as [|f Fs Hf _ IH]; [reflexivity|].
  cbn [map Model.parse_obj_from].
  change (obj_line_nv (obj_face_line f)) with 0. rewrite Z.add_0_r.
  rewrite IH. unfold obj_step, obj_face_line.
  change (is_word (TW obj_exp_kw_f) obj_imp_kw_v) with false.
  change (is_word (TW obj_exp_kw_f) obj_imp_kw_vn) with false.
  change (is_word (TW obj_exp_kw_f) obj_imp_kw_vt) with false.
  change (is_word (TW obj_exp_kw_f) obj_imp_kw_f) with true. cbn iota. cbn [skipn].
  rewrite omap_map.
  rewrite (omap_ext_some _ (fun x => x)); [now rewrite map_id|].
  intros v Hv. unfold obj_parse_vertex, obj_exp_vid. cbn. f_equal. apply obj_resolve_abs.
  rewrite Forall_forall in Hf. now apply Hf.
Qed.

(* well-formed indices: an index of a mesh is a natural number (the model's Z admits more) *)
Definition nonneg_edges (E : list (Z * Z)) := Forall (fun e : Z * Z => 0 <= fst e /\ 0 <= snd e) E.
Definition nonneg_elems (Fs : list (list Z)) := Forall (Forall (fun i => 0 <= i)) Fs.

Lemma nthz_In {A} (l : list A) i x : nthz l i = Some x -> In x l.
Proof. unfold nthz. destruct (i <? 0); [discriminate|]. apply nth_error_In. Qed.

Lemma hard_edge_list_sub (m : mesh) ks el : hard_edge_list m ks = Some el -> forall e, In e el -> In e (mE m).
Proof.
  unfold hard_edge_list. revert el. induction ks as [|k ks IH]; intros el H e He.
  - cbn in H. inversion H; subst. destruct He.
  - cbn [omap] in H. destruct (py_nth (mE m) k) as [x|] eqn:Ek; [|discriminate].
    destruct (omap (fun k0 => py_nth (mE m) k0) ks) as [r|] eqn:Er; [|discriminate].
    inversion H; subst. destruct He as [<-|He].
    + unfold py_nth in Ek. destruct (k <? 0); [|]; apply nthz_In in Ek; exact Ek.
    + eapply IH; eauto.
Qed.

Lemma obj_exported_sub sw (m : mesh) el : obj_exported_edges sw m = Some el -> forall e, In e el -> In e (mE m).
Proof.
  unfold obj_exported_edges. intros H e He.
  repeat match type of H with
  | context [if ?c then _ else _] => destruct c
  | context [match ?x with _ => _ end] => destruct x eqn:?
  end; try discriminate; try (inversion H; subst; try assumption; try (now destruct He)).
  all: try (eapply hard_edge_list_sub; eauto).
Qed.

Lemma obj_roundtrip sw (m : mesh) L :
  nonneg_edges (mE m) -> nonneg_elems (mF m) ->
  print_obj sw m = Some L -> parse_obj L = vocab_obj sw m.
Proof.
  intros HE HF. unfold print_obj, vocab_obj. destruct (obj_exported_edges sw m) as [el|] eqn:Eel; [|discriminate].
  intros H. inversion H; subst; clear H. unfold parse_obj, Model.parse_obj_lines.
  assert (Hel : nonneg_edges el).
  { apply Forall_forall. intros e He. unfold nonneg_edges in HE. rewrite Forall_forall in HE. apply HE. eapply obj_exported_sub; eauto. }
  rewrite (obj_vertices_block _ _ _ _ (obj_edges_block _ _ _ _ Hel (obj_faces_block _ _ HF))).
  cbn. now rewrite !app_nil_r.
Qed.

(* ------------------------------------------------------------------ off *)
Lemma off_faces_print (Fs : list (list Z)) :
  Forall (fun f => 3 <= zlen f) Fs ->
  off_faces (map sized_line Fs) = Some (Fs, []).
Proof.
  induction 1 as [|f Fs Hf _ IH]; [reflexivity|].
  cbn [map off_faces]. rewrite IH. unfold sized_line at 1. cbn [py_int Model.py_int].
  unfold off_imp_is_face. destruct (zlen f >=? 3) eqn:E; [|lia].
  unfold off_imp_face_lo, off_imp_face_hi, slice.
  replace (Z.to_nat (zlen f + 1 - 1)) with (length f) by (unfold zlen; lia).
  change (skipn (Z.to_nat 1) (sized_line f)) with (map TI f).
  rewrite <- (map_length TI f) at 1. rewrite firstn_all, omap_int_TInt. reflexivity.
Qed.


Lemma filter_nonempty_off_lines (V : list (F * F * F)) (Fs : list (list Z)) :
  filter (fun l : line => negb (isnil l)) (map off_vertex_line V ++ map sized_line Fs)
  = map off_vertex_line V ++ map sized_line Fs.
Proof.
  rewrite filter_app. f_equal.
  - induction V as [|[[x y] z] V IH]; [reflexivity|]. cbn. now rewrite IH.
  - induction Fs as [|f Fs IH]; [reflexivity|]. cbn. now rewrite IH.
Qed.

Lemma omap_vertex_lines (V : list (F * F * F)) :
  omap (omap py_float) (map off_vertex_line V) = Some (map v3 V).
Proof.
  rewrite omap_map. apply omap_ext_some. intros v _. unfold off_vertex_line. apply omap_float_fl.
Qed.

Lemma off_roundtrip (m : mesh) : off_ok m -> parse_off (print_off m) = Some (vocab_off m).
Proof.
  intros Hok. unfold parse_off, print_off.
  cbn [filter isnil negb].
  change (isnil (map TI (off_exp_counts (zlen (mV m)) (zlen (mF m)) (zlen (mE m))))) with false. cbn [negb].
  rewrite filter_nonempty_off_lines.
  change (off_imp_counts_inline (zlen [TW off_header])) with false. cbn iota.
  change (is_word (TW off_header) off_header) with true. cbn iota.
  rewrite omap_int_TInt. unfold off_exp_counts, off_imp_ncounts, off_imp_counts_nv, off_imp_counts_nf.
  cbn [zlen length Z.of_nat Z.eqb Pos.eqb Pos.of_succ_nat Pos.succ nthz Z.ltb Z.compare Z.to_nat nth_error].
  rewrite !zlen_nat. change (Pos.to_nat 1) with 1%nat. cbn [nth_error].
  rewrite !zlen_nat, app_length, !map_length, ltb_app_len.
  rewrite firstn_map_app, skipn_map_app, omap_vertex_lines, map_length, Nat.ltb_irrefl.
  rewrite firstn_map_all, off_faces_print by assumption.
  reflexivity.
Qed.

(* ------------------------------------------------------------------ tet *)
Lemma tet_roundtrip (m : mesh) : parse_tet (print_tet m) = Some (vocab_tet m).
Proof.
  unfold parse_tet, print_tet. unfold tet_imp_count_pos. cbn [nthz Z.ltb Z.compare Z.to_nat nth_error py_int Model.py_int].
  rewrite !zlen_nat, app_length, !map_length, ltb_app_len.
  rewrite firstn_map_app, skipn_map_app, omap_vertex_lines, map_length, Nat.ltb_irrefl, firstn_map_all.
  rewrite omap_map. rewrite (omap_ext_some _ (fun c => c)); [now rewrite map_id|].
  intros c _. change (skipn (Z.to_nat tet_imp_cell_lo) (sized_line c)) with (map TI c).
  apply omap_int_TInt.
Qed.

(* ------------------------------------------------------------------ medit *)
Notation print_medit := (@print_medit F Ftxt Cx Ctxt pf).
Notation parse_medit := (@parse_medit F Ftxt Cx Ctxt rf f_of_int).
Notation medit_run := (@medit_run F Ftxt Ctxt rf f_of_int).
Notation medit_step := (@medit_step F Ftxt Ctxt rf f_of_int).
Notation medit_elem := (@medit_elem F Ftxt Ctxt rf f_of_int).
Notation medit_elem_line := (@medit_elem_line Ftxt Ctxt).
Notation medit_vertex_line := (@medit_vertex_line F Ftxt Ctxt pf).
Notation medit_block := (@medit_block Ftxt Ctxt).
Notation medit_blocks := (@medit_blocks Ftxt Ctxt).
Notation medit_keyword := (@medit_keyword Ftxt Ctxt).
Notation macc := (macc F).

Definition add_vertices (vs : list (list F)) (acc : macc) : macc :=
  let '(V, E, Fs, C) := acc in (V ++ vs, E, Fs, C).
Definition add_field (c : Z) (es : list (list Z)) (acc : macc) : macc :=
  let '(V, E, Fs, C) := acc in
  if c =? 1 then (V, E ++ es, Fs, C) else if c =? 2 then (V, E, Fs ++ es, C) else (V, E, Fs, C ++ es).

Lemma add_field_nil c acc : add_field c [] acc = acc.
Proof. destruct acc as [[[V E] Fs] C]. unfold add_field. destruct (c =? 1), (c =? 2); now rewrite app_nil_r. Qed.
Lemma add_field_cons c e es acc : add_field c (e :: es) acc = add_field c es (add_field c [e] acc).
Proof.
  destruct acc as [[[V E] Fs] C]. unfold add_field.
  destruct (c =? 1), (c =? 2); now rewrite <- app_assoc.
Qed.
Lemma add_vertices_cons v vs acc : add_vertices (v :: vs) acc = add_vertices vs (add_vertices [v] acc).
Proof. destruct acc as [[[V E] Fs] C]. cbn. now rewrite <- app_assoc. Qed.

Lemma medit_idx_inv i : medit_imp_idx (medit_exp_idx i) = i.
Proof. unfold medit_imp_idx, medit_exp_idx. lia. Qed.

Lemma medit_vertex_line_eq v : medit_vertex_line v = Some (map fl (v3 v) ++ [TI medit_exp_ref]).
Proof. destruct v as [[x y] z]. reflexivity. Qed.

Lemma medit_elem_vertex v acc rn :
  medit_elem KVert (map fl (v3 v) ++ [TI rn]) acc = Some (add_vertices [v3 v] acc).
Proof.
  destruct acc as [[[V E] Fs] C]. destruct v as [[x y] z]. unfold Model.medit_elem.
  change (slice (map fl (v3 (x, y, z)) ++ [TI rn]) 0 medit_imp_vertex_hi) with (map fl [x; y; z]).
  rewrite omap_float_fl. reflexivity.
Qed.

Definition elem_line_r (rn : Z) (e : list Z) : line := map (fun i => TI (medit_exp_idx i)) e ++ [TI rn].

Lemma medit_elem_field_r rn c a e acc :
  (c = 1 \/ c = 2 \/ c = 3) -> zlen e = a ->
  medit_elem (KField c a) (elem_line_r rn e) acc = Some (add_field c [e] acc).
Proof.
  intros Hc Ha. destruct acc as [[[V E] Fs] C]. unfold Model.medit_elem, elem_line_r.
  replace (map (fun i : Z => TI (medit_exp_idx i)) e ++ [TI rn])
    with (map TI (map medit_exp_idx e ++ [rn])) by (now rewrite map_app, map_map).
  rewrite omap_int_TInt, map_app, map_map.
  rewrite (map_ext _ (fun i => i) medit_idx_inv), map_id.
  unfold slice. rewrite Z.sub_0_r. change (Z.to_nat 0) with 0%nat. cbn [skipn].
  replace (Z.to_nat a) with (length e) by (unfold zlen in Ha; lia).
  rewrite firstn_app_all. unfold add_field.
  destruct Hc as [-> | [-> | ->]]; reflexivity.
Qed.

Lemma medit_elem_field c a e acc :
  (c = 1 \/ c = 2 \/ c = 3) -> zlen e = a ->
  medit_elem (KField c a) (medit_elem_line e) acc = Some (add_field c [e] acc).
Proof. apply (medit_elem_field_r medit_exp_ref). Qed.

Lemma medit_block_vertices rn (V : list (F * F * F)) : forall r acc rest,
  length V = S r ->
  medit_run (MBlock KVert (S r), acc) (map (fun v => map fl (v3 v) ++ [TI rn]) V ++ rest)
  = medit_run (MIdle, add_vertices (map v3 V) acc) rest.
Proof.
  induction V as [|v V IH]; intros r acc rest HL; [discriminate|].
  cbn [map app Model.medit_run Model.medit_step]. rewrite medit_elem_vertex.
  destruct V as [|v' V].
  - cbn in HL. injection HL as HL. subst r. reflexivity.
  - destruct r as [|r]; [discriminate|]. rewrite IH by (cbn in *; lia).
    cbn [map]. now rewrite (add_vertices_cons (v3 v) (v3 v' :: map v3 V) acc).
Qed.

Lemma medit_block_field_r rn c a (els : list (list Z)) :
  (c = 1 \/ c = 2 \/ c = 3) -> Forall (fun e => zlen e = a) els -> forall r acc rest,
  length els = S r ->
  medit_run (MBlock (KField c a) (S r), acc) (map (elem_line_r rn) els ++ rest)
  = medit_run (MIdle, add_field c els acc) rest.
Proof.
  intros Hc Hall. induction Hall as [|e els He Hall IH]; intros r acc rest HL; [discriminate|].
  cbn [map app Model.medit_run Model.medit_step]. rewrite medit_elem_field_r by assumption.
  destruct els as [|e' els].
  - cbn in HL. injection HL as HL. subst r. reflexivity.
  - destruct r as [|r]; [discriminate|]. rewrite IH by (cbn in *; lia).
    now rewrite (add_field_cons c e (e' :: els) acc).
Qed.

Lemma medit_block_field c a (els : list (list Z)) :
  (c = 1 \/ c = 2 \/ c = 3) -> Forall (fun e => zlen e = a) els -> forall r acc rest,
  length els = S r ->
  medit_run (MBlock (KField c a) (S r), acc) (map medit_elem_line els ++ rest)
  = medit_run (MIdle, add_field c els acc) rest.
Proof. apply (medit_block_field_r medit_exp_ref). Qed.

(* a keyword line followed by its count line and n element lines, then the blank line export_medit writes *)
Lemma medit_idle_blank acc rest : medit_run (MIdle, acc) ([] :: rest) = medit_run (MIdle, acc) rest.
Proof. reflexivity. Qed.

Lemma medit_field_block kw c a (els : list (list Z)) acc rest :
  (c = 1 \/ c = 2 \/ c = 3) -> Forall (fun e => zlen e = a) els -> els <> [] ->
  line_is [TW kw] medit_imp_end = false ->
  medit_keyword [TW kw] = Some (KField c a) ->
  medit_run (MIdle, acc) ([TW kw] :: [TI (zlen els)] :: map medit_elem_line els ++ [] :: rest)
  = medit_run (MIdle, add_field c els acc) rest.
Proof.
  intros Hc Hall Hne Hend Hkw.
  cbn [Model.medit_run Model.medit_step]. rewrite Hend, Hkw.
  destruct (zlen els <=? 0) eqn:E.
  { destruct els; [congruence|]. unfold zlen in E. cbn in E. lia. }
  destruct (length els) as [|r] eqn:HL; [destruct els; [congruence|discriminate]|].
  cbn [Model.medit_step]. rewrite E, zlen_nat, HL. rewrite (medit_block_field c a els Hc Hall) by assumption.
  apply medit_idle_blank.
Qed.

Lemma medit_vertex_block (V : list (F * F * F)) acc rest :
  V <> [] ->
  medit_run (MIdle, acc) ([TW medit_exp_vertices] :: [TI (zlen V)]
                          :: map (fun v => map fl (v3 v) ++ [TI medit_exp_ref]) V ++ [] :: rest)
  = medit_run (MIdle, add_vertices (map v3 V) acc) rest.
Proof.
  intros Hne. cbn [Model.medit_run Model.medit_step].
  change (line_is [TW medit_exp_vertices] medit_imp_end) with false.
  change (medit_keyword [TW medit_exp_vertices]) with (Some KVert). cbn iota.
  destruct (zlen V <=? 0) eqn:E.
  { destruct V; [congruence|]. unfold zlen in E. cbn in E. lia. }
  destruct (length V) as [|r] eqn:HL; [destruct V; [congruence|discriminate]|].
  cbn [Model.medit_step]. rewrite E, zlen_nat, HL. rewrite (medit_block_vertices medit_exp_ref V r) by assumption.
  apply medit_idle_blank.
Qed.

(* export table entry against the import table: same arity written, counted and read back *)
Definition block_ok (cont : Z) (b : string * Z * Z * Z) : Prop :=
  let '(kw, c, war, car) := b in
  c = cont /\ war = car /\ line_is [TW kw] medit_imp_end = false /\ medit_keyword [TW kw] = Some (KField c war).

Lemma filter_len_Forall a (els : list (list Z)) : Forall (fun e => zlen e = a) (filter (len_is a) els).
Proof.
  apply Forall_forall. intros e He. apply filter_In in He as [_ He]. unfold len_is in He. lia.
Qed.

Lemma medit_blocks_run cont (Hc : cont = 2 \/ cont = 3) (els : list (list Z)) (bs : list (string * Z * Z * Z)) :
  Forall (block_ok cont) bs -> forall acc rest,
  medit_run (MIdle, acc) (flat_map (medit_block els) bs ++ rest)
  = medit_run (MIdle, add_field cont (flat_map (fun b => let '(_, _, war, _) := b in filter (len_is war) els) bs) acc) rest.
Proof.
  induction 1 as [|[[[kw c] war] car] bs [-> [<- [Hend Hkw]]] _ IH]; intros acc rest.
  - cbn. now rewrite add_field_nil.
  - cbn [flat_map]. rewrite <- app_assoc. unfold Model.medit_block at 1. unfold count_if.
    destruct (filter (len_is war) els) as [|e0 fl0] eqn:Efl.
    + cbn [zlen length Z.of_nat Z.gtb Z.compare app]. rewrite IH. reflexivity.
    + destruct (zlen (e0 :: fl0) >? 0) eqn:Epos; [|unfold zlen in Epos; cbn in Epos; lia].
      cbn [app]. rewrite <- app_assoc. cbn [app].
      rewrite (medit_field_block kw cont war (e0 :: fl0)); try assumption; try discriminate.
      * rewrite IH. f_equal. f_equal.
        destruct acc as [[[V E] Fs] C]. unfold add_field.
        destruct (cont =? 1), (cont =? 2); now rewrite <- app_assoc.
      * lia.
      * rewrite <- Efl. apply filter_len_Forall.
Qed.

Lemma flat_map_filter_nil (bs : list (string * Z * Z * Z)) :
  flat_map (fun b => let '(_, _, war, _) := b in filter (len_is war) (@nil (list Z))) bs = [].
Proof. induction bs as [|[[[? ?] ?] ?] bs IH]; [reflexivity|]. cbn. exact IH. Qed.

Lemma medit_exp_blocks_ok cont (Hc : cont = 2 \/ cont = 3) :
  Forall (block_ok cont) (filter (fun b => let '(_, c, _, _) := b in c =? cont) medit_exp_blocks).
Proof.
  destruct Hc as [-> | ->]; cbn; repeat constructor.
Qed.

(* a line of two tokens is no keyword line *)
Lemma medit_header_run t1 t2 acc rest : medit_run (MIdle, acc) ([t1; t2] :: rest) = medit_run (MIdle, acc) rest.
Proof. reflexivity. Qed.

Lemma medit_roundtrip (m : mesh) L : print_medit m = Some L -> parse_medit L = vocab_medit m.
Proof.
  unfold Model.print_medit, Model.vocab_medit.
  rewrite (omap_ext_some _ _ _ (fun v _ => medit_vertex_line_eq v)).
  destruct (medit_exported_edges m) as [el|] eqn:Eel; [|discriminate].
  intros [= <-]. unfold Model.parse_medit.
  cbn [map app fst snd]. rewrite !medit_header_run.
  (* vertices *)
  assert (HV : forall acc rest,
    medit_run (MIdle, acc) ((if isnil (mV m) then [] else
       [TW medit_exp_vertices] :: [TI (zlen (mV m))] :: map (fun v => map fl (v3 v) ++ [TI medit_exp_ref]) (mV m) ++ [[]]) ++ rest)
    = medit_run (MIdle, add_vertices (map v3 (mV m)) acc) rest).
  { intros acc rest. destruct (mV m) as [|v V] eqn:EV.
    - cbn. destruct acc as [[[? ?] ?] ?]. cbn. now rewrite app_nil_r.
    - cbn [isnil app]. rewrite <- app_assoc. cbn [app]. apply medit_vertex_block. discriminate. }
  rewrite HV.
  (* edges *)
  assert (HE : forall acc rest,
    medit_run (MIdle, acc) ((if isnil (mE m) then [] else
       [TW medit_exp_edges] :: [TI (zlen el)] :: map (fun e => medit_elem_line (e2 e)) el ++ [[]]) ++ rest)
    = medit_run (MIdle, add_field 1 (map e2 el) acc) rest).
  { intros acc rest. unfold Model.medit_exported_edges in Eel. destruct (isnil (mE m)) eqn:EE.
    - injection Eel as Eel. subst el. cbn. now rewrite add_field_nil.
    - cbn [app]. rewrite <- app_assoc. cbn [app]. rewrite <- (map_map e2 medit_elem_line), <- (zlen_map e2).
      destruct el as [|e0 el].
      + cbn. now rewrite add_field_nil.
      + apply (medit_field_block medit_exp_edges 1 2); try reflexivity; try (now left); try discriminate.
        apply Forall_forall. intros e He. apply in_map_iff in He as [[a b] [<- _]]. reflexivity. }
  rewrite HE.
  (* faces and cells *)
  assert (HB : forall cont els, cont = 2 \/ cont = 3 -> forall acc rest,
    medit_run (MIdle, acc) ((if isnil els then [] else medit_blocks cont els) ++ rest)
    = medit_run (MIdle, add_field cont (flat_map (fun b => let '(_, _, war, _) := b in filter (len_is war) els)
            (filter (fun b => let '(_, c, _, _) := b in c =? cont) medit_exp_blocks)) acc) rest).
  { intros cont els Hc acc rest. destruct els as [|e0 els].
    - cbn [isnil app]. now rewrite flat_map_filter_nil, add_field_nil.
    - cbn [isnil]. unfold Model.medit_blocks. apply medit_blocks_run; [assumption|].
      now apply medit_exp_blocks_ok. }
  rewrite (HB 2 (mF m)) by (now left). rewrite <- (app_nil_r (if isnil (mC m) then _ else _)).
  rewrite (HB 3 (mC m)) by (now right).
  cbn [Model.medit_run]. cbn. now rewrite !app_nil_r.
Qed.


(* ================================================================== interoperability (reference codecs of Ref.v) *)
Notation ref_parse_obj := (@ref_parse_obj F Ftxt Cx Ctxt rf f_of_int).
Notation ref_parse_obj_lines := (@ref_parse_obj_lines F Ftxt Ctxt rf f_of_int).
Notation ref_print_obj := (@ref_print_obj F Ftxt Cx Ctxt pf).
Notation rtake_nums := (@take_nums F Ftxt Ctxt rf f_of_int).

Lemma rtake_nums_fl (xs : list F) rest : rtake_nums (length xs) (map fl xs ++ rest) = Some (xs, rest).
Proof.
  induction xs as [|x xs IH]; [reflexivity|]. cbn [length map app Ref.take_nums Ref.num Model.fl].
  rewrite rf_pf. fold (map fl xs). rewrite IH. reflexivity.
Qed.

(* ---- obj : mouette's file read by the reference reader *)
Definition obj_ref_ok (el : list (Z * Z)) (m : mesh) : Prop :=
  Forall (fun e => 0 <= fst e /\ 0 <= snd e) el
  /\ Forall (fun f => (3 <= length f)%nat /\ Forall (fun i => 0 <= i) f) (mF m).

Lemma omap_obj_index (f : list Z) : Forall (fun i => 0 <= i) f ->
  omap (@obj_index Ftxt Ctxt) (map (fun vid => TI (obj_exp_vid vid)) f) = Some f.
Proof.
  intros H. rewrite omap_map. rewrite (omap_ext_some _ (fun i => i)); [now rewrite map_id|].
  intros i Hi. rewrite Forall_forall in H. specialize (H i Hi). unfold obj_index, obj_exp_vid.
  destruct (1 <=? i + 1) eqn:E; [|lia]. f_equal. lia.
Qed.

Lemma ref_obj_vertices (V : list (F * F * F)) rest acc :
  ref_parse_obj_lines rest = Some acc ->
  ref_parse_obj_lines (map obj_vertex_line V ++ rest) = Some (let '(V0, E0, F0) := acc in (map v3 V ++ V0, E0, F0)).
Proof.
  intros Hr. induction V as [|[[x y] z] V IH]; cbn [map app].
  - rewrite Hr. now destruct acc as [[? ?] ?].
  - cbn [Ref.ref_parse_obj_lines]. rewrite IH. destruct acc as [[V0 E0] F0].
    unfold Model.obj_vertex_line. change (Ref.word (TW obj_exp_kw_v) "v") with true. cbn iota.
    change (rtake_nums 3 (map fl (v3 (x, y, z)))) with (rtake_nums (length [x; y; z]) (map fl [x; y; z] ++ [])).
    rewrite rtake_nums_fl. reflexivity.
Qed.

Lemma ref_obj_edges (E : list (Z * Z)) rest acc :
  Forall (fun e => 0 <= fst e /\ 0 <= snd e) E ->
  ref_parse_obj_lines rest = Some acc ->
  ref_parse_obj_lines (map obj_edge_line E ++ rest) = Some (let '(V0, E0, F0) := acc in (V0, map e2 E ++ E0, F0)).
Proof.
  intros HE Hr. induction HE as [|[a b] E [Ha Hb] _ IH]; cbn [map app].
  - rewrite Hr. now destruct acc as [[? ?] ?].
  - cbn [Ref.ref_parse_obj_lines]. rewrite IH. destruct acc as [[V0 E0] F0].
    unfold Model.obj_edge_line, obj_exp_edge. cbn [fst snd map] in *.
    change (Ref.word (TW obj_exp_kw_l) "v") with false. change (Ref.word (TW obj_exp_kw_l) "l") with true. cbn iota.
    cbn [omap obj_index]. destruct (1 <=? a + 1) eqn:E1; [|lia]. destruct (1 <=? b + 1) eqn:E2; [|lia].
    replace (a + 1 - 1) with a by lia. replace (b + 1 - 1) with b by lia. reflexivity.
Qed.

Lemma ref_obj_faces (Fs : list (list Z)) :
  Forall (fun f => (3 <= length f)%nat /\ Forall (fun i => 0 <= i) f) Fs ->
  ref_parse_obj_lines (map obj_face_line Fs) = Some ([], [], Fs).
Proof.
  induction 1 as [|f Fs [Hl Hi] _ IH]; [reflexivity|].
  cbn [map Ref.ref_parse_obj_lines]. rewrite IH. unfold Model.obj_face_line.
  change (Ref.word (TW obj_exp_kw_f) "v") with false. change (Ref.word (TW obj_exp_kw_f) "l") with false.
  change (Ref.word (TW obj_exp_kw_f) "f") with true. cbn iota.
  rewrite (omap_obj_index _ Hi). destruct f as [|a [|b [|c f]]]; cbn in Hl; try lia. reflexivity.
Qed.

Lemma obj_ref_reads sw (m : mesh) L el :
  obj_exported_edges sw m = Some el -> obj_ref_ok el m -> print_obj sw m = Some L ->
  ref_parse_obj L = Some (raw_of Cx (map v3 (mV m)) (map e2 el) (mF m) []).
Proof.
  intros Hel [HE HF]. unfold Model.print_obj. rewrite Hel. intros [= <-]. unfold Ref.ref_parse_obj.
  rewrite (ref_obj_vertices _ _ _ (ref_obj_edges _ _ _ HE (ref_obj_faces _ HF))).
  cbn. now rewrite !app_nil_r.
Qed.

(* ---- obj : the reference writer's file loaded by mouette *)
Lemma obj_loads_ref (m : mesh) :
  nonneg_edges (mE m) -> nonneg_elems (mF m) ->
  parse_obj (ref_print_obj m) = Some (raw_of Cx (map v3 (mV m)) (map (fun e => keyify2 (fst e) (snd e)) (mE m)) (mF m) []).
Proof.
  intros HE HF. unfold Ref.ref_print_obj, Model.parse_obj, Model.parse_obj_lines.
  change (map (fun v => W Ftxt Ctxt "v" :: map fl (v3 v)) (mV m)) with (map obj_vertex_line (mV m)).
  change (map (fun e : Z * Z => [W Ftxt Ctxt "l"; I Ftxt Ctxt (fst e + 1); I Ftxt Ctxt (snd e + 1)]) (mE m)) with (map obj_edge_line (mE m)).
  change (map (fun f => W Ftxt Ctxt "f" :: map (fun i => I Ftxt Ctxt (i + 1)) f) (mF m)) with (map obj_face_line (mF m)).
  cbn [Model.parse_obj_from].
  change (0 + obj_line_nv [W Ftxt Ctxt "#"; W Ftxt Ctxt "reference"; W Ftxt Ctxt "writer"] + obj_line_nv [W Ftxt Ctxt "o"; W Ftxt Ctxt "mesh"]) with 0.
  rewrite (obj_vertices_block _ _ _ _ (obj_edges_block _ _ _ _ HE (obj_faces_block _ _ HF))).
  cbn. now rewrite !app_nil_r.
Qed.

(* ---- obj : RELATIVE references, as an independent writer may use them: after the n vertices, the vertex i (0 <= i < n) is
   written i - n (-1 is the last vertex).  mouette resolves them against the vertices read so far. *)
Definition obj_rel_face_line (n : Z) (f : list Z) : line := TW "f" :: map (fun i => TI (i - n)) f.
Definition obj_rel_edge_line (n : Z) (e : Z * Z) : line := [TW "l"; TI (fst e - n); TI (snd e - n)].
Definition ref_print_obj_rel (m : mesh) : list line :=
  let n := zlen (mV m) in
  map obj_vertex_line (mV m) ++ map (obj_rel_edge_line n) (mE m) ++ map (obj_rel_face_line n) (mF m).

Lemma obj_resolve_rel i n : i < n -> obj_imp_resolve (i - n) n = i.
Proof. intros H. unfold obj_imp_resolve. destruct (i - n >? 0) eqn:E; lia. Qed.

Lemma obj_rel_faces_block (Fs : list (list Z)) n :
  Forall (Forall (fun i => i < n)) Fs ->
  parse_obj_from n (map (obj_rel_face_line n) Fs) = Some ([], [], Fs).
Proof.
  induction 1 as [|f Fs Hf _ IH]; [reflexivity|].
  cbn [map Model.parse_obj_from].
  change (obj_line_nv (obj_rel_face_line n f)) with 0. rewrite Z.add_0_r.
  rewrite IH. unfold obj_step, obj_rel_face_line.
  change (is_word (TW "f") obj_imp_kw_v) with false.
  change (is_word (TW "f") obj_imp_kw_vn) with false.
  change (is_word (TW "f") obj_imp_kw_vt) with false.
  change (is_word (TW "f") obj_imp_kw_f) with true. cbn iota. cbn [skipn].
  rewrite omap_map.
  rewrite (omap_ext_some _ (fun x => x)); [now rewrite map_id|].
  intros v Hv. unfold obj_parse_vertex. cbn. f_equal. apply obj_resolve_rel.
  rewrite Forall_forall in Hf. now apply Hf.
Qed.

Lemma obj_rel_edges_block (E : list (Z * Z)) rest acc n :
  Forall (fun e => fst e < n /\ snd e < n) E ->
  parse_obj_from n rest = Some acc ->
  parse_obj_from n (map (obj_rel_edge_line n) E ++ rest) =
    Some (let '(V0, E0, F0) := acc in (V0, map (fun e => keyify2 (fst e) (snd e)) E ++ E0, F0)).
Proof.
  intros HE Hr. induction HE as [|[a b] E [Ha Hb] _ IH]; cbn [map app].
  - rewrite Hr. now destruct acc as [[? ?] ?].
  - cbn [Model.parse_obj_from].
    change (obj_line_nv (obj_rel_edge_line n (a, b))) with 0. rewrite Z.add_0_r.
    rewrite IH. destruct acc as [[V0 E0] F0].
    unfold obj_step, obj_rel_edge_line. cbn [fst snd].
    change (is_word (TW "l") obj_imp_kw_v) with false.
    change (is_word (TW "l") obj_imp_kw_vn) with false.
    change (is_word (TW "l") obj_imp_kw_vt) with false.
    change (is_word (TW "l") obj_imp_kw_f) with false.
    change (is_word (TW "l") obj_imp_kw_l) with true. cbn iota.
    cbn [map skipn length Nat.ltb Nat.leb omap py_int Model.py_int option_map consecutive fst snd app].
    cbn [fst snd] in Ha, Hb. rewrite !obj_resolve_rel by assumption. reflexivity.
Qed.

Lemma obj_loads_relative (m : mesh) :
  Forall (fun e => fst e < zlen (mV m) /\ snd e < zlen (mV m)) (mE m) ->
  Forall (Forall (fun i => i < zlen (mV m))) (mF m) ->
  parse_obj (ref_print_obj_rel m) = Some (raw_of Cx (map v3 (mV m)) (map (fun e => keyify2 (fst e) (snd e)) (mE m)) (mF m) []).
Proof.
  intros HE HF. unfold ref_print_obj_rel, Model.parse_obj, Model.parse_obj_lines.
  rewrite (obj_vertices_block (mV m) _ ([], map (fun e => keyify2 (fst e) (snd e)) (mE m) ++ [], mF m) 0).
  - cbn. now rewrite !app_nil_r.
  - rewrite Z.add_0_l. rewrite (obj_rel_edges_block _ _ _ _ HE (obj_rel_faces_block _ _ HF)). reflexivity.
Qed.

(* ---- medit : the reference writer's file loaded by mouette *)
Notation ref_print_medit := (@ref_print_medit F Ftxt Cx Ctxt pf).
Notation ref_medit_block := (@ref_medit_block Ftxt Ctxt).

Lemma medit_ref_block_run kw c a (els : list (list Z)) acc rest :
  (c = 1 \/ c = 2 \/ c = 3) ->
  line_is [TW kw] medit_imp_end = false ->
  medit_keyword [TW kw] = Some (KField c a) ->
  medit_run (MIdle, acc) (ref_medit_block kw a els ++ rest) = medit_run (MIdle, add_field c (filter (len_is a) els) acc) rest.
Proof.
  intros Hc Hend Hkw. unfold Ref.ref_medit_block.
  destruct (filter (len_is a) els) as [|e0 sel] eqn:Esel.
  - cbn. now rewrite add_field_nil.
  - cbn [isnil app]. cbn [Model.medit_run Model.medit_step].
    change (W Ftxt Ctxt kw) with (TW kw). rewrite Hend, Hkw.
    change (I Ftxt Ctxt (zlen (e0 :: sel))) with (TI (zlen (e0 :: sel))). cbn [Model.medit_step].
    destruct (zlen (e0 :: sel) <=? 0) eqn:E; [unfold zlen in E; cbn in E; lia|].
    rewrite zlen_nat. cbn [length].
    change (map (fun e => map (fun i => I Ftxt Ctxt (i + 1)) e ++ [I Ftxt Ctxt 0]) (e0 :: sel)) with (map (elem_line_r 0) (e0 :: sel)).
    rewrite (medit_block_field_r 0 c a (e0 :: sel) Hc) with (r := length sel); [reflexivity | | reflexivity].
    rewrite <- Esel. apply filter_len_Forall.
Qed.

Lemma medit_loads_ref (m : mesh) :
  parse_medit (ref_print_medit m)
  = Some (raw_of Cx (map v3 (mV m)) (map e2 (mE m))
            (filter (len_is 3) (mF m) ++ filter (len_is 4) (mF m)) (filter (len_is 4) (mC m) ++ filter (len_is 8) (mC m))).
Proof.
  unfold Ref.ref_print_medit, Model.parse_medit.
  rewrite !medit_header_run.
  (* vertices: written even when there are none *)
  assert (HV : forall acc rest, medit_run (MIdle, acc)
      (([W Ftxt Ctxt "Vertices"] :: [I Ftxt Ctxt (zlen (mV m))] :: map (fun v => map fl (v3 v) ++ [I Ftxt Ctxt 0]) (mV m)) ++ rest)
      = medit_run (MIdle, add_vertices (map v3 (mV m)) acc) rest).
  { intros acc rest. cbn [app Model.medit_run Model.medit_step].
    change (line_is [W Ftxt Ctxt "Vertices"] medit_imp_end) with false.
    change (medit_keyword [W Ftxt Ctxt "Vertices"]) with (Some KVert). cbn iota.
    change (I Ftxt Ctxt (zlen (mV m))) with (TI (zlen (mV m))). cbn [Model.medit_step].
    destruct (mV m) as [|v V].
    - cbn. destruct acc as [[[? ?] ?] ?]. cbn. now rewrite app_nil_r.
    - destruct (zlen (v :: V) <=? 0) eqn:E; [unfold zlen in E; cbn in E; lia|].
      rewrite zlen_nat. cbn [length].
      rewrite (medit_block_vertices 0 (v :: V) (length V)) by reflexivity. reflexivity. }
  rewrite HV.
  rewrite (medit_ref_block_run "Edges" 1 2) by (try reflexivity; now left).
  rewrite (medit_ref_block_run "Triangles" 2 3) by (try reflexivity; tauto).
  rewrite (medit_ref_block_run "Quadrilaterals" 2 4) by (try reflexivity; tauto).
  rewrite (medit_ref_block_run "Tetrahedra" 3 4) by (try reflexivity; tauto).
  rewrite (medit_ref_block_run "Hexahedra" 3 8) by (try reflexivity; tauto).
  cbn [Model.medit_run Model.medit_step].
  change (line_is [W Ftxt Ctxt "End"] medit_imp_end) with true. cbn iota.
  assert (HE : filter (len_is 2) (map e2 (mE m)) = map e2 (mE m)).
  { induction (mE m) as [|[a b] E IH]; [reflexivity|]. cbn. now rewrite IH. }
  rewrite HE. cbn. rewrite ?app_nil_r. reflexivity.
Qed.


(* ---- medit : mouette's file read by the reference reader (free-form: works on the stream of tokens) *)
Notation ref_medit_loop := (@ref_medit_loop F Ftxt Ctxt rf f_of_int).
Notation ref_parse_medit := (@ref_parse_medit F Ftxt Cx Ctxt rf f_of_int).
Notation rmacc := (rmacc F).
Notation rtake_ints := (@take_ints Ftxt Ctxt).
Notation rtake_records := (@take_records Ftxt Ctxt).

Definition blk (B : list tok) (f : rmacc -> rmacc) : Prop :=
  B <> [] /\ forall fuel rest a, ref_medit_loop (S fuel) (B ++ rest) a = ref_medit_loop fuel rest (f a).

Lemma run_blocks (bs : list (list tok * (rmacc -> rmacc))) :
  Forall (fun b => blk (fst b) (snd b)) bs -> forall a extra,
  ref_medit_loop (S (length (concat (map fst bs)) + extra)) (concat (map fst bs)) a
  = Some (fold_left (fun a b => snd b a) bs a).
Proof.
  induction 1 as [|[B f] bs [Hne Hb] _ IH]; intros a extra; [reflexivity|].
  cbn [map concat fst snd fold_left] in *. rewrite app_length.
  destruct B as [|t B]; [congruence|]. cbn [length].
  replace (S (S (length B) + length (concat (map fst bs)) + extra))
    with (S (S (length (concat (map fst bs)) + (length B + extra)))) by lia.
  rewrite Hb. apply IH.
Qed.

Lemma rtake_ints_TI (zs : list Z) rest : rtake_ints (length zs) (map TI zs ++ rest) = Some (zs, rest).
Proof. induction zs as [|z zs IH]; [reflexivity|]. cbn [length map app Ref.take_ints Ref.int]. rewrite IH. reflexivity. Qed.

Lemma take_vertex_records rn (V : list (F * F * F)) rest :
  rtake_records rtake_nums 3 1 (length V) (concat (map (fun v => map fl (v3 v) ++ [TI rn]) V) ++ rest) = Some (map v3 V, rest).
Proof.
  induction V as [|[[x y] z] V IH]; [reflexivity|].
  cbn [length map concat Ref.take_records]. rewrite <- !app_assoc.
  rewrite (rtake_nums_fl [x; y; z]). cbn [app length Nat.ltb Nat.leb skipn]. rewrite IH. reflexivity.
Qed.

Lemma take_elem_records rn (ar : nat) (els : list (list Z)) rest : Forall (fun e => length e = ar) els ->
  rtake_records rtake_ints ar 1 (length els) (concat (map (elem_line_r rn) els) ++ rest) = Some (map (map medit_exp_idx) els, rest).
Proof.
  induction 1 as [|e els He _ IH]; [reflexivity|].
  cbn [length map concat Ref.take_records]. unfold elem_line_r at 1. rewrite <- !app_assoc.
  rewrite <- (map_map medit_exp_idx TI). rewrite <- He, <- (map_length medit_exp_idx e), rtake_ints_TI.
  cbn [app length Nat.ltb Nat.leb skipn]. rewrite map_length, He, IH. reflexivity.
Qed.

Lemma map_unshift (els : list (list Z)) : map (map (fun i => i - 1)) (map (map medit_exp_idx) els) = els.
Proof.
  rewrite map_map. rewrite <- (map_id els) at 2. apply map_ext. intros e. rewrite map_map. rewrite <- (map_id e) at 2.
  apply map_ext. intros i. unfold medit_exp_idx. lia.
Qed.

Definition add_kV (V : list (list F)) (a : rmacc) : rmacc := mkrmacc (kV a ++ V) (kE a) (kTri a) (kQuad a) (kTet a) (kHex a).

Lemma blk_two w n : (w = "MeshVersionFormatted"%string \/ (w = "Dimension"%string /\ n = 3)) -> blk [TW w; TI n] (fun a => a).
Proof. intros [-> | [-> ->]]; (split; [discriminate|]); intros fuel rest a; reflexivity. Qed.

Lemma blk_vertices rn (V : list (F * F * F)) :
  blk (TW "Vertices" :: TI (zlen V) :: concat (map (fun v => map fl (v3 v) ++ [TI rn]) V)) (add_kV (map v3 V)).
Proof.
  split; [discriminate|]. intros fuel rest a. cbn [app Ref.ref_medit_loop].
  change (String.eqb "Vertices" "End") with false. change (String.eqb "Vertices" "MeshVersionFormatted") with false.
  change (String.eqb "Vertices" "Dimension") with false. change (String.eqb "Vertices" "Vertices") with true. cbn iota.
  destruct (zlen V <? 0) eqn:E; [unfold zlen in E; lia|]. rewrite zlen_nat, take_vertex_records. reflexivity.
Qed.

Lemma blk_field rn kw (ar : nat) (els : list (list Z)) :
  In (kw, ar) medit_kinds ->
  Forall (fun e => length e = ar) els ->
  blk (TW kw :: TI (zlen els) :: concat (map (elem_line_r rn) els)) (rmacc_add kw (map (map medit_exp_idx) els)).
Proof.
  intros Hk Hall. split; [discriminate|]. intros fuel rest a. cbn [app Ref.ref_medit_loop].
  unfold medit_kinds in Hk. cbn [In] in Hk.
  destruct Hk as [Hk|[Hk|[Hk|[Hk|[Hk|[]]]]]]; injection Hk as <- <-;
    (cbn [String.eqb Ascii.eqb Bool.eqb find fst medit_kinds]; cbn iota;
     destruct (zlen els <? 0) eqn:E; [unfold zlen in E; lia|];
     rewrite zlen_nat, (take_elem_records rn _ els rest Hall); reflexivity).
Qed.

Lemma Forall_len_nat a (els : list (list Z)) : Forall (fun e => length e = Z.to_nat a) (filter (len_is a) els).
Proof. apply Forall_forall. intros e He. apply filter_In in He as [_ He]. unfold len_is, zlen in He. lia. Qed.

Definition medit_rblock (kw : string) (a : Z) (els : list (list Z)) : list (list tok * (rmacc -> rmacc)) :=
  if count_if (len_is a) els >? 0
  then [(TW kw :: TI (zlen (filter (len_is a) els)) :: concat (map (elem_line_r medit_exp_ref) (filter (len_is a) els)),
         rmacc_add kw (map (map medit_exp_idx) (filter (len_is a) els)))]
  else [].

Lemma concat_medit_block kw c a (els : list (list Z)) :
  concat (medit_block els (kw, c, a, a)) = concat (map fst (medit_rblock kw a els)).
Proof.
  unfold Model.medit_block, medit_rblock. destruct (count_if (len_is a) els >? 0); [|reflexivity].
  cbn [concat map fst app]. rewrite concat_app. cbn [concat]. rewrite !app_nil_r. reflexivity.
Qed.

Lemma medit_rblock_ok kw (ar : nat) a (els : list (list Z)) :
  In (kw, ar) medit_kinds -> Z.to_nat a = ar ->
  Forall (fun b => blk (fst b) (snd b)) (medit_rblock kw a els).
Proof.
  intros Hk Ha. unfold medit_rblock. destruct (count_if (len_is a) els >? 0); [|constructor].
  constructor; [|constructor]. cbn [fst snd]. apply (blk_field medit_exp_ref kw ar); [assumption|]. rewrite <- Ha. apply Forall_len_nat.
Qed.

Lemma fold_rblock kw a (els : list (list Z)) acc :
  fold_left (fun a0 b => snd b a0) (medit_rblock kw a els) acc = rmacc_add kw (map (map medit_exp_idx) (filter (len_is a) els)) acc.
Proof.
  unfold medit_rblock. destruct (count_if (len_is a) els >? 0) eqn:E; [reflexivity|].
  unfold count_if in E. destruct (filter (len_is a) els) as [|e l]; [|unfold zlen in E; cbn in E; lia].
  cbn. unfold rmacc_add. cbn. destruct acc. cbn. rewrite !app_nil_r.
  destruct (String.eqb kw "Edges"), (String.eqb kw "Triangles"), (String.eqb kw "Quadrilaterals"), (String.eqb kw "Tetrahedra"); reflexivity.
Qed.

Lemma add_kV_mk X V E T Q Te H : add_kV X (mkrmacc V E T Q Te H) = mkrmacc (V ++ X) E T Q Te H.
Proof. reflexivity. Qed.
Lemma radd_E els (V : list (list F)) E T Q Te H :
  rmacc_add "Edges" els (mkrmacc V E T Q Te H) = mkrmacc V (E ++ map (map (fun i => i - 1)) els) T Q Te H.
Proof. reflexivity. Qed.
Lemma radd_T els (V : list (list F)) E T Q Te H :
  rmacc_add "Triangles" els (mkrmacc V E T Q Te H) = mkrmacc V E (T ++ map (map (fun i => i - 1)) els) Q Te H.
Proof. reflexivity. Qed.
Lemma radd_Q els (V : list (list F)) E T Q Te H :
  rmacc_add "Quadrilaterals" els (mkrmacc V E T Q Te H) = mkrmacc V E T (Q ++ map (map (fun i => i - 1)) els) Te H.
Proof. reflexivity. Qed.
Lemma radd_Te els (V : list (list F)) E T Q Te H :
  rmacc_add "Tetrahedra" els (mkrmacc V E T Q Te H) = mkrmacc V E T Q (Te ++ map (map (fun i => i - 1)) els) H.
Proof. reflexivity. Qed.
Lemma radd_H els (V : list (list F)) E T Q Te H :
  rmacc_add "Hexahedra" els (mkrmacc V E T Q Te H) = mkrmacc V E T Q Te (H ++ map (map (fun i => i - 1)) els).
Proof. reflexivity. Qed.

Lemma medit_ref_reads (m : mesh) L : print_medit m = Some L -> option_map Some (ref_parse_medit (concat L)) = Some (vocab_medit m).
Proof.
  unfold Model.print_medit, Model.vocab_medit.
  rewrite (omap_ext_some _ _ _ (fun v _ => medit_vertex_line_eq v)).
  destruct (medit_exported_edges m) as [el|] eqn:Eel; [|discriminate].
  intros [= <-].
  set (bs := [([TW "MeshVersionFormatted"; TI 1], fun a : rmacc => a); ([TW "Dimension"; TI 3], fun a : rmacc => a)]
             ++ (if isnil (mV m) then [] else
                   [(TW "Vertices" :: TI (zlen (mV m)) :: concat (map (fun v => map fl (v3 v) ++ [TI medit_exp_ref]) (mV m)), add_kV (map v3 (mV m)))])
             ++ (if isnil (mE m) then [] else
                   [(TW "Edges" :: TI (zlen (map e2 el)) :: concat (map (elem_line_r medit_exp_ref) (map e2 el)),
                     rmacc_add "Edges" (map (map medit_exp_idx) (map e2 el)))])
             ++ (if isnil (mF m) then [] else medit_rblock "Triangles" 3 (mF m) ++ medit_rblock "Quadrilaterals" 4 (mF m))
             ++ (if isnil (mC m) then [] else medit_rblock "Hexahedra" 8 (mC m) ++ medit_rblock "Tetrahedra" 4 (mC m))).
  match goal with |- option_map Some (ref_parse_medit (concat ?X)) = _ => assert (Hcat : concat X = concat (map fst bs)) end.
  { unfold bs. rewrite !map_app, !concat_cons, !concat_app. cbn [map fst concat]. rewrite <- !app_assoc. cbn [app].
    do 4 f_equal. f_equal; [|f_equal; [|f_equal]].
    - destruct (isnil (mV m)); [reflexivity|]. cbn [concat map fst app]. rewrite concat_app. cbn [concat]. now rewrite !app_nil_r.
    - destruct (isnil (mE m)); [reflexivity|]. cbn [concat map fst app]. rewrite concat_app. cbn [concat]. rewrite !app_nil_r.
      rewrite zlen_map, map_map. reflexivity.
    - destruct (isnil (mF m)); [reflexivity|]. unfold Model.medit_blocks. cbn [filter medit_exp_blocks Z.eqb Pos.eqb flat_map].
      rewrite app_nil_r, map_app, !concat_app. now rewrite !concat_medit_block.
    - destruct (isnil (mC m)); [reflexivity|]. unfold Model.medit_blocks. cbn [filter medit_exp_blocks Z.eqb Pos.eqb flat_map].
      rewrite app_nil_r, map_app, !concat_app. now rewrite !concat_medit_block. }
  rewrite Hcat. unfold Ref.ref_parse_medit.
  assert (Hbs : Forall (fun b => blk (fst b) (snd b)) bs).
  { unfold bs. repeat (apply Forall_app; split).
    - repeat constructor; cbn [fst snd]; apply blk_two; tauto.
    - destruct (isnil (mV m)); constructor; [|constructor]. apply blk_vertices.
    - destruct (isnil (mE m)); constructor; [|constructor]. cbn [fst snd]. apply (blk_field medit_exp_ref "Edges" 2); [cbn; tauto|].
      apply Forall_forall. intros e He. apply in_map_iff in He as [[a b] [<- _]]. reflexivity.
    - destruct (isnil (mF m)); [constructor|]. apply Forall_app. split; [apply (medit_rblock_ok "Triangles" 3) | apply (medit_rblock_ok "Quadrilaterals" 4)]; try reflexivity; cbn; tauto.
    - destruct (isnil (mC m)); [constructor|]. apply Forall_app. split; [apply (medit_rblock_ok "Hexahedra" 8) | apply (medit_rblock_ok "Tetrahedra" 4)]; try reflexivity; cbn; tauto. }
  pose proof (run_blocks bs Hbs (mkrmacc [] [] [] [] [] []) 0) as Hrun. rewrite Nat.add_0_r in Hrun. rewrite Hrun. clear Hrun Hcat Hbs.
  cbn [option_map]. f_equal. f_equal.
  unfold bs. rewrite !fold_left_app. cbn [fold_left snd].
  (* evaluate the folds block by block *)
  assert (HF : flat_map (fun b : string * Z * Z * Z => let '(_, _, war, _) := b in filter (len_is war) (mF m))
                        (filter (fun b : string * Z * Z * Z => let '(_, c, _, _) := b in c =? 2) medit_exp_blocks)
               = filter (len_is 3) (mF m) ++ filter (len_is 4) (mF m)) by (cbn; now rewrite app_nil_r).
  assert (HC : flat_map (fun b : string * Z * Z * Z => let '(_, _, war, _) := b in filter (len_is war) (mC m))
                        (filter (fun b : string * Z * Z * Z => let '(_, c, _, _) := b in c =? 3) medit_exp_blocks)
               = filter (len_is 8) (mC m) ++ filter (len_is 4) (mC m)) by (cbn; now rewrite app_nil_r).
  rewrite HF, HC. clear HF HC.
  unfold Model.medit_exported_edges in Eel.
  clear bs.
  destruct (mV m) as [|v0 V0]; destruct (mE m) as [|e0 E0]; destruct (mF m) as [|f0 F0]; destruct (mC m) as [|c0 C0];
    cbn [isnil fold_left snd app] in Eel |- *; rewrite ?fold_left_app, ?fold_rblock; try (injection Eel as <-);
    rewrite ?add_kV_mk, ?radd_E, ?radd_T, ?radd_Q, ?radd_H, ?radd_Te; cbn [kV kE kTri kQuad kTet kHex app];
    rewrite ?map_unshift; cbn [map filter app]; rewrite ?app_nil_r; reflexivity.
Qed.

End Proofs.
