(* C04 - round-trip proofs for the line/token codecs xyz, obj, off, tet, medit (all meshes, by induction on
   the vertex / element lists).  The only fact used about floats is the section hypothesis
   rf (pf x) = x  (Python: float('{}'.format(x)) == x for a binary64 x). *)
From Coq Require Import ZArith Bool String Ascii Lia.
From Coq Require Import List.
Import ListNotations.
Require Import MV.Lib.Base MV.C04.Gen MV.C04.Model.
Open Scope list_scope.
Open Scope Z_scope.

Lemma omap_ext_some {A B} (f : A -> option B) (g : A -> B) l :
  (forall x, In x l -> f x = Some (g x)) -> omap f l = Some (map g l).
Proof.
  induction l as [|a l IH]; intros H; cbn; [reflexivity|].
  rewrite (H a (or_introl eq_refl)), IH; [reflexivity|]. intros x Hx. apply H. now right.
Qed.

Lemma omap_map {A B C} (f : B -> option C) (g : A -> B) l : omap f (map g l) = omap (fun x => f (g x)) l.
Proof. induction l as [|a l IH]; cbn; [reflexivity|]. now rewrite IH. Qed.

Lemma omap_length {A B} (f : A -> option B) l r : omap f l = Some r -> length r = length l.
Proof.
  revert r. induction l as [|a l IH]; cbn; intros r H.
  - now inversion H.
  - destruct (f a); [|discriminate]. destruct (omap f l); [|discriminate]. inversion H. cbn. f_equal. now apply IH.
Qed.

Lemma firstn_app_all {A} (l r : list A) : firstn (length l) (l ++ r) = l.
Proof. rewrite firstn_app, Nat.sub_diag, firstn_all. cbn. apply app_nil_r. Qed.
Lemma skipn_app_all {A} (l r : list A) : skipn (length l) (l ++ r) = r.
Proof. rewrite skipn_app, Nat.sub_diag, skipn_all. reflexivity. Qed.

Lemma zlen_nat {A} (l : list A) : Z.to_nat (zlen l) = length l.
Proof. unfold zlen. lia. Qed.
Lemma zlen_map {A B} (f : A -> B) l : zlen (map f l) = zlen l.
Proof. unfold zlen. now rewrite map_length. Qed.
Lemma zlen_nonneg {A} (l : list A) : 0 <= zlen l.
Proof. unfold zlen. lia. Qed.
Lemma isnil_false_zlen {A} (l : list A) : isnil l = false -> 0 < zlen l.
Proof. destruct l; cbn; [discriminate|]. unfold zlen. cbn. lia. Qed.

Section Proofs.
Variables F Ftxt Cx Ctxt : Type.
Variable pf : F -> Ftxt.
Variable rf : Ftxt -> F.
Variable f_of_int : Z -> F.
Hypothesis rf_pf : forall x, rf (pf x) = x.

Notation tok := (tok Ftxt Ctxt).
Notation line := (list tok).
Notation mesh := (mesh F Cx).
Notation raw := (raw F Cx).
Notation py_float := (@py_float F Ftxt Ctxt rf f_of_int).
Notation py_int := (@py_int Ftxt Ctxt).
Notation fl := (@fl F Ftxt Ctxt pf).
Notation TI := (@TInt Ftxt Ctxt).
Notation TW := (@TWord Ftxt Ctxt).

Lemma py_float_fl x : py_float (fl x) = Some x.
Proof. cbn. now rewrite rf_pf. Qed.

Lemma omap_float_fl (l : list F) : omap py_float (map fl l) = Some l.
Proof.
  rewrite omap_map. rewrite (omap_ext_some _ (fun x => x)); [now rewrite map_id|].
  intros x _. apply py_float_fl.
Qed.

Lemma omap_int_TInt (l : list Z) : omap py_int (map TI l) = Some l.
Proof. rewrite omap_map. rewrite (omap_ext_some _ (fun x => x)); [now rewrite map_id|]. reflexivity. Qed.

(* ------------------------------------------------------------------ xyz *)
Lemma print_xyz_eq (m : mesh) : print_xyz pf m = Some (map (fun v => map fl (v3 v)) (mV m)).
Proof.
  unfold print_xyz. apply omap_ext_some. intros [[x y] z] _. reflexivity.
Qed.

Lemma parse_xyz_lines_print (V : list (F * F * F)) :
  parse_xyz_lines rf f_of_int (map (fun v => map fl (v3 v)) V) = Some (map v3 V).
Proof.
  induction V as [|[[x y] z] V IH]; [reflexivity|].
  cbn [map parse_xyz_lines]. rewrite IH, omap_float_fl. reflexivity.
Qed.

Lemma xyz_roundtrip (m : mesh) L : print_xyz pf m = Some L -> parse_xyz rf f_of_int L = Some (vocab_xyz m).
Proof.
  rewrite print_xyz_eq. intros H. inversion H; subst. unfold parse_xyz. now rewrite parse_xyz_lines_print.
Qed.

(* ------------------------------------------------------------------ obj *)
Definition obj_acc_app (a b : list (list F) * list (list Z) * list (list Z)) :=
  let '(V1, E1, F1) := a in let '(V2, E2, F2) := b in (V1 ++ V2, E1 ++ E2, F1 ++ F2).

Lemma parse_obj_lines_app (l1 l2 : list line) a2 :
  parse_obj_lines rf f_of_int l2 = Some a2 ->
  forall a1, (forall acc, parse_obj_lines rf f_of_int l1 = Some a1 /\
                 True) ->
  True.
Proof. trivial. Qed.

(* each block of lines only adds to its own container *)
Lemma obj_vertices_block (V : list (F * F * F)) rest acc :
  parse_obj_lines rf f_of_int rest = Some acc ->
  parse_obj_lines rf f_of_int (map (obj_vertex_line pf) V ++ rest) =
    Some (let '(V0, E0, F0) := acc in (map v3 V ++ V0, E0, F0)).
Proof.
  intros Hr. induction V as [|[[x y] z] V IH]; cbn [map app].
  - rewrite Hr. now destruct acc as [[? ?] ?].
  - cbn [parse_obj_lines]. rewrite IH. destruct acc as [[V0 E0] F0].
    unfold obj_step, obj_vertex_line. cbn [v3 map].
    change (is_word (TW obj_exp_kw_v) obj_imp_kw_v) with true. cbn iota.
    change (slice (TW obj_exp_kw_v :: [fl x; fl y; fl z]) obj_imp_v_lo obj_imp_v_hi) with (map fl [x; y; z]).
    rewrite omap_float_fl. reflexivity.
Qed.

Lemma obj_edges_block (E : list (Z * Z)) rest acc :
  parse_obj_lines rf f_of_int rest = Some acc ->
  parse_obj_lines rf f_of_int (map (@obj_edge_line Ftxt Ctxt) E ++ rest) =
    Some (let '(V0, E0, F0) := acc in (V0, map (fun e => keyify2 (fst e) (snd e)) E ++ E0, F0)).
Proof.
  intros Hr. induction E as [|[a b] E IH]; cbn [map app].
  - rewrite Hr. now destruct acc as [[? ?] ?].
  - cbn [parse_obj_lines]. rewrite IH. destruct acc as [[V0 E0] F0].
    unfold obj_step, obj_edge_line. cbn [fst snd].
    change (is_word (TW obj_exp_kw_l) obj_imp_kw_v) with false.
    change (is_word (TW obj_exp_kw_l) obj_imp_kw_vn) with false.
    change (is_word (TW obj_exp_kw_l) obj_imp_kw_vt) with false.
    change (is_word (TW obj_exp_kw_l) obj_imp_kw_f) with false.
    change (is_word (TW obj_exp_kw_l) obj_imp_kw_l) with true. cbn iota.
    unfold obj_imp_edge_pos, obj_exp_edge, obj_imp_edge. cbn [map omap nthz].
    cbn. replace (a + 1 - 1) with a by lia. replace (b + 1 - 1) with b by lia. reflexivity.
Qed.

Lemma obj_faces_block (Fs : list (list Z)) :
  parse_obj_lines rf f_of_int (map (@obj_face_line Ftxt Ctxt) Fs) = Some ([], [], Fs).
Proof.
  induction Fs as [|f Fs IH]; [reflexivity|].
  cbn [map parse_obj_lines]. rewrite IH. unfold obj_step, obj_face_line.
  change (is_word (TW obj_exp_kw_f) obj_imp_kw_v) with false.
  change (is_word (TW obj_exp_kw_f) obj_imp_kw_vn) with false.
  change (is_word (TW obj_exp_kw_f) obj_imp_kw_vt) with false.
  change (is_word (TW obj_exp_kw_f) obj_imp_kw_f) with true. cbn iota. cbn [skipn].
  rewrite omap_map.
  rewrite (omap_ext_some _ (fun x => x)); [now rewrite map_id|].
  intros v _. unfold obj_parse_vertex, obj_imp_vid, obj_exp_vid. cbn. f_equal. lia.
Qed.

Lemma obj_roundtrip sw (m : mesh) L :
  print_obj pf sw m = Some L -> parse_obj rf f_of_int L = vocab_obj sw m.
Proof.
  unfold print_obj, vocab_obj. destruct (obj_exported_edges sw m) as [el|]; [|discriminate].
  intros H. inversion H; subst; clear H. unfold parse_obj.
  rewrite (obj_vertices_block _ _ _ (obj_edges_block _ _ _ (obj_faces_block _))).
  cbn. now rewrite !app_nil_r.
Qed.

(* ------------------------------------------------------------------ off *)
Lemma off_faces_print (Fs : list (list Z)) :
  Forall (fun f => 3 <= zlen f) Fs ->
  off_faces (map (@sized_line Ftxt Ctxt) Fs) = Some (Fs, []).
Proof.
  induction 1 as [|f Fs Hf _ IH]; [reflexivity|].
  cbn [map off_faces]. rewrite IH. unfold sized_line at 1. cbn [py_int Model.py_int].
  unfold off_imp_is_face. destruct (zlen f >=? 3) eqn:E; [|lia].
  unfold off_imp_face_lo, off_imp_face_hi, slice.
  replace (Z.to_nat (zlen f + 1 - 1)) with (length f) by (unfold zlen; lia).
  cbn [Z.to_nat Pos.to_nat Pos.iter_op Nat.add skipn].
  rewrite <- (map_length TI f) at 1. rewrite firstn_all, omap_int_TInt. reflexivity.
Qed.

(* faces of fewer than 3 vertices are outside what an OFF file written by export_off gives back:
   `2 a b` is read as an edge, `1 a` and `0` are skipped *)
Definition off_ok (m : mesh) : Prop := Forall (fun f => 3 <= zlen f) (mF m).

Lemma filter_nonempty_off_lines (V : list (F * F * F)) (Fs : list (list Z)) :
  filter (fun l : line => negb (isnil l)) (map (off_vertex_line pf) V ++ map (@sized_line Ftxt Ctxt) Fs)
  = map (off_vertex_line pf) V ++ map (@sized_line Ftxt Ctxt) Fs.
Proof.
  rewrite filter_app. f_equal.
  - induction V as [|[[x y] z] V IH]; [reflexivity|]. cbn. now rewrite IH.
  - induction Fs as [|f Fs IH]; [reflexivity|]. cbn. now rewrite IH.
Qed.

Lemma omap_vertex_lines (V : list (F * F * F)) :
  omap (omap py_float) (map (off_vertex_line pf) V) = Some (map v3 V).
Proof.
  rewrite omap_map. apply omap_ext_some. intros v _. unfold off_vertex_line. apply omap_float_fl.
Qed.

Lemma off_roundtrip (m : mesh) : off_ok m -> parse_off rf f_of_int (print_off pf m) = Some (vocab_off m).
Proof.
  intros Hok. unfold parse_off, print_off.
  cbn [filter isnil negb].
  change (isnil (map TI (off_exp_counts (zlen (mV m)) (zlen (mF m)) (zlen (mE m))))) with false. cbn [negb].
  rewrite filter_nonempty_off_lines.
  change (is_word (TW off_header) off_header) with true. cbn iota.
  rewrite omap_int_TInt. unfold off_exp_counts, off_imp_ncounts, off_imp_counts_nv, off_imp_counts_nf.
  cbn [zlen length Z.of_nat Z.eqb Pos.eqb Pos.of_succ_nat Pos.succ nthz Z.ltb Z.compare Z.to_nat nth_error].
  rewrite !zlen_nat.
  rewrite <- (map_length (off_vertex_line pf) (mV m)) at 1.
  rewrite app_length, map_length.
  destruct (Nat.ltb_spec (length (mV m) + length (map (@sized_line Ftxt Ctxt) (mF m))) (length (mV m))) as [Hlt|_]; [lia|].
  rewrite <- (map_length (off_vertex_line pf) (mV m)) at 1 2.
  rewrite firstn_app_all, skipn_app_all, omap_vertex_lines.
  rewrite <- (map_length (@sized_line Ftxt Ctxt) (mF m)) at 2 3.
  rewrite Nat.ltb_irrefl, firstn_all, off_faces_print by assumption.
  reflexivity.
Qed.

(* ------------------------------------------------------------------ tet *)
Lemma tet_roundtrip (m : mesh) : parse_tet rf f_of_int (print_tet pf m) = Some (vocab_tet m).
Proof.
  unfold parse_tet, print_tet. unfold tet_imp_count_pos. cbn [nthz Z.ltb Z.compare Z.to_nat nth_error py_int Model.py_int].
  rewrite !zlen_nat.
  rewrite app_length, !map_length.
  destruct (Nat.ltb_spec (length (mV m) + length (mC m)) (length (mV m))) as [Hlt|_]; [lia|].
  rewrite <- (map_length (off_vertex_line pf) (mV m)) at 1 2.
  rewrite firstn_app_all, skipn_app_all, omap_vertex_lines, map_length, Nat.ltb_irrefl.
  rewrite <- (map_length (@sized_line Ftxt Ctxt) (mC m)) at 1. rewrite firstn_all.
  rewrite omap_map. rewrite (omap_ext_some _ (fun c => c)); [now rewrite map_id|].
  intros c _. unfold sized_line, tet_imp_cell_lo. cbn [Z.to_nat Pos.to_nat Pos.iter_op Nat.add skipn].
  apply omap_int_TInt.
Qed.

End Proofs.
