(* C04 - executable model of mouette/mesh/io/geogram_ascii.py (export_geogram_ascii / import_geogram_ascii,
   Chunk, import_attribute, export_attribute).  A geogram_ascii file is a list of lines, each holding one token
   (after removal of '#' comments and blanks); chunk names, type names, byte sizes, field positions and the
   container recognition order come from Gen.v.  No proofs here. *)
From Coq Require Import ZArith Bool String Ascii.
From Coq Require Import List.
Import ListNotations.
Require Import MV.Lib.Base MV.C04.Gen MV.C04.Model.
Open Scope list_scope.
Open Scope Z_scope.
Set Implicit Arguments.
Set Maximal Implicit Insertion.

(* ------------------------------------------------------------------ strings *)
(* needle in hay (Python `in` on str) *)
Fixpoint contains (needle hay : string) : bool :=
  String.prefix needle hay || match hay with EmptyString => false | String _ t => contains needle t end.
Definition dquote : ascii := """"%char.
Definition qs (s : string) : string := String dquote (s ++ String dquote EmptyString).
(* s.split(dquote)[1] : the text between the first double quote and the next one (or the end); None = IndexError *)
Fixpoint upto_quote (s : string) : string :=
  match s with
  | EmptyString => EmptyString
  | String c t => if Ascii.eqb c dquote then EmptyString else String c (upto_quote t)
  end.
Fixpoint split_quote_1 (s : string) : option string :=
  match s with
  | EmptyString => None
  | String c t => if Ascii.eqb c dquote then Some (upto_quote t) else split_quote_1 t
  end.

Definition aty_code (t : aty) : Z :=
  match t with TyBool => 0 | TyInt => 1 | TyFloat => 2 | TyComplex => 3 | TyString => 4 end.
Definition aty_of_code (z : Z) : option aty :=
  if z =? 0 then Some TyBool else if z =? 1 then Some TyInt else if z =? 2 then Some TyFloat
  else if z =? 3 then Some TyComplex else if z =? 4 then Some TyString else None.

(* Attribute.Type.to_string / byte_size / from_string *)
Definition geo_type_string (t : aty) : string :=
  match find (fun r => let '(c, _, _, _) := r in c =? aty_code t) geo_types with Some (_, s, _, _) => s | None => ""%string end.
Definition geo_byte_size (t : aty) : Z :=
  match find (fun r => let '(c, _, _, _) := r in c =? aty_code t) geo_types with Some (_, _, b, _) => b | None => 0 end.
Definition geo_type_from (s : string) : option aty :=
  match find (fun r => let '(_, _, _, acc) := r in existsb (String.eqb s) acc) geo_types with
  | Some (c, _, _, _) => aty_of_code c
  | None => None
  end.
Definition geo_container_of_string (s : string) : option Z :=
  match find (fun e => contains (fst e) s) geo_container_from with Some (_, c) => Some c | None => None end.

(* urllib.parse.quote / unquote on ASCII text: letters, digits, "_.-~" and the characters of `safe` are kept, every other
   character becomes %XX (upper-case hexadecimal) *)
Definition hex_digit (n : N) : ascii :=
  ascii_of_N (if (n <? 10)%N then 48 + n else 55 + n)%N.
Definition hex_value (c : ascii) : option N :=
  let n := N_of_ascii c in
  if ((48 <=? n) && (n <=? 57))%N then Some (n - 48)%N
  else if ((65 <=? n) && (n <=? 70))%N then Some (n - 55)%N
  else if ((97 <=? n) && (n <=? 102))%N then Some (n - 87)%N else None.
Definition always_safe (c : ascii) : bool :=
  let n := N_of_ascii c in
  (((48 <=? n) && (n <=? 57)) || ((65 <=? n) && (n <=? 90)) || ((97 <=? n) && (n <=? 122)) || (n =? 95) || (n =? 46) || (n =? 45) || (n =? 126))%N.
Fixpoint in_string (c : ascii) (s : string) : bool :=
  match s with EmptyString => false | String a t => Ascii.eqb a c || in_string c t end.
Fixpoint pct_encode (safe : string) (s : string) : string :=
  match s with
  | EmptyString => EmptyString
  | String c t =>
      if always_safe c || in_string c safe then String c (pct_encode safe t)
      else String "%"%char (String (hex_digit (N_of_ascii c / 16)) (String (hex_digit (N_of_ascii c mod 16)) (pct_encode safe t)))
  end.
Fixpoint pct_decode (s : string) : string :=
  match s with
  | EmptyString => EmptyString
  | String c t =>
      if Ascii.eqb c "%"%char then
        match t with
        | String a (String b t') =>
            match hex_value a, hex_value b with
            | Some x, Some y => String (ascii_of_N (16 * x + y)) (pct_decode t')
            | _, _ => String c (pct_decode t)
            end
        | _ => String c (pct_decode t)
        end
      else String c (pct_decode t)
  end.

Section Geo.
Variables F Ftxt Cx Ctxt : Type.
Variable pf : F -> Ftxt.
Variable rf : Ftxt -> F.
Variable f_of_int : Z -> F.
Variable pc : Cx -> Ctxt.
Variable rc : Ctxt -> Cx.
Variable cx_of_f : F -> Cx.
Variable f_is_zero : F -> bool.   (* x == 0.0 *)
Variable c_is_zero : Cx -> bool.  (* z == 0j *)
(* urllib.parse.quote(text, safe=STRING_SAFE_CHARACTERS / NAME_SAFE_CHARACTERS) and unquote: string values and the names of
   user attributes are percent-encoded in the file *)
Variables enc_s dec_s enc_n dec_n : string -> string.

Notation tok := (tok Ftxt Ctxt).
Notation aval := (aval F Cx).
Notation attr := (attr F Cx).
Notation sattr := (sattr F Cx).
Notation mesh := (mesh F Cx).
Notation raw := (raw F Cx).
Notation fl := (@fl F Ftxt Ctxt pf).
Notation py_float := (@py_float F Ftxt Ctxt rf f_of_int).
Notation py_int := (@py_int Ftxt Ctxt).

Definition gw (s : string) : tok := TWord s.

(* ------------------------------------------------------------------ export *)
Definition print_aval (v : aval) : tok :=
  match v with
  | VBool b => TInt (if b then 1 else 0)
  | VInt z => TInt z
  | VFloat x => fl x
  | VCx c => TCx (pc c)
  | VStr s => TWord (enc_s s)
  end.

Definition geo_atts (h : list string) (n : Z) : list tok := map gw h ++ [TInt n].
Definition geo_attr_head (h : list string * Z * Z) : list tok :=
  let '(ws, bs, ar) := h in map gw ws ++ [TInt bs; TInt ar].
(* export_attribute *)
Definition geo_user_attr (cont : string) (a : attr) : list tok :=
  [gw geo_exp_user_kw; gw (qs cont); gw (qs (enc_n (a_name a))); gw (qs (geo_type_string (a_ty a)));
   TInt (geo_byte_size (a_ty a)); TInt (a_ar a)] ++ map print_aval (a_vals a).
Definition user_cont (k : nat) : string := nth k geo_exp_user_cont ""%string.

Fixpoint ptrs_from (p : Z) (els : list (list Z)) : list Z :=
  match els with [] => [] | f :: r => p :: ptrs_from (p + zlen f) r end.
Definition sum_len (els : list (list Z)) : Z := zlen (concat els).

(* save() computes the adjacency (attribute adjacent_cell of the cell facets) of a volume mesh whose cells are all
   tetrahedra; the exporter writes it when it exists *)
Definition has_adjacency (m : mesh) : bool := forallb (len_is save_adjacency_arity) (mC m).
Definition n_cell_facets (cells : list (list Z)) : Z := fold_right (fun c acc => geo_exp_cell_facets (zlen c) + acc) 0 cells.

(* the chunks export_geogram_ascii writes, in order; the face corners of a prepared mesh are the concatenation
   of its faces *)
Definition ti (z : Z) : tok := TInt z.
Definition geo_chunks (m : mesh) : list (list tok) :=
  [map gw geo_exp_head]
  ++ [geo_atts geo_exp_atts_V (zlen (mV m)); geo_attr_head geo_exp_attr_point ++ flat_map (fun v => map fl (v3 v)) (mV m)]
  ++ map (geo_user_attr (user_cont 0)) (aV m)
  ++ (if isnil (mE m) then [] else
        [geo_atts geo_exp_atts_E (zlen (mE m));
         geo_attr_head geo_exp_attr_edge_vertex ++ flat_map (fun e => [ti (fst e); ti (snd e)]) (mE m)]
        ++ map (geo_user_attr (user_cont 1)) (aE m))
  ++ (if isnil (mF m) then [] else
        [geo_atts geo_exp_atts_F (zlen (mF m))]
        ++ (if forallb (len_is 3) (mF m) then [] else [geo_attr_head geo_exp_attr_facet_ptr ++ map ti (ptrs_from 0 (mF m))])
        ++ map (geo_user_attr (user_cont 2)) (aF m)
        ++ [geo_atts geo_exp_atts_FC (sum_len (mF m)); geo_attr_head geo_exp_attr_fc_vertex ++ map ti (concat (mF m))]
        ++ map (geo_user_attr (user_cont 3)) (aFC m))
  ++ (if isnil (mC m) then [] else
        [geo_atts geo_exp_atts_C (zlen (mC m))]
        ++ (if forallb (len_is 4) (mC m) then [] else [geo_attr_head geo_exp_attr_cell_ptr ++ map ti (ptrs_from 0 (mC m))])
        ++ map (geo_user_attr (user_cont 4)) (aC m)
        ++ [geo_atts geo_exp_atts_CC (sum_len (mC m)); geo_attr_head geo_exp_attr_cc_vertex ++ map ti (concat (mC m))]
        ++ map (geo_user_attr (user_cont 5)) (aCC m)
        ++ [geo_atts geo_exp_atts_CF (n_cell_facets (mC m))]
        ++ (if has_adjacency m then [geo_attr_head geo_exp_attr_cf_adj ++ map ti (mAdj m)] else [])
        ++ map (geo_user_attr (user_cont 6)) (aCF m)).
Definition print_geo (m : mesh) : list tok := concat (geo_chunks m).

Definition save_geo (m : mesh) : option (list tok) := Some (print_geo m).

(* ------------------------------------------------------------------ import *)
Definition is_chunk_header (t : tok) : bool :=
  match t with TWord s => existsb (fun mk => contains mk s) geo_header_marks | _ => false end.

(* lines from the first header on, cut before every header *)
Fixpoint chunks_aux (l : list tok) : list tok * list (list tok) :=
  match l with
  | [] => ([], [])
  | t :: r => let '(pre, cs) := chunks_aux r in
              if is_chunk_header t then ([], (t :: pre) :: cs) else (t :: pre, cs)
  end.
Definition chunks (l : list tok) : list (list tok) := snd (chunks_aux l).

Record chunk := mkchunk {
  ck_type : Z;             (* 0 HEAD, 1 ATTR, 2 ATTS *)
  ck_cont : option Z;
  ck_name : tok;
  ck_dty : aty;
  ck_ar : Z;
  ck_data : list aval;
  ck_n : Z }.

Definition conv_data (t : aty) (x : tok) : option aval :=
  match t with
  | TyFloat => option_map (@VFloat F Cx) (py_float x)
  | TyInt => option_map (@VInt F Cx) (py_int x)
  | TyBool => option_map (fun z => @VBool F Cx (negb (z =? 0))) (py_int x)
  | TyComplex =>
      match x with
      | TInt z => Some (VCx (cx_of_f (f_of_int z)))
      | TFlt t => Some (VCx (cx_of_f (rf t)))
      | TCx c => Some (VCx (rc c))
      | TWord _ => None
      end
  | TyString => match x with TWord s => Some (VStr (dec_s s)) | _ => None end
  end.

Definition tok_container (t : tok) : option Z := match t with TWord s => geo_container_of_string s | _ => None end.
Definition tok_dtype (t : tok) : option aty := match t with TWord s => geo_type_from s | _ => None end.

Definition parse_chunk (l : list tok) : option chunk :=
  match nthz l geo_pos_type, nthz l geo_pos_cont with
  | Some h, Some c =>
      let cont := tok_container c in
      if is_word h geo_kw_head then Some (mkchunk 0 cont (TInt 0) TyInt 0 [] 0)
      else if is_word h geo_kw_atts then
        match nthz l geo_pos_n with
        | Some t => option_map (fun n => mkchunk 2 cont (TInt 0) TyInt 0 [] n) (py_int t)
        | None => None
        end
      else if is_word h geo_kw_attr then
        match nthz l geo_pos_name, nthz l geo_pos_dty, nthz l geo_pos_bs, nthz l geo_pos_ar with
        | Some nm, Some ty, Some bs, Some ar =>
            match tok_dtype ty, py_int bs, py_int ar with
            | Some dty, Some _, Some a =>
                option_map (fun d => mkchunk 1 cont nm dty a d 0) (omap (conv_data dty) (skipn (Z.to_nat geo_pos_data) l))
            | _, _, _ => None
            end
        | _, _, _, _ => None
        end
      else None
  | _, _ => None
  end.

Definition ocont_eqb (a b : option Z) : bool :=
  match a, b with Some x, Some y => x =? y | None, None => true | _, _ => false end.
Definition size_of (sizes : list (option Z * Z)) (c : Z) : Z :=
  match find (fun e => ocont_eqb (fst e) (Some c)) sizes with Some (_, n) => n | None => 0 end.
(* later [ATTS] chunks overwrite earlier ones: keep the most recent first *)
Definition sizes_of (cks : list chunk) : list (option Z * Z) :=
  fold_left (fun acc c => if ck_type c =? 2 then (ck_cont c, ck_n c) :: acc else acc) cks [].

Definition aval_int (v : aval) : option Z := match v with VInt z => Some z | _ => None end.
Definition aval_coord (v : aval) : option F :=
  match v with VFloat x => Some x | VInt z => Some (f_of_int z) | _ => None end.
Definition last_opt {A} (l : list A) : option A := nth_error l (length l - 1).

(* sizes of the facets (cells) from a *_ptr chunk: differences, then the last one from the corner count *)
Definition sizes_from_ptr (n ncorners : Z) (data : list Z) : option (list Z) :=
  match omap (fun i => match nthz data (i + 1), nthz data i with Some b, Some a => Some (b - a) | _, _ => None end) (zrange (n - 1)),
        last_opt data with
  | Some ds, Some lastp => Some (ds ++ [ncorners - lastp])
  | _, _ => None
  end.

Definition name_is (c : chunk) (s : string) : bool := is_word (ck_name c) s.

(* the pass that builds (n_corner_in_facet, facet_ptr, n_corner_in_cell, cell_ptr) *)
Definition ptr_pass (sizes : list (option Z * Z)) (cks : list chunk)
  : option (list Z * list Z * list Z * list Z) :=
  fold_left (fun st c =>
    match st with
    | None => None
    | Some (ncf, fptr, ncc, cptr) =>
        if (ck_type c =? 1) && name_is c geo_imp_facet_ptr then
          match omap aval_int (ck_data c) with
          | Some d => option_map (fun s => (ncf ++ s, d, ncc, cptr)) (sizes_from_ptr (size_of sizes 2) (size_of sizes 3) d)
          | None => None
          end
        else if (ck_type c =? 1) && name_is c geo_imp_cell_ptr then
          match omap aval_int (ck_data c) with
          | Some d => option_map (fun s => (ncf, fptr, ncc ++ s, d)) (sizes_from_ptr (size_of sizes 4) (size_of sizes 5) d)
          | None => None
          end
        else st
    end) cks (Some ([], [], [], [])).

Definition default_sizes (k n : Z) : list Z * list Z :=
  (map (fun _ => k) (zrange n), map (fun i => k * i) (zrange n)).

(* elements from a corner_vertex chunk: for i in range(n): [data[ptr[i] + j] for j in range(size[i])] *)
Definition elems_of (n : Z) (sz ptr : list Z) (data : list Z) : option (list (list Z)) :=
  omap (fun i => match nthz sz i, nthz ptr i with
                 | Some s, Some p => omap (fun j => py_nth data (p + j)) (zrange s)
                 | _, _ => None
                 end) (zrange n).

Definition ty_default (t : aty) : aval :=
  match t with TyBool => VBool false | TyInt => VInt 0 | TyFloat => VFloat (f_of_int 0) | TyComplex => VCx (cx_of_f (f_of_int 0)) | TyString => VStr "" end.
(* val != attr.default_value for a freshly created attribute of the chunk's own type *)
Definition not_default (v : aval) : bool :=
  match v with
  | VBool b => b
  | VInt z => negb (z =? 0)
  | VFloat x => negb (f_is_zero x)
  | VCx c => negb (c_is_zero c)
  | VStr s => negb (String.eqb s "")
  end.

Fixpoint take_items (k : nat) (ar : nat) (i : Z) (data : list aval) : list (Z * list aval) :=
  match k with
  | O => []
  | S k' => (i, firstn ar data) :: take_items k' ar (i + 1) (skipn ar data)
  end.

(* import_attribute on a fresh sparse attribute: the dictionary it leaves; None = ZeroDivisionError *)
Definition import_items (keep : aval -> bool) (ar : Z) (data : list aval) : option (list (Z * list aval)) :=
  if ar =? 0 then None
  else if ar <? 0 then Some []
  else
    let items := take_items (Z.to_nat (zlen data / ar)) (Z.to_nat ar) 0 data in
    if ar =? 1 then Some (filter (fun it => match snd it with [v] => keep v | _ => false end) items)
    else Some items.

(* create_attribute on a name that exists replaces the attribute and keeps its place *)
Fixpoint set_attr (l : list sattr) (a : sattr) : list sattr :=
  match l with
  | [] => [a]
  | b :: r => if String.eqb (s_name b) (s_name a) then a :: r else b :: set_attr r a
  end.

Definition raw_set_attrs (r : raw) (c : Z) (f : list sattr -> list sattr) : option raw :=
  let '(mkraw V E Fs C a0 a1 a2 a3 a4 a5 a6) := r in
  if c =? 0 then Some (mkraw V E Fs C (f a0) a1 a2 a3 a4 a5 a6)
  else if c =? 1 then Some (mkraw V E Fs C a0 (f a1) a2 a3 a4 a5 a6)
  else if c =? 2 then Some (mkraw V E Fs C a0 a1 (f a2) a3 a4 a5 a6)
  else if c =? 3 then Some (mkraw V E Fs C a0 a1 a2 (f a3) a4 a5 a6)
  else if c =? 4 then Some (mkraw V E Fs C a0 a1 a2 a3 (f a4) a5 a6)
  else if c =? 5 then Some (mkraw V E Fs C a0 a1 a2 a3 a4 (f a5) a6)
  else if c =? 6 then Some (mkraw V E Fs C a0 a1 a2 a3 a4 a5 (f a6))
  else None.

(* the adjacency attributes: integer attribute with default NOT_AN_ID *)
Definition import_adjacency (r : raw) (cont : Z) (name : string) (c : chunk) : option raw :=
  match ck_dty c with
  | TyInt =>
      match import_items (fun v => match v with VInt z => negb (z =? geo_not_an_id) | _ => true end) (ck_ar c) (ck_data c) with
      | Some items => raw_set_attrs r cont (fun l => set_attr l (mksattr name TyInt 1 items))
      | None => None
      end
  | TyBool =>
      match import_items (fun _ => true) (ck_ar c) (ck_data c) with
      | Some items => raw_set_attrs r cont (fun l => set_attr l (mksattr name TyInt 1
            (map (fun it => (fst it, map (fun v => match v with VBool b => @VInt F Cx (if b then 1 else 0) | x => x end) (snd it))) items)))
      | None => None
      end
  | _ => if isnil (ck_data c) then raw_set_attrs r cont (fun l => set_attr l (mksattr name TyInt 1 [])) else None
  end.

Definition special (k : nat) : Z * string * Z := nth k geo_imp_special (0 - 1, ""%string, 0).
Definition is_special (k : nat) (c : chunk) : bool :=
  let '(cont, nm, _) := special k in ocont_eqb (ck_cont c) (Some cont) && name_is c nm.
Definition special_arity (k : nat) : Z := let '(_, _, a) := special k in a.

Fixpoint group3 (k : nat) (l : list F) : list (list F) :=
  match k with
  | O => []
  | S k' => firstn 3 l :: group3 k' (skipn 3 l)
  end.

Definition geo_step (sizes : list (option Z * Z)) (ptrs : list Z * list Z * list Z * list Z) (r : raw) (c : chunk) : option raw :=
  let '(ncf, fptr, ncc, cptr) := ptrs in
  if negb (ck_type c =? 1) then Some r
  else if is_special 0 c then
    if ck_ar c =? special_arity 0 then
      match omap aval_coord (ck_data c) with
      | Some xs =>
          let '(mkraw V E Fs C a0 a1 a2 a3 a4 a5 a6) := r in
          Some (mkraw (V ++ group3 (Z.to_nat (zlen xs / ck_ar c)) xs) E Fs C a0 a1 a2 a3 a4 a5 a6)
      | None => None
      end
    else None
  else if is_special 1 c then
    if ck_ar c =? special_arity 1 then
      match omap aval_int (ck_data c) with
      | Some d =>
          match omap (fun i => match nthz d (2 * i), nthz d (2 * i + 1) with Some a, Some b => Some [a; b] | _, _ => None end)
                     (zrange (size_of sizes 1)) with
          | Some es => let '(mkraw V E Fs C a0 a1 a2 a3 a4 a5 a6) := r in Some (mkraw V (E ++ es) Fs C a0 a1 a2 a3 a4 a5 a6)
          | None => None
          end
      | None => None
      end
    else None
  else if is_special 2 c then
    if ck_ar c =? special_arity 2 then
      match omap aval_int (ck_data c) with
      | Some d =>
          match elems_of (size_of sizes 2) ncf fptr d with
          | Some fs => let '(mkraw V E Fs C a0 a1 a2 a3 a4 a5 a6) := r in Some (mkraw V E (Fs ++ fs) C a0 a1 a2 a3 a4 a5 a6)
          | None => None
          end
      | None => None
      end
    else None
  else if is_special 3 c then
    if ck_ar c =? special_arity 3 then import_adjacency r 3 geo_imp_opp_face c else None
  else if is_special 4 c then
    if ck_ar c =? special_arity 4 then
      match omap aval_int (ck_data c) with
      | Some d =>
          match elems_of (size_of sizes 4) ncc cptr d with
          | Some cs => let '(mkraw V E Fs C a0 a1 a2 a3 a4 a5 a6) := r in Some (mkraw V E Fs (C ++ cs) a0 a1 a2 a3 a4 a5 a6)
          | None => None
          end
      | None => None
      end
    else None
  else if is_special 5 c then
    if ck_ar c =? special_arity 5 then import_adjacency r 6 geo_imp_opp_cell c else None
  else if existsb (name_is c) geo_imp_skip then Some r
  else
    match ck_cont c, ck_name c with
    | Some cont, TWord nm =>
        match split_quote_1 nm, import_items not_default (ck_ar c) (ck_data c) with
        | Some name, Some items => raw_set_attrs r cont (fun l => set_attr l (mksattr (dec_n name) (ck_dty c) (ck_ar c) items))
        | _, _ => None
        end
    | _, _ => None
    end.

Definition parse_geo (toks : list tok) : option raw :=
  match omap parse_chunk (chunks toks) with
  | None => None
  | Some cks =>
      let sizes := sizes_of cks in
      match ptr_pass sizes cks with
      | None => None
      | Some (ncf, fptr, ncc, cptr) =>
          let '(ncf, fptr) := if isnil ncf && (size_of sizes 2 >? 0) then default_sizes geo_imp_default_facet (size_of sizes 2) else (ncf, fptr) in
          let '(ncc, cptr) := if isnil ncc && (size_of sizes 4 >? 0) then default_sizes geo_imp_default_cell (size_of sizes 4) else (ncc, cptr) in
          fold_left (fun st c => match st with Some r => geo_step sizes (ncf, fptr, ncc, cptr) r c | None => None end)
                    cks (Some (raw_of Cx [] [] [] []))
      end
  end.

(* ------------------------------------------------------------------ what a lossless round trip gives back *)
(* the sparse dictionary import_attribute builds from the dense values: arity 1 keeps the non-default ones *)
Definition sparse_of (a : attr) : sattr :=
  mksattr (a_name a) (a_ty a) (a_ar a)
          (match import_items not_default (a_ar a) (a_vals a) with Some it => it | None => [] end).
Definition adjacency_sattr (name : string) (adj : list Z) : sattr :=
  mksattr name TyInt 1
          (match import_items (fun v => match v with VInt z => negb (z =? geo_not_an_id) | _ => true end) 1 (map (@VInt F Cx) adj)
           with Some it => it | None => [] end).

Definition vocab_geo (m : mesh) : raw :=
  mkraw (map v3 (mV m)) (map e2 (mE m)) (mF m) (mC m)
        (map sparse_of (aV m))
        (if isnil (mE m) then [] else map sparse_of (aE m))
        (if isnil (mF m) then [] else map sparse_of (aF m))
        (if isnil (mF m) then [] else map sparse_of (aFC m))
        (if isnil (mC m) then [] else map sparse_of (aC m))
        (if isnil (mC m) then [] else map sparse_of (aCC m))
        (if isnil (mC m) then [] else
           (if has_adjacency m then [adjacency_sattr geo_imp_opp_cell (mAdj m)] else []) ++ map sparse_of (aCF m)).

(* reading a sparse attribute densely: attr[i] for i < n, flattened (default where no key) *)
Definition dense_of (n : Z) (s : sattr) : list aval :=
  flat_map (fun i => match find (fun it => fst it =? i) (s_items s) with
                     | Some it => snd it
                     | None => map (fun _ => ty_default (s_ty s)) (zrange (s_ar s))
                     end) (zrange n).

End Geo.
